import SimuVerif.Model.Population
/-
  C08 — lemmas about the population model: the invariant, and its preservation by every phase.
  Core Lean only (no Mathlib needed): lists, `omega`, `simp`.
-/
namespace Simu.Pop

/-! ### Prop-level reading of the Bool checks -/

theorem nidsOKb_iff {ns : List Node} : nidsOKb ns = true ↔ ∀ (k : Nat) (n : Node), ns[k]? = some n → n.nid = k := by
  unfold nidsOKb
  rw [List.all_eq_true]
  constructor
  · intro h k n hk
    have := h (n, k) (by simpa [List.mk_mem_zipIdx_iff_getElem?] using hk)
    simpa using this
  · intro h p hp
    rw [List.mem_zipIdx_iff_getElem?] at hp
    simpa using h p.2 p.1 hp

/-- a used face points back to the object `obj`, to used nodes of `ns` -/
def FaceRefsOK (obj : Nat) (ns : List Node) (f : Face) : Prop :=
  f.used = true → f.owner = some obj ∧ nodeUsedAt ns f.n1 = true ∧ nodeUsedAt ns f.n2 = true ∧ nodeUsedAt ns f.n3 = true

theorem faceRefsOKb_iff {obj : Nat} {ns : List Node} {f : Face} : faceRefsOKb obj ns f = true ↔ FaceRefsOK obj ns f := by
  unfold faceRefsOKb FaceRefsOK
  cases hu : f.used <;> simp [and_assoc]

/-- per-cell well-formedness: node ids are positions; used faces point back to the cell, to used
nodes, and their type index is inside the face-type table; the table is as long as the cell class needs -/
structure CellOK (c : Cell) : Prop where
  nids : ∀ (k : Nat) (n : Node), c.nodes[k]? = some n → n.nid = k
  refs : ∀ f ∈ c.faces, FaceRefsOK c.obj c.nodes f
  types : ∀ f ∈ c.faces, f.used = true → f.typeIdx < c.nTypes
  admissible : reqTypes c.kind ≤ c.nTypes

theorem cellOKb_iff {c : Cell} : cellOKb c = true ↔ CellOK c := by
  unfold cellOKb
  simp only [Bool.and_eq_true, nidsOKb_iff, List.all_eq_true, decide_eq_true_eq, faceOKb, faceRefsOKb_iff]
  constructor
  · rintro ⟨⟨h1, h2⟩, h3⟩
    refine ⟨h1, fun f hf => (h2 f hf).1, fun f hf hu => ?_, h3⟩
    have := (h2 f hf).2
    simpa [hu] using this
  · rintro ⟨h1, h2, h3, h4⟩
    refine ⟨⟨h1, fun f hf => ⟨h2 f hf, ?_⟩⟩, h4⟩
    cases hu : f.used
    · simp
    · simpa using h3 f hf hu

theorem one_le_reqTypes (k : Nat) : 1 ≤ reqTypes k := by unfold reqTypes; split <;> omega

theorem CellOK.one_le {c : Cell} (h : CellOK c) : 1 ≤ c.nTypes := Nat.le_trans (one_le_reqTypes _) h.admissible

/-- what a mesh operation may deliver (Prop reading of `meshForb`) -/
structure MeshFor (obj : Nat) (old : List Face) (m : Mesh) : Prop where
  nids : ∀ (k : Nat) (n : Node), m.nodes[k]? = some n → n.nid = k
  refs : ∀ f ∈ m.faces, FaceRefsOK obj m.nodes f
  types : ∀ f ∈ m.faces, f.used = true → f.typeIdx = 0 ∨ ∃ g ∈ old, g.used = true ∧ g.typeIdx = f.typeIdx

theorem meshForb_iff {obj : Nat} {old : List Face} {m : Mesh} : meshForb obj old m = true ↔ MeshFor obj old m := by
  unfold meshForb typesFromb
  simp only [Bool.and_eq_true, nidsOKb_iff, List.all_eq_true, faceRefsOKb_iff, Bool.or_eq_true,
    Bool.not_eq_true', List.any_eq_true, beq_iff_eq]
  constructor
  · rintro ⟨⟨h1, h2⟩, h3⟩
    refine ⟨h1, h2, fun f hf hu => ?_⟩
    rcases h3 f hf with (h | h) | h
    · simp [hu] at h
    · exact Or.inl h
    · exact Or.inr h
  · rintro ⟨h1, h2, h3⟩
    refine ⟨⟨h1, h2⟩, fun f hf => ?_⟩
    cases hu : f.used
    · simp
    · rcases h3 f hf hu with h | h
      · exact Or.inl (Or.inr h)
      · exact Or.inr h

/-- a cell that receives a mesh delivered for it stays well formed -/
theorem cellOK_setMesh {c : Cell} {m : Mesh} (hc : CellOK c) (hm : MeshFor c.obj c.faces m) : CellOK (setMesh c m) := by
  refine ⟨hm.nids, hm.refs, fun f hf hu => ?_, hc.admissible⟩
  rcases hm.types f hf hu with h | ⟨g, hg, hgu, hgt⟩
  · show f.typeIdx < c.nTypes
    have := hc.one_le; omega
  · show f.typeIdx < c.nTypes
    rw [← hgt]; exact hc.types g hg hgu

/-! ### the invariant -/

/-- the part of the invariant that does not mention list positions -/
structure J (cells : List Cell) (maxId nextObj : Nat) : Prop where
  idsNodup : (cells.map (·.cellId)).Nodup
  idsLt : ∀ c ∈ cells, c.cellId < maxId
  objsNodup : (cells.map (·.obj)).Nodup
  objsLt : ∀ c ∈ cells, c.obj < nextObj
  cellsOK : ∀ c ∈ cells, CellOK c

/-- **The invariant at every point where the list is used.**
`localIds`: the position index of each cell equals its place in the list; `idsNodup`/`idsLt`:
persistent ids are unique and below the counter; `objsNodup`: distinct list entries are distinct
objects (so an owner pointer designates one place); `cellsOK`: owner pointer and face-type index of every used
face are valid. -/
structure InvBase (s : State) : Prop where
  j : J s.cells s.maxId s.nextObj
  localIds : ∀ (i : Nat) (c : Cell), s.cells[i]? = some c → c.localId = i

/-- every stored coupling of a used node designates a used node of another cell of the list -/
def CouplingsValid (cells : List Cell) : Prop :=
  ∀ (i : Nat) (c : Cell), cells[i]? = some c → ∀ n ∈ c.nodes, n.used = true → ∀ (c2 n2 : Nat), n.coupled = some (c2, n2) →
    c2 ≠ i ∧ ∃ cell, cells[c2]? = some cell ∧ nodeUsedAt cell.nodes n2 = true

/-- the invariant between the contact phase and the end of the time integration -/
structure InvUse (s : State) : Prop where
  base : InvBase s
  couplings : CouplingsValid s.cells

/-! ### list helpers -/

theorem map_eq_mapIdx {α β : Type} (f : α → β) (l : List α) : l.map f = l.mapIdx (fun _ => f) := by
  apply List.ext_getElem?; intro i; simp

theorem mem_mapIdx_iff {α β : Type} {g : Nat → α → β} {l : List α} {b : β} :
    b ∈ l.mapIdx g ↔ ∃ i a, l[i]? = some a ∧ g i a = b := by
  rw [List.mem_iff_getElem?]
  constructor
  · rintro ⟨i, hi⟩
    rw [List.getElem?_mapIdx] at hi
    cases ha : l[i]? with
    | none => simp [ha] at hi
    | some a => exact ⟨i, a, ha, by simpa [ha] using hi⟩
  · rintro ⟨i, a, ha, hg⟩
    exact ⟨i, by rw [List.getElem?_mapIdx, ha]; simp [hg]⟩

theorem map_mapIdx_of {α β γ : Type} {g : Nat → α → β} {f : β → γ} {f' : α → γ} {l : List α}
    (h : ∀ (i : Nat) (a : α), l[i]? = some a → f (g i a) = f' a) : (l.mapIdx g).map f = l.map f' := by
  apply List.ext_getElem?; intro i
  simp only [List.getElem?_map, List.getElem?_mapIdx]
  cases ha : l[i]? with
  | none => rfl
  | some a => simp [h i a ha]

/-- an operation that rewrites each cell in place, keeping object, id and well-formedness, keeps `J` -/
theorem J.mapIdx {cells : List Cell} {m o : Nat} {g : Nat → Cell → Cell} (h : J cells m o)
    (hid : ∀ (i : Nat) (c : Cell), cells[i]? = some c → (g i c).cellId = c.cellId)
    (hobj : ∀ (i : Nat) (c : Cell), cells[i]? = some c → (g i c).obj = c.obj)
    (hok : ∀ (i : Nat) (c : Cell), cells[i]? = some c → CellOK c → CellOK (g i c)) : J (cells.mapIdx g) m o := by
  refine ⟨?_, ?_, ?_, ?_, ?_⟩
  · rw [map_mapIdx_of (f' := (·.cellId)) hid]; exact h.idsNodup
  · intro c hc
    obtain ⟨i, a, ha, rfl⟩ := mem_mapIdx_iff.1 hc
    rw [hid i a ha]; exact h.idsLt a (List.mem_of_getElem? ha)
  · rw [map_mapIdx_of (f' := (·.obj)) hobj]; exact h.objsNodup
  · intro c hc
    obtain ⟨i, a, ha, rfl⟩ := mem_mapIdx_iff.1 hc
    rw [hobj i a ha]; exact h.objsLt a (List.mem_of_getElem? ha)
  · intro c hc
    obtain ⟨i, a, ha, rfl⟩ := mem_mapIdx_iff.1 hc
    exact hok i a ha (h.cellsOK a (List.mem_of_getElem? ha))

theorem InvBase.mapIdx {s : State} {g : Nat → Cell → Cell} (h : InvBase s)
    (hid : ∀ (i : Nat) (c : Cell), s.cells[i]? = some c → (g i c).cellId = c.cellId)
    (hobj : ∀ (i : Nat) (c : Cell), s.cells[i]? = some c → (g i c).obj = c.obj)
    (hloc : ∀ (i : Nat) (c : Cell), s.cells[i]? = some c → (g i c).localId = c.localId)
    (hok : ∀ (i : Nat) (c : Cell), s.cells[i]? = some c → CellOK c → CellOK (g i c)) :
    InvBase { s with cells := s.cells.mapIdx g } := by
  refine ⟨h.j.mapIdx hid hobj hok, ?_⟩
  intro i c hc
  simp only [List.getElem?_mapIdx] at hc
  cases ha : s.cells[i]? with
  | none => simp [ha] at hc
  | some a =>
    simp only [ha, Option.map_some, Option.some.injEq] at hc
    rw [← hc, hloc i a ha]; exact h.localIds i a ha

/-! ### mesh operations: `rebase`, `refine_meshes` -/

theorem remeshOKb_get {ms : List (Option Mesh)} {s : State} (h : remeshOKb ms s = true)
    {i : Nat} {c : Cell} (hc : s.cells[i]? = some c) {m : Mesh} (hm : ms[i]? = some (some m)) :
    MeshFor c.obj c.faces m := by
  unfold remeshOKb at h
  rw [List.all_eq_true] at h
  have := h (c, i) (by simpa [List.mk_mem_zipIdx_iff_getElem?] using hc)
  simp only [hm] at this
  exact meshForb_iff.1 this

theorem remesh_inv {ms : List (Option Mesh)} {s : State} (h : InvBase s) (hok : remeshOKb ms s = true) :
    InvBase (remesh ms s) := by
  unfold remesh
  apply h.mapIdx
  · intro i c _; unfold remeshCell; split <;> rfl
  · intro i c _; unfold remeshCell; split <;> rfl
  · intro i c _; unfold remeshCell; split <;> rfl
  · intro i c hc hcok
    unfold remeshCell
    split
    · next m hm => exact cellOK_setMesh hcok (remeshOKb_get hok hc hm)
    · exact hcok

/-! ### `update_face_types` -/

theorem cellOK_resetFaceTypes {c : Cell} (h : CellOK c) : CellOK (resetFaceTypes c) := by
  unfold resetFaceTypes
  split
  · refine ⟨h.nids, ?_, ?_, h.admissible⟩
    · intro f hf
      obtain ⟨g, hg, rfl⟩ := List.mem_map.1 hf
      exact h.refs g hg
    · intro f hf _
      obtain ⟨g, hg, rfl⟩ := List.mem_map.1 hf
      show 0 < c.nTypes
      exact h.one_le
  · exact h

theorem updateFaceTypes_inv {s : State} (h : InvBase s) : InvBase (updateFaceTypes s) := by
  unfold updateFaceTypes
  rw [map_eq_mapIdx]
  apply h.mapIdx
  · intro i c _; unfold resetFaceTypes; split <;> rfl
  · intro i c _; unfold resetFaceTypes; split <;> rfl
  · intro i c _; unfold resetFaceTypes; split <;> rfl
  · intro i c _ hc; exact cellOK_resetFaceTypes hc

/-! ### polarisation -/

theorem cellOK_polariseCell {c : Cell} (h : CellOK c) (pol : Nat → Nat → Bool) (i : Nat) : CellOK (polariseCell pol i c) := by
  unfold polariseCell
  split
  · next hk =>
    have h2 : 2 ≤ c.nTypes := by have := h.admissible; simpa [reqTypes, hk] using this
    refine ⟨h.nids, ?_, ?_, h.admissible⟩
    · intro f hf
      obtain ⟨fi, g, hg, rfl⟩ := mem_mapIdx_iff.1 hf
      have := h.refs g (List.mem_of_getElem? hg)
      split
      · exact this
      · exact this
    · intro f hf hu
      obtain ⟨fi, g, hg, rfl⟩ := mem_mapIdx_iff.1 hf
      show (if _ then _ else g).typeIdx < c.nTypes
      split
      · show (if pol i fi = true then 1 else 0) < c.nTypes
        split <;> omega
      · next hcond =>
        refine h.types g (List.mem_of_getElem? hg) ?_
        simpa [hcond] using hu
  · exact h

theorem polariseCell_nodes (pol : Nat → Nat → Bool) (i : Nat) (c : Cell) : (polariseCell pol i c).nodes = c.nodes := by
  unfold polariseCell; split <;> rfl

theorem polarise_invBase {s : State} (pol : Nat → Nat → Bool) (h : InvBase s) : InvBase (polarise pol s) := by
  unfold polarise
  apply h.mapIdx
  · intro i c _; unfold polariseCell; split <;> rfl
  · intro i c _; unfold polariseCell; split <;> rfl
  · intro i c _; unfold polariseCell; split <;> rfl
  · intro i c _ hc; exact cellOK_polariseCell hc pol i

/-- rewriting cells without touching their node lists keeps every coupling valid -/
theorem CouplingsValid.mapIdx {cells : List Cell} {g : Nat → Cell → Cell} (h : CouplingsValid cells)
    (hn : ∀ (i : Nat) (c : Cell), cells[i]? = some c → (g i c).nodes = c.nodes) : CouplingsValid (cells.mapIdx g) := by
  intro i c hc n hn' hu c2 n2 hcp
  rw [List.getElem?_mapIdx] at hc
  cases ha : cells[i]? with
  | none => simp [ha] at hc
  | some a =>
    simp only [ha, Option.map_some, Option.some.injEq] at hc
    subst hc
    rw [hn i a ha] at hn'
    obtain ⟨hne, cell, hcell, hused⟩ := h i a ha n hn' hu c2 n2 hcp
    refine ⟨hne, g c2 cell, by rw [List.getElem?_mapIdx, hcell]; rfl, ?_⟩
    rw [hn c2 cell hcell]; exact hused

theorem polarise_inv {s : State} (pol : Nat → Nat → Bool) (h : InvUse s) : InvUse (polarise pol s) :=
  ⟨polarise_invBase pol h.base, h.couplings.mapIdx (fun i c _ => polariseCell_nodes pol i c)⟩

/-! ### removal and renumbering -/

theorem removeIdxAux_sublist {α : Type} (l : List α) (i : Nat) (rm : List Nat) : (removeIdxAux l i rm).Sublist l := by
  induction l generalizing i with
  | nil => exact List.Sublist.slnil
  | cons a as ih =>
    unfold removeIdxAux
    split
    · exact (ih (i + 1)).cons a
    · exact (ih (i + 1)).cons_cons a

theorem removeIdx_sublist {α : Type} (l : List α) (rm : List Nat) : (removeIdx l rm).Sublist l :=
  removeIdxAux_sublist l 0 rm

theorem J.sublist {cells cells' : List Cell} {m o : Nat} (h : J cells m o) (hs : cells'.Sublist cells) : J cells' m o :=
  ⟨h.idsNodup.sublist (hs.map _), fun c hc => h.idsLt c (hs.subset hc),
   h.objsNodup.sublist (hs.map _), fun c hc => h.objsLt c (hs.subset hc), fun c hc => h.cellsOK c (hs.subset hc)⟩

/-- `erase(remove_if(…))` keeps everything but the positions -/
theorem eraseSmall_J {s : State} (rm : List Nat) (h : J s.cells s.maxId s.nextObj) :
    J (eraseSmall rm s).cells (eraseSmall rm s).maxId (eraseSmall rm s).nextObj :=
  h.sublist (removeIdx_sublist _ _)

theorem CellOK.withLocalId {c : Cell} (h : CellOK c) (i : Nat) : CellOK { c with localId := i } :=
  ⟨h.nids, h.refs, h.types, h.admissible⟩

theorem renumberCells_J {cells : List Cell} {m o : Nat} (h : J cells m o) : J (renumberCells cells) m o := by
  unfold renumberCells
  exact h.mapIdx (fun _ _ _ => rfl) (fun _ _ _ => rfl) (fun i _ _ hc => hc.withLocalId i)

theorem renumberCells_localIds (cells : List Cell) (i : Nat) (c : Cell) (hc : (renumberCells cells)[i]? = some c) : c.localId = i := by
  unfold renumberCells at hc
  rw [List.getElem?_mapIdx] at hc
  cases ha : cells[i]? with
  | none => simp [ha] at hc
  | some a =>
    simp only [ha, Option.map_some, Option.some.injEq] at hc
    rw [← hc]

/-- the renumbering loop re-establishes `local id = position` -/
theorem renumber_inv {s : State} (h : J s.cells s.maxId s.nextObj) : InvBase (renumber s) :=
  ⟨renumberCells_J h, renumberCells_localIds s.cells⟩

/-! ### `cell_divider::run` -/

theorem modify_eq_mapIdx {α : Type} (l : List α) (i : Nat) (f : α → α) :
    l.modify i f = l.mapIdx (fun j a => if i = j then f a else a) := by
  apply List.ext_getElem?; intro j
  rw [List.getElem?_modify, List.getElem?_mapIdx]; rfl

theorem cellOK_of_meshFor {c mother : Cell} {m : Mesh} (hm : CellOK mother) (hmesh : MeshFor c.obj mother.faces m)
    (hn : c.nodes = m.nodes) (hf : c.faces = m.faces) (hk : c.kind = mother.kind) (ht : c.nTypes = mother.nTypes) :
    CellOK c := by
  refine ⟨by rw [hn]; exact hmesh.nids, by rw [hn, hf]; exact hmesh.refs, ?_, by rw [hk, ht]; exact hm.admissible⟩
  intro f hf' hu
  rw [hf] at hf'
  rw [ht]
  rcases hmesh.types f hf' hu with h | ⟨g, hg, hgu, hgt⟩
  · have := hm.one_le; omega
  · rw [← hgt]; exact hm.types g hg hgu

theorem cellOK_clearCell (c : Cell) (h : CellOK c) : CellOK (clearCell c) :=
  ⟨by intro k n hk; simp [clearCell] at hk, by intro f hf; simp [clearCell] at hf,
   by intro f hf; simp [clearCell] at hf, h.admissible⟩

/-- two fresh objects with the next two ids appended to the list -/
theorem J.append_fresh {cells : List Cell} {m o : Nat} {a b : Cell} (h : J cells m o)
    (ha : a.cellId = m) (hb : b.cellId = m + 1) (hao : a.obj = o) (hbo : b.obj = o + 1)
    (hac : CellOK a) (hbc : CellOK b) : J (cells ++ [a, b]) (m + 2) (o + 2) := by
  refine ⟨?_, ?_, ?_, ?_, ?_⟩
  · rw [List.map_append, List.nodup_append]
    refine ⟨h.idsNodup, by simp [ha, hb], ?_⟩
    intro x hx y hy
    obtain ⟨c, hc, rfl⟩ := List.mem_map.1 hx
    have := h.idsLt c hc
    simp [ha, hb] at hy
    omega
  · intro c hc
    rcases List.mem_append.1 hc with hc | hc
    · have := h.idsLt c hc; omega
    · simp at hc; rcases hc with rfl | rfl <;> omega
  · rw [List.map_append, List.nodup_append]
    refine ⟨h.objsNodup, by simp [hao, hbo], ?_⟩
    intro x hx y hy
    obtain ⟨c, hc, rfl⟩ := List.mem_map.1 hx
    have := h.objsLt c hc
    simp [hao, hbo] at hy
    omega
  · intro c hc
    rcases List.mem_append.1 hc with hc | hc
    · have := h.objsLt c hc; omega
    · simp at hc; rcases hc with rfl | rfl <;> omega
  · intro c hc
    rcases List.mem_append.1 hc with hc | hc
    · exact h.cellsOK c hc
    · simp at hc; rcases hc with rfl | rfl <;> assumption

/-- the two shapes of `cell_divider::run` the theorems cover: daughters appended to the list inside the
critical section (A), or collected in a local vector and appended once after the loop (B) -/
def critA : List DivStmt := [.clearMother, .markDelete, .freshId1, .freshId2, .push1, .push2]
def critB : List DivStmt := [.clearMother, .markDelete, .freshId1, .freshId2, .collect1, .collect2]
def postAsModelled : List DivPost := [.sortDelete, .removeIndex, .renumber]

def DivShape (code : Code) : Prop :=
  (code.crit = critA ∧ code.afterLoop = [] ∧ code.post = postAsModelled) ∨
  (code.crit = critB ∧ code.afterLoop = [.appendDaughters] ∧ code.post = postAsModelled)

instance (code : Code) : Decidable (DivShape code) := by unfold DivShape; exact inferInstance

def daughter1 (st : DState) (mother : Cell) (d : Daughters) : Cell :=
  { mkDaughter mother st.nextObj d.m1 d.junk1 with cellId := st.maxId }
def daughter2 (st : DState) (mother : Cell) (d : Daughters) : Cell :=
  { mkDaughter mother (st.nextObj + 1) d.m2 d.junk2 with cellId := st.maxId + 1 }

theorem divOneA_eq {st : DState} {i : Nat} {d : Daughters} {mother : Cell} (hm : st.cells[i]? = some mother) :
    divOne critA st i d =
      { cells := st.cells.modify i clearCell ++ [daughter1 st mother d, daughter2 st mother d],
        maxId := st.maxId + 2, nextObj := st.nextObj + 2, toDelete := st.toDelete ++ [i], pending := st.pending,
        d1 := daughter1 st mother d, d2 := daughter2 st mother d } := by
  simp [divOne, hm, critA, List.foldl, runDivStmt, List.append_assoc, daughter1, daughter2]

theorem divOneB_eq {st : DState} {i : Nat} {d : Daughters} {mother : Cell} (hm : st.cells[i]? = some mother) :
    divOne critB st i d =
      { cells := st.cells.modify i clearCell,
        maxId := st.maxId + 2, nextObj := st.nextObj + 2, toDelete := st.toDelete ++ [i],
        pending := st.pending ++ [daughter1 st mother d, daughter2 st mother d],
        d1 := daughter1 st mother d, d2 := daughter2 st mother d } := by
  simp [divOne, hm, critB, List.foldl, runDivStmt, List.append_assoc, daughter1, daughter2]

theorem divStepOKb_get {n0 : Nat} {st : DState} {i : Nat} {d : Daughters} (h : divStepOKb n0 st i d = true) :
    ∃ mother, st.cells[i]? = some mother ∧ MeshFor st.nextObj mother.faces d.m1 ∧ MeshFor (st.nextObj + 1) mother.faces d.m2 := by
  unfold divStepOKb at h
  cases hm : st.cells[i]? with
  | none => simp [hm] at h
  | some mother =>
    simp only [hm, Bool.and_eq_true] at h
    exact ⟨mother, rfl, meshForb_iff.1 h.2.1, meshForb_iff.1 h.2.2⟩

theorem modify_append_left {α : Type} {l₁ l₂ : List α} {i : Nat} (f : α → α) (hi : i < l₁.length) :
    l₁.modify i f ++ l₂ = (l₁ ++ l₂).modify i f := by
  apply List.ext_getElem?; intro j
  rw [List.getElem?_modify]
  by_cases hj : j < l₁.length
  · rw [List.getElem?_append_left (by rw [List.length_modify]; exact hj), List.getElem?_append_left hj, List.getElem?_modify]
  · have hij : i ≠ j := by omega
    rw [List.getElem?_append_right (by rw [List.length_modify]; omega), List.getElem?_append_right (by omega), List.length_modify]
    cases l₂[j - l₁.length]? <;> simp [hij]

theorem J.clear_at {cells : List Cell} {m o : Nat} (h : J cells m o) (i : Nat) : J (cells.modify i clearCell) m o := by
  rw [modify_eq_mapIdx]
  apply h.mapIdx
  · intro j c _; split <;> rfl
  · intro j c _; split <;> rfl
  · intro j c _ hc; split
    · exact cellOK_clearCell c hc
    · exact hc

/-- invariant of the loop of `cell_divider::run`: the list together with the collected daughters -/
def DJ (st : DState) : Prop := J (st.cells ++ st.pending) st.maxId st.nextObj

theorem divOne_DJ {crit : List DivStmt} (hcr : crit = critA ∨ crit = critB) {n0 : Nat} {st : DState} {i : Nat} {d : Daughters}
    (h : DJ st) (hok : divStepOKb n0 st i d = true) :
    DJ (divOne crit st i d) ∧ (divOne crit st i d).toDelete.length = st.toDelete.length + 1 := by
  obtain ⟨mother, hm, hm1, hm2⟩ := divStepOKb_get hok
  have hi : i < st.cells.length := (List.getElem?_eq_some_iff.1 hm).1
  have hmo : CellOK mother := h.cellsOK mother (List.mem_append_left _ (List.mem_of_getElem? hm))
  have h1 : CellOK (daughter1 st mother d) := cellOK_of_meshFor hmo hm1 rfl rfl rfl rfl
  have h2 : CellOK (daughter2 st mother d) := cellOK_of_meshFor hmo hm2 rfl rfl rfl rfl
  have hJ : J ((st.cells.modify i clearCell ++ st.pending) ++ [daughter1 st mother d, daughter2 st mother d])
      (st.maxId + 2) (st.nextObj + 2) := by
    rw [modify_append_left _ hi]
    exact J.append_fresh (h.clear_at i) rfl rfl rfl rfl h1 h2
  rcases hcr with rfl | rfl
  · rw [divOneA_eq hm]
    refine ⟨?_, by simp⟩
    unfold DJ
    simp only
    -- (cells.modify ++ [d1,d2]) ++ pending : same members as (cells.modify ++ pending) ++ [d1,d2]
    have hp : ((st.cells.modify i clearCell ++ [daughter1 st mother d, daughter2 st mother d]) ++ st.pending).Perm
        ((st.cells.modify i clearCell ++ st.pending) ++ [daughter1 st mother d, daughter2 st mother d]) := by
      rw [List.append_assoc, List.append_assoc]
      exact List.Perm.append_left _ List.perm_append_comm
    exact ⟨(hp.map _).nodup_iff.2 hJ.idsNodup, fun c hc => hJ.idsLt c (hp.mem_iff.1 hc),
      (hp.map _).nodup_iff.2 hJ.objsNodup, fun c hc => hJ.objsLt c (hp.mem_iff.1 hc), fun c hc => hJ.cellsOK c (hp.mem_iff.1 hc)⟩
  · rw [divOneB_eq hm]
    refine ⟨?_, by simp⟩
    unfold DJ
    simp only
    rw [← List.append_assoc]
    exact hJ

theorem divFold_DJ {crit : List DivStmt} (hcr : crit = critA ∨ crit = critB) {n0 : Nat} (ev : List (Nat × Daughters)) (st : DState)
    (h : DJ st) (hok : divFoldOKb crit n0 st ev = true) :
    DJ (divFold crit st ev) ∧ (divFold crit st ev).toDelete.length = st.toDelete.length + ev.length := by
  induction ev generalizing st with
  | nil => exact ⟨h, by simp [divFold]⟩
  | cons p rest ih =>
    obtain ⟨i, d⟩ := p
    simp only [divFoldOKb, Bool.and_eq_true] at hok
    obtain ⟨h1, h2⟩ := divOne_DJ hcr h hok.1
    obtain ⟨h3, h4⟩ := ih _ h1 hok.2
    refine ⟨h3, ?_⟩
    simp only [divFold, List.length_cons]
    rw [h4, h2]; omega

/-- under shape A nothing is ever collected -/
theorem divFoldA_pending (ev : List (Nat × Daughters)) (st : DState) : (divFold critA st ev).pending = st.pending := by
  induction ev generalizing st with
  | nil => rfl
  | cons p rest ih =>
    obtain ⟨i, d⟩ := p
    simp only [divFold]
    rw [ih]
    cases hm : st.cells[i]? with
    | none => simp [divOne, hm]
    | some mother => rw [divOneA_eq hm]

/-- **The division round keeps the invariant**: mothers cleared and removed with `remove_index`,
daughters appended with the next two ids each, everybody renumbered. -/
theorem divisionRound_inv {code : Code} (hs : DivShape code)
    {ev : DivEv} {s : State} (h : InvBase s) (hok : divOKb code ev s = true) : InvBase (divisionRound code ev s) := by
  unfold divOKb at hok
  have hcr : code.crit = critA ∨ code.crit = critB := by rcases hs with h | h; exact Or.inl h.1; exact Or.inr h.1
  have h0 : DJ (dstate0 s) := by unfold DJ dstate0; simpa using h.j
  obtain ⟨hJ, hlen⟩ := divFold_DJ hcr ev (dstate0 s) h0 hok
  cases ev with
  | nil =>
    unfold divisionRound
    rcases hs with ⟨_, h2, _⟩ | ⟨_, h2, _⟩
    · rw [h2]; simpa [divFold, dstate0] using h
    · rw [h2]; simpa [divFold, dstate0, runDivPost] using h
  | cons p rest =>
    have hpos : (divFold code.crit (dstate0 s) (p :: rest)).toDelete.length > 0 := by
      rw [hlen]; simp only [List.length_cons]; omega
    unfold divisionRound
    rcases hs with ⟨h1, h2, h3⟩ | ⟨h1, h2, h3⟩
    · rw [h2, h3]
      simp only [List.foldl, hpos, if_true, postAsModelled, runDivPost]
      have hp0 : (divFold code.crit (dstate0 s) (p :: rest)).pending = [] := by rw [h1, divFoldA_pending]; rfl
      unfold DJ at hJ
      rw [hp0, List.append_nil] at hJ
      exact ⟨renumberCells_J (hJ.sublist (removeIdx_sublist _ _)), renumberCells_localIds _⟩
    · rw [h2, h3]
      simp only [List.foldl, runDivPost, hpos, if_true, postAsModelled]
      exact ⟨renumberCells_J (J.sublist hJ (removeIdx_sublist _ _)), renumberCells_localIds _⟩

/-! ### owner pointers: `f->get_owner_cell()` -/

theorem lookupObjAux_some {cells : List Cell} {o off p : Nat} {c : Cell} (h : lookupObjAux cells off o = some (p, c)) :
    off ≤ p ∧ cells[p - off]? = some c ∧ c.obj = o := by
  induction cells generalizing off with
  | nil => simp [lookupObjAux] at h
  | cons a as ih =>
    unfold lookupObjAux at h
    split at h
    · next ho =>
      simp only [Option.some.injEq, Prod.mk.injEq] at h
      obtain ⟨rfl, rfl⟩ := h
      simp [ho]
    · obtain ⟨h1, h2, h3⟩ := ih h
      refine ⟨by omega, ?_, h3⟩
      have : p - off = (p - (off + 1)) + 1 := by omega
      rw [this]; simpa using h2

theorem lookupObj_some {cells : List Cell} {o p : Nat} {c : Cell} (h : lookupObj cells o = some (p, c)) :
    cells[p]? = some c ∧ c.obj = o := by
  have := lookupObjAux_some h
  simpa using this.2

theorem lookupObjAux_isSome {cells : List Cell} {k : Nat} {c : Cell} (hc : cells[k]? = some c) (off : Nat) :
    (lookupObjAux cells off c.obj).isSome = true := by
  induction cells generalizing off k with
  | nil => simp at hc
  | cons a as ih =>
    unfold lookupObjAux
    split
    · rfl
    · cases k with
      | zero => simp at hc; subst hc; contradiction
      | succ k => exact ih (by simpa using hc) (off + 1)

theorem nodup_map_inj {α β : Type} {f : α → β} {l : List α} (hn : (l.map f).Nodup) {i j : Nat} {a b : α}
    (ha : l[i]? = some a) (hb : l[j]? = some b) (hab : f a = f b) : i = j := by
  have hi : i < (l.map f).length := by
    have := (List.getElem?_eq_some_iff.1 ha).1; simpa using this
  apply (List.getElem?_inj hi hn).1
  simp [ha, hb, hab]

theorem lookupObj_of_inv {cells : List Cell} (hn : (cells.map (·.obj)).Nodup) {j : Nat} {c : Cell} (hc : cells[j]? = some c) :
    lookupObj cells c.obj = some (j, c) := by
  have h := lookupObjAux_isSome hc 0
  cases hl : lookupObjAux cells 0 c.obj with
  | none => simp [hl] at h
  | some pc =>
    obtain ⟨p, c'⟩ := pc
    obtain ⟨h1, h2⟩ := lookupObj_some (cells := cells) (o := c.obj) hl
    have : p = j := nodup_map_inj hn h1 hc h2
    subst this
    rw [hc] at h1
    simp only [Option.some.injEq] at h1
    subst h1
    exact hl

/-! ### contact phase -/

/-- `n.set_coupled_node_and_min_distance(v, …)` on node `k` of one cell -/
def coupleNode (k : Nat) (v : Nat × Nat) (cell : Cell) : Cell :=
  { cell with nodes := cell.nodes.modify k (fun n => { n with coupled := some v }) }

theorem setCoupled_eq (cells : List Cell) (c k : Nat) (v : Nat × Nat) :
    setCoupled cells c k v = cells.mapIdx (fun j cell => if c = j then coupleNode k v cell else cell) := by
  unfold setCoupled; rw [modify_eq_mapIdx]; rfl

theorem getElem?_setCoupled (cells : List Cell) (c k : Nat) (v : Nat × Nat) (j : Nat) :
    (setCoupled cells c k v)[j]? = (cells[j]?).map (fun cell => if c = j then coupleNode k v cell else cell) := by
  rw [setCoupled_eq, List.getElem?_mapIdx]

theorem nodeUsedAt_coupleNode (k : Nat) (v : Nat × Nat) (cell : Cell) (x : Nat) :
    nodeUsedAt (coupleNode k v cell).nodes x = nodeUsedAt cell.nodes x := by
  unfold nodeUsedAt coupleNode
  simp only [List.getElem?_modify]
  cases cell.nodes[x]? with
  | none => rfl
  | some n => simp only [Option.map_eq_map, Option.map_some]; split <;> rfl

theorem cellOK_coupleNode {cell : Cell} (h : CellOK cell) (k : Nat) (v : Nat × Nat) : CellOK (coupleNode k v cell) := by
  refine ⟨?_, ?_, h.types, h.admissible⟩
  · intro x n hx
    simp only [coupleNode, List.getElem?_modify] at hx
    cases hn : cell.nodes[x]? with
    | none => simp [hn] at hx
    | some n0 =>
      simp only [hn, Option.map_eq_map, Option.map_some, Option.some.injEq] at hx
      rw [← hx]
      have := h.nids x n0 hn
      split <;> exact this
  · intro f hf hu
    have := h.refs f hf hu
    simp only [nodeUsedAt_coupleNode]
    exact this

theorem setCoupled_invBase {s : State} (h : InvBase s) (c k : Nat) (v : Nat × Nat) :
    InvBase { s with cells := setCoupled s.cells c k v } := by
  rw [setCoupled_eq]
  apply h.mapIdx
  · intro j cell _; split <;> rfl
  · intro j cell _; split <;> rfl
  · intro j cell _; split <;> rfl
  · intro j cell _ hc; split
    · exact cellOK_coupleNode hc k v
    · exact hc

/-- a node that exists and is used keeps being so in every cell -/
theorem target_setCoupled {cells : List Cell} (c k : Nat) (v : Nat × Nat) {c2 n2 : Nat}
    (h : ∃ cell, cells[c2]? = some cell ∧ nodeUsedAt cell.nodes n2 = true) :
    ∃ cell, (setCoupled cells c k v)[c2]? = some cell ∧ nodeUsedAt cell.nodes n2 = true := by
  obtain ⟨cell, hc, hu⟩ := h
  refine ⟨_, by rw [getElem?_setCoupled, hc]; rfl, ?_⟩
  split
  · rw [nodeUsedAt_coupleNode]; exact hu
  · exact hu

theorem mem_modify_iff {α : Type} {l : List α} {k : Nat} {f : α → α} {b : α} :
    b ∈ l.modify k f ↔ ∃ (x : Nat) (a : α), l[x]? = some a ∧ b = if k = x then f a else a := by
  rw [modify_eq_mapIdx, mem_mapIdx_iff]
  constructor
  · rintro ⟨x, a, ha, rfl⟩; exact ⟨x, a, ha, rfl⟩
  · rintro ⟨x, a, ha, rfl⟩; exact ⟨x, a, ha, rfl⟩

/-- writing a valid coupling into one node keeps all couplings valid -/
theorem couplingsValid_setCoupled {cells : List Cell} (h : CouplingsValid cells) (c k v1 v2 : Nat)
    (hv : v1 ≠ c ∧ ∃ cell, cells[v1]? = some cell ∧ nodeUsedAt cell.nodes v2 = true) :
    CouplingsValid (setCoupled cells c k (v1, v2)) := by
  intro i ci hci n hn hu c2 n2 hcp
  rw [getElem?_setCoupled] at hci
  cases ha : cells[i]? with
  | none => simp [ha] at hci
  | some a =>
    simp only [ha, Option.map_some, Option.some.injEq] at hci
    by_cases hci' : c = i
    · subst hci'
      simp only [if_true] at hci
      subst hci
      simp only [coupleNode] at hn
      obtain ⟨x, n0, hx, rfl⟩ := mem_modify_iff.1 hn
      by_cases hkx : k = x
      · simp only [hkx, if_true, Option.some.injEq, Prod.mk.injEq] at hcp
        obtain ⟨rfl, rfl⟩ := hcp
        exact ⟨hv.1, target_setCoupled _ _ _ hv.2⟩
      · simp only [hkx, if_false] at hcp hu
        obtain ⟨hne, ht⟩ := h c a ha n0 (List.mem_of_getElem? hx) hu c2 n2 hcp
        exact ⟨hne, target_setCoupled _ _ _ ht⟩
    · simp only [hci', if_false] at hci
      subst hci
      obtain ⟨hne, ht⟩ := h i a ha n hn hu c2 n2 hcp
      exact ⟨hne, target_setCoupled _ _ _ ht⟩

theorem nodeUsedAt_of_get {ns : List Node} {k : Nat} {n : Node} (h : ns[k]? = some n) (hu : n.used = true) :
    nodeUsedAt ns k = true := by
  unfold nodeUsedAt; rw [h]; exact hu

theorem nodeUsedAt_corner {obj : Nat} {ns : List Node} {f : Face} (h : FaceRefsOK obj ns f) (hu : f.used = true) (w : Nat) :
    nodeUsedAt ns (corner f w) = true := by
  obtain ⟨_, h1, h2, h3⟩ := h hu
  unfold corner; split
  · exact h1
  · split
    · exact h2
    · exact h3

/-- **one contact keeps the invariant and every coupling valid**: the stored pair is
(position of the partner cell, position of the partner node) because local ids are positions, node
ids are positions, and the owner pointer of the face designates the cell the face was taken from. -/
theorem applyContact_inv {code : Code} (hck : ∀ c, code.cellKey c = c.localId) (hnk : ∀ n, code.nodeKey n = n.nid)
    {s : State} (h : InvBase s) (hc : CouplingsValid s.cells) (ct : Contact) :
    InvBase { s with cells := applyContact code s.cells ct } ∧ CouplingsValid (applyContact code s.cells ct) := by
  unfold applyContact
  split
  · next c1 cj hc1 hcj =>
    split
    · next n1 f hn1 hf =>
      split
      · next hused =>
        split
        · next p2 c2 hlk =>
          split
          · next hne =>
            split
            · next n2 hn2 =>
              simp only [Bool.and_eq_true] at hused
              have hcjok := h.j.cellsOK cj (List.mem_of_getElem? hcj)
              have hfm : f ∈ cj.faces := List.mem_of_getElem? hf
              have hown : f.owner = some cj.obj := (hcjok.refs f hfm hused.2).1
              rw [hown] at hlk
              simp only [Option.bind_some] at hlk
              rw [lookupObj_of_inv h.j.objsNodup hcj] at hlk
              simp only [Option.some.injEq, Prod.mk.injEq] at hlk
              obtain ⟨rfl, rfl⟩ := hlk
              have hij : ct.i ≠ ct.j := by
                intro hij
                rw [hij, hcj] at hc1
                simp only [Option.some.injEq] at hc1
                subst hc1
                simp at hne
              have hl2 : cj.localId = ct.j := h.localIds _ _ hcj
              have hl1 : c1.localId = ct.i := h.localIds _ _ hc1
              have hnid2 : n2.nid = corner f ct.w := hcjok.nids _ _ hn2
              have hnid1 : n1.nid = ct.k := (h.j.cellsOK c1 (List.mem_of_getElem? hc1)).nids _ _ hn1
              rw [hck, hck, hnk, hnk, hl1, hl2, hnid1, hnid2]
              have hu2 : nodeUsedAt cj.nodes (corner f ct.w) = true := nodeUsedAt_corner (hcjok.refs f hfm) hused.2 ct.w
              have hu1 : nodeUsedAt c1.nodes ct.k = true := nodeUsedAt_of_get hn1 hused.1
              have hA := couplingsValid_setCoupled hc ct.i ct.k ct.j (corner f ct.w) ⟨fun e => hij e.symm, cj, hcj, hu2⟩
              have hB := couplingsValid_setCoupled hA ct.j (corner f ct.w) ct.i ct.k
                ⟨hij, target_setCoupled _ _ _ ⟨c1, hc1, hu1⟩⟩
              exact ⟨setCoupled_invBase (s := { s with cells := setCoupled s.cells ct.i ct.k (ct.j, corner f ct.w) })
                (setCoupled_invBase h _ _ _) _ _ _, hB⟩
            · exact ⟨h, hc⟩
          · exact ⟨h, hc⟩
        · exact ⟨h, hc⟩
      · exact ⟨h, hc⟩
    · exact ⟨h, hc⟩
  · exact ⟨h, hc⟩

theorem nodeUsedAt_map_coupled (g : Node → Node) (hg : ∀ n, (g n).used = n.used) (ns : List Node) (x : Nat) :
    nodeUsedAt (ns.map g) x = nodeUsedAt ns x := by
  unfold nodeUsedAt
  rw [List.getElem?_map]
  cases ns[x]? with
  | none => rfl
  | some n => exact hg n

theorem cellOK_resetCouplings {c : Cell} (h : CellOK c) : CellOK (resetCouplings c) := by
  have hg : ∀ n : Node, (if n.used = true then { n with coupled := none } else n).used = n.used := by
    intro n; split <;> rfl
  refine ⟨?_, ?_, h.types, h.admissible⟩
  · intro x n hx
    simp only [resetCouplings, List.getElem?_map] at hx
    cases hn : c.nodes[x]? with
    | none => simp [hn] at hx
    | some n0 =>
      simp only [hn, Option.map_some, Option.some.injEq] at hx
      rw [← hx]
      have := h.nids x n0 hn
      split <;> exact this
  · intro f hf hu
    have := h.refs f hf hu
    simp only [resetCouplings, nodeUsedAt_map_coupled _ hg]
    exact this

theorem resetCouplings_valid (cells : List Cell) : CouplingsValid (cells.map resetCouplings) := by
  intro i c hc n hn hu c2 n2 hcp
  rw [List.getElem?_map] at hc
  cases ha : cells[i]? with
  | none => simp [ha] at hc
  | some a =>
    simp only [ha, Option.map_some, Option.some.injEq] at hc
    subst hc
    simp only [resetCouplings] at hn
    obtain ⟨n0, _, rfl⟩ := List.mem_map.1 hn
    by_cases h0 : n0.used = true
    · simp [h0] at hcp
    · simp [h0] at hu

theorem foldl_applyContact_inv {code : Code} (hck : ∀ c, code.cellKey c = c.localId) (hnk : ∀ n, code.nodeKey n = n.nid)
    (cs : List Contact) {s : State} (h : InvBase s) (hc : CouplingsValid s.cells) :
    InvBase { s with cells := cs.foldl (applyContact code) s.cells } ∧ CouplingsValid (cs.foldl (applyContact code) s.cells) := by
  induction cs generalizing s with
  | nil => exact ⟨h, hc⟩
  | cons ct rest ih =>
    obtain ⟨h1, h2⟩ := applyContact_inv hck hnk h hc ct
    exact ih (s := { s with cells := applyContact code s.cells ct }) h1 h2

/-- **The contact phase establishes the use-time invariant**: couplings are reset, then rewritten
from the CURRENT local ids; afterwards every coupling of a used node designates a used node of
another cell of the list. -/
theorem contactPhase_inv {code : Code} (hck : ∀ c, code.cellKey c = c.localId) (hnk : ∀ n, code.nodeKey n = n.nid)
    (cs : List Contact) {s : State} (h : InvBase s) : InvUse (contactPhase code cs s) := by
  have h0 : InvBase { s with cells := s.cells.map resetCouplings } := by
    rw [map_eq_mapIdx]
    exact h.mapIdx (fun _ _ _ => rfl) (fun _ _ _ => rfl) (fun _ _ _ => rfl) (fun _ _ _ hc => cellOK_resetCouplings hc)
  obtain ⟨h1, h2⟩ := foldl_applyContact_inv hck hnk cs h0 (resetCouplings_valid s.cells)
  exact ⟨h1, h2⟩

/-! ### every dereference is safe -/

/-- the access designates an existing, live object of the intended cell -/
def Safe (s : State) (d : Deref) : Prop := safeB s d = true

theorem safe_cell {s : State} {c : Nat} {cell : Cell} (h : s.cells[c]? = some cell) : Safe s (.cell c) := by
  have := (List.getElem?_eq_some_iff.1 h).1
  simp [Safe, safeB, this]

theorem safe_node {s : State} {c n : Nat} {cell : Cell} (h : s.cells[c]? = some cell) (hu : nodeUsedAt cell.nodes n = true) :
    Safe s (.node c n) := by
  simp [Safe, safeB, h, hu]

theorem used_of_nodeUsedAt {ns : List Node} {k : Nat} {n : Node} (h : ns[k]? = some n) (hu : nodeUsedAt ns k = true) : n.used = true := by
  unfold nodeUsedAt at hu; rw [h] at hu; exact hu

theorem derefsContactSearch_safe {s : State} (h : InvBase s) (cs : List Contact) :
    ∀ d ∈ derefsContactSearch cs s, Safe s d := by
  intro d hd
  unfold derefsContactSearch at hd
  obtain ⟨ct, _, hd⟩ := List.mem_flatMap.1 hd
  split at hd
  · next cj hcj =>
    split at hd
    · next f hf =>
      split at hd
      · next hu =>
        have hok := h.j.cellsOK cj (List.mem_of_getElem? hcj)
        have hfm := List.mem_of_getElem? hf
        obtain ⟨hown, h1, h2, h3⟩ := hok.refs f hfm hu
        simp only [List.mem_cons, List.not_mem_nil, or_false] at hd
        rcases hd with rfl | rfl | rfl | rfl | rfl
        · simp [Safe, safeB, hcj, hf, hown, lookupObj_of_inv h.j.objsNodup hcj]
        · exact safe_node hcj h1
        · exact safe_node hcj h2
        · exact safe_node hcj h3
        · have := hok.types f hfm hu
          simp [Safe, safeB, hcj, this]
      · simp at hd
    · simp at hd
  · simp at hd

theorem coupled_target_safe {s : State} (h : CouplingsValid s.cells) {i : Nat} {c : Cell} (hc : s.cells[i]? = some c)
    {n : Node} (hn : n ∈ c.nodes) (hu : n.used = true) {c2 n2 : Nat} (hcp : n.coupled = some (c2, n2)) :
    Safe s (.cell c2) ∧ Safe s (.node c2 n2) := by
  obtain ⟨_, cell, hcell, hused⟩ := h i c hc n hn hu c2 n2 hcp
  exact ⟨safe_cell hcell, safe_node hcell hused⟩

theorem derefsContactPost_safe {s : State} (h : InvUse s) : ∀ d ∈ derefsContactPost s, Safe s d := by
  intro d hd
  unfold derefsContactPost at hd
  obtain ⟨p, hp, hd⟩ := List.mem_flatMap.1 hd
  rw [List.mem_zipIdx_iff_getElem?] at hp
  obtain ⟨n, hn, hd⟩ := List.mem_flatMap.1 hd
  simp only [usedNodes, List.mem_filter] at hn
  split at hd
  · next c2 n2 hcp =>
    split at hd
    · obtain ⟨h1, h2⟩ := coupled_target_safe h.couplings hp hn.1 hn.2 hcp
      simp only [List.mem_cons, List.not_mem_nil, or_false] at hd
      rcases hd with rfl | rfl <;> assumption
    · simp at hd
  · simp at hd

theorem derefsIntegrate_safe {s : State} (h : InvUse s) : ∀ d ∈ derefsIntegrate s, Safe s d := by
  intro d hd
  unfold derefsIntegrate at hd
  obtain ⟨c, hc, hd⟩ := List.mem_flatMap.1 hd
  obtain ⟨i, hi⟩ := List.mem_iff_getElem?.1 hc
  split at hd
  · simp at hd
  · obtain ⟨n, hn, hd⟩ := List.mem_flatMap.1 hd
    simp only [usedNodes, List.mem_filter] at hn
    split at hd
    · next c2 n2 hcp =>
      split at hd
      · obtain ⟨h1, h2⟩ := coupled_target_safe h.couplings hi hn.1 hn.2 hcp
        simp only [List.mem_cons, List.not_mem_nil, or_false] at hd
        rcases hd with rfl | rfl <;> assumption
      · simp at hd
    · simp at hd

theorem derefsForces_safe {s : State} (h : InvBase s) : ∀ d ∈ derefsForces s, Safe s d := by
  intro d hd
  unfold derefsForces at hd
  obtain ⟨p, hp, hd⟩ := List.mem_flatMap.1 hd
  rw [List.mem_zipIdx_iff_getElem?] at hp
  obtain ⟨f, hf, rfl⟩ := List.mem_map.1 hd
  simp only [List.mem_filter] at hf
  have := (h.j.cellsOK p.1 (List.mem_of_getElem? hp)).types f hf.1 hf.2
  simp [Safe, safeB, hp, this]

theorem derefsPolarise_safe {s : State} (h : InvUse s) : ∀ d ∈ derefsPolarise s, Safe s d := by
  intro d hd
  unfold derefsPolarise at hd
  obtain ⟨p, hp, hd⟩ := List.mem_flatMap.1 hd
  rw [List.mem_zipIdx_iff_getElem?] at hp
  split at hd
  · obtain ⟨f, hf, hd⟩ := List.mem_flatMap.1 hd
    simp only [List.mem_filter] at hf
    have hok := h.base.j.cellsOK p.1 (List.mem_of_getElem? hp)
    obtain ⟨_, h1, h2, h3⟩ := hok.refs f hf.1 hf.2
    rcases List.mem_append.1 hd with hd | hd
    · simp only [List.mem_cons, List.not_mem_nil, or_false] at hd
      rcases hd with rfl | rfl | rfl
      · exact safe_node hp h1
      · exact safe_node hp h2
      · exact safe_node hp h3
    · split at hd
      · next a b c ha hb hc =>
        split at hd
        · next ca na cb nb cc nc hca hcb hcc =>
          split at hd
          · simp only [List.mem_cons, List.not_mem_nil, or_false] at hd
            subst hd
            exact (coupled_target_safe h.couplings hp (List.mem_of_getElem? ha) (used_of_nodeUsedAt ha h1) hca).1
          · simp at hd
        · simp at hd
      · simp at hd
  · simp at hd

/-! ### one iteration, phase by phase -/

def phasesAsModelled : List Phase :=
  [.saveMesh, .divide, .faceTypes, .refine, .contact, .polarise, .forces, .integrate, .stats, .remove, .renumber]

/-- the extracted code has the shape the theorems are about -/
structure AsModelled (code : Code) : Prop where
  phases : code.phases = phasesAsModelled
  div : DivShape code
  cellKey : ∀ c, code.cellKey c = c.localId
  nodeKey : ∀ n, code.nodeKey n = n.nid

theorem InvBase.withIter {s : State} (h : InvBase s) (k : Nat) : InvBase { s with iter := k } := ⟨h.j, h.localIds⟩

theorem dividePhase_inv {code : Code} (hm : AsModelled code) {e : IterEv} {s : State} (h : InvBase s)
    (hok : phaseOKb code e s .divide = true) : InvBase (runPhase code e s .divide) := by
  simp only [runPhase]
  simp only [phaseOKb] at hok
  by_cases hp : s.iter % code.period = 0
  · simp only [hp, if_true, Bool.and_eq_true] at hok ⊢
    exact divisionRound_inv hm.div (remesh_inv h hok.1) hok.2
  · simp only [hp, if_false]
    exact h

theorem runPhases_eq {code : Code} (hm : AsModelled code) (e : IterEv) (s : State) :
    runPhases code e code.phases s = afterRemoval code e s := by
  rw [hm.phases]
  simp only [phasesAsModelled, runPhases, afterRemoval, afterPolarise, afterContact, beforeContact, afterDivide]
  rfl

theorem phasesOK_split {code : Code} (hm : AsModelled code) {e : IterEv} {s : State}
    (hok : phasesOKb code e code.phases s = true) :
    remeshOKb e.save s = true ∧ phaseOKb code e (remesh e.save s) .divide = true ∧
    remeshOKb e.refine (updateFaceTypes (afterDivide code e s)) = true := by
  rw [hm.phases] at hok
  simp only [phasesAsModelled, phasesOKb, phaseOKb, runPhase, Bool.and_eq_true, Bool.and_true] at hok
  refine ⟨hok.1, ?_, ?_⟩
  · simp only [phaseOKb]; exact hok.2.1
  · simp only [afterDivide, runPhase]; exact hok.2.2.2

theorem afterDivide_inv {code : Code} (hm : AsModelled code) {e : IterEv} {s : State} (h : InvBase s)
    (hok : phasesOKb code e code.phases s = true) : InvBase (afterDivide code e s) := by
  obtain ⟨h1, h2, _⟩ := phasesOK_split hm hok
  exact dividePhase_inv hm (remesh_inv h h1) h2

theorem beforeContact_inv {code : Code} (hm : AsModelled code) {e : IterEv} {s : State} (h : InvBase s)
    (hok : phasesOKb code e code.phases s = true) : InvBase (beforeContact code e s) := by
  obtain ⟨_, _, h3⟩ := phasesOK_split hm hok
  exact remesh_inv (updateFaceTypes_inv (afterDivide_inv hm h hok)) h3

theorem afterContact_inv {code : Code} (hm : AsModelled code) {e : IterEv} {s : State} (h : InvBase s)
    (hok : phasesOKb code e code.phases s = true) : InvUse (afterContact code e s) :=
  contactPhase_inv hm.cellKey hm.nodeKey _ (beforeContact_inv hm h hok)

theorem afterPolarise_inv {code : Code} (hm : AsModelled code) {e : IterEv} {s : State} (h : InvBase s)
    (hok : phasesOKb code e code.phases s = true) : InvUse (afterPolarise code e s) :=
  polarise_inv _ (afterContact_inv hm h hok)

theorem afterRemoval_inv {code : Code} (hm : AsModelled code) {e : IterEv} {s : State} (h : InvBase s)
    (hok : phasesOKb code e code.phases s = true) : InvBase (afterRemoval code e s) :=
  renumber_inv (eraseSmall_J _ (afterPolarise_inv hm h hok).base.j)

theorem iteration_inv' {code : Code} (hm : AsModelled code) {e : IterEv} {s : State} (h : InvBase s)
    (hok : phasesOKb code e code.phases s = true) : InvBase (iteration code e s) := by
  unfold iteration
  rw [runPhases_eq hm]
  exact (afterRemoval_inv hm h hok).withIter _

theorem run_inv' {code : Code} (hm : AsModelled code) (evs : List IterEv) {s : State} (h : InvBase s)
    (hwf : WF code evs s) : InvBase (run code evs s) := by
  induction evs generalizing s with
  | nil => exact h
  | cons e es ih =>
    obtain ⟨h1, h2⟩ := hwf
    exact ih (iteration_inv' hm h h1) h2

/-! ### start-up -/

theorem assignIds_ids (cells : List Cell) (m : Nat) :
    (assignIds cells m).1.map (·.cellId) = List.range' m cells.length ∧
    (assignIds cells m).1.map (·.obj) = cells.map (·.obj) ∧
    (assignIds cells m).2 = m + cells.length := by
  induction cells generalizing m with
  | nil => simp [assignIds]
  | cons c cs ih =>
    obtain ⟨h1, h2, h3⟩ := ih (m + 1)
    simp only [assignIds, List.map_cons, List.length_cons, List.range'_succ, h1, h2, h3]
    refine ⟨trivial, trivial, by omega⟩

theorem assignIds_get (cells : List Cell) (m i : Nat) (c : Cell) (hc : (assignIds cells m).1[i]? = some c) :
    ∃ c0, cells[i]? = some c0 ∧ c = { c0 with cellId := m + i, localId := m + i } := by
  induction cells generalizing m i with
  | nil => simp [assignIds] at hc
  | cons a as ih =>
    cases i with
    | zero =>
      simp only [assignIds, List.getElem?_cons_zero, Option.some.injEq] at hc
      exact ⟨a, by simp, by simp [← hc]⟩
    | succ i =>
      simp only [assignIds, List.getElem?_cons_succ] at hc
      obtain ⟨c0, h0, h1⟩ := ih (m + 1) i hc
      refine ⟨c0, by simpa using h0, ?_⟩
      rw [h1]; congr 1 <;> omega

/-- **Start-up**: the constructor numbers the cells `0 … n-1` and sets local id = id = position. -/
theorem init_inv' {cells : List Cell} {o : Nat} (hn : (cells.map (·.obj)).Nodup) (ho : ∀ c ∈ cells, c.obj < o)
    (hok : ∀ c ∈ cells, CellOK c) : InvBase (init cells o) := by
  obtain ⟨h1, h2, h3⟩ := assignIds_ids cells 0
  have hget := assignIds_get cells 0
  refine ⟨⟨?_, ?_, ?_, ?_, ?_⟩, ?_⟩
  · show ((assignIds cells 0).1.map (·.cellId)).Nodup
    rw [h1]; exact List.nodup_range' 1
  · intro c hc
    obtain ⟨i, hi⟩ := List.mem_iff_getElem?.1 hc
    obtain ⟨c0, h0, rfl⟩ := hget i c hi
    have := (List.getElem?_eq_some_iff.1 h0).1
    show 0 + i < (assignIds cells 0).2
    rw [h3]; omega
  · show ((assignIds cells 0).1.map (·.obj)).Nodup
    rw [h2]; exact hn
  · intro c hc
    obtain ⟨i, hi⟩ := List.mem_iff_getElem?.1 hc
    obtain ⟨c0, h0, rfl⟩ := hget i c hi
    exact ho c0 (List.mem_of_getElem? h0)
  · intro c hc
    obtain ⟨i, hi⟩ := List.mem_iff_getElem?.1 hc
    obtain ⟨c0, h0, rfl⟩ := hget i c hi
    have := hok c0 (List.mem_of_getElem? h0)
    exact ⟨this.nids, this.refs, this.types, this.admissible⟩
  · intro i c hi
    obtain ⟨c0, h0, rfl⟩ := hget i c hi
    show 0 + i = i
    omega

/-! ### ids are issued once -/

/-- what an id designates: the pair (persistent id, object) -/
def key (c : Cell) : Nat × Nat := (c.cellId, c.obj)
def keys (s : State) : List (Nat × Nat) := s.cells.map key

/-- between `s` and `s'` the counter only grew and every (id, object) pair present in `s'` was
present in `s` or carries an id issued from the counter in between -/
def Fresh (s s' : State) : Prop :=
  s.maxId ≤ s'.maxId ∧ ∀ p ∈ keys s', p ∈ keys s ∨ (s.maxId ≤ p.1 ∧ p.1 < s'.maxId)

theorem Fresh.refl (s : State) : Fresh s s := ⟨Nat.le_refl _, fun _ h => Or.inl h⟩

theorem Fresh.trans {a b c : State} (h1 : Fresh a b) (h2 : Fresh b c) : Fresh a c := by
  refine ⟨Nat.le_trans h1.1 h2.1, fun p hp => ?_⟩
  rcases h2.2 p hp with h | ⟨h, h'⟩
  · rcases h1.2 p h with h | ⟨h, h'⟩
    · exact Or.inl h
    · exact Or.inr ⟨h, Nat.lt_of_lt_of_le h' h2.1⟩
  · exact Or.inr ⟨Nat.le_trans h1.1 h, h'⟩

theorem Fresh.of_keys_subset {s s' : State} (hm : s'.maxId = s.maxId) (h : ∀ p ∈ keys s', p ∈ keys s) : Fresh s s' :=
  ⟨by omega, fun p hp => Or.inl (h p hp)⟩

theorem keys_mapIdx {cells : List Cell} {g : Nat → Cell → Cell} (hid : ∀ (i : Nat) (c : Cell), key (g i c) = key c) :
    (cells.mapIdx g).map key = cells.map key :=
  map_mapIdx_of (fun i a _ => hid i a)

theorem Fresh.of_keys_eq {s s' : State} (hm : s'.maxId = s.maxId) (h : keys s' = keys s) : Fresh s s' :=
  Fresh.of_keys_subset hm (fun p hp => by rwa [h] at hp)

theorem remesh_fresh (ms : List (Option Mesh)) (s : State) : Fresh s (remesh ms s) := by
  refine Fresh.of_keys_eq (by rfl) ?_
  unfold keys remesh
  exact keys_mapIdx (fun i c => by unfold remeshCell; split <;> rfl)

theorem updateFaceTypes_fresh (s : State) : Fresh s (updateFaceTypes s) := by
  refine Fresh.of_keys_eq (by rfl) ?_
  unfold keys updateFaceTypes
  simp only [List.map_map]
  congr 1; funext c; simp only [Function.comp]; unfold resetFaceTypes; split <;> rfl

theorem polarise_fresh (pol : Nat → Nat → Bool) (s : State) : Fresh s (polarise pol s) := by
  refine Fresh.of_keys_eq (by rfl) ?_
  unfold keys polarise
  exact keys_mapIdx (fun i c => by unfold polariseCell; split <;> rfl)

theorem applyContact_keys (code : Code) (cells : List Cell) (ct : Contact) :
    (applyContact code cells ct).map key = cells.map key := by
  have hset : ∀ (l : List Cell) (c k : Nat) (v : Nat × Nat), (setCoupled l c k v).map key = l.map key := by
    intro l c k v
    rw [setCoupled_eq]
    exact keys_mapIdx (fun j cell => by split <;> rfl)
  unfold applyContact
  repeat' split
  all_goals first | rfl | (rw [hset, hset])

theorem foldl_applyContact_keys (code : Code) (cs : List Contact) (l : List Cell) :
    (cs.foldl (applyContact code) l).map key = l.map key := by
  induction cs generalizing l with
  | nil => rfl
  | cons ct rest ih => simp only [List.foldl_cons]; rw [ih, applyContact_keys]

theorem contactPhase_fresh (code : Code) (cs : List Contact) (s : State) : Fresh s (contactPhase code cs s) := by
  refine Fresh.of_keys_eq (by rfl) ?_
  unfold keys contactPhase
  simp only [foldl_applyContact_keys, List.map_map]
  congr 1

theorem eraseSmall_fresh (rm : List Nat) (s : State) : Fresh s (eraseSmall rm s) := by
  refine Fresh.of_keys_subset (by rfl) ?_
  intro p hp
  exact ((removeIdx_sublist s.cells rm).map key).subset hp

theorem renumber_fresh (s : State) : Fresh s (renumber s) := by
  refine Fresh.of_keys_eq (by rfl) ?_
  unfold keys renumber renumberCells
  exact keys_mapIdx (fun _ _ => rfl)

/-- (id, object) pairs during a division round (list and collected daughters): old ones, or ids taken from the counter -/
def DFresh (cells : List Cell) (maxId : Nat) (st : DState) : Prop :=
  maxId ≤ st.maxId ∧ ∀ p ∈ (st.cells ++ st.pending).map key, p ∈ cells.map key ∨ (maxId ≤ p.1 ∧ p.1 < st.maxId)

theorem keys_clear (cells : List Cell) (i : Nat) : (cells.modify i clearCell).map key = cells.map key := by
  rw [modify_eq_mapIdx]; exact keys_mapIdx (fun j c => by split <;> rfl)

theorem divOne_fresh {crit : List DivStmt} (hcr : crit = critA ∨ crit = critB) {cells : List Cell} {maxId : Nat} {st : DState}
    (h : DFresh cells maxId st) (i : Nat) (d : Daughters) : DFresh cells maxId (divOne crit st i d) := by
  cases hm : st.cells[i]? with
  | none => simpa [divOne, hm] using h
  | some mother =>
    have hold : ∀ p ∈ (st.cells.modify i clearCell ++ st.pending).map key,
        p ∈ cells.map key ∨ (maxId ≤ p.1 ∧ p.1 < st.maxId + 2) := by
      intro p hp
      rw [List.map_append, keys_clear, ← List.map_append] at hp
      rcases h.2 p hp with h' | ⟨h1, h2⟩
      · exact Or.inl h'
      · exact Or.inr ⟨h1, by omega⟩
    have hnew : ∀ p ∈ [daughter1 st mother d, daughter2 st mother d].map key, maxId ≤ p.1 ∧ p.1 < st.maxId + 2 := by
      intro p hp
      have := h.1
      simp only [List.map_cons, List.map_nil, List.mem_cons, List.not_mem_nil, or_false] at hp
      rcases hp with rfl | rfl
      · exact ⟨by show maxId ≤ st.maxId; omega, by show st.maxId < st.maxId + 2; omega⟩
      · exact ⟨by show maxId ≤ st.maxId + 1; omega, by show st.maxId + 1 < st.maxId + 2; omega⟩
    rcases hcr with rfl | rfl
    · rw [divOneA_eq hm]
      refine ⟨by have := h.1; show maxId ≤ st.maxId + 2; omega, ?_⟩
      intro p hp
      simp only [List.map_append, List.mem_append] at hp
      rcases hp with (hp | hp) | hp
      · exact hold p (by rw [List.map_append, List.mem_append]; exact Or.inl hp)
      · exact Or.inr (hnew p hp)
      · exact hold p (by rw [List.map_append, List.mem_append]; exact Or.inr hp)
    · rw [divOneB_eq hm]
      refine ⟨by have := h.1; show maxId ≤ st.maxId + 2; omega, ?_⟩
      intro p hp
      simp only [List.map_append, List.mem_append] at hp
      rcases hp with hp | hp | hp
      · exact hold p (by rw [List.map_append, List.mem_append]; exact Or.inl hp)
      · exact hold p (by rw [List.map_append, List.mem_append]; exact Or.inr hp)
      · exact Or.inr (hnew p hp)

theorem divFold_fresh {crit : List DivStmt} (hcr : crit = critA ∨ crit = critB) {cells : List Cell} {maxId : Nat}
    (ev : List (Nat × Daughters)) {st : DState} (h : DFresh cells maxId st) : DFresh cells maxId (divFold crit st ev) := by
  induction ev generalizing st with
  | nil => exact h
  | cons p rest ih => obtain ⟨i, d⟩ := p; exact ih (divOne_fresh hcr h i d)

theorem divisionRound_fresh {code : Code} (hs : DivShape code) (ev : DivEv) (s : State) :
    Fresh s (divisionRound code ev s) := by
  have hcr : code.crit = critA ∨ code.crit = critB := by rcases hs with h | h; exact Or.inl h.1; exact Or.inr h.1
  have h0 : DFresh s.cells s.maxId (dstate0 s) := ⟨Nat.le_refl _, fun p hp => Or.inl (by simpa [dstate0] using hp)⟩
  have h1 := divFold_fresh hcr ev h0
  have hren : ∀ (l : List Cell), (renumberCells l).map key = l.map key := by
    intro l; unfold renumberCells; exact keys_mapIdx (fun _ _ => rfl)
  unfold divisionRound
  rcases hs with ⟨hc, h2, h3⟩ | ⟨hc, h2, h3⟩
  · rw [h2, h3]
    have hp0 : (divFold code.crit (dstate0 s) ev).pending = [] := by rw [hc, divFoldA_pending]; rfl
    unfold DFresh at h1
    rw [hp0, List.append_nil] at h1
    simp only [List.foldl]
    by_cases hpos : (divFold code.crit (dstate0 s) ev).toDelete.length > 0
    · simp only [hpos, if_true, postAsModelled, List.foldl, runDivPost]
      refine ⟨h1.1, fun p hp => h1.2 p ?_⟩
      unfold keys at hp
      simp only [hren] at hp
      exact ((removeIdx_sublist _ _).map key).subset hp
    · simp only [hpos, if_false]
      exact ⟨h1.1, fun p hp => h1.2 p hp⟩
  · rw [h2, h3]
    simp only [List.foldl, runDivPost]
    by_cases hpos : (divFold code.crit (dstate0 s) ev).toDelete.length > 0
    · simp only [hpos, if_true, postAsModelled, List.foldl, runDivPost]
      refine ⟨h1.1, fun p hp => h1.2 p ?_⟩
      unfold keys at hp
      simp only [hren] at hp
      exact ((removeIdx_sublist _ _).map key).subset hp
    · simp only [hpos, if_false]
      exact ⟨h1.1, fun p hp => h1.2 p hp⟩

theorem iteration_fresh {code : Code} (hm : AsModelled code) (e : IterEv) (s : State) : Fresh s (iteration code e s) := by
  have h : Fresh s (afterRemoval code e s) := by
    unfold afterRemoval afterPolarise afterContact beforeContact afterDivide
    refine Fresh.trans ?_ (renumber_fresh _)
    refine Fresh.trans ?_ (eraseSmall_fresh _ _)
    refine Fresh.trans ?_ (polarise_fresh _ _)
    refine Fresh.trans ?_ (contactPhase_fresh _ _ _)
    refine Fresh.trans ?_ (remesh_fresh _ _)
    refine Fresh.trans ?_ (updateFaceTypes_fresh _)
    refine Fresh.trans (remesh_fresh e.save s) ?_
    simp only [runPhase]
    split
    · exact Fresh.trans (remesh_fresh _ _) (divisionRound_fresh hm.div _ _)
    · exact Fresh.refl _
  unfold iteration
  rw [runPhases_eq hm]
  exact h

theorem run_fresh {code : Code} (hm : AsModelled code) (evs : List IterEv) (s : State) : Fresh s (run code evs s) := by
  induction evs generalizing s with
  | nil => exact Fresh.refl s
  | cons e es ih => exact Fresh.trans (iteration_fresh hm e s) (ih _)

theorem mem_keys {s : State} {p : Nat × Nat} : p ∈ keys s ↔ ∃ c ∈ s.cells, c.cellId = p.1 ∧ c.obj = p.2 := by
  unfold keys key
  rw [List.mem_map]
  constructor
  · rintro ⟨c, hc, rfl⟩; exact ⟨c, hc, rfl, rfl⟩
  · rintro ⟨c, hc, h1, h2⟩; exact ⟨c, hc, by rw [h1, h2]⟩

/-! ### the executable checkers decide the invariant -/

theorem localIdsOKb_iff {cells : List Cell} : localIdsOKb cells = true ↔ ∀ (i : Nat) (c : Cell), cells[i]? = some c → c.localId = i := by
  unfold localIdsOKb
  rw [List.all_eq_true]
  constructor
  · intro h i c hc
    have := h (c, i) (by simpa [List.mk_mem_zipIdx_iff_getElem?] using hc)
    simpa using this
  · intro h p hp
    rw [List.mem_zipIdx_iff_getElem?] at hp
    simpa using h p.2 p.1 hp

theorem invBaseB_iff {s : State} : invBaseB s = true ↔ InvBase s := by
  unfold invBaseB
  simp only [Bool.and_eq_true, localIdsOKb_iff, decide_eq_true_eq, List.all_eq_true, cellOKb_iff]
  constructor
  · rintro ⟨⟨⟨⟨⟨h1, h2⟩, h3⟩, h4⟩, h5⟩, h6⟩
    exact ⟨⟨h2, h3, h4, h5, h6⟩, h1⟩
  · rintro ⟨⟨h2, h3, h4, h5, h6⟩, h1⟩
    exact ⟨⟨⟨⟨⟨h1, h2⟩, h3⟩, h4⟩, h5⟩, h6⟩

theorem couplingsValidB_iff {s : State} : couplingsValidB s = true ↔ CouplingsValid s.cells := by
  unfold couplingsValidB CouplingsValid
  simp only [List.all_eq_true]
  constructor
  · intro h i c hc n hn hu c2 n2 hcp
    have := h (c, i) (by simpa [List.mk_mem_zipIdx_iff_getElem?] using hc) n hn
    simp only [couplingOKb, hu, hcp, Bool.not_true, Bool.false_or, Bool.and_eq_true, bne_iff_ne, ne_eq] at this
    refine ⟨this.1, ?_⟩
    cases hcell : s.cells[c2]? with
    | none => simp [hcell] at this
    | some cell => exact ⟨cell, rfl, by simpa [hcell] using this.2⟩
  · intro h p hp n hn
    rw [List.mem_zipIdx_iff_getElem?] at hp
    unfold couplingOKb
    cases hu : n.used with
    | false => rfl
    | true =>
      cases hcp : n.coupled with
      | none => rfl
      | some v =>
        obtain ⟨c2, n2⟩ := v
        obtain ⟨hne, cell, hcell, hused⟩ := h p.2 p.1 hp n hn hu c2 n2 hcp
        simp [hcell, hused, hne]

theorem invUse_iff {s : State} : (invBaseB s && couplingsValidB s) = true ↔ InvUse s := by
  rw [Bool.and_eq_true, invBaseB_iff, couplingsValidB_iff]
  exact ⟨fun h => ⟨h.1, h.2⟩, fun h => ⟨h.base, h.couplings⟩⟩

end Simu.Pop
