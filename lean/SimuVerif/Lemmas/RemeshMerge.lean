import SimuVerif.Lemmas.RemeshMerge7
import SimuVerif.Lemmas.RemeshMerge8
import SimuVerif.Lemmas.SurfaceCheckers
import SimuVerif.Model.CellOkCheck
/-
  `merge_edge` (edge COLLAPSE) of the executable bookkeeping model `Model/Remesh.lean` REFINES the abstract
  `Surface.collapseT` — the last of the three remeshing operations (split and swap are in `RemeshRefine.lean`).

  Files: `RemeshMerge1` (EdgeSet algebra, the index as a relation, `addFace_idx`, `deleteFace_idx`),
  `RemeshMerge2` (renaming, `FanF`, `loop_unroll`), `RemeshMerge3` (first walk, `replaceNode_abs`),
  `RemeshMerge4` (second walk), `RemeshMerge5` (`final2`, `FanF.rename`, `replaceNode_abs2`),
  `RemeshMerge6` (`MergeHyp`, `mergeEdge_slots`, `mergeEdge_abs`, `mergeEdge_refines`),
  `RemeshMerge7` (`Fan`, `VertexManifold`, Boolean checkers), `RemeshMerge8` (`Fan.rotate`, `Fan.reverse`,
  `Fan.align`), this file (corollaries, `splitEdge_idx`, `swapEdge_idx`, examples).

  Everything is stated for an arbitrary scalar type `R` with the bare operations the model needs: it holds at `Float`.

  Method.
  * The edge index `c.edges` is a list sorted by the Cantor key.  `IdxP P s` says: `s` is strictly sorted (hence
    key-unique), every entry has `n1 ≤ n2`, at least one face and two different faces if two, and the entry under key `k`
    lists EXACTLY the face slots `g` with `P g k`; no entry iff no such face.  `EdgeIdxComplete c := IdxP (SideK (slots c))
    c.edges`, where `SideK L g k` = "slot `g` is a live triangle with a side of key `k`".  Each primitive is a relation
    update: `edgeAddFace` adds a pair, `delFaceEdge` removes one, `insert ∘ erase` in `replace_node` moves the pairs of
    one key to another key (`move_idx`) or merges them into an existing entry (`merge_idx`).
  * `FanF L v k F N`: the live faces containing `v` are exactly `F 1 … F k`, `F (j+1) = {v, N j, N (j+1)}`, closing up.
    `loop_unroll` unrolls one iteration of `replaceNode.loop` statement by statement; `walk1_step` / `walk2_step` show
    that under the invariant `WalkState … j` the iteration can only do the `j`-th step of the walk; induction on the
    fuel (`walk1`, `walk2`).  Only PARTIAL correctness is needed: the theorems assume that the call returned `.ok`.
  * `final1` / `final2`: at the end of the walk(s) the relation represented by the index is the side relation of the
    renamed face store.

  Main results (all hypotheses explicit, see the docstrings):
  * `replaceNode_abs`   first walk: every slot renamed, index sound+complete again, node store = `deleteNode`.
  * `replaceNode_abs2`  second walk (two faces become degenerate, the index is described by `Q2`).
  * `mergeEdge_slots`, `mergeEdge_abs : abs c' = collapseT (abs c) e.n1 e.n2 (newSlot c)` (equality of LISTS),
    `mergeEdge_refines` (`TriEquiv`, `FaceFreeOk c'`, `EdgeIdxComplete c'`), `mergeEdge_inv`;
    `mergeEdge_of_linkCond` (fan form of the link condition derived from `LinkCond`, `link_of_linkCond`) and
    `mergeEdge_of_manifold` (only `VertexManifold` at both end nodes; the fans are aligned by `Fan.align`).
  * `edgeIdxSound_of_complete`: under `Inv` the complete index is sound in the sense of `EdgeIdxSound`
    (`swapEdge_refines'`).
  * `addFace_idx`, `deleteFace_idx`, `splitEdge_idx`, `swapEdge_idx`: the index stays sound and complete.
  * checkers `edgeIdxCompleteB`, `vertexManifoldB`, `vertexManifoldAutoB`, `mergeHypB` + soundness; `fanOf` computes
    the aligned fan.
-/
set_option linter.unusedSectionVars false
set_option linter.unusedVariables false
set_option linter.unusedSimpArgs false
namespace Simu.Remesh
open Simu Simu.Surface
open Simu.C11 (bind_ok newSlot)

section
variable {R : Type} [Add R] [Sub R] [Mul R] [Div R] [Neg R] [Lit R] [LT R] [LE R] [DecidableLT R]
  [DecidableLE R] [DecidableEq R]

theorem mem_abs_iff {c : Cell R} {t : Tri} : t ∈ abs c ↔ ∃ g : Nat, (slots c)[g]? = some (some t) := by
  rw [abs_eq_live]
  unfold live
  rw [List.mem_filterMap]
  constructor
  · rintro ⟨o, ho, hid⟩
    simp only [id] at hid
    subst hid
    exact List.mem_iff_getElem?.1 ho
  · rintro ⟨g, hg⟩
    exact ⟨some t, List.mem_iff_getElem?.2 ⟨g, hg⟩, rfl⟩

theorem fresh_of_freshNode {c : Cell R} {n : Nat} (h : FreshNode c n) : Fresh (abs c) n := by
  intro t ht
  obtain ⟨g, hg⟩ := mem_abs_iff.1 ht
  exact h g t hg

theorem freshNode_of_fresh {c : Cell R} {n : Nat} (h : Fresh (abs c) n) : FreshNode c n :=
  fun g t hg => h t (mem_abs_iff.2 ⟨g, hg⟩)

/-- **the concrete collapse keeps the surface invariant**: `MergeHyp` (index, fans, fan form of the link condition) plus
    the hypotheses of `collapse_inv` (`LinkCond` for the two triangles found on the edge) -/
theorem mergeEdge_inv {fn : Fn R} {k : SplitConsts R} {c c' : Cell R} {e : Edge} {chk chk' : CheckSet}
    {kA kB : Nat} {FA NA FB NB : Nat → Nat}
    (h : mergeEdge fn k c e chk = .ok (c', chk')) (H : MergeHyp c e kA kB FA NA FB NB) (hInv : Inv (abs c))
    {t1 t2 : Tri} (h1 : findDir (abs c) e.n1 e.n2 = some t1) (h2 : findDir (abs c) e.n2 e.n1 = some t2)
    (hl : LinkCond (abs c) e.n1 e.n2 (opp t1 e.n1 e.n2) (opp t2 e.n2 e.n1)) : Inv (abs c') := by
  rw [mergeEdge_abs h H]
  exact collapse_inv hInv h1 h2 hl (fresh_of_freshNode H.fresh)

end

/-! ## the complete index is sound; the link condition in fan form follows from `LinkCond` -/
section
variable {R : Type} [Add R] [Sub R] [Mul R] [Div R] [Neg R] [Lit R] [LT R] [LE R] [DecidableLT R]
  [DecidableLE R] [DecidableEq R]

theorem hasDir_of_mem_heTriM {t : Tri} {a b : Nat} (h : (a, b) ∈ heTriM t) : hasDir t a b = true := by
  rw [ce_mem_heTriM] at h
  rw [hasDir_iff]
  simp only [Prod.mk.injEq] at h
  omega

theorem sideKey_of_hasDir {t : Tri} {a b : Nat} (h : hasDir t a b = true) : Edge.keyOf a b ∈ sideKeys t := by
  rw [mem_sideKeys]
  rw [hasDir_iff] at h
  rcases h with ⟨rfl, rfl⟩ | ⟨rfl, rfl⟩ | ⟨rfl, rfl⟩
  · exact Or.inl rfl
  · exact Or.inr (Or.inl rfl)
  · exact Or.inr (Or.inr rfl)

theorem hasDir_of_sideKey {t : Tri} {a b : Nat} (h : Edge.keyOf a b ∈ sideKeys t) :
    hasDir t a b = true ∨ hasDir t b a = true := by
  rw [mem_sideKeys] at h
  simp only [Edge.keyOf_eq_iff] at h
  simp only [hasDir_iff]
  omega

/-- **a complete index of a closed simple surface is sound** in the sense of `EdgeIdxSound` (every entry names two
    different live faces): the hypothesis `EdgeIdxSound c` of `swapEdge_refines` follows from `EdgeIdxComplete c`,
    which is preserved by all operations (`splitEdge_idx`, `swapEdge_idx`, `mergeEdge_refines`). -/
theorem edgeIdxSound_of_complete {c : Cell R} (hI : EdgeIdxComplete c) (hInv : Inv (abs c)) : EdgeIdxSound c := by
  intro x y ed hed
  have hed' : EdgeSet.find? c.edges (Edge.keyOf x y) = some ed := hed
  obtain ⟨_, _, hw, hP⟩ := hI.of_find hed'
  cases h1 : ed.f1 with
  | none => exact absurd h1 hw.1
  | some g1 =>
    obtain ⟨t1, hs1, hq1⟩ := (hP g1).1 ((Edge.hasFace_iff _ _).2 (Or.inl h1))
    have m1 := mem_abs_iff.2 ⟨g1, hs1⟩
    have nd1 := hInv.nondeg t1 m1
    have key : ∀ p q, hasDir t1 p q = true → Edge.keyOf p q = Edge.keyOf x y → EdgeFaces c ed x y := by
      intro p q hd hk
      have hmem : (p, q) ∈ heM (abs c) := mem_heM.2 ⟨t1, m1, mem_heTriM_of_hasDir hd⟩
      have hc := (edge_shared_by_two hInv (p, q) hmem).2
      have hrev : (q, p) ∈ heM (abs c) := by
        apply Multiset.count_pos.1
        rw [Prod.swap_prod_mk] at hc; omega
      obtain ⟨t2, m2, hm2⟩ := mem_heM.1 hrev
      have hd2 := hasDir_of_mem_heTriM hm2
      obtain ⟨g2, hs2⟩ := mem_abs_iff.1 m2
      have hne : g1 ≠ g2 := by
        rintro rfl
        rw [hs1] at hs2; cases hs2
        exact hasDir_not_both nd1 hd hd2
      have hq2 : Edge.keyOf x y ∈ sideKeys t2 := by
        rw [← hk, Edge.keyOf_comm]; exact sideKey_of_hasDir hd2
      have hf2 := (hP g2).2 ⟨t2, hs2, hq2⟩
      rw [Edge.hasFace_iff, h1] at hf2
      have h2 : ed.f2 = some g2 := by
        rcases hf2 with hh | hh
        · exact absurd (Option.some.inj hh) hne
        · exact hh
      obtain ⟨a1, b1⟩ := hasNode_of_sideKey hq1
      obtain ⟨a2, b2⟩ := hasNode_of_sideKey hq2
      exact ⟨g1, g2, t1, t2, h1, h2, hne, hs1, hs2, a1, b1, a2, b2⟩
    rcases hasDir_of_sideKey hq1 with hd | hd
    · exact key x y hd rfl
    · exact key y x hd (Edge.keyOf_comm _ _)

theorem adj_of_sideK {c : Cell R} {g a x : Nat} (h : SideK (slots c) g (Edge.keyOf a x)) : Adj (abs c) a x := by
  obtain ⟨t, ht, hq⟩ := h
  have m := mem_abs_iff.2 ⟨g, ht⟩
  rcases hasDir_of_sideKey hq with hd | hd
  · exact adj_of_hasDir m hd
  · exact adj_symm (adj_of_hasDir m hd)

/-- **the link condition in fan form follows from `LinkCond`** (for the two triangles found on the edge): the fan
    around `b` has at least three faces and `NB 2 … NB (kB-2)` are not joined to `a` -/
theorem link_of_linkCond {c : Cell R} {a b kB : Nat} {FB NB : Nat → Nat} (fanB : FanF (slots c) b kB FB NB)
    (nB0 : NB 0 = a) (hkB0 : 0 < kB) {t1 t2 : Tri} (h1 : findDir (abs c) a b = some t1)
    (h2 : findDir (abs c) b a = some t2) (hl : LinkCond (abs c) a b (opp t1 a b) (opp t2 b a)) :
    3 ≤ kB ∧ ∀ m, 2 ≤ m → m + 2 ≤ kB → ∀ g, ¬ SideK (slots c) g (Edge.keyOf a (NB m)) := by
  have hk2 := fanB.two_le hkB0
  have hab : a ≠ b := by rw [← nB0]; exact fanB.N_ne hkB0
  -- the third node of a triangle through a and b
  have third : ∀ t, t ∈ abs c → hasNode t a = true → hasNode t b = true →
      (t.1 ≠ t.2.1 ∧ t.2.1 ≠ t.2.2 ∧ t.2.2 ≠ t.1) ∧
      ∀ z, hasNode t z = true → z ≠ a → z ≠ b → (z = NB 1 ∨ z = NB (kB - 1)) := by
    intro t ht ha hb
    obtain ⟨g, hg⟩ := mem_abs_iff.1 ht
    obtain ⟨m, hm, rfl⟩ := fanB.all g t hg hb
    obtain ⟨t', ht', hT⟩ := fanB.tri m hm
    rw [hg] at ht'; cases ht'
    refine ⟨hT.nondeg, fun z hz hza hzb => ?_⟩
    have hz' := (hT.hasNode_iff' z).1 hz
    rcases (hT.hasNode_iff' a).1 ha with he | he | he
    · exact absurd he hab
    · rw [← nB0] at he
      have := fanB.injN 0 m hkB0 hm he
      subst this
      rcases hz' with hh | hh | hh
      · exact absurd hh hzb
      · rw [nB0] at hh; exact absurd hh hza
      · exact Or.inl hh
    · by_cases hm1 : m + 1 < kB
      · rw [← nB0] at he
        have := fanB.injN 0 (m + 1) hkB0 hm1 he
        omega
      · have e : m + 1 = kB := by omega
        have e' : m = kB - 1 := by omega
        rcases hz' with hh | hh | hh
        · exact absurd hh hzb
        · rw [e'] at hh; exact Or.inr hh
        · rw [e, fanB.closeN, nB0] at hh; exact absurd hh hza
  obtain ⟨m1, d1⟩ := findDir_some h1
  obtain ⟨m2, d2⟩ := findDir_some h2
  obtain ⟨n1a, n1b⟩ := hasNode_of_hasDir d1
  obtain ⟨n2b, n2a⟩ := hasNode_of_hasDir d2
  obtain ⟨nd1, th1⟩ := third t1 m1 n1a n1b
  obtain ⟨nd2, th2⟩ := third t2 m2 n2a n2b
  obtain ⟨_, o1a, o1b⟩ := opp_ne nd1 d1
  obtain ⟨_, o2b, o2a⟩ := opp_ne nd2 d2
  have hC := th1 _ ((node_of_hasDir d1).2 (Or.inl rfl)) o1a o1b
  have hD := th2 _ ((node_of_hasDir d2).2 (Or.inl rfl)) o2a o2b
  have hk3 : 3 ≤ kB := by
    by_contra hlt
    have e : kB - 1 = 1 := by omega
    rw [e] at hC hD
    exact hl.1 (by rcases hC with h | h <;> rcases hD with h' | h' <;> rw [h, h'])
  refine ⟨hk3, fun m hm2 hm3 g hs => ?_⟩
  have hm : m < kB := by omega
  have adjA := adj_of_sideK hs
  have adjB : Adj (abs c) b (NB m) := adj_of_sideK ((fanB.side hm (FB (m + 1))).2 (Or.inr rfl))
  have := hl.2 _ adjA adjB
  have hin : NB m = NB 1 ∨ NB m = NB (kB - 1) := by
    rcases this with h | h
    · rw [h]; exact hC
    · rw [h]; exact hD
  rcases hin with h | h
  · have := fanB.injN m 1 hm (by omega) h; omega
  · have := fanB.injN m (kB - 1) hm (by omega) h; omega

/-- **the collapse theorem with the abstract guard**: index, free list, entry, aligned fans at both end nodes, the
    surface invariant, freshness of the new slot, and `LinkCond` for the two triangles of the edge (what the driver
    checks as `linkCondB`; `collapse_inv` needs exactly this) -/
theorem mergeEdge_of_linkCond {fn : Fn R} {k : SplitConsts R} {c c' : Cell R} {e E : Edge} {chk chk' : CheckSet}
    {kA kB : Nat} {FA NA FB NB : Nat → Nat}
    (h : mergeEdge fn k c e chk = .ok (c', chk')) (hI : EdgeIdxComplete c) (hf : FaceFreeOk c)
    (hentry : getEdge c e.n1 e.n2 = some E)
    (hord : (E.f1 = e.f1 ∧ E.f2 = e.f2) ∨ (E.f1 = e.f2 ∧ E.f2 = e.f1)) (fanA : FanF (slots c) e.n1 kA FA NA)
    (fanB : FanF (slots c) e.n2 kB FB NB) (kA0 : 0 < kA) (kB0 : 0 < kB) (nA0 : NA 0 = e.n2) (nB0 : NB 0 = e.n1)
    (fA0 : e.f1 = some (FA 0)) (fB0 : E.f1 = some (FB 0)) (hfresh : Fresh (abs c) (newSlot c)) (hInv : Inv (abs c))
    {t1 t2 : Tri} (h1 : findDir (abs c) e.n1 e.n2 = some t1) (h2 : findDir (abs c) e.n2 e.n1 = some t2)
    (hl : LinkCond (abs c) e.n1 e.n2 (opp t1 e.n1 e.n2) (opp t2 e.n2 e.n1)) :
    abs c' = collapseT (abs c) e.n1 e.n2 (newSlot c) ∧ Inv (abs c') ∧ FaceFreeOk c' ∧ EdgeIdxComplete c' := by
  obtain ⟨k3, lk⟩ := link_of_linkCond fanB nB0 kB0 h1 h2 hl
  have H : MergeHyp c e kA kB FA NA FB NB :=
    ⟨hI, hf, ⟨E, hentry, fB0, hord⟩, fanA, fanB, kA0, nA0, nB0, fA0, k3, lk, freshNode_of_fresh hfresh⟩
  exact ⟨mergeEdge_abs h H, mergeEdge_inv h H hInv h1 h2 hl, (mergeEdge_refines h H).2.1, (mergeEdge_refines h H).2.2⟩

/-- **the collapse theorem from plain vertex-manifoldness.**  Hypotheses: the index is sound and complete, the free
    list of face slots is consistent, the edge handed over (a check-set copy) names the same two faces as its index entry
    `E` (in either order), the live faces around EACH end node form a single cycle (`VertexManifold`, any fan — it is
    rotated / reversed to fit the edge by `Fan.align`), the new slot is fresh, the surface invariant holds and the link
    condition holds for the two triangles on the edge.
    Conclusion: the live triangles after `merge_edge` ARE the abstract collapse (equal lists), the surface invariant,
    the free list and the complete index are preserved. -/
theorem mergeEdge_of_manifold {fn : Fn R} {k : SplitConsts R} {c c' : Cell R} {e E : Edge} {chk chk' : CheckSet}
    (h : mergeEdge fn k c e chk = .ok (c', chk')) (hI : EdgeIdxComplete c) (hf : FaceFreeOk c)
    (hentry : getEdge c e.n1 e.n2 = some E)
    (hord : (E.f1 = e.f1 ∧ E.f2 = e.f2) ∨ (E.f1 = e.f2 ∧ E.f2 = e.f1))
    (mA : VertexManifold c e.n1) (mB : VertexManifold c e.n2)
    (hfresh : Fresh (abs c) (newSlot c)) (hInv : Inv (abs c))
    {t1 t2 : Tri} (h1 : findDir (abs c) e.n1 e.n2 = some t1) (h2 : findDir (abs c) e.n2 e.n1 = some t2)
    (hl : LinkCond (abs c) e.n1 e.n2 (opp t1 e.n1 e.n2) (opp t2 e.n2 e.n1)) :
    abs c' = collapseT (abs c) e.n1 e.n2 (newSlot c) ∧ Inv (abs c') ∧ FaceFreeOk c' ∧ EdgeIdxComplete c' := by
  have hentry' : EdgeSet.find? c.edges (Edge.keyOf e.n1 e.n2) = some E := hentry
  obtain ⟨_, _, hw, hP⟩ := hI.of_find hentry'
  obtain ⟨m1, d1⟩ := findDir_some h1
  have hab : e.n1 ≠ e.n2 := (opp_ne (hInv.nondeg t1 m1) d1).1
  cases hg1 : E.f1 with
  | none => exact absurd hg1 hw.1
  | some g1 =>
    -- the first face of the popped copy is one of the two faces of the entry
    have hef1 : ∃ f1, e.f1 = some f1 ∧ E.hasFace f1 = true := by
      rcases hord with ⟨o1, _⟩ | ⟨_, o2⟩
      · exact ⟨g1, by rw [← o1, hg1], (Edge.hasFace_iff _ _).2 (Or.inl hg1)⟩
      · cases hf2 : E.f2 with
        | none =>
          -- then `e.f1 = none` and `merge_edge` would have thrown
          exfalso
          unfold mergeEdge at h
          simp only [] at h
          obtain ⟨f1id, hf1id, _⟩ := bind_ok h
          have : e.f1 = some f1id := by opt_ok hf1id
          rw [← o2, hf2] at this; cases this
        | some g2 => exact ⟨g2, by rw [← o2, hf2], (Edge.hasFace_iff _ _).2 (Or.inr hf2)⟩
    obtain ⟨f1, hf1, hE1⟩ := hef1
    obtain ⟨t, ht, hq⟩ := (hP f1).1 hE1
    obtain ⟨ha, hb⟩ := hasNode_of_sideKey hq
    obtain ⟨t', ht', hq'⟩ := (hP g1).1 ((Edge.hasFace_iff _ _).2 (Or.inl hg1))
    obtain ⟨ha', hb'⟩ := hasNode_of_sideKey hq'
    obtain ⟨fsA, nsA, FA⟩ := mA
    obtain ⟨fsB, nsB, FB⟩ := mB
    obtain ⟨fsA', nsA', FA', nA, lA⟩ := FA.align ht ha hb (Ne.symm hab)
    obtain ⟨fsB', nsB', FB', nB, lB⟩ := FB.align ht' hb' ha' hab
    refine mergeEdge_of_linkCond h hI hf hentry hord FA'.toF FB'.toF FA'.pos FB'.pos ?_ ?_ ?_ ?_ hfresh hInv h1 h2 hl
    · rw [fanN_lt FA'.pos]; exact nA
    · rw [fanN_lt FB'.pos]; exact nB
    · rw [fanF_zero FA'.pos, lA]; exact hf1
    · rw [fanF_zero FB'.pos, lB]; exact hg1

/-- `swap_edge` refines `swapT` with the complete index as the only index hypothesis -/
theorem swapEdge_refines' {fn : Fn R} {c c' : Cell R} {e : Edge}
    (h : swapEdge fn c e = .ok c') (hf : FaceFreeOk c) (hInv : Inv (abs c))
    (hab : e.n1 ≠ e.n2) (he : EdgeFaces c e e.n1 e.n2) (hI : EdgeIdxComplete c)
    (hg : SwapGuard (abs c) e.n1 e.n2) :
    TriEquiv (abs c') (swapT (abs c) e.n1 e.n2) ∧ FaceFreeOk c' :=
  swapEdge_refines h hf hInv hab he (edgeIdxSound_of_complete hI hInv) hg

end

/-! ## a self-contained Boolean test for vertex-manifoldness -/
section
variable {R : Type} [Add R] [Sub R] [Mul R] [Div R] [Neg R] [Lit R] [LT R] [LE R] [DecidableLT R]
  [DecidableLE R] [DecidableEq R]

-- `vertexManifoldAutoB` is defined in `Model/CellOkCheck.lean` (core Lean, compiled into the drivers)

theorem vertexManifold_of_autoB {c : Cell R} {v : Nat} (h : vertexManifoldAutoB c v = true) :
    VertexManifold c v := by
  unfold vertexManifoldAutoB at h
  split at h
  · cases h
  · split at h
    · cases h
    · split at h
      · exact vertexManifold_of_B h
      · cases h

end

/-! ## soundness of the checker `chkMergeHyps` evaluated by the driver -/

/-- `linkCondB` (checked by the driver) implies the hypotheses of `collapse_inv` -/
theorem linkCond_of_B {T : List Tri} {a b : Nat} (h : linkCondB T a b = true) :
    ∃ t1 t2, findDir T a b = some t1 ∧ findDir T b a = some t2 ∧ LinkCond T a b (opp t1 a b) (opp t2 b a) := by
  unfold linkCondB at h
  cases h1 : findDir T a b with
  | none => rw [h1] at h; cases h
  | some t1 =>
    cases h2 : findDir T b a with
    | none => rw [h1, h2] at h; cases h
    | some t2 =>
      rw [h1, h2] at h
      simp only [Bool.and_eq_true, bne_iff_ne, ne_eq, List.all_eq_true, List.mem_filter, List.contains_eq_mem,
        decide_eq_true_eq, Bool.or_eq_true, beq_iff_eq, and_imp] at h
      exact ⟨t1, t2, rfl, rfl, h.1, fun x ha hb => h.2 x (mem_neighbours_of_adj ha) (mem_neighbours_of_adj hb)⟩

section
variable {R : Type} [Add R] [Sub R] [Mul R] [Div R] [Neg R] [Lit R] [LT R] [LE R] [DecidableLT R]
  [DecidableLE R] [DecidableEq R]

/-- **`chkMergeHyps` is sound**: it implies `MergeHyp` for the fans it computed, the surface invariant of the live
    triangles, and `LinkCond` for the two triangles found on the edge -/
theorem mergeHyps_of_chk {c : Cell R} {e : Edge} (h : chkMergeHyps c e = true) :
    ∃ kA kB FA NA FB NB, MergeHyp c e kA kB FA NA FB NB ∧ Inv (abs c) ∧
      ∃ t1 t2, findDir (abs c) e.n1 e.n2 = some t1 ∧ findDir (abs c) e.n2 e.n1 = some t2 ∧
        LinkCond (abs c) e.n1 e.n2 (opp t1 e.n1 e.n2) (opp t2 e.n2 e.n1) := by
  unfold chkMergeHyps at h
  split at h
  · split at h
    · simp only [Bool.and_eq_true] at h
      obtain ⟨⟨⟨h1, h2⟩, h3⟩, h4⟩ := h
      exact ⟨_, _, _, _, _, _, mergeHyp_of_B h1, inv_of_B h2 h3, linkCond_of_B h4⟩
    · cases h
  · cases h

end

/-! ## `split_edge` and `swap_edge` keep the index sound and complete -/
section
variable {R : Type} [Add R] [Sub R] [Mul R] [Div R] [Neg R] [Lit R] [LT R] [LE R] [DecidableLT R]
  [DecidableLE R] [DecidableEq R]

theorem two_addFace_idx {fn : Fn R} {c : Cell R} {o : Bool} {p q r s t u v w x y z a' : Nat}
    {res : Cell R × Nat × Nat}
    (h : (if o = true then do
              let __x ← addFace fn c p q r
              match __x with
                | (c, f3) => do
                  let __x ← addFace fn c s t u
                  match __x with
                    | (c, f5) => pure (c, f3, f5)
            else do
              let __x ← addFace fn c v w x
              match __x with
                | (c, f3) => do
                  let __x ← addFace fn c y z a'
                  match __x with
                    | (c, f5) => pure (c, f3, f5) : Except Err (Cell R × Nat × Nat)) = .ok res)
    (hf : FaceFreeOk c) (hI : EdgeIdxComplete c)
    (d1 : p ≠ q ∧ q ≠ r ∧ r ≠ p) (d2 : s ≠ t ∧ t ≠ u ∧ u ≠ s) (d3 : v ≠ w ∧ w ≠ x ∧ x ≠ v)
    (d4 : y ≠ z ∧ z ≠ a' ∧ a' ≠ y) : FaceFreeOk res.1 ∧ EdgeIdxComplete res.1 := by
  obtain ⟨c1, f3, f5, ⟨ho, h1, h2⟩ | ⟨ho, h1, h2⟩⟩ := two_addFace_cases h
  · have A1 := addFace_spec h1 hf
    have I1 := addFace_idx h1 hf hI d1.1 d1.2.1 d1.2.2
    exact ⟨(addFace_spec h2 A1.ffo).ffo, addFace_idx h2 A1.ffo I1 d2.1 d2.2.1 d2.2.2⟩
  · have A1 := addFace_spec h1 hf
    have I1 := addFace_idx h1 hf hI d3.1 d3.2.1 d3.2.2
    exact ⟨(addFace_spec h2 A1.ffo).ffo, addFace_idx h2 A1.ffo I1 d4.1 d4.2.1 d4.2.2⟩

/-- a node of a live triangle is not the fresh node -/
theorem ne_of_fresh {c : Cell R} {g n x : Nat} {t : Tri} (hfresh : Fresh (abs c) n)
    (hs : (slots c)[g]? = some (some t)) (hx : hasNode t x = true) : x ≠ n := by
  intro he
  have := hfresh t (mem_abs_iff.2 ⟨g, hs⟩)
  rw [← he, hx] at this; cases this

/-- **`split_edge` keeps the index sound and complete** (hypotheses of `splitEdge_refines` + freshness of the slot
    handed out by `add_node`) -/
theorem splitEdge_idx {fn : Fn R} {k : SplitConsts R} {c c' : Cell R} {e : Edge} {chk chk' : CheckSet}
    (h : splitEdge fn k c e chk = .ok (c', chk')) (hf : FaceFreeOk c) (hI : EdgeIdxComplete c)
    (hab : e.n1 ≠ e.n2) (he : EdgeFaces c e e.n1 e.n2) (hfresh : Fresh (abs c) (newSlot c)) :
    EdgeIdxComplete c' := by
  obtain ⟨g1, g2, t1, t2, hg1, hg2, hg12, hs1, hs2, h1a, h1b, h2a, h2b⟩ := he
  unfold splitEdge at h
  simp only [] at h
  bok h with f1id, hf1id
  bok h with f2id, hf2id
  have e1 : e.f1 = some f1id := by opt_ok hf1id
  have e2 : e.f2 = some f2id := by opt_ok hf2id
  rw [hg1] at e1; cases e1
  rw [hg2] at e2; cases e2
  bok h with f1, hf1
  bok h with f2, hf2
  bok h with na, hna
  bok h with nb, hnb
  bok h with cc, hcc
  bok h with dd, hdd
  generalize hr : addNode _ _ _ = r at h
  obtain ⟨c1, ee⟩ := r
  simp only [] at h
  obtain ⟨hS1, hF1, hE⟩ := addNode_store hr (by simp)
  have hEd1 : c1.edges = c.edges := by
    have := congrArg (fun r => r.1.edges) hr
    simp only at this
    rw [← this]; exact edges_addNode _ _ _
  subst hE
  bok h with c2, h2
  bok h with c3, h3
  bok h with ⟨c4, f3, f5⟩, h4
  bok h with ⟨c5, f4, f6⟩, h5
  simp only [] at h
  bok h with eea, _
  bok h with eeb, _
  bok h with eec, _
  bok h with eed, _
  cases h
  have hf1' : c.faces[g1]? = some f1 := by opt_ok hf1
  have hf2' : c.faces[g2]? = some f2 := by opt_ok hf2
  have hcc' : oppositeNode f1 e.n1 e.n2 = some cc := by opt_ok hcc
  have hdd' : oppositeNode f2 e.n1 e.n2 = some dd := by opt_ok hdd
  obtain ⟨f, hfa, _, ht1⟩ := slot_some_iff.1 hs1
  rw [hf1'] at hfa; cases hfa
  obtain ⟨f, hfa, _, ht2⟩ := slot_some_iff.1 hs2
  rw [hf2'] at hfa; cases hfa
  subst ht1; subst ht2
  obtain ⟨hcca, hccb, hcc1⟩ := oppositeNode_some hcc'
  obtain ⟨hdda, hddb, hdd2⟩ := oppositeNode_some hdd'
  have na' := ne_of_fresh hfresh hs1 h1a
  have nb' := ne_of_fresh hfresh hs1 h1b
  have nc' := ne_of_fresh hfresh hs1 hcc1
  have nd' := ne_of_fresh hfresh hs2 hdd2
  -- the two deletions
  have ffo1 : FaceFreeOk c1 := hf.congr hS1 hF1
  have I1 : EdgeIdxComplete c1 := edgeIdxComplete_congr hS1 hEd1 hI
  have s1' : (slots c1)[g1]? = some (some (f1.n1, f1.n2, f1.n3)) := by rw [hS1]; exact hs1
  have D1 := deleteFace_spec h2 s1'
  have I2 := deleteFace_idx h2 s1' I1
  have s2' : (slots c2)[g2]? = some (some (f2.n1, f2.n2, f2.n3)) := by
    rw [D1.slots_eq, List.getElem?_set_ne hg12, hS1]; exact hs2
  have D2 := deleteFace_spec h3 s2'
  have I3 := deleteFace_idx h3 s2' I2
  have ffo3 : FaceFreeOk c3 := D2.ffo (D1.ffo ffo1)
  -- the four additions
  obtain ⟨ffo4, I4⟩ := two_addFace_idx h4 ffo3 I3 ⟨hcca, na', Ne.symm nc'⟩ ⟨nc', Ne.symm nb', Ne.symm hccb⟩
    ⟨nc', Ne.symm na', Ne.symm hcca⟩ ⟨hccb, nb', Ne.symm nc'⟩
  obtain ⟨ffo5, I5⟩ := two_addFace_idx h5 ffo4 I4 ⟨hdda, na', Ne.symm nd'⟩ ⟨nd', Ne.symm nb', Ne.symm hddb⟩
    ⟨nd', Ne.symm na', Ne.symm hdda⟩ ⟨hddb, nb', Ne.symm nd'⟩
  refine edgeIdxComplete_congr ?_ ?_ I5
  · rw [slots_setFaceType, slots_setFaceType, slots_setFaceType, slots_setFaceType]
  · rw [edges_setFaceType, edges_setFaceType, edges_setFaceType, edges_setFaceType]

end

section
variable {R : Type} [Add R] [Sub R] [Mul R] [Div R] [Neg R] [Lit R] [LT R] [LE R] [DecidableLT R]
  [DecidableLE R] [DecidableEq R]

theorem mem_sideKeys_flipT (t : Tri) (q : Nat) : q ∈ sideKeys (flipT t) ↔ q ∈ sideKeys t := by
  obtain ⟨x, y, z⟩ := t
  rw [mem_sideKeys, mem_sideKeys]
  unfold flipT
  dsimp only
  rw [Edge.keyOf_comm z y, Edge.keyOf_comm y x, Edge.keyOf_comm x z]
  tauto

/-- replacing a live triangle by one with the same sides does not change the side relation -/
theorem sideK_set_same {L : List (Option Tri)} {i : Nat} {t t' : Tri} (hi : L[i]? = some (some t))
    (hs : ∀ q, q ∈ sideKeys t' ↔ q ∈ sideKeys t) (g q : Nat) :
    SideK (L.set i (some t')) g q ↔ SideK L g q := by
  unfold SideK
  have hlt : i < L.length := (List.getElem?_eq_some_iff.1 hi).1
  by_cases hg : i = g
  · subst hg
    rw [List.getElem?_set_self hlt]
    constructor
    · rintro ⟨u, hu, hq⟩
      cases hu
      exact ⟨t, hi, (hs q).1 hq⟩
    · rintro ⟨u, hu, hq⟩
      rw [hi] at hu; cases hu
      exact ⟨t', rfl, (hs q).2 hq⟩
  · rw [List.getElem?_set_ne hg]

/-- **`swap_edge` keeps the index sound and complete** (same hypotheses as `swapEdge_refines`, with the complete index
    in place of the merely sound one) -/
theorem swapEdge_idx {fn : Fn R} {c c' : Cell R} {e : Edge}
    (h : swapEdge fn c e = .ok c') (hf : FaceFreeOk c) (hInv : Inv (abs c))
    (hab : e.n1 ≠ e.n2) (he : EdgeFaces c e e.n1 e.n2) (hI : EdgeIdxComplete c)
    (hg : SwapGuard (abs c) e.n1 e.n2) : EdgeIdxComplete c' := by
  obtain ⟨g1, g2, t1, t2, hg1, hg2, hg12, hs1, hs2, h1a, h1b, h2a, h2b⟩ := he
  unfold swapEdge at h
  simp only [] at h
  bok h with f1id, hf1id
  bok h with f2id, hf2id
  have e1 : e.f1 = some f1id := by opt_ok hf1id
  have e2 : e.f2 = some f2id := by opt_ok hf2id
  rw [hg1] at e1; cases e1
  rw [hg2] at e2; cases e2
  bok h with f1, hf1
  bok h with f2, hf2
  bok h with cc, hcc
  bok h with dd, hdd
  bok h with eac, heac
  bok h with ecb, hecb
  bok h with ebd, hebd
  bok h with eda, heda
  bok h with f5, hf5
  bok h with f8, hf8
  bok h with f7, hf7
  bok h with f6, hf6
  have hf1' : c.faces[g1]? = some f1 := by opt_ok hf1
  have hf2' : c.faces[g2]? = some f2 := by opt_ok hf2
  have hcc' : oppositeNode f1 e.n1 e.n2 = some cc := by opt_ok hcc
  have hdd' : oppositeNode f2 e.n1 e.n2 = some dd := by opt_ok hdd
  obtain ⟨f, hfa, _, ht1⟩ := slot_some_iff.1 hs1
  rw [hf1'] at hfa; cases hfa
  obtain ⟨f, hfa, _, ht2⟩ := slot_some_iff.1 hs2
  rw [hf2'] at hfa; cases hfa
  subst ht1; subst ht2
  -- the two opposite nodes differ (abstract guard)
  have hT0 := absM_two_slots hg12 hs1 hs2
  have hdirs := edge_dirs hInv hT0 hab h1a h1b h2a h2b
  have hcd : cc ≠ dd := by
    rcases hdirs with ⟨d1, d2⟩ | ⟨d1, d2⟩
    · obtain ⟨F1, F2⟩ := find_of_decomp hInv.simple hT0 d1 d2
      have := hg _ _ F1 F2
      rw [← opp_of_oppositeNode d1 hcc', ← opp_of_oppositeNode' d2 hdd'] at this
      exact this.1
    · obtain ⟨F1, F2⟩ := find_of_decomp hInv.simple (hT0.trans (Multiset.cons_swap _ _ _)) d2 d1
      have := hg _ _ F1 F2
      rw [← opp_of_oppositeNode' d1 hcc', ← opp_of_oppositeNode d2 hdd'] at this
      exact Ne.symm this.1
  obtain ⟨hcca, hccb, hcc1⟩ := oppositeNode_some hcc'
  obtain ⟨hdda, hddb, hdd2⟩ := oppositeNode_some hdd'
  split at h
  · cases h; exact hI
  split at h
  · cases h; exact hI
  bok h with c2, h2
  bok h with c3, h3
  bok h with _, _
  bok h with _, _
  bok h with _, _
  bok h with _, _
  bok h with ⟨c4, f3⟩, h4
  bok h with ⟨c5, f4⟩, h5
  simp only [] at h
  bok h with r5, hr5
  bok h with r8, hr8
  bok h with g3, hg3
  bok h with g4, hg4
  bok h with _, _
  bok h with _, _
  bok h with _, _
  bok h with _, _
  have hc' := Except.ok.inj h
  clear h
  have D1 := deleteFace_spec h2 hs1
  have I2 := deleteFace_idx h2 hs1 hI
  have s2' : (slots c2)[g2]? = some (some (f2.n1, f2.n2, f2.n3)) := by
    rw [D1.slots_eq, List.getElem?_set_ne hg12]; exact hs2
  have D2 := deleteFace_spec h3 s2'
  have I3 := deleteFace_idx h3 s2' I2
  have ffo3 : FaceFreeOk c3 := D2.ffo (D1.ffo hf)
  have A3 := addFace_spec h4 ffo3
  have I4 := addFace_idx h4 ffo3 I3 (Ne.symm hdda) (Ne.symm hcd) hcca
  have A4 := addFace_spec h5 A3.ffo
  have I5 := addFace_idx h5 A3.ffo I4 (Ne.symm hccb) hcd hddb
  have n34 : f3 ≠ f4 := fun h => A4.fresh _ (h ▸ A3.got)
  have G3s : (slots c5)[f3]? = some (some (e.n1, dd, cc)) := by rw [A4.other f3 n34]; exact A3.got
  have G4s := A4.got
  have hg3' : c5.faces[f3]? = some g3 := by opt_ok hg3
  have hg4'' : (c5.faces.set! f3 (checkWinding r5 g3))[f4]? = some g4 := by opt_ok hg4
  have hg4' : c5.faces[f4]? = some g4 := face_of_set_ne n34 hg4''
  obtain ⟨f, hfa, hg3u, hg3t⟩ := slot_some_iff.1 G3s
  rw [hg3'] at hfa; cases hfa
  obtain ⟨f, hfa, hg4u, hg4t⟩ := slot_some_iff.1 G4s
  rw [hg4'] at hfa; cases hfa
  obtain ⟨hS, _⟩ := swap_tail fn c5 f3 f4 (checkWinding r5 g3) (checkWinding r8 g4)
  rw [triOf_checkWinding _ _ hg3u, triOf_checkWinding _ _ hg4u, hg3t, hg4t] at hS
  rw [hc'] at hS
  have hE : c'.edges = c5.edges := by
    rw [← hc', edges_updFaceGeom, edges_updFaceGeom]
  show IdxP (SideK (slots c')) c'.edges
  rw [hE, hS]
  refine I5.congr (fun g q => ?_)
  have same : ∀ (b : Bool) (t : Tri) (q : Nat), q ∈ sideKeys (if b = true then flipT t else t) ↔ q ∈ sideKeys t := by
    intro b t q
    cases b
    · simp
    · simp only [if_true]; exact mem_sideKeys_flipT t q
  have G4s' : ((slots c5).set f3 (some (if cwFlip (r5.n1, r5.n2, r5.n3) (e.n1, dd, cc) = true then
      flipT (e.n1, dd, cc) else (e.n1, dd, cc))))[f4]? = some (some (e.n2, cc, dd)) := by
    rw [List.getElem?_set_ne n34]; exact G4s
  rw [sideK_set_same G4s' (same _ _), sideK_set_same G3s (same _ _)]

end

/-! ## non-vacuity: the octahedron over ℚ, evaluated by the kernel -/
section examples
set_option maxRecDepth 1000000

local instance (T : List Tri) : Decidable (NonDeg T) := by unfold NonDeg; infer_instance
local instance (T : List Tri) : Decidable (Simple T) := by unfold Simple; infer_instance
local instance (T : List Tri) : Decidable (Closed T) := by unfold Closed; infer_instance

/-- the index of the octahedron built by `initCell` is sound and complete, and every node is manifold -/
example : EdgeIdxComplete octaCell := edgeIdxComplete_of_B (by decide +kernel)

/-- `fanOf` computes the fans around the end nodes of the edge 0–2, aligned with its first face (slot 0) -/
example : fanOf octaCell 0 2 0 = some ([4, 7, 3, 0], [2, 5, 3, 4]) ∧
    fanOf octaCell 2 0 0 = some ([4, 5, 1, 0], [0, 5, 1, 4]) := by decide +kernel

example : VertexManifold octaCell 0 := vertexManifold_of_B (fs := [4, 7, 3, 0]) (ns := [2, 5, 3, 4]) (by decide +kernel)

/-- every node of the octahedron is manifold (self-contained test) -/
example : ∀ v, v < 6 → VertexManifold octaCell v := by
  have h : (List.range 6).all (fun v => vertexManifoldAutoB octaCell v) = true := by decide +kernel
  intro v hv
  exact vertexManifold_of_autoB (List.all_eq_true.1 h v (List.mem_range.2 hv))

/-- all hypotheses of `mergeEdge_refines` hold for the edge 0–2 of the octahedron; the operation succeeds and the
    result is, as a list, the abstract collapse into the new node 6; index and free list are consistent again -/
example : ∃ c' chk', mergeEdge fnQ Gen.splitConsts octaCell e02 [] = .ok (c', chk') ∧
    abs c' = collapseT octa 0 2 6 ∧ FaceFreeOk c' ∧ EdgeIdxComplete c' := by
  obtain ⟨⟨c', chk'⟩, h⟩ := ok_of_okB (x := mergeEdge fnQ Gen.splitConsts octaCell e02 []) (by decide +kernel)
  have H := mergeHyp_of_B (c := octaCell) (e := e02) (fsA := [4, 7, 3, 0]) (nsA := [2, 5, 3, 4])
    (fsB := [4, 5, 1, 0]) (nsB := [0, 5, 1, 4]) (by decide +kernel)
  have hr := mergeEdge_abs h H
  have e : collapseT (abs octaCell) e02.n1 e02.n2 (newSlot octaCell) = collapseT octa 0 2 6 := by decide +kernel
  rw [e] at hr
  exact ⟨c', chk', h, hr, (mergeEdge_refines h H).2.1, (mergeEdge_refines h H).2.2⟩

/-- the checker the driver evaluates accepts the edge 0–2 of the octahedron -/
example : chkMergeHyps octaCell e02 = true := by decide +kernel

/-- the result as computed by the kernel -/
example : collapseT octa 0 2 6 = [(6, 1, 4), (1, 3, 4), (3, 6, 4), (1, 6, 5), (3, 1, 5), (6, 3, 5)] := by decide

/-- … and the invariant is kept (`LinkCond` via its Boolean form is not needed here: the result is closed and simple) -/
example : Inv (collapseT octa 0 2 6) := ⟨by decide, by decide, by decide⟩

/-- the index of the RESULT also passes the Boolean test (evaluation of the model, independent of the theorem) -/
example : (match mergeEdge fnQ Gen.splitConsts octaCell e02 [] with
    | .ok (c', _) => edgeIdxCompleteB c' && faceFreeOkB c' | .error _ => false) = true := by decide +kernel

/-- instrumented copy of `refineMesh.loop` (the guard `can_be_merged`, which sorts with `Array.qsort` and cannot be
    evaluated by the kernel, is replaced by `linkCondB`): before every executed collapse, evaluate ALL hypotheses of
    `mergeEdge_refines` (`mergeHypB`, fans computed by `fanOf`, the edge taken from the check set as the code does), and
    after it the conclusion -/
def mergeProbe (fuel : Nat) (lminSq lmaxSq : ℚ) (c : Cell ℚ) (chk : CheckSet) (iter : Nat) (log : List Bool) :
    List Bool :=
  match fuel with
  | 0 => log
  | fuel + 1 =>
    if chk.isEmpty || !(iter < c.edges.length) then log else
    match chk with
    | [] => log
    | e :: rest =>
      let l2 := V3.normSq (posOf c e.n1 - posOf c e.n2)
      if lmaxSq < l2 then
        match splitEdge fnQ Gen.splitConsts c e rest with
        | .error _ => false :: log
        | .ok (c', chk') => mergeProbe fuel lminSq lmaxSq c' chk' (iter + 1) log
      else if l2 < lminSq then
        match linkCondB (abs c) e.n1 e.n2 with
        | false => mergeProbe fuel lminSq lmaxSq c rest iter log
        | true =>
          let hyp := match fanOf c e.n1 e.n2 (e.f1.getD 0), fanOf c e.n2 e.n1 (e.f1.getD 0) with
            | some (fsA, nsA), some (fsB, nsB) => mergeHypB c e fsA nsA fsB nsB
            | _, _ => false
          match mergeEdge fnQ Gen.splitConsts c e rest with
          | .error _ => false :: log
          | .ok (c', chk') => mergeProbe fuel lminSq lmaxSq c' chk' (iter + 1)
              ((hyp && edgeIdxCompleteB c' && decide (abs c' = collapseT (abs c) e.n1 e.n2 (newSlot c))) :: log)
      else mergeProbe fuel lminSq lmaxSq c rest iter log

/-- the octahedron after 12 splits of `refine_mesh` (30 faces) -/
def fineCell : Cell ℚ := (refineMesh fnQ ⟨Gen.splitConsts, 1, 0⟩ (1/100) (3/2) false octaCell 12).1

/-- **applicability**: 12 successive collapses on that mesh, each one with the check-set copy of the edge as the real
    loop uses it: every time all hypotheses of the theorem hold, the index of the result passes the Boolean test and
    the live triangles are the abstract collapse (kernel evaluation, ≈ 25 s) -/
example : mergeProbe 40 (9/10) 100 fineCell fineCell.edges 0 [] = List.replicate 12 true := by decide +kernel

end examples

end Simu.Remesh

#print axioms Simu.Remesh.mergeEdge_refines
#print axioms Simu.Remesh.mergeEdge_abs
#print axioms Simu.Remesh.mergeEdge_inv
#print axioms Simu.Remesh.replaceNode_abs
#print axioms Simu.Remesh.replaceNode_abs2
#print axioms Simu.Remesh.addFace_idx
#print axioms Simu.Remesh.deleteFace_idx
#print axioms Simu.Remesh.mergeHyp_of_B
#print axioms Simu.Remesh.splitEdge_idx
#print axioms Simu.Remesh.swapEdge_idx
#print axioms Simu.Remesh.mergeEdge_of_linkCond
#print axioms Simu.Remesh.mergeEdge_of_manifold
#print axioms Simu.Remesh.mergeHyps_of_chk
#print axioms Simu.Remesh.edgeIdxSound_of_complete
