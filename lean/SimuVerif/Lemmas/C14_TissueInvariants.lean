import SimuVerif.Lemmas.C14_Invariants
import SimuVerif.Lemmas.C14_TissueRStages
/-
  C14 — the mesh invariants `Remesh.CellOk` of EVERY cell along whole runs of the tissue model `TissueR.tissueIterationR`.

  `save_mesh` (rebase of every cell) and `refine_meshes` (a whole pass per cell) keep them by `rebase_preserves` /
  `refineMesh_preserves`; the contact model, the polarisation update, `apply_internal_forces` (cached face geometry, node
  normals) and the integrator do not touch connectivity, free queues or used flags (`MeshSame`: frame lemmas).
-/
set_option linter.unusedSectionVars false
set_option linter.unusedVariables false
set_option linter.unusedSimpArgs false
namespace Simu.TissueR
open Simu Simu.Forces Simu.Remesh Simu.PipelineR

theorem collect_mem {ε α β : Type} (f : α → Except ε β) :
    ∀ (l : List α) (xs : List β), collect (l.map f) = .ok xs → ∀ x ∈ xs, ∃ a ∈ l, f a = .ok x
  | [], xs, h, x, hx => by
    simp only [List.map_nil, collect] at h
    cases h; cases hx
  | a :: l, xs, h, x, hx => by
    simp only [List.map_cons, collect] at h
    cases hr : collect (l.map f) with
    | error e => rw [hr] at h; cases h
    | ok ys =>
      rw [hr] at h
      cases hfa : f a with
      | error e => rw [hfa] at h; cases h
      | ok y =>
        rw [hfa] at h
        cases h
        rcases List.mem_cons.1 hx with rfl | hx
        · exact ⟨a, List.mem_cons_self, hfa⟩
        · obtain ⟨b, hb, hfb⟩ := collect_mem f l ys hr x hx
          exact ⟨b, List.mem_cons_of_mem _ hb, hfb⟩

section
variable {R : Type} [Add R] [Sub R] [Mul R] [Div R] [Neg R] [Lit R] [LT R] [LE R] [DecidableLT R] [DecidableLE R]
  [DecidableEq R]

/-- the mesh invariants of every cell of the tissue -/
def AllOk (cells : List (CellTR R)) : Prop := ∀ c ∈ cells, CellOk c.mesh

/-- the two meshes have the same connectivity, free queues and used flags (positions, momenta, face types and cached face
    geometry may differ) -/
structure MeshSame (m' m : Remesh.Cell R) : Prop where
  slots : Remesh.slots m' = Remesh.slots m
  edges : m'.edges = m.edges
  freeNodes : m'.freeNodes = m.freeNodes
  freeFaces : m'.freeFaces = m.freeFaces
  used : ∀ j, usedN m' j = usedN m j
  size : m'.nodes.size = m.nodes.size

theorem MeshSame.refl (m : Remesh.Cell R) : MeshSame m m := ⟨rfl, rfl, rfl, rfl, fun _ => rfl, rfl⟩

theorem MeshSame.trans {a b c : Remesh.Cell R} (h1 : MeshSame a b) (h2 : MeshSame b c) : MeshSame a c :=
  ⟨h1.slots.trans h2.slots, h1.edges.trans h2.edges, h1.freeNodes.trans h2.freeNodes, h1.freeFaces.trans h2.freeFaces,
    fun j => (h1.used j).trans (h2.used j), h1.size.trans h2.size⟩

theorem MeshSame.cellOk {m' m : Remesh.Cell R} (h : MeshSame m' m) (hc : CellOk m) : CellOk m' :=
  cellOk_congr h.slots h.edges h.freeNodes h.freeFaces h.used h.size hc

/-- a map of the cells that keeps every mesh up to `MeshSame` keeps the invariants -/
theorem allOk_of_same {cells cells' : List (CellTR R)} (h : ∀ c' ∈ cells', ∃ c ∈ cells, MeshSame c'.mesh c.mesh)
    (hc : AllOk cells) : AllOk cells' := by
  intro c' hc'
  obtain ⟨c, hm, hs⟩ := h c' hc'
  exact hs.cellOk (hc c hm)

/-! ### the mesh stage -/

theorem rebaseCell_ok {c c' : CellTR R} (h : rebaseCell c = .ok c') (hc : CellOk c.mesh) : CellOk c'.mesh := by
  unfold rebaseCell at h
  cases hr : rebase c.mesh with
  | error e => rw [hr] at h; cases h
  | ok m =>
    rw [hr] at h
    cases h
    exact (rebase_preserves hr hc).1

theorem saveMeshT_allOk {fn : Fn R} {K : ConstsTR R} {s s1 : StateTR R} (h : saveMeshT fn K s = .ok s1)
    (hc : AllOk s.cells) : AllOk s1.cells := by
  unfold saveMeshT at h
  split at h
  · cases hcol : collect (s.cells.map rebaseCell) with
    | error e => rw [hcol] at h; cases h
    | ok cs =>
      rw [hcol] at h
      cases h
      intro c' hc'
      obtain ⟨c, hm, hr⟩ := collect_mem rebaseCell _ _ hcol c' hc'
      exact rebaseCell_ok hr (hc c hm)
  · cases h; exact hc

theorem refineCell_ok {fn : Fn R} {K : ConstsTR R} {c c' : CellTR R} (h : refineCell fn K c = .ok c')
    (hc : CellOk c.mesh) : CellOk c'.mesh := by
  unfold refineCell at h
  simp only [] at h
  cases hr : refineResult (refineMesh fn (Gen.refineConsts fn) (lminSq (kR K c.k)) (lmaxSq (kR K c.k)) K.swapOn
      (faceTypes (kR K c.k) c.mesh) K.maxIter) with
  | error e => rw [hr] at h; cases h
  | ok m =>
    rw [hr] at h
    cases h
    exact refine_cellOk (K := kR K c.k) hr (faceTypes_cellOk _ hc)

theorem meshStageT_allOk {fn : Fn R} {K : ConstsTR R} {s s1 : StateTR R} (h : meshStageT fn K s = .ok s1)
    (hc : AllOk s.cells) : AllOk s1.cells := by
  unfold meshStageT at h
  cases hs : saveMeshT fn K s with
  | error e => rw [hs] at h; cases h
  | ok s0 =>
    rw [hs] at h
    change Except.map _ (collect (s0.cells.map (refineCell fn K))) = _ at h
    have h0 := saveMeshT_allOk hs hc
    cases hcol : collect (s0.cells.map (refineCell fn K)) with
    | error e => rw [hcol] at h; cases h
    | ok cs =>
      rw [hcol] at h
      cases h
      intro c' hc'
      obtain ⟨c, hm, hr⟩ := collect_mem (refineCell fn K) _ _ hcol c' hc'
      exact refineCell_ok hr (h0 c hm)

/-! ### the phases that do not touch connectivity -/

theorem same_of_nodes_mapIdx (m : Remesh.Cell R) (g : Nat → Remesh.Node R → Remesh.Node R)
    (hg : ∀ i n, (g i n).used = n.used) : MeshSame ({ m with nodes := m.nodes.mapIdx g } : Remesh.Cell R) m :=
  ⟨rfl, rfl, rfl, rfl, fun j => usedN_mapIdx m.nodes g hg j, by simp⟩

theorem same_of_faces_map (m : Remesh.Cell R) (g : Remesh.Face R → Remesh.Face R)
    (hg : ∀ f, triOf (g f) = triOf f) : MeshSame ({ m with faces := m.faces.map g } : Remesh.Cell R) m :=
  ⟨slotsA_map_same m.faces g hg, rfl, rfl, rfl, fun _ => rfl, rfl⟩

theorem refreshGeom_same (fx : FX R) (m : Remesh.Cell R) : MeshSame (refreshGeom fx m) m := by
  unfold refreshGeom
  exact same_of_faces_map m _ (fun f => by
    by_cases hu : f.used = true
    · simp only [hu, if_true]; unfold triOf; simp [hu]
    · simp only [hu, if_false, Bool.false_eq_true])

theorem writeMutR_same (cells : List (CellTR R)) (st : Array (Tissue.Mut R)) :
    ∀ c' ∈ writeMutR cells st, ∃ c ∈ cells, MeshSame c'.mesh c.mesh := by
  intro c' hc'
  unfold writeMutR at hc'
  obtain ⟨c, hm, i, rfl⟩ := mem_zipIdx_map hc'
  refine ⟨c, hm, ?_⟩
  simp only
  split <;> exact MeshSame.refl _

theorem ofPopCellR_same (c : CellTR R) (l : List (Coupling.CNode R)) : MeshSame (ofPopCellR c l).mesh c.mesh := by
  unfold ofPopCellR
  exact same_of_nodes_mapIdx c.mesh _ (fun i n => by
    by_cases hu : n.used = true
    · simp only [hu, if_true]
    · simp only [hu, if_false, Bool.false_eq_true])

theorem ofPopR_same (cells : List (CellTR R)) (p : Coupling.Pop R) :
    ∀ c' ∈ ofPopR cells p, ∃ c ∈ cells, MeshSame c'.mesh c.mesh := by
  intro c' hc'
  unfold ofPopR at hc'
  obtain ⟨c, hm, i, rfl⟩ := mem_zipIdx_map hc'
  refine ⟨c, hm, ?_⟩
  simp only
  split
  · exact ofPopCellR_same _ _
  · exact MeshSame.refl _

theorem contactRunR_allOk (fn : Fn R) (K : Tissue.Consts R) {cells : List (CellTR R)} (hc : AllOk cells) :
    AllOk (contactRunR fn K cells).1 := by
  unfold contactRunR
  have h1 : AllOk (writeMutR cells (contactSearchR fn K cells)) := allOk_of_same (writeMutR_same _ _) hc
  simp only
  split
  · exact allOk_of_same (ofPopR_same _ _) h1
  · exact h1

theorem polariseCellR_same (cells : List (CellTR R)) (c : CellTR R) : MeshSame (polariseCellR cells c).mesh c.mesh := by
  unfold polariseCellR
  split
  · exact same_of_faces_map c.mesh _ (fun f => by
      unfold polariseFaceR
      split
      · split <;> rfl
      · rfl)
  · exact MeshSame.refl _

theorem polariseR_allOk {cells : List (CellTR R)} (hc : AllOk cells) : AllOk (polariseR cells) := by
  refine allOk_of_same (fun c' hc' => ?_) hc
  unfold polariseR at hc'
  obtain ⟨c, hm, rfl⟩ := List.mem_map.1 hc'
  exact ⟨c, hm, polariseCellR_same cells c⟩

theorem applyInternalForcesR_same (fx : FX R) (K : Tissue.Consts R) (c : CellTR R) :
    MeshSame (applyInternalForcesR fx K c).mesh c.mesh := by
  unfold applyInternalForcesR
  exact refreshGeom_same fx c.mesh

theorem beforeIntegrationR_allOk (fn : Fn R) (fx : FX R) (K : Tissue.Consts R) {cells : List (CellTR R)}
    (hc : AllOk cells) : AllOk (beforeIntegrationR fn fx K cells).1 := by
  unfold beforeIntegrationR
  have h2 := polariseR_allOk (contactRunR_allOk fn K hc)
  refine allOk_of_same (fun c' hc' => ?_) h2
  obtain ⟨c, hm, rfl⟩ := List.mem_map.1 hc'
  exact ⟨c, hm, applyInternalForcesR_same fx K c⟩

theorem ofDynCellR_same (c : CellTR R) (l : List (Integ.Dyn R)) : MeshSame (ofDynCellR c l).mesh c.mesh := by
  unfold ofDynCellR
  exact same_of_nodes_mapIdx c.mesh _ (fun i n => by
    by_cases hu : n.used = true
    · simp only [hu, if_true]
    · simp only [hu, if_false, Bool.false_eq_true])

theorem integrateR_allOk (K : Tissue.Consts R) (time : R) {cells : List (CellTR R)} (hc : AllOk cells) :
    AllOk (integrateR K time cells).2 := by
  unfold integrateR
  refine allOk_of_same (fun c' hc' => ?_) hc
  simp only at hc'
  unfold ofDynR at hc'
  obtain ⟨c, hm, i, rfl⟩ := mem_zipIdx_map hc'
  refine ⟨c, hm, ?_⟩
  simp only
  split
  · exact ofDynCellR_same _ _
  · exact MeshSame.refl _

theorem physStage_allOk (fn : Fn R) (fx : FX R) (K : ConstsTR R) {s : StateTR R} (hc : AllOk s.cells) :
    AllOk (physStage fn fx K s).cells := by
  unfold physStage physFrom
  exact integrateR_allOk K.base s.time (beforeIntegrationR_allOk fn fx K.base hc)

/-- **one tissue iteration keeps the mesh invariants of every cell** -/
theorem tissueIterationR_allOk {fn : Fn R} {fx : FX R} {K : ConstsTR R} {s s' : StateTR R}
    (h : tissueIterationR fn fx K s = .ok s') (hc : AllOk s.cells) : AllOk s'.cells := by
  unfold tissueIterationR at h
  cases hm : meshStageT fn K s with
  | error e => rw [hm] at h; cases h
  | ok s1 =>
    rw [hm] at h
    cases h
    exact physStage_allOk fn fx K (meshStageT_allOk hm hc)

theorem tissueRunR_allOk {fn : Fn R} {fx : FX R} {K : ConstsTR R} :
    ∀ (n : Nat) {s s' : StateTR R}, tissueRunR fn fx K n s = .ok s' → AllOk s.cells → AllOk s'.cells
  | 0, s, s', h, hc => by unfold tissueRunR at h; cases h; exact hc
  | n + 1, s, s', h, hc => by
    unfold tissueRunR at h
    cases hi : tissueIterationR fn fx K s with
    | error e => rw [hi] at h; cases h
    | ok s1 =>
      rw [hi] at h
      exact tissueRunR_allOk n h (tissueIterationR_allOk hi hc)

/-! ### the mesh conjuncts of the domain predicate -/

/-- on a valid mesh `cellMeshOk` is its attribute-table part -/
theorem cellMeshOk_of_cellOk {c : CellTR R} (hc : CellOk c.mesh) : cellMeshOk c = attrsOk c := by
  unfold cellMeshOk
  rw [meshOk_of_cellOk hc, edgeFacesUsed_of hc, queueOk_of hc, usedCovered_of hc]
  simp

theorem refineLiveT_of_allOk (fn : Fn R) (K : ConstsTR R) {s : StateTR R} (hc : AllOk s.cells) :
    refineLiveT fn K s = true := by
  unfold refineLiveT
  split
  · rfl
  · rename_i s1 hs
    have h1 := saveMeshT_allOk hs hc
    rw [List.all_eq_true]
    intro c hm
    have hcc := h1 c hm
    rw [Bool.and_eq_true]
    exact ⟨refineLive_of_invariants _ _ _ _ _ _ _ (faceTypes_cellOk _ hcc), replayOk_of_cellOk fn K c hcc⟩

end

end Simu.TissueR
