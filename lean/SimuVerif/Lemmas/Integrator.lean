import SimuVerif.Model.Integrator
import SimuVerif.Lemmas.Field
import Mathlib.Data.List.Nodup
/-
  C03 — structural lemmas about the sequential in-place update of `Model/Integrator.lean`:
  frame (a visit writes only the slots of its plan), localisation (a slot written by exactly one visit
  gets the value that visit computes from the initial state), schedule (every slot is visited exactly once),
  force reset.  No arithmetic here: these hold for every scalar type.
-/
set_option linter.unusedSectionVars false
namespace Simu.Integ
open Simu

variable {R : Type} [Field R] [LinearOrder R] [IsStrictOrderedRing R]

/-! ### get / set -/

theorem getD_setD (d : DynS R) (q q' : Slot) (x : Dyn R) :
    getD (setD d q x) q' = if q' = q ∧ (getD d q).isSome then some x else getD d q' := by
  obtain ⟨c, n⟩ := q
  obtain ⟨c', n'⟩ := q'
  unfold setD getD
  simp only
  cases hd : d[c]? with
  | none => simp
  | some l =>
    simp only [List.getElem?_set]
    by_cases hc : c = c'
    · subst hc
      have hlt : c < d.length := by
        rcases Nat.lt_or_ge c d.length with h | h
        · exact h
        · rw [List.getElem?_eq_none h] at hd; cases hd
      simp only [hlt, if_true, hd]
      by_cases hn : n = n'
      · subst hn
        cases hl : l[n]? with
        | none =>
          have : ¬ n < l.length := by
            intro h; rw [List.getElem?_eq_getElem h] at hl; cases hl
          simp [this]
        | some y =>
          have : n < l.length := by
            rcases Nat.lt_or_ge n l.length with h | h
            · exact h
            · rw [List.getElem?_eq_none h] at hl; cases hl
          simp [this]
      · have : ¬ ((c, n') = (c, n)) := by
          intro h; exact hn (by injection h with _ h2; exact h2.symm)
        simp [hn, this]
    · have : ¬ ((c', n') = (c, n)) := by
        intro h; exact hc (by injection h with h1 _; exact h1.symm)
      simp [hc, this]

theorem getD_setD_self {d : DynS R} {q : Slot} {y : Dyn R} (x : Dyn R) (h : getD d q = some y) :
    getD (setD d q x) q = some x := by
  rw [getD_setD]; simp [h]

theorem getD_setD_ne {d : DynS R} {q q' : Slot} (x : Dyn R) (h : q' ≠ q) :
    getD (setD d q x) q' = getD d q' := by
  rw [getD_setD]; simp [h]

/-- a slot exists in the dynamic state -/
def Ex (d : DynS R) (q : Slot) : Prop := (getD d q).isSome = true

theorem ex_setD (d : DynS R) (q q' : Slot) (x : Dyn R) : Ex (setD d q x) q' ↔ Ex d q' := by
  unfold Ex
  rw [getD_setD]
  by_cases h : q' = q ∧ (getD d q).isSome
  · rw [if_pos h]; obtain ⟨h1, h2⟩ := h; subst h1; simp [h2]
  · rw [if_neg h]

/-- force accumulator of a slot is zero (when the slot exists) -/
def Z (d : DynS R) (q : Slot) : Prop := ∀ y, getD d q = some y → y.force = ⟨0, 0, 0⟩

theorem z_setD {d : DynS R} {q q' : Slot} {x : Dyn R} (hx : x.force = ⟨0, 0, 0⟩) (h : Z d q' ∨ q' = q) :
    Z (setD d q x) q' := by
  intro y hy
  rw [getD_setD] at hy
  by_cases hc : q' = q ∧ (getD d q).isSome
  · rw [if_pos hc] at hy; cases hy; exact hx
  · rw [if_neg hc] at hy
    rcases h with h | h
    · exact h y hy
    · subst h
      have : (getD d q').isSome = true := by rw [hy]; rfl
      exact absurd ⟨rfl, this⟩ hc

/-! ### the second loop of contact model 2 -/

theorem partnersAll_frame (dm : DM) (dt damping : R) (nbc : Nat) (a : Acc R) (x1 : Dyn R) (q : Slot) :
    ∀ (ps : List (Slot × R)) (d : DynS R), q ∉ ps.map (·.1) →
      getD (partnersAll dm dt damping nbc a x1 d ps) q = getD d q := by
  intro ps
  induction ps with
  | nil => intro d _; rfl
  | cons e rest ih =>
    intro d hq
    obtain ⟨p, m2⟩ := e
    simp only [List.map_cons, List.mem_cons, not_or] at hq
    unfold partnersAll
    cases hp : getD d p with
    | none => simp only; exact ih d hq.2
    | some x2 =>
      simp only
      rw [ih _ hq.2, getD_setD_ne _ hq.1]

theorem partnersAll_ex (dm : DM) (dt damping : R) (nbc : Nat) (a : Acc R) (x1 : Dyn R) (q : Slot) :
    ∀ (ps : List (Slot × R)) (d : DynS R), Ex (partnersAll dm dt damping nbc a x1 d ps) q ↔ Ex d q := by
  intro ps
  induction ps with
  | nil => intro d; rfl
  | cons e rest ih =>
    intro d
    obtain ⟨p, m2⟩ := e
    unfold partnersAll
    cases hp : getD d p with
    | none => simp only; exact ih d
    | some x2 => simp only; rw [ih, ex_setD]

theorem partnerF_force (dm : DM) (dt damping : R) (nbc : Nat) (a : Acc R) (x1 x2 : Dyn R) :
    (partnerF dm dt damping nbc a x1 x2).force = ⟨0, 0, 0⟩ := by
  cases dm <;> simp [partnerF, ofT, Gen.partner20, Gen.partner21]

theorem ownF_force (dm : DM) (dt damping : R) (nbc : Nat) (a : Acc R) (x1 : Dyn R) :
    (ownF dm dt damping nbc a x1).force = ⟨0, 0, 0⟩ := by
  cases dm <;> simp [ownF, ofT, Gen.own20, Gen.own21]

theorem single_force (cm : CM) (dm : DM) (dt damping m : R) (x : Dyn R) :
    (single cm dm dt damping m x).force = ⟨0, 0, 0⟩ := by
  cases cm <;> cases dm <;> simp [single, ofT, Gen.node00, Gen.node01, Gen.single10, Gen.single11]

theorem pairF_force (dm : DM) (dt damping m1 m2 : R) (x1 x2 : Dyn R) :
    (pairF dm dt damping m1 m2 x1 x2).1.force = ⟨0, 0, 0⟩ ∧ (pairF dm dt damping m1 m2 x1 x2).2.force = ⟨0, 0, 0⟩ := by
  cases dm <;> simp [pairF, ofT, Gen.pair10, Gen.pair11]

theorem partnersAll_z (dm : DM) (dt damping : R) (nbc : Nat) (a : Acc R) (x1 : Dyn R) (q : Slot) :
    ∀ (ps : List (Slot × R)) (d : DynS R), (∀ p ∈ ps.map (·.1), Ex d p) → (Z d q ∨ q ∈ ps.map (·.1)) →
      Z (partnersAll dm dt damping nbc a x1 d ps) q := by
  intro ps
  induction ps with
  | nil =>
    intro d _ h
    rcases h with h | h
    · exact h
    · cases h
  | cons e rest ih =>
    intro d hex h
    obtain ⟨p, m2⟩ := e
    have hp : Ex d p := hex p (by simp)
    unfold partnersAll
    cases hg : getD d p with
    | none => unfold Ex at hp; rw [hg] at hp; cases hp
    | some x2 =>
      simp only
      apply ih
      · intro p' hp'
        rw [ex_setD]; exact hex p' (by simp only [List.map_cons, List.mem_cons]; exact Or.inr hp')
      · rcases h with h | h
        · exact Or.inl (z_setD (partnerF_force ..) (Or.inl h))
        · simp only [List.map_cons, List.mem_cons] at h
          rcases h with h | h
          · exact Or.inl (z_setD (partnerF_force ..) (Or.inr h))
          · exact Or.inr h

/-! ### one visit -/

theorem exec_frame (cm : CM) (dm : DM) (dt damping : R) (d : DynS R) (k q : Slot) (p : Plan R)
    (hq : q ∉ p.wset k) : getD (exec cm dm dt damping d k p) q = getD d q := by
  cases p with
  | skip => rfl
  | single m1 =>
    simp only [Plan.wset, List.mem_singleton] at hq
    simp only [exec]
    cases getD d k with
    | none => rfl
    | some x => simp only; exact getD_setD_ne _ hq
  | pair m1 m2 p =>
    simp only [Plan.wset, List.mem_cons, List.not_mem_nil, or_false, not_or] at hq
    simp only [exec]
    cases getD d k with
    | none => rfl
    | some x1 =>
      cases getD d p with
      | none => rfl
      | some x2 => simp only; rw [getD_setD_ne _ hq.2, getD_setD_ne _ hq.1]
  | multi m1 ps =>
    simp only [Plan.wset, List.mem_cons, not_or] at hq
    simp only [exec]
    cases getD d k with
    | none => rfl
    | some x1 =>
      simp only
      cases accAll dm d (initF dm m1 x1) ps with
      | none => rfl
      | some a => simp only; rw [partnersAll_frame _ _ _ _ _ _ _ _ _ hq.2, getD_setD_ne _ hq.1]

theorem exec_ex (cm : CM) (dm : DM) (dt damping : R) (d : DynS R) (k q : Slot) (p : Plan R) :
    Ex (exec cm dm dt damping d k p) q ↔ Ex d q := by
  cases p with
  | skip => rfl
  | single m1 =>
    simp only [exec]
    cases getD d k with
    | none => rfl
    | some x => simp only; exact ex_setD ..
  | pair m1 m2 p =>
    simp only [exec]
    cases getD d k with
    | none => rfl
    | some x1 =>
      cases getD d p with
      | none => rfl
      | some x2 => simp only; rw [ex_setD, ex_setD]
  | multi m1 ps =>
    simp only [exec]
    cases getD d k with
    | none => rfl
    | some x1 =>
      simp only
      cases accAll dm d (initF dm m1 x1) ps with
      | none => rfl
      | some a => simp only; rw [partnersAll_ex, ex_setD]

theorem accAll_isSome (dm : DM) (d : DynS R) :
    ∀ (ps : List (Slot × R)) (a : Acc R), (∀ p ∈ ps.map (·.1), Ex d p) → (accAll dm d a ps).isSome = true := by
  intro ps
  induction ps with
  | nil => intro a _; rfl
  | cons e rest ih =>
    intro a hex
    obtain ⟨p, m2⟩ := e
    have hp : Ex d p := hex p (by simp)
    unfold accAll
    cases hg : getD d p with
    | none => unfold Ex at hp; rw [hg] at hp; cases hp
    | some x2 =>
      simp only
      exact ih _ (fun p' hp' => hex p' (by simp only [List.map_cons, List.mem_cons]; exact Or.inr hp'))

/-- a visit leaves a zero force at every slot it writes, and keeps a zero force elsewhere -/
theorem exec_z (cm : CM) (dm : DM) (dt damping : R) (d : DynS R) (k q : Slot) (p : Plan R)
    (hex : ∀ q' ∈ p.wset k, Ex d q') (h : Z d q ∨ q ∈ p.wset k) : Z (exec cm dm dt damping d k p) q := by
  cases p with
  | skip =>
    rcases h with h | h
    · exact h
    · cases h
  | single m1 =>
    have hk : Ex d k := hex k (by simp [Plan.wset])
    simp only [exec]
    cases hg : getD d k with
    | none => unfold Ex at hk; rw [hg] at hk; cases hk
    | some x =>
      simp only
      apply z_setD (single_force ..)
      rcases h with h | h
      · exact Or.inl h
      · simp only [Plan.wset, List.mem_singleton] at h; exact Or.inr h
  | pair m1 m2 p =>
    have hk : Ex d k := hex k (by simp [Plan.wset])
    have hp : Ex d p := hex p (by simp [Plan.wset])
    simp only [exec]
    cases hg : getD d k with
    | none => unfold Ex at hk; rw [hg] at hk; cases hk
    | some x1 =>
      cases hg2 : getD d p with
      | none => unfold Ex at hp; rw [hg2] at hp; cases hp
      | some x2 =>
        simp only
        have hf := pairF_force dm dt damping m1 m2 x1 x2
        rcases h with h | h
        · exact z_setD hf.2 (Or.inl (z_setD hf.1 (Or.inl h)))
        · simp only [Plan.wset, List.mem_cons, List.not_mem_nil, or_false] at h
          rcases h with h | h
          · exact z_setD hf.2 (Or.inl (z_setD hf.1 (Or.inr h)))
          · exact z_setD hf.2 (Or.inr h)
  | multi m1 ps =>
    have hk : Ex d k := hex k (by simp [Plan.wset])
    have hps : ∀ p ∈ ps.map (·.1), Ex d p := fun p hp => hex p (by simp only [Plan.wset, List.mem_cons]; exact Or.inr hp)
    simp only [exec]
    cases hg : getD d k with
    | none => unfold Ex at hk; rw [hg] at hk; cases hk
    | some x1 =>
      simp only
      have hs := accAll_isSome dm d ps (initF dm m1 x1) hps
      cases ha : accAll dm d (initF dm m1 x1) ps with
      | none => rw [ha] at hs; cases hs
      | some a =>
        simp only
        apply partnersAll_z
        · intro p hp; rw [ex_setD]; exact hps p hp
        · rcases h with h | h
          · exact Or.inl (z_setD (ownF_force ..) (Or.inl h))
          · simp only [Plan.wset, List.mem_cons] at h
            rcases h with h | h
            · exact Or.inl (z_setD (ownF_force ..) (Or.inr h))
            · exact Or.inr h

/-! ### the fold over the schedule -/

section fold
variable (cm : CM) (dm : DM) (topo : List (CellT R)) (dt damping : R)

theorem fold_frame (q : Slot) :
    ∀ (l : List Slot) (d : DynS R), (∀ k ∈ l, q ∉ (plan cm topo k).wset k) →
      getD (l.foldl (nodeStep cm dm topo dt damping) d) q = getD d q := by
  intro l
  induction l with
  | nil => intro d _; rfl
  | cons k t ih =>
    intro d h
    simp only [List.foldl_cons]
    rw [ih _ (fun k' hk' => h k' (List.mem_cons_of_mem _ hk'))]
    exact exec_frame _ _ _ _ _ _ _ _ (h k (List.mem_cons_self ..))

theorem fold_ex (q : Slot) :
    ∀ (l : List Slot) (d : DynS R), Ex (l.foldl (nodeStep cm dm topo dt damping) d) q ↔ Ex d q := by
  intro l
  induction l with
  | nil => intro d; rfl
  | cons k t ih =>
    intro d
    simp only [List.foldl_cons]
    rw [ih]; exact exec_ex ..

theorem fold_z (q : Slot) :
    ∀ (l : List Slot) (d : DynS R), (∀ k ∈ l, ∀ q' ∈ (plan cm topo k).wset k, Ex d q') →
      (Z d q ∨ ∃ k ∈ l, q ∈ (plan cm topo k).wset k) → Z (l.foldl (nodeStep cm dm topo dt damping) d) q := by
  intro l
  induction l with
  | nil =>
    intro d _ h
    rcases h with h | ⟨k, hk, _⟩
    · exact h
    · cases hk
  | cons k t ih =>
    intro d hex h
    simp only [List.foldl_cons]
    apply ih
    · intro k' hk' q' hq'
      unfold nodeStep
      rw [exec_ex]; exact hex k' (List.mem_cons_of_mem _ hk') q' hq'
    · have hexk := hex k (List.mem_cons_self ..)
      rcases h with h | ⟨k', hk', hq⟩
      · exact Or.inl (exec_z _ _ _ _ _ _ _ _ hexk (Or.inl h))
      · rcases List.mem_cons.mp hk' with e | e
        · subst e; exact Or.inl (exec_z _ _ _ _ _ _ _ _ hexk (Or.inr hq))
        · exact Or.inr ⟨k', e, hq⟩

/-- localisation: if, apart from the visit of `k`, no visit of the (duplicate-free) list writes a slot of `Q`,
    the final content of those slots is what the visit of `k` computes from a state that agrees with the
    initial one on `Q` -/
theorem fold_localized (Q : List Slot) (k : Slot) (l : List Slot) (d : DynS R) (hnd : l.Nodup) (hk : k ∈ l)
    (hothers : ∀ k' ∈ l, k' ≠ k → ∀ q ∈ Q, q ∉ (plan cm topo k').wset k') :
    ∃ d1, (∀ q ∈ Q, getD d1 q = getD d q) ∧
      (∀ q ∈ Q, getD (l.foldl (nodeStep cm dm topo dt damping) d) q = getD (nodeStep cm dm topo dt damping d1 k) q) := by
  obtain ⟨l1, l2, rfl⟩ := List.append_of_mem hk
  rw [List.nodup_append] at hnd
  obtain ⟨_, hnd2, hdisj⟩ := hnd
  rw [List.nodup_cons] at hnd2
  have hk1 : ∀ k' ∈ l1, k' ≠ k := fun k' h e => hdisj k' h k (List.mem_cons_self ..) e
  have hk2 : ∀ k' ∈ l2, k' ≠ k := fun k' h e => hnd2.1 (e ▸ h)
  refine ⟨l1.foldl (nodeStep cm dm topo dt damping) d, ?_, ?_⟩
  · intro q hq
    apply fold_frame
    intro k' hk'
    exact hothers k' (List.mem_append_left _ hk') (hk1 k' hk') q hq
  · intro q hq
    rw [List.foldl_append, List.foldl_cons]
    apply fold_frame
    intro k' hk'
    exact hothers k' (List.mem_append_right _ (List.mem_cons_of_mem _ hk')) (hk2 k' hk') q hq

end fold

/-! ### the schedule visits every slot exactly once -/

theorem schedFrom_fst_ge : ∀ (lens : List Nat) (i : Nat) (x : Slot), x ∈ schedFrom i lens → i ≤ x.1 := by
  intro lens
  induction lens with
  | nil => intro i x h; cases h
  | cons n rest ih =>
    intro i x h
    unfold schedFrom at h
    rcases List.mem_append.mp h with h | h
    · obtain ⟨j, _, rfl⟩ := List.mem_map.mp h; exact Nat.le_refl _
    · exact Nat.le_of_succ_le (ih _ _ h)

theorem schedFrom_nodup : ∀ (lens : List Nat) (i : Nat), (schedFrom i lens).Nodup := by
  intro lens
  induction lens with
  | nil => intro i; exact List.nodup_nil
  | cons n rest ih =>
    intro i
    unfold schedFrom
    rw [List.nodup_append]
    refine ⟨?_, ih _, ?_⟩
    · apply List.Nodup.map _ List.nodup_range
      intro a b h; injection h
    · intro a ha b hb e
      obtain ⟨j, _, rfl⟩ := List.mem_map.mp ha
      have := schedFrom_fst_ge _ _ _ hb
      rw [← e] at this
      exact Nat.not_succ_le_self _ this

theorem schedFrom_mem : ∀ (lens : List Nat) (i a b n : Nat), lens[a]? = some n → b < n →
    (i + a, b) ∈ schedFrom i lens := by
  intro lens
  induction lens with
  | nil => intro i a b n h; cases h
  | cons m rest ih =>
    intro i a b n h hb
    unfold schedFrom
    cases a with
    | zero =>
      simp only [List.getElem?_cons_zero, Option.some.injEq] at h
      subst h
      apply List.mem_append_left
      exact List.mem_map.mpr ⟨b, List.mem_range.mpr hb, rfl⟩
    | succ a' =>
      simp only [List.getElem?_cons_succ] at h
      apply List.mem_append_right
      have := ih (i + 1) a' b n h hb
      rwa [show i + 1 + a' = i + (a' + 1) by omega] at this

theorem sched_nodup (topo : List (CellT R)) : (sched topo).Nodup := schedFrom_nodup _ _

theorem sched_mem (topo : List (CellT R)) (a b : Nat) (c : CellT R) (nt : NodeT)
    (hc : topo[a]? = some c) (hn : c.nodes[b]? = some nt) : (a, b) ∈ sched topo := by
  unfold sched
  have h1 : (topo.map (fun c => c.nodes.length))[a]? = some c.nodes.length := by
    rw [List.getElem?_map, hc]; rfl
  have hb : b < c.nodes.length := by
    rcases Nat.lt_or_ge b c.nodes.length with h | h
    · exact h
    · rw [List.getElem?_eq_none h] at hn; cases hn
  have := schedFrom_mem _ 0 a b _ h1 hb
  rwa [Nat.zero_add] at this

/-! ### what a plan can write -/

theorem mapM_fst {α β γ : Type} (f : α → Option β) (g : β → γ) :
    ∀ (l : List α) (ps : List (α × γ)), l.mapM (fun e => (f e).map (fun c => (e, g c))) = some ps → ps.map (·.1) = l := by
  intro l
  induction l with
  | nil => intro ps h; simp at h; subst h; rfl
  | cons e rest ih =>
    intro ps h
    rw [List.mapM_cons] at h
    cases hf : f e with
    | none => simp [hf] at h
    | some c =>
      cases hr : rest.mapM (fun e => (f e).map (fun c => (e, g c))) with
      | none => simp [hf, hr] at h
      | some ps' =>
        simp [hf, hr] at h
        subst h
        simp [ih ps' hr]

/-- a visit writes at most its own slot and the slots named by its coupling entries, and nothing at all when the
    cell is static or the slot unused -/
theorem wset_subset (cm : CM) (topo : List (CellT R)) (k q : Slot) (h : q ∈ (plan cm topo k).wset k) :
    ∃ c nt, topo[k.1]? = some c ∧ c.isStatic = false ∧ c.nodes[k.2]? = some nt ∧ nt.used = true ∧
      (q = k ∨ q ∈ nt.coup) := by
  unfold plan at h
  cases hc : topo[k.1]? with
  | none => simp [hc, Plan.wset] at h
  | some c =>
    simp only [hc] at h
    by_cases hs : c.isStatic = true
    · simp [hs, Plan.wset] at h
    · simp only [hs] at h
      cases hn : c.nodes[k.2]? with
      | none => simp [hn, Plan.wset] at h
      | some nt =>
        simp only [hn] at h
        by_cases hu : nt.used = true
        · refine ⟨c, nt, rfl, by simpa using hs, hn, hu, ?_⟩
          simp only [hu, Bool.not_true, Bool.false_eq_true, if_false] at h
          cases cm with
          | springs => simp only [Plan.wset, List.mem_singleton] at h; exact Or.inl h
          | nodeNode =>
            simp only at h
            cases hcp : nt.coup with
            | nil => simp only [hcp, Plan.wset, List.mem_singleton] at h; exact Or.inl h
            | cons e rest =>
              simp only [hcp] at h
              by_cases ho : Gen.owns1 c.localId e.1 = true
              · simp only [ho, if_true] at h
                cases hc2 : topo[e.1]? with
                | none => simp [hc2, Plan.wset] at h
                | some c2 =>
                  simp only [hc2, Plan.wset, List.mem_cons, List.not_mem_nil, or_false] at h
                  rcases h with h | h
                  · exact Or.inl h
                  · exact Or.inr (by rw [h]; exact List.mem_cons_self ..)
              · simp [ho, Plan.wset] at h
          | faceFace =>
            simp only at h
            by_cases ho : (nt.coup.all fun e => Gen.owns2 c.localId e.1) = true
            · simp only [ho, if_true] at h
              cases hm : nt.coup.mapM (fun e => (topo[e.1]?).map (fun c2 => (e, c2.mass))) with
              | none => simp [hm, Plan.wset] at h
              | some ps =>
                simp only [hm, Plan.wset, List.mem_cons] at h
                rcases h with h | h
                · exact Or.inl h
                · rw [mapM_fst _ _ _ _ hm] at h; exact Or.inr h
            · simp [ho, Plan.wset] at h
        · simp [hu, Plan.wset] at h

end Simu.Integ
