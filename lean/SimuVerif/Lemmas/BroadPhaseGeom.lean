import SimuVerif.Model.BroadPhase
import SimuVerif.Lemmas.ContactMinMax
import SimuVerif.Lemmas.Field
import SimuVerif.Lemmas.KernelSpec
import Mathlib.Algebra.Order.Floor.Ring
import Mathlib.Tactic.Linarith
import Mathlib.Tactic.Ring
/-
  C06 — order / floor facts behind the broad phase: `std::min/max`, padded boxes contain the padded triangle,
  the running global box covers every face box, one axis of the voxel grid.
-/
set_option linter.unusedSectionVars false
namespace Simu.BP
open Simu Simu.Gen
variable {R : Type} [Field R] [LinearOrder R] [IsStrictOrderedRing R]

/-- a convex combination lies between the smallest and the largest of the three values -/
theorem convex_between (x y z u v w lo hi : R) (hu : 0 ≤ u) (hv : 0 ≤ v) (hw : 0 ≤ w) (hs : u + v + w = 1)
    (h1 : lo ≤ x) (h2 : lo ≤ y) (h3 : lo ≤ z) (g1 : x ≤ hi) (g2 : y ≤ hi) (g3 : z ≤ hi) :
    lo ≤ x * u + y * v + z * w ∧ x * u + y * v + z * w ≤ hi := by
  have e : lo = lo * u + lo * v + lo * w := by rw [← mul_add, ← mul_add, hs, mul_one]
  have e' : hi = hi * u + hi * v + hi * w := by rw [← mul_add, ← mul_add, hs, mul_one]
  constructor
  · rw [e]
    have := mul_le_mul_of_nonneg_right h1 hu
    have := mul_le_mul_of_nonneg_right h2 hv
    have := mul_le_mul_of_nonneg_right h3 hw
    linarith
  · rw [e']
    have := mul_le_mul_of_nonneg_right g1 hu
    have := mul_le_mul_of_nonneg_right g2 hv
    have := mul_le_mul_of_nonneg_right g3 hw
    linarith

/-- what `aabb_intersection_check` decides -/
theorem aabbCheck_iff (b : Box R) (p : V3 R) :
    aabbCheck b p = true ↔ (b.lox ≤ p.x ∧ p.x ≤ b.hix) ∧ (b.loy ≤ p.y ∧ p.y ≤ b.hiy) ∧ (b.loz ≤ p.z ∧ p.z ≤ b.hiz) := by
  unfold aabbCheck
  split_ifs with h1 h2 h3
  · simp only [Bool.false_eq_true, false_iff]; rintro ⟨⟨a, b⟩, -, -⟩
    rcases h1 with h | h <;> [exact absurd a (not_le.mpr h); exact absurd b (not_le.mpr h)]
  · simp only [Bool.false_eq_true, false_iff]; rintro ⟨-, ⟨a, b⟩, -⟩
    rcases h2 with h | h <;> [exact absurd a (not_le.mpr h); exact absurd b (not_le.mpr h)]
  · simp only [Bool.false_eq_true, false_iff]; rintro ⟨-, -, ⟨a, b⟩⟩
    rcases h3 with h | h <;> [exact absurd a (not_le.mpr h); exact absurd b (not_le.mpr h)]
  · simp only [true_iff]
    push Not at h1 h2 h3
    exact ⟨h1, h2, h3⟩

/-- `|d|² ≤ r²` bounds every component of `d` by `r` -/
theorem comp_le_of_normSq_le (d : V3 R) (r : R) (hr : 0 ≤ r) (h : V3.normSq d ≤ r * r) :
    (-r ≤ d.x ∧ d.x ≤ r) ∧ (-r ≤ d.y ∧ d.y ≤ r) ∧ (-r ≤ d.z ∧ d.z ≤ r) := by
  simp only [V3.normSq_def] at h
  have hx := mul_self_nonneg d.x; have hy := mul_self_nonneg d.y; have hz := mul_self_nonneg d.z
  have key : ∀ t : R, t * t ≤ r * r → -r ≤ t ∧ t ≤ r := by
    intro t ht
    constructor
    · by_contra hc; push Not at hc; nlinarith
    · by_contra hc; push Not at hc; nlinarith
  exact ⟨key _ (by linarith), key _ (by linarith), key _ (by linarith)⟩

/-! ### the running global box -/

theorem globalStep_le (g b : Box R) :
    ((globalStep g b).lox ≤ g.lox ∧ (globalStep g b).loy ≤ g.loy ∧ (globalStep g b).loz ≤ g.loz) ∧
    (g.hix ≤ (globalStep g b).hix ∧ g.hiy ≤ (globalStep g b).hiy ∧ g.hiz ≤ (globalStep g b).hiz) ∧
    ((globalStep g b).lox ≤ b.lox ∧ (globalStep g b).loy ≤ b.loy ∧ (globalStep g b).loz ≤ b.loz) ∧
    (b.hix ≤ (globalStep g b).hix ∧ b.hiy ≤ (globalStep g b).hiy ∧ b.hiz ≤ (globalStep g b).hiz) := by
  unfold globalStep
  simp only []
  refine ⟨⟨?_, ?_, ?_⟩, ⟨?_, ?_, ?_⟩, ⟨?_, ?_, ?_⟩, ⟨?_, ?_, ?_⟩⟩ <;> split_ifs with h <;>
    first | exact le_refl _ | exact le_of_lt h | exact not_lt.mp h

/-- `g` covers `b`: lower corner below, upper corner above -/
def Covers (g b : Box R) : Prop :=
  (g.lox ≤ b.lox ∧ g.loy ≤ b.loy ∧ g.loz ≤ b.loz) ∧ (b.hix ≤ g.hix ∧ b.hiy ≤ g.hiy ∧ b.hiz ≤ g.hiz)

theorem Covers.trans {a b c : Box R} (h1 : Covers a b) (h2 : Covers b c) : Covers a c :=
  ⟨⟨le_trans h1.1.1 h2.1.1, le_trans h1.1.2.1 h2.1.2.1, le_trans h1.1.2.2 h2.1.2.2⟩,
   ⟨le_trans h2.2.1 h1.2.1, le_trans h2.2.2.1 h1.2.2.1, le_trans h2.2.2.2 h1.2.2.2⟩⟩

theorem foldl_globalStep_covers_init (rs : List (FaceRec R)) (g : Box R) :
    Covers (rs.foldl (fun g r => globalStep g r.box) g) g := by
  induction rs generalizing g with
  | nil => exact ⟨⟨le_refl _, le_refl _, le_refl _⟩, ⟨le_refl _, le_refl _, le_refl _⟩⟩
  | cons r rs ih =>
    simp only [List.foldl_cons]
    have h := globalStep_le g r.box
    exact (ih _).trans ⟨h.1, h.2.1⟩

/-- after the loop of `update_face_aabbs` the running box covers every face box, whatever it was initialised with -/
theorem foldl_globalStep_covers (rs : List (FaceRec R)) (g : Box R) (r : FaceRec R) (hr : r ∈ rs) :
    Covers (rs.foldl (fun g r => globalStep g r.box) g) r.box := by
  induction rs generalizing g with
  | nil => cases hr
  | cons r' rs ih =>
    simp only [List.foldl_cons]
    rcases List.mem_cons.mp hr with rfl | h
    · have h := globalStep_le g r.box
      exact (foldl_globalStep_covers_init rs _).trans ⟨h.2.2.1, h.2.2.2⟩
    · exact ih _ h

/-- the global box handed to the grid: its lower corner is one more padding below every face box -/
theorem globalBox_covers (pad inf : R) (rs : List (FaceRec R)) (r : FaceRec R) (hr : r ∈ rs) :
    ((globalBox pad inf rs).lox = (rs.foldl (fun g r => globalStep g r.box) ⟨inf, inf, inf, -inf, -inf, -inf⟩).lox - pad ∧
     (globalBox pad inf rs).loy = (rs.foldl (fun g r => globalStep g r.box) ⟨inf, inf, inf, -inf, -inf, -inf⟩).loy - pad ∧
     (globalBox pad inf rs).loz = (rs.foldl (fun g r => globalStep g r.box) ⟨inf, inf, inf, -inf, -inf, -inf⟩).loz - pad) ∧
    ((globalBox pad inf rs).lox + pad ≤ r.box.lox ∧ (globalBox pad inf rs).loy + pad ≤ r.box.loy ∧ (globalBox pad inf rs).loz + pad ≤ r.box.loz) ∧
    (r.box.hix ≤ (globalBox pad inf rs).hix ∧ r.box.hiy ≤ (globalBox pad inf rs).hiy ∧ r.box.hiz ≤ (globalBox pad inf rs).hiz) := by
  have h := foldl_globalStep_covers rs ⟨inf, inf, inf, -inf, -inf, -inf⟩ r hr
  refine ⟨⟨rfl, rfl, rfl⟩, ⟨?_, ?_, ?_⟩, h.2⟩
  · show _ - pad + pad ≤ _; linarith [h.1.1]
  · show _ - pad + pad ≤ _; linarith [h.1.2.1]
  · show _ - pad + pad ≤ _; linarith [h.1.2.2]

/-! ### one axis of the grid: origin `m - δ`, voxel size `v`, `nb = ⌈(M + δ - m) / v⌉` voxels -/
section axis
variable [FloorRing R]

theorem cceil_eq (fn : Fn R) (hfl : ∀ x, fn.floor x = ⌊x⌋) (x : R) : cceil fn x = ⌈x⌉ := by
  unfold cceil; rw [hfl, Int.floor_neg, neg_neg]

theorem axis_nonneg (m' v x : R) (hv : 0 < v) (hlo : m' ≤ x) : 0 ≤ ⌊(x - m') / v⌋ :=
  Int.floor_nonneg.mpr (div_nonneg (by linarith) hv.le)

theorem axis_mono (m' v x y : R) (hv : 0 < v) (hxy : x ≤ y) : Int.toNat ⌊(x - m') / v⌋ ≤ Int.toNat ⌊(y - m') / v⌋ :=
  Int.toNat_le_toNat (Int.floor_le_floor (div_le_div_of_nonneg_right (by linarith) hv.le))

/-- a coordinate strictly below the upper corner handed to `update_dimensions` falls in an existing voxel -/
theorem axis_lt (m M δ v x : R) (hv : 0 < v) (hlo : m - δ ≤ x) (hx : x < M) :
    Int.toNat ⌊(x - (m - δ)) / v⌋ < Int.toNat ⌈((M + δ) - m) / v⌉ := by
  have h0 := axis_nonneg (m - δ) v x hv hlo
  have hlt : (x - (m - δ)) / v < ((M + δ) - m) / v := div_lt_div_of_pos_right (by linarith) hv
  have h1 : ((⌊(x - (m - δ)) / v⌋ : ℤ) : R) < ((⌈((M + δ) - m) / v⌉ : ℤ) : R) :=
    lt_of_le_of_lt (Int.floor_le _) (lt_of_lt_of_le hlt (Int.le_ceil _))
  have h2 : ⌊(x - (m - δ)) / v⌋ < ⌈((M + δ) - m) / v⌉ := Int.cast_lt.mp h1
  exact (Int.toNat_lt_toNat (lt_of_le_of_lt h0 h2)).mpr h2

/-- at least one voxel per axis as soon as the box handed to `update_dimensions` is not empty -/
theorem axis_nb_pos (m M δ v : R) (hv : 0 < v) (hδ : 0 ≤ δ) (hmM : m < M) : 0 < Int.toNat ⌈((M + δ) - m) / v⌉ := by
  have : (0 : R) < ((M + δ) - m) / v := div_pos (by linarith) hv
  have h : 0 < ⌈((M + δ) - m) / v⌉ := Int.ceil_pos.mpr this
  omega
end axis

end Simu.BP
