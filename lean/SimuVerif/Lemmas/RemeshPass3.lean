import SimuVerif.Lemmas.RemeshPass2
/-
  Whole passes of `refine_mesh`, part 3: `merge_edge` keeps the node store and the check set consistent.

  `mergeEdge_run` reads the code once (`MergeRun`: the states between the steps, the two `replace_node` calls with
  their (deleted, created) edge lists, the check set as a fold of `erase`s followed by a fold of `insert`s);
  the rest is derived from that record and from the walk theorems of `RemeshMerge3…6`.
-/
set_option linter.unusedSectionVars false
set_option linter.unusedVariables false
set_option linter.unusedSimpArgs false
namespace Simu.Remesh
open Simu Simu.Surface
open Simu.C11 (bind_ok newSlot)

section
variable {R : Type} [Add R] [Sub R] [Mul R] [Div R] [Neg R] [Lit R] [LT R] [LE R] [DecidableLT R]
  [DecidableLE R] [DecidableEq R]

/-! ## 1. the node store through `replace_node` and `delete_face` -/

theorem replaceLoop_nodes {fn : Fn R} {start : Edge} {old new : Nat} :
    ∀ (fuel : Nat) (c : Cell R) (cur : Option Edge) (faceId : Nat) (del cre : List Edge)
      (r : Cell R × List Edge × List Edge),
      replaceNode.loop fn start old new fuel c cur faceId del cre = .ok r →
      r.1.nodes = c.nodes ∧ r.1.freeNodes = c.freeNodes := by
  intro fuel
  induction fuel with
  | zero => intro c cur faceId del cre r h; unfold replaceNode.loop at h; cases h
  | succ fuel ih =>
    intro c cur faceId del cre r h
    cases cur with
    | none => unfold replaceNode.loop at h; cases h
    | some e =>
      obtain ⟨fid, f, ef1, ef2, _, _, _, _, s2, stored, _, f', _, hrest⟩ := loop_unroll h
      obtain ⟨_, _, sN, sFN, _⟩ := stepFaces_spec fn c fid f old new
      rcases hrest with ⟨_, hr⟩ | ⟨opp, _, ⟨_, hr⟩ | ⟨nxt, _, hl⟩⟩
      · rw [hr]; exact ⟨sN, sFN⟩
      · rw [hr]; exact ⟨sN, sFN⟩
      · obtain ⟨a, b⟩ := ih _ _ _ _ _ _ hl
        exact ⟨a.trans sN, b.trans sFN⟩

/-- `replace_node` changes the node store by `delete_node(old)` only -/
theorem replaceNode_nodes' {fn : Fn R} {c c' : Cell R} {start : Edge} {old new : Nat} {del cre : List Edge}
    (h : replaceNode fn c start old new = .ok (c', del, cre)) :
    c'.nodes = (deleteNode c old).nodes ∧ c'.freeNodes = old :: c.freeNodes := by
  unfold replaceNode at h
  obtain ⟨sf1, _, h⟩ := bind_ok h
  obtain ⟨⟨c1, d1, cr1⟩, h1, h⟩ := bind_ok h
  cases h
  obtain ⟨a, b⟩ := replaceLoop_nodes _ _ _ _ _ _ _ h1
  constructor
  · show c1.nodes.set! old _ = c.nodes.set! old _
    rw [a]
  · show old :: c1.freeNodes = _
    rw [b]

/-- the node store after `replace_node(old → new)`: `old` is released, every face has `old` renamed -/
theorem nodesOk_replace {c c1 : Cell R} {old new : Nat} (hN : NodesOk c)
    (hn : c1.nodes = (deleteNode c old).nodes) (hf : c1.freeNodes = old :: c.freeNodes)
    (hs : slots c1 = (slots c).map (Option.map (renT old new)))
    (ho : usedN c old = true) (hnew : usedN c new = true) (hon : old ≠ new) : NodesOk c1 := by
  have hlt := usedA_lt ho
  obtain ⟨hu, _, hsz⟩ := deleteNode_nodes c old hlt
  have hu1 : ∀ j, usedN c1 j = (!decide (j = old) && usedN c j) := by
    intro j; rw [← hu j]; show usedA c1.nodes j = usedA _ j; rw [hn]
  have hsz1 : c1.nodes.size = c.nodes.size := by rw [hn]; exact hsz
  refine ⟨?_, fun i => ?_, fun g t v hg hv => ?_⟩
  · rw [hf]
    refine List.nodup_cons.2 ⟨fun hm => ?_, hN.nodup⟩
    have := ((hN.free old).1 hm).2
    rw [ho] at this; cases this
  · rw [hf, hu1, hsz1, List.mem_cons, hN.free i]
    by_cases hi : i = old
    · subst hi; simp [hlt]
    · simp [hi]
  · rw [hs, List.getElem?_map] at hg
    cases hgt : (slots c)[g]? with
    | none => rw [hgt] at hg; cases hg
    | some o =>
      rw [hgt] at hg
      cases o with
      | none => cases hg
      | some t0 =>
        simp only [Option.map_some, Option.some.injEq] at hg
        subst hg
        rw [hu1]
        have hv' : v = new ∨ (v ≠ old ∧ hasNode t0 v = true) := by
          obtain ⟨x, y, z⟩ := t0
          simp only [renT, hasNode_iff, rn] at hv ⊢
          by_cases hvn : v = new
          · exact Or.inl hvn
          · right
            rcases hv with hv | hv | hv <;> split at hv <;> first
              | exact absurd hv.symm hvn
              | (rename_i hne; subst hv; exact ⟨hne, by simp⟩)
        rcases hv' with rfl | ⟨h1, h2⟩
        · simp [Ne.symm hon, hnew]
        · simp [h1, hN.live g t0 v hgt h2]

theorem nodesOk_deleteFace {c c' : Cell R} {fid : Nat} {t : Tri} (D : DelRes c c' fid t) (hN : NodesOk c) :
    NodesOk c' := by
  refine ⟨by rw [D.freeNodes_eq]; exact hN.nodup, fun i => ?_, fun g u v hg hv => ?_⟩
  · rw [D.freeNodes_eq]
    show _ ↔ (i < c'.nodes.size ∧ usedA c'.nodes i = false)
    rw [D.nodes_eq]; exact hN.free i
  · show usedA c'.nodes v = true
    rw [D.nodes_eq]
    exact hN.live g u v (slot_del D hg).2 hv

/-! ## 2. the record of one `merge_edge` -/

structure MergeRun (fn : Fn R) (c c' : Cell R) (e : Edge) (chk chk' : CheckSet) (kB : Nat) (FB NB : Nat → Nat)
    (c0 c1 c2 c3 : Cell R) (delA creA delB creB : List Edge) (ebi : Edge) (f1id f2id : Nat) : Prop where
  ef1 : e.f1 = some f1id
  ef2 : e.f2 = some f2id
  hxy : (f1id = FB kB ∧ f2id = FB 1) ∨ (f1id = FB 1 ∧ f2id = FB kB)
  add : ∃ p m, c0 = (addNode c p m).1
  hA : replaceNode fn c0 e e.n1 (newSlot c) = .ok (c1, delA, creA)
  hB : replaceNode fn c1 ebi e.n2 (newSlot c) = .ok (c2, delB, creB)
  h3 : deleteFace c2 f1id = .ok c3
  h4 : deleteFace c3 f2id = .ok c'
  S1 : slots c1 = (slots c).map (Option.map (renT e.n1 (newSlot c)))
  I1 : EdgeIdxComplete c1
  H2 : Walk2Hyp (slots c1) ebi e.n2 (newSlot c) kB FB (fun j => rn e.n1 (newSlot c) (NB j))
  hkey2 : Edge.keyOf ebi.n1 ebi.n2 = Edge.keyOf e.n2 (rn e.n1 (newSlot c) (NB 0))
  S2 : slots c2 = (slots c1).map (Option.map (renT e.n2 (newSlot c)))
  ffo2 : FaceFreeOk c2
  ff2 : c2.freeFaces = c.freeFaces
  chk_eq : chk' = (creA ++ creB).foldl (fun s ed =>
      if (!ed.hasNode e.n1 && !ed.hasNode e.n2 && ed.n1 != ed.n2 && !ed.hasFace f1id && !ed.hasFace f2id) = true
      then (EdgeSet.insert s ed).1 else s)
    ((delA ++ delB).foldl (fun s ed => EdgeSet.erase s ed.key) chk)

theorem mergeEdge_run {fn : Fn R} {k : SplitConsts R} {c c' : Cell R} {e : Edge} {chk chk' : CheckSet}
    {kA kB : Nat} {FA NA FB NB : Nat → Nat}
    (h : mergeEdge fn k c e chk = .ok (c', chk')) (H : MergeHyp c e kA kB FA NA FB NB) :
    ∃ c0 c1 c2 c3 delA creA delB creB ebi f1id f2id,
      MergeRun fn c c' e chk chk' kB FB NB c0 c1 c2 c3 delA creA delB creB ebi f1id f2id := by
  obtain ⟨hI, hffo, ⟨E, hE, hEf1, hord⟩, fanA, fanB, kA0, nA0, nB0, fA0, kB3, hlink, hfresh⟩ := H
  have hkB0 : 0 < kB := by omega
  -- basic facts
  obtain ⟨tA, htA, hTA⟩ := fanA.tri 0 kA0
  have hab : e.n1 ≠ e.n2 := by rw [← nA0]; exact hTA.1
  have hfa : hasNode tA (newSlot c) = false := hfresh _ _ htA
  have hai : e.n1 ≠ newSlot c := by
    intro he; rw [← he, hTA.2.2.2.1] at hfa; cases hfa
  have hbi : e.n2 ≠ newSlot c := by
    intro he; rw [← he, ← nA0, hTA.2.2.2.2.1] at hfa; cases hfa
  -- the entry of the edge
  have hentry' : EdgeSet.find? c.edges (Edge.keyOf e.n1 e.n2) = some E := hE
  obtain ⟨ek, ele, ewf, eP⟩ := hI.of_find hentry'
  have eF : ∀ g, E.hasFace g = true ↔ (g = FB 0 ∨ g = FB 1) := by
    intro g
    rw [eP g]
    have := fanB.side hkB0 g
    rw [nB0, Edge.keyOf_comm] at this
    exact this
  have ef2 : E.f2 = some (FB 1) := second_face ewf eF (fanB.F_succ_ne hkB0) hEf1
  -- the run
  unfold mergeEdge at h
  simp only [] at h
  bok h with f1id, hf1
  bok h with f2id, hf2
  bok h with na, hna
  bok h with nb, hnb
  have e1 : e.f1 = some f1id := by opt_ok hf1
  have e2 : e.f2 = some f2id := by opt_ok hf2
  have hxy : (f1id = FB kB ∧ f2id = FB 1) ∨ (f1id = FB 1 ∧ f2id = FB kB) := by
    rcases hord with ⟨o1, o2⟩ | ⟨o1, o2⟩
    · left
      have e1' := e1; have e2' := e2
      rw [← o1, hEf1] at e1'; rw [← o2, ef2] at e2'
      cases e1'; cases e2'
      exact ⟨fanB.closeF, rfl⟩
    · right
      have e1' := e1; have e2' := e2
      rw [← o2, ef2] at e1'; rw [← o1, hEf1] at e2'
      cases e1'; cases e2'
      exact ⟨rfl, fanB.closeF⟩
  generalize hr : addNode c _ _ = r at h
  obtain ⟨c0, i⟩ := r
  simp only [] at h
  have hi : i = newSlot c := by
    have := addNode_snd' c ((nb.pos + na.pos) * k.mid) (na.mom + nb.mom)
    rw [hr] at this; exact this
  subst hi
  have hc0 : c0 = (addNode c ((nb.pos + na.pos) * k.mid) (na.mom + nb.mom)).1 := by rw [hr]
  have hS0 : slots c0 = slots c := by rw [hc0]; unfold slots; rw [(faces_addNode _ _ _).1]
  have hE0 : c0.edges = c.edges := by rw [hc0]; exact edges_addNode _ _ _
  have hF0 : c0.freeFaces = c.freeFaces := by rw [hc0]; exact (faces_addNode _ _ _).2
  bok h with ⟨c1, delA, creA⟩, hA
  bok h with ebi, hebi
  bok h with ⟨c2, delB, creB⟩, hB
  bok h with c3, h3
  bok h with c4, h4
  cases h
  -- the first walk
  have hI0 : EdgeIdxComplete c0 := edgeIdxComplete_congr hS0 hE0 hI
  have fanA0 : FanF (slots c0) e.n1 kA FA NA := by rw [hS0]; exact fanA
  have hfresh0 : FreshNode c0 (newSlot c) := by
    intro g t ht; rw [hS0] at ht; exact hfresh g t ht
  obtain ⟨S1, I1, _, _, FF1, e0, ne, q1, q2, q3, q4⟩ :=
    replaceNode_abs hA hI0 fanA0 kA0 fA0 (by rw [nA0]) hai hfresh0
  rw [hS0] at S1
  rw [hE0, nA0, hentry'] at q1
  cases q1
  rw [nA0] at q2
  have hebi' : getEdge c1 e.n2 (newSlot c) = some ebi := by opt_ok hebi
  rw [getEdge_eq, Edge.keyOf_comm, q2] at hebi'
  cases hebi'
  -- the hypotheses of the second walk
  have fanB1 : FanF (slots c1) e.n2 kB FB (fun j => rn e.n1 (newSlot c) (NB j)) := by
    rw [S1]; exact fanB.rename (Ne.symm hab) hbi hfresh
  have hNB0 : rn e.n1 (newSlot c) (NB 0) = newSlot c := by rw [nB0]; unfold rn; simp
  have hNBnew : ∀ m, m < kB → NB m ≠ newSlot c := by
    intro m hm he
    obtain ⟨t, ht, hT⟩ := fanB.tri m hm
    have := hfresh _ _ ht
    rw [(hT.hasNode_iff' _).2 (Or.inr (Or.inl he.symm))] at this; cases this
  have H2 : Walk2Hyp (slots c1) ebi e.n2 (newSlot c) kB FB (fun j => rn e.n1 (newSlot c) (NB j)) := by
    refine ⟨fanB1, kB3, hNB0, hbi, by rw [q3, hEf1], by rw [q4, ef2], ?_, ?_⟩
    · intro g hs
      rw [S1, sideK_map] at hs
      obtain ⟨t, ht, hq⟩ := hs
      rcases side_loop_of_renT hai hq with hh | hh | hh
      · have ha := (hasNode_of_sideKey hh).1
        obtain ⟨j, hj, rfl⟩ := fanA.all g t ht ha
        obtain ⟨t', ht', hT⟩ := fanA.tri j hj
        rw [ht] at ht'; cases ht'
        exact hT.no_loop_side hh
      · have := (hasNode_of_sideKey hh).2
        rw [hfresh g t ht] at this; cases this
      · have := (hasNode_of_sideKey hh).1
        rw [hfresh g t ht] at this; cases this
    · intro m h2 h3 g hs
      rw [S1, sideK_map] at hs
      obtain ⟨t, ht, hq⟩ := hs
      have hNm : NB m ≠ e.n1 := by
        intro he; rw [← nB0] at he
        have := fanB.injN m 0 (by omega) hkB0 he
        omega
      have hq' : Edge.keyOf (newSlot c) (NB m) ∈ sideKeys (renT e.n1 (newSlot c) t) := by
        have : rn e.n1 (newSlot c) (NB m) = NB m := rn_of_ne hNm
        rw [← this]; exact hq
      rcases side_new_of_renT hai hNm (hNBnew m (by omega)) hq' with hh | hh
      · exact hlink m h2 h3 g ⟨t, ht, hh⟩
      · have := (hasNode_of_sideKey hh).1
        rw [hfresh g t ht] at this; cases this
  have hkey2 : Edge.keyOf ebi.n1 ebi.n2 = Edge.keyOf e.n2 (rn e.n1 (newSlot c) (NB 0)) := by
    obtain ⟨bk, ble, _, _⟩ := I1.of_find q2
    rw [← Edge.key_eq_keyOf ble, bk, hNB0]
    exact Edge.keyOf_comm _ _
  obtain ⟨S2, I2, FF2⟩ := replaceNode_abs2 hB I1 H2 hkey2
  -- the free list
  have ffo2 : FaceFreeOk c2 := by
    have hff : c2.freeFaces = c.freeFaces := FF2.trans (FF1.trans hF0)
    refine FaceFreeOk.of_slots ?_ (by rw [hff]; exact hffo.nodup)
    intro j hj
    rw [hff] at hj
    rw [S2, S1, List.getElem?_map, List.getElem?_map, hffo.slot hj]; rfl
  exact ⟨c0, c1, c2, c3, delA, creA, delB, creB, ebi, f1id, f2id,
    ⟨e1, e2, hxy, ⟨_, _, hc0⟩, hA, hB, h3, h4, S1, I1, H2, hkey2, S2, ffo2, FF2.trans (FF1.trans hF0), rfl⟩⟩

/-! ## 3. sides of the faces after the collapse -/

theorem col_get {L : List (Option Tri)} {p : Tri → Bool} {f : Tri → Tri} {g : Nat} {t' : Tri} :
    (L.map (colOpt p f))[g]? = some (some t') ↔ ∃ t, L[g]? = some (some t) ∧ p t = false ∧ t' = f t := by
  rw [List.getElem?_map]
  cases hg : L[g]? with
  | none => simp
  | some o =>
    cases o with
    | none => simp [colOpt]
    | some t =>
      cases hp : p t with
      | true => simp [colOpt, hp]
      | false =>
        simp only [Option.map_some, colOpt, Option.bind_some, hp, Bool.false_eq_true, if_false, Option.some.injEq]
        constructor
        · intro hh; exact ⟨t, rfl, hp, hh.symm⟩
        · rintro ⟨t0, h1, _, h3⟩; rw [h3, ← h1]

theorem ren_eq_ite (a b i x : Nat) : ren a b i x = if x = a ∨ x = b then i else x := by
  unfold ren; simp

theorem keyOf_ren_other {a b i p q x y : Nat} (hpa : p ≠ a) (hpb : p ≠ b) (hpi : p ≠ i) (hqa : q ≠ a) (hqb : q ≠ b)
    (hqi : q ≠ i) (hxi : x ≠ i) (hyi : y ≠ i) :
    Edge.keyOf p q = Edge.keyOf (ren a b i x) (ren a b i y) ↔ Edge.keyOf p q = Edge.keyOf x y := by
  rw [ren_eq_ite, ren_eq_ite, Edge.keyOf_eq_iff, Edge.keyOf_eq_iff]
  split_ifs <;> constructor <;> intro hh <;> omega

theorem keyOf_ren_new {a b i z x y : Nat} (hza : z ≠ a) (hzb : z ≠ b) (hzi : z ≠ i) (hxi : x ≠ i) (hyi : y ≠ i) :
    Edge.keyOf i z = Edge.keyOf (ren a b i x) (ren a b i y) ↔
      (Edge.keyOf a z = Edge.keyOf x y ∨ Edge.keyOf b z = Edge.keyOf x y) := by
  rw [ren_eq_ite, ren_eq_ite, Edge.keyOf_eq_iff, Edge.keyOf_eq_iff, Edge.keyOf_eq_iff]
  split_ifs <;> constructor <;> intro hh <;> omega

theorem mem_sideKeys_colTri (a b i : Nat) (t : Tri) (k : Nat) :
    k ∈ sideKeys (colTri a b i t) ↔
      (k = Edge.keyOf (ren a b i t.1) (ren a b i t.2.1) ∨ k = Edge.keyOf (ren a b i t.2.1) (ren a b i t.2.2) ∨
        k = Edge.keyOf (ren a b i t.2.2) (ren a b i t.1)) := by
  rw [mem_sideKeys]; rfl

theorem not_hasNode {t : Tri} {i : Nat} (h : hasNode t i = false) : t.1 ≠ i ∧ t.2.1 ≠ i ∧ t.2.2 ≠ i := by
  have := (hasNode_iff t i).not.1 (by rw [h]; simp)
  push Not at this
  exact this

/-- a side between two nodes that do not take part in the collapse -/
theorem sideK_col_other {L : List (Option Tri)} {a b i p q : Nat}
    (hfr : ∀ (g : Nat) (t : Tri), L[g]? = some (some t) → hasNode t i = false)
    (hab : a ≠ b) (hpa : p ≠ a) (hpb : p ≠ b) (hpi : p ≠ i) (hqa : q ≠ a) (hqb : q ≠ b) (hqi : q ≠ i) (hpq : p ≠ q)
    (g : Nat) :
    SideK (L.map (colOpt (fun t => hasNode t a && hasNode t b) (colTri a b i))) g (Edge.keyOf p q) ↔
      SideK L g (Edge.keyOf p q) := by
  constructor
  · rintro ⟨t', ht', hk⟩
    obtain ⟨t, ht, _, rfl⟩ := col_get.1 ht'
    obtain ⟨n1, n2, n3⟩ := not_hasNode (hfr g t ht)
    refine ⟨t, ht, ?_⟩
    rw [mem_sideKeys_colTri] at hk
    rw [mem_sideKeys]
    rcases hk with hk | hk | hk
    · exact Or.inl ((keyOf_ren_other hpa hpb hpi hqa hqb hqi n1 n2).1 hk)
    · exact Or.inr (Or.inl ((keyOf_ren_other hpa hpb hpi hqa hqb hqi n2 n3).1 hk))
    · exact Or.inr (Or.inr ((keyOf_ren_other hpa hpb hpi hqa hqb hqi n3 n1).1 hk))
  · rintro ⟨t, ht, hk⟩
    obtain ⟨n1, n2, n3⟩ := not_hasNode (hfr g t ht)
    have hboth : (hasNode t a && hasNode t b) = false := by
      rw [Bool.eq_false_iff]
      intro hb
      simp only [Bool.and_eq_true] at hb
      obtain ⟨hp', hq'⟩ := hasNode_of_sideKey hk
      obtain ⟨x, y, z⟩ := t
      simp only [hasNode_iff] at hb hp' hq'
      omega
    refine ⟨colTri a b i t, col_get.2 ⟨t, ht, hboth, rfl⟩, ?_⟩
    rw [mem_sideKeys] at hk
    rw [mem_sideKeys_colTri]
    rcases hk with hk | hk | hk
    · exact Or.inl ((keyOf_ren_other hpa hpb hpi hqa hqb hqi n1 n2).2 hk)
    · exact Or.inr (Or.inl ((keyOf_ren_other hpa hpb hpi hqa hqb hqi n2 n3).2 hk))
    · exact Or.inr (Or.inr ((keyOf_ren_other hpa hpb hpi hqa hqb hqi n3 n1).2 hk))

/-- a side at the new node -/
theorem sideK_col_new {L : List (Option Tri)} {a b i z : Nat}
    (hfr : ∀ (g : Nat) (t : Tri), L[g]? = some (some t) → hasNode t i = false)
    (hza : z ≠ a) (hzb : z ≠ b) (hzi : z ≠ i) (g : Nat) :
    SideK (L.map (colOpt (fun t => hasNode t a && hasNode t b) (colTri a b i))) g (Edge.keyOf i z) ↔
      ∃ t, L[g]? = some (some t) ∧ (hasNode t a && hasNode t b) = false ∧
        (Edge.keyOf a z ∈ sideKeys t ∨ Edge.keyOf b z ∈ sideKeys t) := by
  constructor
  · rintro ⟨t', ht', hk⟩
    obtain ⟨t, ht, hb, rfl⟩ := col_get.1 ht'
    obtain ⟨n1, n2, n3⟩ := not_hasNode (hfr g t ht)
    refine ⟨t, ht, hb, ?_⟩
    rw [mem_sideKeys_colTri] at hk
    rw [mem_sideKeys, mem_sideKeys]
    rcases hk with hk | hk | hk
    · rcases (keyOf_ren_new hza hzb hzi n1 n2).1 hk with hh | hh
      · exact Or.inl (Or.inl hh)
      · exact Or.inr (Or.inl hh)
    · rcases (keyOf_ren_new hza hzb hzi n2 n3).1 hk with hh | hh
      · exact Or.inl (Or.inr (Or.inl hh))
      · exact Or.inr (Or.inr (Or.inl hh))
    · rcases (keyOf_ren_new hza hzb hzi n3 n1).1 hk with hh | hh
      · exact Or.inl (Or.inr (Or.inr hh))
      · exact Or.inr (Or.inr (Or.inr hh))
  · rintro ⟨t, ht, hb, hk⟩
    obtain ⟨n1, n2, n3⟩ := not_hasNode (hfr g t ht)
    refine ⟨colTri a b i t, col_get.2 ⟨t, ht, hb, rfl⟩, ?_⟩
    rw [mem_sideKeys_colTri]
    rw [mem_sideKeys, mem_sideKeys] at hk
    rcases hk with (hk | hk | hk) | (hk | hk | hk)
    · exact Or.inl ((keyOf_ren_new hza hzb hzi n1 n2).2 (Or.inl hk))
    · exact Or.inr (Or.inl ((keyOf_ren_new hza hzb hzi n2 n3).2 (Or.inl hk)))
    · exact Or.inr (Or.inr ((keyOf_ren_new hza hzb hzi n3 n1).2 (Or.inl hk)))
    · exact Or.inl ((keyOf_ren_new hza hzb hzi n1 n2).2 (Or.inr hk))
    · exact Or.inr (Or.inl ((keyOf_ren_new hza hzb hzi n2 n3).2 (Or.inr hk)))
    · exact Or.inr (Or.inr ((keyOf_ren_new hza hzb hzi n3 n1).2 (Or.inr hk)))

/-! ## 4. the check set after `merge_edge` -/

theorem side_of_two_nodes {t : Tri} {a b : Nat} (hn : t.1 ≠ t.2.1 ∧ t.2.1 ≠ t.2.2 ∧ t.2.2 ≠ t.1) (hab : a ≠ b)
    (ha : hasNode t a = true) (hb : hasNode t b = true) : Edge.keyOf a b ∈ sideKeys t := by
  rcases dir_of_contains hn hab ha hb with hd | hd
  · exact sideKey_of_hasDir hd
  · rw [Edge.keyOf_comm]; exact sideKey_of_hasDir hd

/-- the faces through both end nodes are the first and the last face of the fan -/
theorem both_iff_fan {L : List (Option Tri)} {a b kB : Nat} {FB NB : Nat → Nat} (fanB : FanF L b kB FB NB)
    (nB0 : NB 0 = a) (hkB0 : 0 < kB) {g : Nat} {t : Tri} (ht : L[g]? = some (some t)) :
    (hasNode t a && hasNode t b) = true ↔ (g = FB 1 ∨ g = FB kB) := by
  have hk2 := fanB.two_le hkB0
  have hab : a ≠ b := by rw [← nB0]; exact fanB.N_ne hkB0
  constructor
  · intro hp
    simp only [Bool.and_eq_true] at hp
    obtain ⟨m, hm, rfl⟩ := fanB.all g t ht hp.2
    obtain ⟨t', ht', hT⟩ := fanB.tri m hm
    rw [ht] at ht'; cases ht'
    rcases (hT.hasNode_iff' a).1 hp.1 with he | he | he
    · exact absurd he hab
    · rw [← nB0] at he
      have := fanB.injN 0 m hkB0 hm he
      subst this
      exact Or.inl rfl
    · by_cases hm1 : m + 1 < kB
      · rw [← nB0] at he
        have := fanB.injN 0 (m + 1) hkB0 hm1 he
        omega
      · have : m + 1 = kB := by omega
        exact Or.inr (by rw [this])
  · rintro (rfl | rfl)
    · obtain ⟨t', ht', hT⟩ := fanB.tri 0 hkB0
      rw [ht] at ht'; cases ht'
      rw [nB0] at hT
      rw [hT.2.2.2.2.1, hT.2.2.2.1]; rfl
    · obtain ⟨t', ht', hT⟩ := fanB.tri (kB - 1) (by omega)
      have ekk : kB - 1 + 1 = kB := by omega
      rw [ekk, fanB.closeN, nB0] at hT
      rw [ekk, ht] at ht'; cases ht'
      rw [hT.2.2.2.2.2, hT.2.2.2.1]; rfl

theorem foldl_insert_ok (P : Edge → Prop) (keep : Edge → Bool) :
    ∀ (l : List Edge) (s : EdgeSet), EdgeSet.Sorted s → (∀ x ∈ s, P x) → (∀ y ∈ l, keep y = true → P y) →
      EdgeSet.Sorted (l.foldl (fun s ed => if keep ed = true then (EdgeSet.insert s ed).1 else s) s) ∧
      ∀ x ∈ l.foldl (fun s ed => if keep ed = true then (EdgeSet.insert s ed).1 else s) s, P x
  | [], s, hs, hP, _ => ⟨hs, hP⟩
  | y :: l, s, hs, hP, hl => by
    rw [List.foldl_cons]
    by_cases hk : keep y = true
    · rw [if_pos hk]
      refine foldl_insert_ok P keep l _ (EdgeSet.sorted_insert hs y) (fun x hx => ?_)
        (fun z hz => hl z (List.mem_cons_of_mem _ hz))
      rcases EdgeSet.mem_insert hx with rfl | hx
      · exact hl _ List.mem_cons_self hk
      · exact hP x hx
    · rw [if_neg hk]
      exact foldl_insert_ok P keep l s hs hP (fun z hz => hl z (List.mem_cons_of_mem _ hz))

/-- the key of a record with ordered nodes determines the nodes -/
theorem nodes_of_key {y : Edge} {p q : Nat} (hle : y.n1 ≤ y.n2) (hk : y.key = Edge.keyOf p q) :
    (y.n1 = p ∧ y.n2 = q) ∨ (y.n1 = q ∧ y.n2 = p) :=
  (Edge.key_eq_keyOf_iff hle).1 hk

section
variable {fn : Fn R} {c c' : Cell R} {e : Edge} {chk chk' : CheckSet} {kA kB : Nat} {FA NA FB NB : Nat → Nat}
  {c0 c1 c2 c3 : Cell R} {delA creA delB creB : List Edge} {ebi : Edge} {f1id f2id : Nat}

/-- the two faces of the collapsed edge, in terms of the fan around the first end node -/
theorem MergeRun.faces (M : MergeRun fn c c' e chk chk' kB FB NB c0 c1 c2 c3 delA creA delB creB ebi f1id f2id)
    (H : MergeHyp c e kA kB FA NA FB NB) :
    f1id = FA 0 ∧ f2id = FA 1 ∧ f1id ≠ f2id ∧ ∀ g, SideK (slots c) g (Edge.keyOf e.n1 e.n2) ↔ (g = f1id ∨ g = f2id) := by
  have hkB0 : 0 < kB := by have := H.kB3; omega
  have h1 : f1id = FA 0 := by
    have := M.ef1; rw [H.fA0] at this; exact (Option.some.inj this).symm
  have sA := H.fanA.side H.kA0
  rw [H.nA0] at sA
  have sB := H.fanB.side hkB0
  rw [H.nB0, Edge.keyOf_comm] at sB
  have hk1 : FB kB ≠ FB 1 := by
    intro he
    have := H.fanB.injF kB 1 (by have := H.kB3; omega) (Nat.le_refl _) (Nat.le_refl _) (by have := H.kB3; omega) he
    have := H.kB3; omega
  have hne : f1id ≠ f2id := by
    rcases M.hxy with ⟨a1, a2⟩ | ⟨a1, a2⟩
    · rw [a1, a2]; exact hk1
    · rw [a1, a2]; exact Ne.symm hk1
  have hall : ∀ g, SideK (slots c) g (Edge.keyOf e.n1 e.n2) ↔ (g = f1id ∨ g = f2id) := by
    intro g
    rw [sB g, H.fanB.closeF]
    rcases M.hxy with ⟨a1, a2⟩ | ⟨a1, a2⟩
    · rw [a1, a2]
    · rw [a1, a2]; exact or_comm
  refine ⟨h1, ?_, hne, hall⟩
  have : f2id = FA 0 ∨ f2id = FA (0 + 1) := (sA f2id).1 ((hall f2id).2 (Or.inr rfl))
  rcases this with hh | hh
  · exact absurd (h1.trans hh.symm) hne
  · exact hh

/-- **an element of the check set that survives the `erase`s** mentions neither end node and stays valid -/
theorem MergeRun.survivor (M : MergeRun fn c c' e chk chk' kB FB NB c0 c1 c2 c3 delA creA delB creB ebi f1id f2id)
    (H : MergeHyp c e kA kB FA NA FB NB) (hInv : Inv (abs c))
    (S' : slots c' = (slots c).map (colOpt (fun t => hasNode t e.n1 && hasNode t e.n2) (colTri e.n1 e.n2 (newSlot c))))
    {x : Edge} (hx : CopyOk c x) (hd : ∀ d ∈ delA ++ delB, x.key ≠ d.key) : CopyOk c' x := by
  obtain ⟨hI, hffo, hentry, fanA, fanB, kA0, nA0, nB0, fA0, kB3, hlink, hfresh⟩ := H
  have hkB0 : 0 < kB := by omega
  obtain ⟨p0, m0, hc0⟩ := M.add
  have hS0 : slots c0 = slots c := by rw [hc0]; unfold slots; rw [(faces_addNode _ _ _).1]
  have hE0 : c0.edges = c.edges := by rw [hc0]; exact edges_addNode _ _ _
  obtain ⟨tA, htA, hTA⟩ := fanA.tri 0 kA0
  have hab : e.n1 ≠ e.n2 := by rw [← nA0]; exact hTA.1
  have hfa : hasNode tA (newSlot c) = false := hfresh _ _ htA
  have hai : e.n1 ≠ newSlot c := by
    intro he; rw [← he, hTA.2.2.2.1] at hfa; cases hfa
  have hI0 : EdgeIdxComplete c0 := edgeIdxComplete_congr hS0 hE0 hI
  have fanA0 : FanF (slots c0) e.n1 kA FA NA := by rw [hS0]; exact fanA
  have hfresh0 : FreshNode c0 (newSlot c) := by
    intro g t ht; rw [hS0] at ht; exact hfresh g t ht
  obtain ⟨dA, _⟩ := replaceNode_lists M.hA hI0 fanA0 kA0 fA0 (by rw [nA0]) hai hfresh0
  obtain ⟨dB, _⟩ := replaceNode_lists2 M.hB M.I1 M.H2 M.hkey2
  obtain ⟨E, _, _, _, _, _, hn12⟩ := hx.entry hI hInv
  have hle := hx.1
  have hk := Edge.key_eq_keyOf hle
  obtain ⟨p, h1⟩ : ∃ p, x.f1 = some p := Option.ne_none_iff_exists'.1 hx.2.1.1
  have hside : SideK (slots c) p x.key := (hx.2.2 p).1 ((Edge.hasFace_iff _ _).2 (Or.inl h1))
  have noA : ∀ w, x.key ≠ Edge.keyOf e.n1 w := by
    intro w he
    rw [he] at hside
    obtain ⟨j, hj, rfl⟩ := fanA.side_nbr hside
    obtain ⟨d, hdm, hdk⟩ := dA j hj
    exact hd d (List.mem_append_left _ hdm) (he.trans hdk.symm)
  have noB : ∀ w, x.key ≠ Edge.keyOf e.n2 w := by
    intro w he
    rw [he] at hside
    obtain ⟨j, hj, rfl⟩ := fanB.side_nbr hside
    by_cases h0 : j = 0
    · subst h0
      rw [nB0, Edge.keyOf_comm] at he
      exact noA _ he
    · have hNj : NB j ≠ e.n1 := by
        intro hh; rw [← nB0] at hh
        exact h0 (fanB.injN j 0 hj hkB0 hh)
      obtain ⟨d, hdm, hdk⟩ := dB j hj
      have : rn e.n1 (newSlot c) (NB j) = NB j := rn_of_ne hNj
      rw [this] at hdk
      exact hd d (List.mem_append_right _ hdm) (he.trans hdk.symm)
  have noI := hx.no_fresh hfresh
  have k1 := noA x.n2; have k2 := noA x.n1; have k3 := noB x.n2; have k4 := noB x.n1
  have k5 := noI x.n2; have k6 := noI x.n1
  rw [hk] at k1 k2 k3 k4 k5 k6
  rw [Ne, Edge.keyOf_eq_iff] at k1 k2 k3 k4 k5 k6
  refine hx.congr (fun g => ?_)
  rw [hk, S']
  exact sideK_col_other hfresh hab (by omega) (by omega) (by omega) (by omega) (by omega) (by omega) hn12 g

/-- **a created edge of the first walk that passes the filter of `merge_edge`** is valid in the final cell -/
theorem MergeRun.creA_ok (M : MergeRun fn c c' e chk chk' kB FB NB c0 c1 c2 c3 delA creA delB creB ebi f1id f2id)
    (H : MergeHyp c e kA kB FA NA FB NB) (hInv : Inv (abs c))
    (linkA : ∀ m, 2 ≤ m → m + 2 ≤ kA → ∀ g, ¬ SideK (slots c) g (Edge.keyOf e.n2 (NA m)))
    (S' : slots c' = (slots c).map (colOpt (fun t => hasNode t e.n1 && hasNode t e.n2) (colTri e.n1 e.n2 (newSlot c))))
    {y : Edge} (hy : y ∈ creA)
    (hkeep : (!y.hasNode e.n1 && !y.hasNode e.n2 && y.n1 != y.n2 && !y.hasFace f1id && !y.hasFace f2id) = true) :
    CopyOk c' y := by
  obtain ⟨hf1, hf2, hf12, hfab⟩ := M.faces H
  obtain ⟨hI, hffo, hentry, fanA, fanB, kA0, nA0, nB0, fA0, kB3, hlink, hfresh⟩ := H
  obtain ⟨p0, m0, hc0⟩ := M.add
  have hS0 : slots c0 = slots c := by rw [hc0]; unfold slots; rw [(faces_addNode _ _ _).1]
  have hE0 : c0.edges = c.edges := by rw [hc0]; exact edges_addNode _ _ _
  obtain ⟨tA, htA, hTA⟩ := fanA.tri 0 kA0
  have hab : e.n1 ≠ e.n2 := by rw [← nA0]; exact hTA.1
  have hfa : hasNode tA (newSlot c) = false := hfresh _ _ htA
  have hai : e.n1 ≠ newSlot c := by
    intro he; rw [← he, hTA.2.2.2.1] at hfa; cases hfa
  have hI0 : EdgeIdxComplete c0 := edgeIdxComplete_congr hS0 hE0 hI
  have fanA0 : FanF (slots c0) e.n1 kA FA NA := by rw [hS0]; exact fanA
  have hfresh0 : FreshNode c0 (newSlot c) := by
    intro g t ht; rw [hS0] at ht; exact hfresh g t ht
  obtain ⟨_, cA⟩ := replaceNode_lists M.hA hI0 fanA0 kA0 fA0 (by rw [nA0]) hai hfresh0
  obtain ⟨m, hm, yk, yle, ywf, yP⟩ := cA y hy
  rw [hS0] at yP
  simp only [Bool.and_eq_true, Bool.not_eq_true', bne_iff_ne, ne_eq] at hkeep
  obtain ⟨⟨⟨⟨hna, hnb⟩, hne⟩, hnf1⟩, hnf2⟩ := hkeep
  -- the other end node
  have hz : y.hasNode (NA m) = true := by
    unfold Edge.hasNode
    rcases nodes_of_key yle yk with ⟨_, h2⟩ | ⟨h1, _⟩
    · simp [h2]
    · simp [h1]
  have hza : NA m ≠ e.n1 := fanA.N_ne hm
  have hzb : NA m ≠ e.n2 := by
    intro he; rw [he, hnb] at hz; cases hz
  obtain ⟨tm, htm, hTm⟩ := fanA.tri m hm
  have hzi : NA m ≠ newSlot c := by
    intro he
    have := hfresh _ _ htm
    rw [(hTm.hasNode_iff' _).2 (Or.inr (Or.inl he.symm))] at this; cases this
  have yF : ∀ g, y.hasFace g = true ↔ (g = FA m ∨ g = FA (m + 1)) := fun g => (yP g).trans (fanA.side hm g)
  -- the index of the neighbour
  have hm0 : m ≠ 0 := by rintro rfl; exact hzb nA0
  have hmk : m + 1 ≠ kA := by
    intro he
    have := (yF (FA kA)).2 (Or.inr (by rw [he]))
    rw [← fanA.closeF, ← hf1, hnf1] at this; cases this
  have hm1 : m ≠ 1 := by
    rintro rfl
    have := (yF (FA 1)).2 (Or.inl rfl)
    rw [← hf2, hnf2] at this; cases this
  have hl := linkA m (by omega) (by omega)
  refine ⟨yle, ywf, fun g => ?_⟩
  rw [yk, S', sideK_col_new hfresh hza hzb hzi g, yP g]
  constructor
  · rintro ⟨t, ht, hq⟩
    refine ⟨t, ht, ?_, Or.inl hq⟩
    rw [Bool.eq_false_iff]
    intro hb
    simp only [Bool.and_eq_true] at hb
    have hside := side_of_two_nodes (hInv.nondeg t (mem_abs_iff.2 ⟨g, ht⟩)) hab hb.1 hb.2
    have hy' := (yP g).2 ⟨t, ht, hq⟩
    rcases (hfab g).1 ⟨t, ht, hside⟩ with rfl | rfl
    · rw [hnf1] at hy'; cases hy'
    · rw [hnf2] at hy'; cases hy'
  · rintro ⟨t, ht, _, hq | hq⟩
    · exact ⟨t, ht, hq⟩
    · exact (hl g ⟨t, ht, hq⟩).elim

/-- **a created edge of the second walk that passes the filter** is valid in the final cell -/
theorem MergeRun.creB_ok (M : MergeRun fn c c' e chk chk' kB FB NB c0 c1 c2 c3 delA creA delB creB ebi f1id f2id)
    (H : MergeHyp c e kA kB FA NA FB NB)
    (S' : slots c' = (slots c).map (colOpt (fun t => hasNode t e.n1 && hasNode t e.n2) (colTri e.n1 e.n2 (newSlot c))))
    {y : Edge} (hy : y ∈ creB)
    (hkeep : (!y.hasNode e.n1 && !y.hasNode e.n2 && y.n1 != y.n2 && !y.hasFace f1id && !y.hasFace f2id) = true) :
    CopyOk c' y := by
  obtain ⟨hI, hffo, hentry, fanA, fanB, kA0, nA0, nB0, fA0, kB3, hlink, hfresh⟩ := H
  have hkB0 : 0 < kB := by omega
  obtain ⟨tA, htA, hTA⟩ := fanA.tri 0 kA0
  have hab : e.n1 ≠ e.n2 := by rw [← nA0]; exact hTA.1
  have hfa : hasNode tA (newSlot c) = false := hfresh _ _ htA
  have hai : e.n1 ≠ newSlot c := by
    intro he; rw [← he, hTA.2.2.2.1] at hfa; cases hfa
  have hbi : e.n2 ≠ newSlot c := by
    intro he; rw [← he, ← nA0, hTA.2.2.2.2.1] at hfa; cases hfa
  obtain ⟨_, cB⟩ := replaceNode_lists2 M.hB M.I1 M.H2 M.hkey2
  obtain ⟨m, hm, yk, yle, ywf, yP⟩ := cB y hy
  dsimp only at yk
  simp only [Bool.and_eq_true, Bool.not_eq_true', bne_iff_ne, ne_eq] at hkeep
  obtain ⟨⟨⟨⟨hna, hnb⟩, hne⟩, hnf1⟩, hnf2⟩ := hkeep
  have hNB0 : rn e.n1 (newSlot c) (NB 0) = newSlot c := by rw [nB0]; unfold rn; simp
  have hm0 : m ≠ 0 := by
    rintro rfl
    rw [hNB0] at yk
    rcases nodes_of_key yle yk with ⟨h1, h2⟩ | ⟨h1, h2⟩ <;> exact hne (h1.trans h2.symm)
  have hza : NB m ≠ e.n1 := by
    intro hh; rw [← nB0] at hh
    exact hm0 (fanB.injN m 0 hm hkB0 hh)
  have hzb : NB m ≠ e.n2 := fanB.N_ne hm
  obtain ⟨tm, htm, hTm⟩ := fanB.tri m hm
  have hzi : NB m ≠ newSlot c := by
    intro he
    have := hfresh _ _ htm
    rw [(hTm.hasNode_iff' _).2 (Or.inr (Or.inl he.symm))] at this; cases this
  have hrn : rn e.n1 (newSlot c) (NB m) = NB m := rn_of_ne hza
  rw [hrn] at yk
  refine ⟨yle, ywf, fun g => ?_⟩
  rw [yk, S', sideK_col_new hfresh hza hzb hzi g, yP g]
  unfold Q2
  dsimp only
  rw [if_neg hm0, hrn, M.S1, sideK_map, sideK_map]
  -- one face at a time
  have one : ∀ t, (slots c)[g]? = some (some t) →
      ((Edge.keyOf (newSlot c) (NB m) ∈ sideKeys (renT e.n1 (newSlot c) t) ↔ Edge.keyOf e.n1 (NB m) ∈ sideKeys t) ∧
       (Edge.keyOf e.n2 (NB m) ∈ sideKeys (renT e.n1 (newSlot c) t) ↔ Edge.keyOf e.n2 (NB m) ∈ sideKeys t)) := by
    intro t ht
    obtain ⟨n1, n2, n3⟩ := not_hasNode (hfresh g t ht)
    have nonew : ∀ x y, x ≠ newSlot c → y ≠ newSlot c → Edge.keyOf (newSlot c) (NB m) ≠ Edge.keyOf x y := by
      intro x y hx hy he
      rw [Edge.keyOf_eq_iff] at he
      omega
    have o1 : ∀ w, Edge.keyOf e.n2 (NB m) ≠ Edge.keyOf e.n1 w := by
      intro w he; rw [Edge.keyOf_eq_iff] at he; omega
    have o2 : ∀ w, Edge.keyOf e.n2 (NB m) ≠ Edge.keyOf (newSlot c) w := by
      intro w he; rw [Edge.keyOf_eq_iff] at he; omega
    constructor
    · rw [sideKeys_renT, mem_sideKeys, side_rn_new hai hza hzi, side_rn_new hai hza hzi, side_rn_new hai hza hzi]
      constructor
      · rintro ((hh | hh) | (hh | hh) | (hh | hh))
        · exact Or.inl hh
        · exact absurd hh (nonew _ _ n1 n2)
        · exact Or.inr (Or.inl hh)
        · exact absurd hh (nonew _ _ n2 n3)
        · exact Or.inr (Or.inr hh)
        · exact absurd hh (nonew _ _ n3 n1)
      · rintro (hh | hh | hh)
        · exact Or.inl (Or.inl hh)
        · exact Or.inr (Or.inl (Or.inl hh))
        · exact Or.inr (Or.inr (Or.inl hh))
    · rw [sideKeys_renT, mem_sideKeys, side_rn_other hai o1 o2, side_rn_other hai o1 o2, side_rn_other hai o1 o2]
  constructor
  · rintro ⟨hs, hg1, hgk⟩
    have hex : ∃ t, (slots c)[g]? = some (some t) := by
      rcases hs with ⟨t, ht, _⟩ | ⟨t, ht, _⟩ <;> exact ⟨t, ht⟩
    obtain ⟨t, ht⟩ := hex
    obtain ⟨a1, a2⟩ := one t ht
    refine ⟨t, ht, ?_, ?_⟩
    · rw [Bool.eq_false_iff]
      intro hb
      rcases (both_iff_fan fanB nB0 hkB0 ht).1 hb with hh | hh
      · exact hg1 hh
      · exact hgk hh
    · rcases hs with ⟨t', ht', hq⟩ | ⟨t', ht', hq⟩
      · rw [ht] at ht'; cases ht'; exact Or.inl (a1.1 hq)
      · rw [ht] at ht'; cases ht'; exact Or.inr (a2.1 hq)
  · rintro ⟨t, ht, hb, hq⟩
    obtain ⟨a1, a2⟩ := one t ht
    have hnb' : ¬ (g = FB 1 ∨ g = FB kB) := by
      intro hh
      rw [(both_iff_fan fanB nB0 hkB0 ht).2 hh] at hb; cases hb
    refine ⟨?_, fun hh => hnb' (Or.inl hh), fun hh => hnb' (Or.inr hh)⟩
    rcases hq with hq | hq
    · exact Or.inl ⟨t, ht, a1.2 hq⟩
    · exact Or.inr ⟨t, ht, a2.2 hq⟩

/-- the node store in every intermediate state of `merge_edge` -/
theorem MergeRun.nodesOk (M : MergeRun fn c c' e chk chk' kB FB NB c0 c1 c2 c3 delA creA delB creB ebi f1id f2id)
    (H : MergeHyp c e kA kB FA NA FB NB) (hN : NodesOk c) :
    NodesOk c0 ∧ NodesOk c1 ∧ usedN c1 (newSlot c) = true ∧ NodesOk c2 ∧ NodesOk c' ∧
      (∀ j, usedN c' j = (!decide (j = e.n2) && (!decide (j = e.n1) && (decide (j = newSlot c) || usedN c j)))) ∧
      (c'.freeNodes, c'.nodes.size) = nodeOp (c.freeNodes, c.nodes.size) false e.n1 e.n2 := by
  obtain ⟨hf1, hf2, hf12, hfab⟩ := M.faces H
  obtain ⟨hI, hffo, hentry, fanA, fanB, kA0, nA0, nB0, fA0, kB3, hlink, hfresh⟩ := H
  obtain ⟨p0, m0, hc0⟩ := M.add
  have hS0 : slots c0 = slots c := by rw [hc0]; unfold slots; rw [(faces_addNode _ _ _).1]
  obtain ⟨tA, htA, hTA⟩ := fanA.tri 0 kA0
  have hab : e.n1 ≠ e.n2 := by rw [← nA0]; exact hTA.1
  have hfa : hasNode tA (newSlot c) = false := hfresh _ _ htA
  have hai : e.n1 ≠ newSlot c := by
    intro he; rw [← he, hTA.2.2.2.1] at hfa; cases hfa
  have hbi : e.n2 ≠ newSlot c := by
    intro he; rw [← he, ← nA0, hTA.2.2.2.2.1] at hfa; cases hfa
  have ua : usedN c e.n1 = true := hN.live _ tA _ htA hTA.2.2.2.1
  have ub : usedN c e.n2 = true := by rw [← nA0]; exact hN.live _ tA _ htA hTA.2.2.2.2.1
  obtain ⟨hu, hfr, hs1, hs2⟩ := addNode_nodes hN p0 m0
  rw [← hc0] at hu hfr hs1 hs2
  have hN0 : NodesOk c0 := nodesOk_of_add hN hu hfr hs1 hs2 (fun g t v hg hv => by
    rw [hS0] at hg; exact Or.inr (hN.live g t v hg hv))
  have u0a : usedN c0 e.n1 = true := by rw [hu, ua]; simp
  have u0b : usedN c0 e.n2 = true := by rw [hu, ub]; simp
  have u0i : usedN c0 (newSlot c) = true := by rw [hu]; simp
  obtain ⟨n1, f1⟩ := replaceNode_nodes' M.hA
  have S1' : slots c1 = (slots c0).map (Option.map (renT e.n1 (newSlot c))) := by rw [hS0]; exact M.S1
  have hN1 : NodesOk c1 := nodesOk_replace hN0 n1 f1 S1' u0a u0i hai
  have hu1 : ∀ j, usedN c1 j = (!decide (j = e.n1) && usedN c0 j) := by
    intro j
    rw [← (deleteNode_nodes c0 e.n1 (usedA_lt u0a)).1 j]
    show usedA c1.nodes j = usedA _ j; rw [n1]
  have u1b : usedN c1 e.n2 = true := by rw [hu1, u0b]; simp [Ne.symm hab]
  have u1i : usedN c1 (newSlot c) = true := by rw [hu1, u0i]; simp [Ne.symm hai]
  obtain ⟨n2, f2⟩ := replaceNode_nodes' M.hB
  have hN2 : NodesOk c2 := nodesOk_replace hN1 n2 f2 M.S2 u1b u1i hbi
  -- the two deletions
  obtain ⟨t1, ht1, _⟩ := (hfab f1id).2 (Or.inl rfl)
  obtain ⟨t2, ht2, _⟩ := (hfab f2id).2 (Or.inr rfl)
  have sl : ∀ (g : Nat) (t : Tri), (slots c)[g]? = some (some t) →
      (slots c2)[g]? = some (some (renT e.n2 (newSlot c) (renT e.n1 (newSlot c) t))) := by
    intro g t ht
    rw [M.S2, M.S1, List.getElem?_map, List.getElem?_map, ht]; rfl
  have D3 := deleteFace_spec M.h3 (sl _ _ ht1)
  have s4 : (slots c3)[f2id]? = some (some (renT e.n2 (newSlot c) (renT e.n1 (newSlot c) t2))) := by
    rw [D3.slots_eq, List.getElem?_set_ne hf12]; exact sl _ _ ht2
  have D4 := deleteFace_spec M.h4 s4
  refine ⟨hN0, hN1, u1i, hN2, nodesOk_deleteFace D4 (nodesOk_deleteFace D3 hN2), fun j => ?_, ?_⟩
  rotate_left
  · unfold nodeOp
    simp only [Bool.false_eq_true, if_false]
    rw [D4.freeNodes_eq, D3.freeNodes_eq, f2, f1, D4.nodes_eq, D3.nodes_eq, n2,
      (deleteNode_nodes c1 e.n2 (usedA_lt u1b)).2.2, n1, (deleteNode_nodes c0 e.n1 (usedA_lt u0a)).2.2, hfr]
    have : c0.nodes.size = sizeAfterAdd c.freeNodes c.nodes.size := by rw [hc0]; exact addNode_size c p0 m0
    rw [this]
  have hu2 : usedN c2 j = (!decide (j = e.n2) && usedN c1 j) := by
    rw [← (deleteNode_nodes c1 e.n2 (usedA_lt u1b)).1 j]
    show usedA c2.nodes j = usedA _ j; rw [n2]
  show usedA c'.nodes j = _
  rw [D4.nodes_eq, D3.nodes_eq]
  show usedN c2 j = _
  rw [hu2, hu1, hu]

/-- **the check set after `merge_edge`** -/
theorem MergeRun.chkOk (M : MergeRun fn c c' e chk chk' kB FB NB c0 c1 c2 c3 delA creA delB creB ebi f1id f2id)
    (H : MergeHyp c e kA kB FA NA FB NB) (hInv : Inv (abs c))
    (linkA : ∀ m, 2 ≤ m → m + 2 ≤ kA → ∀ g, ¬ SideK (slots c) g (Edge.keyOf e.n2 (NA m)))
    (S' : slots c' = (slots c).map (colOpt (fun t => hasNode t e.n1 && hasNode t e.n2) (colTri e.n1 e.n2 (newSlot c))))
    (hchk : ChkOk c chk) : ChkOk c' chk' := by
  have h1 : EdgeSet.Sorted ((delA ++ delB).foldl (fun s ed => EdgeSet.erase s ed.key) chk) :=
    EdgeSet.sorted_foldl_erase hchk.sorted _
  have h2 : ∀ x ∈ (delA ++ delB).foldl (fun s ed => EdgeSet.erase s ed.key) chk, CopyOk c' x := by
    intro x hx
    obtain ⟨hm, hd⟩ := EdgeSet.mem_foldl_erase.1 hx
    exact M.survivor H hInv S' (hchk.ok x hm) hd
  have h3 : ∀ y ∈ creA ++ creB,
      (fun ed : Edge => !ed.hasNode e.n1 && !ed.hasNode e.n2 && ed.n1 != ed.n2 && !ed.hasFace f1id && !ed.hasFace f2id) y
        = true → CopyOk c' y := by
    intro y hy hk
    rcases List.mem_append.1 hy with hy | hy
    · exact M.creA_ok H hInv linkA S' hy hk
    · exact M.creB_ok H S' hy hk
  obtain ⟨a, b⟩ := foldl_insert_ok (CopyOk c') _ _ _ h1 h2 h3
  rw [M.chk_eq]
  exact ⟨a, b⟩

end

/-- **the guard establishes the hypotheses of the collapse**: for a valid copy of an edge of a valid cell on which
    `can_be_merged` answered `true`, the fans around the two end nodes exist (aligned with the copy resp. with the index
    entry), the link condition holds in fan form on both sides and abstractly -/
theorem mergeHyp_of_guard {c : Cell R} {e : Edge} (hg : canBeMerged c e = .ok true) (hc : CellOk c) (hx : CopyOk c e) :
    ∃ kA kB FA NA FB NB t1 t2, MergeHyp c e kA kB FA NA FB NB ∧
      (∀ m, 2 ≤ m → m + 2 ≤ kA → ∀ g, ¬ SideK (slots c) g (Edge.keyOf e.n2 (NA m))) ∧
      findDir (abs c) e.n1 e.n2 = some t1 ∧ findDir (abs c) e.n2 e.n1 = some t2 ∧
      LinkCond (abs c) e.n1 e.n2 (opp t1 e.n1 e.n2) (opp t2 e.n2 e.n1) := by
  obtain ⟨hf, hI, hN, hInv, hV, _, _, _⟩ := hc
  obtain ⟨E, hentry, _, _, hord, he, hab⟩ := hx.entry hI hInv
  have hfresh := hN.fresh
  have hentry' : EdgeSet.find? c.edges (Edge.keyOf e.n1 e.n2) = some E := hentry
  obtain ⟨_, _, hw, hP⟩ := hI.of_find hentry'
  obtain ⟨g1, hg1⟩ : ∃ g1, E.f1 = some g1 := Option.ne_none_iff_exists'.1 hw.1
  -- the first face of the popped copy is one of the two faces of the entry
  obtain ⟨f1, hf1, hE1⟩ : ∃ f1, e.f1 = some f1 ∧ E.hasFace f1 = true := by
    obtain ⟨p, _, _, _, hp, _⟩ := he
    refine ⟨p, hp, ?_⟩
    rw [Edge.hasFace_iff]
    rcases hord with ⟨o1, _⟩ | ⟨_, o2⟩
    · exact Or.inl (o1.trans hp)
    · exact Or.inr (o2.trans hp)
  obtain ⟨t, ht, hq⟩ := (hP f1).1 hE1
  obtain ⟨ha, hb⟩ := hasNode_of_sideKey hq
  obtain ⟨t', ht', hq'⟩ := (hP g1).1 ((Edge.hasFace_iff _ _).2 (Or.inl hg1))
  obtain ⟨ha', hb'⟩ := hasNode_of_sideKey hq'
  obtain ⟨fsA, nsA, FA⟩ := vertexManifold_of_allVMC hInv hV ht ha
  obtain ⟨fsB, nsB, FB⟩ := vertexManifold_of_allVMC hInv hV ht hb
  obtain ⟨fsA', nsA', FA', nA, lA⟩ := FA.align ht ha hb (Ne.symm hab)
  obtain ⟨fsB', nsB', FB', nB, lB⟩ := FB.align ht' hb' ha' hab
  have nA0 : fanN fsA' nsA' 0 = e.n2 := by rw [fanN_lt FA'.pos]; exact nA
  have nB0 : fanN fsB' nsB' 0 = e.n1 := by rw [fanN_lt FB'.pos]; exact nB
  have fA0 : e.f1 = some (fanF fsA' 0) := by rw [fanF_zero FA'.pos, lA]; exact hf1
  have fB0 : E.f1 = some (fanF fsB' 0) := by rw [fanF_zero FB'.pos, lB]; exact hg1
  -- the guard
  obtain ⟨kA, kB, GA, GNA, GB, GNB, G⟩ := guardFans_of_manifold hI hentry hord ⟨fsA, nsA, FA⟩ ⟨fsB, nsB, FB⟩
  obtain ⟨t1, t2, h1, h2⟩ := G.findDirs hInv
  have hl := (G.guard_iff (sortSpecAt c e) h1 h2).1 hg
  obtain ⟨k3, lk⟩ := link_of_linkCond FB'.toF nB0 FB'.pos h1 h2 hl
  have hl' : LinkCond (abs c) e.n2 e.n1 (opp t2 e.n2 e.n1) (opp t1 e.n1 e.n2) :=
    ⟨Ne.symm hl.1, fun x hb ha => (hl.2 x ha hb).symm⟩
  obtain ⟨_, lkA⟩ := link_of_linkCond FA'.toF nA0 FA'.pos h2 h1 hl'
  exact ⟨_, _, _, _, _, _, t1, t2,
    ⟨hI, hf, ⟨E, hentry, fB0, hord⟩, FA'.toF, FB'.toF, FA'.pos, nA0, nB0, fA0, k3, lk, freshNode_of_fresh hfresh⟩,
    lkA, h1, h2, hl⟩

/-- the state between the two `replace_node` calls of `merge_edge` -/
theorem merge_first_walk {fn : Fn R} {c c1 : Cell R} {e : Edge} {kA kB : Nat} {FA NA FB NB : Nat → Nat}
    {p m : V3 R} {delA creA : List Edge} (H : MergeHyp c e kA kB FA NA FB NB) (hN : NodesOk c)
    (hA : replaceNode fn (addNode c p m).1 e e.n1 (newSlot c) = .ok (c1, delA, creA)) :
    NodesOk c1 ∧ usedN c1 (newSlot c) = true ∧ EdgeIdxComplete c1 := by
  obtain ⟨hI, hffo, hentry, fanA, fanB, kA0, nA0, nB0, fA0, kB3, hlink, hfresh⟩ := H
  have hS0 : slots (addNode c p m).1 = slots c := by unfold slots; rw [(faces_addNode _ _ _).1]
  have hE0 : (addNode c p m).1.edges = c.edges := edges_addNode _ _ _
  obtain ⟨tA, htA, hTA⟩ := fanA.tri 0 kA0
  have hfa : hasNode tA (newSlot c) = false := hfresh _ _ htA
  have hai : e.n1 ≠ newSlot c := by
    intro he; rw [← he, hTA.2.2.2.1] at hfa; cases hfa
  have ua : usedN c e.n1 = true := hN.live _ tA _ htA hTA.2.2.2.1
  obtain ⟨hu, hfr, hs1, hs2⟩ := addNode_nodes hN p m
  have hN0 : NodesOk (addNode c p m).1 := nodesOk_of_add hN hu hfr hs1 hs2 (fun g t v hg hv => by
    rw [hS0] at hg; exact Or.inr (hN.live g t v hg hv))
  have u0a : usedN (addNode c p m).1 e.n1 = true := by rw [hu, ua]; simp
  have u0i : usedN (addNode c p m).1 (newSlot c) = true := by rw [hu]; simp
  have hI0 : EdgeIdxComplete (addNode c p m).1 := edgeIdxComplete_congr hS0 hE0 hI
  have fanA0 : FanF (slots (addNode c p m).1) e.n1 kA FA NA := by rw [hS0]; exact fanA
  have hfresh0 : FreshNode (addNode c p m).1 (newSlot c) := by
    intro g t ht; rw [hS0] at ht; exact hfresh g t ht
  obtain ⟨S1, I1, n1, f1, _⟩ := replaceNode_abs hA hI0 fanA0 kA0 fA0 (by rw [nA0]) hai hfresh0
  have hN1 : NodesOk c1 := nodesOk_replace hN0 n1 f1 S1 u0a u0i hai
  have hu1 : usedN c1 (newSlot c) = true := by
    have := (deleteNode_nodes (addNode c p m).1 e.n1 (usedA_lt u0a)).1 (newSlot c)
    rw [u0i] at this
    show usedA c1.nodes _ = true
    rw [n1]
    exact this.trans (by simp [Ne.symm hai])
  exact ⟨hN1, hu1, I1⟩

/-- **`merge_edge` as `refine_mesh` performs it, on a valid copy of an edge of a valid cell**: the guard `can_be_merged`
    answered `true` and the call returned.  All invariants are kept, the check set stays valid, the live triangles are
    the abstract collapse (equal lists) and the abstract operation was enabled. -/
theorem mergeEdge_pass {fn : Fn R} {k : SplitConsts R} {c c' : Cell R} {e : Edge} {chk chk' : CheckSet}
    (hg : canBeMerged c e = .ok true) (h : mergeEdge fn k c e chk = .ok (c', chk'))
    (hc : CellOk c) (hx : CopyOk c e) (hchk : ChkOk c chk) :
    CellOk c' ∧ ChkOk c' chk' ∧ abs c' = collapseT (abs c) e.n1 e.n2 (newSlot c) ∧
      ∃ t1 t2, findDir (abs c) e.n1 e.n2 = some t1 ∧ findDir (abs c) e.n2 e.n1 = some t2 ∧
        LinkCond (abs c) e.n1 e.n2 (opp t1 e.n1 e.n2) (opp t2 e.n2 e.n1) ∧ Fresh (abs c) (newSlot c) ∧
        (c'.freeNodes, c'.nodes.size) = nodeOp (c.freeNodes, c.nodes.size) false e.n1 e.n2 := by
  obtain ⟨kA, kB, FA, NA, FB, NB, t1, t2, H, lkA, h1, h2, hl⟩ := mergeHyp_of_guard hg hc hx
  obtain ⟨hf, hI, hN, hInv, hV, hcov, hus, hfull⟩ := hc
  have hfresh := hN.fresh
  obtain ⟨S', I', F'⟩ := mergeEdge_slots h H
  have habs := mergeEdge_abs h H
  obtain ⟨c0, c1, c2, c3, delA, creA, delB, creB, ebi, f1id, f2id, M⟩ := mergeEdge_run h H
  obtain ⟨_, _, _, _, hN', hu', htrack⟩ := M.nodesOk H hN
  have hne12 : e.n1 ≠ e.n2 := (opp_ne (hInv.nondeg t1 (findDir_some h1).1) (findDir_some h1).2).1
  have hia : newSlot c ≠ e.n1 := by
    intro he
    have := hfresh t1 (findDir_some h1).1
    rw [he, (hasNode_of_hasDir (findDir_some h1).2).1] at this; cases this
  have hib : newSlot c ≠ e.n2 := by
    intro he
    have := hfresh t1 (findDir_some h1).1
    rw [he, (hasNode_of_hasDir (findDir_some h1).2).2] at this; cases this
  have hfull' : FreeFull c' := by
    refine deleteFace_full M.h4 (deleteFace_full M.h3 ?_)
    intro i hi
    rw [M.ff2]
    refine hfull i ?_
    rw [M.S2, M.S1, List.getElem?_map, List.getElem?_map] at hi
    cases hgi : (slots c)[i]? with
    | none => rw [hgi] at hi; cases hi
    | some o =>
      cases o with
      | none => rfl
      | some t => rw [hgi] at hi; cases hi
  refine ⟨⟨F', I', hN', ?_, ?_, ?_, ⟨newSlot c, by rw [hu']; simp [hia, hib]⟩, hfull'⟩,
    M.chkOk H hInv lkA S' hchk, habs, t1, t2, h1, h2, hl, hfresh, htrack⟩
  · rw [habs]; exact collapse_inv hInv h1 h2 hl hfresh
  · rw [habs]; exact collapse_vmc hInv hV h1 h2 hl.1 hfresh
  · intro v hv
    rw [habs, collapse_verts hInv h1 h2 hl hfresh]
    rw [hu'] at hv
    simp only [Bool.and_eq_true, Bool.not_eq_true', decide_eq_false_iff_not, Bool.or_eq_true, decide_eq_true_eq] at hv
    obtain ⟨hvb, hva, hv⟩ := hv
    simp only [Finset.mem_insert, Finset.mem_erase]
    rcases hv with hv | hv
    · exact Or.inl hv
    · exact Or.inr ⟨hvb, hva, hcov v hv⟩

end

end Simu.Remesh
