import SimuVerif.Lemmas.RemeshMerge1
/-
  Part 2: renaming of one node in a triangle and its sides, the fan of faces around a node (`FanF`), and the
  statement-by-statement unrolling of one iteration of `replaceNode.loop`.
-/
set_option linter.unusedSectionVars false
set_option linter.unusedVariables false
set_option linter.unusedSimpArgs false
namespace Simu.Remesh
open Simu Simu.Surface
open Simu.C11 (bind_ok newSlot optOk)

/-! ## 1. renaming one node -/

/-- rename node `old` to `new` -/
def rn (old new x : Nat) : Nat := if x = old then new else x

def renT (old new : Nat) (t : Tri) : Tri := (rn old new t.1, rn old new t.2.1, rn old new t.2.2)

theorem rn_rn (a b i x : Nat) : rn b i (rn a i x) = ren a b i x := by
  unfold rn ren
  simp only [Bool.or_eq_true, beq_iff_eq]
  split_ifs <;> omega

/-- `t` consists of exactly the three pairwise different nodes `v, x, y` -/
def IsTri (t : Tri) (v x y : Nat) : Prop :=
  v ≠ x ∧ v ≠ y ∧ x ≠ y ∧ hasNode t v = true ∧ hasNode t x = true ∧ hasNode t y = true

theorem IsTri.perm {p q s v x y : Nat} (h : IsTri (p, q, s) v x y) :
    (p = v ∧ q = x ∧ s = y) ∨ (p = v ∧ q = y ∧ s = x) ∨ (p = x ∧ q = v ∧ s = y) ∨
    (p = x ∧ q = y ∧ s = v) ∨ (p = y ∧ q = v ∧ s = x) ∨ (p = y ∧ q = x ∧ s = v) := by
  obtain ⟨h1, h2, h3, hv, hx, hy⟩ := h
  rw [hasNode_iff] at hv hx hy
  dsimp only at hv hx hy
  rcases hv with hv | hv | hv <;> rcases hx with hx | hx | hx <;> rcases hy with hy | hy | hy <;>
    first
    | (exfalso; omega)
    | (subst hv; subst hx; subst hy; simp)

theorem IsTri.swap {t : Tri} {v x y : Nat} (h : IsTri t v x y) : IsTri t v y x :=
  ⟨h.2.1, h.1, Ne.symm h.2.2.1, h.2.2.2.1, h.2.2.2.2.2, h.2.2.2.2.1⟩

theorem IsTri.nondeg {t : Tri} {v x y : Nat} (h : IsTri t v x y) : t.1 ≠ t.2.1 ∧ t.2.1 ≠ t.2.2 ∧ t.2.2 ≠ t.1 := by
  obtain ⟨p, q, s⟩ := t
  have := h.perm
  obtain ⟨h1, h2, h3, _⟩ := h
  dsimp only
  omega

theorem IsTri.hasNode_iff' {t : Tri} {v x y : Nat} (h : IsTri t v x y) (z : Nat) :
    hasNode t z = true ↔ (z = v ∨ z = x ∨ z = y) := by
  obtain ⟨p, q, s⟩ := t
  have := h.perm
  rw [hasNode_iff]
  dsimp only
  omega

theorem mem_sideKeys (t : Tri) (k : Nat) :
    k ∈ sideKeys t ↔ (k = Edge.keyOf t.1 t.2.1 ∨ k = Edge.keyOf t.2.1 t.2.2 ∨ k = Edge.keyOf t.2.2 t.1) := by
  simp [sideKeys]

/-- the three sides of a triangle with nodes `v, x, y` -/
theorem IsTri.sideKeys_iff {t : Tri} {v x y : Nat} (h : IsTri t v x y) (k : Nat) :
    k ∈ sideKeys t ↔ (k = Edge.keyOf v x ∨ k = Edge.keyOf v y ∨ k = Edge.keyOf x y) := by
  obtain ⟨p, q, s⟩ := t
  rw [mem_sideKeys]
  dsimp only
  have c1 := Edge.keyOf_comm x v
  have c2 := Edge.keyOf_comm y v
  have c3 := Edge.keyOf_comm y x
  rcases h.perm with ⟨e1, e2, e3⟩ | ⟨e1, e2, e3⟩ | ⟨e1, e2, e3⟩ | ⟨e1, e2, e3⟩ | ⟨e1, e2, e3⟩ | ⟨e1, e2, e3⟩ <;>
    simp only [e1, e2, e3, c1, c2, c3] <;> tauto

/-- a side through `a` and `b` means that both are nodes -/
theorem hasNode_of_sideKey {t : Tri} {a b : Nat} (h : Edge.keyOf a b ∈ sideKeys t) :
    hasNode t a = true ∧ hasNode t b = true := by
  obtain ⟨p, q, s⟩ := t
  rw [mem_sideKeys] at h
  simp only [Edge.keyOf_eq_iff] at h
  rw [hasNode_iff, hasNode_iff]
  dsimp only at h ⊢
  omega

theorem sideKeys_renT (old new : Nat) (t : Tri) (k : Nat) :
    k ∈ sideKeys (renT old new t) ↔
      (k = Edge.keyOf (rn old new t.1) (rn old new t.2.1) ∨ k = Edge.keyOf (rn old new t.2.1) (rn old new t.2.2) ∨
        k = Edge.keyOf (rn old new t.2.2) (rn old new t.1)) := by
  rw [mem_sideKeys]; rfl

/-! ### one side under renaming -/

theorem side_rn_new {old new z x y : Nat} (hon : old ≠ new) (hzo : z ≠ old) (hzn : z ≠ new) :
    Edge.keyOf new z = Edge.keyOf (rn old new x) (rn old new y) ↔
      (Edge.keyOf old z = Edge.keyOf x y ∨ Edge.keyOf new z = Edge.keyOf x y) := by
  simp only [Edge.keyOf_eq_iff]
  unfold rn
  by_cases hx : x = old <;> by_cases hy : y = old <;> simp only [hx, hy, if_true, if_false, true_and, and_true] <;> constructor <;> intro hh <;> omega

theorem side_rn_old {old new z x y : Nat} (hon : old ≠ new) :
    Edge.keyOf old z ≠ Edge.keyOf (rn old new x) (rn old new y) := by
  simp only [ne_eq, Edge.keyOf_eq_iff]
  unfold rn
  by_cases hx : x = old <;> by_cases hy : y = old <;> simp only [hx, hy, if_true, if_false] <;> omega

theorem side_rn_loop {old new x y : Nat} (hon : old ≠ new) :
    Edge.keyOf new new = Edge.keyOf (rn old new x) (rn old new y) ↔
      (Edge.keyOf old old = Edge.keyOf x y ∨ Edge.keyOf old new = Edge.keyOf x y ∨
        Edge.keyOf new new = Edge.keyOf x y) := by
  simp only [Edge.keyOf_eq_iff]
  unfold rn
  by_cases hx : x = old <;> by_cases hy : y = old <;> simp only [hx, hy, if_true, if_false, true_and, and_true] <;> constructor <;> intro hh <;> first | omega | simp

theorem side_rn_other {old new k x y : Nat} (hon : old ≠ new) (h1 : ∀ z, k ≠ Edge.keyOf old z)
    (h2 : ∀ z, k ≠ Edge.keyOf new z) :
    k = Edge.keyOf (rn old new x) (rn old new y) ↔ k = Edge.keyOf x y := by
  unfold rn
  by_cases hx : x = old
  · subst hx
    simp only [if_true]
    constructor
    · intro h; exact absurd h (h2 _)
    · intro h; exact absurd h (h1 _)
  · by_cases hy : y = old
    · subst hy
      simp only [hx, if_true, if_false]
      constructor
      · intro h; rw [Edge.keyOf_comm] at h; exact absurd h (h2 _)
      · intro h; rw [Edge.keyOf_comm] at h; exact absurd h (h1 _)
    · simp only [hx, hy, if_false]

/-! ## 2. the fan of faces around a node -/

/-- **Fan, function form.**  Around node `v` there are exactly `k` live faces `F 1 … F k` (pairwise different
    slots), `F (j+1)` has the three different nodes `v, N j, N (j+1)`, the neighbours `N 0 … N (k-1)` are pairwise
    different and the fan closes up: `N k = N 0`, `F 0 = F k`.  `all`: no other live face contains `v`. -/
structure FanF (L : List (Option Tri)) (v k : Nat) (F N : Nat → Nat) : Prop where
  tri : ∀ j, j < k → ∃ t, L[F (j + 1)]? = some (some t) ∧ IsTri t v (N j) (N (j + 1))
  closeN : N k = N 0
  closeF : F 0 = F k
  injF : ∀ i j, 1 ≤ i → i ≤ k → 1 ≤ j → j ≤ k → F i = F j → i = j
  injN : ∀ i j, i < k → j < k → N i = N j → i = j
  all : ∀ g t, L[g]? = some (some t) → hasNode t v = true → ∃ j, j < k ∧ g = F (j + 1)

namespace FanF
variable {L : List (Option Tri)} {v k : Nat} {F N : Nat → Nat}

theorem N_ne (h : FanF L v k F N) {j : Nat} (hj : j < k) : N j ≠ v := by
  obtain ⟨t, _, ht⟩ := h.tri j hj
  exact Ne.symm ht.1

theorem two_le (h : FanF L v k F N) (hk : 0 < k) : 2 ≤ k := by
  obtain ⟨t, _, ht⟩ := h.tri 0 hk
  by_contra hlt
  have : k = 1 := by omega
  subst this
  exact ht.2.2.1 h.closeN.symm

theorem F_succ_ne (h : FanF L v k F N) {j : Nat} (hj : j < k) : F j ≠ F (j + 1) := by
  have h2 := h.two_le (by omega)
  intro he
  by_cases h0 : j = 0
  · subst h0
    rw [h.closeF] at he
    have := h.injF k 1 (by omega) (Nat.le_refl _) (Nat.le_refl _) (by omega) he
    omega
  · have := h.injF j (j + 1) (by omega) (by omega) (by omega) (by omega) he
    omega

/-- the face before the edge `{v, N j}` -/
theorem tri_prev (h : FanF L v k F N) {j : Nat} (hj : j < k) :
    ∃ t x, L[F j]? = some (some t) ∧ IsTri t v x (N j) := by
  by_cases h0 : j = 0
  · subst h0
    obtain ⟨t, ht, hT⟩ := h.tri (k - 1) (by omega)
    have e : k - 1 + 1 = k := by omega
    rw [e] at ht hT
    rw [h.closeF]
    rw [h.closeN] at hT
    exact ⟨t, _, ht, hT⟩
  · obtain ⟨t, ht, hT⟩ := h.tri (j - 1) (by omega)
    have e : j - 1 + 1 = j := by omega
    rw [e] at ht hT
    exact ⟨t, _, ht, hT⟩

/-- the live faces with the side `{v, N j}` are exactly `F j` and `F (j+1)` -/
theorem side (h : FanF L v k F N) {j : Nat} (hj : j < k) (g : Nat) :
    SideK L g (Edge.keyOf v (N j)) ↔ (g = F j ∨ g = F (j + 1)) := by
  constructor
  · rintro ⟨t, ht, hq⟩
    obtain ⟨m, hm, rfl⟩ := h.all g t ht (hasNode_of_sideKey hq).1
    obtain ⟨t', ht', hT⟩ := h.tri m hm
    rw [ht] at ht'; cases ht'
    rw [hT.sideKeys_iff] at hq
    have hv1 := hT.1
    have hv2 := hT.2.1
    have hvj := h.N_ne hj
    simp only [Edge.keyOf_eq_iff] at hq
    rcases hq with hq | hq | hq
    · have : N j = N m := by omega
      have := h.injN j m hj hm this
      subst this
      exact Or.inr rfl
    · have hjm : N j = N (m + 1) := by omega
      by_cases hm1 : m + 1 < k
      · have := h.injN j (m + 1) hj hm1 hjm
        subst this
        exact Or.inl rfl
      · have e : m + 1 = k := by omega
        rw [e, h.closeN] at hjm
        have := h.injN j 0 hj (by omega) hjm
        subst this
        rw [e]
        exact Or.inl h.closeF.symm
    · omega
  · rintro (rfl | rfl)
    · obtain ⟨t, x, ht, hT⟩ := h.tri_prev hj
      exact ⟨t, ht, (hT.sideKeys_iff _).2 (Or.inr (Or.inl rfl))⟩
    · obtain ⟨t, ht, hT⟩ := h.tri j hj
      exact ⟨t, ht, (hT.sideKeys_iff _).2 (Or.inl rfl)⟩

/-- a side at `v` leads to a neighbour of the fan -/
theorem side_nbr (h : FanF L v k F N) {g z : Nat} (hs : SideK L g (Edge.keyOf v z)) : ∃ j, j < k ∧ z = N j := by
  obtain ⟨t, ht, hq⟩ := hs
  obtain ⟨m, hm, rfl⟩ := h.all g t ht (hasNode_of_sideKey hq).1
  obtain ⟨t', ht', hT⟩ := h.tri m hm
  rw [ht] at ht'; cases ht'
  rw [hT.sideKeys_iff] at hq
  have hv1 := hT.1
  have hv2 := hT.2.1
  simp only [Edge.keyOf_eq_iff] at hq
  rcases hq with hq | hq | hq
  · exact ⟨m, hm, by omega⟩
  · by_cases hm1 : m + 1 < k
    · exact ⟨m + 1, hm1, by omega⟩
    · have e : m + 1 = k := by omega
      rw [e, h.closeN] at hq
      exact ⟨0, by omega, by omega⟩
  · omega

end FanF

/-! ## 3. one iteration of `replaceNode.loop`, statement by statement -/
section
variable {R : Type} [Add R] [Sub R] [Mul R] [Div R] [Neg R] [Lit R] [LT R] [LE R] [DecidableLT R]
  [DecidableLE R] [DecidableEq R]

/-- `start_edge.f1() == x || start_edge.f2() == x` -/
def isStartF (start : Edge) (x : Nat) : Bool := some x == start.f1 || some x == start.f2

/-- the entry written back when the renamed edge already exists (the branch `!insertion_success`) -/
def mergedEntry (start st : Edge) (g1 g2 oldFace fid : Nat) : Edge :=
  ⟨st.n1, st.n2,
    some (if isStartF start g1 = true then (if isStartF start oldFace = true then fid else oldFace) else g1),
    some (if isStartF start g2 = true then (if isStartF start oldFace = true then fid else oldFace) else g2)⟩

/-- the face store after the node of face `fid` has been replaced -/
def stepFaces (fn : Fn R) (c : Cell R) (fid : Nat) (f : Face R) (old new : Nat) : Cell R :=
  updFaceGeom fn ({ c with faces := c.faces.set! fid (faceReplaceNode f old new) } : Cell R) fid

/-- the renamed copy of the edge -/
def renEdge (e : Edge) (old new : Nat) : Edge :=
  Edge.mk' (if e.n1 == old then new else e.n1) (if e.n2 == old then new else e.n2) e.f1 e.f2

theorem loop_unroll {fn : Fn R} {start : Edge} {old new fuel : Nat} {c : Cell R} {e : Edge} {faceId : Nat}
    {del cre : List Edge} {r : Cell R × List Edge × List Edge}
    (h : replaceNode.loop fn start old new (fuel + 1) c (some e) faceId del cre = .ok r) :
    ∃ fid f ef1 ef2, e.otherFace faceId = .ok fid ∧ c.faces[fid]? = some f ∧ e.f1 = some ef1 ∧ e.f2 = some ef2 ∧
    ∃ s2 stored,
      (((EdgeSet.insert (stepFaces fn c fid f old new).edges (renEdge e old new)).2.2 = true ∧
          s2 = (EdgeSet.insert (stepFaces fn c fid f old new).edges (renEdge e old new)).1 ∧
          stored = (EdgeSet.insert (stepFaces fn c fid f old new).edges (renEdge e old new)).2.1) ∨
       ((EdgeSet.insert (stepFaces fn c fid f old new).edges (renEdge e old new)).2.2 = false ∧ ∃ g1 g2,
          (EdgeSet.insert (stepFaces fn c fid f old new).edges (renEdge e old new)).2.1.f1 = some g1 ∧
          (EdgeSet.insert (stepFaces fn c fid f old new).edges (renEdge e old new)).2.1.f2 = some g2 ∧
          stored = mergedEntry start (EdgeSet.insert (stepFaces fn c fid f old new).edges (renEdge e old new)).2.1
            g1 g2 faceId fid ∧
          s2 = EdgeSet.update (EdgeSet.insert (stepFaces fn c fid f old new).edges (renEdge e old new)).1 stored)) ∧
    ∃ f', (stepFaces fn c fid f old new).faces[fid]? = some f' ∧
      ((oppositeNode f' stored.n1 stored.n2 = none ∧
          r = ({ stepFaces fn c fid f old new with edges := EdgeSet.erase s2 e.key }, del ++ [e], cre ++ [stored])) ∨
       ∃ opp, oppositeNode f' stored.n1 stored.n2 = some opp ∧
         ((getEdge ({ stepFaces fn c fid f old new with edges := EdgeSet.erase s2 e.key } : Cell R) old opp = none ∧
            r = ({ stepFaces fn c fid f old new with edges := EdgeSet.erase s2 e.key }, del ++ [e], cre ++ [stored])) ∨
          ∃ nxt, getEdge ({ stepFaces fn c fid f old new with edges := EdgeSet.erase s2 e.key } : Cell R) old opp
              = some nxt ∧
            replaceNode.loop fn start old new fuel
              ({ stepFaces fn c fid f old new with edges := EdgeSet.erase s2 e.key } : Cell R) (some nxt) fid
              (del ++ [e]) (cre ++ [stored]) = .ok r)) := by
  unfold replaceNode.loop at h
  simp only [] at h
  obtain ⟨fid, h1, h⟩ := bind_ok h
  obtain ⟨f, h2, h⟩ := bind_ok h
  obtain ⟨ef1, h3, h⟩ := bind_ok h
  obtain ⟨ef2, h4, h⟩ := bind_ok h
  obtain ⟨⟨s2, stored⟩, h5, h⟩ := bind_ok h
  obtain ⟨f', h6, h⟩ := bind_ok h
  have e0 : c.faces[fid]? = some f := by opt_ok h2
  have e1 : e.f1 = some ef1 := by opt_ok h3
  have e2 : e.f2 = some ef2 := by opt_ok h4
  have hne : Edge.mk' (if (e.n1 == old) = true then new else e.n1) (if (e.n2 == old) = true then new else e.n2)
      (some ef1) (some ef2) = renEdge e old new := by
    unfold renEdge; rw [e1, e2]
  rw [hne] at h5
  refine ⟨fid, f, ef1, ef2, h1, e0, e1, e2, s2, stored, ?_, f', by opt_ok h6, ?_⟩
  · split at h5
    · rename_i hb
      cases h5
      exact Or.inl ⟨hb, rfl, rfl⟩
    · rename_i hb
      obtain ⟨g1, hg1, h5⟩ := bind_ok h5
      obtain ⟨g2, hg2, h5⟩ := bind_ok h5
      cases h5
      exact Or.inr ⟨Bool.eq_false_iff.2 hb, g1, g2, by opt_ok hg1, by opt_ok hg2, rfl, rfl⟩
  · simp only at h
    split at h
    · rename_i ho
      cases h
      exact Or.inl ⟨ho, rfl⟩
    · rename_i opp ho
      refine Or.inr ⟨opp, ho, ?_⟩
      split at h
      · rename_i hg
        cases h
        exact Or.inl ⟨hg, rfl⟩
      · rename_i nxt hg
        exact Or.inr ⟨nxt, hg, h⟩

end

end Simu.Remesh
