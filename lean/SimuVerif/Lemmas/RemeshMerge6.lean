import SimuVerif.Lemmas.RemeshMerge5
/-
  Part 6: `merge_edge` = add_node, two `replace_node` walks, two `delete_face` calls.  `mergeEdge_slots`: slot by slot,
  the face store after `mergeEdge` is the abstract collapse; the index is sound and complete again.
-/
set_option linter.unusedSectionVars false
set_option linter.unusedVariables false
set_option linter.unusedSimpArgs false
namespace Simu.Remesh
open Simu Simu.Surface
open Simu.C11 (bind_ok newSlot)

section
variable {R : Type} [Add R] [Sub R] [Mul R] [Div R] [Neg R] [Lit R] [LT R] [LE R] [DecidableLT R]
  [DecidableLE R] [DecidableEq R]

theorem edges_addNode (c : Cell R) (p m : V3 R) : (addNode c p m).1.edges = c.edges := by
  unfold addNode; cases c.freeNodes <;> rfl

/-- the triangle after the collapse of `{a,b}` into `i` -/
def colTri (a b i : Nat) (t : Tri) : Tri := (ren a b i t.1, ren a b i t.2.1, ren a b i t.2.2)

theorem renT_renT (a b i : Nat) (t : Tri) : renT b i (renT a i t) = colTri a b i t := by
  unfold renT colTri
  simp only [rn_rn]

/-- **Hypotheses of the collapse** of the edge `e = {a, b}`, `a = e.n1`, `b = e.n2`, in the cell `c`.

  * `idx`    the edge index is sound and complete (`EdgeIdxComplete`);
  * `ffo`    the free list of face slots is consistent (`FaceFreeOk`);
  * `entry`  the edge handed to `merge_edge` is a copy kept in the check set; the index entry `E` of `{a,b}` names the same
             two faces, possibly in the other order (this happens in `refine_mesh`); the first face of `E` is `FB 0`;
  * `fanA`   vertex-manifoldness at `a`: the live faces containing `a` form one fan `FA 1 … FA kA` with neighbours
             `NA 0 … NA (kA-1)`, aligned with the edge: `NA 0 = b` and `FA 0 = FA kA` is the FIRST face `e.f1` of the edge;
  * `fanB`   the same at `b`: `NB 0 = a`, `FB 0 = FB kB` is the first face of the INDEX ENTRY (the second walk starts from
             the renamed index entry);
  * `kB3`, `link`  the link condition in fan form: `b` has at least 3 faces and none of `NB 2 … NB (kB-2)` is joined to
             `a` by an edge (the common neighbours of `a` and `b` are only `NB 1` and `NB (kB-1)`);
  * `fresh`  the slot that `add_node` hands out occurs in no live face. -/
structure MergeHyp (c : Cell R) (e : Edge) (kA kB : Nat) (FA NA FB NB : Nat → Nat) : Prop where
  idx : EdgeIdxComplete c
  ffo : FaceFreeOk c
  entry : ∃ E, getEdge c e.n1 e.n2 = some E ∧ E.f1 = some (FB 0) ∧
    ((E.f1 = e.f1 ∧ E.f2 = e.f2) ∨ (E.f1 = e.f2 ∧ E.f2 = e.f1))
  fanA : FanF (slots c) e.n1 kA FA NA
  fanB : FanF (slots c) e.n2 kB FB NB
  kA0 : 0 < kA
  nA0 : NA 0 = e.n2
  nB0 : NB 0 = e.n1
  fA0 : e.f1 = some (FA 0)
  kB3 : 3 ≤ kB
  link : ∀ m, 2 ≤ m → m + 2 ≤ kB → ∀ g, ¬ SideK (slots c) g (Edge.keyOf e.n1 (NB m))
  fresh : FreshNode c (newSlot c)

/-- the end of `merge_edge`: the two doomed faces are deleted, in either order -/
theorem merge_tail {c2 c3 c' : Cell R} {L1 : List (Option Tri)} {start : Edge} {old new k : Nat} {F N : Nat → Nat}
    (H2 : Walk2Hyp L1 start old new k F N) (S2 : slots c2 = L1.map (Option.map (renT old new)))
    (I2 : IdxP (Pj old new N (SideK L1) (Q2 old new k F N (SideK L1)) k) c2.edges) (ffo2 : FaceFreeOk c2)
    {x y : Nat} (hxy : (x = F k ∧ y = F 1) ∨ (x = F 1 ∧ y = F k))
    (h3 : deleteFace c2 x = .ok c3) (h4 : deleteFace c3 y = .ok c') :
    slots c' = ((L1.map (Option.map (renT old new))).set (F k) none).set (F 1) none ∧
      IdxP (SideK (slots c')) c'.edges ∧ FaceFreeOk c' := by
  have hk3 := H2.k3
  have hk1 : F k ≠ F 1 := by
    intro he
    have := H2.fan.injF k 1 (by omega) (by omega) (by omega) (by omega) he
    omega
  obtain ⟨tk, htk, _⟩ := H2.fan.tri (k - 1) (by omega)
  have ekk : k - 1 + 1 = k := by omega
  rw [ekk] at htk
  obtain ⟨t1, ht1, _⟩ := H2.fan.tri 0 (by omega)
  have ht1' : L1[F 1]? = some (some t1) := ht1
  have sk2 : (slots c2)[F k]? = some (some (renT old new tk)) := by
    rw [S2, List.getElem?_map, htk]; rfl
  have s12 : (slots c2)[F 1]? = some (some (renT old new t1)) := by
    rw [S2, List.getElem?_map, ht1']; rfl
  rcases hxy with ⟨rfl, rfl⟩ | ⟨rfl, rfl⟩
  · obtain ⟨fK, hfK, _, htK⟩ := slot_some_iff.1 sk2
    have D3 := deleteFace_spec h3 sk2
    have P3 := deleteFace_idxP h3 hfK I2
    have s13 : (slots c3)[F 1]? = some (some (renT old new t1)) := by
      rw [D3.slots_eq, List.getElem?_set_ne hk1]; exact s12
    obtain ⟨f1, hf1', _, htf1⟩ := slot_some_iff.1 s13
    have D4 := deleteFace_spec h4 s13
    have P4 := deleteFace_idxP h4 hf1' P3
    have S4 : slots c' = ((L1.map (Option.map (renT old new))).set (F k) none).set (F 1) none := by
      rw [D4.slots_eq, D3.slots_eq, S2]
    refine ⟨S4, ?_, D4.ffo (D3.ffo ffo2)⟩
    rw [S4]
    refine P4.congr (fun g q => ?_)
    rw [htK, htf1]
    exact final2 H2 ht1' htk g q
  · obtain ⟨f1, hf1', _, htf1⟩ := slot_some_iff.1 s12
    have D3 := deleteFace_spec h3 s12
    have P3 := deleteFace_idxP h3 hf1' I2
    have sk3 : (slots c3)[F k]? = some (some (renT old new tk)) := by
      rw [D3.slots_eq, List.getElem?_set_ne (Ne.symm hk1)]; exact sk2
    obtain ⟨fK, hfK, _, htK⟩ := slot_some_iff.1 sk3
    have D4 := deleteFace_spec h4 sk3
    have P4 := deleteFace_idxP h4 hfK P3
    have S4 : slots c' = ((L1.map (Option.map (renT old new))).set (F k) none).set (F 1) none := by
      rw [D4.slots_eq, D3.slots_eq, S2]
      exact List.set_comm _ _ (Ne.symm hk1)
    refine ⟨S4, ?_, D4.ffo (D3.ffo ffo2)⟩
    rw [S4]
    refine P4.congr (fun g q => ?_)
    rw [htK, htf1, and_right_comm]
    exact final2 H2 ht1' htk g q

/-- **`merge_edge`, slot by slot.**  Every face slot that held a triangle containing both end nodes is now unused,
    in every other live slot the two end nodes are renamed to the new node; the index is sound and complete for the
    new face store and the free list of face slots is consistent. -/
theorem mergeEdge_slots {fn : Fn R} {k : SplitConsts R} {c c' : Cell R} {e : Edge} {chk chk' : CheckSet}
    {kA kB : Nat} {FA NA FB NB : Nat → Nat}
    (h : mergeEdge fn k c e chk = .ok (c', chk')) (H : MergeHyp c e kA kB FA NA FB NB) :
    slots c' = (slots c).map (colOpt (fun t => hasNode t e.n1 && hasNode t e.n2) (colTri e.n1 e.n2 (newSlot c))) ∧
      EdgeIdxComplete c' ∧ FaceFreeOk c' := by
  obtain ⟨hI, hffo, ⟨E, hE, hEf1, hord⟩, fanA, fanB, kA0, nA0, nB0, fA0, kB3, hlink, hfresh⟩ := H
  have hkB0 : 0 < kB := by omega
  -- basic facts
  obtain ⟨tA, htA, hTA⟩ := fanA.tri 0 kA0
  have hab : e.n1 ≠ e.n2 := by rw [← nA0]; exact hTA.1
  have hfa : hasNode tA (newSlot c) = false := hfresh _ _ htA
  have hai : e.n1 ≠ newSlot c := by
    intro he; rw [← he, hTA.2.2.2.1] at hfa; cases hfa
  have hbi : e.n2 ≠ newSlot c := by
    intro he; rw [← he, ← nA0, hTA.2.2.2.2.1] at hfa; cases hfa
  -- the entry of the edge
  have hentry' : EdgeSet.find? c.edges (Edge.keyOf e.n1 e.n2) = some E := hE
  obtain ⟨ek, ele, ewf, eP⟩ := hI.of_find hentry'
  have eF : ∀ g, E.hasFace g = true ↔ (g = FB 0 ∨ g = FB 1) := by
    intro g
    rw [eP g]
    have := fanB.side hkB0 g
    rw [nB0, Edge.keyOf_comm] at this
    exact this
  have ef2 : E.f2 = some (FB 1) := second_face ewf eF (fanB.F_succ_ne hkB0) hEf1
  have hk1 : FB kB ≠ FB 1 := by
    intro he
    have := fanB.injF kB 1 (by omega) (by omega) (by omega) (by omega) he
    omega
  -- the run
  unfold mergeEdge at h
  simp only [] at h
  bok h with f1id, hf1
  bok h with f2id, hf2
  bok h with na, hna
  bok h with nb, hnb
  have e1 : e.f1 = some f1id := by opt_ok hf1
  have e2 : e.f2 = some f2id := by opt_ok hf2
  have hxy : (f1id = FB kB ∧ f2id = FB 1) ∨ (f1id = FB 1 ∧ f2id = FB kB) := by
    rcases hord with ⟨o1, o2⟩ | ⟨o1, o2⟩
    · left
      rw [← o1, hEf1] at e1; rw [← o2, ef2] at e2
      cases e1; cases e2
      exact ⟨fanB.closeF, rfl⟩
    · right
      rw [← o2, ef2] at e1; rw [← o1, hEf1] at e2
      cases e1; cases e2
      exact ⟨rfl, fanB.closeF⟩
  generalize hr : addNode c _ _ = r at h
  obtain ⟨c0, i⟩ := r
  simp only [] at h
  have hi : i = newSlot c := by
    have := addNode_snd' c ((nb.pos + na.pos) * k.mid) (na.mom + nb.mom)
    rw [hr] at this; exact this
  subst hi
  have hc0 : c0 = (addNode c ((nb.pos + na.pos) * k.mid) (na.mom + nb.mom)).1 := by rw [hr]
  have hS0 : slots c0 = slots c := by rw [hc0]; unfold slots; rw [(faces_addNode _ _ _).1]
  have hE0 : c0.edges = c.edges := by rw [hc0]; exact edges_addNode _ _ _
  have hF0 : c0.freeFaces = c.freeFaces := by rw [hc0]; exact (faces_addNode _ _ _).2
  bok h with ⟨c1, delA, creA⟩, hA
  bok h with ebi, hebi
  bok h with ⟨c2, delB, creB⟩, hB
  bok h with c3, h3
  bok h with c4, h4
  cases h
  -- the first walk
  have hI0 : EdgeIdxComplete c0 := edgeIdxComplete_congr hS0 hE0 hI
  have fanA0 : FanF (slots c0) e.n1 kA FA NA := by rw [hS0]; exact fanA
  have hfresh0 : FreshNode c0 (newSlot c) := by
    intro g t ht; rw [hS0] at ht; exact hfresh g t ht
  obtain ⟨S1, I1, _, _, FF1, e0, ne, q1, q2, q3, q4⟩ :=
    replaceNode_abs hA hI0 fanA0 kA0 fA0 (by rw [nA0]) hai hfresh0
  rw [hS0] at S1
  rw [hE0, nA0, hentry'] at q1
  cases q1
  rw [nA0] at q2
  have hebi' : getEdge c1 e.n2 (newSlot c) = some ebi := by opt_ok hebi
  rw [getEdge_eq, Edge.keyOf_comm, q2] at hebi'
  cases hebi'
  -- the hypotheses of the second walk
  have fanB1 : FanF (slots c1) e.n2 kB FB (fun j => rn e.n1 (newSlot c) (NB j)) := by
    rw [S1]; exact fanB.rename (Ne.symm hab) hbi hfresh
  have hNB0 : rn e.n1 (newSlot c) (NB 0) = newSlot c := by rw [nB0]; unfold rn; simp
  have hNBnew : ∀ m, m < kB → NB m ≠ newSlot c := by
    intro m hm he
    obtain ⟨t, ht, hT⟩ := fanB.tri m hm
    have := hfresh _ _ ht
    rw [(hT.hasNode_iff' _).2 (Or.inr (Or.inl he.symm))] at this; cases this
  have H2 : Walk2Hyp (slots c1) ebi e.n2 (newSlot c) kB FB (fun j => rn e.n1 (newSlot c) (NB j)) := by
    refine ⟨fanB1, kB3, hNB0, hbi, by rw [q3, hEf1], by rw [q4, ef2], ?_, ?_⟩
    · intro g hs
      rw [S1, sideK_map] at hs
      obtain ⟨t, ht, hq⟩ := hs
      rcases side_loop_of_renT hai hq with hh | hh | hh
      · have ha := (hasNode_of_sideKey hh).1
        obtain ⟨j, hj, rfl⟩ := fanA.all g t ht ha
        obtain ⟨t', ht', hT⟩ := fanA.tri j hj
        rw [ht] at ht'; cases ht'
        exact hT.no_loop_side hh
      · have := (hasNode_of_sideKey hh).2
        rw [hfresh g t ht] at this; cases this
      · have := (hasNode_of_sideKey hh).1
        rw [hfresh g t ht] at this; cases this
    · intro m h2 h3 g hs
      rw [S1, sideK_map] at hs
      obtain ⟨t, ht, hq⟩ := hs
      have hNm : NB m ≠ e.n1 := by
        intro he; rw [← nB0] at he
        have := fanB.injN m 0 (by omega) hkB0 he
        omega
      have hq' : Edge.keyOf (newSlot c) (NB m) ∈ sideKeys (renT e.n1 (newSlot c) t) := by
        have : rn e.n1 (newSlot c) (NB m) = NB m := rn_of_ne hNm
        rw [← this]; exact hq
      rcases side_new_of_renT hai hNm (hNBnew m (by omega)) hq' with hh | hh
      · exact hlink m h2 h3 g ⟨t, ht, hh⟩
      · have := (hasNode_of_sideKey hh).1
        rw [hfresh g t ht] at this; cases this
  have hkey2 : Edge.keyOf ebi.n1 ebi.n2 = Edge.keyOf e.n2 (rn e.n1 (newSlot c) (NB 0)) := by
    obtain ⟨bk, ble, _, _⟩ := I1.of_find q2
    rw [← Edge.key_eq_keyOf ble, bk, hNB0]
    exact Edge.keyOf_comm _ _
  obtain ⟨S2, I2, FF2⟩ := replaceNode_abs2 hB I1 H2 hkey2
  -- the free list
  have ffo2 : FaceFreeOk c2 := by
    have hff : c2.freeFaces = c.freeFaces := FF2.trans (FF1.trans hF0)
    refine FaceFreeOk.of_slots ?_ (by rw [hff]; exact hffo.nodup)
    intro j hj
    rw [hff] at hj
    rw [S2, S1, List.getElem?_map, List.getElem?_map, hffo.slot hj]; rfl
  -- the two deletions
  obtain ⟨S4, I4, F4⟩ := merge_tail H2 S2 I2 ffo2 hxy h3 h4
  have ekk : kB - 1 + 1 = kB := by omega
  refine ⟨?_, I4, F4⟩
  · -- the slots
    rw [S4, S1]
    apply List.ext_getElem?
    intro g
    rw [List.getElem?_map]
    by_cases hg1 : g = FB 1
    · subst hg1
      obtain ⟨t, ht, hT⟩ := fanB.tri 0 hkB0
      have ht' : (slots c)[FB 1]? = some (some t) := ht
      have hlt : FB 1 < (slots c).length := (List.getElem?_eq_some_iff.1 ht').1
      rw [List.getElem?_set_self (by simp [hlt]), ht']
      have hp : (hasNode t e.n1 && hasNode t e.n2) = true := by
        rw [nB0] at hT
        rw [hT.2.2.2.1, hT.2.2.2.2.1]; rfl
      simp [colOpt]
      simpa using hp
    · rw [List.getElem?_set_ne (Ne.symm hg1)]
      by_cases hgk : g = FB kB
      · subst hgk
        obtain ⟨t, ht, hT⟩ := fanB.tri (kB - 1) (by omega)
        rw [ekk, fanB.closeN, nB0] at hT
        rw [ekk] at ht
        have hlt : FB kB < (slots c).length := (List.getElem?_eq_some_iff.1 ht).1
        rw [List.getElem?_set_self (by simp [hlt]), ht]
        have hp : (hasNode t e.n1 && hasNode t e.n2) = true := by
          rw [hT.2.2.2.1, hT.2.2.2.2.2]; rfl
        simp [colOpt]
        simpa using hp
      · rw [List.getElem?_set_ne (Ne.symm hgk), List.getElem?_map, List.getElem?_map]
        cases hgt : (slots c)[g]? with
        | none => rfl
        | some o =>
          cases o with
          | none => rfl
          | some t =>
            have hp : (hasNode t e.n1 && hasNode t e.n2) = false := by
              rw [Bool.eq_false_iff]
              intro hp
              simp only [Bool.and_eq_true] at hp
              obtain ⟨m, hm, rfl⟩ := fanB.all g t hgt hp.2
              obtain ⟨t', ht', hT⟩ := fanB.tri m hm
              rw [hgt] at ht'; cases ht'
              rcases (hT.hasNode_iff' e.n1).1 hp.1 with he | he | he
              · exact hab he
              · rw [← nB0] at he
                have := fanB.injN 0 m hkB0 hm he
                subst this
                exact hg1 rfl
              · by_cases hm1 : m + 1 < kB
                · rw [← nB0] at he
                  have := fanB.injN 0 (m + 1) hkB0 hm1 he
                  omega
                · have : m + 1 = kB := by omega
                  exact hgk (by rw [this])
            simp [colOpt, renT_renT]
            simpa using hp

/-- `abs` of a cell in terms of its slots, for the collapse -/
theorem abs_of_collapse_slots {c c' : Cell R} {a b i : Nat}
    (h : slots c' = (slots c).map (colOpt (fun t => hasNode t a && hasNode t b) (colTri a b i))) :
    abs c' = collapseT (abs c) a b i := by
  rw [abs_eq_live, abs_eq_live, h, live_collapse]
  rfl

/-- **`merge_edge` refines `collapseT`** — as LISTS: no permutation and no rotation is needed, the live triangles after
    `merge_edge` are, in slot order, exactly the abstract collapse at the slot handed out by `add_node`. -/
theorem mergeEdge_abs {fn : Fn R} {k : SplitConsts R} {c c' : Cell R} {e : Edge} {chk chk' : CheckSet}
    {kA kB : Nat} {FA NA FB NB : Nat → Nat}
    (h : mergeEdge fn k c e chk = .ok (c', chk')) (H : MergeHyp c e kA kB FA NA FB NB) :
    abs c' = collapseT (abs c) e.n1 e.n2 (newSlot c) :=
  abs_of_collapse_slots (mergeEdge_slots h H).1

/-- **`merge_edge` refines `collapseT`**, in the form asked for -/
theorem mergeEdge_refines {fn : Fn R} {k : SplitConsts R} {c c' : Cell R} {e : Edge} {chk chk' : CheckSet}
    {kA kB : Nat} {FA NA FB NB : Nat → Nat}
    (h : mergeEdge fn k c e chk = .ok (c', chk')) (H : MergeHyp c e kA kB FA NA FB NB) :
    TriEquiv (abs c') (collapseT (abs c) e.n1 e.n2 (newSlot c)) ∧ FaceFreeOk c' ∧ EdgeIdxComplete c' := by
  rw [mergeEdge_abs h H]
  exact ⟨TriEquiv.refl _, (mergeEdge_slots h H).2.2, (mergeEdge_slots h H).2.1⟩

end

end Simu.Remesh
