import SimuVerif.Lemmas.RemeshRefine
/-
  `Array.qsort` sorts (for `Nat` with `<`).  Core / Batteries / Mathlib have no such lemma at this version;
  `RemeshRefine.lean` proves that the result is a permutation, this file proves that it is sorted, so that
  `sortNat` — used by `can_be_merged` — returns the sorted list: the hypothesis `SortSpec` of the guard theorems
  (`RemeshMerge9.lean`) holds for every list (`sortSpec`).

  Method: `RS as as' lo hi` — outside `[lo, hi]` nothing changed and every value inside comes from a value inside —
  is all that is needed about the rearrangements (no multisets).  `qpartition` (median of three, then a Lomuto
  partition loop) returns `m < hi` with everything in `[lo, m)` below the pivot `as'[m]` and everything in `(m, hi]`
  not below it; the branch `mid ≥ hi` of `qsort.sort` is dead code for `lo < hi`.
-/
set_option linter.unusedSectionVars false
set_option linter.unusedVariables false
open private Array.qsort.sort Array.qpartition.loop from Init.Data.Array.QSort.Basic
namespace Simu.Remesh.QS

/-- the comparison `sortNat` uses -/
abbrev ltN : Nat → Nat → Bool := fun x y => decide (x < y)

variable {n : Nat}

/-- range-stable rearrangement -/
def RS (as as' : Vector Nat n) (lo hi : Nat) : Prop :=
  (∀ i (h : i < n), (i < lo ∨ hi < i) → as'[i] = as[i]) ∧
  (∀ i (h : i < n), lo ≤ i → i ≤ hi → ∃ j, ∃ (hj : j < n), lo ≤ j ∧ j ≤ hi ∧ as'[i] = as[j])

theorem RS.refl (as : Vector Nat n) (lo hi : Nat) : RS as as lo hi :=
  ⟨fun _ _ _ => rfl, fun i h h1 h2 => ⟨i, h, h1, h2, rfl⟩⟩

theorem RS.trans {as bs cs : Vector Nat n} {lo hi : Nat} (h1 : RS as bs lo hi) (h2 : RS bs cs lo hi) :
    RS as cs lo hi := by
  refine ⟨fun i h ho => (h2.1 i h ho).trans (h1.1 i h ho), fun i h a b => ?_⟩
  obtain ⟨j, hj, a1, b1, e1⟩ := h2.2 i h a b
  obtain ⟨j', hj', a2, b2, e2⟩ := h1.2 j hj a1 b1
  exact ⟨j', hj', a2, b2, e1.trans e2⟩

theorem RS.mono {as bs : Vector Nat n} {lo hi lo' hi' : Nat} (h : RS as bs lo' hi') (hl : lo ≤ lo') (hh : hi' ≤ hi) :
    RS as bs lo hi := by
  refine ⟨fun i hi0 ho => h.1 i hi0 (by omega), fun i hi0 a b => ?_⟩
  by_cases hin : lo' ≤ i ∧ i ≤ hi'
  · obtain ⟨j, hj, a1, b1, e1⟩ := h.2 i hi0 hin.1 hin.2
    exact ⟨j, hj, by omega, by omega, e1⟩
  · exact ⟨i, hi0, a, b, h.1 i hi0 (by omega)⟩

theorem RS.swap (as : Vector Nat n) {lo hi i j : Nat} (hi' : i < n) (hj' : j < n) (h1 : lo ≤ i) (h2 : i ≤ hi)
    (h3 : lo ≤ j) (h4 : j ≤ hi) : RS as (as.swap i j hi' hj') lo hi := by
  refine ⟨fun k hk ho => Vector.getElem_swap_of_ne (by omega) (by omega), fun k hk a b => ?_⟩
  rw [Vector.getElem_swap hi' hj' hk]
  by_cases e1 : k = i
  · rw [if_pos e1]; exact ⟨j, hj', h3, h4, rfl⟩
  · rw [if_neg e1]
    by_cases e2 : k = j
    · rw [if_pos e2]; exact ⟨i, hi', h1, h2, rfl⟩
    · rw [if_neg e2]; exact ⟨k, hk, a, b, rfl⟩

theorem RS.ite_swap (as : Vector Nat n) {lo hi i j : Nat} (c : Bool) (hi' : i < n) (hj' : j < n) (h1 : lo ≤ i)
    (h2 : i ≤ hi) (h3 : lo ≤ j) (h4 : j ≤ hi) :
    RS as (if c = true then as.swap i j hi' hj' else as) lo hi := by
  split
  · exact RS.swap as hi' hj' h1 h2 h3 h4
  · exact RS.refl _ _ _

/-- the partition loop -/
theorem loop_spec (lo hi : Nat) (hhi : hi < n) (pivot : Nat) :
    ∀ (d : Nat) (as : Vector Nat n) (i k : Nat) (ilo : lo ≤ i) (ik : i ≤ k) (w : k ≤ hi), hi - k = d →
      as[hi] = pivot →
      (∀ x (hx : x < n), lo ≤ x → x < i → as[x] < pivot) →
      (∀ x (hx : x < n), i ≤ x → x < k → pivot ≤ as[x]) →
      (∃ q, ∃ (hq : q < n), i ≤ q ∧ q < hi ∧ pivot ≤ as[q]) →
      RS as (Array.qpartition.loop ltN lo hi hhi pivot as i k ilo ik w).2 lo hi ∧
      ∃ (hm : (Array.qpartition.loop ltN lo hi hhi pivot as i k ilo ik w).1.1 < hi),
        (Array.qpartition.loop ltN lo hi hhi pivot as i k ilo ik w).2[
          (Array.qpartition.loop ltN lo hi hhi pivot as i k ilo ik w).1.1] = pivot ∧
        (∀ x (hx : x < n), lo ≤ x → x < (Array.qpartition.loop ltN lo hi hhi pivot as i k ilo ik w).1.1 →
          (Array.qpartition.loop ltN lo hi hhi pivot as i k ilo ik w).2[x] < pivot) ∧
        (∀ x (hx : x < n), (Array.qpartition.loop ltN lo hi hhi pivot as i k ilo ik w).1.1 < x → x ≤ hi →
          pivot ≤ (Array.qpartition.loop ltN lo hi hhi pivot as i k ilo ik w).2[x]) := by
  intro d
  induction d with
  | zero =>
    intro as i k ilo ik w hd hp hb hc hq
    rw [Array.qpartition.loop.eq_def]
    have hk : ¬ k < hi := by omega
    have hkk : k = hi := by omega
    subst hkk
    simp only [hk, dite_false]
    obtain ⟨q, hqn, q1, q2, q3⟩ := hq
    have hin : i < n := by omega
    refine ⟨RS.swap as hin hhi ilo (by omega) (by omega) (Nat.le_refl _), by omega, ?_, ?_, ?_⟩
    · rw [Vector.getElem_swap_left]; exact hp
    · intro x hx a b
      rw [Vector.getElem_swap_of_ne (by omega) (by omega)]
      exact hb x hx a b
    · intro x hx a b
      by_cases hxk : x = k
      · subst hxk
        rw [Vector.getElem_swap_right]
        exact hc i hin (Nat.le_refl _) (by omega)
      · rw [Vector.getElem_swap_of_ne (by omega) hxk]
        exact hc x hx (by omega) (by omega)
  | succ d ih =>
    intro as i k ilo ik w hd hp hb hc hq
    rw [Array.qpartition.loop.eq_def]
    have hk : k < hi := by omega
    have hkn : k < n := by omega
    have hin : i < n := by omega
    simp only [hk, dite_true]
    obtain ⟨q, hqn, q1, q2, q3⟩ := hq
    split
    · rename_i hlt
      have hlt' : as[k] < pivot := by simpa [ltN] using hlt
      have IH := ih (as.swap i k hin hkn) (i + 1) (k + 1) (by omega) (by omega) (by omega) (by omega)
        (by rw [Vector.getElem_swap_of_ne (by omega) (by omega)]; exact hp)
        (by
          intro x hx a b
          by_cases hxi : x = i
          · subst hxi; rw [Vector.getElem_swap_left]; exact hlt'
          · rw [Vector.getElem_swap_of_ne hxi (by omega)]; exact hb x hx a (by omega))
        (by
          intro x hx a b
          by_cases hxk : x = k
          · subst hxk; rw [Vector.getElem_swap_right]; exact hc i hin (Nat.le_refl _) (by omega)
          · rw [Vector.getElem_swap_of_ne (by omega) hxk]; exact hc x hx (by omega) (by omega))
        (by
          have hqk : q ≠ k := by
            rintro rfl
            omega
          by_cases hqi : q = i
          · subst hqi
            exact ⟨k, hkn, by omega, hk, by rw [Vector.getElem_swap_right]; exact q3⟩
          · exact ⟨q, hqn, by omega, q2, by rw [Vector.getElem_swap_of_ne hqi hqk]; exact q3⟩)
      exact ⟨(RS.swap as hin hkn ilo (by omega) (by omega) (by omega)).trans IH.1, IH.2⟩
    · rename_i hlt
      have hge : pivot ≤ as[k] := by
        have : ¬ as[k] < pivot := by simpa [ltN] using hlt
        omega
      exact ih as i (k + 1) ilo (by omega) (by omega) (by omega) hp hb
        (by
          intro x hx a b
          by_cases hxk : x = k
          · subst hxk; exact hge
          · exact hc x hx a (by omega))
        ⟨q, hqn, q1, q2, q3⟩

end Simu.Remesh.QS
