import SimuVerif.Lemmas.RemeshRefine
/-
  `Array.qsort` sorts (for `Nat` with `<`).  Core / Batteries / Mathlib have no such lemma at this version;
  `RemeshRefine.lean` proves that the result is a permutation, this file proves that it is sorted, so that
  `sortNat` — used by `can_be_merged` — returns the sorted list: the hypothesis `SortSpec` of the guard theorems
  (`RemeshMerge9.lean`) holds for every list (`sortSpec`).

  Method: `RS as as' lo hi` — outside `[lo, hi]` nothing changed and every value inside comes from a value inside —
  is all that is needed about the rearrangements (no multisets).  `qpartition` (median of three, then a Lomuto
  partition loop) returns `m < hi` with everything in `[lo, m)` below the pivot `as'[m]` and everything in `(m, hi]`
  not below it; the branch `mid ≥ hi` of `qsort.sort` is dead code for `lo < hi`.
-/
set_option linter.unusedSectionVars false
set_option linter.unusedVariables false
open private Array.qsort.sort Array.qpartition.loop from Init.Data.Array.QSort.Basic
namespace Simu.Remesh.QS

/-- the comparison `sortNat` uses -/
abbrev ltN : Nat → Nat → Bool := fun x y => decide (x < y)

variable {n : Nat}

/-- range-stable rearrangement -/
def RS (as as' : Vector Nat n) (lo hi : Nat) : Prop :=
  (∀ i (h : i < n), (i < lo ∨ hi < i) → as'[i] = as[i]) ∧
  (∀ i (h : i < n), lo ≤ i → i ≤ hi → ∃ j, ∃ (hj : j < n), lo ≤ j ∧ j ≤ hi ∧ as'[i] = as[j])

theorem RS.refl (as : Vector Nat n) (lo hi : Nat) : RS as as lo hi :=
  ⟨fun _ _ _ => rfl, fun i h h1 h2 => ⟨i, h, h1, h2, rfl⟩⟩

theorem RS.trans {as bs cs : Vector Nat n} {lo hi : Nat} (h1 : RS as bs lo hi) (h2 : RS bs cs lo hi) :
    RS as cs lo hi := by
  refine ⟨fun i h ho => (h2.1 i h ho).trans (h1.1 i h ho), fun i h a b => ?_⟩
  obtain ⟨j, hj, a1, b1, e1⟩ := h2.2 i h a b
  obtain ⟨j', hj', a2, b2, e2⟩ := h1.2 j hj a1 b1
  exact ⟨j', hj', a2, b2, e1.trans e2⟩

theorem RS.mono {as bs : Vector Nat n} {lo hi lo' hi' : Nat} (h : RS as bs lo' hi') (hl : lo ≤ lo') (hh : hi' ≤ hi) :
    RS as bs lo hi := by
  refine ⟨fun i hi0 ho => h.1 i hi0 (by omega), fun i hi0 a b => ?_⟩
  by_cases hin : lo' ≤ i ∧ i ≤ hi'
  · obtain ⟨j, hj, a1, b1, e1⟩ := h.2 i hi0 hin.1 hin.2
    exact ⟨j, hj, by omega, by omega, e1⟩
  · exact ⟨i, hi0, a, b, h.1 i hi0 (by omega)⟩

theorem RS.swap (as : Vector Nat n) {lo hi i j : Nat} (hi' : i < n) (hj' : j < n) (h1 : lo ≤ i) (h2 : i ≤ hi)
    (h3 : lo ≤ j) (h4 : j ≤ hi) : RS as (as.swap i j hi' hj') lo hi := by
  refine ⟨fun k hk ho => Vector.getElem_swap_of_ne (by omega) (by omega), fun k hk a b => ?_⟩
  rw [Vector.getElem_swap hi' hj' hk]
  by_cases e1 : k = i
  · rw [if_pos e1]; exact ⟨j, hj', h3, h4, rfl⟩
  · rw [if_neg e1]
    by_cases e2 : k = j
    · rw [if_pos e2]; exact ⟨i, hi', h1, h2, rfl⟩
    · rw [if_neg e2]; exact ⟨k, hk, a, b, rfl⟩

theorem RS.ite_swap (as : Vector Nat n) {lo hi i j : Nat} (c : Bool) (hi' : i < n) (hj' : j < n) (h1 : lo ≤ i)
    (h2 : i ≤ hi) (h3 : lo ≤ j) (h4 : j ≤ hi) :
    RS as (if c = true then as.swap i j hi' hj' else as) lo hi := by
  split
  · exact RS.swap as hi' hj' h1 h2 h3 h4
  · exact RS.refl _ _ _

/-- what a partition of `[lo, hi]` around `pivot` returns -/
def PartOK (as : Vector Nat n) (lo hi pivot : Nat) (r : {m : Nat // lo ≤ m ∧ m ≤ hi} × Vector Nat n) : Prop :=
  RS as r.2 lo hi ∧ r.1.1 < hi ∧ ∃ (hmn : r.1.1 < n), r.2[r.1.1] = pivot ∧
    (∀ x (hx : x < n), lo ≤ x → x < r.1.1 → r.2[x] < pivot) ∧
    (∀ x (hx : x < n), r.1.1 < x → x ≤ hi → pivot ≤ r.2[x])

theorem PartOK.of_RS {as bs : Vector Nat n} {lo hi pivot : Nat} {r : {m : Nat // lo ≤ m ∧ m ≤ hi} × Vector Nat n}
    (h1 : RS as bs lo hi) (h2 : PartOK bs lo hi pivot r) : PartOK as lo hi pivot r :=
  ⟨h1.trans h2.1, h2.2⟩

/-- the partition loop -/
theorem loop_spec (lo hi : Nat) (hhi : hi < n) (pivot : Nat) :
    ∀ (d : Nat) (as : Vector Nat n) (i k : Nat) (ilo : lo ≤ i) (ik : i ≤ k) (w : k ≤ hi), hi - k = d →
      as[hi] = pivot →
      (∀ x (hx : x < n), lo ≤ x → x < i → as[x] < pivot) →
      (∀ x (hx : x < n), i ≤ x → x < k → pivot ≤ as[x]) →
      (∃ q, ∃ (hq : q < n), i ≤ q ∧ q < hi ∧ pivot ≤ as[q]) →
      PartOK as lo hi pivot (Array.qpartition.loop ltN lo hi hhi pivot as i k ilo ik w) := by
  intro d
  induction d with
  | zero =>
    intro as i k ilo ik w hd hp hb hc hq
    rw [Array.qpartition.loop.eq_def]
    have hk : ¬ k < hi := by omega
    have hkk : k = hi := by omega
    subst hkk
    simp only [hk, dite_false]
    obtain ⟨q, hqn, q1, q2, q3⟩ := hq
    have hin : i < n := by omega
    refine ⟨RS.swap as hin hhi ilo (by omega) (by omega) (Nat.le_refl _), by show i < k; omega, hin, ?_, ?_, ?_⟩
    · show (as.swap i k hin hhi)[i] = pivot
      rw [Vector.getElem_swap_left]; exact hp
    · intro x hx a b
      show (as.swap i k hin hhi)[x] < pivot
      have b' : x < i := b
      rw [Vector.getElem_swap_of_ne (by omega) (by omega)]
      exact hb x hx a b'
    · intro x hx a b
      show pivot ≤ (as.swap i k hin hhi)[x]
      have a' : i < x := a
      by_cases hxk : x = k
      · subst hxk
        rw [Vector.getElem_swap_right]
        exact hc i hin (Nat.le_refl _) (by omega)
      · rw [Vector.getElem_swap_of_ne (by omega) hxk]
        exact hc x hx (by omega) (by omega)
  | succ d ih =>
    intro as i k ilo ik w hd hp hb hc hq
    rw [Array.qpartition.loop.eq_def]
    have hk : k < hi := by omega
    have hkn : k < n := by omega
    have hin : i < n := by omega
    simp only [hk, dite_true]
    obtain ⟨q, hqn, q1, q2, q3⟩ := hq
    split
    · rename_i hlt
      have hlt' : as[k] < pivot := by simpa [ltN] using hlt
      have IH := ih (as.swap i k hin hkn) (i + 1) (k + 1) (by omega) (by omega) (by omega) (by omega)
        (by rw [Vector.getElem_swap_of_ne (by omega) (by omega)]; exact hp)
        (by
          intro x hx a b
          by_cases hxi : x = i
          · subst hxi; rw [Vector.getElem_swap_left]; exact hlt'
          · rw [Vector.getElem_swap_of_ne hxi (by omega)]; exact hb x hx a (by omega))
        (by
          intro x hx a b
          by_cases hxk : x = k
          · subst hxk; rw [Vector.getElem_swap_right]; exact hc i hin (Nat.le_refl _) (by omega)
          · rw [Vector.getElem_swap_of_ne (by omega) hxk]; exact hc x hx (by omega) (by omega))
        (by
          have hqk : q ≠ k := by
            rintro rfl
            omega
          by_cases hqi : q = i
          · subst hqi
            exact ⟨k, hkn, by omega, hk, by rw [Vector.getElem_swap_right]; exact q3⟩
          · exact ⟨q, hqn, by omega, q2, by rw [Vector.getElem_swap_of_ne hqi hqk]; exact q3⟩)
      exact PartOK.of_RS (RS.swap as hin hkn ilo (by omega) (by omega) (by omega)) IH
    · rename_i hlt
      have hge : pivot ≤ as[k] := by
        have : ¬ as[k] < pivot := by simpa [ltN] using hlt
        omega
      exact ih as i (k + 1) ilo (by omega) (by omega) (by omega) hp hb
        (by
          intro x hx a b
          by_cases hxk : x = k
          · subst hxk; exact hge
          · exact hc x hx a (by omega))
        ⟨q, hqn, q1, q2, q3⟩

/-- `qpartition` on a range with at least two elements -/
theorem qpartition_spec (as : Vector Nat n) (lo hi : Nat) (w : lo ≤ hi) (hlo : lo < n) (hhi : hi < n)
    (hlt : lo < hi) : ∃ p, PartOK as lo hi p (Array.qpartition as ltN lo hi w hlo hhi) := by
  have hmid1 : lo ≤ (lo + hi) / 2 := by omega
  have hmid2 : (lo + hi) / 2 < hi := by omega
  have hmidn : (lo + hi) / 2 < n := by omega
  -- the three conditional swaps of the median-of-three rule
  obtain ⟨a1, ha1⟩ : ∃ a1, a1 = (if ltN (as[(lo + hi) / 2]) (as[lo]) = true then as.swap lo ((lo + hi) / 2) else as) :=
    ⟨_, rfl⟩
  obtain ⟨a2, ha2⟩ : ∃ a2, a2 = (if ltN (a1[hi]) (a1[lo]) = true then a1.swap lo hi else a1) := ⟨_, rfl⟩
  obtain ⟨a3, ha3⟩ : ∃ a3, a3 = (if ltN (a2[(lo + hi) / 2]) (a2[hi]) = true then a2.swap ((lo + hi) / 2) hi else a2) :=
    ⟨_, rfl⟩
  have r1 : RS as a1 lo hi := by
    rw [ha1]; exact RS.ite_swap as _ hlo hmidn (Nat.le_refl _) w hmid1 (by omega)
  have r2 : RS a1 a2 lo hi := by
    rw [ha2]; exact RS.ite_swap a1 _ hlo hhi (Nat.le_refl _) w w (Nat.le_refl _)
  have r3 : RS a2 a3 lo hi := by
    rw [ha3]; exact RS.ite_swap a2 _ hmidn hhi hmid1 (by omega) w (Nat.le_refl _)
  have hmed : a3[hi] ≤ a3[(lo + hi) / 2] := by
    rw [ha3]
    split
    · rename_i hc
      have hc' : a2[(lo + hi) / 2] < a2[hi] := by simpa [ltN] using hc
      rw [Vector.getElem_swap_right, Vector.getElem_swap_left]
      omega
    · rename_i hc
      have hc' : ¬ a2[(lo + hi) / 2] < a2[hi] := by simpa [ltN] using hc
      omega
  have heq : Array.qpartition as ltN lo hi w hlo hhi =
      Array.qpartition.loop ltN lo hi hhi (a3[hi]) a3 lo lo (Nat.le_refl _) (Nat.le_refl _) w := by
    subst ha3; subst ha2; subst ha1
    rfl
  refine ⟨a3[hi], ?_⟩
  rw [heq]
  refine PartOK.of_RS ((r1.trans r2).trans r3) ?_
  exact loop_spec lo hi hhi (a3[hi]) (hi - lo) a3 lo lo _ _ _ rfl rfl (fun x hx a b => by omega)
    (fun x hx a b => by omega) ⟨(lo + hi) / 2, hmidn, hmid1, hmid2, hmed⟩

/-- sorted on a range of indices -/
def SortedOn (as : Vector Nat n) (lo hi : Nat) : Prop :=
  ∀ i j (hi' : i < n) (hj' : j < n), lo ≤ i → i ≤ j → j ≤ hi → as[i] ≤ as[j]

/-- **`qsort.sort` sorts its range and only rearranges inside it** -/
theorem sort_spec : ∀ (d : Nat) (as : Vector Nat n) (lo hi : Nat) (w : lo ≤ hi) (hlo : lo < n) (hhi : hi < n),
    hi - lo ≤ d → RS as (Array.qsort.sort ltN as lo hi w hlo hhi) lo hi ∧
      SortedOn (Array.qsort.sort ltN as lo hi w hlo hhi) lo hi := by
  intro d
  induction d with
  | zero =>
    intro as lo hi w hlo hhi hd
    rw [Array.qsort.sort.eq_def]
    have : ¬ lo < hi := by omega
    simp only [this, dite_false]
    refine ⟨RS.refl _ _ _, fun i j hi' hj' a b c => ?_⟩
    have : i = j := by omega
    subst this; exact Nat.le_refl _
  | succ d ih =>
    intro as lo hi w hlo hhi hd
    rw [Array.qsort.sort.eq_def]
    split
    · rename_i h1
      obtain ⟨p, hp⟩ := qpartition_spec as lo hi w hlo hhi h1
      generalize Array.qpartition as ltN lo hi w hlo hhi = r at hp
      obtain ⟨⟨mid, hmid⟩, a1⟩ := r
      obtain ⟨rs1, hmlt, hmn, hpiv, hlow, hhigh⟩ := hp
      simp only at rs1 hmlt hmn hpiv hlow hhigh ⊢
      split
      · omega
      · rename_i h2
        obtain ⟨rs2, so2⟩ := ih a1 lo mid hmid.1 hlo hmn (by omega)
        generalize Array.qsort.sort ltN a1 lo mid hmid.1 hlo hmn = a2 at rs2 so2 ⊢
        obtain ⟨rs3, so3⟩ := ih a2 (mid + 1) hi (by omega) (by omega) hhi (by omega)
        generalize Array.qsort.sort ltN a2 (mid + 1) hi (by omega) (by omega) hhi = a3 at rs3 so3 ⊢
        refine ⟨(rs1.trans (rs2.mono (Nat.le_refl _) (by omega))).trans (rs3.mono (by omega) (Nat.le_refl _)), ?_⟩
        intro i j hi' hj' a b c
        by_cases hj : j ≤ mid
        · rw [rs3.1 i hi' (by omega), rs3.1 j hj' (by omega)]
          exact so2 i j hi' hj' a b hj
        · by_cases hi2 : mid < i
          · exact so3 i j hi' hj' (by omega) b c
          · -- i ≤ mid < j
            rw [rs3.1 i hi' (by omega)]
            obtain ⟨i0, hi0, a0, b0, e0⟩ := rs2.2 i hi' a (by omega)
            obtain ⟨j0, hj0, a1', b1', e1⟩ := rs3.2 j hj' (by omega) c
            rw [e0, e1, rs2.1 j0 hj0 (by omega)]
            have hle : a1[i0] ≤ p := by
              by_cases him : i0 = mid
              · subst him; omega
              · have := hlow i0 hi0 a0 (by omega); omega
            have hge : p ≤ a1[j0] := hhigh j0 hj0 (by omega) b1'
            omega
    · rename_i h1
      refine ⟨RS.refl _ _ _, fun i j hi' hj' a b c => ?_⟩
      have : i = j := by omega
      subst this; exact Nat.le_refl _

/-- **`Array.qsort` on `Nat` with `<` returns a sorted array** -/
theorem qsort_sorted (as : Array Nat) : (as.qsort ltN).toList.Pairwise (· ≤ ·) := by
  unfold Array.qsort
  split
  · rename_i h
    have : as = #[] := Array.eq_empty_of_size_eq_zero h
    subst this; simp
  · rename_i h
    simp only []
    have hsz : 0 < as.size := by omega
    have e1 : min 0 (as.size - 1) = 0 := by omega
    have e2 : max (min 0 (as.size - 1)) (min (as.size - 1) (as.size - 1)) = as.size - 1 := by omega
    obtain ⟨_, so⟩ := sort_spec (as.size - 1) as.toVector (min 0 (as.size - 1))
      (max (min 0 (as.size - 1)) (min (as.size - 1) (as.size - 1))) (by omega) (by omega) (by omega) (by omega)
    generalize Array.qsort.sort ltN as.toVector (min 0 (as.size - 1))
      (max (min 0 (as.size - 1)) (min (as.size - 1) (as.size - 1))) (by omega) (by omega) (by omega) = v at so ⊢
    rw [List.pairwise_iff_getElem]
    intro i j hi hj hij
    have hi' : i < as.size := by simpa using hi
    have hj' : j < as.size := by simpa using hj
    have := so i j hi' hj' (by omega) (by omega) (by omega)
    simpa using this

end Simu.Remesh.QS
