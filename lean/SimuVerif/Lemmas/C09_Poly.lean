import SimuVerif.Lemmas.C09_Glue
/-
  C09 — polygons (faces with more than three nodes while the cut is being made): cyclic half-edges of a
  face, the effect of `add_point_to_face` and of `divide_faces` on them, node sets, and the volume identities
  of the two ways `divide_faces` re-triangulates a cut triangle.
-/
namespace Simu.Division
open Simu Simu.Surface

/-- half-edges `(prev, x₀), (x₀, x₁), …` of a walk that starts after `prev` -/
def cycGo (prev : Nat) : List Nat → List HE
  | [] => []
  | x :: xs => (prev, x) :: cycGo x xs

/-- the cyclic half-edges of a face -/
def cyc (f : List Nat) : List HE :=
  match f.getLast? with
  | none => []
  | some l => cycGo l f

def heP (f : List Nat) : Multiset HE := (cyc f : Multiset HE)

/-- all half-edges of a list of polygonal faces, with multiplicity -/
def hePoly (F : List (List Nat)) : Multiset HE := (F.map heP).sum

def ClosedP (F : List (List Nat)) : Prop := SymM (hePoly F)

def toTri (f : List Nat) : Tri := (f.getD 0 0, f.getD 1 0, f.getD 2 0)

theorem heP_tri (a b c : Nat) : heP [a, b, c] = heTriM (a, b, c) := by
  show ((cyc [a, b, c] : List HE) : Multiset HE) = _
  simp only [cyc, List.getLast?, cycGo, heTriM, Multiset.insert_eq_cons, ← Multiset.singleton_add,
    ← Multiset.cons_coe, Multiset.coe_nil, Multiset.cons_zero, List.getLast]
  abel

theorem hePoly_nil : hePoly [] = 0 := by simp [hePoly]
theorem hePoly_cons (f : List Nat) (F : List (List Nat)) : hePoly (f :: F) = heP f + hePoly F := by simp [hePoly]
theorem hePoly_append (F G : List (List Nat)) : hePoly (F ++ G) = hePoly F + hePoly G := by simp [hePoly]

/-- on triangles the polygon vocabulary is the triangle vocabulary -/
theorem hePoly_tris (T : List Tri) : hePoly (T.map (fun t => [t.1, t.2.1, t.2.2])) = heM T := by
  induction T with
  | nil => simp [hePoly_nil, heM_nil]
  | cons t T ih => rw [List.map_cons, hePoly_cons, heM_cons, ih, heP_tri]

/-! ### add_point_to_face -/

theorem insertGo_getLast {a b p : Nat} : ∀ {l l' : List Nat} {prev : Nat}, insertGo a b p prev l = some l' →
    l'.getLast? = l.getLast? := by
  intro l
  induction l with
  | nil => intro l' prev h; simp [insertGo] at h
  | cons x xs ih =>
    intro l' prev h
    unfold insertGo at h
    split at h
    · cases h; simp [List.getLast?_cons_cons]
    · cases hr : insertGo a b p x xs with
      | none => rw [hr] at h; simp at h
      | some r =>
        rw [hr] at h; simp only [Option.map_some, Option.some.injEq] at h; subst h
        have := ih hr
        cases xs with
        | nil => simp [insertGo] at hr
        | cons y ys =>
          cases r with
          | nil => have h2 := congrArg Option.isSome this; simp at h2
          | cons z zs => simp only [List.getLast?_cons_cons]; exact this

/-- the directed edge `add_point_to_face` finds: the first cyclic pair equal to `(a,b)` or `(b,a)` -/
def dirGo (a b prev : Nat) : List Nat → Option HE
  | [] => none
  | x :: xs => if (prev == a && x == b) || (prev == b && x == a) then some (prev, x) else dirGo a b x xs

def dirOf (f : List Nat) (a b : Nat) : Option HE :=
  match f.getLast? with
  | none => none
  | some l => dirGo a b l f

theorem insertGo_he {a b p : Nat} : ∀ {l l' : List Nat} {prev : Nat}, insertGo a b p prev l = some l' →
    ∃ e, dirGo a b prev l = some e ∧ (e = (a, b) ∨ e = (b, a)) ∧
      ((cycGo prev l' : List HE) : Multiset HE) + {e} = (cycGo prev l : Multiset HE) + {(e.1, p)} + {(p, e.2)} := by
  intro l
  induction l with
  | nil => intro l' prev h; simp [insertGo] at h
  | cons x xs ih =>
    intro l' prev h
    unfold insertGo at h
    unfold dirGo
    split at h
    · rename_i hc
      cases h
      rw [if_pos hc]
      refine ⟨(prev, x), rfl, ?_, ?_⟩
      · simp only [Bool.or_eq_true, Bool.and_eq_true, beq_iff_eq] at hc
        rcases hc with ⟨h1, h2⟩ | ⟨h1, h2⟩
        · left; rw [h1, h2]
        · right; rw [h1, h2]
      · simp only [cycGo, ← Multiset.cons_coe, ← Multiset.singleton_add]
        abel
    · rename_i hc
      rw [if_neg hc]
      cases hr : insertGo a b p x xs with
      | none => rw [hr] at h; simp at h
      | some r =>
        rw [hr] at h; simp only [Option.map_some, Option.some.injEq] at h; subst h
        obtain ⟨e, he1, he2, he3⟩ := ih hr
        refine ⟨e, he1, he2, ?_⟩
        simp only [cycGo, ← Multiset.cons_coe, ← Multiset.singleton_add]
        calc ({(prev, x)} : Multiset HE) + (cycGo x r : Multiset HE) + {e}
            = {(prev, x)} + ((cycGo x r : Multiset HE) + {e}) := by abel
          _ = {(prev, x)} + ((cycGo x xs : Multiset HE) + {(e.1, p)} + {(p, e.2)}) := by rw [he3]
          _ = _ := by abel

/-- **`add_point_to_face`** replaces the directed edge it finds (`(a,b)` or `(b,a)`, the first in cyclic order) by the
    two half-edges through the new node, and nothing else changes -/
theorem add_point_he {f f' : List Nat} {a b p : Nat} (h : addPointToFaceL f a b p = some f') :
    ∃ e, dirOf f a b = some e ∧ (e = (a, b) ∨ e = (b, a)) ∧
      heP f' + {e} = heP f + {(e.1, p)} + {(p, e.2)} := by
  unfold addPointToFaceL at h
  cases hl : f.getLast? with
  | none => rw [hl] at h; simp at h
  | some l =>
    rw [hl] at h
    obtain ⟨e, he1, he2, he3⟩ := insertGo_he h
    have hl' := insertGo_getLast h
    refine ⟨e, ?_, he2, ?_⟩
    · unfold dirOf; rw [hl]; exact he1
    · unfold heP cyc; rw [hl', hl]; exact he3

theorem insertGo_perm {a b p : Nat} : ∀ {l l' : List Nat} {prev : Nat}, insertGo a b p prev l = some l' →
    l'.Perm (p :: l) := by
  intro l
  induction l with
  | nil => intro l' prev h; simp [insertGo] at h
  | cons x xs ih =>
    intro l' prev h
    unfold insertGo at h
    split at h
    · cases h; exact List.Perm.refl _
    · cases hr : insertGo a b p x xs with
      | none => rw [hr] at h; simp at h
      | some r =>
        rw [hr] at h; simp only [Option.map_some, Option.some.injEq] at h; subst h
        exact ((ih hr).cons x).trans (List.Perm.swap p x xs)

/-- the node list of the face grows by exactly the new node -/
theorem add_point_nodes {f f' : List Nat} {a b p : Nat} (h : addPointToFaceL f a b p = some f') :
    f'.Perm (p :: f) := by
  unfold addPointToFaceL at h
  cases hl : f.getLast? with
  | none => rw [hl] at h; simp at h
  | some l => rw [hl] at h; exact insertGo_perm h

/-- inserting the new node into the two faces that traverse the cut edge in opposite directions keeps the
    surface closed (the pair `(a,b),(b,a)` is replaced by the pairs `(a,p),(p,a)` and `(p,b),(b,p)`) -/
theorem add_point_pair_closed {f1 f2 f1' f2' : List Nat} {rest : List (List Nat)} {a b p : Nat} {e : HE}
    (h1 : addPointToFaceL f1 a b p = some f1') (h2 : addPointToFaceL f2 a b p = some f2')
    (d1 : dirOf f1 a b = some e) (d2 : dirOf f2 a b = some e.swap)
    (hc : ClosedP (f1 :: f2 :: rest)) : ClosedP (f1' :: f2' :: rest) := by
  obtain ⟨e1, he1, _, hh1⟩ := add_point_he h1
  obtain ⟨e2, he2, _, hh2⟩ := add_point_he h2
  rw [d1] at he1; cases he1
  rw [d2] at he2; cases he2
  obtain ⟨u, v⟩ := e
  simp only [Prod.swap_prod_mk] at hh2
  unfold ClosedP at *
  simp only [hePoly_cons] at *
  -- add the symmetric pair P u v on both sides
  have key : heP f1' + (heP f2' + hePoly rest) + P u v
      = heP f1 + (heP f2 + hePoly rest) + (P u p + P p v) := by
    unfold P
    calc heP f1' + (heP f2' + hePoly rest) + ({(u, v)} + {(v, u)})
        = (heP f1' + {(u, v)}) + (heP f2' + {(v, u)}) + hePoly rest := by abel
      _ = (heP f1 + {(u, p)} + {(p, v)}) + (heP f2 + {(v, p)} + {(p, u)}) + hePoly rest := by rw [hh1, hh2]
      _ = _ := by abel
  have hs : SymM (heP f1 + (heP f2 + hePoly rest) + (P u p + P p v)) :=
    symM_add hc (symM_add (symM_P u p) (symM_P p v))
  rw [← key] at hs
  rw [add_comm] at hs
  exact (symM_add_iff (symM_P u v)).1 hs

/-! ### divide_faces -/

/-- the local positions of the two intersection points of a face of size 5 are at cyclic distance 2
    (what the disabled `assert(local_point_2_id - local_point_1_id == 3 || … == 2)` states) -/
def Wf5At (p1 p2 : Nat) : Prop := (p2 = p1 + 2 ∨ p2 = p1 + 3) ∧ p2 ≤ 4

theorem wf5At_cases {p1 p2 : Nat} (h : Wf5At p1 p2) :
    (p1 = 0 ∧ p2 = 3) ∨ (p1 = 1 ∧ p2 = 4) ∨ (p1 = 0 ∧ p2 = 2) ∨ (p1 = 1 ∧ p2 = 3) ∨ (p1 = 2 ∧ p2 = 4) := by
  unfold Wf5At at h; omega

/-- the triangles `divide_faces` builds, for every admissible position of the two intersection points
    (computed from the index tables `Gen.Division.div5CaseA / div5CaseB` read from the source) -/
theorem divide5_shape (v0 v1 v2 v3 v4 : Nat) :
    divide5At [v0, v1, v2, v3, v4] 0 3 = some [[v0, v3, v4], [v0, v1, v2], [v0, v2, v3]] ∧
    divide5At [v0, v1, v2, v3, v4] 1 4 = some [[v1, v4, v0], [v1, v2, v3], [v1, v3, v4]] ∧
    divide5At [v0, v1, v2, v3, v4] 0 2 = some [[v0, v1, v2], [v4, v0, v2], [v4, v2, v3]] ∧
    divide5At [v0, v1, v2, v3, v4] 1 3 = some [[v1, v2, v3], [v0, v1, v3], [v0, v3, v4]] ∧
    divide5At [v0, v1, v2, v3, v4] 2 4 = some [[v2, v3, v4], [v1, v2, v4], [v1, v4, v0]] :=
  ⟨rfl, rfl, rfl, rfl, rfl⟩

theorem symM_zero : SymM (0 : Multiset HE) := by simp [SymM]

theorem heP_five (v0 v1 v2 v3 v4 : Nat) :
    heP [v0, v1, v2, v3, v4] = {(v4, v0)} + {(v0, v1)} + {(v1, v2)} + {(v2, v3)} + {(v3, v4)} := by
  show ((cyc [v0, v1, v2, v3, v4] : List HE) : Multiset HE) = _
  simp only [cyc, List.getLast?, cycGo, ← Multiset.singleton_add, ← Multiset.cons_coe, Multiset.coe_nil,
    List.getLast]
  abel

theorem heP_three (a b c : Nat) : heP [a, b, c] = {(c, a)} + {(a, b)} + {(b, c)} := by
  show ((cyc [a, b, c] : List HE) : Multiset HE) = _
  simp only [cyc, List.getLast?, cycGo, ← Multiset.singleton_add, ← Multiset.cons_coe, Multiset.coe_nil,
    List.getLast]
  abel

/-- **one cut face**: the three new triangles have the half-edges of the face of size 5 plus two
    reverse-paired diagonals -/
theorem divide5_he {v0 v1 v2 v3 v4 p1 p2 : Nat} {ts : List (List Nat)} (hw : Wf5At p1 p2)
    (h : divide5At [v0, v1, v2, v3, v4] p1 p2 = some ts) :
    ∃ S, SymM S ∧ hePoly ts = heP [v0, v1, v2, v3, v4] + S := by
  obtain ⟨s1, s2, s3, s4, s5⟩ := divide5_shape v0 v1 v2 v3 v4
  rcases wf5At_cases hw with ⟨rfl, rfl⟩ | ⟨rfl, rfl⟩ | ⟨rfl, rfl⟩ | ⟨rfl, rfl⟩ | ⟨rfl, rfl⟩
  · rw [s1] at h; cases h
    refine ⟨P v0 v3 + P v0 v2, symM_add (symM_P _ _) (symM_P _ _), ?_⟩
    simp only [hePoly_cons, hePoly_nil, heP_five, heP_three, P]; abel
  · rw [s2] at h; cases h
    refine ⟨P v1 v4 + P v1 v3, symM_add (symM_P _ _) (symM_P _ _), ?_⟩
    simp only [hePoly_cons, hePoly_nil, heP_five, heP_three, P]; abel
  · rw [s3] at h; cases h
    refine ⟨P v0 v2 + P v4 v2, symM_add (symM_P _ _) (symM_P _ _), ?_⟩
    simp only [hePoly_cons, hePoly_nil, heP_five, heP_three, P]; abel
  · rw [s4] at h; cases h
    refine ⟨P v1 v3 + P v0 v3, symM_add (symM_P _ _) (symM_P _ _), ?_⟩
    simp only [hePoly_cons, hePoly_nil, heP_five, heP_three, P]; abel
  · rw [s5] at h; cases h
    refine ⟨P v2 v4 + P v1 v4, symM_add (symM_P _ _) (symM_P _ _), ?_⟩
    simp only [hePoly_cons, hePoly_nil, heP_five, heP_three, P]; abel

/-- the nodes of the three new triangles are the nodes of the cut face -/
theorem divide5_nodes {v0 v1 v2 v3 v4 p1 p2 : Nat} {ts : List (List Nat)} (hw : Wf5At p1 p2)
    (h : divide5At [v0, v1, v2, v3, v4] p1 p2 = some ts) (x : Nat) :
    x ∈ ts.flatten ↔ x ∈ [v0, v1, v2, v3, v4] := by
  obtain ⟨s1, s2, s3, s4, s5⟩ := divide5_shape v0 v1 v2 v3 v4
  rcases wf5At_cases hw with ⟨rfl, rfl⟩ | ⟨rfl, rfl⟩ | ⟨rfl, rfl⟩ | ⟨rfl, rfl⟩ | ⟨rfl, rfl⟩
  · rw [s1] at h; cases h; simp; tauto
  · rw [s2] at h; cases h; simp; tauto
  · rw [s3] at h; cases h; simp; tauto
  · rw [s4] at h; cases h; simp; tauto
  · rw [s5] at h; cases h; simp; tauto

theorem divide5_lengths {v0 v1 v2 v3 v4 p1 p2 : Nat} {ts : List (List Nat)} (hw : Wf5At p1 p2)
    (h : divide5At [v0, v1, v2, v3, v4] p1 p2 = some ts) : ∀ t ∈ ts, t.length = 3 := by
  obtain ⟨s1, s2, s3, s4, s5⟩ := divide5_shape v0 v1 v2 v3 v4
  rcases wf5At_cases hw with ⟨rfl, rfl⟩ | ⟨rfl, rfl⟩ | ⟨rfl, rfl⟩ | ⟨rfl, rfl⟩ | ⟨rfl, rfl⟩
  · rw [s1] at h; cases h; simp
  · rw [s2] at h; cases h; simp
  · rw [s3] at h; cases h; simp
  · rw [s4] at h; cases h; simp
  · rw [s5] at h; cases h; simp

/-- hypothesis on a face for `divide_faces`: when it has five nodes, its two nodes with id ≥ thr (the intersection
    points) are found by the two searches of the code and sit at cyclic distance 2 -/
def Wf5 (thr : Nat) (f : List Nat) : Prop :=
  f.length = 5 → ∃ p1 p2, findIdx thr f 0 = some p1 ∧ findIdx thr f (p1 + 1) = some p2 ∧ Wf5At p1 p2

theorem list_len5 {f : List Nat} (h : f.length = 5) : ∃ v0 v1 v2 v3 v4, f = [v0, v1, v2, v3, v4] := by
  match f, h with
  | [v0, v1, v2, v3, v4], _ => exact ⟨v0, v1, v2, v3, v4, rfl⟩

theorem divide5_ok {thr : Nat} {f : List Nat} {ts : List (List Nat)} (hl : f.length = 5) (hw : Wf5 thr f)
    (h : divide5 thr f = .ok ts) :
    ∃ v0 v1 v2 v3 v4 p1 p2, f = [v0, v1, v2, v3, v4] ∧ Wf5At p1 p2 ∧ divide5At [v0, v1, v2, v3, v4] p1 p2 = some ts := by
  obtain ⟨p1, p2, h1, h2, hw'⟩ := hw hl
  obtain ⟨v0, v1, v2, v3, v4, rfl⟩ := list_len5 hl
  refine ⟨v0, v1, v2, v3, v4, p1, p2, rfl, hw', ?_⟩
  unfold divide5 at h
  rw [h1] at h; simp only at h
  rw [h2] at h; simp only at h
  cases hd : divide5At [v0, v1, v2, v3, v4] p1 p2 with
  | none => rw [hd] at h; cases h
  | some ts' => rw [hd] at h; cases h; rfl

/-- **`divide_faces` preserves the surface**: the half-edges of the new face list are those of the old one plus
    reverse-paired diagonals; in particular the surface is closed after iff it was closed before -/
theorem divide_faces_he {thr : Nat} : ∀ {F keep add : List (List Nat)}, divideFacesL thr F = .ok (keep, add) →
    (∀ f ∈ F, Wf5 thr f) → ∃ S, SymM S ∧ hePoly (keep ++ add) = hePoly F + S := by
  intro F
  induction F with
  | nil =>
    intro keep add h _
    simp only [divideFacesL] at h; cases h
    exact ⟨0, symM_zero, by simp [hePoly_nil]⟩
  | cons f fs ih =>
    intro keep add h hw
    have hw' : ∀ g ∈ fs, Wf5 thr g := fun g hg => hw g (List.mem_cons_of_mem _ hg)
    unfold divideFacesL at h
    by_cases hl : f.length = 5
    · have hl' : (f.length == Gen.Division.div5Size) = true := by simp [Gen.Division.div5Size, hl]
      rw [if_pos hl'] at h
      cases h5 : divide5 thr f with
      | error e => rw [h5] at h; cases h
      | ok ts =>
        rw [h5] at h; simp only at h
        cases hr : divideFacesL thr fs with
        | error e => rw [hr] at h; cases h
        | ok r =>
          obtain ⟨k, a⟩ := r
          rw [hr] at h; simp only at h; cases h
          obtain ⟨S, hS, hE⟩ := ih hr hw'
          obtain ⟨v0, v1, v2, v3, v4, p1, p2, rfl, hwf, hd⟩ := divide5_ok hl (hw _ (List.mem_cons_self)) h5
          obtain ⟨S', hS', hE'⟩ := divide5_he hwf hd
          refine ⟨S' + S, symM_add hS' hS, ?_⟩
          rw [hePoly_append] at hE
          rw [hePoly_append, hePoly_append, hePoly_cons, hE']
          calc hePoly keep + (heP [v0, v1, v2, v3, v4] + S' + hePoly a)
              = heP [v0, v1, v2, v3, v4] + S' + (hePoly keep + hePoly a) := by abel
            _ = heP [v0, v1, v2, v3, v4] + S' + (hePoly fs + S) := by rw [hE]
            _ = _ := by abel
    · have hl' : ¬ (f.length == Gen.Division.div5Size) = true := by simp [Gen.Division.div5Size, hl]
      rw [if_neg hl'] at h
      cases hr : divideFacesL thr fs with
      | error e => rw [hr] at h; cases h
      | ok r =>
        obtain ⟨k, a⟩ := r
        rw [hr] at h; simp only at h; cases h
        obtain ⟨S, hS, hE⟩ := ih hr hw'
        refine ⟨S, hS, ?_⟩
        rw [hePoly_append] at hE
        rw [hePoly_append, hePoly_cons, hePoly_cons, add_assoc, hE, add_assoc]

theorem divide_faces_closed {thr : Nat} {F keep add : List (List Nat)} (h : divideFacesL thr F = .ok (keep, add))
    (hw : ∀ f ∈ F, Wf5 thr f) : ClosedP (keep ++ add) ↔ ClosedP F := by
  obtain ⟨S, hS, hE⟩ := divide_faces_he h hw
  unfold ClosedP
  rw [hE, add_comm]
  exact symM_add_iff hS

/-- `divide_faces` neither adds nor drops a node -/
theorem divide_faces_nodes {thr : Nat} : ∀ {F keep add : List (List Nat)}, divideFacesL thr F = .ok (keep, add) →
    (∀ f ∈ F, Wf5 thr f) → ∀ x, x ∈ (keep ++ add).flatten ↔ x ∈ F.flatten := by
  intro F
  induction F with
  | nil =>
    intro keep add h _ x
    simp only [divideFacesL] at h; cases h; simp
  | cons f fs ih =>
    intro keep add h hw x
    have hw' : ∀ g ∈ fs, Wf5 thr g := fun g hg => hw g (List.mem_cons_of_mem _ hg)
    unfold divideFacesL at h
    by_cases hl : f.length = 5
    · have hl' : (f.length == Gen.Division.div5Size) = true := by simp [Gen.Division.div5Size, hl]
      rw [if_pos hl'] at h
      cases h5 : divide5 thr f with
      | error e => rw [h5] at h; cases h
      | ok ts =>
        rw [h5] at h; simp only at h
        cases hr : divideFacesL thr fs with
        | error e => rw [hr] at h; cases h
        | ok r =>
          obtain ⟨k, a⟩ := r
          rw [hr] at h; simp only at h; cases h
          have e1 := ih hr hw' x
          obtain ⟨v0, v1, v2, v3, v4, p1, p2, rfl, hwf, hd⟩ := divide5_ok hl (hw _ (List.mem_cons_self)) h5
          have e2 := divide5_nodes hwf hd x
          simp only [List.flatten_append, List.mem_append, List.flatten_cons] at e1 ⊢
          rw [e2]; tauto
    · have hl' : ¬ (f.length == Gen.Division.div5Size) = true := by simp [Gen.Division.div5Size, hl]
      rw [if_neg hl'] at h
      cases hr : divideFacesL thr fs with
      | error e => rw [hr] at h; cases h
      | ok r =>
        obtain ⟨k, a⟩ := r
        rw [hr] at h; simp only at h; cases h
        have e1 := ih hr hw' x
        simp only [List.flatten_append, List.mem_append, List.flatten_cons] at e1 ⊢
        tauto

/-- after `divide_faces` every face that had three or five nodes is a triangle -/
theorem divide_faces_tris {thr : Nat} : ∀ {F keep add : List (List Nat)}, divideFacesL thr F = .ok (keep, add) →
    (∀ f ∈ F, Wf5 thr f) → (∀ f ∈ F, f.length = 3 ∨ f.length = 5) → ∀ t ∈ keep ++ add, t.length = 3 := by
  intro F
  induction F with
  | nil =>
    intro keep add h _ _ t ht
    simp only [divideFacesL] at h; cases h; simp at ht
  | cons f fs ih =>
    intro keep add h hw h35 t ht
    have hw' : ∀ g ∈ fs, Wf5 thr g := fun g hg => hw g (List.mem_cons_of_mem _ hg)
    have h35' : ∀ g ∈ fs, g.length = 3 ∨ g.length = 5 := fun g hg => h35 g (List.mem_cons_of_mem _ hg)
    unfold divideFacesL at h
    by_cases hl : f.length = 5
    · have hl' : (f.length == Gen.Division.div5Size) = true := by simp [Gen.Division.div5Size, hl]
      rw [if_pos hl'] at h
      cases h5 : divide5 thr f with
      | error e => rw [h5] at h; cases h
      | ok ts =>
        rw [h5] at h; simp only at h
        cases hr : divideFacesL thr fs with
        | error e => rw [hr] at h; cases h
        | ok r =>
          obtain ⟨k, a⟩ := r
          rw [hr] at h; simp only at h; cases h
          obtain ⟨v0, v1, v2, v3, v4, p1, p2, rfl, hwf, hd⟩ := divide5_ok hl (hw _ (List.mem_cons_self)) h5
          have e2 := divide5_lengths hwf hd
          have e1 := ih hr hw' h35'
          simp only [List.mem_append] at ht e1
          rcases ht with ht | ht | ht
          · exact e1 t (Or.inl ht)
          · exact e2 t ht
          · exact e1 t (Or.inr ht)
    · have hl' : ¬ (f.length == Gen.Division.div5Size) = true := by simp [Gen.Division.div5Size, hl]
      rw [if_neg hl'] at h
      cases hr : divideFacesL thr fs with
      | error e => rw [hr] at h; cases h
      | ok r =>
        obtain ⟨k, a⟩ := r
        rw [hr] at h; simp only at h; cases h
        have e1 := ih hr hw' h35'
        simp only [List.cons_append, List.mem_cons, List.mem_append] at ht e1
        rcases ht with rfl | ht | ht
        · rcases h35 t (List.mem_cons_self) with h3 | h5
          · exact h3
          · exact absurd h5 hl
        · exact e1 t (Or.inl ht)
        · exact e1 t (Or.inr ht)

/-! ### signed volume of a cut triangle -/
section volume
variable {R : Type} [Field R]

/-- first branch of `divide_faces` (`local_point_2_id - local_point_1_id == 3`): face `[e, x, y, g, z]` (up to rotation),
    `e` on the edge `z→x`, `g` on the edge `y→z`; triangles `(e,g,z) (e,x,y) (e,y,g)` -/
theorem cut_volume_A (x y z : V3 R) (s t : R) :
    tet6 (z + (x - z) * s) (y + (z - y) * t) z + tet6 (z + (x - z) * s) x y + tet6 (z + (x - z) * s) y (y + (z - y) * t)
      = tet6 x y z := by
  simp only [tet6, V3.dot_def, V3.cross_def, V3.add_x, V3.add_y, V3.add_z, V3.sub_x, V3.sub_y, V3.sub_z,
    V3.smul_x, V3.smul_y, V3.smul_z]
  ring

/-- else branch of `divide_faces`: face `[e, x, g, y, z]` (up to rotation), `e` on the edge `z→x`, `g` on the edge `x→y`;
    triangles `(e,x,g) (z,e,g) (z,g,y)` -/
theorem cut_volume_B (x y z : V3 R) (s t : R) :
    tet6 (z + (x - z) * s) x (x + (y - x) * t) + tet6 z (z + (x - z) * s) (x + (y - x) * t) + tet6 z (x + (y - x) * t) y
      = tet6 x y z := by
  simp only [tet6, V3.dot_def, V3.cross_def, V3.add_x, V3.add_y, V3.add_z, V3.sub_x, V3.sub_y, V3.sub_z,
    V3.smul_x, V3.smul_y, V3.smul_z]
  ring
end volume

end Simu.Division
