import SimuVerif.Lemmas.C09_Glue
/-
  C09 — polygons (faces with more than three nodes while the cut is being made): cyclic half-edges of a
  face, the effect of `add_point_to_face` and of `divide_faces` on them, node sets, and the volume identities
  of the two ways `divide_faces` re-triangulates a cut triangle.
-/
namespace Simu.Division
open Simu Simu.Surface

/-- half-edges `(prev, x₀), (x₀, x₁), …` of a walk that starts after `prev` -/
def cycGo (prev : Nat) : List Nat → List HE
  | [] => []
  | x :: xs => (prev, x) :: cycGo x xs

/-- the cyclic half-edges of a face -/
def cyc (f : List Nat) : List HE :=
  match f.getLast? with
  | none => []
  | some l => cycGo l f

def heP (f : List Nat) : Multiset HE := (cyc f : Multiset HE)

/-- all half-edges of a list of polygonal faces, with multiplicity -/
def hePoly (F : List (List Nat)) : Multiset HE := (F.map heP).sum

def ClosedP (F : List (List Nat)) : Prop := SymM (hePoly F)

def toTri (f : List Nat) : Tri := (f.getD 0 0, f.getD 1 0, f.getD 2 0)

theorem heP_tri (a b c : Nat) : heP [a, b, c] = heTriM (a, b, c) := by
  show ((cyc [a, b, c] : List HE) : Multiset HE) = _
  simp only [cyc, List.getLast?, cycGo, heTriM, Multiset.insert_eq_cons, ← Multiset.singleton_add,
    ← Multiset.cons_coe, Multiset.coe_nil, Multiset.cons_zero, List.getLast]
  abel

theorem hePoly_nil : hePoly [] = 0 := by simp [hePoly]
theorem hePoly_cons (f : List Nat) (F : List (List Nat)) : hePoly (f :: F) = heP f + hePoly F := by simp [hePoly]
theorem hePoly_append (F G : List (List Nat)) : hePoly (F ++ G) = hePoly F + hePoly G := by simp [hePoly]

/-- on triangles the polygon vocabulary is the triangle vocabulary -/
theorem hePoly_tris (T : List Tri) : hePoly (T.map (fun t => [t.1, t.2.1, t.2.2])) = heM T := by
  induction T with
  | nil => simp [hePoly_nil, heM_nil]
  | cons t T ih => rw [List.map_cons, hePoly_cons, heM_cons, ih, heP_tri]

/-! ### add_point_to_face -/

theorem insertGo_getLast {a b p : Nat} : ∀ {l l' : List Nat} {prev : Nat}, insertGo a b p prev l = some l' →
    l'.getLast? = l.getLast? := by
  intro l
  induction l with
  | nil => intro l' prev h; simp [insertGo] at h
  | cons x xs ih =>
    intro l' prev h
    unfold insertGo at h
    split at h
    · cases h; simp [List.getLast?_cons_cons]
    · cases hr : insertGo a b p x xs with
      | none => rw [hr] at h; simp at h
      | some r =>
        rw [hr] at h; simp only [Option.map_some, Option.some.injEq] at h; subst h
        have := ih hr
        cases xs with
        | nil => simp [insertGo] at hr
        | cons y ys =>
          cases r with
          | nil => have h2 := congrArg Option.isSome this; simp at h2
          | cons z zs => simp only [List.getLast?_cons_cons]; exact this

/-- the directed edge `add_point_to_face` finds: the first cyclic pair equal to `(a,b)` or `(b,a)` -/
def dirGo (a b prev : Nat) : List Nat → Option HE
  | [] => none
  | x :: xs => if (prev == a && x == b) || (prev == b && x == a) then some (prev, x) else dirGo a b x xs

def dirOf (f : List Nat) (a b : Nat) : Option HE :=
  match f.getLast? with
  | none => none
  | some l => dirGo a b l f

theorem insertGo_he {a b p : Nat} : ∀ {l l' : List Nat} {prev : Nat}, insertGo a b p prev l = some l' →
    ∃ e, dirGo a b prev l = some e ∧ (e = (a, b) ∨ e = (b, a)) ∧
      ((cycGo prev l' : List HE) : Multiset HE) + {e} = (cycGo prev l : Multiset HE) + {(e.1, p)} + {(p, e.2)} := by
  intro l
  induction l with
  | nil => intro l' prev h; simp [insertGo] at h
  | cons x xs ih =>
    intro l' prev h
    unfold insertGo at h
    unfold dirGo
    split at h
    · rename_i hc
      cases h
      rw [if_pos hc]
      refine ⟨(prev, x), rfl, ?_, ?_⟩
      · simp only [Bool.or_eq_true, Bool.and_eq_true, beq_iff_eq] at hc
        rcases hc with ⟨h1, h2⟩ | ⟨h1, h2⟩
        · left; rw [h1, h2]
        · right; rw [h1, h2]
      · simp only [cycGo, ← Multiset.cons_coe, ← Multiset.singleton_add]
        abel
    · rename_i hc
      rw [if_neg hc]
      cases hr : insertGo a b p x xs with
      | none => rw [hr] at h; simp at h
      | some r =>
        rw [hr] at h; simp only [Option.map_some, Option.some.injEq] at h; subst h
        obtain ⟨e, he1, he2, he3⟩ := ih hr
        refine ⟨e, he1, he2, ?_⟩
        simp only [cycGo, ← Multiset.cons_coe, ← Multiset.singleton_add]
        calc ({(prev, x)} : Multiset HE) + (cycGo x r : Multiset HE) + {e}
            = {(prev, x)} + ((cycGo x r : Multiset HE) + {e}) := by abel
          _ = {(prev, x)} + ((cycGo x xs : Multiset HE) + {(e.1, p)} + {(p, e.2)}) := by rw [he3]
          _ = _ := by abel

/-- **`add_point_to_face`** replaces the directed edge it finds (`(a,b)` or `(b,a)`, the first in cyclic order) by the
    two half-edges through the new node, and nothing else changes -/
theorem add_point_he {f f' : List Nat} {a b p : Nat} (h : addPointToFaceL f a b p = some f') :
    ∃ e, dirOf f a b = some e ∧ (e = (a, b) ∨ e = (b, a)) ∧
      heP f' + {e} = heP f + {(e.1, p)} + {(p, e.2)} := by
  unfold addPointToFaceL at h
  cases hl : f.getLast? with
  | none => rw [hl] at h; simp at h
  | some l =>
    rw [hl] at h
    obtain ⟨e, he1, he2, he3⟩ := insertGo_he h
    have hl' := insertGo_getLast h
    refine ⟨e, ?_, he2, ?_⟩
    · unfold dirOf; rw [hl]; exact he1
    · unfold heP cyc; rw [hl', hl]; exact he3

theorem insertGo_perm {a b p : Nat} : ∀ {l l' : List Nat} {prev : Nat}, insertGo a b p prev l = some l' →
    l'.Perm (p :: l) := by
  intro l
  induction l with
  | nil => intro l' prev h; simp [insertGo] at h
  | cons x xs ih =>
    intro l' prev h
    unfold insertGo at h
    split at h
    · cases h; exact List.Perm.refl _
    · cases hr : insertGo a b p x xs with
      | none => rw [hr] at h; simp at h
      | some r =>
        rw [hr] at h; simp only [Option.map_some, Option.some.injEq] at h; subst h
        exact ((ih hr).cons x).trans (List.Perm.swap p x xs)

/-- the node list of the face grows by exactly the new node -/
theorem add_point_nodes {f f' : List Nat} {a b p : Nat} (h : addPointToFaceL f a b p = some f') :
    f'.Perm (p :: f) := by
  unfold addPointToFaceL at h
  cases hl : f.getLast? with
  | none => rw [hl] at h; simp at h
  | some l => rw [hl] at h; exact insertGo_perm h

/-- inserting the new node into the two faces that traverse the cut edge in opposite directions keeps the
    surface closed (the pair `(a,b),(b,a)` is replaced by the pairs `(a,p),(p,a)` and `(p,b),(b,p)`) -/
theorem add_point_pair_closed {f1 f2 f1' f2' : List Nat} {rest : List (List Nat)} {a b p : Nat} {e : HE}
    (h1 : addPointToFaceL f1 a b p = some f1') (h2 : addPointToFaceL f2 a b p = some f2')
    (d1 : dirOf f1 a b = some e) (d2 : dirOf f2 a b = some e.swap)
    (hc : ClosedP (f1 :: f2 :: rest)) : ClosedP (f1' :: f2' :: rest) := by
  obtain ⟨e1, he1, _, hh1⟩ := add_point_he h1
  obtain ⟨e2, he2, _, hh2⟩ := add_point_he h2
  rw [d1] at he1; cases he1
  rw [d2] at he2; cases he2
  obtain ⟨u, v⟩ := e
  simp only [Prod.swap_prod_mk] at hh2
  unfold ClosedP at *
  simp only [hePoly_cons] at *
  -- add the symmetric pair P u v on both sides
  have key : heP f1' + (heP f2' + hePoly rest) + P u v
      = heP f1 + (heP f2 + hePoly rest) + (P u p + P p v) := by
    unfold P
    calc heP f1' + (heP f2' + hePoly rest) + ({(u, v)} + {(v, u)})
        = (heP f1' + {(u, v)}) + (heP f2' + {(v, u)}) + hePoly rest := by abel
      _ = (heP f1 + {(u, p)} + {(p, v)}) + (heP f2 + {(v, p)} + {(p, u)}) + hePoly rest := by rw [hh1, hh2]
      _ = _ := by abel
  have hs : SymM (heP f1 + (heP f2 + hePoly rest) + (P u p + P p v)) :=
    symM_add hc (symM_add (symM_P u p) (symM_P p v))
  rw [← key] at hs
  rw [add_comm] at hs
  exact (symM_add_iff (symM_P u v)).1 hs

end Simu.Division
