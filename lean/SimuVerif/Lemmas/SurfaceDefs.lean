import SimuVerif.Model.Surface
import Mathlib.Data.Multiset.AddSub
import Mathlib.Data.Multiset.MapFold
import Mathlib.Data.Multiset.UnionInter
import Mathlib.Data.Multiset.Count
import Mathlib.Algebra.BigOperators.Group.List.Basic
import Mathlib.Data.Finset.Image
import Mathlib.Data.Finset.Card
/-
  Propositional vocabulary for triangulated surfaces (used by C01, C09, C11, C13):
  the half-edge multiset of a triangle list, closedness, simplicity, non-degeneracy,
  vertex / edge sets and the Euler characteristic.
-/
namespace Simu.Surface

/-- half-edges of one triangle, as a multiset -/
def heTriM (t : Tri) : Multiset HE := {(t.1, t.2.1), (t.2.1, t.2.2), (t.2.2, t.1)}

/-- all directed half-edges of the surface, with multiplicity -/
def heM (T : List Tri) : Multiset HE := (T.map heTriM).sum

/-- every half-edge is matched by a half-edge in the opposite direction (with multiplicity) -/
def Closed (T : List Tri) : Prop := (heM T).map Prod.swap = heM T

/-- no directed half-edge occurs twice -/
def Simple (T : List Tri) : Prop := (heM T).Nodup

/-- no triangle repeats a node -/
def NonDeg (T : List Tri) : Prop := ∀ t ∈ T, t.1 ≠ t.2.1 ∧ t.2.1 ≠ t.2.2 ∧ t.2.2 ≠ t.1

/-- node `n` is used by no triangle -/
def Fresh (T : List Tri) (n : Nat) : Prop := ∀ t ∈ T, hasNode t n = false

/-- `u` and `v` are joined by an edge -/
def Adj (T : List Tri) (u v : Nat) : Prop := (u, v) ∈ heM T ∨ (v, u) ∈ heM T

/-- the surface invariant of C01: non-degenerate, every edge shared by exactly two triangles that
    traverse it in opposite directions -/
structure Inv (T : List Tri) : Prop where
  nondeg : NonDeg T
  simple : Simple T
  closed : Closed T

def vertsF (T : List Tri) : Finset Nat := (T.flatMap (fun t => [t.1, t.2.1, t.2.2])).toFinset

def normHE (e : HE) : HE := if e.1 ≤ e.2 then e else (e.2, e.1)

/-- undirected edges -/
def edgesF (T : List Tri) : Finset HE := (heM T).toFinset.image normHE

/-- Euler characteristic V − E + F -/
def chiZ (T : List Tri) : Int := ((vertsF T).card : Int) - (edgesF T).card + T.length

/-- the link condition for collapsing the edge `a b` whose two triangles have opposite nodes `c d`:
    the only common neighbours of `a` and `b` are `c` and `d` (what `can_be_merged` computes) -/
def LinkCond (T : List Tri) (a b c d : Nat) : Prop :=
  c ≠ d ∧ ∀ x, Adj T a x → Adj T b x → (x = c ∨ x = d)

/-- renaming of node ids (compaction) -/
def renameT (ρ : Nat → Nat) (T : List Tri) : List Tri := T.map (fun t => (ρ t.1, ρ t.2.1, ρ t.2.2))

end Simu.Surface
