import SimuVerif.Lemmas.VtkWrite
/-
  C16 — `cell::rebase` (order-preserving compaction) and the assembly of the reader on the lines the
  writer produces for cells without free slots.
-/
namespace Simu.Vtk
open Simu.Gen.Vtk
variable {R : Type}

/-! ## rank = new index of a used slot -/

theorem rank_zero (nodes : List (NodeSlot R)) : rank nodes 0 = 0 := by simp [rank]

theorem rank_cons_succ (n : NodeSlot R) (ns : List (NodeSlot R)) (i : Nat) :
    rank (n :: ns) (i + 1) = (if n.used then 1 else 0) + rank ns i := by
  simp only [rank, List.take_succ_cons, List.filter_cons]
  split <;> simp <;> omega

theorem filter_getElem?_rank : ∀ (nodes : List (NodeSlot R)) (i : Nat) (n : NodeSlot R), nodes[i]? = some n → n.used = true →
    (nodes.filter (·.used))[rank nodes i]? = some n
  | [], i, n, h, _ => by simp at h
  | m :: ms, 0, n, h, hu => by
    simp at h; subst h
    simp [rank, hu]
  | m :: ms, i + 1, n, h, hu => by
    simp at h
    have ih := filter_getElem?_rank ms i n h hu
    rw [rank_cons_succ]
    by_cases hm : m.used = true
    · simp [List.filter_cons, hm, Nat.add_comm 1, ih]
    · simp [List.filter_cons, hm, ih]

theorem rank_lt (nodes : List (NodeSlot R)) (i : Nat) (n : NodeSlot R) (h : nodes[i]? = some n) (hu : n.used = true) :
    rank nodes i < (nodes.filter (·.used)).length := by
  have := filter_getElem?_rank nodes i n h hu
  exact (List.getElem?_eq_some_iff.1 this).1

theorem exists_rank : ∀ (nodes : List (NodeSlot R)) (j : Nat), j < (nodes.filter (·.used)).length →
    ∃ i n, nodes[i]? = some n ∧ n.used = true ∧ rank nodes i = j
  | [], j, h => by simp at h
  | m :: ms, j, h => by
    by_cases hm : m.used = true
    · cases j with
      | zero => exact ⟨0, m, by simp, hm, rank_zero _⟩
      | succ j =>
        have : j < (ms.filter (·.used)).length := by simp [List.filter_cons, hm] at h; omega
        obtain ⟨i, n, h1, h2, h3⟩ := exists_rank ms j this
        exact ⟨i + 1, n, by simpa using h1, h2, by rw [rank_cons_succ]; simp [hm, h3]; omega⟩
    · have : j < (ms.filter (·.used)).length := by simpa [List.filter_cons, hm] using h
      obtain ⟨i, n, h1, h2, h3⟩ := exists_rank ms j this
      exact ⟨i + 1, n, by simpa using h1, h2, by rw [rank_cons_succ]; simp [hm, h3]⟩

theorem rank_eq_self_of_all_used : ∀ (nodes : List (NodeSlot R)) (i : Nat), nodes.all (·.used) = true → i ≤ nodes.length → rank nodes i = i
  | _, 0, _, _ => rank_zero _
  | [], i + 1, _, h => by simp at h
  | m :: ms, i + 1, ha, h => by
    simp only [List.all_cons, Bool.and_eq_true] at ha
    rw [rank_cons_succ, rank_eq_self_of_all_used ms i ha.2 (by simpa using h)]
    simp [ha.1]; omega

/-- for a used slot the id written by `cell::rebase` is the rank of the slot -/
theorem renum_eq_rank (nodes : List (NodeSlot R)) (i : Nat) (n : NodeSlot R) (h : nodes[i]? = some n) (hu : n.used = true) :
    renum nodes i = rank nodes i := by
  unfold renum
  split
  · rename_i hall
    have hi : i < nodes.length := (List.getElem?_eq_some_iff.1 h).1
    exact (rank_eq_self_of_all_used nodes i hall (by omega)).symm
  · simp [h, hu]

/-- the rank is strictly increasing on used slots: the compaction keeps the order of the nodes -/
theorem rank_strictMono : ∀ (nodes : List (NodeSlot R)) (i j : Nat) (n : NodeSlot R), nodes[i]? = some n → n.used = true → i < j →
    rank nodes i < rank nodes j
  | [], i, j, n, h, _, _ => by simp at h
  | m :: ms, 0, j + 1, n, h, hu, _ => by
    simp at h; subst h
    rw [rank_zero, rank_cons_succ]; simp [hu]; omega
  | m :: ms, i + 1, j + 1, n, h, hu, hij => by
    simp at h
    have := rank_strictMono ms i j n h hu (by omega)
    rw [rank_cons_succ, rank_cons_succ]; omega

/-! ## conversions of the reader on the lines of the writer -/

theorem mapE_map_ok {α β γ : Type} {f : β → Except Err γ} {h : α → β} {g : α → γ} :
    ∀ {l : List α}, (∀ a ∈ l, f (h a) = .ok (g a)) → mapE f (l.map h) = .ok (l.map g)
  | [], _ => rfl
  | a :: as, hf => by
    have h1 := hf a (by simp)
    have h2 := mapE_map_ok (f := f) (h := h) (g := g) (l := as) (fun x hx => hf x (by simp [hx]))
    simp [mapE, h1, h2]

theorem mapE_stoi_ok {l : List Nat} (h : ∀ x ∈ l, x ≤ intMax) : mapE stoi l = .ok l := by
  have := mapE_ok_of_forall (f := stoi) (g := id) (l := l) (fun a ha => by simp [stoi, h a ha])
  simpa using this

theorem cellInts_length (off : Nat) (c : Cell R) : (cellInts off c).length = cellIntSize c := by
  simp only [cellInts, cellIntSize, intsPerCellBase_eq, intsPerFace_eq, List.length_cons, List.length_flatMap,
    List.length_nil]
  induction c.faces with
  | nil => simp
  | cons f fs ih => simp only [List.map_cons, List.sum_cons, List.length_cons]; omega

theorem convLine_ok (lead : Nat) (ints : List Nat) (h1 : lead ≤ intMax) (h2 : ∀ x ∈ ints, x ≤ intMax) (h3 : lead = ints.length) :
    convLine ⟨some lead, ints⟩ = .ok ints := by
  subst h3
  simp [convLine, stoi, h1, mapE_stoi_ok h2]

def FaceInRange (c : Cell R) : Prop := ∀ f ∈ c.faces, f.a < c.nodes.length ∧ f.b < c.nodes.length ∧ f.c < c.nodes.length

theorem cellInts_le (off bound : Nat) (c : Cell R) (hr : FaceInRange c) (hb : off + c.nodes.length ≤ bound) (hs : cellIntSize c ≤ bound)
    (h3 : 3 ≤ bound) : ∀ x ∈ cellInts off c, x ≤ bound := by
  intro x hx
  simp only [cellInts, List.mem_cons, List.mem_flatMap, List.not_mem_nil, or_false] at hx
  rcases hx with rfl | ⟨f, hf, hx⟩
  · have : cellIntSize c = 1 + c.faces.length * 4 := by simp [cellIntSize, intsPerCellBase_eq, intsPerFace_eq]
    omega
  · obtain ⟨ha, hb', hc⟩ := hr f hf
    rcases hx with rfl | rfl | rfl | rfl
    · rw [faceArity_eq]; exact h3
    · omega
    · omega
    · omega

theorem mapE_convLine_cells : ∀ (cs : List (Cell R)) (off : Nat), (∀ c ∈ cs, FaceInRange c) → (∀ c ∈ cs, cellIntSize c ≤ intMax) →
    off + (cs.map (fun c => c.nodes.length)).sum ≤ intMax →
    mapE convLine (List.zipWith (fun l ints => (⟨some l, ints⟩ : CellLine)) (leadsOf cs) (connOf off cs)) = .ok (connOf off cs)
  | [], _, _, _, _ => rfl
  | c :: cs, off, hr, hs, hb => by
    simp only [List.map_cons, List.sum_cons] at hb
    have ih := mapE_convLine_cells cs (off + c.nodes.length) (fun x hx => hr x (by simp [hx])) (fun x hx => hs x (by simp [hx])) (by omega)
    have h1 := convLine_ok (cellIntSize c) (cellInts off c) (hs c (by simp))
      (cellInts_le off intMax c (hr c (by simp)) (by omega) (hs c (by simp)) (by decide)) (cellInts_length off c).symm
    simp only [leadsOf, connOf, List.zipWith_cons_cons, mapE, h1, ih]

/-! ## `get_cell_mesh` on the lines of cells without free slots -/

/-- what reading back a cell without free slots must give: its coordinates through `Q` (the value
    `std::stod` returns for the formatted text) and its faces with their own node ids -/
def meshOf {Rw Rr : Type} (Q : Rw → Rr) (c : Cell Rw) : Mesh Rr :=
  ⟨c.coords.map Q, c.faces.map (fun f => [f.a, f.b, f.c])⟩

def Covered (c : Cell R) : Prop := ∀ i, i < c.nodes.length → ∃ f ∈ c.faces, f.a = i ∨ f.b = i ∨ f.c = i

theorem coords_length (c : Cell R) : c.coords.length = c.nodes.length * 3 := by
  simp only [Cell.coords]
  induction c.nodes with
  | nil => rfl
  | cons n ns ih => simp only [List.flatMap_cons, List.length_append, List.length_cons, List.length_nil, ih]; omega

theorem coords_length_all (cs : List (Cell R)) : (cs.flatMap Cell.coords).length = (cs.map (fun c => c.nodes.length)).sum * 3 := by
  induction cs with
  | nil => rfl
  | cons c cs ih => simp only [List.flatMap_cons, List.length_append, coords_length, ih, List.map_cons, List.sum_cons]; omega

theorem cellInts_shape (off : Nat) (c : Cell R) :
    cellInts off c = (c.faces.map (fun f => [f.a, f.b, f.c])).length :: (c.faces.map (fun f => [f.a, f.b, f.c])).flatMap (fun f => f.length :: f.map (· + off)) := by
  simp [cellInts, List.flatMap_map, faceArity_eq]

theorem getCellMesh_cells {Rw Rr : Type} (Q : Rw → Rr) : ∀ (cs : List (Cell Rw)) (off : Nat) (pre post : List Rr), pre.length = off * 3 →
    (∀ c ∈ cs, FaceInRange c) → (∀ c ∈ cs, Covered c) →
    mapE (cellMesh (pre ++ (cs.flatMap Cell.coords).map Q ++ post)) (connOf off cs) = .ok (cs.map (meshOf Q))
  | [], _, _, _, _, _, _ => rfl
  | c :: cs, off, pre, post, hp, hr, hc => by
    have hmid : (c.coords.map Q).length = c.nodes.length * 3 := by simp [coords_length]
    have ih := getCellMesh_cells Q cs (off + c.nodes.length) (pre ++ c.coords.map Q) post (by simp [hp, hmid]; omega)
      (fun x hx => hr x (by simp [hx])) (fun x hx => hc x (by simp [hx]))
    have h1 := cellMesh_ok pre (c.coords.map Q) ((cs.flatMap Cell.coords).map Q ++ post) off c.nodes.length
      (c.faces.map (fun f => [f.a, f.b, f.c])) hp hmid
      (by
        intro f hf i hi
        obtain ⟨g, hg, rfl⟩ := List.mem_map.1 hf
        obtain ⟨ha, hb, hcc⟩ := hr c (by simp) g hg
        simp at hi
        rcases hi with rfl | rfl | rfl <;> assumption)
      (by
        intro i hi
        obtain ⟨g, hg, h⟩ := hc c (by simp) i hi
        refine ⟨[g.a, g.b, g.c], List.mem_map.2 ⟨g, hg, rfl⟩, ?_⟩
        simp
        rcases h with h | h | h <;> simp [h])
    have e1 : pre ++ ((c :: cs).flatMap Cell.coords).map Q ++ post = pre ++ c.coords.map Q ++ ((cs.flatMap Cell.coords).map Q ++ post) := by simp
    have e2 : pre ++ ((c :: cs).flatMap Cell.coords).map Q ++ post = pre ++ c.coords.map Q ++ (cs.flatMap Cell.coords).map Q ++ post := by simp
    simp only [connOf, mapE, List.map_cons]
    rw [cellInts_shape, e1, h1]
    rw [← e1, e2, ih]
    rfl

theorem toShort_toNat (t : Int) (h0 : 0 ≤ t) (h1 : t ≤ 32767) : toShort t.toNat = t := by
  unfold toShort
  have : (t.toNat + 32768) % 65536 = t.toNat + 32768 := Nat.mod_eq_of_lt (by omega)
  rw [this]
  have h2 : Int.ofNat (t.toNat + 32768) = (t.toNat : Int) + 32768 := by simp
  rw [h2, Int.toNat_of_nonneg h0]
  omega

end Simu.Vtk
