import SimuVerif.Lemmas.C14_TissueStages
import SimuVerif.Lemmas.C14_RemeshStages
import SimuVerif.Model.TissueR
/-
  C14 (tissue WITH remeshing) — every stage of `TissueR.tissueIterationR` commutes with the translation of the tissue
  (`TissueR.translateTR`: the USED node slots of every cell are shifted; a released slot keeps the (0,0,0) of `node::reset`).

  The mesh stage (rebase of `save_mesh`, `update_face_types`, `refine_meshes`) is `Remesh.rebase_translate` /
  `Remesh.refineMesh_translate_gen` per cell, lifted through the exception rule of `parallel_exception_handler` (`collect`) and
  the replay of the operation log on the node attributes.  The contact model, the coupling pass and the integrator are the stage
  lemmas of Lemmas/C14_Tissue*.lean applied to the `view` of the cells (the `Tissue.Cell` of the USED faces whose position
  lookup is totalised with the first used node, so that `view (trCellR t c) = trCell t (view c)`), re-proved where the loops
  test `is_used()`.
-/
namespace Simu.TissueR
open Simu Simu.Forces Simu.Gen Simu.Remesh Simu.PipelineR Simu.C14T

set_option linter.unusedSectionVars false
set_option linter.unusedVariables false

variable {R : Type} [Field R] [LinearOrder R] [IsStrictOrderedRing R]

/-! ### bookkeeping -/

@[simp] theorem trCellR_mesh (t : V3 R) (c : CellTR R) : (trCellR t c).mesh = translateCell t c.mesh := rfl
@[simp] theorem trCellR_a (t : V3 R) (c : CellTR R) : (trCellR t c).a = c.a := rfl
@[simp] theorem trCellR_k (t : V3 R) (c : CellTR R) : (trCellR t c).k = c.k := rfl

/-- the exception rule of `parallel_exception_handler` commutes with a map of the results -/
theorem collect_map {ε α β : Type} (g : α → β) : ∀ (l : List (Except ε α)),
    collect (l.map (Except.map g)) = (collect l).map (List.map g)
  | [] => rfl
  | r :: rest => by
    simp only [List.map_cons, collect, collect_map g rest]
    cases collect rest with
    | error e => cases r <;> rfl
    | ok l => cases r <;> rfl

theorem collect_congr {ε α β : Type} (g : β → β) (f : α → Except ε β) (h : α → α) (l : List α)
    (hf : ∀ x ∈ l, f (h x) = (f x).map g) :
    collect ((l.map h).map f) = (collect (l.map f)).map (List.map g) := by
  rw [← collect_map, List.map_map, List.map_map]
  congr 1
  apply List.map_congr_left
  intro x hx
  exact hf x hx

/-! ### 1. save_mesh -/

theorem rebaseCell_tr (t : V3 R) (c : CellTR R) : rebaseCell (trCellR t c) = (rebaseCell c).map (trCellR t) := by
  unfold rebaseCell
  simp only [trCellR_mesh, rebase_translate, trCellR_a, tr_freeNodes]
  cases rebase c.mesh with
  | error e => rfl
  | ok m => rfl

theorem saveMeshT_tr (fn : Fn R) (K : ConstsTR R) (s : StateTR R) (t : V3 R) :
    saveMeshT fn K (translateTR t s) = (saveMeshT fn K s).map (translateTR t) := by
  unfold saveMeshT translateTR
  simp only []
  by_cases h : Gen.saveCond (Gen.fileNumber fn s.time K.samplingPeriod) s.fileNo = true
  · simp only [h, if_true]
    rw [collect_congr (trCellR t) rebaseCell (trCellR t) s.cells (fun c _ => rebaseCell_tr t c)]
    cases collect (s.cells.map rebaseCell) with
    | error e => rfl
    | ok cs => rfl
  · simp only [h]
    rfl

/-! ### 3., 4. update_face_types, refine_meshes -/

theorem refineCell_tr (fn : Fn R) (K : ConstsTR R) (c : CellTR R) (t : V3 R) (hl : refineLiveCell fn K c = true) :
    refineCell fn K (trCellR t c) = (refineCell fn K c).map (trCellR t) := by
  unfold refineLiveCell at hl
  unfold refineCell
  simp only [trCellR_mesh, trCellR_k, trCellR_a, faceTypes_translate, Remesh.refineMesh_translate_gen t fn _ _ _ _ _ hl]
  generalize refineMesh fn (Gen.refineConsts fn) (lminSq (kR K c.k)) (lmaxSq (kR K c.k)) K.swapOn (faceTypes (kR K c.k) c.mesh) K.maxIter = r
  obtain ⟨m, o, l⟩ := r
  have hr : replayLog c.a (translateCell t (faceTypes (kR K c.k) c.mesh)) l = replayLog c.a (faceTypes (kR K c.k) c.mesh) l := by
    unfold replayLog
    simp only [tr_freeNodes, tr_nodes_size]
  simp only [trResult, hr]
  unfold refineResult
  cases o <;> rfl

theorem replayOk_tr (fn : Fn R) (K : ConstsTR R) (c : CellTR R) (t : V3 R) (hl : refineLiveCell fn K c = true) :
    replayOk fn K (trCellR t c) = replayOk fn K c := by
  unfold refineLiveCell at hl
  unfold replayOk
  simp only [trCellR_mesh, trCellR_k, trCellR_a, faceTypes_translate, Remesh.refineMesh_translate_gen t fn _ _ _ _ _ hl]
  generalize refineMesh fn (Gen.refineConsts fn) (lminSq (kR K c.k)) (lmaxSq (kR K c.k)) K.swapOn (faceTypes (kR K c.k) c.mesh) K.maxIter = r
  obtain ⟨m, o, l⟩ := r
  have hr : replayLog c.a (translateCell t (faceTypes (kR K c.k) c.mesh)) l = replayLog c.a (faceTypes (kR K c.k) c.mesh) l := by
    unfold replayLog
    simp only [tr_freeNodes, tr_nodes_size]
  simp only [trResult, hr, tr_freeNodes, tr_nodes_size]

theorem refineLiveCell_tr (fn : Fn R) (K : ConstsTR R) (c : CellTR R) (t : V3 R) :
    refineLiveCell fn K (trCellR t c) = refineLiveCell fn K c := by
  unfold refineLiveCell
  simp only [trCellR_mesh, trCellR_k, faceTypes_translate, Remesh.refineLive_translate_gen]

theorem liveAndReplay_tr (fn : Fn R) (K : ConstsTR R) (c : CellTR R) (t : V3 R) :
    (refineLiveCell fn K (trCellR t c) && replayOk fn K (trCellR t c)) = (refineLiveCell fn K c && replayOk fn K c) := by
  rw [refineLiveCell_tr]
  cases hl : refineLiveCell fn K c with
  | false => rfl
  | true => rw [replayOk_tr fn K c t hl]

theorem refineLiveT_tr (fn : Fn R) (K : ConstsTR R) (s : StateTR R) (t : V3 R) :
    refineLiveT fn K (translateTR t s) = refineLiveT fn K s := by
  unfold refineLiveT
  rw [saveMeshT_tr]
  cases saveMeshT fn K s with
  | error e => rfl
  | ok s1 =>
    show ((s1.cells.map (trCellR t)).all fun c => refineLiveCell fn K c && replayOk fn K c) = _
    rw [List.all_map]
    congr 1
    funext c
    exact liveAndReplay_tr fn K c t

theorem meshStageT_tr (fn : Fn R) (K : ConstsTR R) (s : StateTR R) (t : V3 R) (hl : refineLiveT fn K s = true) :
    meshStageT fn K (translateTR t s) = (meshStageT fn K s).map (translateTR t) := by
  unfold meshStageT
  rw [saveMeshT_tr]
  unfold refineLiveT at hl
  cases hs : saveMeshT fn K s with
  | error e => rfl
  | ok s1 =>
    rw [hs] at hl
    simp only [List.all_eq_true, Bool.and_eq_true] at hl
    show (collect ((s1.cells.map (trCellR t)).map (refineCell fn K))).map _ = _
    rw [collect_congr (trCellR t) (refineCell fn K) (trCellR t) s1.cells (fun c hc => refineCell_tr fn K c t (hl c hc).1)]
    show _ = Except.map (translateTR t) (Except.map _ (collect (s1.cells.map (refineCell fn K))))
    cases collect (s1.cells.map (refineCell fn K)) with
    | error e => rfl
    | ok cs => rfl

/-! ### the view of a cell -/

theorem anchor_tr (t : V3 R) (m : Cell R) (h : hasNode m = true) : anchor (translateCell t m) = anchor m + t := by
  unfold anchor
  rw [tr_nodes, Array.toList_map, find_used_map]
  cases hf : m.nodes.toList.find? (fun n => n.used) with
  | none =>
    obtain ⟨n, hn, hu⟩ := hasNode_iff.1 h
    have := List.find?_eq_none.1 hf n hn
    simp [hu] at this
  | some n =>
    have hu : n.used = true := by simpa using List.find?_some hf
    simp only [Option.map_some, trNode_pos_of_used t hu]

theorem viewPos_tr (t : V3 R) (m : Cell R) (h : hasNode m = true) :
    viewPos (translateCell t m) = (viewPos m).map (fun p => p + t) := by
  unfold viewPos Pipeline.Slots.map
  rw [anchor_tr t m h, tr_nodes, Array.map_map, Array.map_map]
  simp only [Pipeline.Slots.mk.injEq, and_true]
  apply Array.ext_getElem?
  intro i
  simp only [Array.getElem?_map]
  cases m.nodes[i]? with
  | none => rfl
  | some n =>
    simp only [Option.map_some, Function.comp, trNode_used]
    cases hu : n.used with
    | true => simp only [if_true, trNode_pos_of_used t hu]
    | false => simp only [Bool.false_eq_true, if_false]

theorem viewPos_get (m : Cell R) (i : Nat) : (viewPos m).get i = posT m i := by
  unfold viewPos Pipeline.Slots.get posT
  simp only [Array.getElem?_map]
  cases m.nodes[i]? <;> rfl

theorem viewPos_get_tr (t : V3 R) (m : Cell R) (h : hasNode m = true) :
    (viewPos (translateCell t m)).get = fun i => (viewPos m).get i + t := by
  funext i
  rw [viewPos_tr t m h]
  exact C14.Slots.get_map _ _ _

theorem mom_tr (t : V3 R) (m : Cell R) : (translateCell t m).nodes.map (fun n => n.mom) = m.nodes.map (fun n => n.mom) := by
  rw [tr_nodes, Array.map_map]
  congr 1
  funext n
  exact trNode_mom t n

/-- **the cell the contact model sees moves with the cell** -/
theorem view_tr (t : V3 R) (c : CellTR R) (h : hasNode c.mesh = true) : view (trCellR t c) = Tissue.trCell t (view c) := by
  unfold view Tissue.trCell
  simp only [trCellR_mesh, trCellR_a, trCellR_k, viewPos_tr t c.mesh h, mom_tr, liveF_translate]
  rfl

theorem views_tr (t : V3 R) (cells : List (CellTR R)) (hn : ∀ c ∈ cells, hasNode c.mesh = true) :
    (cells.map (trCellR t)).map view = (cells.map view).map (Tissue.trCell t) := by
  rw [List.map_map, List.map_map]
  apply List.map_congr_left
  intro c hc
  exact view_tr t c (hn c hc)

/-! ### 5. the contact model -/

theorem usedArr_tr (t : V3 R) (cells : List (CellTR R)) : usedArr (cells.map (trCellR t)) = usedArr cells := by
  unfold usedArr
  rw [List.map_map]
  congr 1
  apply List.map_congr_left
  intro c _
  simp only [Function.comp, trCellR_mesh, tr_nodes, Array.map_map]
  congr 1
  funext n
  exact trNode_used t n

theorem resetMutR_tr (K : Tissue.Consts R) (t : V3 R) (c : CellTR R) : resetMutR K (trCellR t c) = resetMutR K c := by
  unfold resetMutR
  simp only [trCellR_a, trCellR_mesh, tr_usedN]

theorem usedAt_usedArr (cells : List (CellTR R)) (k : Nat × Nat) (h : usedAt (usedArr cells) k = true) :
    ∃ c, cells[k.1]? = some c ∧ usedN c.mesh k.2 = true := by
  unfold usedAt usedArr at h
  simp only [List.getElem?_toArray, List.getElem?_map] at h
  cases hc : cells[k.1]? with
  | none => rw [hc] at h; simp at h
  | some c =>
    refine ⟨c, rfl, ?_⟩
    rw [hc] at h
    simp only [Option.map_some, Array.getElem?_map] at h
    unfold usedN
    cases hn : c.mesh.nodes[k.2]? with
    | none => rw [hn] at h; simp at h
    | some n => rw [hn] at h; simpa using h

theorem covered_of_usedCovered {m : Cell R} (h : usedCovered m = true) {i : Nat} (hu : usedN m i = true) :
    ∃ f ∈ liveF m, f.a = i ∨ f.b = i ∨ f.c = i := by
  unfold usedCovered at h
  rw [List.all_eq_true] at h
  have hi : i < m.nodes.size := by
    obtain ⟨n, hn, _⟩ := usedN_iff.1 hu
    exact (Array.getElem?_eq_some_iff.1 hn).1
  have := h i (List.mem_range.2 hi)
  simp only [hu, Bool.not_true, Bool.false_or, List.any_eq_true, Bool.or_eq_true, beq_iff_eq] at this
  obtain ⟨f, hf, hcor⟩ := this
  exact ⟨f, hf, by rcases hcor with (h1 | h1) | h1 <;> simp [h1]⟩

/-- **the search over the used node slots: same couplings, closest distances and contact forces for the translated tissue** -/
theorem contactSearchR_tr [FloorRing R] (fn : Fn R) (K : Tissue.Consts R)
    (S : C06.Setup fn K.delta (Tissue.cparams K).padding (Tissue.cparams K).voxel)
    (cells : List (CellTR R)) (hn : ∀ c ∈ cells, hasNode c.mesh = true) (hcov : ∀ c ∈ cells, usedCovered c.mesh = true) (t : V3 R) :
    contactSearchR fn K (cells.map (trCellR t)) = contactSearchR fn K cells := by
  unfold contactSearchR
  have hr : (cells.map (trCellR t)).map (resetMutR K) = cells.map (resetMutR K) := by
    rw [List.map_map]
    apply List.map_congr_left
    intro c _
    exact resetMutR_tr K t c
  simp only [views_tr t cells hn, usedArr_tr, slotOrder_tr, faceIndex_tr, geoArr_tr, hr]
  apply foldl_congr_mem
  intro k hk st
  by_cases hu : usedAt (usedArr cells) k = true
  · simp only [hu, if_true]
    obtain ⟨c, hc, huc⟩ := usedAt_usedArr cells k hu
    have hv : (cells.map view)[k.1]? = some (view c) := by rw [List.getElem?_map, hc]; rfl
    have hmem : c ∈ cells := List.mem_of_getElem? hc
    exact nodeSearch_tr fn (Tissue.cparams K) _ _ _ _ t st k
      (gridCandidates_tr fn K S (cells.map view) t k.1 k.2 (view c) hv (covered_of_usedCovered (hcov c hmem) huc))
  · simp only [hu]
    rfl

theorem writeMutR_tr (t : V3 R) (cells : List (CellTR R)) (st : Array (Tissue.Mut R)) :
    writeMutR (cells.map (trCellR t)) st = (writeMutR cells st).map (trCellR t) := by
  unfold writeMutR
  rw [List.zipIdx_map, List.map_map, List.map_map]
  apply List.map_congr_left
  intro ci _
  simp only [Function.comp, Prod.map, id]
  cases st[ci.2]? <;> rfl

theorem toPopCell_tr (t : V3 R) (c : CellTR R) (h : hasNode c.mesh = true) :
    toPopCell (trCellR t c) = (toPopCell c).map (trN t) := by
  unfold toPopCell
  simp only [trCellR_mesh, trCellR_a, tr_nodes_size, tr_usedN, viewPos_get_tr t c.mesh h, List.map_map]
  apply List.map_congr_left
  intro i _
  rfl

theorem toPopR_tr (t : V3 R) (cells : List (CellTR R)) (hn : ∀ c ∈ cells, hasNode c.mesh = true) :
    toPopR (cells.map (trCellR t)) = trPop t (toPopR cells) := by
  unfold toPopR trPop
  rw [List.map_map, List.map_map]
  apply List.map_congr_left
  intro c hc
  exact toPopCell_tr t c (hn c hc)

theorem cellTR_ext {c d : CellTR R} (hk : c.k = d.k) (hm : c.mesh = d.mesh) (ha : c.a = d.a) (h1 : c.area = d.area)
    (h2 : c.volume = d.volume) (h3 : c.tvol = d.tvol) (h4 : c.pressure = d.pressure) : c = d := by
  cases c; cases d; simp_all

theorem cell_ext {c d : Cell R} (h1 : c.nodes = d.nodes) (h2 : c.faces = d.faces) (h3 : c.edges = d.edges)
    (h4 : c.freeNodes = d.freeNodes) (h5 : c.freeFaces = d.freeFaces) : c = d := by
  cases c; cases d; simp_all

theorem attrs_ext {A B : Attrs R} (h1 : A.force = B.force) (h2 : A.normal = B.normal) (h3 : A.curv = B.curv)
    (h4 : A.coup = B.coup) (h5 : A.sqd = B.sqd) : A = B := by
  cases A; cases B; simp_all

theorem ofPopCellR_tr (t : V3 R) (c : CellTR R) (l : List (Coupling.CNode R)) :
    ofPopCellR (trCellR t c) (l.map (trN t)) = trCellR t (ofPopCellR c l) := by
  unfold ofPopCellR
  apply cellTR_ext <;> try rfl
  · apply cell_ext <;> try rfl
    show (c.mesh.nodes.map (trNode t)).mapIdx _ = (c.mesh.nodes.mapIdx _).map (trNode t)
    apply Array.ext_getElem?
    intro i
    simp only [Array.getElem?_mapIdx, Array.getElem?_map, Option.map_map, List.getElem?_toArray, List.getElem?_map]
    cases c.mesh.nodes[i]? with
    | none => rfl
    | some n =>
      simp only [Option.map_some, Function.comp, trNode_used]
      cases hu : n.used with
      | false => simp only [Bool.false_eq_true, if_false, trNode_of_unused t hu]
      | true =>
        simp only [if_true]
        rw [trNode_of_used t hu, trNode_of_used t (by rfl)]
        cases l[i]? <;> rfl
  · apply attrs_ext <;> try rfl
    show Array.mapIdx _ c.a.coup = Array.mapIdx _ c.a.coup
    apply Array.ext_getElem?
    intro i
    simp only [Array.getElem?_mapIdx, List.getElem?_toArray, List.getElem?_map]
    cases c.a.coup[i]? with
    | none => rfl
    | some q => cases l[i]? <;> rfl

theorem ofPopR_tr (t : V3 R) (cells : List (CellTR R)) (p : Coupling.Pop R) :
    ofPopR (cells.map (trCellR t)) (trPop t p) = (ofPopR cells p).map (trCellR t) := by
  unfold ofPopR
  rw [List.zipIdx_map, List.map_map, List.map_map]
  apply List.map_congr_left
  intro ci _
  simp only [Function.comp, Prod.map, id, getElem?_trPop]
  cases p[ci.2]? with
  | none => rfl
  | some l => exact ofPopCellR_tr t ci.1 l

/-! ### what the stages keep: the used flags of the node slots (hence `hasNode`) -/

/-- the used flags of the node slots -/
def flags (m : Cell R) : Array Bool := m.nodes.map (fun n => n.used)

theorem hasNode_of_flags {m m' : Cell R} (h : flags m' = flags m) : hasNode m' = hasNode m := by
  unfold hasNode
  have e : ∀ x : Cell R, (x.nodes.toList.any fun n => n.used) = (flags x).toList.any id := by
    intro x; unfold flags; rw [Array.toList_map, List.any_map]; rfl
  rw [e, e, h]

theorem flags_mapIdx (m : Cell R) (f : Nat → Node R → Node R) (hf : ∀ i n, (f i n).used = n.used) :
    (m.nodes.mapIdx f).map (fun n => n.used) = flags m := by
  unfold flags
  apply Array.ext_getElem?
  intro i
  simp only [Array.getElem?_map, Array.getElem?_mapIdx, Option.map_map]
  cases m.nodes[i]? with
  | none => rfl
  | some n => simp only [Option.map_some, Function.comp, hf]

theorem flags_ofPopCellR (c : CellTR R) (l : List (Coupling.CNode R)) : flags (ofPopCellR c l).mesh = flags c.mesh := by
  unfold ofPopCellR
  apply flags_mapIdx
  intro i n
  split <;> simp_all

theorem mem_zipIdx_map {α β : Type} {l : List α} {g : α × Nat → β} {y : β} (h : y ∈ l.zipIdx.map g) :
    ∃ x ∈ l, ∃ i, y = g (x, i) := by
  obtain ⟨ci, hci, rfl⟩ := List.mem_map.1 h
  exact ⟨ci.1, (List.mem_zipIdx hci).2.2 ▸ List.getElem_mem _, ci.2, rfl⟩

theorem contactRunR_hasNode (fn : Fn R) (K : Tissue.Consts R) (cells : List (CellTR R))
    (hn : ∀ c ∈ cells, hasNode c.mesh = true) : ∀ c ∈ (contactRunR fn K cells).1, hasNode c.mesh = true := by
  have hw : ∀ st, ∀ c ∈ writeMutR cells st, hasNode c.mesh = true := by
    intro st c hc
    unfold writeMutR at hc
    obtain ⟨x, hx, i, rfl⟩ := mem_zipIdx_map hc
    simp only
    split <;> exact hn x hx
  unfold contactRunR
  simp only
  split
  · intro c hc
    unfold ofPopR at hc
    obtain ⟨x, hx, i, rfl⟩ := mem_zipIdx_map hc
    simp only
    split
    · rw [hasNode_of_flags (flags_ofPopCellR x _)]; exact hw _ x hx
    · exact hw _ x hx
  · exact hw _

/-- **`contact_node_node_via_coupling::run` on meshes with released slots commutes with the translation** -/
theorem contactRunR_tr [FloorRing R] (fn : Fn R) (K : Tissue.Consts R)
    (S : C06.Setup fn K.delta (Tissue.cparams K).padding (Tissue.cparams K).voxel)
    (cells : List (CellTR R)) (hn : ∀ c ∈ cells, hasNode c.mesh = true) (hcov : ∀ c ∈ cells, usedCovered c.mesh = true) (t : V3 R) :
    contactRunR fn K (cells.map (trCellR t)) = (((contactRunR fn K cells).1).map (trCellR t), (contactRunR fn K cells).2) := by
  have hw : ∀ c ∈ writeMutR cells (contactSearchR fn K cells), hasNode c.mesh = true := by
    intro c hc
    unfold writeMutR at hc
    obtain ⟨x, hx, i, rfl⟩ := mem_zipIdx_map hc
    simp only
    split <;> exact hn x hx
  unfold contactRunR
  simp only [contactSearchR_tr fn K S cells hn hcov t, writeMutR_tr, toPopR_tr t _ hw, pass_tr]
  cases Coupling.pass (toPopR (writeMutR cells (contactSearchR fn K cells))) with
  | none => rfl
  | some p => simp only [Option.map_some, ofPopR_tr]

/-! ### 6. special_polarization_update -/

theorem hasEdgeR_tr (t : V3 R) (cells : List (CellTR R)) (i a b : Nat) :
    hasEdgeR (cells.map (trCellR t)) i a b = hasEdgeR cells i a b := by
  unfold hasEdgeR
  rw [List.getElem?_map]
  cases cells[i]? <;> rfl

theorem polariseFaceR_tr (t : V3 R) (cells : List (CellTR R)) (c : CellTR R) (f : Remesh.Face R) :
    polariseFaceR (cells.map (trCellR t)) (trCellR t c) f = polariseFaceR cells c f := by
  unfold polariseFaceR
  simp only [hasEdgeR_tr, trCellR_a]

theorem polariseR_tr (t : V3 R) (cells : List (CellTR R)) : polariseR (cells.map (trCellR t)) = (polariseR cells).map (trCellR t) := by
  unfold polariseR
  rw [List.map_map, List.map_map]
  apply List.map_congr_left
  intro c _
  simp only [Function.comp, polariseCellR, trCellR_k]
  have e : polariseFaceR (cells.map (trCellR t)) (trCellR t c) = polariseFaceR cells c := funext (polariseFaceR_tr t cells c)
  rw [e]
  by_cases h : c.k.kind = 0
  · simp only [h, if_true]; rfl
  · simp only [h, if_false]

theorem polariseR_hasNode (cells : List (CellTR R)) (hn : ∀ c ∈ cells, hasNode c.mesh = true) :
    ∀ c ∈ polariseR cells, hasNode c.mesh = true := by
  intro c hc
  unfold polariseR at hc
  obtain ⟨x, hx, rfl⟩ := List.mem_map.1 hc
  unfold polariseCellR
  split_ifs
  · exact hn x hx
  · exact hn x hx

/-! ### 7. apply_internal_forces -/

open Simu.Gen.NodeNormals in
/-- **node normals / curvatures over the stored edge index are functions of position differences** -/
theorem nodeNormalsH_tr (fx : FX R) (x : Nat → V3 R) (F : List Forces.Face) (H : List Forces.Hinge) (vol : R) (n : Nat) (t : V3 R) :
    nodeNormalsH fx (fun i => x i + t) F H vol n = nodeNormalsH fx x F H vol n := by
  unfold nodeNormalsH
  simp only [faceGeom_tr, nnEdge_tr]

/-- the model of Model/Tissue.lean is the special case "edge list = `hingesSorted`" -/
theorem nodeNormals_eq (fx : FX R) (x : Nat → V3 R) (F : List Forces.Face) (vol : R) (n : Nat) :
    (Tissue.nodeNormals fx x F vol n).toList = (nodeNormalsH fx x F (hingesSorted F) vol n).toList := by
  unfold Tissue.nodeNormals nodeNormalsH
  simp only [Array.toList_map, Array.toList_range, Array.toList_mapIdx, Array.toList_replicate]
  apply List.ext_getElem?
  intro i
  simp only [List.getElem?_map, List.getElem?_mapIdx, List.getElem?_replicate]
  by_cases h : i < n
  · simp [h]
  · simp [h]

theorem internalContribsSlots_tr_exact (fx : FX R) (x : Nat → V3 R) (S : List Forces.Slot) (E : List Forces.EdgeRec)
    (p : Forces.Params R) (t : V3 R) :
    internalContribsSlots fx (fun i => x i + t) S E p = internalContribsSlots fx x S E p := by
  simp only [internalContribsSlots, prelude_tr_exact fx x (liveFaces S) p t, pressureContribs, tensionContribs,
    bendingContribsOf, angleContribs, faceGeom_tr, tensionFace_tr, angleFace_tr, bendingHinge_tr]

theorem mapIdx_used {β : Type} (t : V3 R) (nodes : Array (Node R)) (A : Nat → β) (B : β) :
    (nodes.map (trNode t)).mapIdx (fun i n => if n.used = true then A i else B)
      = nodes.mapIdx (fun i n => if n.used = true then A i else B) := by
  apply Array.ext_getElem?
  intro i
  simp only [Array.getElem?_mapIdx, Array.getElem?_map, Option.map_map]
  cases nodes[i]? with
  | none => rfl
  | some n => simp only [Option.map_some, Function.comp, trNode_used]

/-- **`apply_internal_forces` on a mesh with released slots commutes with the translation** (no closedness needed: the volume
    determinants are centred) -/
theorem applyInternalForcesR_tr (fx : FX R) (K : Tissue.Consts R) (c : CellTR R) (t : V3 R) (h : hasNode c.mesh = true) :
    applyInternalForcesR fx K (trCellR t c) = trCellR t (applyInternalForcesR fx K c) := by
  unfold applyInternalForcesR
  simp only [trCellR_mesh, trCellR_a, trCellR_k, viewPos_get_tr t c.mesh h, liveF_translate, slots_translate, edgeRecs_translate,
    prelude_tr_exact, internalContribsSlots_tr_exact, nodeNormalsH_tr, refreshGeom_translate fx t _ (hasNode_iff.1 h),
    tr_nodes, mapIdx_used, Array.size_map]
  rfl

theorem applyInternalForcesR_flags (fx : FX R) (K : Tissue.Consts R) (c : CellTR R) :
    flags (applyInternalForcesR fx K c).mesh = flags c.mesh := rfl

/-! ### 8. update_nodes_positions -/

theorem topoR_tr (t : V3 R) (cells : List (CellTR R)) : topoR (cells.map (trCellR t)) = topoR cells := by
  unfold topoR
  rw [List.zipIdx_map, List.map_map]
  apply List.map_congr_left
  intro ci _
  simp only [Function.comp, Prod.map, id, trCellR_mesh, trCellR_a, trCellR_k, tr_nodes_size, tr_usedN]
  rfl

theorem toDynCell_tr (t : V3 R) (c : CellTR R) (h : hasNode c.mesh = true) :
    toDynCell (trCellR t c) = (toDynCell c).map (trDyn t) := by
  unfold toDynCell
  simp only [trCellR_mesh, trCellR_a, tr_nodes_size, viewPos_get_tr t c.mesh h, List.map_map, tr_getNode, Option.map_map]
  apply List.map_congr_left
  intro i _
  simp only [Function.comp, trDyn]
  congr 1
  cases c.mesh.nodes[i]? with
  | none => rfl
  | some n => simp only [Option.map_some, Function.comp, trNode_mom]

theorem toDynR_tr (t : V3 R) (cells : List (CellTR R)) (hn : ∀ c ∈ cells, hasNode c.mesh = true) :
    toDynR (cells.map (trCellR t)) = trD t (toDynR cells) := by
  unfold toDynR trD
  rw [List.map_map, List.map_map]
  apply List.map_congr_left
  intro c hc
  exact toDynCell_tr t c (hn c hc)

theorem ofDynCellR_tr (t : V3 R) (c : CellTR R) (l : List (Integ.Dyn R)) :
    ofDynCellR (trCellR t c) (l.map (trDyn t)) = trCellR t (ofDynCellR c l) := by
  unfold ofDynCellR
  apply cellTR_ext <;> try rfl
  · apply cell_ext <;> try rfl
    show (c.mesh.nodes.map (trNode t)).mapIdx _ = (c.mesh.nodes.mapIdx _).map (trNode t)
    apply Array.ext_getElem?
    intro i
    simp only [Array.getElem?_mapIdx, Array.getElem?_map, Option.map_map, List.getElem?_toArray, List.getElem?_map]
    cases c.mesh.nodes[i]? with
    | none => rfl
    | some n =>
      simp only [Option.map_some, Function.comp, trNode_used]
      cases hu : n.used with
      | false => simp only [Bool.false_eq_true, if_false, trNode_of_unused t hu]
      | true =>
        simp only [if_true]
        rw [trNode_of_used t hu, trNode_of_used t (by rfl)]
        cases l[i]? <;> rfl
  · apply attrs_ext <;> try rfl
    show Array.mapIdx _ c.a.force = Array.mapIdx _ c.a.force
    apply Array.ext_getElem?
    intro i
    simp only [Array.getElem?_mapIdx, List.getElem?_toArray, List.getElem?_map, trCellR_mesh, tr_usedN]
    cases c.a.force[i]? with
    | none => rfl
    | some q => cases l[i]? <;> rfl

theorem ofDynR_tr (t : V3 R) (cells : List (CellTR R)) (d : Integ.DynS R) :
    ofDynR (cells.map (trCellR t)) (trD t d) = (ofDynR cells d).map (trCellR t) := by
  unfold ofDynR
  rw [List.zipIdx_map, List.map_map, List.map_map]
  apply List.map_congr_left
  intro ci _
  have hg : (trD t d)[ci.2]? = (d[ci.2]?).map (List.map (trDyn t)) := by unfold trD; rw [List.getElem?_map]
  simp only [Function.comp, Prod.map, id, hg]
  cases d[ci.2]? with
  | none => rfl
  | some l => exact ofDynCellR_tr t ci.1 l

/-- **`update_nodes_positions` on meshes with released slots commutes with the translation** -/
theorem integrateR_tr (K : Tissue.Consts R) (time : R) (cells : List (CellTR R)) (hn : ∀ c ∈ cells, hasNode c.mesh = true) (t : V3 R) :
    integrateR K time (cells.map (trCellR t)) = ((integrateR K time cells).1, (integrateR K time cells).2.map (trCellR t)) := by
  unfold integrateR
  simp only [topoR_tr, toDynR_tr t cells hn, step_tr, ofDynR_tr]

/-! ### the iteration -/

theorem beforeIntegrationR_tr [FloorRing R] (fn : Fn R) (fx : FX R) (K : Tissue.Consts R)
    (S : C06.Setup fn K.delta (Tissue.cparams K).padding (Tissue.cparams K).voxel)
    (cells : List (CellTR R)) (hn : ∀ c ∈ cells, hasNode c.mesh = true) (hcov : ∀ c ∈ cells, usedCovered c.mesh = true) (t : V3 R) :
    beforeIntegrationR fn fx K (cells.map (trCellR t))
      = ((beforeIntegrationR fn fx K cells).1.map (trCellR t), (beforeIntegrationR fn fx K cells).2) := by
  unfold beforeIntegrationR
  simp only [contactRunR_tr fn K S cells hn hcov t, polariseR_tr]
  congr 1
  rw [List.map_map, List.map_map]
  apply List.map_congr_left
  intro c hc
  exact applyInternalForcesR_tr fx K c t (polariseR_hasNode _ (contactRunR_hasNode fn K cells hn) c hc)

theorem beforeIntegrationR_hasNode (fn : Fn R) (fx : FX R) (K : Tissue.Consts R) (cells : List (CellTR R))
    (hn : ∀ c ∈ cells, hasNode c.mesh = true) : ∀ c ∈ (beforeIntegrationR fn fx K cells).1, hasNode c.mesh = true := by
  intro c hc
  unfold beforeIntegrationR at hc
  obtain ⟨x, hx, rfl⟩ := List.mem_map.1 hc
  rw [hasNode_of_flags (applyInternalForcesR_flags fx K x)]
  exact polariseR_hasNode _ (contactRunR_hasNode fn K cells hn) x hx

theorem physFrom_tr (K : ConstsTR R) (s : StateTR R) (r : List (CellTR R) × Bool) (hn : ∀ c ∈ r.1, hasNode c.mesh = true) (t : V3 R) :
    physFrom K (translateTR t s) (r.1.map (trCellR t), r.2) = translateTR t (physFrom K s r) := by
  unfold physFrom translateTR
  simp only [integrateR_tr K.base s.time r.1 hn t]

/-- steps 5–8 and 11 commute with the translation -/
theorem physStage_tr [FloorRing R] (fn : Fn R) (fx : FX R) (K : ConstsTR R)
    (S : C06.Setup fn K.base.delta (Tissue.cparams K.base).padding (Tissue.cparams K.base).voxel)
    (s : StateTR R) (hn : ∀ c ∈ s.cells, hasNode c.mesh = true) (hcov : ∀ c ∈ s.cells, usedCovered c.mesh = true) (t : V3 R) :
    physStage fn fx K (translateTR t s) = translateTR t (physStage fn fx K s) := by
  unfold physStage
  have h := beforeIntegrationR_tr fn fx K.base S s.cells hn hcov t
  show physFrom K (translateTR t s) (beforeIntegrationR fn fx K.base (s.cells.map (trCellR t))) = _
  rw [h]
  exact physFrom_tr K s _ (beforeIntegrationR_hasNode fn fx K.base s.cells hn) t

/-! ### the domain -/

theorem queueOk_tr (t : V3 R) (m : Cell R) : queueOk (translateCell t m) = queueOk m := by
  unfold queueOk
  have hl : ((translateCell t m).nodes.toList.filter fun n => !n.used).length = (m.nodes.toList.filter fun n => !n.used).length := by
    rw [tr_nodes, Array.toList_map, List.filter_map, List.length_map]
    congr 2
    funext n
    simp only [Function.comp, trNode_used]
  simp only [hl, tr_freeNodes, tr_usedN]

theorem usedCovered_tr (t : V3 R) (m : Cell R) : usedCovered (translateCell t m) = usedCovered m := by
  unfold usedCovered
  simp only [tr_nodes_size, tr_usedN, liveF_translate]

theorem cellMeshOk_tr (t : V3 R) (c : CellTR R) : cellMeshOk (trCellR t c) = cellMeshOk c := by
  unfold cellMeshOk
  have h1 : edgeFacesUsed (translateCell t c.mesh) = edgeFacesUsed c.mesh := rfl
  have h2 : attrsOk (trCellR t c) = attrsOk c := by unfold attrsOk; simp only [trCellR_a, trCellR_mesh, tr_nodes_size]
  simp only [trCellR_mesh, meshOk_translate, h1, queueOk_tr, usedCovered_tr, h2]

theorem cellMeshOk_uses {c : CellTR R} (h : cellMeshOk c = true) : hasNode c.mesh = true ∧ usedCovered c.mesh = true := by
  unfold cellMeshOk meshOk at h
  simp only [Bool.and_eq_true] at h
  exact ⟨h.1.1.1.1.2, h.1.2⟩

theorem preOkTR_tr (t : V3 R) (s : StateTR R) : preOkTR (translateTR t s) = preOkTR s := by
  unfold preOkTR translateTR
  simp only [List.all_map, List.any_map]
  have h1 : ((fun c : CellTR R => c.k.kind == 0) ∘ trCellR t) = fun c => c.k.kind == 0 := rfl
  have h2 : (readyT s.iter ∘ trCellR t) = readyT s.iter := rfl
  have h3 : (attrsOk ∘ trCellR t) = (attrsOk : CellTR R → Bool) := by
    funext c; unfold attrsOk; simp only [Function.comp, trCellR_a, trCellR_mesh, tr_nodes_size]
  rw [h1, h2, h3]

theorem coupOk_tr (t : V3 R) (cells : List (CellTR R)) : coupOk (cells.map (trCellR t)) = coupOk cells := by
  unfold coupOk
  rw [List.all_map]
  congr 1
  funext c
  simp only [Function.comp, trCellR_mesh, trCellR_a, tr_nodes_size, tr_usedN, List.getElem?_map]
  congr 1
  funext i
  cases c.a.coup.getD i none with
  | none => rfl
  | some q =>
    simp only
    cases cells[q.1]? with
    | none => rfl
    | some c2 => simp only [Option.map_some, trCellR_mesh, tr_usedN]

theorem belowMin_tr (t : V3 R) (cells : List (CellTR R)) : (cells.map (trCellR t)).any belowMinT = cells.any belowMinT := by
  rw [List.any_map]
  rfl

/-- **one whole solver iteration of a tissue, remeshing included, commutes with the translation** -/
theorem tissueIterationR_tr [FloorRing R] (fn : Fn R) (fx : FX R) (K : ConstsTR R)
    (S : C06.Setup fn K.base.delta (Tissue.cparams K.base).padding (Tissue.cparams K.base).voxel)
    (s : StateTR R) (t : V3 R) (hok : stepOkTR fn fx K s = true) :
    tissueIterationR fn fx K (translateTR t s) = (tissueIterationR fn fx K s).map (translateTR t) := by
  unfold stepOkTR stepOkFromT at hok
  simp only [Bool.and_eq_true] at hok
  obtain ⟨⟨_, hl⟩, hm⟩ := hok
  unfold tissueIterationR
  rw [meshStageT_tr fn K s t hl]
  cases hs : meshStageT fn K s with
  | error e => rfl
  | ok s1 =>
    rw [hs] at hm
    simp only [Bool.and_eq_true, List.all_eq_true] at hm
    show Except.ok (physStage fn fx K (translateTR t s1)) = Except.ok (translateTR t (physStage fn fx K s1))
    rw [physStage_tr fn fx K S s1 (fun c hc => (cellMeshOk_uses (hm.1.1.1 c hc)).1) (fun c hc => (cellMeshOk_uses (hm.1.1.1 c hc)).2) t]

/-- **the domain predicate is the same statement about the translated tissue** -/
theorem stepOkTR_tr [FloorRing R] (fn : Fn R) (fx : FX R) (K : ConstsTR R)
    (S : C06.Setup fn K.base.delta (Tissue.cparams K.base).padding (Tissue.cparams K.base).voxel)
    (s : StateTR R) (t : V3 R) :
    stepOkTR fn fx K (translateTR t s) = stepOkTR fn fx K s := by
  unfold stepOkTR stepOkFromT
  rw [refineLiveT_tr, preOkTR_tr]
  cases hl : refineLiveT fn K s with
  | false => simp only [Bool.and_false, Bool.false_and]
  | true =>
    rw [meshStageT_tr fn K s t hl]
    cases hs : meshStageT fn K s with
    | error e => rfl
    | ok s1 =>
      show (preOkTR s && true && ((s1.cells.map (trCellR t)).all cellMeshOk
              && (beforeIntegrationR fn fx K.base (s1.cells.map (trCellR t))).2
              && coupOk (beforeIntegrationR fn fx K.base (s1.cells.map (trCellR t))).1
              && !(beforeIntegrationR fn fx K.base (s1.cells.map (trCellR t))).1.any belowMinT))
        = (preOkTR s && true && (s1.cells.all cellMeshOk && (beforeIntegrationR fn fx K.base s1.cells).2
              && coupOk (beforeIntegrationR fn fx K.base s1.cells).1 && !(beforeIntegrationR fn fx K.base s1.cells).1.any belowMinT))
      have hc : (s1.cells.map (trCellR t)).all cellMeshOk = s1.cells.all cellMeshOk := by
        rw [List.all_map]; congr 1; funext c; exact cellMeshOk_tr t c
      rw [hc]
      cases hm : s1.cells.all cellMeshOk with
      | false => simp only [Bool.false_and, Bool.and_false]
      | true =>
        rw [List.all_eq_true] at hm
        rw [beforeIntegrationR_tr fn fx K.base S s1.cells (fun c hc => (cellMeshOk_uses (hm c hc)).1)
              (fun c hc => (cellMeshOk_uses (hm c hc)).2) t]
        simp only [coupOk_tr, belowMin_tr]

/-! ### any number of iterations -/

theorem runOkTR_tr [FloorRing R] (fn : Fn R) (fx : FX R) (K : ConstsTR R)
    (S : C06.Setup fn K.base.delta (Tissue.cparams K.base).padding (Tissue.cparams K.base).voxel) (n : Nat) :
    ∀ (s : StateTR R) (t : V3 R), runOkTR fn fx K n (translateTR t s) = runOkTR fn fx K n s := by
  induction n with
  | zero => intro s t; rfl
  | succ k ih =>
    intro s t
    unfold runOkTR
    rw [stepOkTR_tr fn fx K S]
    cases hok : stepOkTR fn fx K s with
    | false => simp only [Bool.false_and]
    | true =>
      rw [tissueIterationR_tr fn fx K S s t hok]
      cases tissueIterationR fn fx K s with
      | error e => rfl
      | ok s' => exact congrArg _ (ih s' t)

theorem tissueRunR_tr [FloorRing R] (fn : Fn R) (fx : FX R) (K : ConstsTR R)
    (S : C06.Setup fn K.base.delta (Tissue.cparams K.base).padding (Tissue.cparams K.base).voxel) (n : Nat) :
    ∀ (s : StateTR R) (t : V3 R), runOkTR fn fx K n s = true →
    tissueRunR fn fx K n (translateTR t s) = (tissueRunR fn fx K n s).map (translateTR t) := by
  induction n with
  | zero => intro s t _; rfl
  | succ k ih =>
    intro s t hok
    unfold runOkTR at hok
    simp only [Bool.and_eq_true] at hok
    unfold tissueRunR
    rw [tissueIterationR_tr fn fx K S s t hok.1]
    cases hc : tissueIterationR fn fx K s with
    | error e => rfl
    | ok s' =>
      have h2 := hok.2
      rw [hc] at h2
      exact ih s' t h2

end Simu.TissueR
