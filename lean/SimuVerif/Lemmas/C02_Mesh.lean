import SimuVerif.Lemmas.C02_Terms
/-
  C02 — from one face / one hinge to the whole surface: net force, net torque and per-node force of the
  lists of `add_force` calls the model produces; the pressure term on closed surfaces (half-edge
  cancellation), `F = P ∇V`; tension, angle and bending terms (face by face, hinge by hinge);
  accumulation into the node array; translation and rotation equivariance.
-/
set_option linter.unusedSimpArgs false
set_option linter.unusedSectionVars false
namespace Simu.Forces
open Simu Simu.Gen.Forces
variable {R : Type} [Field R] [LinearOrder R] [IsStrictOrderedRing R]

/-- net force of a list of `add_force` calls -/
def netForce (cs : List (Contrib R)) : V3 R := (cs.map (fun c => c.2)).sum
/-- net torque (about the origin) of a list of `add_force` calls at node positions `x` -/
def netTorque (x : Nat → V3 R) (cs : List (Contrib R)) : V3 R := (cs.map (fun c => V3.cross (x c.1) c.2)).sum
/-- the force node `i` ends up with -/
def nodeForce (cs : List (Contrib R)) (i : Nat) : V3 R := (cs.map (fun c => if c.1 = i then c.2 else 0)).sum

theorem netForce_append (a b : List (Contrib R)) : netForce (a ++ b) = netForce a + netForce b := by
  simp [netForce]
theorem netTorque_append (x : Nat → V3 R) (a b : List (Contrib R)) :
    netTorque x (a ++ b) = netTorque x a + netTorque x b := by
  simp [netTorque]
theorem nodeForce_append (a b : List (Contrib R)) (i : Nat) :
    nodeForce (a ++ b) i = nodeForce a i + nodeForce b i := by
  simp [nodeForce]
theorem netForce_nil : netForce ([] : List (Contrib R)) = 0 := rfl
theorem netTorque_nil (x : Nat → V3 R) : netTorque x ([] : List (Contrib R)) = 0 := rfl

theorem netForce_flatMap {α : Type} (L : List α) (k : α → List (Contrib R)) :
    netForce (L.flatMap k) = (L.map (fun l => netForce (k l))).sum := by
  induction L with
  | nil => rfl
  | cons a t ih => simp only [List.flatMap_cons, netForce_append, ih, List.map_cons, List.sum_cons]
theorem netTorque_flatMap {α : Type} (x : Nat → V3 R) (L : List α) (k : α → List (Contrib R)) :
    netTorque x (L.flatMap k) = (L.map (fun l => netTorque x (k l))).sum := by
  induction L with
  | nil => rfl
  | cons a t ih => simp only [List.flatMap_cons, netTorque_append, ih, List.map_cons, List.sum_cons]
theorem nodeForce_flatMap {α : Type} (L : List α) (k : α → List (Contrib R)) (i : Nat) :
    nodeForce (L.flatMap k) i = (L.map (fun l => nodeForce (k l) i)).sum := by
  induction L with
  | nil => rfl
  | cons a t ih => simp only [List.flatMap_cons, nodeForce_append, ih, List.map_cons, List.sum_cons]

theorem sum_eq_zero_of_forall {α : Type} (L : List α) (v : α → V3 R) (h : ∀ a ∈ L, v a = 0) :
    (L.map v).sum = 0 := by
  induction L with
  | nil => rfl
  | cons a t ih =>
    simp only [List.map_cons, List.sum_cons, h a List.mem_cons_self,
      ih (fun b hb => h b (List.mem_cons_of_mem _ hb)), add_zero]

theorem netForce_three (a b c : Nat) (u v w : V3 R) : netForce [(a, u), (b, v), (c, w)] = u + v + w := by
  simp [netForce, add_assoc]
theorem netTorque_three (x : Nat → V3 R) (a b c : Nat) (u v w : V3 R) :
    netTorque x [(a, u), (b, v), (c, w)] = V3.cross (x a) u + V3.cross (x b) v + V3.cross (x c) w := by
  simp [netTorque, add_assoc]
theorem netForce_four (a b c d : Nat) (u v w z : V3 R) : netForce [(a, u), (b, v), (c, w), (d, z)] = u + v + w + z := by
  simp [netForce, add_assoc]
theorem netTorque_four (x : Nat → V3 R) (a b c d : Nat) (u v w z : V3 R) :
    netTorque x [(a, u), (b, v), (c, w), (d, z)]
      = V3.cross (x a) u + V3.cross (x b) v + V3.cross (x c) w + V3.cross (x d) z := by
  simp [netTorque, add_assoc]

/-- the square-root identity at the squared doubled area of every face -/
def FaceSqrt (fx : FX R) (x : Nat → V3 R) (F : List Face) : Prop :=
  ∀ f ∈ F, SqrtSq fx (V3.normSq (faceC (x f.a) (x f.b) (x f.c)))

/-! ### pressure -/

theorem pressure_netForce (fx : FX R) (x : Nat → V3 R) (F : List Face) (P : R)
    (hc : Closed F) (he : EqbOK fx) (hs : FaceSqrt fx x F) :
    netForce (pressureContribs fx x F P) = 0 := by
  unfold pressureContribs
  rw [netForce_flatMap]
  have h : ∀ f ∈ F, netForce (let g := faceGeom fx x f; let r := pressureFace g.1 g.2 P;
        [(f.a, r.1), (f.b, r.2.1), (f.c, r.2.2)])
      = (V3.cross (x f.a) (x f.b) + V3.cross (x f.b) (x f.c) + V3.cross (x f.c) (x f.a)) * (P / 2) := by
    intro f hf
    simp only [faceGeom, pressureFace_eq fx he _ _ _ P (hs f hf), netForce_three, faceC_sides]
    v3ext <;> ring
  rw [List.map_congr_left h, V3.sum_map_smul,
    closed_vsum_zero F hc (fun i j => V3.cross (x i) (x j)) (fun i j => by v3ext <;> ring), V3.smul_zero']

theorem pressure_netTorque (fx : FX R) (x : Nat → V3 R) (F : List Face) (P : R)
    (hc : Closed F) (he : EqbOK fx) (hs : FaceSqrt fx x F) :
    netTorque x (pressureContribs fx x F P) = 0 := by
  unfold pressureContribs
  rw [netTorque_flatMap]
  have h : ∀ f ∈ F, netTorque x (let g := faceGeom fx x f; let r := pressureFace g.1 g.2 P;
        [(f.a, r.1), (f.b, r.2.1), (f.c, r.2.2)])
      = (V3.cross (x f.a + x f.b) (V3.cross (x f.a) (x f.b)) + V3.cross (x f.b + x f.c) (V3.cross (x f.b) (x f.c))
          + V3.cross (x f.c + x f.a) (V3.cross (x f.c) (x f.a))) * (P / 6) := by
    intro f hf
    simp only [faceGeom, pressureFace_eq fx he _ _ _ P (hs f hf), netTorque_three, ← faceC_torque_sides]
    generalize faceC (x f.a) (x f.b) (x f.c) = C
    v3ext <;> ring
  rw [List.map_congr_left h, V3.sum_map_smul,
    closed_vsum_zero F hc (fun i j => V3.cross (x i + x j) (V3.cross (x i) (x j))) (fun i j => by v3ext <;> ring),
    V3.smul_zero']


/-- the generated 6-term formula: the triple product of the positions relative to `o` -/
theorem volTerm_eq (o a b c : V3 R) : volTerm o a b c = V3.dot (a - o) (V3.cross (b - o) (c - o)) := by
  simp only [volTerm]; v3c; ring

theorem volTerm_zero (a b c : V3 R) : volTerm 0 a b c = V3.dot a (V3.cross b c) := by
  rw [volTerm_eq]; simp only [sub_zero]

theorem volTerm_centre (o a b c : V3 R) : volTerm o a b c = volTerm 0 (a - o) (b - o) (c - o) := by
  rw [volTerm_eq, volTerm_zero]

/-- six times the signed volume Σ_faces p₁·(p₂×p₃): the sum of the generated face term with reference point 0 -/
def signedVol6 (x : Nat → V3 R) (F : List Face) : R := (F.map (fun f => volTerm 0 (x f.a) (x f.b) (x f.c))).sum

/-- what the loop of `compute_volume` accumulates: the same sum of the positions seen from
    `get_volume_reference_point()` (first node of the first used face) -/
def centredVol6 (x : Nat → V3 R) (F : List Face) : R := signedVol6 (fun i => x i - volRefPoint x F) F

theorem cellVol6At_eq (x : Nat → V3 R) (o : V3 R) (F : List Face) :
    cellVol6At x o F = signedVol6 (fun i => x i - o) F := by
  unfold cellVol6At signedVol6; rw [foldl_add_eq_sum]
  simp only [lit_zero, zero_add]
  congr 1; apply List.map_congr_left; intro f _; exact volTerm_centre _ _ _ _

theorem cellVol6_eq (x : Nat → V3 R) (F : List Face) : cellVol6 x F = centredVol6 x F := by
  unfold cellVol6 centredVol6 volOrigin; exact cellVol6At_eq x _ F

theorem cellVolume_eq (x : Nat → V3 R) (F : List Face) : cellVolume x F = |centredVol6 x F / 6| := by
  unfold cellVolume volFinish fabsR
  rw [cellVol6_eq]
  simp only [lit_six, lit_zero]
  split_ifs with h
  · rw [abs_of_neg h]
  · rw [abs_of_nonneg (not_lt.mp h)]

theorem volRefPoint_cons (x : Nat → V3 R) (f : Face) (F : List Face) : volRefPoint x (f :: F) = x f.a := by
  simp [volRefPoint, volRefOfFace]

theorem volRefPoint_nil (x : Nat → V3 R) : volRefPoint x [] = 0 := by
  simp only [volRefPoint, volRefDefault, List.head?_nil, Option.map_none, Option.getD_none, lit_zero]; rfl

theorem dV_face (x : Nat → V3 R) (i : Nat) (d : V3 R) (a b c : Nat) (hab : a ≠ b) (hbc : b ≠ c) (hca : c ≠ a) (P : R) :
    P * ((V3.dot (if a = i then x i + d else x a)
            (V3.cross (if b = i then x i + d else x b) (if c = i then x i + d else x c))
          - V3.dot (x a) (V3.cross (x b) (x c))) / 6)
      = V3.dot ((if a = i then faceC (x a) (x b) (x c) * (P / 6) else 0)
            + (if b = i then faceC (x a) (x b) (x c) * (P / 6) else 0)
            + (if c = i then faceC (x a) (x b) (x c) * (P / 6) else 0)) d
        - V3.dot (V3.cross (x i)
            ((((if a = i then x b else 0) - (if b = i then x a else 0))
              + ((if b = i then x c else 0) - (if c = i then x b else 0))
              + ((if c = i then x a else 0) - (if a = i then x c else 0)))) * (P / 6)) d := by
  by_cases h1 : a = i
  · subst h1
    have h2 : ¬ b = a := fun h => hab h.symm
    have h3 : ¬ c = a := hca
    simp only [if_true, if_neg h2, if_neg h3, faceC]
    v3c; ring
  · by_cases h2 : b = i
    · subst h2
      have h3 : ¬ c = b := fun h => hbc h.symm
      simp only [if_true, if_neg h1, if_neg h3, faceC]
      v3c; ring
    · by_cases h3 : c = i
      · subst h3
        simp only [if_true, if_neg h1, if_neg h2, faceC]
        v3c; ring
      · simp only [if_neg h1, if_neg h2, if_neg h3]
        v3c; ring

theorem sum_map_sub' {α : Type} (L : List α) (u v : α → R) :
    (L.map (fun a => u a - v a)).sum = (L.map u).sum - (L.map v).sum := by
  induction L with
  | nil => simp
  | cons a t ih => simp only [List.map_cons, List.sum_cons, ih]; ring

theorem sum_map_scaled_diff {α : Type} (L : List α) (u v : α → R) (k : R) :
    (L.map (fun a => k * ((u a - v a) / 6))).sum = k * (((L.map u).sum - (L.map v).sum) / 6) := by
  induction L with
  | nil => simp
  | cons a t ih => simp only [List.map_cons, List.sum_cons, ih]; ring

theorem nodeForce_three (a b c i : Nat) (u v w : V3 R) :
    nodeForce [(a, u), (b, v), (c, w)] i
      = (if a = i then u else 0) + (if b = i then v else 0) + (if c = i then w else 0) := by
  simp [nodeForce, add_assoc]

/-- the pressure force on node `i` is the pressure times the derivative of the enclosed (signed)
    volume with respect to the position of node `i`: the volume is affine in each node position, so
    the derivative is characterised exactly by a finite difference in any direction `d` -/
theorem pressure_nodeForce_dV (fx : FX R) (x : Nat → V3 R) (F : List Face) (P : R)
    (hc : Closed F) (hd : NonDeg F) (he : EqbOK fx) (hs : FaceSqrt fx x F) (i : Nat) (d : V3 R) :
    P * ((signedVol6 (Function.update x i (x i + d)) F - signedVol6 x F) / 6)
      = V3.dot (nodeForce (pressureContribs fx x F P) i) d := by
  unfold pressureContribs signedVol6
  rw [nodeForce_flatMap, ← V3.sum_map_dot_right, ← sum_map_scaled_diff]
  -- the antisymmetric function whose half-edge sum is the rim of the fan around `i`
  let g : Nat → Nat → V3 R := fun u v => (if u = i then x v else 0) - (if v = i then x u else 0)
  have hg : ∀ u v, g v u = - g u v := fun u v => by simp only [g, neg_sub]
  have hface : ∀ f ∈ F,
      P * ((volTerm 0 (Function.update x i (x i + d) f.a) (Function.update x i (x i + d) f.b)
              (Function.update x i (x i + d) f.c) - volTerm 0 (x f.a) (x f.b) (x f.c)) / 6)
        = V3.dot (nodeForce (let g := faceGeom fx x f; let r := pressureFace g.1 g.2 P;
              [(f.a, r.1), (f.b, r.2.1), (f.c, r.2.2)]) i) d
          - V3.dot (V3.cross (x i) (g f.a f.b + g f.b f.c + g f.c f.a) * (P / 6)) d := by
    intro f hf
    obtain ⟨hab, hbc, hca⟩ := hd f hf
    simp only [faceGeom, pressureFace_eq fx he _ _ _ P (hs f hf), nodeForce_three, volTerm_zero,
      Function.update_apply, g]
    exact dV_face x i d f.a f.b f.c hab hbc hca P
  rw [List.map_congr_left hface, sum_map_sub']
  have hW : (F.map (fun f => V3.dot (V3.cross (x i) (g f.a f.b + g f.b f.c + g f.c f.a) * (P / 6)) d)).sum = 0 := by
    rw [V3.sum_map_dot_right (v := fun f : Face => V3.cross (x i) (g f.a f.b + g f.b f.c + g f.c f.a) * (P / 6)),
      V3.sum_map_smul (v := fun f : Face => V3.cross (x i) (g f.a f.b + g f.b f.c + g f.c f.a)),
      V3.sum_map_cross_left (v := fun f : Face => g f.a f.b + g f.b f.c + g f.c f.a),
      closed_vsum_zero F hc g hg, V3.cross_zero_right, V3.smul_zero', V3.dot_zero_left]
  rw [hW, sub_zero]



/-! ### surface tension / membrane elasticity and angle regularisation: face by face -/

theorem tension_netForce (fx : FX R) (x : Nat → V3 R) (F : List Face) (p : Params R) (area At : R) :
    netForce (tensionContribs fx x F p area At) = 0 := by
  unfold tensionContribs
  rw [netForce_flatMap]
  apply sum_eq_zero_of_forall
  intro f _
  simp only [netForce_three]
  exact tensionFace_sum _ _ _ _ _ _ _ _ _ _

theorem tension_netTorque (fx : FX R) (x : Nat → V3 R) (F : List Face) (p : Params R) (area At : R) :
    netTorque x (tensionContribs fx x F p area At) = 0 := by
  unfold tensionContribs
  rw [netTorque_flatMap]
  apply sum_eq_zero_of_forall
  intro f _
  obtain ⟨k, hk⟩ := faceNormal_parallel fx (x f.a) (x f.b) (x f.c)
  simp only [netTorque_three, faceGeom, hk]
  exact tensionFace_torque _ _ _ _ _ _ _ _ _ _

theorem angle_netForce (fx : FX R) (x : Nat → V3 R) (F : List Face) (angf : R) :
    netForce (angleContribs fx x F angf) = 0 := by
  unfold angleContribs
  rw [netForce_flatMap]
  apply sum_eq_zero_of_forall
  intro f _
  simp only [netForce_three]
  exact angleFace_sum _ _ _ _ _

theorem angle_netTorque (fx : FX R) (x : Nat → V3 R) (F : List Face) (angf : R) :
    netTorque x (angleContribs fx x F angf) = 0 := by
  unfold angleContribs
  rw [netTorque_flatMap]
  apply sum_eq_zero_of_forall
  intro f _
  simp only [netTorque_three]
  exact angleFace_torque _ _ _ _ _

/-! ### bending: hinge by hinge -/

theorem hinges_faces_mem (F : List Face) : ∀ h ∈ hinges F, h.f1 ∈ F ∧ h.f2 ∈ F := by
  induction F with
  | nil => intro h hh; simp [hinges] at hh
  | cons f rest ih =>
    intro h hh
    simp only [hinges, List.mem_append, List.mem_filterMap] at hh
    rcases hh with ⟨s, _, hsome⟩ | hh
    · simp only [Option.map_eq_some_iff] at hsome
      obtain ⟨g, hfind, rfl⟩ := hsome
      exact ⟨List.mem_cons_self, List.mem_cons_of_mem _ (List.mem_of_find?_eq_some hfind)⟩
    · exact ⟨List.mem_cons_of_mem _ (ih h hh).1, List.mem_cons_of_mem _ (ih h hh).2⟩

theorem faceC_of_cyc (x : Nat → V3 R) (f : Face) (u v w : Nat) (h : CycOf f u v w) :
    faceC (x f.a) (x f.b) (x f.c) = V3.cross (x v - x u) (x w - x u) := by
  rcases h with ⟨h1, h2, h3⟩ | ⟨h1, h2, h3⟩ | ⟨h1, h2, h3⟩ <;> rw [h1, h2, h3] <;> simp only [faceC] <;> v3ext <;> ring

/-- cached normal and area of a face in terms of the triangle `u v w` it is a rotation of -/
theorem face_par (fx : FX R) (he : EqbOK fx) (x : Nat → V3 R) (f : Face) (u v w : Nat) (hcyc : CycOf f u v w)
    (hs : SqrtSq fx (V3.normSq (faceC (x f.a) (x f.b) (x f.c)))) :
    ∃ k : R, (faceGeom fx x f).1 = V3.cross (x v - x u) (x w - x u) * k
      ∧ k * V3.normSq (V3.cross (x v - x u) (x w - x u)) = 2 * (faceGeom fx x f).2 := by
  unfold faceGeom
  rw [faceNormalArea_fst, faceNormalArea_snd]
  rw [faceC_of_cyc x f u v w hcyc] at hs ⊢
  generalize V3.cross (x v - x u) (x w - x u) = C at hs ⊢
  unfold SqrtSq at hs
  by_cases h0 : fx.sqrt (V3.normSq C) = 0
  · refine ⟨0, ?_, ?_⟩
    · rw [if_pos ((he _ _).mpr h0), V3.smul_zero_right]
    · rw [h0]; ring
  · have hne : ¬ (fx.eqb (fx.sqrt (V3.normSq C)) 0 = true) := fun h => h0 ((he _ _).mp h)
    refine ⟨(fx.sqrt (V3.normSq C))⁻¹, ?_, ?_⟩
    · rw [if_neg hne, V3.sdiv_eq_smul]
    · nth_rewrite 2 [← hs]; field_simp

/-- the assumptions of the bending theorems about the non-field functions, at the hinges of the mesh:
    `==` is equality; `sqrt(y)² = y` at the squared doubled area of every face and the squared length of
    every edge; `cos(±π/2) = 0`, `sin(−π/2) = −sin(π/2)`; `cot∠(u,v)·2A = u·v` at the four interior
    angles adjacent to every edge (`A` the cached area of the face the angle lies in) -/
structure BendHyp (fx : FX R) (x : Nat → V3 R) (F : List Face) : Prop where
  eqb : EqbOK fx
  faces : FaceSqrt fx x F
  cosP : fx.cos (fx.pi / 2) = 0
  cosM : fx.cos (-fx.pi / 2) = 0
  sinM : fx.sin (-fx.pi / 2) = - fx.sin (fx.pi / 2)
  edges : ∀ h ∈ hinges F, SqrtSq fx (V3.normSq (x h.n2 - x h.n1))
  cot1 : ∀ h ∈ hinges F, cot fx (angleWithL fx (x h.n2 - x h.n1) (x h.n3 - x h.n1)) * (2 * (faceGeom fx x h.f1).2)
            = V3.dot (x h.n2 - x h.n1) (x h.n3 - x h.n1)
  cot2 : ∀ h ∈ hinges F, cot fx (angleWithL fx (x h.n2 - x h.n1) (x h.n4 - x h.n1)) * (2 * (faceGeom fx x h.f2).2)
            = V3.dot (x h.n2 - x h.n1) (x h.n4 - x h.n1)
  cot3 : ∀ h ∈ hinges F, cot fx (angleWithR fx (x h.n3 - x h.n2) ((x h.n2 - x h.n1) * (-1 : R))) * (2 * (faceGeom fx x h.f1).2)
            = V3.dot (x h.n3 - x h.n2) ((x h.n2 - x h.n1) * (-1 : R))
  cot4 : ∀ h ∈ hinges F, cot fx (angleWithR fx (x h.n4 - x h.n2) ((x h.n2 - x h.n1) * (-1 : R))) * (2 * (faceGeom fx x h.f2).2)
            = V3.dot (x h.n4 - x h.n2) ((x h.n2 - x h.n1) * (-1 : R))

theorem hingeHyp_of (fx : FX R) (x : Nat → V3 R) (F : List Face) (B : BendHyp fx x F) (h : Hinge) (hh : h ∈ hinges F)
    (hO : HingeOriented h) :
    HingeHyp fx (x h.n1) (x h.n2) (x h.n3) (x h.n4) (faceGeom fx x h.f1).1 (faceGeom fx x h.f2).1
      (faceGeom fx x h.f1).2 (faceGeom fx x h.f2).2 := by
  obtain ⟨hf1, hf2⟩ := hinges_faces_mem F h hh
  refine ⟨B.eqb, B.edges h hh, B.cosP, B.cosM, B.sinM, B.cot1 h hh, B.cot2 h hh, B.cot3 h hh, B.cot4 h hh, ?_⟩
  rcases hO with ⟨c1, c2⟩ | ⟨c1, c2⟩
  · obtain ⟨k1, e1, m1⟩ := face_par fx B.eqb x h.f1 _ _ _ c1 (B.faces _ hf1)
    obtain ⟨k, e2, m2⟩ := face_par fx B.eqb x h.f2 _ _ _ c2 (B.faces _ hf2)
    refine ⟨k1, -k, 1, e1, ?_, by rw [m1]; ring, ?_⟩
    · rw [e2]; v3ext <;> ring
    · have : V3.normSq (V3.cross (x h.n2 - x h.n1) (x h.n4 - x h.n1))
          = V3.normSq (V3.cross (x h.n1 - x h.n2) (x h.n4 - x h.n2)) := by v3c; ring
      rw [this]; linear_combination (-1 : R) * m2
  · obtain ⟨k, e1, m1⟩ := face_par fx B.eqb x h.f1 _ _ _ c1 (B.faces _ hf1)
    obtain ⟨k2, e2, m2⟩ := face_par fx B.eqb x h.f2 _ _ _ c2 (B.faces _ hf2)
    refine ⟨-k, k2, -1, ?_, e2, ?_, by rw [m2]; ring⟩
    · rw [e1]; v3ext <;> ring
    · have : V3.normSq (V3.cross (x h.n2 - x h.n1) (x h.n3 - x h.n1))
          = V3.normSq (V3.cross (x h.n1 - x h.n2) (x h.n3 - x h.n2)) := by v3c; ring
      rw [this]; linear_combination (-1 : R) * m1

/-- the edge loop over any list of hinges each of which satisfies `HingeHyp` -/
theorem bendingOf_net (fx : FX R) (x : Nat → V3 R) (p : Params R) (H : List Hinge)
    (hH : ∀ h ∈ H, HingeHyp fx (x h.n1) (x h.n2) (x h.n3) (x h.n4) (faceGeom fx x h.f1).1 (faceGeom fx x h.f2).1
      (faceGeom fx x h.f1).2 (faceGeom fx x h.f2).2) :
    netForce (bendingContribsOf fx x p H) = 0 ∧ netTorque x (bendingContribsOf fx x p H) = 0 := by
  unfold bendingContribsOf
  split_ifs
  · exact ⟨rfl, rfl⟩
  · have hb : ∀ h ∈ H, _ := fun h hh =>
      bendingHinge_balanced fx _ _ _ _ _ _ _ _ (p.ftOf h.f1.ty).bending (p.ftOf h.f2.ty).bending (hH h hh)
    constructor
    · rw [netForce_flatMap]
      apply sum_eq_zero_of_forall
      intro h hh
      simp only [netForce_four]
      exact (hb h hh).1
    · rw [netTorque_flatMap]
      apply sum_eq_zero_of_forall
      intro h hh
      simp only [netTorque_four]
      exact (hb h hh).2

theorem bending_net (fx : FX R) (x : Nat → V3 R) (F : List Face) (p : Params R)
    (hs : Simple F) (hd : NonDeg F) (B : BendHyp fx x F) :
    netForce (bendingContribs fx x F p) = 0 ∧ netTorque x (bendingContribs fx x F p) = 0 :=
  bendingOf_net fx x p (hingesSorted F) (fun h hh =>
    hingeHyp_of fx x F B h ((hingesSorted_mem F h).mp hh) (hinges_oriented F hs hd h ((hingesSorted_mem F h).mp hh)))

/-! ### all terms together, and accumulation into the nodes -/

theorem internal_netForce (fx : FX R) (x : Nat → V3 R) (F : List Face) (p : Params R)
    (hc : Closed F) (hs : Simple F) (hd : NonDeg F) (B : BendHyp fx x F) :
    netForce (internalContribs fx x F p) = 0 := by
  unfold internalContribs
  simp only [netForce_append, pressure_netForce fx x F _ hc B.eqb B.faces, tension_netForce,
    (bending_net fx x F p hs hd B).1, angle_netForce, add_zero]

theorem internal_netTorque (fx : FX R) (x : Nat → V3 R) (F : List Face) (p : Params R)
    (hc : Closed F) (hs : Simple F) (hd : NonDeg F) (B : BendHyp fx x F) :
    netTorque x (internalContribs fx x F p) = 0 := by
  unfold internalContribs
  simp only [netTorque_append, pressure_netTorque fx x F _ hc B.eqb B.faces, tension_netTorque,
    (bending_net fx x F p hs hd B).2, angle_netTorque, add_zero]

theorem nodeForce_cons (c : Contrib R) (cs : List (Contrib R)) (i : Nat) :
    nodeForce (c :: cs) i = (if c.1 = i then c.2 else 0) + nodeForce cs i := by
  simp [nodeForce]

theorem foldl_modify_get (cs : List (Contrib R)) (acc : Array (V3 R)) (i : Nat) (hi : i < acc.size) :
    (cs.foldl (fun acc c => acc.modify c.1 (fun v => v + c.2)) acc)[i]? = some (acc[i] + nodeForce cs i) := by
  induction cs generalizing acc with
  | nil => simp [nodeForce]
  | cons c t ih =>
    have hi' : i < (acc.modify c.1 (fun v => v + c.2)).size := by simpa using hi
    rw [List.foldl_cons, ih _ hi', nodeForce_cons, Array.getElem_modify hi']
    split_ifs <;> simp [add_assoc]

/-- the node array the driver prints holds, for every node, the sum of the forces added to it -/
theorem accumulate_spec (n : Nat) (cs : List (Contrib R)) (i : Nat) (hi : i < n) :
    (accumulate n cs)[i]? = some (nodeForce cs i) := by
  unfold accumulate
  rw [foldl_modify_get cs _ i (by simpa using hi)]
  simp

theorem sum_range_ite (n j : Nat) (w : Nat → V3 R) :
    ((List.range n).map (fun i => if j = i then w i else 0)).sum = if j < n then w j else 0 := by
  induction n with
  | zero => simp
  | succ n ih =>
    rw [List.range_succ, List.map_append, List.sum_append, ih]
    by_cases h1 : j < n
    · have h2 : j ≠ n := by omega
      have h3 : j < n + 1 := by omega
      simp [h1, h2, h3]
    · by_cases h2 : j = n
      · subst h2; simp
      · have h3 : ¬ j < n + 1 := by omega
        simp [h1, h2, h3]

theorem sum_map_add' {α : Type} (L : List α) (u v : α → V3 R) :
    (L.map (fun a => u a + v a)).sum = (L.map u).sum + (L.map v).sum := by
  induction L with
  | nil => simp
  | cons a t ih => simp only [List.map_cons, List.sum_cons, ih]; abel

/-- summing the node forces over the nodes gives the net force of the `add_force` calls -/
theorem sum_nodeForce (n : Nat) (cs : List (Contrib R)) (h : ∀ c ∈ cs, c.1 < n) :
    ((List.range n).map (fun i => nodeForce cs i)).sum = netForce cs := by
  induction cs with
  | nil => simp [nodeForce, netForce]
  | cons c t ih =>
    have hc : c.1 < n := h c List.mem_cons_self
    simp only [nodeForce_cons]
    rw [sum_map_add', ih (fun d hd => h d (List.mem_cons_of_mem _ hd)), sum_range_ite n c.1 (fun _ => c.2), if_pos hc]
    simp [netForce]

/-- … and summing their moments gives the net torque -/
theorem sum_nodeTorque (n : Nat) (x : Nat → V3 R) (cs : List (Contrib R)) (h : ∀ c ∈ cs, c.1 < n) :
    ((List.range n).map (fun i => V3.cross (x i) (nodeForce cs i))).sum = netTorque x cs := by
  induction cs with
  | nil => simp [nodeForce, netTorque, V3.cross_zero_right]
  | cons c t ih =>
    have hc : c.1 < n := h c List.mem_cons_self
    simp only [nodeForce_cons, V3.cross_add_right]
    rw [sum_map_add', ih (fun d hd => h d (List.mem_cons_of_mem _ hd))]
    have : (fun i => V3.cross (x i) (if c.1 = i then c.2 else 0))
        = (fun i => if c.1 = i then V3.cross (x i) c.2 else 0) := by
      funext i; split_ifs <;> simp [V3.cross_zero_right]
    rw [this, sum_range_ite n c.1 (fun i => V3.cross (x i) c.2), if_pos hc]
    simp [netTorque]

/-- all node ids of the faces are below `n` -/
def NodesLt (F : List Face) (n : Nat) : Prop := ∀ f ∈ F, f.a < n ∧ f.b < n ∧ f.c < n

theorem opposite_lt (f : Face) (u v n : Nat) (h : f.a < n ∧ f.b < n ∧ f.c < n) : f.opposite u v < n := by
  unfold Face.opposite; split_ifs <;> omega

theorem hinges_nodes_lt (F : List Face) (n : Nat) (hn : NodesLt F n) :
    ∀ h ∈ hinges F, h.n1 < n ∧ h.n2 < n ∧ h.n3 < n ∧ h.n4 < n := by
  induction F with
  | nil => intro h hh; simp [hinges] at hh
  | cons f rest ih =>
    intro h hh
    have hn' : NodesLt rest n := fun g hg => hn g (List.mem_cons_of_mem _ hg)
    simp only [hinges, List.mem_append, List.mem_filterMap] at hh
    rcases hh with ⟨s, hsf, hsome⟩ | hh
    · simp only [Option.map_eq_some_iff] at hsome
      obtain ⟨g, hfind, rfl⟩ := hsome
      have hf := hn f List.mem_cons_self
      have hg := hn g (List.mem_cons_of_mem _ (List.mem_of_find?_eq_some hfind))
      have hs1 : s.1 < n ∧ s.2 < n := by
        obtain ⟨u, v⟩ := s
        simp only [Face.sides, List.mem_cons, Prod.mk.injEq, List.not_mem_nil, or_false] at hsf
        rcases hsf with ⟨rfl, rfl⟩ | ⟨rfl, rfl⟩ | ⟨rfl, rfl⟩ <;> simp <;> omega
      refine ⟨?_, ?_, opposite_lt f _ _ n hf, opposite_lt g _ _ n hg⟩ <;>
        (simp only [mkHinge]; split_ifs <;> omega)
    · exact ih hn' h hh

theorem internalContribs_ids_lt (fx : FX R) (x : Nat → V3 R) (F : List Face) (p : Params R) (n : Nat)
    (hn : NodesLt F n) : ∀ c ∈ internalContribs fx x F p, c.1 < n := by
  intro c hc
  simp only [internalContribs, pressureContribs, tensionContribs, bendingContribs, bendingContribsOf, angleContribs,
    List.mem_append, List.mem_flatMap] at hc
  rcases hc with ((⟨f, hf, hc⟩ | ⟨f, hf, hc⟩) | hc) | ⟨f, hf, hc⟩
  · obtain ⟨h1, h2, h3⟩ := hn f hf
    simp only [List.mem_cons, List.not_mem_nil, or_false] at hc
    rcases hc with rfl | rfl | rfl <;> assumption
  · obtain ⟨h1, h2, h3⟩ := hn f hf
    simp only [List.mem_cons, List.not_mem_nil, or_false] at hc
    rcases hc with rfl | rfl | rfl <;> assumption
  · split_ifs at hc
    · simp at hc
    · simp only [List.mem_flatMap] at hc
      obtain ⟨h, hh, hc⟩ := hc
      obtain ⟨h1, h2, h3, h4⟩ := hinges_nodes_lt F n hn h ((hingesSorted_mem F h).mp hh)
      simp only [List.mem_cons, List.not_mem_nil, or_false] at hc
      rcases hc with rfl | rfl | rfl | rfl <;> assumption
  · obtain ⟨h1, h2, h3⟩ := hn f hf
    simp only [List.mem_cons, List.not_mem_nil, or_false] at hc
    rcases hc with rfl | rfl | rfl <;> assumption


/-! ### cells with unused slots -/

/-- on a freshly built cell (edge set = `generate_edge_set` of the used faces) the slot model is the plain model
    of the used faces -/
theorem slots_eq_fresh (fx : FX R) (x : Nat → V3 R) (S : List Slot) (E : List EdgeRec) (p : Params R)
    (h : E.map (hingeOfEdge S) = hingesSorted (liveFaces S)) :
    internalContribsSlots fx x S E p = internalContribs fx x (liveFaces S) p := by
  unfold internalContribsSlots internalContribs bendingContribs
  rw [h]

/-- a cell with unused slots: zero net force and torque, the surface of the used faces being closed and
    every stored edge satisfying the hinge hypotheses -/
theorem slots_net (fx : FX R) (x : Nat → V3 R) (S : List Slot) (E : List EdgeRec) (p : Params R)
    (hc : Closed (liveFaces S)) (he : EqbOK fx) (hs : FaceSqrt fx x (liveFaces S))
    (hH : ∀ h ∈ E.map (hingeOfEdge S), HingeHyp fx (x h.n1) (x h.n2) (x h.n3) (x h.n4) (faceGeom fx x h.f1).1
      (faceGeom fx x h.f2).1 (faceGeom fx x h.f1).2 (faceGeom fx x h.f2).2) :
    netForce (internalContribsSlots fx x S E p) = 0 ∧ netTorque x (internalContribsSlots fx x S E p) = 0 := by
  unfold internalContribsSlots
  constructor
  · simp only [netForce_append, pressure_netForce fx x _ _ hc he hs, tension_netForce,
      (bendingOf_net fx x p _ hH).1, angle_netForce, add_zero]
  · simp only [netTorque_append, pressure_netTorque fx x _ _ hc he hs, tension_netTorque,
      (bendingOf_net fx x p _ hH).2, angle_netTorque, add_zero]

end Simu.Forces
