import SimuVerif.Lemmas.RemeshMerge6
/-
  Part 7: the fan in list form (`Fan`, `VertexManifold`), Boolean checkers for every hypothesis of the collapse
  theorem (`edgeIdxCompleteB`, `fanB`, `vertexManifoldB`, `mergeHypB`) with soundness lemmas, and a function that
  computes the aligned fan of a node (`fanOf`) for the driver.
-/
set_option linter.unusedSectionVars false
set_option linter.unusedVariables false
set_option linter.unusedSimpArgs false
namespace Simu.Remesh
open Simu Simu.Surface
open Simu.C11 (bind_ok newSlot)

/-! ## 1. the fan as two lists -/

/-- **Fan, list form.**  `fs = [f₀, …, f_{k-1}]` are face slots and `ns = [n₀, …, n_{k-1}]` node ids such that `fᵢ` is a
    live face with exactly the three different nodes `v, nᵢ, n_{i+1 mod k}`; no slot and no neighbour is listed twice;
    EVERY live face containing `v` is listed. -/
structure Fan (L : List (Option Tri)) (v : Nat) (fs ns : List Nat) : Prop where
  len : ns.length = fs.length
  pos : 0 < fs.length
  tri : ∀ j, j < fs.length →
    ∃ t, L[fs.getD j 0]? = some (some t) ∧ IsTri t v (ns.getD j 0) (ns.getD ((j + 1) % fs.length) 0)
  nodupF : fs.Nodup
  nodupN : ns.Nodup
  all : ∀ (g : Nat) (t : Tri), L[g]? = some (some t) → hasNode t v = true → g ∈ fs

/-- the faces of `fs`, shifted so that `F (j+1) = fs[j]` and `F 0 = F k` is the last one -/
def fanF (fs : List Nat) (j : Nat) : Nat := fs.getD ((j + fs.length - 1) % fs.length) 0

def fanN (fs ns : List Nat) (j : Nat) : Nat := ns.getD (j % fs.length) 0

theorem getD_lt {l : List Nat} {i : Nat} (h : i < l.length) : l.getD i 0 = l[i] := by
  simp [List.getD, h]

theorem getD_inj {l : List Nat} (h : l.Nodup) {i j : Nat} (hi : i < l.length) (hj : j < l.length)
    (he : l.getD i 0 = l.getD j 0) : i = j := by
  rw [getD_lt hi, getD_lt hj] at he
  exact (List.Nodup.getElem_inj_iff h).1 he

theorem Fan.toF {L : List (Option Tri)} {v : Nat} {fs ns : List Nat} (h : Fan L v fs ns) :
    FanF L v fs.length (fanF fs) (fanN fs ns) := by
  have hk := h.pos
  have e1 : ∀ j, j < fs.length → (j + 1 + fs.length - 1) % fs.length = j := by
    intro j hj
    have : j + 1 + fs.length - 1 = j + fs.length := by omega
    rw [this, Nat.add_mod_right, Nat.mod_eq_of_lt hj]
  refine ⟨?_, ?_, ?_, ?_, ?_, ?_⟩
  · intro j hj
    obtain ⟨t, ht, hT⟩ := h.tri j hj
    refine ⟨t, ?_, ?_⟩
    · unfold fanF; rw [e1 j hj]; exact ht
    · unfold fanN; rw [Nat.mod_eq_of_lt hj]; exact hT
  · unfold fanN; rw [Nat.mod_self, Nat.zero_mod]
  · unfold fanF
    have a1 : (0 + fs.length - 1) % fs.length = fs.length - 1 := by
      rw [Nat.zero_add]; exact Nat.mod_eq_of_lt (by omega)
    have a2 : (fs.length + fs.length - 1) % fs.length = fs.length - 1 := by
      have : fs.length + fs.length - 1 = (fs.length - 1) + fs.length := by omega
      rw [this, Nat.add_mod_right]; exact Nat.mod_eq_of_lt (by omega)
    rw [a1, a2]
  · intro i j hi1 hi hj1 hj he
    unfold fanF at he
    have ei := e1 (i - 1) (by omega)
    have ej := e1 (j - 1) (by omega)
    have ci : i - 1 + 1 = i := by omega
    have cj : j - 1 + 1 = j := by omega
    rw [ci] at ei; rw [cj] at ej
    rw [ei, ej] at he
    have := getD_inj h.nodupF (by omega) (by omega) he
    omega
  · intro i j hi hj he
    unfold fanN at he
    rw [Nat.mod_eq_of_lt hi, Nat.mod_eq_of_lt hj] at he
    exact getD_inj h.nodupN (by rw [h.len]; exact hi) (by rw [h.len]; exact hj) he
  · intro g t ht hv
    have hm := h.all g t ht hv
    obtain ⟨j, hj, he⟩ := List.getElem_of_mem hm
    refine ⟨j, hj, ?_⟩
    unfold fanF
    rw [e1 j hj, getD_lt hj]
    exact he.symm

section
variable {R : Type} [Add R] [Sub R] [Mul R] [Div R] [Neg R] [Lit R] [LT R] [LE R] [DecidableLT R]
  [DecidableLE R] [DecidableEq R]

/-- **vertex-manifoldness** at `v`: the live faces containing `v` form a single cycle -/
def VertexManifold (c : Cell R) (v : Nat) : Prop := ∃ fs ns, Fan (slots c) v fs ns

end

/-! ## 2. soundness of the Boolean checkers of `Model/RemeshMergeChecks.lean` -/

theorem isTri_of_B {t : Tri} {v x y : Nat} (h : isTriB t v x y = true) : IsTri t v x y := by
  unfold isTriB at h
  simp only [Bool.and_eq_true, bne_iff_ne, ne_eq] at h
  obtain ⟨⟨⟨⟨⟨h1, h2⟩, h3⟩, h4⟩, h5⟩, h6⟩ := h
  exact ⟨h1, h2, h3, h4, h5, h6⟩

theorem liveAt_iff {L : List (Option Tri)} {g : Nat} {t : Tri} : liveAt L g = some t ↔ L[g]? = some (some t) := by
  unfold liveAt
  cases h : L[g]? with
  | none => simp
  | some o => cases o <;> simp

theorem mem_zipIdx_of_get {L : List (Option Tri)} {g : Nat} {o : Option Tri} (h : L[g]? = some o) :
    (o, g) ∈ L.zipIdx := by
  rw [List.mk_mem_zipIdx_iff_getElem?]; exact h

theorem fan_of_B {L : List (Option Tri)} {v : Nat} {fs ns : List Nat} (h : fanB L v fs ns = true) :
    Fan L v fs ns := by
  unfold fanB at h
  simp only [Bool.and_eq_true, decide_eq_true_eq, List.all_eq_true, List.mem_range] at h
  obtain ⟨⟨⟨⟨⟨h1, h2⟩, h3⟩, h4⟩, h5⟩, h6⟩ := h
  refine ⟨h1, h2, ?_, h4, h5, ?_⟩
  · intro j hj
    have := h3 j hj
    cases hl : liveAt L (fs.getD j 0) with
    | none => rw [hl] at this; cases this
    | some t =>
      rw [hl] at this
      exact ⟨t, liveAt_iff.1 hl, isTri_of_B this⟩
  · intro g t ht hv
    have := h6 (some t, g) (mem_zipIdx_of_get ht)
    simp only [hv, Bool.not_true, Bool.false_or, List.contains_eq_mem, decide_eq_true_eq] at this
    exact this

theorem sideKB_iff {L : List (Option Tri)} {g k : Nat} : sideKB L g k = true ↔ SideK L g k := by
  unfold sideKB SideK
  cases hl : liveAt L g with
  | none =>
    simp only [Bool.false_eq_true, false_iff]
    rintro ⟨t, ht, _⟩
    rw [liveAt_iff.2 ht] at hl; cases hl
  | some t =>
    have := liveAt_iff.1 hl
    simp only [List.contains_eq_mem, decide_eq_true_eq]
    constructor
    · intro hk; exact ⟨t, this, hk⟩
    · rintro ⟨t', ht', hk⟩
      rw [this] at ht'; cases ht'; exact hk

theorem sorted_of_B : ∀ {s : List Edge}, sortedB s = true → EdgeSet.Sorted s
  | [], _ => List.Pairwise.nil
  | x :: xs, h => by
    unfold sortedB at h
    simp only [Bool.and_eq_true, List.all_eq_true, decide_eq_true_eq] at h
    exact List.pairwise_cons.2 ⟨h.1, sorted_of_B h.2⟩

theorem idx_of_B {L : List (Option Tri)} {s : EdgeSet} (h : idxB L s = true) : IdxP (SideK L) s := by
  unfold idxB at h
  simp only [Bool.and_eq_true, List.all_eq_true] at h
  obtain ⟨⟨h1, h2⟩, h3⟩ := h
  -- every side of a live face has an entry that lists the face
  have hall : ∀ g k, SideK L g k → ∃ ed, EdgeSet.find? s k = some ed ∧ ed.hasFace g = true := by
    rintro g k ⟨t, ht, hk⟩
    have := h3 (some t, g) (mem_zipIdx_of_get ht)
    simp only [List.all_eq_true] at this
    have := this k hk
    cases hf : EdgeSet.find? s k with
    | none => rw [hf] at this; cases this
    | some ed => rw [hf] at this; exact ⟨ed, rfl, this⟩
  refine ⟨sorted_of_B h1, fun k => ?_⟩
  cases hf : EdgeSet.find? s k with
  | none =>
    intro g hs
    obtain ⟨ed, he, _⟩ := hall g k hs
    rw [hf] at he; cases he
  | some ed =>
    have hm := EdgeSet.find?_mem hf
    have hk := EdgeSet.find?_key hf
    obtain ⟨⟨⟨⟨a1, a2⟩, a3⟩, a4⟩, a5⟩ := h2 ed hm
    rw [hk] at a4 a5
    refine ⟨by simpa using a1, ⟨?_, by simpa using a3⟩, fun g => ?_⟩
    · intro hn; rw [hn] at a2; cases a2
    · constructor
      · intro hg
        rw [Edge.hasFace_iff] at hg
        rcases hg with hg | hg
        · rw [hg] at a4; exact sideKB_iff.1 a4
        · rw [hg] at a5; exact sideKB_iff.1 a5
      · intro hs
        obtain ⟨ed', he, hh⟩ := hall g k hs
        rw [hf] at he; cases he
        exact hh

theorem noSide_of_B {L : List (Option Tri)} {k : Nat} (h : noSideB L k = true) (g : Nat) : ¬ SideK L g k := by
  rintro ⟨t, ht, hk⟩
  unfold noSideB at h
  have := List.all_eq_true.1 h (some t) (List.mem_of_getElem? ht)
  simp only [List.contains_eq_mem, Bool.not_eq_eq_eq_not, Bool.not_true, decide_eq_false_iff_not] at this
  exact this hk

section
variable {R : Type} [Add R] [Sub R] [Mul R] [Div R] [Neg R] [Lit R] [LT R] [LE R] [DecidableLT R]
  [DecidableLE R] [DecidableEq R]

/-- the core-only copies used by the checkers coincide with the definitions the lemmas are about -/
theorem chkSlots_eq (c : Cell R) : chkSlots c = slots c := rfl

theorem chkNewSlot_eq (c : Cell R) : chkNewSlot c = newSlot c := by
  unfold chkNewSlot newSlot; cases c.freeNodes <;> rfl

theorem chkFaceFreeOk_eq (c : Cell R) : chkFaceFreeOk c = faceFreeOkB c := rfl

theorem edgeIdxComplete_of_B {c : Cell R} (h : edgeIdxCompleteB c = true) : EdgeIdxComplete c := by
  unfold edgeIdxCompleteB at h
  rw [chkSlots_eq] at h
  exact idx_of_B h

theorem vertexManifold_of_B {c : Cell R} {v : Nat} {fs ns : List Nat} (h : vertexManifoldB c v fs ns = true) :
    VertexManifold c v := by
  unfold vertexManifoldB at h
  rw [chkSlots_eq] at h
  exact ⟨fs, ns, fan_of_B h⟩

theorem freshNode_of_B {c : Cell R} {n : Nat} (h : freshNodeB c n = true) : FreshNode c n := by
  intro g t ht
  unfold freshNodeB at h
  rw [chkSlots_eq] at h
  have := List.all_eq_true.1 h (some t) (List.mem_of_getElem? ht)
  simpa using this

theorem fanF_zero {fs : List Nat} (h : 0 < fs.length) : fanF fs 0 = fs.getD (fs.length - 1) 0 := by
  unfold fanF
  rw [Nat.zero_add, Nat.mod_eq_of_lt (by omega)]

theorem fanN_lt {fs ns : List Nat} {m : Nat} (h : m < fs.length) : fanN fs ns m = ns.getD m 0 := by
  unfold fanN; rw [Nat.mod_eq_of_lt h]

theorem mergeHyp_of_B {c : Cell R} {e : Edge} {fsA nsA fsB nsB : List Nat}
    (h : mergeHypB c e fsA nsA fsB nsB = true) :
    MergeHyp c e fsA.length fsB.length (fanF fsA) (fanN fsA nsA) (fanF fsB) (fanN fsB nsB) := by
  unfold mergeHypB at h
  rw [chkSlots_eq, chkNewSlot_eq, chkFaceFreeOk_eq] at h
  simp only [Bool.and_eq_true, beq_iff_eq, decide_eq_true_eq] at h
  obtain ⟨⟨⟨⟨⟨⟨⟨⟨⟨⟨h1, h2⟩, h3⟩, h4⟩, h5⟩, h6⟩, h7⟩, h8⟩, h10⟩, h11⟩, h12⟩ := h
  have FA := fan_of_B h4
  have FB := fan_of_B h5
  have hent : ∃ E, getEdge c e.n1 e.n2 = some E ∧ E.f1 = some (fanF fsB 0) ∧
      ((E.f1 = e.f1 ∧ E.f2 = e.f2) ∨ (E.f1 = e.f2 ∧ E.f2 = e.f1)) := by
    cases hg : getEdge c e.n1 e.n2 with
    | none => rw [hg] at h3; cases h3
    | some E =>
      rw [hg] at h3
      simp only [Bool.and_eq_true, Bool.or_eq_true, beq_iff_eq] at h3
      exact ⟨E, rfl, by rw [fanF_zero FB.pos]; exact h3.1, h3.2⟩
  refine ⟨edgeIdxComplete_of_B h1, faceFreeOk_of_B h2, hent, FA.toF, FB.toF, FA.pos, ?_, ?_, ?_, h10, ?_,
    freshNode_of_B h12⟩
  · rw [fanN_lt FA.pos]; exact h6
  · rw [fanN_lt FB.pos]; exact h7
  · rw [fanF_zero FA.pos]; exact h8
  · intro m hm2 hm3 g
    simp only [List.all_eq_true, List.mem_range] at h11
    have hm : m < fsB.length := by omega
    have := h11 m hm
    simp only [hm2, hm3, decide_true, Bool.and_self, Bool.not_true, Bool.false_or] at this
    rw [fanN_lt hm]
    exact noSide_of_B this g

end

end Simu.Remesh
