import SimuVerif.Lemmas.RemeshMerge3
/-
  Part 4: the second walk of a collapse.  `new` is now a neighbour of `old` (`N 0 = new`): the first face becomes
  degenerate and the edge `{old,new}` becomes the loop `{new,new}`; at the two common neighbours `N 1` and `N (k-1)`
  the renamed edge already exists and the face ids are merged (`insertion_success == false`).
-/
set_option linter.unusedSectionVars false
set_option linter.unusedVariables false
set_option linter.unusedSimpArgs false
namespace Simu.Remesh
open Simu Simu.Surface
open Simu.C11 (bind_ok newSlot)

/-! ## 1. merging into an existing entry -/

/-- `insert(renamed copy)` finds an existing entry `st`, which is overwritten by `e'` (same nodes); then
    `erase(old edge)` -/
theorem merge_idx {P : Nat → Nat → Prop} {s : EdgeSet} {e ne st e' : Edge} (hI : IdxP P s)
    (he : EdgeSet.find? s e.key = some e) (hkk : ne.key ≠ e.key) (hst : EdgeSet.find? s ne.key = some st)
    (hn1 : e'.n1 = st.n1) (hn2 : e'.n2 = st.n2) (hw : WfFaces e') :
    (EdgeSet.insert s ne).2.2 = false ∧ (EdgeSet.insert s ne).2.1 = st ∧ (EdgeSet.insert s ne).1 = s ∧
    IdxP (fun g q => q ≠ e.key ∧ (if q = ne.key then e'.hasFace g = true else P g q))
      (EdgeSet.erase (EdgeSet.update s e') e.key) := by
  have R := EdgeSet.insert_spec hI.sorted ne
  obtain ⟨sk, sle, _, _⟩ := hI.of_find hst
  have hb : (EdgeSet.insert s ne).2.2 = false := by
    cases hb : (EdgeSet.insert s ne).2.2 with
    | false => rfl
    | true =>
      have := (R.new hb).1
      rw [hst] at this; cases this
  obtain ⟨o1, o2⟩ := R.old hb
  rw [hst] at o1
  have hk' : e'.key = ne.key := (Edge.key_congr hn1 hn2).trans sk
  refine ⟨hb, (Option.some.inj o1).symm, o2, EdgeSet.sorted_erase (EdgeSet.sorted_update hI.sorted _) _, fun q => ?_⟩
  rw [EdgeSet.find?_erase, EdgeSet.find?_update, hk']
  by_cases h1 : q = e.key
  · rw [if_pos h1]
    intro g hh
    exact hh.1 h1
  · rw [if_neg h1]
    by_cases h2 : q = ne.key
    · rw [if_pos h2, h2, hst]
      refine ⟨by rw [hn1, hn2]; exact sle, hw, fun g => ?_⟩
      dsimp only
      rw [if_pos rfl]
      exact ⟨fun hh => ⟨hkk, hh⟩, fun hh => hh.2⟩
    · rw [if_neg h2]
      refine (hI.entry q).congr (fun g => ?_)
      rw [if_neg h2]
      exact ⟨fun hh => ⟨h1, hh⟩, fun hh => hh.2⟩

/-- the merged face ids: the doomed start face `D` of the existing entry is replaced by the surviving face `G` of the
    erased edge -/
theorem mergedEntry_spec {start st : Edge} {g1 g2 oldFace fid D D' G : Nat} {A : Nat → Prop}
    (h1 : st.f1 = some g1) (h2 : st.f2 = some g2) (hw : WfFaces st) (hA : ∀ g, st.hasFace g = true ↔ A g)
    (hs : ∀ x, isStartF start x = true ↔ (x = D ∨ x = D')) (hD : A D) (hD' : ¬ A D') (hG : ¬ A G)
    (hGD : G ≠ D) (hGD' : G ≠ D') (hnew : (if isStartF start oldFace = true then fid else oldFace) = G) :
    WfFaces (mergedEntry start st g1 g2 oldFace fid) ∧
    ∀ g, (mergedEntry start st g1 g2 oldFace fid).hasFace g = true ↔
      ((A g ∨ (g = D ∨ g = G)) ∧ g ≠ D ∧ g ≠ D') := by
  have hne : g1 ≠ g2 := by
    intro hh; exact hw.2 (by rw [h1, h2, hh])
  have a1 : A g1 := (hA g1).1 ((Edge.hasFace_iff _ _).2 (Or.inl h1))
  have a2 : A g2 := (hA g2).1 ((Edge.hasFace_iff _ _).2 (Or.inr h2))
  have hAll : ∀ g, A g ↔ (g = g1 ∨ g = g2) := by
    intro g
    rw [← hA g, Edge.hasFace_iff, h1, h2]
    simp only [Option.some.injEq, eq_comm]
  have hDD : D = g1 ∨ D = g2 := (hAll D).1 hD
  unfold mergedEntry
  rw [hnew]
  have s1 : isStartF start g1 = true ↔ g1 = D := by
    rw [hs]
    constructor
    · rintro (h | h)
      · exact h
      · exact absurd (h ▸ a1) hD'
    · exact Or.inl
  have s2 : isStartF start g2 = true ↔ g2 = D := by
    rw [hs]
    constructor
    · rintro (h | h)
      · exact h
      · exact absurd (h ▸ a2) hD'
    · exact Or.inl
  have n1' : g1 ≠ D' := fun h => hD' (h ▸ a1)
  have n2' : g2 ≠ D' := fun h => hD' (h ▸ a2)
  have n1G : g1 ≠ G := fun h => hG (h ▸ a1)
  have n2G : g2 ≠ G := fun h => hG (h ▸ a2)
  rcases hDD with hd | hd
  · have t1 : isStartF start g1 = true := s1.2 hd.symm
    have t2 : ¬ isStartF start g2 = true := fun h => hne (hd.symm ▸ (s2.1 h).symm ▸ rfl)
    simp only [t1, t2, if_true, if_false]
    refine ⟨⟨by simp, by simpa using Ne.symm n2G⟩, fun g => ?_⟩
    simp only [Edge.hasFace_iff, Option.some.injEq, hAll]
    constructor
    · rintro (h | h)
      · subst h; exact ⟨Or.inr (Or.inr rfl), hGD, hGD'⟩
      · subst h; exact ⟨Or.inl (Or.inr rfl), fun h => hne (hd ▸ h).symm, n2'⟩
    · rintro ⟨(h | h) | (h | h), k1, k2⟩
      · exact absurd (h.trans hd.symm) k1
      · exact Or.inr h.symm
      · exact absurd h k1
      · exact Or.inl h.symm
  · have t2 : isStartF start g2 = true := s2.2 hd.symm
    have t1 : ¬ isStartF start g1 = true := fun h => hne ((s1.1 h).trans hd)
    simp only [t1, t2, if_true, if_false]
    refine ⟨⟨by simp, by simpa using n1G⟩, fun g => ?_⟩
    simp only [Edge.hasFace_iff, Option.some.injEq, hAll]
    constructor
    · rintro (h | h)
      · subst h; exact ⟨Or.inl (Or.inl rfl), fun h => hne (h.trans hd), n1'⟩
      · subst h; exact ⟨Or.inr (Or.inr rfl), hGD, hGD'⟩
    · rintro ⟨(h | h) | (h | h), k1, k2⟩
      · exact Or.inl h.symm
      · exact absurd (h.trans hd.symm) k1
      · exact absurd h k1
      · exact Or.inr h.symm

section
variable {R : Type} [Add R] [Sub R] [Mul R] [Div R] [Neg R] [Lit R] [LT R] [LE R] [DecidableLT R]
  [DecidableLE R] [DecidableEq R]

/-- the first face of the second walk becomes `{new, new, y}` -/
theorem oppositeNode_ren0 {f f' : Face R} {old new y : Nat} (hT : IsTri (f.n1, f.n2, f.n3) old new y)
    (hf' : (f'.n1, f'.n2, f'.n3) = renT old new (f.n1, f.n2, f.n3)) : oppositeNode f' new new = some y := by
  have h1 := hT.1
  have h2 := hT.2.1
  have h3 := hT.2.2.1
  have h1' := Ne.symm h1
  have h2' := Ne.symm h2
  have h3' := Ne.symm h3
  unfold renT rn at hf'
  simp only [Prod.mk.injEq] at hf'
  obtain ⟨q1, q2, q3⟩ := hf'
  unfold oppositeNode
  rw [q1, q2, q3]
  rcases hT.perm with ⟨e1, e2, e3⟩ | ⟨e1, e2, e3⟩ | ⟨e1, e2, e3⟩ | ⟨e1, e2, e3⟩ | ⟨e1, e2, e3⟩ | ⟨e1, e2, e3⟩ <;>
    simp [e1, e2, e3, h1, h2, h3, h1', h2', h3']

/-- the last face of the second walk becomes `{new, x, new}` -/
theorem oppositeNode_renLast {f f' : Face R} {old new x : Nat} (hT : IsTri (f.n1, f.n2, f.n3) old x new)
    (hf' : (f'.n1, f'.n2, f'.n3) = renT old new (f.n1, f.n2, f.n3)) :
    oppositeNode f' new x = none ∧ oppositeNode f' x new = none := by
  have h1 := hT.1
  have h2 := hT.2.1
  have h3 := hT.2.2.1
  have h1' := Ne.symm h1
  have h2' := Ne.symm h2
  have h3' := Ne.symm h3
  unfold renT rn at hf'
  simp only [Prod.mk.injEq] at hf'
  obtain ⟨q1, q2, q3⟩ := hf'
  unfold oppositeNode
  rw [q1, q2, q3]
  rcases hT.perm with ⟨e1, e2, e3⟩ | ⟨e1, e2, e3⟩ | ⟨e1, e2, e3⟩ | ⟨e1, e2, e3⟩ | ⟨e1, e2, e3⟩ | ⟨e1, e2, e3⟩ <;>
    simp [e1, e2, e3, h1, h2, h3, h1', h2', h3']

end

/-! ## 2. sides of the fan faces -/
section
variable {L : List (Option Tri)} {old new k : Nat} {F N : Nat → Nat}

theorem FanF.side_at (h : FanF L old k F N) {m : Nat} (hm : m < k) (q : Nat) :
    SideK L (F (m + 1)) q ↔
      (q = Edge.keyOf old (N m) ∨ q = Edge.keyOf old (N (m + 1)) ∨ q = Edge.keyOf (N m) (N (m + 1))) := by
  obtain ⟨t, ht, hT⟩ := h.tri m hm
  constructor
  · rintro ⟨t', ht', hq'⟩
    rw [ht] at ht'; cases ht'
    exact (hT.sideKeys_iff q).1 hq'
  · intro hq'
    exact ⟨t, ht, (hT.sideKeys_iff q).2 hq'⟩

theorem FanF.N_succ_ne (h : FanF L old k F N) {m : Nat} (hm : m < k) : N (m + 1) ≠ old := by
  obtain ⟨i, hi, he⟩ := h.nbr_next hm
  rw [he]; exact h.N_ne hi

/-- which fan faces have the side `{new, N i}` when `new = N 0` is itself a neighbour -/
theorem FanF.new_side (h : FanF L old k F N) (h0 : N 0 = new) {i m : Nat} (hi1 : 1 ≤ i) (hi : i < k) (hm : m < k) :
    SideK L (F (m + 1)) (Edge.keyOf new (N i)) ↔ ((m = 0 ∧ i = 1) ∨ (m + 1 = k ∧ i + 1 = k)) := by
  rw [h.side_at hm]
  have ho0 : N 0 ≠ old := h.N_ne (by omega)
  have hoi : N i ≠ old := h.N_ne hi
  have hom : N m ≠ old := h.N_ne hm
  have hom1 : N (m + 1) ≠ old := h.N_succ_ne hm
  rw [← h0]
  simp only [Edge.keyOf_eq_iff]
  constructor
  · rintro (hh | hh | hh)
    · omega
    · omega
    · rcases hh with ⟨a1, a2⟩ | ⟨a1, a2⟩
      · have e1 := h.injN 0 m (by omega) hm a1
        subst e1
        have h1k : 0 + 1 < k := by have := h.two_le (by omega); omega
        have e2 := h.injN i (0 + 1) hi h1k a2
        exact Or.inl ⟨rfl, e2⟩
      · have e2 := h.injN i m hi hm a2
        subst e2
        by_cases hlt : i + 1 < k
        · have := h.injN 0 (i + 1) (by omega) hlt a1
          omega
        · exact Or.inr ⟨by omega, by omega⟩
  · rintro (⟨rfl, rfl⟩ | ⟨e1, e2⟩)
    · exact Or.inr (Or.inr (Or.inl ⟨rfl, rfl⟩))
    · have : m = i := by omega
      subst this
      refine Or.inr (Or.inr (Or.inr ⟨?_, rfl⟩))
      rw [e1, h.closeN]

theorem Pj_at_new (h : FanF L old k F N) (hon : old ≠ new) (P0 Q : Nat → Nat → Prop) {i j : Nat} (hi : i < k)
    (hji : j ≤ i) (g : Nat) : Pj old new N P0 Q j g (Edge.keyOf new (N i)) ↔ P0 g (Edge.keyOf new (N i)) := by
  unfold Pj
  constructor
  · rintro ⟨_, ⟨m, hm, he, _⟩ | ⟨_, hp⟩⟩
    · have := h.K'_inj hi (by omega) he; omega
    · exact hp
  · intro hp
    refine ⟨fun m hm => h.KK' hon hi, Or.inr ⟨fun m hm he => ?_, hp⟩⟩
    have := h.K'_inj hi (by omega) he; omega

end

/-! ## 3. the second walk -/

/-- what is registered under `{new, N m}` after step `m` of the second walk: the loop edge `{new,new}` carries the two
    doomed faces `F 0 = F k` and `F 1`; under `{new, N m}`, `m ≥ 1`, the faces that had `{new, N m}` or `{old, N m}`
    as a side, except the two doomed ones -/
def Q2 (old new k : Nat) (F N : Nat → Nat) (P0 : Nat → Nat → Prop) (m g : Nat) : Prop :=
  if m = 0 then (g = F 0 ∨ g = F 1)
  else ((P0 g (Edge.keyOf new (N m)) ∨ P0 g (Edge.keyOf old (N m))) ∧ g ≠ F 1 ∧ g ≠ F k)

/-- hypotheses of the second walk: `new = N 0` is a neighbour of `old`; the fan has at least 3 faces; the start edge
    `{old,new}` lists `F 0` (= the last face `F k`) first and `F 1` second; no live face has a side `{new,new}`;
    **link condition**: `N 2 … N (k-2)` are not joined to `new` by an edge -/
structure Walk2Hyp (L0 : List (Option Tri)) (start : Edge) (old new k : Nat) (F N : Nat → Nat) : Prop where
  fan : FanF L0 old k F N
  k3 : 3 ≤ k
  n0 : N 0 = new
  hon : old ≠ new
  sf1 : start.f1 = some (F 0)
  sf2 : start.f2 = some (F 1)
  nd : ∀ g, ¬ SideK L0 g (Edge.keyOf new new)
  link : ∀ m, 2 ≤ m → m + 2 ≤ k → ∀ g, ¬ SideK L0 g (Edge.keyOf new (N m))

section
variable {L0 : List (Option Tri)} {start : Edge} {old new k : Nat} {F N : Nat → Nat}

theorem Walk2Hyp.isStart (H : Walk2Hyp L0 start old new k F N) (x : Nat) :
    isStartF start x = true ↔ (x = F 0 ∨ x = F 1) := by
  unfold isStartF
  rw [H.sf1, H.sf2]
  simp

/-- in a step that moves the entry, the moved faces are what `Q2` prescribes -/
theorem Walk2Hyp.Q2_move (H : Walk2Hyp L0 start old new k F N) {j : Nat} (hj : j < k)
    (hc : j = 0 ∨ (2 ≤ j ∧ j + 2 ≤ k)) (g : Nat) :
    SideK L0 g (Edge.keyOf old (N j)) ↔ Q2 old new k F N (SideK L0) j g := by
  have hk3 := H.k3
  unfold Q2
  rcases hc with rfl | ⟨h2, h3⟩
  · rw [if_pos rfl]; exact H.fan.side hj g
  · rw [if_neg (by omega)]
    constructor
    · intro hp
      refine ⟨Or.inr hp, ?_, ?_⟩
      · rintro rfl
        rcases (H.fan.side hj _).1 hp with he | he
        · have := H.fan.injF 1 j (by omega) (by omega) (by omega) (by omega) he; omega
        · have := H.fan.injF 1 (j + 1) (by omega) (by omega) (by omega) (by omega) he; omega
      · rintro rfl
        rcases (H.fan.side hj _).1 hp with he | he
        · have := H.fan.injF k j (by omega) (by omega) (by omega) (by omega) he; omega
        · have := H.fan.injF k (j + 1) (by omega) (by omega) (by omega) (by omega) he; omega
    · rintro ⟨hp | hp, _, _⟩
      · exact (H.link j h2 h3 g hp).elim
      · exact hp

/-- the data of a merging step (`j = 1` or `j = k-1`): the doomed face `D` on the existing edge `{new, N j}`, the other
    doomed face `D'`, the surviving face `G` of the erased edge `{old, N j}` -/
theorem Walk2Hyp.merge_data (H : Walk2Hyp L0 start old new k F N) {j : Nat} (hj : j < k)
    (hc : j = 1 ∨ j + 1 = k) :
    ∃ D D' G, (∀ x, isStartF start x = true ↔ (x = D ∨ x = D')) ∧
      SideK L0 D (Edge.keyOf new (N j)) ∧ ¬ SideK L0 D' (Edge.keyOf new (N j)) ∧
      ¬ SideK L0 G (Edge.keyOf new (N j)) ∧ G ≠ D ∧ G ≠ D' ∧
      (if isStartF start (F j) = true then F (j + 1) else F j) = G ∧
      (∀ g, SideK L0 g (Edge.keyOf old (N j)) ↔ (g = D ∨ g = G)) ∧
      (∀ g, (g ≠ F 1 ∧ g ≠ F k) ↔ (g ≠ D ∧ g ≠ D')) := by
  have hk3 := H.k3
  have hfan := H.fan
  by_cases h1 : j = 1
  · subst h1
    refine ⟨F 1, F k, F 2, ?_, ?_, ?_, ?_, ?_, ?_, ?_, ?_, fun g => Iff.rfl⟩
    · intro x; rw [H.isStart, hfan.closeF]; exact or_comm
    · exact (hfan.new_side H.n0 (Nat.le_refl _) hj (by omega : 0 < k)).2 (Or.inl ⟨rfl, rfl⟩)
    · intro hp
      have e : F k = F (k - 1 + 1) := by congr 1; omega
      rw [e] at hp
      have := (hfan.new_side H.n0 (Nat.le_refl _) hj (by omega : k - 1 < k)).1 hp
      omega
    · intro hp
      have := (hfan.new_side H.n0 (Nat.le_refl _) hj (by omega : 1 < k)).1 hp
      omega
    · intro he
      have := hfan.injF 2 1 (by omega) (by omega) (by omega) (by omega) he; omega
    · intro he
      have := hfan.injF 2 k (by omega) (by omega) (by omega) (by omega) he; omega
    · rw [if_pos ((H.isStart _).2 (Or.inr rfl))]
    · intro g; exact hfan.side hj g
  · have hjk : j + 1 = k := by omega
    have hj2 : 2 ≤ j := by omega
    refine ⟨F k, F 1, F j, ?_, ?_, ?_, ?_, ?_, ?_, ?_, ?_, fun g => and_comm⟩
    · intro x; rw [H.isStart, hfan.closeF]
    · rw [← hjk]
      exact (hfan.new_side H.n0 (by omega) hj hj).2 (Or.inr ⟨hjk, hjk⟩)
    · intro hp
      have := (hfan.new_side H.n0 (by omega : 1 ≤ j) hj (by omega : 0 < k)).1 hp
      omega
    · intro hp
      have e : F j = F (j - 1 + 1) := by congr 1; omega
      rw [e] at hp
      have := (hfan.new_side H.n0 (by omega : 1 ≤ j) hj (by omega : j - 1 < k)).1 hp
      omega
    · rw [← hjk]; exact hfan.F_succ_ne hj
    · intro he
      have := hfan.injF j 1 (by omega) (by omega) (by omega) (by omega) he; omega
    · have : ¬ isStartF start (F j) = true := by
        rw [H.isStart]
        rintro (he | he)
        · rw [hfan.closeF] at he
          have := hfan.injF j k (by omega) (by omega) (by omega) (by omega) he; omega
        · have := hfan.injF j 1 (by omega) (by omega) (by omega) (by omega) he; omega
      rw [if_neg this]
    · intro g; rw [hfan.side hj g, ← hjk]; exact or_comm

end

section
variable {R : Type} [Add R] [Sub R] [Mul R] [Div R] [Neg R] [Lit R] [LT R] [LE R] [DecidableLT R]
  [DecidableLE R] [DecidableEq R]

/-- **one step of the second walk**, with the edges appended to the two lists -/
theorem walk2_step' {fn : Fn R} {start : Edge} {old new k : Nat} {F N : Nat → Nat} {c0 c : Cell R} {j fuel : Nat}
    (H : Walk2Hyp (slots c0) start old new k F N)
    (hW : WalkState old new F N (Q2 old new k F N (SideK (slots c0))) c0 c j) (hj : j < k)
    {del cre : List Edge} {r : Cell R × List Edge × List Edge}
    (h : replaceNode.loop fn start old new (fuel + 1) c (EdgeSet.find? c.edges (Edge.keyOf old (N j))) (F j) del cre
      = .ok r) :
    ∃ e stored, e.key = Edge.keyOf old (N j) ∧ CreOK new N (Q2 old new k F N (SideK (slots c0))) j stored ∧
    ((j + 1 = k ∧ WalkState old new F N (Q2 old new k F N (SideK (slots c0))) c0 r.1 k ∧
        r.2 = (del ++ [e], cre ++ [stored])) ∨
    (j + 1 < k ∧ ∃ c2, WalkState old new F N (Q2 old new k F N (SideK (slots c0))) c0 c2 (j + 1) ∧
      replaceNode.loop fn start old new fuel c2 (EdgeSet.find? c2.edges (Edge.keyOf old (N (j + 1)))) (F (j + 1))
        (del ++ [e]) (cre ++ [stored]) = .ok r)) := by
  have hfan := H.fan
  have hon := H.hon
  have hk3 := H.k3
  cases hcur : EdgeSet.find? c.edges (Edge.keyOf old (N j)) with
  | none => rw [hcur] at h; unfold replaceNode.loop at h; cases h
  | some e =>
    rw [hcur] at h
    obtain ⟨ek, ele, ewf, eP⟩ := hW.idx.of_find hcur
    have eF : ∀ g, e.hasFace g = true ↔ (g = F j ∨ g = F (j + 1)) := fun g =>
      (eP g).trans ((Pj_at_old hfan hon _ _ hj (Nat.le_refl _) g).trans (hfan.side hj g))
    obtain ⟨fid, f, ef1, ef2, ho, hf, he1, he2, s2, stored, hins, f', hf', hrest⟩ := loop_unroll h
    obtain ⟨rfl, _⟩ := otherFace_of_two ewf eF (hfan.F_succ_ne hj) ho
    -- the face that is renamed
    obtain ⟨t, ht0, hT⟩ := hfan.tri j hj
    have hnotdone : ∀ m, 1 ≤ m → m ≤ j → F (j + 1) ≠ F m := by
      intro m h1 h2 he
      have := hfan.injF (j + 1) m (by omega) (by omega) h1 (by omega) he
      omega
    have hslot : (slots c)[F (j + 1)]? = some (some t) := by rw [hW.other _ hnotdone]; exact ht0
    obtain ⟨hu, hft⟩ := face_of_slot hf hslot
    subst hft
    have htri := triOf_faceReplaceNode (new := new) hu hT
    obtain ⟨sS, sE, sN, sFN, sFF⟩ := stepFaces_spec fn c (F (j + 1)) f old new
    rw [htri] at sS
    have hlt : F (j + 1) < (slots c).length := (List.getElem?_eq_some_iff.1 hslot).1
    -- the renamed edge
    have hNj : N j ≠ old := hfan.N_ne hj
    obtain ⟨rk, rle, rf1, rf2, rn12⟩ := renEdge_spec (new := new) ele ek hNj
    have hkk : (renEdge e old new).key ≠ e.key := by rw [rk, ek]; exact hfan.KK' hon hj
    rw [sE] at hins
    have hecur : EdgeSet.find? c.edges e.key = some e := by rw [ek]; exact hcur
    -- the index after the step
    have key : IdxP (Pj old new N (SideK (slots c0)) (Q2 old new k F N (SideK (slots c0))) (j + 1))
          (EdgeSet.erase s2 e.key) ∧
        ((stored.n1 = new ∧ stored.n2 = N j) ∨ (stored.n1 = N j ∧ stored.n2 = new)) ∧
        (j = 0 → ∃ ne, EdgeSet.find? (EdgeSet.erase s2 e.key) (Edge.keyOf new (N 0)) = some ne ∧
          ne.f1 = e.f1 ∧ ne.f2 = e.f2) ∧
        (0 < j → EdgeSet.find? (EdgeSet.erase s2 e.key) (Edge.keyOf new (N 0)) =
          EdgeSet.find? c.edges (Edge.keyOf new (N 0))) ∧
        EdgeSet.find? (EdgeSet.erase s2 e.key) (Edge.keyOf new (N j)) = some stored := by
      have hk0e : 0 < j → Edge.keyOf new (N 0) ≠ e.key := by
        intro _; rw [ek]; exact hfan.KK' hon (by omega)
      have hk0n : 0 < j → Edge.keyOf new (N 0) ≠ Edge.keyOf new (N j) := by
        intro _ he
        have := hfan.K'_inj (by omega) hj he
        omega
      by_cases hcase : j = 0 ∨ (2 ≤ j ∧ j + 2 ≤ k)
      · -- the renamed edge is new
        have hnone : EdgeSet.find? c.edges (renEdge e old new).key = none := by
          rw [rk]
          refine hW.idx.none_of (fun g hp => ?_)
          have hp' := (Pj_at_new hfan hon _ _ hj (Nat.le_refl _) g).1 hp
          rcases hcase with h0 | ⟨h2, h3⟩
          · rw [h0, H.n0] at hp'; exact H.nd g hp'
          · exact H.link j h2 h3 g hp'
        obtain ⟨mb, mst, mI⟩ := move_idx hW.idx hecur rle rf1 rf2 hkk hnone
        rcases hins with ⟨_, hs2, hst⟩ | ⟨hb, _⟩
        swap
        · rw [mb] at hb; cases hb
        rw [mst] at hst
        subst hst; subst hs2
        have RI := EdgeSet.insert_spec hW.idx.sorted (renEdge e old new)
        have hfind : ∀ q, q ≠ e.key →
            EdgeSet.find? (EdgeSet.erase (EdgeSet.insert c.edges (renEdge e old new)).1 e.key) q =
              if q = (renEdge e old new).key then some (renEdge e old new) else EdgeSet.find? c.edges q := by
          intro q hq
          rw [EdgeSet.find?_erase, if_neg hq, RI.find, mst]
        refine ⟨mI.congr (fun g q => ?_), rn12, ?_, ?_, ?_⟩
        · rw [ek, rk, Pj_succ hfan hon _ _ hj g q]
          by_cases hq : q = Edge.keyOf new (N j)
          · rw [if_pos hq, if_pos hq, Pj_at_old hfan hon _ _ hj (Nat.le_refl _), H.Q2_move hj hcase]
          · rw [if_neg hq, if_neg hq]
        · intro h0
          subst h0
          exact ⟨renEdge e old new, by rw [hfind _ (by rw [← rk]; exact hkk), if_pos rk.symm], rf1, rf2⟩
        · intro h0
          rw [hfind _ (hk0e h0), if_neg (by rw [rk]; exact hk0n h0)]
        · rw [hfind _ (by rw [← rk]; exact hkk), if_pos rk.symm]
      · -- the renamed edge exists: merge
        have hjm : j = 1 ∨ j + 1 = k := by omega
        have hj1 : 1 ≤ j := by omega
        obtain ⟨D, D', G, hs, hD, hD', hG, hGD, hGD', hnew, hB, hDD⟩ := H.merge_data hj hjm
        obtain ⟨st, hst⟩ := hW.idx.get (g := D) (k := Edge.keyOf new (N j))
          ((Pj_at_new hfan hon _ _ hj (Nat.le_refl _) D).2 hD)
        obtain ⟨sk, sle, swf, sP⟩ := hW.idx.of_find hst
        have RI := EdgeSet.insert_spec hW.idx.sorted (renEdge e old new)
        rcases hins with ⟨hb, _, _⟩ | ⟨hb, g1, g2, hg1, hg2, hstored, hs2⟩
        · have := (RI.new hb).1
          rw [rk, hst] at this; cases this
        have hins_st : (EdgeSet.insert c.edges (renEdge e old new)).2.1 = st := by
          have := (RI.old hb).1
          rw [rk, hst] at this
          exact (Option.some.inj this).symm
        rw [hins_st] at hg1 hg2 hstored
        obtain ⟨mw, mh⟩ := mergedEntry_spec (A := fun g => SideK (slots c0) g (Edge.keyOf new (N j))) hg1 hg2 swf
          (fun g => (sP g).trans (Pj_at_new hfan hon _ _ hj (Nat.le_refl _) g)) hs hD hD' hG hGD hGD' hnew
        rw [← hstored] at mw mh
        have hsn1 : stored.n1 = st.n1 := by rw [hstored]; rfl
        have hsn2 : stored.n2 = st.n2 := by rw [hstored]; rfl
        obtain ⟨_, _, ms, mI⟩ := merge_idx hW.idx hecur hkk (by rw [rk]; exact hst) hsn1 hsn2 mw
        rw [ms] at hs2
        subst hs2
        have hsk' : stored.key = Edge.keyOf new (N j) := (Edge.key_congr hsn1 hsn2).trans sk
        refine ⟨mI.congr (fun g q => ?_), ?_, fun h0 => by omega, ?_, ?_⟩
        · rw [ek, rk, Pj_succ hfan hon _ _ hj g q]
          by_cases hq : q = Edge.keyOf new (N j)
          · rw [if_pos hq, if_pos hq, mh g]
            unfold Q2
            rw [if_neg (by omega), hB g, hDD g]
          · rw [if_neg hq, if_neg hq]
        · rw [hsn1, hsn2]
          exact (Edge.key_eq_keyOf_iff sle).1 sk
        · intro h0
          have hsk : stored.key = Edge.keyOf new (N j) := (Edge.key_congr hsn1 hsn2).trans sk
          rw [EdgeSet.find?_erase, if_neg (hk0e h0), EdgeSet.find?_update, if_neg (by rw [hsk]; exact hk0n h0)]
        · rw [EdgeSet.find?_erase, if_neg (by rw [← rk]; exact hkk), EdgeSet.find?_update, if_pos hsk'.symm, hst]
          rfl
    obtain ⟨kI, kn, kf0, kf1, kst⟩ := key
    -- the state after the step
    obtain ⟨c2, hc2⟩ : ∃ c2 : Cell R, c2 = ({ stepFaces fn c (F (j + 1)) f old new with
        edges := EdgeSet.erase s2 e.key } : Cell R) := ⟨_, rfl⟩
    rw [← hc2] at hrest
    have hS2 : slots c2 = (slots c).set (F (j + 1)) (some (renT old new (f.n1, f.n2, f.n3))) := by
      rw [hc2]; exact sS
    have hE2 : c2.edges = EdgeSet.erase s2 e.key := by rw [hc2]
    have hW2 : WalkState old new F N (Q2 old new k F N (SideK (slots c0))) c0 c2 (j + 1) := by
      refine ⟨?_, ?_, ?_, ?_, ?_, ?_, ?_, fun h0 => by omega, ?_⟩
      · rw [hS2, List.length_set]; exact hW.len
      · intro m h1 h2
        rw [hS2]
        by_cases hm : m = j + 1
        · subst hm
          rw [List.getElem?_set_self hlt, ht0]; rfl
        · rw [List.getElem?_set_ne (hnotdone m h1 (by omega))]
          exact hW.done m h1 (by omega)
      · intro g hg
        rw [hS2, List.getElem?_set_ne (Ne.symm (hg (j + 1) (by omega) (Nat.le_refl _)))]
        exact hW.other g (fun m h1 h2 => hg m h1 (by omega))
      · rw [hE2]; exact kI
      · rw [hc2]; exact sN.trans hW.nodes
      · rw [hc2]; exact sFN.trans hW.freeNodes
      · rw [hc2]; exact sFF.trans hW.freeFaces
      · intro _
        by_cases h0 : j = 0
        · obtain ⟨ne, q2, q3, q4⟩ := kf0 h0
          refine ⟨e, ne, ?_, by rw [hE2]; exact q2, q3, q4⟩
          rw [← hW.zero h0, ← h0]; exact hcur
        · obtain ⟨e0, ne0, q1, q2, q3, q4⟩ := hW.first (by omega)
          exact ⟨e0, ne0, q1, by rw [hE2, kf1 (by omega)]; exact q2, q3, q4⟩
    -- the opposite node
    have hs' : (slots (stepFaces fn c (F (j + 1)) f old new))[F (j + 1)]? =
        some (some (renT old new (f.n1, f.n2, f.n3))) := by rw [sS]; exact List.getElem?_set_self hlt
    obtain ⟨hu', hft'⟩ := face_of_slot hf' hs'
    have hcre : CreOK new N (Q2 old new k F N (SideK (slots c0))) j stored := by
      obtain ⟨a1, a2, a3, a4⟩ := hW2.idx.of_find (by rw [hE2]; exact kst)
      exact ⟨a1, a2, a3, fun g => (a4 g).trans (Pj_just hfan hon _ _ hj g)⟩
    refine ⟨e, stored, ek, hcre, ?_⟩
    by_cases hlast : j + 1 = k
    · left
      refine ⟨hlast, ?_⟩
      have hTl : IsTri (f.n1, f.n2, f.n3) old (N j) new := by
        have := hT
        rw [hlast, hfan.closeN, H.n0] at this
        exact this
      obtain ⟨o1, o2⟩ := oppositeNode_renLast hTl hft'
      have hopp : oppositeNode f' stored.n1 stored.n2 = none := by
        rcases kn with ⟨a1, a2⟩ | ⟨a1, a2⟩
        · rw [a1, a2]; exact o1
        · rw [a1, a2]; exact o2
      rw [hopp] at hrest
      rcases hrest with ⟨_, hr⟩ | ⟨opp, ho', _⟩
      · rw [hr]
        have hW2' := hW2
        rw [hlast] at hW2'
        exact ⟨hW2', rfl⟩
      · cases ho'
    · right
      have hj1 : j + 1 < k := by omega
      refine ⟨hj1, ?_⟩
      have hopp : oppositeNode f' stored.n1 stored.n2 = some (N (j + 1)) := by
        by_cases h0 : j = 0
        · subst h0
          have hT0 : IsTri (f.n1, f.n2, f.n3) old new (N (0 + 1)) := by
            have := hT
            rw [H.n0] at this
            exact this
          have hnn : stored.n1 = new ∧ stored.n2 = new := by
            rw [H.n0] at kn
            rcases kn with ⟨a1, a2⟩ | ⟨a1, a2⟩
            · exact ⟨a1, a2⟩
            · exact ⟨a1, a2⟩
          rw [hnn.1, hnn.2]
          exact oppositeNode_ren0 hT0 hft'
        · have hnew1 : N j ≠ new := by
            intro he
            rw [← H.n0] at he
            have := hfan.injN j 0 hj (by omega) he
            exact h0 this
          have hnew2 : N (j + 1) ≠ new := by
            intro he
            rw [← H.n0] at he
            have := hfan.injN (j + 1) 0 hj1 (by omega) he
            omega
          have hT' : IsTri (f'.n1, f'.n2, f'.n3) new (N j) (N (j + 1)) := by
            rw [hft']; exact isTri_renT hT hnew1 hnew2
          rcases kn with ⟨a1, a2⟩ | ⟨a1, a2⟩
          · rw [a1, a2]; exact (oppositeNode_isTri hT').1
          · rw [a1, a2]; exact (oppositeNode_isTri hT').2
      rw [hopp] at hrest
      rcases hrest with ⟨hno, _⟩ | ⟨opp, ho', hrest⟩
      · cases hno
      cases ho'
      rw [getEdge_eq] at hrest
      obtain ⟨ed, hed⟩ := hW2.idx.get (g := F (j + 1 + 1)) (k := Edge.keyOf old (N (j + 1)))
        ((Pj_at_old hfan hon _ _ hj1 (Nat.le_refl _) _).2 ((hfan.side hj1 _).2 (Or.inr rfl)))
      rw [hed] at hrest
      rcases hrest with ⟨hx, _⟩ | ⟨nxt, hx, hl⟩
      · cases hx
      · cases hx
        exact ⟨c2, hW2, by rw [hed]; exact hl⟩

theorem walk2_step {fn : Fn R} {start : Edge} {old new k : Nat} {F N : Nat → Nat} {c0 c : Cell R} {j fuel : Nat}
    (H : Walk2Hyp (slots c0) start old new k F N)
    (hW : WalkState old new F N (Q2 old new k F N (SideK (slots c0))) c0 c j) (hj : j < k)
    {del cre : List Edge} {r : Cell R × List Edge × List Edge}
    (h : replaceNode.loop fn start old new (fuel + 1) c (EdgeSet.find? c.edges (Edge.keyOf old (N j))) (F j) del cre
      = .ok r) :
    (j + 1 = k ∧ WalkState old new F N (Q2 old new k F N (SideK (slots c0))) c0 r.1 k) ∨
    (j + 1 < k ∧ ∃ c2 del' cre', WalkState old new F N (Q2 old new k F N (SideK (slots c0))) c0 c2 (j + 1) ∧
      replaceNode.loop fn start old new fuel c2 (EdgeSet.find? c2.edges (Edge.keyOf old (N (j + 1)))) (F (j + 1))
        del' cre' = .ok r) := by
  obtain ⟨e, stored, _, _, h1 | h2⟩ := walk2_step' H hW hj h
  · exact Or.inl ⟨h1.1, h1.2.1⟩
  · obtain ⟨hj1, c2, hW2, hl⟩ := h2
    exact Or.inr ⟨hj1, c2, _, _, hW2, hl⟩

/-- **the second walk**, with the two edge lists -/
theorem walk2' {fn : Fn R} {start : Edge} {old new k : Nat} {F N : Nat → Nat} {c0 : Cell R}
    (H : Walk2Hyp (slots c0) start old new k F N) :
    ∀ (fuel j : Nat) (c : Cell R) (del cre : List Edge) (r : Cell R × List Edge × List Edge),
      WalkState old new F N (Q2 old new k F N (SideK (slots c0))) c0 c j → j < k →
      replaceNode.loop fn start old new fuel c (EdgeSet.find? c.edges (Edge.keyOf old (N j))) (F j) del cre = .ok r →
      WalkState old new F N (Q2 old new k F N (SideK (slots c0))) c0 r.1 k ∧
      WalkLists old new k N (Q2 old new k F N (SideK (slots c0))) j del cre r.2.1 r.2.2 := by
  intro fuel
  induction fuel with
  | zero => intro j c del cre r _ _ h; unfold replaceNode.loop at h; cases h
  | succ fuel ih =>
    intro j c del cre r hW hj h
    obtain ⟨e, stored, he, hs, ⟨hl, hr, hr2⟩ | ⟨hj1, c2, hW2, h2⟩⟩ := walk2_step' H hW hj h
    · refine ⟨hr, ?_⟩
      rw [hr2]
      exact WalkLists.last he hs hl
    · obtain ⟨a, b⟩ := ih (j + 1) c2 _ _ r hW2 hj1 h2
      exact ⟨a, WalkLists.step he hs hj b⟩

/-- **the second walk** -/
theorem walk2 {fn : Fn R} {start : Edge} {old new k : Nat} {F N : Nat → Nat} {c0 : Cell R}
    (H : Walk2Hyp (slots c0) start old new k F N) :
    ∀ (fuel j : Nat) (c : Cell R) (del cre : List Edge) (r : Cell R × List Edge × List Edge),
      WalkState old new F N (Q2 old new k F N (SideK (slots c0))) c0 c j → j < k →
      replaceNode.loop fn start old new fuel c (EdgeSet.find? c.edges (Edge.keyOf old (N j))) (F j) del cre = .ok r →
      WalkState old new F N (Q2 old new k F N (SideK (slots c0))) c0 r.1 k :=
  fun fuel j c del cre r hW hj h => (walk2' H fuel j c del cre r hW hj h).1

end

end Simu.Remesh
