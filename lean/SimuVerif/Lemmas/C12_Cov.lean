import SimuVerif.Lemmas.C12_Flood
/-
  C12 — small sum lemmas, per-face re-orientation, the covariance matrix of
  `get_cell_longest_axis` as an operator, and a Boolean checker for `NbGood`.
-/
set_option linter.unusedSectionVars false
set_option linter.unusedSimpArgs false
namespace Simu.Geo
open Simu Simu.Gen.Geometry
variable {R : Type} [Field R] [LinearOrder R] [IsStrictOrderedRing R]

theorem sum_map_add' {α : Type} (f g : α → R) (l : List α) :
    (l.map (fun a => f a + g a)).sum = (l.map f).sum + (l.map g).sum := by
  induction l with
  | nil => simp
  | cons a l ih => simp only [List.map_cons, List.sum_cons, ih]; ring

theorem sum_map_mul_left' {α : Type} (f : α → R) (k : R) (l : List α) :
    (l.map (fun a => k * f a)).sum = k * (l.map f).sum := by
  induction l with
  | nil => simp
  | cons a l ih => simp only [List.map_cons, List.sum_cons, ih]; ring

theorem sum_map_neg' {α : Type} (f : α → R) (l : List α) :
    (l.map (fun a => - f a)).sum = - (l.map f).sum := by
  induction l with
  | nil => simp
  | cons a l ih => simp only [List.map_cons, List.sum_cons, ih]; ring

theorem sum_map_lin3 {α : Type} (f g h : α → R) (a b c : R) (l : List α) :
    (l.map (fun p => f p * a + g p * b + h p * c)).sum
      = (l.map f).sum * a + (l.map g).sum * b + (l.map h).sum * c := by
  induction l with
  | nil => simp
  | cons x l ih => simp only [List.map_cons, List.sum_cons, ih]; ring

theorem vsum_const_smul {α : Type} (d : V3 R) (f : α → R) (l : List α) :
    vsum (l.map (fun a => d * f a)) = d * (l.map f).sum := by
  induction l with
  | nil => apply V3.ext' <;> simp [vsum]
  | cons a l ih => simp only [List.map_cons, vsum, ih, List.sum_cons, V3.add_smul']

/-- `T'` is `T` with every face kept, reversed (`swap13`, `swap23`, `swap12`) or cyclically
    renumbered — an arbitrary mix of input windings -/
inductive Rewound : List Tri → List Tri → Prop
  | nil : Rewound [] []
  | keep (t : Tri) {T T' : List Tri} : Rewound T T' → Rewound (t :: T) (t :: T')
  | s13 (t : Tri) {T T' : List Tri} : Rewound T T' → Rewound (t :: T) (swap13 t :: T')
  | s23 (t : Tri) {T T' : List Tri} : Rewound T T' → Rewound (t :: T) (swap23 t :: T')
  | s12 (t : Tri) {T T' : List Tri} : Rewound T T' → Rewound (t :: T) (swap12 t :: T')
  | cyc (t : Tri) {T T' : List Tri} : Rewound T T' → Rewound (t :: T) ((t.2.1, t.2.2, t.1) :: T')

theorem normSq_rawNormal_swap12 (pos : Nat → V3 R) (t : Tri) :
    V3.normSq (rawNormal pos (swap12 t)) = V3.normSq (rawNormal pos t) := by
  simp only [rawNormal, swap12, V3.normSq_def, V3.cross_def, V3.sub_x, V3.sub_y, V3.sub_z]; ring
theorem normSq_rawNormal_cyc (pos : Nat → V3 R) (t : Tri) :
    V3.normSq (rawNormal pos (t.2.1, t.2.2, t.1)) = V3.normSq (rawNormal pos t) := by
  simp only [rawNormal, V3.normSq_def, V3.cross_def, V3.sub_x, V3.sub_y, V3.sub_z]; ring

/-! ### the covariance matrix as an operator -/

/-- the matrix with rows `r` applied to `v` -/
def covApply (r : V3 R × V3 R × V3 R) (v : V3 R) : V3 R := ⟨V3.dot r.1 v, V3.dot r.2.1 v, V3.dot r.2.2 v⟩

theorem cov_fold (c : V3 R) (ps : List (V3 R)) (acc : R × R × R × R × R × R) :
    ps.foldl (covStep c) acc =
      (acc.1 + (ps.map (fun p => (p.x - c.x) * (p.x - c.x))).sum,
       acc.2.1 + (ps.map (fun p => (p.x - c.x) * (p.y - c.y))).sum,
       acc.2.2.1 + (ps.map (fun p => (p.x - c.x) * (p.z - c.z))).sum,
       acc.2.2.2.1 + (ps.map (fun p => (p.y - c.y) * (p.y - c.y))).sum,
       acc.2.2.2.2.1 + (ps.map (fun p => (p.y - c.y) * (p.z - c.z))).sum,
       acc.2.2.2.2.2 + (ps.map (fun p => (p.z - c.z) * (p.z - c.z))).sum) := by
  induction ps generalizing acc with
  | nil => simp
  | cons p ps ih =>
    obtain ⟨a1, a2, a3, a4, a5, a6⟩ := acc
    simp only [List.foldl_cons, List.map_cons, List.sum_cons]
    rw [ih]
    simp only [covStep, add_assoc]

/-- C v = (1/n) Σ (p − c) ((p − c)·v) -/
theorem covApply_eq_vsum (c : V3 R) (ps : List (V3 R)) (v : V3 R) :
    covApply (covRows (covOf c ps)) v
      = vsum (ps.map (fun p => (p - c) * V3.dot (p - c) v)) / (ps.length : R) := by
  unfold covOf
  rw [cov_fold]
  simp only [covInit, covFinish, covRows, covApply, lit_zero, zero_add, lit_eq]
  apply V3.ext'
  · simp only [V3.sdiv_x, vsum_x, List.map_map, Function.comp_def, V3.smul_x, V3.sub_x, V3.dot_def, V3.sub_y, V3.sub_z]
    have := sum_map_lin3 (fun p : V3 R => (p.x - c.x) * (p.x - c.x)) (fun p => (p.x - c.x) * (p.y - c.y))
      (fun p => (p.x - c.x) * (p.z - c.z)) v.x v.y v.z ps
    rw [show (ps.map (fun p : V3 R => (p.x - c.x) * ((p.x - c.x) * v.x + (p.y - c.y) * v.y + (p.z - c.z) * v.z))).sum
        = (ps.map (fun p : V3 R => (p.x - c.x) * (p.x - c.x) * v.x + (p.x - c.x) * (p.y - c.y) * v.y
            + (p.x - c.x) * (p.z - c.z) * v.z)).sum from by congr 1; apply List.map_congr_left; intro p _; ring]
    rw [this]; ring
  · simp only [V3.sdiv_y, vsum_y, List.map_map, Function.comp_def, V3.smul_y, V3.sub_x, V3.dot_def, V3.sub_y, V3.sub_z]
    have := sum_map_lin3 (fun p : V3 R => (p.x - c.x) * (p.y - c.y)) (fun p => (p.y - c.y) * (p.y - c.y))
      (fun p => (p.y - c.y) * (p.z - c.z)) v.x v.y v.z ps
    rw [show (ps.map (fun p : V3 R => (p.y - c.y) * ((p.x - c.x) * v.x + (p.y - c.y) * v.y + (p.z - c.z) * v.z))).sum
        = (ps.map (fun p : V3 R => (p.x - c.x) * (p.y - c.y) * v.x + (p.y - c.y) * (p.y - c.y) * v.y
            + (p.y - c.y) * (p.z - c.z) * v.z)).sum from by congr 1; apply List.map_congr_left; intro p _; ring]
    rw [this]; ring
  · simp only [V3.sdiv_z, vsum_z, List.map_map, Function.comp_def, V3.smul_z, V3.sub_x, V3.dot_def, V3.sub_y, V3.sub_z]
    have := sum_map_lin3 (fun p : V3 R => (p.x - c.x) * (p.z - c.z)) (fun p => (p.y - c.y) * (p.z - c.z))
      (fun p => (p.z - c.z) * (p.z - c.z)) v.x v.y v.z ps
    rw [show (ps.map (fun p : V3 R => (p.z - c.z) * ((p.x - c.x) * v.x + (p.y - c.y) * v.y + (p.z - c.z) * v.z))).sum
        = (ps.map (fun p : V3 R => (p.x - c.x) * (p.z - c.z) * v.x + (p.y - c.y) * (p.z - c.z) * v.y
            + (p.z - c.z) * (p.z - c.z) * v.z)).sum from by congr 1; apply List.map_congr_left; intro p _; ring]
    rw [this]; ring

/-- the covariance operator follows the cell under every linear isometry: C′(Mv) = M(Cv) -/
theorem covApply_linIso {M : V3 R → V3 R} (h : LinIso M) (c : V3 R) (ps : List (V3 R)) (v : V3 R) :
    covApply (covRows (covOf (M c) (ps.map M))) (M v) = M (covApply (covRows (covOf c ps)) v) := by
  rw [covApply_eq_vsum, covApply_eq_vsum, List.length_map, List.map_map]
  have : ((fun p => (p - M c) * V3.dot (p - M c) (M v)) ∘ M) = M ∘ (fun p => (p - c) * V3.dot (p - c) v) := by
    funext p; simp only [Function.comp_def, h.map_sub, h.dot_map, h.map_smul]
  rw [this, ← List.map_map, h.map_vsum, h.map_sdiv]

/-- the covariance operator is unchanged when cell and reference point are translated together -/
theorem covApply_translate (d c : V3 R) (ps : List (V3 R)) (v : V3 R) :
    covApply (covRows (covOf (c + d) (ps.map (· + d)))) v = covApply (covRows (covOf c ps)) v := by
  rw [covApply_eq_vsum, covApply_eq_vsum, List.length_map, List.map_map]
  have : ((fun p => (p - (c + d)) * V3.dot (p - (c + d)) v) ∘ (fun x : V3 R => x + d))
      = fun p => (p - c) * V3.dot (p - c) v := by
    funext p; simp only [Function.comp_def, V3.add_sub_add_right']
  rw [this]

/-! ### a Boolean checker for `NbGood` (used for the non-vacuity examples) -/

def nodup3 (t : Tri) : Bool := t.1 != t.2.1 && t.1 != t.2.2 && t.2.1 != t.2.2

/-- rotate `t` so that it starts with `a`, if `a` is one of its nodes -/
def startAt (t : Tri) (a : Nat) : Option Tri :=
  if t.1 = a then some t else if t.2.1 = a then some (t.2.1, t.2.2, t.1)
  else if t.2.2 = a then some (t.2.2, t.1, t.2.1) else none

/-- do `r0` and `c0` form a `GoodPair` along the directed edge (u,v) of `r0`? -/
def goodAlong (r0 c0 : Tri) (u v : Nat) : Bool :=
  match startAt r0 u, startAt c0 v with
  | some (_, v', w), some (_, u', x) =>
    v' == v && u' == u && nodup3 r0 && nodup3 c0 && w != x
  | _, _ => false

theorem startAt_rots (t : Tri) (a b c : Nat) (h : startAt t a = some (a, b, c)) : t ∈ rots a b c := by
  obtain ⟨i, j, k⟩ := t
  simp only [startAt] at h
  split_ifs at h with h1 h2 h3
  · simp only [Option.some.injEq, Prod.mk.injEq] at h; obtain ⟨rfl, rfl, rfl⟩ := h; simp [rots]
  · simp only [Option.some.injEq, Prod.mk.injEq] at h; obtain ⟨rfl, rfl, rfl⟩ := h; simp [rots]
  · simp only [Option.some.injEq, Prod.mk.injEq] at h; obtain ⟨rfl, rfl, rfl⟩ := h; simp [rots]

theorem startAt_fst (t : Tri) (a : Nat) (s : Tri) (h : startAt t a = some s) : s.1 = a := by
  obtain ⟨i, j, k⟩ := t
  simp only [startAt] at h
  split_ifs at h with h1 h2 h3 <;> (cases h; assumption)

theorem startAt_nodup (t : Tri) (a : Nat) (s : Tri) (h : startAt t a = some s) (hn : nodup3 t = true) :
    s.1 ≠ s.2.1 ∧ s.1 ≠ s.2.2 ∧ s.2.1 ≠ s.2.2 := by
  obtain ⟨i, j, k⟩ := t
  simp only [nodup3, Bool.and_eq_true, bne_iff_ne, ne_eq] at hn
  obtain ⟨⟨h1, h2⟩, h3⟩ := hn
  simp only [startAt] at h
  split_ifs at h <;> (cases h; refine ⟨?_, ?_, ?_⟩ <;> simp_all <;> omega)

theorem goodAlong_sound (r0 c0 : Tri) (u v : Nat) (h : goodAlong r0 c0 u v = true) : GoodPair r0 c0 := by
  unfold goodAlong at h
  cases hr : startAt r0 u with
  | none => simp [hr] at h
  | some sr =>
    cases hc : startAt c0 v with
    | none => simp [hr, hc] at h
    | some sc =>
      obtain ⟨a, v', w⟩ := sr
      obtain ⟨b, u', x⟩ := sc
      simp only [hr, hc, Bool.and_eq_true, beq_iff_eq, bne_iff_ne, ne_eq] at h
      obtain ⟨⟨⟨⟨h1, h2⟩, hnr⟩, hnc⟩, hwx⟩ := h
      have ha : a = u := startAt_fst r0 u _ hr
      have hb : b = v := startAt_fst c0 v _ hc
      rw [ha, h1] at hr
      rw [hb, h2] at hc
      obtain ⟨n1, n2, n3⟩ := startAt_nodup r0 u _ hr hnr
      obtain ⟨m1, m2, m3⟩ := startAt_nodup c0 v _ hc hnc
      exact ⟨u, v, w, x, n1, n2, n3, m3, m2, hwx, startAt_rots r0 u v w hr, startAt_rots c0 v u x hc⟩

/-- checks `NbGood O nb` face by face, edge by edge (both query directions) -/
def nbGoodB (O : List Tri) (nb : Nat → Nat → Nat → Option Nat) : Bool :=
  (List.range O.length).all fun f =>
    match O[f]? with
    | none => true
    | some tf =>
      (heTri tf).all fun e =>
        (match nb f e.1 e.2 with
         | none => true
         | some g =>
           match O[g]? with
           | none => false
           | some tg => goodAlong tf tg e.1 e.2) &&
        (match nb f e.2 e.1 with
         | none => true
         | some g =>
           match O[g]? with
           | none => false
           | some tg => goodAlong tf tg e.1 e.2)

theorem nbGoodB_sound (O : List Tri) (nb : Nat → Nat → Nat → Option Nat) (h : nbGoodB O nb = true) : NbGood O nb := by
  intro f tf a b g hO hmem hg
  have hf : f < O.length := (List.getElem?_eq_some_iff.mp hO).1
  have h1 := List.all_eq_true.mp h f (List.mem_range.mpr hf)
  simp only [hO] at h1
  rcases hmem with hm | hm
  · have h2 := List.all_eq_true.mp h1 (a, b) hm
    simp only [Bool.and_eq_true] at h2
    have h3 := h2.1
    simp only [hg] at h3
    cases hOg : O[g]? with
    | none => simp [hOg] at h3
    | some tg => simp only [hOg] at h3; exact ⟨tg, rfl, goodAlong_sound _ _ _ _ h3⟩
  · have h2 := List.all_eq_true.mp h1 (b, a) hm
    simp only [Bool.and_eq_true] at h2
    have h3 := h2.2
    simp only [hg] at h3
    cases hOg : O[g]? with
    | none => simp [hOg] at h3
    | some tg => simp only [hOg] at h3; exact ⟨tg, rfl, goodAlong_sound _ _ _ _ h3⟩

end Simu.Geo
