import SimuVerif.Lemmas.SurfaceSplitSwap
import SimuVerif.Lemmas.Field
import SimuVerif.Model.Division
/-
  C09 — gluing an interface triangulation `D` onto the two halves `M₁`, `M₂` of a cut closed surface:
  closedness (half-edge multisets), the full invariant, and additivity of the signed volume.
  Uses the vocabulary of `Lemmas/SurfaceDefs.lean` / `SurfaceSplitSwap.lean` (read-only).
-/
namespace Simu.Division
open Simu Simu.Surface

/-- `D` with every triangle reversed: `(a, b, c) ↦ (a, c, b)` -/
def opT (T : List Tri) : List Tri := T.map (fun t => (t.1, t.2.2, t.2.1))

/-- the unmatched ("boundary") half-edges of a triangle list, with multiplicity -/
def bdM (T : List Tri) : Multiset HE := heM T - (heM T).map Prod.swap

theorem heTriM_op (t : Tri) : heTriM (t.1, t.2.2, t.2.1) = (heTriM t).map Prod.swap := by
  obtain ⟨a, b, c⟩ := t
  simp only [heTriM, Multiset.insert_eq_cons, ← Multiset.singleton_add, Multiset.map_add, Multiset.map_singleton,
    Prod.swap_prod_mk]
  abel

theorem heM_opT (T : List Tri) : heM (opT T) = (heM T).map Prod.swap := by
  induction T with
  | nil => simp [opT, heM_nil]
  | cons t T ih =>
    have : opT (t :: T) = (t.1, t.2.2, t.2.1) :: opT T := rfl
    rw [this, heM_cons, heM_cons, Multiset.map_add, ih, heTriM_op]

theorem count_bdM (T : List Tri) (x y : Nat) :
    (bdM T).count (x, y) = (heM T).count (x, y) - (heM T).count (y, x) := by
  unfold bdM
  rw [Multiset.count_sub, count_map_swap]

theorem closed_append_iff_count (A B : List Tri) :
    Closed (A ++ B) ↔ ∀ x y, (heM A).count (x, y) + (heM B).count (x, y) = (heM A).count (y, x) + (heM B).count (y, x) := by
  rw [closed_iff_count]
  simp only [heM_append, Multiset.count_add]

/-- the interface condition: the unmatched half-edges of `B` are exactly the reversed unmatched half-edges of `A` -/
theorem closed_glue {A B : List Tri} (h : bdM B = (bdM A).map Prod.swap) : Closed (A ++ B) := by
  rw [closed_append_iff_count]
  intro x y
  have h1 := congrArg (Multiset.count (x, y)) h
  have h2 := congrArg (Multiset.count (y, x)) h
  rw [count_map_swap, count_bdM, count_bdM] at h1 h2
  omega

/-- closedness of the glued surface is also necessary for the interface condition -/
theorem glue_of_closed {A B : List Tri} (h : Closed (A ++ B)) : bdM B = (bdM A).map Prod.swap := by
  rw [closed_append_iff_count] at h
  ext ⟨x, y⟩
  rw [count_map_swap, count_bdM, count_bdM]
  have := h x y
  omega

theorem closed_other_side {M₁ M₂ D : List Tri} (h : Closed (M₁ ++ M₂)) (h2 : Closed (M₂ ++ D)) :
    Closed (M₁ ++ opT D) := by
  rw [closed_append_iff_count] at h h2 ⊢
  intro x y
  rw [heM_opT, count_map_swap, count_map_swap]
  have a := h x y
  have b := h2 x y
  omega

theorem nonDeg_append {A B : List Tri} (ha : NonDeg A) (hb : NonDeg B) : NonDeg (A ++ B) := by
  intro t ht
  rcases List.mem_append.1 ht with h | h
  · exact ha t h
  · exact hb t h

theorem nonDeg_opT {D : List Tri} (h : NonDeg D) : NonDeg (opT D) := by
  intro t ht
  obtain ⟨s, hs, rfl⟩ := List.mem_map.1 ht
  obtain ⟨h1, h2, h3⟩ := h s hs
  exact ⟨fun e => h3 e.symm, fun e => h2 e.symm, fun e => h1 e.symm⟩

theorem simple_append {A B : List Tri} (ha : Simple A) (hb : Simple B)
    (hd : ∀ e, e ∈ heM A → e ∉ heM B) : Simple (A ++ B) := by
  unfold Simple at *
  rw [heM_append, Multiset.nodup_add]
  exact ⟨ha, hb, Multiset.disjoint_left.2 (fun {e} hA hB => hd e hA hB)⟩

theorem simple_opT {D : List Tri} (h : Simple D) : Simple (opT D) := by
  unfold Simple at *
  rw [heM_opT]
  exact Multiset.Nodup.map Prod.swap_injective h

/-! ### signed volume -/
section volume
variable {R : Type} [Field R]

theorem tet6_swap (a b c : V3 R) : tet6 a c b = - tet6 a b c := by
  simp only [tet6, V3.dot_def, V3.cross_def]; ring

/-- `vol6` as a sum (it is defined as the left fold the code performs) -/
theorem vol6_eq_sum (pos : Nat → V3 R) (T : List Tri) :
    vol6 pos T = (T.map (fun t => tet6 (pos t.1) (pos t.2.1) (pos t.2.2))).sum := by
  unfold vol6
  have : ∀ (s : R), T.foldl (fun s t => s + tet6 (pos t.1) (pos t.2.1) (pos t.2.2)) s
      = s + (T.map (fun t => tet6 (pos t.1) (pos t.2.1) (pos t.2.2))).sum := by
    induction T with
    | nil => intro s; simp
    | cons t T ih => intro s; rw [List.foldl_cons, ih]; simp [add_assoc]
  rw [this]; simp

theorem vol6_append (pos : Nat → V3 R) (A B : List Tri) : vol6 pos (A ++ B) = vol6 pos A + vol6 pos B := by
  simp [vol6_eq_sum]

theorem vol6_opT (pos : Nat → V3 R) (D : List Tri) : vol6 pos (opT D) = - vol6 pos D := by
  rw [vol6_eq_sum, vol6_eq_sum]
  induction D with
  | nil => simp [opT]
  | cons t D ih =>
    have : opT (t :: D) = (t.1, t.2.2, t.2.1) :: opT D := rfl
    rw [this, List.map_cons, List.sum_cons, ih, List.map_cons, List.sum_cons, tet6_swap]
    ring

/-- the three edge terms of the triangles of a surface, summed, are the sum over its half-edge multiset -/
theorem sum_edge_terms_eq (g : HE → R) (T : List Tri) :
    (T.map (fun t => g (t.1, t.2.1) + g (t.2.1, t.2.2) + g (t.2.2, t.1))).sum = ((heM T).map g).sum := by
  induction T with
  | nil => simp [heM]
  | cons t T ih =>
    have : heM (t :: T) = heTriM t + heM T := by simp [heM]
    rw [this, Multiset.map_add, Multiset.sum_add, List.map_cons, List.sum_cons, ih]
    congr 1
    simp only [heTriM, Multiset.insert_eq_cons, Multiset.map_cons, Multiset.map_singleton, Multiset.sum_cons,
      Multiset.sum_singleton]
    ring

section ordered
variable [LinearOrder R] [IsStrictOrderedRing R]

/-- an antisymmetric function of directed edges sums to zero over a closed surface -/
theorem closed_antisym_sum_zero (T : List Tri) (h : Closed T) (g : Nat → Nat → R) (hg : ∀ i j, g j i = - g i j) :
    (T.map (fun t => g t.1 t.2.1 + g t.2.1 t.2.2 + g t.2.2 t.1)).sum = 0 := by
  have h1 := sum_edge_terms_eq (fun e : HE => g e.1 e.2) T
  simp only at h1
  rw [h1]
  have h2 : ((heM T).map (fun e : HE => g e.1 e.2)).sum = (((heM T).map Prod.swap).map (fun e : HE => g e.1 e.2)).sum := by
    rw [h]
  rw [Multiset.map_map] at h2
  have h3 : ((heM T).map ((fun e : HE => g e.1 e.2) ∘ Prod.swap)).sum = - ((heM T).map (fun e : HE => g e.1 e.2)).sum := by
    rw [← Multiset.sum_map_neg]
    congr 1
    apply Multiset.map_congr rfl
    intro e _
    simp only [Function.comp, Prod.fst_swap, Prod.snd_swap, hg e.1 e.2]
  rw [h3] at h2
  linarith

theorem tet6_shift (a b c o : V3 R) :
    tet6 (a - o) (b - o) (c - o)
      = tet6 a b c - (V3.dot o (V3.cross a b) + V3.dot o (V3.cross b c) + V3.dot o (V3.cross c a)) := by
  simp only [tet6, V3.dot_def, V3.cross_def, V3.sub_x, V3.sub_y, V3.sub_z]; ring

theorem foldl_add_eq_sum' {α : Type} (f : α → R) (T : List α) (s : R) :
    T.foldl (fun s t => s + f t) s = s + (T.map f).sum := by
  induction T generalizing s with
  | nil => simp
  | cons t T ih => rw [List.foldl_cons, ih]; simp [add_assoc]

theorem sum_map_sub'' {α : Type} (L : List α) (u v : α → R) :
    (L.map (fun a => u a - v a)).sum = (L.map u).sum - (L.map v).sum := by
  induction L with
  | nil => simp
  | cons a t ih => simp only [List.map_cons, List.sum_cons, ih]; ring

/-- **closed surfaces**: the sum of the triple products of the positions seen from ANY point `o` is the un-centred one -/
theorem tet6_sum_rel_closed (pos : Nat → V3 R) (T : List Tri) (h : Closed T) (o : V3 R) :
    (T.map (fun t => tet6 (pos t.1 - o) (pos t.2.1 - o) (pos t.2.2 - o))).sum
      = (T.map (fun t => tet6 (pos t.1) (pos t.2.1) (pos t.2.2))).sum := by
  have e : (fun t : Tri => tet6 (pos t.1 - o) (pos t.2.1 - o) (pos t.2.2 - o))
      = fun t => tet6 (pos t.1) (pos t.2.1) (pos t.2.2)
          - ((fun i j => V3.dot o (V3.cross (pos i) (pos j))) t.1 t.2.1
            + (fun i j => V3.dot o (V3.cross (pos i) (pos j))) t.2.1 t.2.2
            + (fun i j => V3.dot o (V3.cross (pos i) (pos j))) t.2.2 t.1) := by
    funext t; exact tet6_shift _ _ _ _
  rw [e, sum_map_sub'', closed_antisym_sum_zero T h (fun i j => V3.dot o (V3.cross (pos i) (pos j))) (fun i j => by
    simp only [V3.dot_def, V3.cross_def]; ring), sub_zero]

/-- **closed surfaces**: the centred sum the code accumulates (`vol6c`: coordinates relative to the first node of the first
    face) is the un-centred signed volume `vol6` of the theorems -/
theorem vol6c_eq_vol6 (pos : Nat → V3 R) (T : List Tri) (h : Closed T) : vol6c pos T = vol6 pos T := by
  unfold vol6c
  simp only []
  rw [foldl_add_eq_sum' (fun t : Tri => tet6 (pos t.1 - volRef pos T) (pos t.2.1 - volRef pos T) (pos t.2.2 - volRef pos T)),
    tet6_sum_rel_closed pos T h, vol6_eq_sum, lit_zero, zero_add]

end ordered

theorem vol6_perm (pos : Nat → V3 R) {A B : List Tri} (h : A.Perm B) : vol6 pos A = vol6 pos B := by
  rw [vol6_eq_sum, vol6_eq_sum]
  exact (h.map _).sum_eq
end volume

end Simu.Division
