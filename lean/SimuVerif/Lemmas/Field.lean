import SimuVerif.Model.Vec
import Mathlib.Tactic.Ring
import Mathlib.Tactic.Linarith
import Mathlib.Tactic.Positivity
import Mathlib.Tactic.FieldSimp
import Mathlib.Algebra.Order.Field.Basic
/-
  The field instantiation of the scalar interface: at any field, `lit n` is the numeral `n`.
  All property theorems are stated over `[Field R] [LinearOrder R] [IsStrictOrderedRing R]`
  (ℚ and ℝ are instances), i.e. in exact arithmetic.
-/
namespace Simu

instance (priority := 50) fieldLit {R : Type} [Field R] : Lit R := ⟨fun n => (n : R)⟩

section
variable {R : Type} [Field R]

@[simp] theorem lit_zero : (lit 0 : R) = 0 := by simp [lit]
@[simp] theorem lit_one : (lit 1 : R) = 1 := by simp [lit]
@[simp] theorem lit_two : (lit 2 : R) = 2 := by simp [lit]
@[simp] theorem lit_three : (lit 3 : R) = 3 := by simp [lit]
theorem lit_eq (n : Nat) : (lit n : R) = (n : R) := rfl

namespace V3
@[simp] theorem sub_x (a b : V3 R) : (a - b).x = a.x - b.x := rfl
@[simp] theorem sub_y (a b : V3 R) : (a - b).y = a.y - b.y := rfl
@[simp] theorem sub_z (a b : V3 R) : (a - b).z = a.z - b.z := rfl
@[simp] theorem add_x (a b : V3 R) : (a + b).x = a.x + b.x := rfl
@[simp] theorem add_y (a b : V3 R) : (a + b).y = a.y + b.y := rfl
@[simp] theorem add_z (a b : V3 R) : (a + b).z = a.z + b.z := rfl
@[simp] theorem neg_x (a : V3 R) : (-a).x = -a.x := rfl
@[simp] theorem neg_y (a : V3 R) : (-a).y = -a.y := rfl
@[simp] theorem neg_z (a : V3 R) : (-a).z = -a.z := rfl
@[simp] theorem smul_x (a : V3 R) (k : R) : (a * k).x = a.x * k := rfl
@[simp] theorem smul_y (a : V3 R) (k : R) : (a * k).y = a.y * k := rfl
@[simp] theorem smul_z (a : V3 R) (k : R) : (a * k).z = a.z * k := rfl
@[simp] theorem sdiv_x (a : V3 R) (k : R) : (a / k).x = a.x / k := rfl
@[simp] theorem sdiv_y (a : V3 R) (k : R) : (a / k).y = a.y / k := rfl
@[simp] theorem sdiv_z (a : V3 R) (k : R) : (a / k).z = a.z / k := rfl

@[ext] theorem ext' {a b : V3 R} (hx : a.x = b.x) (hy : a.y = b.y) (hz : a.z = b.z) : a = b := by
  cases a; cases b; simp_all

theorem dot_def (a b : V3 R) : dot a b = a.x * b.x + a.y * b.y + a.z * b.z := rfl
theorem normSq_def (a : V3 R) : normSq a = a.x * a.x + a.y * a.y + a.z * a.z := rfl
theorem cross_def (a b : V3 R) : cross a b =
    ⟨a.y * b.z - a.z * b.y, a.z * b.x - a.x * b.z, a.x * b.y - a.y * b.x⟩ := rfl

theorem dot_comm (a b : V3 R) : dot a b = dot b a := by simp only [dot_def]; ring
theorem dot_sub_left (a b c : V3 R) : dot (a - b) c = dot a c - dot b c := by
  simp only [dot_def, sub_x, sub_y, sub_z]; ring
theorem dot_sub_right (a b c : V3 R) : dot a (b - c) = dot a b - dot a c := by
  simp only [dot_def, sub_x, sub_y, sub_z]; ring
theorem dot_add_left (a b c : V3 R) : dot (a + b) c = dot a c + dot b c := by
  simp only [dot_def, add_x, add_y, add_z]; ring
theorem dot_add_right (a b c : V3 R) : dot a (b + c) = dot a b + dot a c := by
  simp only [dot_def, add_x, add_y, add_z]; ring
theorem dot_smul_left (a b : V3 R) (k : R) : dot (a * k) b = k * dot a b := by
  simp only [dot_def, smul_x, smul_y, smul_z]; ring
theorem dot_smul_right (a b : V3 R) (k : R) : dot a (b * k) = k * dot a b := by
  simp only [dot_def, smul_x, smul_y, smul_z]; ring
/-- Lagrange: |u×v|² = |u|²|v|² − (u·v)² -/
theorem lagrange (u v : V3 R) : normSq (cross u v) = normSq u * normSq v - dot u v * dot u v := by
  simp only [normSq_def, dot_def, cross_def]; ring
end V3

section ordered
variable [LinearOrder R] [IsStrictOrderedRing R]
theorem V3.normSq_nonneg (a : V3 R) : 0 ≤ V3.normSq a := by
  simp only [V3.normSq_def]; nlinarith [mul_self_nonneg a.x, mul_self_nonneg a.y, mul_self_nonneg a.z]
theorem V3.normSq_eq_zero {a : V3 R} (h : V3.normSq a = 0) : a.x = 0 ∧ a.y = 0 ∧ a.z = 0 := by
  simp only [V3.normSq_def] at h
  have hx := mul_self_nonneg a.x; have hy := mul_self_nonneg a.y; have hz := mul_self_nonneg a.z
  refine ⟨?_, ?_, ?_⟩ <;> (apply mul_self_eq_zero.mp; nlinarith)
end ordered
end
end Simu
