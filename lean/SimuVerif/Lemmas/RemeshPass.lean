import SimuVerif.Lemmas.RemeshPass4
/-
  Whole passes of `refine_mesh`: **`refineMesh_preserves`**.

  For every cell that satisfies the invariants `CellOk` (consistent free list of face slots, sound and complete edge
  index, consistent node store, closed consistently oriented surface without repeated half-edge, every vertex link
  connected), every choice of the parameters, of the fuel and of the swap flag, and EVERY outcome (returned, threw — any
  exception, `mesh_integrity_exception` of the loop guard included —, fuel exhausted):

    * the cell the pass hands back satisfies `CellOk` again (the model hands back the state BEFORE the operation that
      threw: see the note at `refineMesh_preserves`);
    * the live triangles are reached from those at the start by a history `Hist` of abstract splits, swaps and collapses,
      each ENABLED (`AOp.Enabled`: the guards of `Properties/C01.lean`) and each followed by a reordering / rotation of the
      triangle list (`TriEquiv`);
    * the splits and collapses of that history are, in order, the entries of the log, and every entry passed the length
      test that the code applies (`LogGuard`).

  The check-set discipline (`ChkOk`, RemeshPass1): an edge popped from the check set is acted on WITHOUT being looked up in
  the index again; what makes that sound is the invariant that every element of the check set agrees with the index up
  to the order of its two face ids, which `split_edge` maintains by its four `replace_face` calls and `merge_edge` by
  erasing every deleted edge and inserting only those created edges that do not mention a released node or face.
-/
set_option linter.unusedSectionVars false
set_option linter.unusedVariables false
set_option linter.unusedSimpArgs false
namespace Simu.Remesh
open Simu Simu.Surface
open Simu.C11 (bind_ok newSlot)

/-! ## 1. histories of abstract operations -/

/-- the abstract operations a pass performs -/
inductive AOp where
  | split (a b e : Nat)
  | swap (a b : Nat)
  | collapse (a b i : Nat)

def AOp.apply (T : List Tri) : AOp → List Tri
  | .split a b e => splitT T a b e
  | .swap a b => swapT T a b
  | .collapse a b i => collapseT T a b i

/-- the guards (the same as `C01.Enabled`) -/
def AOp.Enabled (T : List Tri) : AOp → Prop
  | .split a b e => Fresh T e ∧
      ∀ t1 t2, findDir T a b = some t1 → findDir T b a = some t2 → opp t1 a b ≠ opp t2 b a
  | .swap a b => SwapGuard T a b
  | .collapse a b i => ∃ t1 t2, findDir T a b = some t1 ∧ findDir T b a = some t2 ∧
      LinkCond T a b (opp t1 a b) (opp t2 b a) ∧ Fresh T i

/-- what the log of `refine_mesh` records of an operation (swaps are not logged) -/
def AOp.tag : AOp → Option (Bool × Nat × Nat)
  | .split a b _ => some (true, a, b)
  | .swap _ _ => none
  | .collapse a b _ => some (false, a, b)

/-- `Hist T₀ ops T`: starting from `T₀`, the operations `ops` (oldest first), each enabled when it is applied and each
    followed by a reordering / rotation of the triangle list, lead to `T` -/
inductive Hist : List Tri → List AOp → List Tri → Prop where
  | refl (T : List Tri) : Hist T [] T
  | step {T₀ T T' : List Tri} {ops : List AOp} (h : Hist T₀ ops T) (op : AOp) (en : op.Enabled T)
      (he : TriEquiv T' (op.apply T)) : Hist T₀ (ops ++ [op]) T'

theorem Hist.trans {T₀ T₁ T₂ : List Tri} {o₁ o₂ : List AOp} (h₁ : Hist T₀ o₁ T₁) (h₂ : Hist T₁ o₂ T₂) :
    Hist T₀ (o₁ ++ o₂) T₂ := by
  induction h₂ with
  | refl => simpa using h₁
  | step h op en he ih =>
    rw [← List.append_assoc]
    exact Hist.step ih op en he

theorem Hist.one {T T' : List Tri} (op : AOp) (en : op.Enabled T) (he : TriEquiv T' (op.apply T)) :
    Hist T [op] T' := Hist.step (Hist.refl T) op en he

/-- Euler's number does not see the order of the list nor the rotation of a triangle -/
theorem chiZ_triEquiv {S T : List Tri} (h : TriEquiv S T) : chiZ S = chiZ T := by
  have hv : vertsF S = vertsF T := vertsF_triEquiv h
  have he : edgesF S = edgesF T := by unfold edgesF; rw [heM_triEquiv h]
  have hl : S.length = T.length := by
    have := h.length_eq
    simpa using this
  unfold chiZ
  rw [hv, he, hl]

section
variable {R : Type} [Add R] [Sub R] [Mul R] [Div R] [Neg R] [Lit R] [LT R] [LE R] [DecidableLT R]
  [DecidableLE R] [DecidableEq R]

/-! ## 2. the swap pass -/

theorem triangleScore_edge {fn : Fn R} {k : RefineConsts R} {c : Cell R} {f : Face R} {s : R} {le : Edge}
    (h : triangleScore fn k c f = .ok (s, le)) : ∃ x y, getEdge c x y = some le := by
  unfold triangleScore at h
  simp only [] at h
  bok h with le', hle
  cases h
  have := by opt_ok hle
  split_ifs at this
  · exact ⟨_, _, this⟩
  · exact ⟨_, _, this⟩
  · exact ⟨_, _, this⟩
  · exact ⟨_, _, this⟩

theorem removeLoop_pass {fn : Fn R} {k : RefineConsts R} :
    ∀ (fuel i : Nat) (c c' : Cell R), removeElongated.loop fn k fuel i c = .ok c' → CellOk c →
      CellOk c' ∧ (∃ ops, Hist (abs c) ops (abs c') ∧ ops.filterMap AOp.tag = []) ∧
        c'.nodes = c.nodes ∧ c'.freeNodes = c.freeNodes := by
  intro fuel
  induction fuel with
  | zero =>
    intro i c c' h hc
    unfold removeElongated.loop at h
    cases h
    exact ⟨hc, ⟨[], Hist.refl _, rfl⟩, rfl, rfl⟩
  | succ fuel ih =>
    intro i c c' h hc
    unfold removeElongated.loop at h
    split at h
    · cases h; exact ⟨hc, ⟨[], Hist.refl _, rfl⟩, rfl, rfl⟩
    split at h
    · cases h; exact ⟨hc, ⟨[], Hist.refl _, rfl⟩, rfl, rfl⟩
    rename_i f hf
    split at h
    · exact ih _ _ _ h hc
    split at h
    · cases h
    rename_i score le hts
    split at h
    · split at h
      · cases h
      rename_i c2 hsw
      obtain ⟨x, y, hg⟩ := triangleScore_edge hts
      rw [getEdge_eq] at hg
      obtain ⟨hc2, hcase⟩ := swapEdge_pass hsw hc (copyOk_of_find hc.idx hg)
      obtain ⟨hn2, hfn2⟩ := swapEdge_nodes hsw
      obtain ⟨hc', ⟨ops, hH, htag⟩, hn, hfn⟩ := ih _ _ _ h hc2
      rcases hcase with rfl | ⟨hg', hT⟩
      · exact ⟨hc', ⟨ops, hH, htag⟩, hn, hfn⟩
      · refine ⟨hc', ⟨[AOp.swap le.n1 le.n2] ++ ops, (Hist.one (AOp.swap le.n1 le.n2) hg' hT).trans hH, ?_⟩,
          hn.trans hn2, hfn.trans hfn2⟩
        rw [List.filterMap_append, htag]; rfl
    · exact ih _ _ _ h hc

/-! ## 3. the main loop -/

/-- the length test an entry of the log passed -/
def LogGuard (lminSq lmaxSq : R) (p : Bool × Nat × Nat × R) : Prop :=
  if p.1 = true then lmaxSq < p.2.2.2 else (¬ lmaxSq < p.2.2.2 ∧ p.2.2.2 < lminSq)

theorem rloop_zero (fn : Fn R) (k : RefineConsts R) (lminSq lmaxSq : R) (c : Cell R) (chk : CheckSet) (iter : Nat)
    (log : List (Bool × Nat × Nat × R)) :
    refineMesh.loop fn k lminSq lmaxSq 0 c chk iter log = (c, .fuelOut, log) := by
  unfold refineMesh.loop; rfl

theorem rloop_stop (fn : Fn R) (k : RefineConsts R) (lminSq lmaxSq : R) (fuel : Nat) (c : Cell R) (chk : CheckSet)
    (iter : Nat) (log : List (Bool × Nat × Nat × R)) (h : chk = [] ∨ c.edges.length ≤ iter) :
    refineMesh.loop fn k lminSq lmaxSq (fuel + 1) c chk iter log =
      (c, if iter == c.edges.length then .threw .integrity else .returned, log) := by
  unfold refineMesh.loop
  have : (chk.isEmpty || !decide (iter < c.edges.length)) = true := by
    rcases h with h | h
    · simp [h]
    · simp [Nat.not_lt.2 h]
  simp only [this, if_true]

theorem rloop_cons (fn : Fn R) (k : RefineConsts R) (lminSq lmaxSq : R) (fuel : Nat) (c : Cell R) (e : Edge)
    (rest : CheckSet) (iter : Nat) (log : List (Bool × Nat × Nat × R)) (h : iter < c.edges.length) :
    refineMesh.loop fn k lminSq lmaxSq (fuel + 1) c (e :: rest) iter log =
      if lmaxSq < V3.normSq (posOf c e.n1 - posOf c e.n2) then
        match splitEdge fn k.split c e rest with
        | .error x => (c, .threw x, log)
        | .ok (c', chk') => refineMesh.loop fn k lminSq lmaxSq fuel c' chk' (iter + 1)
            ((true, e.n1, e.n2, V3.normSq (posOf c e.n1 - posOf c e.n2)) :: log)
      else if V3.normSq (posOf c e.n1 - posOf c e.n2) < lminSq then
        match canBeMerged c e with
        | .error x => (c, .threw x, log)
        | .ok false => refineMesh.loop fn k lminSq lmaxSq fuel c rest iter log
        | .ok true =>
          match mergeEdge fn k.split c e rest with
          | .error x => (c, .threw x, log)
          | .ok (c', chk') => refineMesh.loop fn k lminSq lmaxSq fuel c' chk' (iter + 1)
              ((false, e.n1, e.n2, V3.normSq (posOf c e.n1 - posOf c e.n2)) :: log)
      else refineMesh.loop fn k lminSq lmaxSq fuel c rest iter log := by
  conv_lhs => unfold refineMesh.loop
  have : ((e :: rest).isEmpty || !decide (iter < c.edges.length)) = false := by simp [h]
  simp only [this]
  rfl

theorem ChkOk.tail {c : Cell R} {e : Edge} {rest : CheckSet} (h : ChkOk c (e :: rest)) :
    ChkOk c rest ∧ CopyOk c e ∧ ∀ z ∈ rest, z.key ≠ e.key :=
  ⟨⟨h.sorted.tail, fun x hx => h.ok x (List.mem_cons_of_mem _ hx)⟩, h.ok e List.mem_cons_self,
    fun z hz he => by have := h.sorted.head z hz; omega⟩

/-- the conclusion about one run of the loop -/
structure PassRes (lminSq lmaxSq : R) (c c' : Cell R) (log log' : List (Bool × Nat × Nat × R)) : Prop where
  ok : CellOk c'
  hist : ∃ ops lg, log' = lg ++ log ∧ Hist (abs c) ops (abs c') ∧
    ops.filterMap AOp.tag = lg.reverse.map (fun p => (p.1, p.2.1, p.2.2.1)) ∧ (∀ p ∈ lg, LogGuard lminSq lmaxSq p) ∧
    (c'.freeNodes, c'.nodes.size) =
      lg.reverse.foldl (fun st p => nodeOp st p.1 p.2.1 p.2.2.1) (c.freeNodes, c.nodes.size)

theorem PassRes.refl (lminSq lmaxSq : R) {c : Cell R} (hc : CellOk c) (log : List (Bool × Nat × Nat × R)) :
    PassRes lminSq lmaxSq c c log log :=
  ⟨hc, [], [], rfl, Hist.refl _, rfl, fun p hp => (by cases hp), rfl⟩

/-- one logged operation followed by the rest of the loop -/
theorem PassRes.cons {lminSq lmaxSq : R} {c c1 c' : Cell R} {log log' : List (Bool × Nat × Nat × R)}
    {p : Bool × Nat × Nat × R} (op : AOp) (en : op.Enabled (abs c)) (he : TriEquiv (abs c1) (op.apply (abs c)))
    (htag : op.tag = some (p.1, p.2.1, p.2.2.1)) (hp : LogGuard lminSq lmaxSq p)
    (hstep : (c1.freeNodes, c1.nodes.size) = nodeOp (c.freeNodes, c.nodes.size) p.1 p.2.1 p.2.2.1)
    (h : PassRes lminSq lmaxSq c1 c' (p :: log) log') : PassRes lminSq lmaxSq c c' log log' := by
  obtain ⟨hc', ops, lg, hl, hH, ht, hg, htr⟩ := h
  refine ⟨hc', [op] ++ ops, lg ++ [p], by rw [hl]; simp, (Hist.one op en he).trans hH, ?_, ?_, ?_⟩
  rotate_left 2
  · rw [htr, hstep]; simp
  · rw [List.filterMap_append, ht]
    simp [List.filterMap_cons, htag]
  · intro q hq
    rcases List.mem_append.1 hq with hq | hq
    · exact hg q hq
    · rw [List.mem_singleton] at hq; subst hq; exact hp

theorem refineLoop_pass {fn : Fn R} {k : RefineConsts R} {lminSq lmaxSq : R} :
    ∀ (fuel : Nat) (c : Cell R) (chk : CheckSet) (iter : Nat) (log : List (Bool × Nat × Nat × R)),
      CellOk c → ChkOk c chk →
      PassRes lminSq lmaxSq c (refineMesh.loop fn k lminSq lmaxSq fuel c chk iter log).1 log
        (refineMesh.loop fn k lminSq lmaxSq fuel c chk iter log).2.2 := by
  intro fuel
  induction fuel with
  | zero => intro c chk iter log hc _; rw [rloop_zero]; exact PassRes.refl _ _ hc log
  | succ fuel ih =>
    intro c chk iter log hc hchk
    cases chk with
    | nil => rw [rloop_stop _ _ _ _ _ _ _ _ _ (Or.inl rfl)]; exact PassRes.refl _ _ hc log
    | cons e rest =>
      by_cases hs : c.edges.length ≤ iter
      · rw [rloop_stop _ _ _ _ _ _ _ _ _ (Or.inr hs)]; exact PassRes.refl _ _ hc log
      · rw [rloop_cons _ _ _ _ _ _ _ _ _ _ (Nat.lt_of_not_le hs)]
        obtain ⟨hrest, hx, hne⟩ := hchk.tail
        by_cases h1 : lmaxSq < V3.normSq (posOf c e.n1 - posOf c e.n2)
        · rw [if_pos h1]
          cases hsp : splitEdge fn k.split c e rest with
          | error x => exact PassRes.refl _ _ hc log
          | ok r =>
            obtain ⟨c1, chk1⟩ := r
            obtain ⟨hc1, hchk1, hfr, hg, hperm, htr⟩ := splitEdge_pass hsp hc hx hrest hne
            exact PassRes.cons (AOp.split e.n1 e.n2 (newSlot c)) ⟨hfr, hg⟩ (TriEquiv.of_perm hperm) rfl
              (by unfold LogGuard; simp only [if_true]; exact h1) htr (ih c1 chk1 _ _ hc1 hchk1)
        · rw [if_neg h1]
          by_cases h2 : V3.normSq (posOf c e.n1 - posOf c e.n2) < lminSq
          · rw [if_pos h2]
            cases hcm : canBeMerged c e with
            | error x => exact PassRes.refl _ _ hc log
            | ok b =>
              cases b with
              | false => exact ih c rest iter log hc hrest
              | true =>
                cases hme : mergeEdge fn k.split c e rest with
                | error x => exact PassRes.refl _ _ hc log
                | ok r =>
                  obtain ⟨c1, chk1⟩ := r
                  obtain ⟨hc1, hchk1, habs, t1, t2, f1, f2, hl, hfr, htr⟩ := mergeEdge_pass hcm hme hc hx hrest
                  exact PassRes.cons (AOp.collapse e.n1 e.n2 (newSlot c)) ⟨t1, t2, f1, f2, hl, hfr⟩
                    (by rw [habs]; exact TriEquiv.refl _) rfl
                    (by unfold LogGuard; simp only [Bool.false_eq_true, if_false]; exact ⟨h1, h2⟩) htr
                    (ih c1 chk1 _ _ hc1 hchk1)
          · rw [if_neg h2]
            exact ih c rest iter log hc hrest

/-- **a whole pass of `refine_mesh` preserves the invariants**, for every outcome.

    NOTE on exceptions: the model returns, together with `.threw x`, the cell as it was BEFORE the operation that threw
    (the C++ would leave a half-modified cell behind, but `run_iteration` does not catch: the run ends).  For the
    `mesh_integrity_exception` of the loop guard (`iter == edge_set_.size()`, outcome `.threw .integrity` from the
    guard) the cell IS the state of the real solver at that moment, and all invariants hold for it. -/
theorem refineMesh_preserves (fn : Fn R) (k : RefineConsts R) (lminSq lmaxSq : R) (swapOn : Bool) (c : Cell R)
    (maxIter : Nat) (hc : CellOk c) :
    PassRes lminSq lmaxSq c (refineMesh fn k lminSq lmaxSq swapOn c maxIter).1 []
      (refineMesh fn k lminSq lmaxSq swapOn c maxIter).2.2 := by
  unfold refineMesh
  cases swapOn with
  | false =>
    simp only [Bool.false_eq_true, if_false]
    exact refineLoop_pass maxIter c c.edges 0 [] hc (chkOk_init hc.idx)
  | true =>
    simp only [if_true]
    unfold removeElongated
    cases hrem : removeElongated.loop fn k (2 * c.faces.size + 8) 0 c with
    | error x => exact PassRes.refl _ _ hc []
    | ok c1 =>
      obtain ⟨hc1, ⟨ops1, hH1, htag1⟩, hn1, hfn1⟩ := removeLoop_pass _ _ _ _ hrem hc
      obtain ⟨hc', ops, lg, hl, hH, ht, hg, htr⟩ := refineLoop_pass (fn := fn) (k := k) (lminSq := lminSq)
        (lmaxSq := lmaxSq) maxIter c1 c1.edges 0 [] hc1 (chkOk_init hc1.idx)
      exact ⟨hc', ops1 ++ ops, lg, hl, hH1.trans hH, by rw [List.filterMap_append, htag1, ht]; rfl, hg,
        by rw [htr, hn1, hfn1]⟩

end

end Simu.Remesh

#print axioms Simu.Remesh.refineMesh_preserves
