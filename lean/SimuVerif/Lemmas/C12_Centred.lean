import SimuVerif.Lemmas.C12_Cov
/-
  C12 — the centred volume sums.  `cell::compute_volume` and the signed-volume test of
  `cell::check_face_normal_orientation` take the coordinates relative to `get_volume_reference_point()`
  (the first node of the first used face) before forming the cubic determinants.  Here: what the centred
  sum is for every mesh, that it does not depend on the reference point when the surface is closed, and
  how it follows maps of the positions (the reference point moves along).
-/
set_option linter.unusedSectionVars false
set_option linter.unusedSimpArgs false
namespace Simu.Geo
open Simu Simu.Gen.Geometry
variable {R : Type} [Field R] [LinearOrder R] [IsStrictOrderedRing R]

theorem rel_eq_add_neg (pos : Nat → V3 R) (o : V3 R) : rel pos o = fun i => pos i + (-o) := by
  funext i; exact V3.sub_eq_add_neg' _ _

/-- moving the positions and the reference point together changes no relative position -/
theorem rel_translate (pos : Nat → V3 R) (o d : V3 R) : rel (fun i => pos i + d) (o + d) = rel pos o := by
  funext i; exact V3.add_sub_add_right' _ _ _

/-- **closed surfaces**: the sum of the determinants of the positions relative to ANY point `o` is the sum of the
    determinants of the positions themselves (the difference is a sum of antisymmetric edge terms) -/
theorem detSum_rel_closed (pos : Nat → V3 R) (T : List Tri) (hc : Closed T) (o : V3 R) :
    (T.map (tdet (rel pos o))).sum = (T.map (tdet pos)).sum := by
  rw [rel_eq_add_neg]
  have h1 : tdet (fun i => pos i + (-o))
      = fun t => tdet pos t + ((fun i j => edgeTerm (-o) (pos i) (pos j)) t.1 t.2.1
          + (fun i j => edgeTerm (-o) (pos i) (pos j)) t.2.1 t.2.2
          + (fun i j => edgeTerm (-o) (pos i) (pos j)) t.2.2 t.1) := by
    funext t; simp only [tdet, det3_translate]
  rw [h1, sum_map_add', closed_sum_zero T hc _ (fun i j => edgeTerm_antisymm (-o) (pos i) (pos j)), add_zero]

theorem volSumAt_closed (pos : Nat → V3 R) (T : List Tri) (hc : Closed T) (o : V3 R) :
    volSumAt pos o T = (T.map (tdet pos)).sum := by
  rw [volSumAt_eq, detSum_rel_closed pos T hc o]

theorem svSumAt_closed (pos : Nat → V3 R) (T : List Tri) (hc : Closed T) (o : V3 R) :
    svSumAt pos o T = (T.map (tdet pos)).sum := by
  rw [svSumAt_eq, detSum_rel_closed pos T hc o]

theorem volSum_closed (pos : Nat → V3 R) (T : List Tri) (hc : Closed T) : volSum pos T = (T.map (tdet pos)).sum := by
  rw [volSum_eq, detSum_rel_closed pos T hc _]

theorem svSum_closed (pos : Nat → V3 R) (T : List Tri) (hc : Closed T) : svSum pos T = (T.map (tdet pos)).sum := by
  rw [svSum_eq, detSum_rel_closed pos T hc _]

theorem volume_closed (pos : Nat → V3 R) (T : List Tri) (hc : Closed T) : volume pos T = |(T.map (tdet pos)).sum| / 6 := by
  rw [volume_eq, detSum_rel_closed pos T hc _]

theorem volSum_nil (pos : Nat → V3 R) : volSum pos [] = 0 := by rw [volSum_eq]; rfl

/-- the centred sum under a map `g` of the positions that multiplies every determinant of DIFFERENCES by `k`
    (rotations: 1, reflections: −1, scaling by s: s³, translations: 1): the reference point is mapped along -/
theorem volSum_map (g : V3 R → V3 R) (k : R)
    (hg : ∀ a b c o : V3 R, det3 (g a - g o) (g b - g o) (g c - g o) = k * det3 (a - o) (b - o) (c - o))
    (pos : Nat → V3 R) (T : List Tri) : volSum (fun i => g (pos i)) T = k * volSum pos T := by
  cases T with
  | nil => rw [volSum_nil, volSum_nil, mul_zero]
  | cons t0 T =>
    rw [volSum_eq, volSum_eq, refPoint_map g, ← sum_map_mul_left']; congr 1
    apply List.map_congr_left; intro t _
    simp only [tdet, rel]; exact hg _ _ _ _

/-- a different first face (so a different reference point), same sum — for closed surfaces -/
theorem volSum_closed_congr (pos : Nat → V3 R) {T T' : List Tri} (hc : Closed T) (hc' : Closed T')
    (h : (T'.map (tdet pos)).sum = (T.map (tdet pos)).sum) : volSum pos T' = volSum pos T := by
  rw [volSum_closed pos T hc, volSum_closed pos T' hc', h]

end Simu.Geo
