import SimuVerif.Model.TissueD2
import SimuVerif.Lemmas.C14_TissueRStages
import SimuVerif.Lemmas.C09_Quat      -- field instance of DEq
import SimuVerif.Lemmas.C12_Vec       -- field instance of Geo.SEq
/-
  C14 — the construction of a daughter cell from the cut mesh (`TissueD2.initDaughterCell`), its refinement pass
  (`TissueD2.refineDaughter`) and the liveness test of that pass commute with a translation of all node positions.
-/
set_option linter.unusedSectionVars false
set_option linter.unusedVariables false
set_option linter.unusedSimpArgs false
namespace Simu.TissueD2
open Simu Simu.Forces Simu.Gen Simu.Remesh Simu.TissueR
variable {R : Type} [Field R] [LinearOrder R] [IsStrictOrderedRing R]

/-! ### the refinement pass of a daughter -/

theorem refineDaughter_tr (fn : Fn R) (K : ConstsTR R) (c : CellTR R) (t : V3 R) (hl : daughterLive fn K c = true) :
    refineDaughter fn K (trCellR t c) = (refineDaughter fn K c).map (trCellR t) := by
  unfold daughterLive at hl
  unfold refineDaughter
  simp only [trCellR_mesh, trCellR_k, trCellR_a, Remesh.refineMesh_translate_gen t fn _ _ _ _ _ hl]
  generalize refineMesh fn (Gen.refineConsts fn) (PipelineR.lminSq (kR K c.k)) (PipelineR.lmaxSq (kR K c.k)) K.swapOn c.mesh K.maxIter = r
  obtain ⟨m, o, l⟩ := r
  have hr : replayLog c.a (translateCell t c.mesh) l = replayLog c.a c.mesh l := by
    unfold replayLog
    simp only [tr_freeNodes, tr_nodes_size]
  simp only [trResult, hr]
  unfold PipelineR.refineResult
  cases o <;> rfl

theorem daughterLive_tr (fn : Fn R) (K : ConstsTR R) (c : CellTR R) (t : V3 R) :
    daughterLive fn K (trCellR t c) = daughterLive fn K c := by
  unfold daughterLive
  simp only [trCellR_mesh, trCellR_k, Remesh.refineLive_translate_gen]

/-! ### the orientation of the faces reads positions only through differences of used slots -/

/-- the three node ids of a face satisfy `P` -/
def FaceP (P : Nat → Prop) (f : Remesh.Face R) : Prop := P f.n1 ∧ P f.n2 ∧ P f.n3

theorem checkWinding_cases (r f : Remesh.Face R) :
    checkWinding r f = f ∨ checkWinding r f = { f with n1 := f.n3, n3 := f.n1 } := by
  unfold checkWinding
  simp only []
  split
  · split
    · right; rfl
    · left; rfl
  · left; rfl

theorem faceP_checkWinding (P : Nat → Prop) (r f : Remesh.Face R) (h : FaceP P f) : FaceP P (checkWinding r f) := by
  rcases checkWinding_cases r f with h1 | h1
  · rw [h1]; exact h
  · rw [h1]; exact ⟨h.2.2, h.2.1, h.1⟩

/-- the flood fill only permutes the ids of a face -/
theorem flood_inv (P : Nat → Prop) (edges : EdgeSet) : ∀ (fuel : Nat) (F : Array (Remesh.Face R)) (chk : Array Bool)
    (q : List (Nat × Nat)) (r : Array (Remesh.Face R) × Array Bool),
    flood edges fuel F chk q = .ok r → (∀ f ∈ F.toList, FaceP P f) → ∀ f ∈ r.1.toList, FaceP P f
  | 0, _, _, _, _, h, _ => by unfold flood at h; cases h
  | fuel + 1, F, chk, q, r, h, hF => by
    unfold flood at h
    split at h
    · cases h; exact hF
    · split at h
      · cases h
      · exact flood_inv P edges fuel F chk _ r h hF
      · split at h
        · rename_i fr fc hfr hfc
          simp only at h
          split at h
          · cases h
          · split at h
            · cases h
            · refine flood_inv P edges fuel _ _ _ r h ?_
              intro f hf
              rw [Array.toList_setIfInBounds] at hf
              rcases List.mem_or_eq_of_mem_set hf with h1 | h1
              · exact hF f h1
              · subst h1
                exact faceP_checkWinding P _ _ (hF _ (List.mem_of_getElem? (by rw [Array.getElem?_toList]; exact hfc)))
        · cases h

/-- the signed volume of `check_face_normal_orientation` is the same for the shifted positions -/
theorem sv_tr (pos pos' : Nat → V3 R) (t : V3 R) (P : Nat → Prop) (hP : ∀ i, P i → pos' i = pos i + t) :
    ∀ (L : List (Remesh.Face R)), (∀ f ∈ L, FaceP P f) →
    (L.map fun f => ((f.n1, f.n2, f.n3) : Geo.Tri)).foldl (Gen.Geometry.svStep pos'
      (Gen.Geometry.svOrigin ((((L.map fun f => ((f.n1, f.n2, f.n3) : Geo.Tri)).head?).map (Gen.Geometry.volRefOfFace pos')).getD
        Gen.Geometry.volRefDefault))) Gen.Geometry.svInit =
    (L.map fun f => ((f.n1, f.n2, f.n3) : Geo.Tri)).foldl (Gen.Geometry.svStep pos
      (Gen.Geometry.svOrigin ((((L.map fun f => ((f.n1, f.n2, f.n3) : Geo.Tri)).head?).map (Gen.Geometry.volRefOfFace pos)).getD
        Gen.Geometry.volRefDefault))) Gen.Geometry.svInit
  | [], _ => rfl
  | f :: L, hF => by
    have hf := hF f (List.mem_cons_self)
    simp only [List.map_cons, List.head?_cons, Option.map_some, Option.getD_some, Gen.Geometry.svOrigin, Gen.Geometry.volRefOfFace]
    rw [hP _ hf.1, ← List.map_cons (f := fun f : Remesh.Face R => ((f.n1, f.n2, f.n3) : Geo.Tri))]
    apply List.foldl_ext
    intro s tri htri
    obtain ⟨g, hg, rfl⟩ := List.mem_map.1 htri
    have hg' := hF g hg
    unfold Gen.Geometry.svStep
    simp only [hP _ hg'.1, hP _ hg'.2.1, hP _ hg'.2.2, sub_translate]

theorem orientFaces_tr (es : EdgeSet) (pos pos' : Nat → V3 R) (t : V3 R) (P : Nat → Prop) (hP : ∀ i, P i → pos' i = pos i + t)
    (F : Array (Remesh.Face R)) (hF : ∀ f ∈ F.toList, FaceP P f) :
    orientFaces es pos' F = orientFaces es pos F ∧
      ∀ F1, orientFaces es pos F = .ok F1 → ∀ f ∈ F1.toList, FaceP P f := by
  unfold orientFaces
  cases F[0]? with
  | none => exact ⟨rfl, fun F1 h => by cases h⟩
  | some seed =>
    simp only []
    cases neighbours es seed 0 with
    | error e => exact ⟨rfl, fun F1 h => by cases h⟩
    | ok abd =>
      obtain ⟨a, b, d⟩ := abd
      simp only []
      cases hfl : flood es (3 * F.size + 4) F ((Array.replicate F.size false).setIfInBounds 0 true) [(0, a), (0, b), (0, d)] with
      | error e => exact ⟨rfl, fun F1 h => by cases h⟩
      | ok r =>
        obtain ⟨F1, chk⟩ := r
        have hinv := flood_inv P es _ _ _ _ _ hfl hF
        simp only [] at hinv ⊢
        rw [sv_tr pos pos' t P hP F1.toList hinv]
        refine ⟨rfl, ?_⟩
        intro F2 h
        split at h
        · cases h
        · cases h
          split
          · intro f hf
            rw [Array.toList_map] at hf
            obtain ⟨g, hg, rfl⟩ := List.mem_map.1 hf
            have := hinv g hg
            exact ⟨this.1, this.2.2, this.2.1⟩
          · exact hinv

/-! ### cached face geometry, area, volume -/

theorem updAll_fold_tr (fn : Fn R) (t : V3 R) : ∀ (l : List Nat) (c : Remesh.Cell R), (∀ g, faceLive c g = true) →
    l.foldl (fun c i => match c.faces[i]? with
        | some f => if f.used then updFaceGeom fn c i else c
        | none => c) (translateCell t c) =
    translateCell t (l.foldl (fun c i => match c.faces[i]? with
        | some f => if f.used then updFaceGeom fn c i else c
        | none => c) c)
  | [], _, _ => rfl
  | i :: l, c, hc => by
    simp only [List.foldl_cons, tr_faces]
    cases hf : c.faces[i]? with
    | none => exact updAll_fold_tr fn t l c hc
    | some f =>
      simp only []
      cases hu : f.used with
      | false => exact updAll_fold_tr fn t l c hc
      | true =>
        simp only [if_true]
        rw [updFaceGeom_translate t fn c i (hc i)]
        exact updAll_fold_tr fn t l _ (fun g => faceLive_updFaceGeom fn c i g (hc g))

theorem updAllFaceGeom_tr (fn : Fn R) (t : V3 R) (c : Remesh.Cell R) (hc : ∀ g, faceLive c g = true) :
    updAllFaceGeom fn (translateCell t c) = translateCell t (updAllFaceGeom fn c) := by
  unfold updAllFaceGeom
  simp only [tr_faces]
  exact updAll_fold_tr fn t _ c hc

theorem cellVolume_translateCell (t : V3 R) (m : Remesh.Cell R) :
    Forces.cellVolume (PipelineR.posT (translateCell t m)) (PipelineR.liveF (translateCell t m)) =
      Forces.cellVolume (PipelineR.posT m) (PipelineR.liveF m) := by
  by_cases h : ∃ n ∈ m.nodes.toList, n.used = true
  · rw [PipelineR.posT_translate t m h, PipelineR.liveF_translate, Forces.cellVolume_tr]
  · rw [PipelineR.posT_translate_none t m h]

/-! ### the marks of `remove_unused_nodes` -/

/-- the marking step of `remove_unused_nodes` -/
def markStep (a : Array Bool) (t : Surface.Tri) : Array Bool :=
  ((a.setIfInBounds t.1 true).setIfInBounds t.2.1 true).setIfInBounds t.2.2 true

theorem markStep_size (a : Array Bool) (t : Surface.Tri) : (markStep a t).size = a.size := by
  simp only [markStep, Array.size_setIfInBounds]

theorem set_getD_mono (a : Array Bool) (j i : Nat) (h : a.getD i false = true) : (a.setIfInBounds j true).getD i false = true := by
  rw [Array.getD_eq_getD_getElem?] at h ⊢
  rw [Array.getElem?_setIfInBounds]
  split
  · rename_i hji
    subst hji
    split
    · rfl
    · rename_i hlt
      rw [Array.getElem?_eq_none (by omega)] at h
      exact h
  · exact h

theorem set_getD_self (a : Array Bool) (i : Nat) (h : i < a.size) : (a.setIfInBounds i true).getD i false = true := by
  rw [Array.getD_eq_getD_getElem?, Array.getElem?_setIfInBounds, if_pos rfl, if_pos h]
  rfl

theorem markStep_mono (a : Array Bool) (t : Surface.Tri) (i : Nat) (h : a.getD i false = true) : (markStep a t).getD i false = true :=
  set_getD_mono _ _ _ (set_getD_mono _ _ _ (set_getD_mono _ _ _ h))

theorem marks_mono : ∀ (T : List Surface.Tri) (a : Array Bool) (i : Nat), a.getD i false = true →
    (T.foldl markStep a).getD i false = true
  | [], _, _, h => h
  | t :: T, a, i, h => marks_mono T _ i (markStep_mono a t i h)

theorem marks_mem : ∀ (T : List Surface.Tri) (a : Array Bool) (t : Surface.Tri), t ∈ T →
    t.1 < a.size → t.2.1 < a.size → t.2.2 < a.size →
    (T.foldl markStep a).getD t.1 false = true ∧ (T.foldl markStep a).getD t.2.1 false = true ∧
      (T.foldl markStep a).getD t.2.2 false = true
  | [], _, _, h, _, _, _ => by cases h
  | u :: T, a, t, h, h1, h2, h3 => by
    rcases List.mem_cons.1 h with rfl | hm
    · simp only [List.foldl_cons]
      refine ⟨marks_mono T _ _ ?_, marks_mono T _ _ ?_, marks_mono T _ _ ?_⟩
      · exact set_getD_mono _ _ _ (set_getD_mono _ _ _ (set_getD_self _ _ h1))
      · exact set_getD_mono _ _ _ (set_getD_self _ _ (by rw [Array.size_setIfInBounds]; exact h2))
      · exact set_getD_self _ _ (by rw [Array.size_setIfInBounds, Array.size_setIfInBounds]; exact h3)
    · simp only [List.foldl_cons]
      exact marks_mem T _ t hm (by rw [markStep_size]; exact h1) (by rw [markStep_size]; exact h2) (by rw [markStep_size]; exact h3)

/-! ### the node table of the daughter -/

/-- `node(x, y, z, id)` for every point, then the mother's node objects over the first slots -/
def mkNodes0 (M : Array (Remesh.Node R)) (pts : Array (V3 R)) : Array (Remesh.Node R) :=
  pts.mapIdx fun i q => (M[i]?).getD ⟨q, zeroV, true⟩

/-- `remove_unused_nodes`: `node::reset` of the slots no face names -/
def mkNodes1 (U : Array Bool) (N : Array (Remesh.Node R)) : Array (Remesh.Node R) :=
  N.mapIdx fun i nd => if U.getD i false then nd else ⟨zeroV, zeroV, false⟩

/-- slot `i` exists and is used -/
def UsedAt (N : Array (Remesh.Node R)) (i : Nat) : Prop := ∃ nd, N[i]? = some nd ∧ nd.used = true

/-- the position lookup of the signed volume -/
def posN (N : Array (Remesh.Node R)) (i : Nat) : V3 R :=
  match N[i]? with
  | some nd => nd.pos
  | none => zeroV

theorem mkNodes0_tr (M : Array (Remesh.Node R)) (pts : Array (V3 R)) (t : V3 R) :
    mkNodes0 (M.map (trNode t)) (pts.map (· + t)) = (mkNodes0 M pts).map (trNode t) := by
  apply Array.ext_getElem?
  intro i
  simp only [mkNodes0, Array.getElem?_mapIdx, Array.getElem?_map]
  cases pts[i]? with
  | none => rfl
  | some q =>
    cases M[i]? with
    | none =>
      simp only [Option.map_some, Option.map_none, Option.getD_none]
      rw [trNode_of_used t rfl]
    | some nd => rfl

theorem mkNodes1_tr (U : Array Bool) (N : Array (Remesh.Node R)) (t : V3 R) :
    mkNodes1 U (N.map (trNode t)) = (mkNodes1 U N).map (trNode t) := by
  apply Array.ext_getElem?
  intro i
  simp only [mkNodes1, Array.getElem?_mapIdx, Array.getElem?_map]
  cases N[i]? with
  | none => rfl
  | some nd =>
    simp only [Option.map_some]
    split
    · rfl
    · rw [trNode_of_unused t rfl]

theorem mkNodes1_used (M : Array (Remesh.Node R)) (pts : Array (V3 R)) (U : Array Bool) (i : Nat)
    (hu : M.all (fun nd => nd.used) = true) (hi : i < pts.size) (hU : U.getD i false = true) :
    UsedAt (mkNodes1 U (mkNodes0 M pts)) i := by
  unfold UsedAt
  simp only [mkNodes1, mkNodes0, Array.getElem?_mapIdx, Array.getElem?_eq_getElem hi, Option.map_some, hU, if_true]
  cases hM : M[i]? with
  | none => exact ⟨_, rfl, rfl⟩
  | some nd =>
    refine ⟨nd, rfl, ?_⟩
    obtain ⟨hlt, heq⟩ := Array.getElem?_eq_some_iff.1 hM
    have := Array.all_eq_true.1 hu i hlt
    rw [heq] at this
    exact this

theorem posN_tr (N : Array (Remesh.Node R)) (t : V3 R) (i : Nat) (h : UsedAt N i) :
    posN (N.map (trNode t)) i = posN N i + t := by
  obtain ⟨nd, hn, hu⟩ := h
  unfold posN
  rw [Array.getElem?_map, hn]
  simp only [Option.map_some, trNode_pos_of_used t hu]

/-! ### `initialize_cell_properties` on the prepared tables -/

/-- `initDaughterCell` after `remove_unused_nodes`, as a function of the node table -/
def initTail (fn : Fn R) (k : Tissue.CellK R) (A1 : Attrs R) (nodes1 : Array (Remesh.Node R)) (unused : List Nat) (n : Nat)
    (T : List Surface.Tri) : Except Division.DErr (CellTR R) :=
  if T.any (fun t => t.1 == t.2.1 || t.2.1 == t.2.2 || t.2.2 == t.1) then .error .integrity else
  let faces0 : List (Remesh.Face R) := T.map fun t => ⟨t.1, t.2.1, t.2.2, 0, zeroV, lit 0, true⟩
  match genEdges faces0 with
  | .error e => .error (Division.ofRemesh e)
  | .ok es =>
    let nbNodes : Int := ((n - unused.length : Nat) : Int)
    if !(es.all Edge.isManifold) || nbNodes - (es.length : Int) + (faces0.length : Int) != 2 then .error .initial_triangulation else
    match orientFaces es (posN nodes1) faces0.toArray with
    | .error e => .error e
    | .ok F =>
      let m := updAllFaceGeom fn (⟨nodes1, F, es, unused.reverse, []⟩ : Remesh.Cell R)
      let area := m.faces.toList.foldl (fun (s : R) f => s + (if f.used then f.area else lit 0)) (lit 0)
      let volume := Forces.cellVolume (PipelineR.posT m) (PipelineR.liveF m)
      .ok { k := k, mesh := m, a := A1, area := area, volume := volume, tvol := volume, pressure := lit 0 }

/-- the attribute tables after `remove_unused_nodes` (no position is read) -/
def attrs1 (a : Attrs R) (n : Nat) (unused : List Nat) : Attrs R :=
  unused.foldl (fun A i => A.release i)
    (⟨extendTo a.force n vzero, extendTo a.normal n vzero, extendTo a.curv n (lit 0), extendTo a.coup n none,
      extendTo a.sqd n (lit 0)⟩ : Attrs R)

def unusedOf (n : Nat) (T : List Surface.Tri) : List Nat :=
  (List.range n).filter fun i => !((T.foldl markStep (Array.replicate n false)).getD i false)

theorem initDaughterCell_eq (fn : Fn R) (mother : CellTR R) (pts : Array (V3 R)) (T : List Surface.Tri) :
    initDaughterCell fn mother pts T =
      initTail fn mother.k (attrs1 mother.a pts.size (unusedOf pts.size T))
        (mkNodes1 (T.foldl markStep (Array.replicate pts.size false)) (mkNodes0 mother.mesh.nodes pts))
        (unusedOf pts.size T) pts.size T := rfl

theorem initTail_tr (fn : Fn R) (k : Tissue.CellK R) (A1 : Attrs R) (N : Array (Remesh.Node R)) (unused : List Nat) (n : Nat)
    (T : List Surface.Tri) (t : V3 R)
    (hN : ∀ tri ∈ T, UsedAt N tri.1 ∧ UsedAt N tri.2.1 ∧ UsedAt N tri.2.2) :
    initTail fn k A1 (N.map (trNode t)) unused n T = (initTail fn k A1 N unused n T).map (trCellR t) := by
  unfold initTail
  split
  · rfl
  · simp only []
    cases genEdges (T.map fun t => (⟨t.1, t.2.1, t.2.2, 0, zeroV, lit 0, true⟩ : Remesh.Face R)) with
    | error e => rfl
    | ok es =>
      simp only []
      split
      · rfl
      · have hF0 : ∀ f ∈ ((T.map fun t => (⟨t.1, t.2.1, t.2.2, 0, zeroV, lit 0, true⟩ : Remesh.Face R)).toArray).toList,
            FaceP (UsedAt N) f := by
          intro f hf
          obtain ⟨tri, htri, rfl⟩ := List.mem_map.1 hf
          exact hN tri htri
        obtain ⟨ho, hinv⟩ := orientFaces_tr es (posN N) (posN (N.map (trNode t))) t (UsedAt N) (posN_tr N t) _ hF0
        rw [ho]
        cases hor : orientFaces es (posN N)
            (T.map fun t => (⟨t.1, t.2.1, t.2.2, 0, zeroV, lit 0, true⟩ : Remesh.Face R)).toArray with
        | error e => rfl
        | ok F =>
          simp only []
          have hcell : (⟨N.map (trNode t), F, es, unused.reverse, []⟩ : Remesh.Cell R) =
              translateCell t ⟨N, F, es, unused.reverse, []⟩ := rfl
          have hlive : ∀ g, faceLive (⟨N, F, es, unused.reverse, []⟩ : Remesh.Cell R) g = true := by
            intro g
            unfold faceLive
            cases hg : (⟨N, F, es, unused.reverse, []⟩ : Remesh.Cell R).faces[g]? with
            | none => rfl
            | some f =>
              have hf := hinv F hor f (List.mem_of_getElem? (by rw [Array.getElem?_toList]; exact hg))
              simp only [fUsed, Bool.and_eq_true]
              exact ⟨⟨usedN_iff.2 hf.1, usedN_iff.2 hf.2.1⟩, usedN_iff.2 hf.2.2⟩
          rw [hcell, updAllFaceGeom_tr fn t _ hlive, cellVolume_translateCell]
          rfl

/-- the daughter built from the translated mesh and the translated mother is the translated daughter -/
theorem initDaughterCell_tr (fn : Fn R) (mother : CellTR R) (pts : Array (V3 R)) (T : List Surface.Tri) (t : V3 R)
    (hu : mother.mesh.nodes.all (fun nd => nd.used) = true)
    (hT : trisBelow pts.size T = true) :
    initDaughterCell fn (trCellR t mother) (pts.map (· + t)) T = (initDaughterCell fn mother pts T).map (trCellR t) := by
  rw [initDaughterCell_eq, initDaughterCell_eq]
  simp only [trCellR_mesh, trCellR_a, trCellR_k, tr_nodes, Array.size_map, mkNodes0_tr, mkNodes1_tr]
  apply initTail_tr
  intro tri htri
  unfold trisBelow at hT
  have hb := List.all_eq_true.1 hT tri htri
  simp only [Bool.and_eq_true, decide_eq_true_eq] at hb
  have hm := marks_mem T (Array.replicate pts.size false) tri htri (by rw [Array.size_replicate]; exact hb.1.1)
    (by rw [Array.size_replicate]; exact hb.1.2) (by rw [Array.size_replicate]; exact hb.2)
  exact ⟨mkNodes1_used _ _ _ _ hu hb.1.1 hm.1, mkNodes1_used _ _ _ _ hu hb.1.2 hm.2.1, mkNodes1_used _ _ _ _ hu hb.2 hm.2.2⟩

end Simu.TissueD2
