import SimuVerif.Lemmas.C12_Axis
/-
  C12 — three orthonormal eigenvectors of the (symmetric) covariance matrix carry its whole spectrum:
  an orthonormal triple of V3 is a basis (dual-basis expansion + Gram determinant), the matrix of
  `covRows` is symmetric, hence every eigenvalue of the matrix is one of the three.  This removes the
  "no eigenvalue is missing" clause from what is assumed about the opaque eigen-solver.
-/
set_option linter.unusedSectionVars false
set_option linter.unusedSimpArgs false
namespace Simu.Geo
open Simu Simu.Gen.Geometry
variable {R : Type} [Field R] [LinearOrder R] [IsStrictOrderedRing R]

/-- the triple product a·(b×c) -/
def tdet3 (a b c : V3 R) : R := V3.dot a (V3.cross b c)

/-- dual-basis expansion (Cramer), a polynomial identity: det(a,b,c)·r = (r·a) b×c + (r·b) c×a + (r·c) a×b -/
theorem dual_expansion (a b c r : V3 R) :
    r * tdet3 a b c = V3.cross b c * V3.dot r a + V3.cross c a * V3.dot r b + V3.cross a b * V3.dot r c := by
  apply V3.ext' <;> simp only [tdet3, V3.smul_x, V3.smul_y, V3.smul_z, V3.add_x, V3.add_y, V3.add_z, V3.dot_def, V3.cross_def] <;> ring

/-- Gram determinant: det(a,b,c)² = det [aᵢ·aⱼ] -/
theorem gram_det (a b c : V3 R) :
    tdet3 a b c * tdet3 a b c =
      V3.dot a a * V3.dot b b * V3.dot c c + 2 * (V3.dot a b * V3.dot b c * V3.dot c a)
        - V3.dot a a * (V3.dot b c * V3.dot b c) - V3.dot b b * (V3.dot c a * V3.dot c a)
        - V3.dot c c * (V3.dot a b * V3.dot a b) := by
  simp only [tdet3, V3.dot_def, V3.cross_def]; ring

/-- an orthonormal triple -/
structure Orthonormal3 (a b c : V3 R) : Prop where
  aa : V3.dot a a = 1
  bb : V3.dot b b = 1
  cc : V3.dot c c = 1
  ab : V3.dot a b = 0
  bc : V3.dot b c = 0
  ca : V3.dot c a = 0

theorem Orthonormal3.det_ne_zero {a b c : V3 R} (h : Orthonormal3 a b c) : tdet3 a b c ≠ 0 := by
  intro h0
  have := gram_det a b c
  rw [h0, h.aa, h.bb, h.cc, h.ab, h.bc, h.ca] at this
  norm_num at this

/-- a vector orthogonal to an orthonormal triple vanishes: the triple spans the space -/
theorem Orthonormal3.eq_zero_of_orthogonal {a b c : V3 R} (h : Orthonormal3 a b c) (r : V3 R)
    (ha : V3.dot r a = 0) (hb : V3.dot r b = 0) (hc : V3.dot r c = 0) : V3.normSq r = 0 := by
  have e := dual_expansion a b c r
  rw [ha, hb, hc] at e
  have hd := h.det_ne_zero
  have hx : r.x * tdet3 a b c = 0 := by have := congrArg V3.x e; simpa using this
  have hy : r.y * tdet3 a b c = 0 := by have := congrArg V3.y e; simpa using this
  have hz : r.z * tdet3 a b c = 0 := by have := congrArg V3.z e; simpa using this
  have hx0 : r.x = 0 := (mul_eq_zero.mp hx).resolve_right hd
  have hy0 : r.y = 0 := (mul_eq_zero.mp hy).resolve_right hd
  have hz0 : r.z = 0 := (mul_eq_zero.mp hz).resolve_right hd
  simp [V3.normSq_def, hx0, hy0, hz0]

/-- the matrix of `covRows` is symmetric: (C x)·y = x·(C y), for every six accumulators -/
theorem covApply_symmetric (acc : R × R × R × R × R × R) (x y : V3 R) :
    V3.dot (covApply (covRows acc) x) y = V3.dot x (covApply (covRows acc) y) := by
  obtain ⟨a1, a2, a3, a4, a5, a6⟩ := acc
  simp only [covApply, covRows, V3.dot_def]; ring

/-- every eigenvalue of the matrix of `covRows` is the eigenvalue of one of three orthonormal eigenvectors -/
theorem spectrum_complete (acc : R × R × R × R × R × R) (u0 u1 u2 : V3 R) (e0 e1 e2 : R)
    (h : Orthonormal3 u0 u1 u2)
    (h0 : covApply (covRows acc) u0 = u0 * e0) (h1 : covApply (covRows acc) u1 = u1 * e1)
    (h2 : covApply (covRows acc) u2 = u2 * e2)
    (w : V3 R) (m : R) (hw : V3.normSq w ≠ 0) (hwm : covApply (covRows acc) w = w * m) :
    m = e0 ∨ m = e1 ∨ m = e2 := by
  have key : ∀ (u : V3 R) (e : R), covApply (covRows acc) u = u * e → (m - e) * V3.dot w u = 0 := by
    intro u e hu
    have s := covApply_symmetric acc w u
    rw [hwm, hu, V3.dot_smul_left, V3.dot_smul_right] at s
    linear_combination s
  by_contra hcon
  push Not at hcon
  obtain ⟨n0, n1, n2⟩ := hcon
  have d0 : V3.dot w u0 = 0 := (mul_eq_zero.mp (key u0 e0 h0)).resolve_left (sub_ne_zero.mpr n0)
  have d1 : V3.dot w u1 = 0 := (mul_eq_zero.mp (key u1 e1 h1)).resolve_left (sub_ne_zero.mpr n1)
  have d2 : V3.dot w u2 = 0 := (mul_eq_zero.mp (key u2 e2 h2)).resolve_left (sub_ne_zero.mpr n2)
  exact hw (h.eq_zero_of_orthogonal w d0 d1 d2)

end Simu.Geo
