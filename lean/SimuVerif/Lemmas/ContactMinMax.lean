import SimuVerif.Model.ContactBase
import Mathlib.Algebra.Order.Field.Basic
import Mathlib.Tactic.Linarith
/-
  C06 / C07 — `std::min` / `std::max` as the contact code uses them (`cmin`, `cmax` of `Model/ContactBase.lean`).
-/
set_option linter.unusedSectionVars false
namespace Simu.BP
open Simu
variable {R : Type} [Field R] [LinearOrder R] [IsStrictOrderedRing R]

theorem cmin_le_left (a b : R) : cmin a b ≤ a := by unfold cmin; split_ifs with h <;> [exact le_of_lt h; exact le_refl _]
theorem cmin_le_right (a b : R) : cmin a b ≤ b := by unfold cmin; split_ifs with h <;> [exact le_refl _; exact not_lt.mp h]
theorem le_cmax_left (a b : R) : a ≤ cmax a b := by unfold cmax; split_ifs with h <;> [exact le_of_lt h; exact le_refl _]
theorem le_cmax_right (a b : R) : b ≤ cmax a b := by unfold cmax; split_ifs with h <;> [exact le_refl _; exact not_lt.mp h]
theorem cmax_eq (a b : R) : cmax a b = max a b := by
  unfold cmax; split_ifs with h
  · exact (max_eq_right (le_of_lt h)).symm
  · exact (max_eq_left (not_lt.mp h)).symm

end Simu.BP
