import SimuVerif.Model.CouplingPass
import Mathlib.Data.List.Nodup
/-
  C03 (addition) — lemmas about the two in-place loops of `Model/CouplingPass.lean`.

  * get / set / schedule lemmas;
  * loop (A): the in-place fold equals the POINTWISE map `symNode` computed from the original table
    (`sym_fold`: induction over the schedule with a generalised "done" prefix and the invariant `SymAgree`);
    the crux `symNode_coup_iff`: a reset made by an earlier visit never changes the outcome of a later test;
  * loop (B): under `PairOK` the fold equals the pointwise map `midNode` (`mid_fold`, invariant `MidAgree`: the
    position of a slot has changed exactly when its OWNER — the member of the pair in the cell with the greater
    index — has been visited).

  Nothing here needs arithmetic: every statement holds for ANY scalar type with the operations (also `Float`).
-/
set_option linter.unusedSectionVars false
set_option linter.unusedVariables false
namespace Simu.Coupling
open Simu

/-! ### get / set -/
section getset
variable {α : Type}

theorem get_set (p : List (List α)) (q q' : Slot) (x : α) :
    get (set p q x) q' = if q' = q ∧ (get p q).isSome then some x else get p q' := by
  obtain ⟨c, n⟩ := q
  obtain ⟨c', n'⟩ := q'
  unfold set get
  simp only
  cases hd : p[c]? with
  | none => simp
  | some l =>
    simp only [List.getElem?_set]
    by_cases hc : c = c'
    · subst hc
      have hlt : c < p.length := by
        rcases Nat.lt_or_ge c p.length with h | h
        · exact h
        · rw [List.getElem?_eq_none h] at hd; cases hd
      simp only [hlt, if_true, hd]
      by_cases hn : n = n'
      · subst hn
        cases hl : l[n]? with
        | none =>
          have : ¬ n < l.length := by
            intro h; rw [List.getElem?_eq_getElem h] at hl; cases hl
          simp [this]
        | some y =>
          have : n < l.length := by
            rcases Nat.lt_or_ge n l.length with h | h
            · exact h
            · rw [List.getElem?_eq_none h] at hl; cases hl
          simp [this]
      · have : ¬ ((c, n') = (c, n)) := by
          intro h; exact hn (by injection h with _ h2; exact h2.symm)
        simp [hn, this]
    · have : ¬ ((c', n') = (c, n)) := by
        intro h; exact hc (by injection h with h1 _; exact h1.symm)
      simp [hc, this]

theorem get_set_eq {p : List (List α)} {q : Slot} {y : α} (x : α) (h : get p q = some y) :
    get (set p q x) q = some x := by
  rw [get_set]; simp [h]

theorem get_set_ne {p : List (List α)} {q q' : Slot} (x : α) (h : q' ≠ q) :
    get (set p q x) q' = get p q' := by
  rw [get_set]; simp [h]

/-- the shape (number of cells, number of slots of every cell) of a population -/
def shape (p : List (List α)) : List Nat := p.map List.length

theorem shape_set (p : List (List α)) (q : Slot) (x : α) : shape (set p q x) = shape p := by
  unfold set shape
  cases hd : p[q.1]? with
  | none => rfl
  | some l =>
    simp only
    apply List.ext_getElem?
    intro i
    simp only [List.getElem?_map, List.getElem?_set]
    by_cases h : q.1 = i
    · subst h
      obtain ⟨hlt, he⟩ := List.getElem?_eq_some_iff.mp hd
      simp [hlt, he]
    · simp [h]

theorem length_of_shape {p q : List (List α)} (h : shape q = shape p) : q.length = p.length := by
  have := congrArg List.length h
  simpa [shape] using this

/-- same shape and same content at every slot: same population -/
theorem ext_get {p q : List (List α)} (hs : shape q = shape p) (h : ∀ k, get q k = get p k) : q = p := by
  apply List.ext_getElem?
  intro i
  have hlen := length_of_shape hs
  rcases Nat.lt_or_ge i p.length with hi | hi
  · have hi' : i < q.length := hlen ▸ hi
    rw [List.getElem?_eq_getElem hi, List.getElem?_eq_getElem hi']
    congr 1
    apply List.ext_getElem?
    intro j
    have := h (i, j)
    simpa [get, List.getElem?_eq_getElem hi, List.getElem?_eq_getElem hi'] using this
  · rw [List.getElem?_eq_none hi, List.getElem?_eq_none (hlen ▸ hi)]

end getset

/-! ### the schedule visits every existing slot exactly once -/

theorem slotsFrom_fst_ge : ∀ (lens : List Nat) (i : Nat) (x : Slot), x ∈ slotsFrom i lens → i ≤ x.1 := by
  intro lens
  induction lens with
  | nil => intro i x h; cases h
  | cons n rest ih =>
    intro i x h
    unfold slotsFrom at h
    rcases List.mem_append.mp h with h | h
    · obtain ⟨j, _, rfl⟩ := List.mem_map.mp h; exact Nat.le_refl _
    · exact Nat.le_of_succ_le (ih _ _ h)

theorem slotsFrom_nodup : ∀ (lens : List Nat) (i : Nat), (slotsFrom i lens).Nodup := by
  intro lens
  induction lens with
  | nil => intro i; exact List.nodup_nil
  | cons n rest ih =>
    intro i
    unfold slotsFrom
    rw [List.nodup_append]
    refine ⟨?_, ih _, ?_⟩
    · apply List.Nodup.map _ List.nodup_range
      intro a b h; injection h
    · intro a ha b hb e
      obtain ⟨j, _, rfl⟩ := List.mem_map.mp ha
      have := slotsFrom_fst_ge _ _ _ hb
      rw [← e] at this
      exact Nat.not_succ_le_self _ this

theorem slotsFrom_mem : ∀ (lens : List Nat) (i a b n : Nat), lens[a]? = some n → b < n →
    (i + a, b) ∈ slotsFrom i lens := by
  intro lens
  induction lens with
  | nil => intro i a b n h; cases h
  | cons m rest ih =>
    intro i a b n h hb
    unfold slotsFrom
    cases a with
    | zero =>
      simp only [List.getElem?_cons_zero, Option.some.injEq] at h
      subst h
      apply List.mem_append_left
      exact List.mem_map.mpr ⟨b, List.mem_range.mpr hb, rfl⟩
    | succ a' =>
      simp only [List.getElem?_cons_succ] at h
      apply List.mem_append_right
      have := ih (i + 1) a' b n h hb
      rwa [show i + 1 + a' = i + (a' + 1) by omega] at this

theorem slots_nodup {α : Type} (p : List (List α)) : (slots p).Nodup := slotsFrom_nodup _ _

/-- every existing slot is on the schedule -/
theorem slots_mem {α : Type} (p : List (List α)) (k : Slot) (x : α) (h : get p k = some x) : k ∈ slots p := by
  obtain ⟨a, b⟩ := k
  unfold get at h
  simp only at h
  cases hc : p[a]? with
  | none => rw [hc] at h; cases h
  | some l =>
    rw [hc] at h
    simp only at h
    have h1 : (p.map List.length)[a]? = some l.length := by
      rw [List.getElem?_map, hc]; rfl
    have hb : b < l.length := by
      rcases Nat.lt_or_ge b l.length with h' | h'
      · exact h'
      · rw [List.getElem?_eq_none h'] at h; cases h
    have := slotsFrom_mem _ 0 a b _ h1 hb
    rwa [Nat.zero_add] at this

variable {R : Type} [Add R] [Sub R] [Mul R] [Div R] [Neg R] [Lit R]

/-! ### loop (A): symmetrisation -/

/-- what loop (A) makes of the node `n` of slot `k`, computed from the ORIGINAL table `p`: a used coupled node whose
    partner (in `p`) does not name `k` back loses its coupling; everything else is kept -/
def symNode (p : Pop R) (k : Slot) (n : CNode R) : CNode R :=
  if n.used then
    match n.coup with
    | none => n
    | some j =>
      match get p j with
      | none => n
      | some m => if m.coup = some k then n else { n with coup := none }
  else n

/-- the couplings of the used nodes of `sched` name existing slots (otherwise the C++ reads out of bounds) -/
def RangeOn (p : Pop R) (sched : List Slot) : Prop :=
  ∀ k ∈ sched, ∀ (n : CNode R) (j : Slot), get p k = some n → n.used = true → n.coup = some j → (get p j).isSome = true

/-- every coupling of a used node names an existing slot -/
def RangeOK (p : Pop R) : Prop :=
  ∀ (k : Slot) (n : CNode R) (j : Slot), get p k = some n → n.used = true → n.coup = some j → (get p j).isSome = true

theorem symNode_used (p : Pop R) (k : Slot) (n : CNode R) : (symNode p k n).used = n.used := by
  unfold symNode
  split
  · split
    · rfl
    · split
      · rfl
      · split <;> rfl
  · rfl

theorem symNode_pos (p : Pop R) (k : Slot) (n : CNode R) : (symNode p k n).pos = n.pos := by
  unfold symNode
  split
  · split
    · rfl
    · split
      · rfl
      · split <;> rfl
  · rfl

/-- the coupling after the pass is the original one or none -/
theorem symNode_coup (p : Pop R) (k : Slot) (n : CNode R) :
    (symNode p k n).coup = n.coup ∨ (symNode p k n).coup = none := by
  unfold symNode
  split
  · split
    · exact Or.inl rfl
    · split
      · exact Or.inl rfl
      · split
        · exact Or.inl rfl
        · exact Or.inr rfl
  · exact Or.inl rfl

theorem symNode_unused (p : Pop R) (k : Slot) (n : CNode R) (h : n.used = false) : symNode p k n = n := by
  unfold symNode; simp [h]

theorem symNode_uncoupled (p : Pop R) (k : Slot) (n : CNode R) (h : n.coup = none) : symNode p k n = n := by
  unfold symNode; simp [h]

/-- a used node whose partner exists: kept iff the partner names it back -/
theorem symNode_coupled (p : Pop R) (k j : Slot) (n m : CNode R) (hu : n.used = true) (hc : n.coup = some j)
    (hm : get p j = some m) :
    symNode p k n = if m.coup = some k then n else { n with coup := none } := by
  unfold symNode; simp [hu, hc, hm]

/-- THE CRUX: when `k` names `j`, the test "does `j` name `k` back" gives the same answer on the node the pass leaves at
    `j` as on the original one: `j` is reset only when ITS partner does not name it back, and if `j` names `k` that
    partner is `k`, which does name `j` -/
theorem symNode_coup_iff (p : Pop R) (k j : Slot) (n1 m : CNode R) (hk : get p k = some n1) (h1 : n1.coup = some j) :
    (symNode p j m).coup = some k ↔ m.coup = some k := by
  unfold symNode
  by_cases hu : m.used = true
  · simp only [hu, if_true]
    cases hm : m.coup with
    | none => simp [hm]
    | some i =>
      simp only
      cases hi : get p i with
      | none => simp [hm]
      | some m2 =>
        simp only
        by_cases hb : m2.coup = some j
        · simp [hb, hm]
        · simp only [hb, if_false]
          constructor
          · intro h; cases h
          · intro h
            have : i = k := by injection h
            subst this
            rw [hk] at hi; cases hi
            exact absurd h1 hb
  · simp [hu]

/-- invariant of the fold (A): `q` is the state after the visits of `done`; it has the shape of `p`, agrees with the
    pointwise result on `done` and with the original table elsewhere -/
def SymAgree (p : Pop R) (done : List Slot) (q : Pop R) : Prop :=
  shape q = shape p ∧ ∀ s : Slot, get q s = if s ∈ done then (get p s).map (symNode p s) else get p s

theorem symAgree_init (p : Pop R) : SymAgree p [] p := ⟨rfl, fun s => by simp⟩

theorem symAgree_extend (p q q1 : Pop R) (done : List Slot) (k : Slot) (h : SymAgree p done q) (hk : k ∉ done)
    (hs : shape q1 = shape q) (h1 : get q1 k = (get p k).map (symNode p k)) (h2 : ∀ s : Slot, s ≠ k → get q1 s = get q s) :
    SymAgree p (done ++ [k]) q1 := by
  refine ⟨hs.trans h.1, ?_⟩
  intro s
  by_cases hsk : s = k
  · subst hsk; simp [h1]
  · rw [h2 s hsk, h.2 s]
    simp [hsk]

/-! equations of one visit of loop (A) -/

theorem symStep_none (q : Pop R) (k : Slot) (hk : get q k = none) : symStep q k = some q := by
  unfold symStep; simp [hk]

theorem symStep_unused (q : Pop R) (k : Slot) (n1 : CNode R) (hk : get q k = some n1) (hu : n1.used = false) :
    symStep q k = some q := by
  unfold symStep; simp [hk, hu]

theorem symStep_uncoupled (q : Pop R) (k : Slot) (n1 : CNode R) (hk : get q k = some n1) (hc : n1.coup = none) :
    symStep q k = some q := by
  unfold symStep; simp [hk, hc]

theorem symStep_keep (q : Pop R) (k j : Slot) (n1 n2 : CNode R) (hk : get q k = some n1) (hu : n1.used = true)
    (hc : n1.coup = some j) (hj : get q j = some n2) (hb : n2.coup = some k) : symStep q k = some q := by
  unfold symStep; simp [hk, hu, hc, hj, hb]

theorem symStep_reset (q : Pop R) (k j : Slot) (n1 n2 : CNode R) (hk : get q k = some n1) (hu : n1.used = true)
    (hc : n1.coup = some j) (hj : get q j = some n2) (hb : ¬ n2.coup = some k) :
    symStep q k = some (set q k { n1 with coup := none }) := by
  unfold symStep; simp [hk, hu, hc, hj, hb]

theorem symStep_ub (q : Pop R) (k j : Slot) (n1 : CNode R) (hk : get q k = some n1) (hu : n1.used = true)
    (hc : n1.coup = some j) (hj : get q j = none) : symStep q k = none := by
  unfold symStep; simp [hk, hu, hc, hj]

/-- one visit of loop (A) from a state that agrees: defined when the coupling of `k` is in range, and the result
    agrees on `done ++ [k]` -/
theorem sym_step (p q : Pop R) (done : List Slot) (k : Slot) (h : SymAgree p done q) (hk : k ∉ done)
    (hr : ∀ (n : CNode R) (j : Slot), get p k = some n → n.used = true → n.coup = some j → (get p j).isSome = true) :
    ∃ q1, symStep q k = some q1 ∧ SymAgree p (done ++ [k]) q1 := by
  have hqk : get q k = get p k := by rw [h.2 k]; simp [hk]
  cases hpk : get p k with
  | none =>
    refine ⟨q, symStep_none q k (hqk.trans hpk), symAgree_extend p q q done k h hk rfl ?_ (fun _ _ => rfl)⟩
    rw [hqk, hpk]; rfl
  | some n1 =>
    have hqk' : get q k = some n1 := hqk.trans hpk
    cases hu : n1.used with
    | false =>
      refine ⟨q, symStep_unused q k n1 hqk' hu, symAgree_extend p q q done k h hk rfl ?_ (fun _ _ => rfl)⟩
      rw [hqk', hpk, Option.map_some, symNode_unused p k n1 hu]
    | true =>
      cases hc : n1.coup with
      | none =>
        refine ⟨q, symStep_uncoupled q k n1 hqk' hc, symAgree_extend p q q done k h hk rfl ?_ (fun _ _ => rfl)⟩
        rw [hqk', hpk, Option.map_some, symNode_uncoupled p k n1 hc]
      | some j =>
        have hj := hr n1 j hpk hu hc
        cases hpj : get p j with
        | none => rw [hpj] at hj; cases hj
        | some m0 =>
          -- what the current state holds at j
          have hqj : ∃ m', get q j = some m' ∧ (m'.coup = some k ↔ m0.coup = some k) := by
            rw [h.2 j]
            by_cases hjd : j ∈ done
            · simp only [hjd, if_true, hpj, Option.map_some]
              exact ⟨_, rfl, symNode_coup_iff p k j n1 m0 hpk hc⟩
            · simp only [hjd, if_false, hpj]
              exact ⟨_, rfl, Iff.rfl⟩
          obtain ⟨m', hm', hiff⟩ := hqj
          by_cases hb : m'.coup = some k
          · refine ⟨q, symStep_keep q k j n1 m' hqk' hu hc hm' hb,
              symAgree_extend p q q done k h hk rfl ?_ (fun _ _ => rfl)⟩
            rw [hqk', hpk, Option.map_some, symNode_coupled p k j n1 m0 hu hc hpj, if_pos (hiff.mp hb)]
          · refine ⟨_, symStep_reset q k j n1 m' hqk' hu hc hm' hb,
              symAgree_extend p q _ done k h hk (shape_set _ _ _) ?_ (fun s hs => get_set_ne _ hs)⟩
            rw [get_set_eq _ hqk', hpk, Option.map_some, symNode_coupled p k j n1 m0 hu hc hpj,
              if_neg (fun e => hb (hiff.mpr e))]

/-- a visit that is defined had its coupling in range -/
theorem sym_step_range (p q q1 : Pop R) (done : List Slot) (k : Slot) (h : SymAgree p done q) (hk : k ∉ done)
    (hq1 : symStep q k = some q1) (n : CNode R) (j : Slot) (hn : get p k = some n) (hu : n.used = true)
    (hc : n.coup = some j) : (get p j).isSome = true := by
  have hqk : get q k = some n := by rw [h.2 k]; simp [hk, hn]
  cases hqj : get q j with
  | none => rw [symStep_ub q k j n hqk hu hc hqj] at hq1; cases hq1
  | some m' =>
    rw [h.2 j] at hqj
    by_cases hjd : j ∈ done
    · simp only [hjd, if_true] at hqj
      cases hpj : get p j with
      | none => rw [hpj] at hqj; cases hqj
      | some _ => rfl
    · simp only [hjd, if_false] at hqj
      rw [hqj]; rfl

/-- the fold (A) from any agreeing state over any duplicate-free remainder of the schedule -/
theorem sym_fold (p : Pop R) : ∀ (sched done : List Slot) (q : Pop R), (done ++ sched).Nodup → SymAgree p done q →
    RangeOn p sched → ∃ q', sched.foldlM symStep q = some q' ∧ SymAgree p (done ++ sched) q' := by
  intro sched
  induction sched with
  | nil => intro done q _ h _; exact ⟨q, rfl, by simpa using h⟩
  | cons k rest ih =>
    intro done q hnd h hr
    have hk : k ∉ done := by
      intro hmem
      have := (List.nodup_append.mp hnd).2.2 k hmem k (List.mem_cons_self ..)
      exact this rfl
    obtain ⟨q1, hq1, h1⟩ := sym_step p q done k h hk (fun n j => hr k (List.mem_cons_self ..) n j)
    have hnd' : ((done ++ [k]) ++ rest).Nodup := by simpa [List.append_assoc] using hnd
    obtain ⟨q', hq', h'⟩ := ih (done ++ [k]) q1 hnd' h1 (fun k' hk' => hr k' (List.mem_cons_of_mem _ hk'))
    refine ⟨q', ?_, by simpa [List.append_assoc] using h'⟩
    rw [List.foldlM_cons, hq1]
    exact hq'

/-- conversely a fold that is defined had every coupling of its schedule in range -/
theorem sym_fold_range (p : Pop R) : ∀ (sched done : List Slot) (q q' : Pop R), (done ++ sched).Nodup → SymAgree p done q →
    sched.foldlM symStep q = some q' → RangeOn p sched := by
  intro sched
  induction sched with
  | nil => intro done q q' _ _ _ k hk; cases hk
  | cons k rest ih =>
    intro done q q' hnd h hf
    have hk : k ∉ done := by
      intro hmem
      have := (List.nodup_append.mp hnd).2.2 k hmem k (List.mem_cons_self ..)
      exact this rfl
    rw [List.foldlM_cons] at hf
    cases hq1 : symStep q k with
    | none => rw [hq1] at hf; cases hf
    | some q1 =>
      rw [hq1] at hf
      have hrk := sym_step_range p q q1 done k h hk hq1
      obtain ⟨q1', hq1', h1⟩ := sym_step p q done k h hk hrk
      rw [hq1] at hq1'; cases hq1'
      have hnd' : ((done ++ [k]) ++ rest).Nodup := by simpa [List.append_assoc] using hnd
      have hrest := ih (done ++ [k]) q1 q' hnd' h1 hf
      intro k' hk' n j hn hu hc
      rcases List.mem_cons.mp hk' with e | e
      · subst e; exact hrk n j hn hu hc
      · exact hrest k' e n j hn hu hc

theorem rangeOn_slots (p : Pop R) : RangeOn p (slots p) ↔ RangeOK p := by
  constructor
  · intro h k n j hn hu hc
    exact h k (slots_mem p k n hn) n j hn hu hc
  · intro h k _ n j hn hu hc
    exact h k n j hn hu hc

/-- loop (A) is defined exactly when every coupling of a used node is in range, and its result is the pointwise
    map of the original table, with the shape of the original -/
theorem symmetrise_pointwise (p p' : Pop R) (h : symmetrise p = some p') :
    RangeOK p ∧ shape p' = shape p ∧ ∀ k : Slot, get p' k = (get p k).map (symNode p k) := by
  have hnd : ([] ++ slots p).Nodup := by simpa using slots_nodup p
  have hr := sym_fold_range p (slots p) [] p p' hnd (symAgree_init p) h
  obtain ⟨q', hq', hag⟩ := sym_fold p (slots p) [] p hnd (symAgree_init p) hr
  unfold symmetrise at h
  rw [h] at hq'; cases hq'
  refine ⟨(rangeOn_slots p).mp hr, hag.1, ?_⟩
  intro k
  rw [hag.2 k]
  simp only [List.nil_append]
  by_cases hk : k ∈ slots p
  · simp [hk]
  · simp only [hk, if_false]
    cases hg : get p k with
    | none => rfl
    | some n => exact absurd (slots_mem p k n hg) hk

theorem symmetrise_defined (p : Pop R) (h : RangeOK p) : ∃ p', symmetrise p = some p' := by
  have hnd : ([] ++ slots p).Nodup := by simpa using slots_nodup p
  obtain ⟨q', hq', _⟩ := sym_fold p (slots p) [] p hnd (symAgree_init p) ((rangeOn_slots p).mpr h)
  exact ⟨q', hq'⟩

/-! ### loop (B): midpoints -/

/-- what loop (B) makes of the node `n` of slot `k`, computed from the table `p` it starts from: both members of a
    pair living in different cells end at `(owner.pos + partner.pos) * 0.5`, the owner being the member in the cell
    with the greater index (operand order of the code) -/
def midNode (p : Pop R) (k : Slot) (n : CNode R) : CNode R :=
  if n.used then
    match n.coup with
    | none => n
    | some j =>
      match get p j with
      | none => n
      | some m =>
        if j.1 < k.1 then { n with pos := (n.pos + m.pos) * (half : R) }
        else if k.1 < j.1 then { n with pos := (m.pos + n.pos) * (half : R) }
        else n
  else n

/-- the slot whose visit moves the node `n` of slot `k` -/
def ownerOf (k : Slot) (n : CNode R) : Option Slot :=
  if n.used then
    match n.coup with
    | none => none
    | some j => if j.1 < k.1 then some k else if k.1 < j.1 then some j else none
  else none

/-- what loop (B) is specified for: every coupling of a used node is answered by a USED node of ANOTHER cell -/
def PairOK (p : Pop R) : Prop :=
  ∀ (k : Slot) (n : CNode R) (j : Slot), get p k = some n → n.used = true → n.coup = some j →
    ∃ m : CNode R, get p j = some m ∧ m.used = true ∧ m.coup = some k ∧ j.1 ≠ k.1

theorem midNode_used (p : Pop R) (k : Slot) (n : CNode R) : (midNode p k n).used = n.used := by
  unfold midNode
  split
  · split
    · rfl
    · split
      · rfl
      · split
        · rfl
        · split <;> rfl
  · rfl

theorem midNode_coup (p : Pop R) (k : Slot) (n : CNode R) : (midNode p k n).coup = n.coup := by
  unfold midNode
  split
  · split
    · rfl
    · split
      · rfl
      · split
        · rfl
        · split <;> rfl
  · rfl

theorem midNode_of_no_owner (p : Pop R) (k : Slot) (n : CNode R) (h : ownerOf k n = none) : midNode p k n = n := by
  unfold ownerOf at h
  unfold midNode
  by_cases hu : n.used = true
  · simp only [hu, if_true] at h ⊢
    cases hc : n.coup with
    | none => rfl
    | some j =>
      rw [hc] at h
      simp only at h ⊢
      by_cases h1 : j.1 < k.1
      · simp [h1] at h
      · by_cases h2 : k.1 < j.1
        · simp [h1, h2] at h
        · cases get p j <;> simp [h1, h2]
  · simp [hu]

/-- who can be the owner of a slot: a used node, coupled to a slot of a cell with a smaller index, and the slot is
    that node or its partner -/
theorem owner_char (p : Pop R) (hp : PairOK p) (s o : Slot) (n : CNode R) (hs : get p s = some n)
    (ho : ownerOf s n = some o) :
    ∃ (n1 : CNode R) (j : Slot), get p o = some n1 ∧ n1.used = true ∧ n1.coup = some j ∧ j.1 < o.1 ∧ (s = o ∨ s = j) := by
  unfold ownerOf at ho
  by_cases hu : n.used = true
  · simp only [hu, if_true] at ho
    cases hc : n.coup with
    | none => rw [hc] at ho; cases ho
    | some j =>
      rw [hc] at ho
      simp only at ho
      by_cases h1 : j.1 < s.1
      · simp only [h1, if_true, Option.some.injEq] at ho
        subst ho
        exact ⟨n, j, hs, hu, hc, h1, Or.inl rfl⟩
      · by_cases h2 : s.1 < j.1
        · simp only [h1, h2, if_false, if_true, Option.some.injEq] at ho
          subst ho
          obtain ⟨m, hm, hmu, hmc, _⟩ := hp s n j hs hu hc
          exact ⟨m, s, hm, hmu, hmc, h2, Or.inr rfl⟩
        · simp [h1, h2] at ho
  · simp [hu] at ho

/-- invariant of the fold (B): a slot holds its final value once its owner has been visited, its original value
    before -/
def MidAgree (p : Pop R) (done : List Slot) (q : Pop R) : Prop :=
  shape q = shape p ∧ ∀ s : Slot, get q s = (get p s).map (fun n =>
    match ownerOf s n with
    | some o => if o ∈ done then midNode p s n else n
    | none => n)

theorem midAgree_init (p : Pop R) : MidAgree p [] p := by
  refine ⟨rfl, fun s => ?_⟩
  cases get p s with
  | none => rfl
  | some n =>
    simp only [Option.map_some]
    cases ownerOf s n <;> simp

/-- whatever the invariant says the current state holds at a slot, it has the flags and coupling of the original -/
theorem midAgree_table (p q : Pop R) (done : List Slot) (h : MidAgree p done q) (s : Slot) (n : CNode R)
    (hs : get p s = some n) : ∃ n' : CNode R, get q s = some n' ∧ n'.used = n.used ∧ n'.coup = n.coup := by
  rw [h.2 s, hs]
  simp only [Option.map_some]
  cases ownerOf s n with
  | none => exact ⟨n, rfl, rfl, rfl⟩
  | some o =>
    simp only
    by_cases ho : o ∈ done
    · simp only [ho, if_true]; exact ⟨_, rfl, midNode_used p s n, midNode_coup p s n⟩
    · simp only [ho, if_false]; exact ⟨n, rfl, rfl, rfl⟩

/-- a slot whose owner has not been visited holds its original node -/
theorem midAgree_fresh (p q : Pop R) (done : List Slot) (h : MidAgree p done q) (s o : Slot) (n : CNode R)
    (hs : get p s = some n) (ho : ownerOf s n = some o) (hod : o ∉ done) : get q s = some n := by
  rw [h.2 s, hs]; simp [ho, hod]

/-- a visit that does not fire leaves the invariant true for the longer prefix -/
theorem midAgree_skip (p : Pop R) (hp : PairOK p) (q : Pop R) (done : List Slot) (k : Slot) (h : MidAgree p done q)
    (hnf : ¬ ∃ (n1 : CNode R) (j : Slot), get p k = some n1 ∧ n1.used = true ∧ n1.coup = some j ∧ j.1 < k.1) :
    MidAgree p (done ++ [k]) q := by
  refine ⟨h.1, fun s => ?_⟩
  rw [h.2 s]
  cases hs : get p s with
  | none => rfl
  | some n =>
    simp only [Option.map_some]
    cases ho : ownerOf s n with
    | none => rfl
    | some o =>
      simp only
      have hok : o ≠ k := by
        intro e; subst e
        obtain ⟨n1, j, h1, h2, h3, h4, _⟩ := owner_char p hp s o n hs ho
        exact hnf ⟨n1, j, h1, h2, h3, h4⟩
      simp [hok]

/-! equations of one visit of loop (B) -/

theorem midStep_fire (q : Pop R) (k j : Slot) (n1 n2 : CNode R) (hk : get q k = some n1) (hu : n1.used = true)
    (hc : n1.coup = some j) (hlt : j.1 < k.1) (hj : get q j = some n2) :
    midStep q k = some (set (set q k { n1 with pos := (n1.pos + n2.pos) * (half : R) }) j
      { n2 with pos := (n1.pos + n2.pos) * (half : R) }) := by
  unfold midStep; simp [hk, hu, hc, hlt, hj]

theorem midStep_skip (q : Pop R) (k : Slot)
    (h : ¬ ∃ (n1 : CNode R) (j : Slot), get q k = some n1 ∧ n1.used = true ∧ n1.coup = some j ∧ j.1 < k.1) :
    midStep q k = some q := by
  unfold midStep
  cases hk : get q k with
  | none => rfl
  | some n1 =>
    simp only
    by_cases hu : n1.used = true
    · rw [if_pos hu]
      cases hc : n1.coup with
      | none => rfl
      | some j =>
        simp only
        by_cases hlt : j.1 < k.1
        · exact absurd ⟨n1, j, hk, hu, hc, hlt⟩ h
        · rw [if_neg hlt]
    · rw [if_neg hu]

/-- one visit of loop (B) from a state that agrees -/
theorem mid_step (p : Pop R) (hp : PairOK p) (q : Pop R) (done : List Slot) (k : Slot) (h : MidAgree p done q)
    (hk : k ∉ done) : ∃ q1, midStep q k = some q1 ∧ MidAgree p (done ++ [k]) q1 := by
  by_cases hf : ∃ (n1 : CNode R) (j : Slot), get p k = some n1 ∧ n1.used = true ∧ n1.coup = some j ∧ j.1 < k.1
  · obtain ⟨n1, j, hpk, hu, hc, hlt⟩ := hf
    obtain ⟨m, hm, hmu, hmc, hne⟩ := hp k n1 j hpk hu hc
    -- the owner of both k and j is k, which has not been visited: the state holds the original nodes
    have hok : ownerOf k n1 = some k := by unfold ownerOf; simp [hu, hc, hlt]
    have hoj : ownerOf j m = some k := by
      unfold ownerOf
      have : ¬ k.1 < j.1 := Nat.lt_asymm hlt
      simp [hmu, hmc, hlt, this]
    have hqk : get q k = some n1 := midAgree_fresh p q done h k k n1 hpk hok hk
    have hqj : get q j = some m := midAgree_fresh p q done h j k m hm hoj hk
    have hjk : j ≠ k := by intro e; rw [e] at hlt; exact Nat.lt_irrefl _ hlt
    refine ⟨_, midStep_fire q k j n1 m hqk hu hc hlt hqj, ?_, ?_⟩
    · rw [shape_set, shape_set]; exact h.1
    · intro s
      by_cases hsj : s = j
      · subst hsj
        have hex : get (set q k { n1 with pos := (n1.pos + m.pos) * (half : R) }) s = some m := by
          rw [get_set_ne _ hjk]; exact hqj
        rw [get_set_eq _ hex, hm]
        simp only [Option.map_some, hoj, List.mem_append, List.mem_singleton, or_true, if_true]
        unfold midNode
        have : ¬ k.1 < s.1 := Nat.lt_asymm hlt
        simp [hmu, hmc, hpk, this, hlt]
      · rw [get_set_ne _ hsj]
        by_cases hsk : s = k
        · subst hsk
          rw [get_set_eq _ hqk, hpk]
          simp only [Option.map_some, hok, List.mem_append, List.mem_singleton, or_true, if_true]
          unfold midNode
          simp [hu, hc, hm, hlt]
        · rw [get_set_ne _ hsk, h.2 s]
          cases hs : get p s with
          | none => rfl
          | some n =>
            simp only [Option.map_some]
            cases ho : ownerOf s n with
            | none => rfl
            | some o =>
              simp only
              have hok' : o ≠ k := by
                intro e; subst e
                obtain ⟨n2, j2, h1, _, h3, _, h5⟩ := owner_char p hp s o n hs ho
                rw [hpk] at h1; cases h1
                rw [hc] at h3; cases h3
                rcases h5 with h5 | h5
                · exact hsk h5
                · exact hsj h5
              simp [hok']
  · refine ⟨q, midStep_skip q k ?_, midAgree_skip p hp q done k h hf⟩
    rintro ⟨n', j, h1, h2, h3, h4⟩
    cases hpk : get p k with
    | none =>
      have : get q k = none := by rw [h.2 k, hpk]; rfl
      rw [this] at h1; cases h1
    | some n1 =>
      obtain ⟨n'', hn'', hnu, hnc⟩ := midAgree_table p q done h k n1 hpk
      rw [hn''] at h1; cases h1
      exact hf ⟨n1, j, hpk, hnu.symm.trans h2, hnc.symm.trans h3, h4⟩

theorem mid_fold (p : Pop R) (hp : PairOK p) : ∀ (sched done : List Slot) (q : Pop R), (done ++ sched).Nodup →
    MidAgree p done q → ∃ q', sched.foldlM midStep q = some q' ∧ MidAgree p (done ++ sched) q' := by
  intro sched
  induction sched with
  | nil => intro done q _ h; exact ⟨q, rfl, by simpa using h⟩
  | cons k rest ih =>
    intro done q hnd h
    have hk : k ∉ done := by
      intro hmem
      have := (List.nodup_append.mp hnd).2.2 k hmem k (List.mem_cons_self ..)
      exact this rfl
    obtain ⟨q1, hq1, h1⟩ := mid_step p hp q done k h hk
    have hnd' : ((done ++ [k]) ++ rest).Nodup := by simpa [List.append_assoc] using hnd
    obtain ⟨q', hq', h'⟩ := ih (done ++ [k]) q1 hnd' h1
    refine ⟨q', ?_, by simpa [List.append_assoc] using h'⟩
    rw [List.foldlM_cons, hq1]
    exact hq'

/-- loop (B) on a table that satisfies `PairOK`: defined, shape kept, result = pointwise map -/
theorem midpoints_pointwise (p : Pop R) (hp : PairOK p) :
    ∃ p', midpoints p = some p' ∧ shape p' = shape p ∧ ∀ k : Slot, get p' k = (get p k).map (midNode p k) := by
  have hnd : ([] ++ slots p).Nodup := by simpa using slots_nodup p
  obtain ⟨q', hq', hag⟩ := mid_fold p hp (slots p) [] p hnd (midAgree_init p)
  refine ⟨q', hq', hag.1, ?_⟩
  intro k
  rw [hag.2 k]
  cases hk : get p k with
  | none => rfl
  | some n =>
    simp only [Option.map_some, List.nil_append]
    cases ho : ownerOf k n with
    | none => simp only; rw [midNode_of_no_owner p k n ho]
    | some o =>
      simp only
      obtain ⟨n1, _, h1, _⟩ := owner_char p hp k o n hk ho
      have : o ∈ slots p := slots_mem p o n1 h1
      simp [this]

/-! ### loop (B) never touches flags or couplings (no hypothesis) -/

/-- the part of a node the position update of C03 reads as immutable data -/
def tbl (n : CNode R) : Bool × Option Slot := (n.used, n.coup)

/-- writing two distinct existing slots with nodes that carry the same flags and couplings changes neither the shape
    nor the table -/
theorem set2_table (q : Pop R) (k j : Slot) (n1 n2 A B : CNode R) (hk : get q k = some n1) (hj : get q j = some n2)
    (hjk : j ≠ k) (hA : tbl A = tbl n1) (hB : tbl B = tbl n2) :
    shape (set (set q k A) j B) = shape q ∧ ∀ s : Slot, (get (set (set q k A) j B) s).map tbl = (get q s).map tbl := by
  refine ⟨by rw [shape_set, shape_set], fun s => ?_⟩
  have hex : get (set q k A) j = some n2 := by
    rw [get_set_ne _ hjk]; exact hj
  by_cases hsj : s = j
  · subst hsj
    rw [get_set_eq _ hex, hj]; simp [hB]
  · rw [get_set_ne _ hsj]
    by_cases hsk : s = k
    · subst hsk
      rw [get_set_eq _ hk, hk]; simp [hA]
    · rw [get_set_ne _ hsk]

theorem midStep_table (q q1 : Pop R) (k : Slot) (h : midStep q k = some q1) :
    shape q1 = shape q ∧ ∀ s : Slot, (get q1 s).map tbl = (get q s).map tbl := by
  unfold midStep at h
  cases hk : get q k with
  | none => rw [hk] at h; cases h; exact ⟨rfl, fun _ => rfl⟩
  | some n1 =>
    rw [hk] at h
    simp only at h
    by_cases hu : n1.used = true
    · rw [if_pos hu] at h
      cases hc : n1.coup with
      | none => rw [hc] at h; cases h; exact ⟨rfl, fun _ => rfl⟩
      | some j =>
        rw [hc] at h
        simp only at h
        by_cases hlt : j.1 < k.1
        · rw [if_pos hlt] at h
          cases hj : get q j with
          | none => rw [hj] at h; cases h
          | some n2 =>
            rw [hj] at h
            simp only [Option.some.injEq] at h
            subst h
            have hjk : j ≠ k := by intro e; rw [e] at hlt; exact Nat.lt_irrefl _ hlt
            exact set2_table q k j n1 n2 _ _ hk hj hjk (by simp [tbl, hc]) rfl
        · rw [if_neg hlt] at h; cases h; exact ⟨rfl, fun _ => rfl⟩
    · rw [if_neg hu] at h; cases h; exact ⟨rfl, fun _ => rfl⟩

theorem midFold_table : ∀ (sched : List Slot) (q q' : Pop R), sched.foldlM midStep q = some q' →
    shape q' = shape q ∧ ∀ s : Slot, (get q' s).map tbl = (get q s).map tbl := by
  intro sched
  induction sched with
  | nil => intro q q' h; cases h; exact ⟨rfl, fun _ => rfl⟩
  | cons k rest ih =>
    intro q q' h
    rw [List.foldlM_cons] at h
    cases hq1 : midStep q k with
    | none => rw [hq1] at h; cases h
    | some q1 =>
      rw [hq1] at h
      obtain ⟨a1, a2⟩ := midStep_table q q1 k hq1
      obtain ⟨b1, b2⟩ := ih q1 q' h
      exact ⟨b1.trans a1, fun s => (b2 s).trans (a2 s)⟩

theorem midpoints_table (p p' : Pop R) (h : midpoints p = some p') :
    shape p' = shape p ∧ ∀ s : Slot, (get p' s).map tbl = (get p s).map tbl :=
  midFold_table (slots p) p p' h

end Simu.Coupling

