import SimuVerif.Lemmas.SurfaceSplitSwap
/-
  Soundness of the executable checkers of `Model/Surface.lean` (`closedSimpleB`, `nonDegB`) that the drivers evaluate:
  a surface they accept satisfies the propositional invariant the theorems are about.
-/
namespace Simu.Surface

theorem heM_eq_coe (T : List Tri) : heM T = ((he T : List HE) : Multiset HE) := by
  induction T with
  | nil => simp [heM, he]
  | cons t T ih =>
    rw [heM_cons, ih]
    simp only [he, List.flatMap_cons, heTri, heTriM]
    rfl

theorem count_inst (l : List HE) (a : HE) :
    @List.count HE instBEqProd a l = @List.count HE instBEqOfDecidableEq a l := by
  induction l with
  | nil => rfl
  | cons x xs ih =>
    rw [@List.count_cons HE instBEqProd, @List.count_cons HE instBEqOfDecidableEq, ih]
    congr 1
    by_cases h : x = a
    · subst h; simp
    · have h1 : (@BEq.beq HE instBEqProd x a) = false := by simpa using h
      have h2 : (@BEq.beq HE instBEqOfDecidableEq x a) = false := by simpa using h
      rw [h1, h2]

theorem nonDeg_of_B {T : List Tri} (h : nonDegB T = true) : NonDeg T := by
  intro t ht
  have := List.all_eq_true.1 h t ht
  simp only [Bool.and_eq_true, bne_iff_ne, ne_eq] at this
  exact ⟨this.1.1, this.1.2, this.2⟩

theorem closedSimple_of_B {T : List Tri} (h : closedSimpleB T = true) : Closed T ∧ Simple T := by
  unfold closedSimpleB at h
  simp only [List.all_eq_true, Bool.and_eq_true, beq_iff_eq] at h
  have hc : ∀ e ∈ he T, (he T).count e = 1 ∧ (he T).count (e.2, e.1) = 1 := h
  constructor
  · rw [closed_iff_count]
    intro x y
    rw [heM_eq_coe, Multiset.coe_count, Multiset.coe_count]
    by_cases hxy : (x, y) ∈ he T
    · obtain ⟨h1, h2⟩ := hc (x, y) hxy
      rw [← count_inst, ← count_inst]; exact h1.trans h2.symm
    · by_cases hyx : (y, x) ∈ he T
      · obtain ⟨_, h2⟩ := hc (y, x) hyx
        exact absurd (List.count_pos_iff.1 (by simp only at h2; omega)) hxy
      · rw [← count_inst, ← count_inst]; exact (List.count_eq_zero_of_not_mem hxy).trans (List.count_eq_zero_of_not_mem hyx).symm
  · unfold Simple
    rw [heM_eq_coe, Multiset.coe_nodup]
    rw [List.nodup_iff_count_le_one]
    intro e
    have hk : @List.count HE instBEqProd e (he T) ≤ 1 := by
      by_cases he' : e ∈ he T
      · exact le_of_eq (hc e he').1
      · rw [List.count_eq_zero_of_not_mem he']; omega
    exact hk

theorem inv_of_B {T : List Tri} (h1 : closedSimpleB T = true) (h2 : nonDegB T = true) : Inv T :=
  ⟨nonDeg_of_B h2, (closedSimple_of_B h1).2, (closedSimple_of_B h1).1⟩
end Simu.Surface
