import SimuVerif.Lemmas.RemeshMerge4
/-
  Part 5: the index after the second walk and the two `delete_face` calls is again sound and complete (`final2`);
  fans under renaming (`FanF.rename`).
-/
set_option linter.unusedSectionVars false
set_option linter.unusedVariables false
set_option linter.unusedSimpArgs false
namespace Simu.Remesh
open Simu Simu.Surface
open Simu.C11 (bind_ok newSlot)

theorem sideK_set_none (L : List (Option Tri)) (i g q : Nat) :
    SideK (L.set i none) g q ↔ (SideK L g q ∧ g ≠ i) := by
  unfold SideK
  rw [List.getElem?_set]
  by_cases h : i = g
  · subst h
    rw [if_pos rfl]
    constructor
    · rintro ⟨t, ht, _⟩
      split at ht <;> cases ht
    · rintro ⟨_, hne⟩; exact absurd rfl hne
  · rw [if_neg h]
    exact ⟨fun hh => ⟨hh, fun e => h e.symm⟩, fun hh => hh.1⟩

/-- the edge `{old,new}` becomes the loop `{new,new}` -/
theorem loop_side_renT {old new : Nat} {t : Tri} (hon : old ≠ new) (h : Edge.keyOf old new ∈ sideKeys t) :
    Edge.keyOf new new ∈ sideKeys (renT old new t) := by
  rw [mem_sideKeys] at h
  rw [sideKeys_renT]
  rcases h with h | h | h
  · exact Or.inl ((side_rn_loop hon).2 (Or.inr (Or.inl h)))
  · exact Or.inr (Or.inl ((side_rn_loop hon).2 (Or.inr (Or.inl h))))
  · exact Or.inr (Or.inr ((side_rn_loop hon).2 (Or.inr (Or.inl h))))

section
variable {L1 : List (Option Tri)} {start : Edge} {old new k : Nat} {F N : Nat → Nat}

/-- the relation of the index after the second walk, minus the sides of the two doomed faces, is the side relation
    of the renamed slot list in which the two doomed faces have been deleted -/
theorem final2 (H : Walk2Hyp L1 start old new k F N) {t1 tk : Tri}
    (h1 : L1[F 1]? = some (some t1)) (hk : L1[F k]? = some (some tk)) (g q : Nat) :
    ((Pj old new N (SideK L1) (Q2 old new k F N (SideK L1)) k g q ∧
        ¬ (g = F k ∧ q ∈ sideKeys (renT old new tk))) ∧ ¬ (g = F 1 ∧ q ∈ sideKeys (renT old new t1))) ↔
      SideK (((L1.map (Option.map (renT old new))).set (F k) none).set (F 1) none) g q := by
  have hfan := H.fan
  have hk3 := H.k3
  have hon := H.hon
  rw [sideK_set_none, sideK_set_none, sideK_map]
  by_cases hg : ∃ m, m < k ∧ g = F (m + 1)
  · obtain ⟨m, hm, rfl⟩ := hg
    obtain ⟨t, ht, hT⟩ := hfan.tri m hm
    by_cases hm0 : m = 0
    · -- the doomed face `F 1`
      subst hm0
      have ht' : L1[F 1]? = some (some t) := ht
      rw [h1] at ht'; cases ht'
      constructor
      · rintro ⟨⟨hP, _⟩, hn⟩
        exfalso
        apply hn
        refine ⟨rfl, ?_⟩
        rcases hP with ⟨hK, ⟨i, hi, hq, hQ⟩ | ⟨hK', hS⟩⟩
        · by_cases hi0 : i = 0
          · subst hi0
            rw [hq, H.n0]
            apply loop_side_renT hon
            have := (hT.sideKeys_iff (Edge.keyOf old (N 0))).2 (Or.inl rfl)
            rw [H.n0] at this; exact this
          · unfold Q2 at hQ
            rw [if_neg hi0] at hQ
            exact absurd rfl hQ.2.1
        · rcases (hfan.side_at hm q).1 hS with he | he | he
          · exact absurd he (hK 0 hm)
          · exact absurd he (hK (0 + 1) (by omega))
          · rw [H.n0] at he; exact absurd he (hK' (0 + 1) (by omega))
      · rintro ⟨_, hne⟩; exact absurd rfl hne
    · by_cases hmk : m + 1 = k
      · -- the doomed face `F k`
        have ht' : L1[F k]? = some (some t) := by rw [← hmk]; exact ht
        rw [hk] at ht'; cases ht'
        constructor
        · rintro ⟨⟨hP, hn⟩, _⟩
          exfalso
          apply hn
          refine ⟨by rw [hmk], ?_⟩
          rcases hP with ⟨hK, ⟨i, hi, hq, hQ⟩ | ⟨hK', hS⟩⟩
          · by_cases hi0 : i = 0
            · subst hi0
              rw [hq, H.n0]
              apply loop_side_renT hon
              have := (hT.sideKeys_iff (Edge.keyOf old (N (m + 1)))).2 (Or.inr (Or.inl rfl))
              rw [hmk, hfan.closeN, H.n0] at this; exact this
            · unfold Q2 at hQ
              rw [if_neg hi0] at hQ
              exact absurd (by rw [hmk]) hQ.2.2
          · rcases (hfan.side_at hm q).1 hS with he | he | he
            · exact absurd he (hK m hm)
            · rw [hmk, hfan.closeN] at he; exact absurd he (hK 0 (by omega))
            · rw [hmk, hfan.closeN, H.n0, Edge.keyOf_comm] at he; exact absurd he (hK' m hm)
        · rintro ⟨⟨_, hne⟩, _⟩; exact absurd (by rw [hmk]) hne
      · -- a surviving face of the fan
        have hm1 : m + 1 < k := by omega
        have gk : F (m + 1) ≠ F k := by
          intro he
          have := hfan.injF (m + 1) k (by omega) (by omega) (by omega) (by omega) he; omega
        have g1 : F (m + 1) ≠ F 1 := by
          intro he
          have := hfan.injF (m + 1) 1 (by omega) (by omega) (by omega) (by omega) he; omega
        have g0 : F (m + 1) ≠ F 0 := by rw [hfan.closeF]; exact gk
        have hn1 : N m ≠ new := by
          intro he; rw [← H.n0] at he
          have := hfan.injN m 0 hm (by omega) he; omega
        have hn2 : N (m + 1) ≠ new := by
          intro he; rw [← H.n0] at he
          have := hfan.injN (m + 1) 0 hm1 (by omega) he; omega
        have hT' := isTri_renT (new := new) hT hn1 hn2
        have ho1 : N m ≠ old := hfan.N_ne hm
        have ho2 : N (m + 1) ≠ old := hfan.N_ne hm1
        have hE1 : ∀ z, Edge.keyOf (N m) (N (m + 1)) ≠ Edge.keyOf old z := by
          intro z he
          rcases Edge.keyOf_eq_iff.1 he with ⟨a1, _⟩ | ⟨_, a2⟩
          · exact ho1 a1
          · exact ho2 a2
        have hE2 : ∀ z, Edge.keyOf (N m) (N (m + 1)) ≠ Edge.keyOf new z := by
          intro z he
          rcases Edge.keyOf_eq_iff.1 he with ⟨a1, _⟩ | ⟨_, a2⟩
          · exact hn1 a1
          · exact hn2 a2
        have hnoNew : ∀ i, 1 ≤ i → i < k → ¬ SideK L1 (F (m + 1)) (Edge.keyOf new (N i)) := by
          intro i hi1 hi hs
          have := (hfan.new_side H.n0 hi1 hi hm).1 hs
          omega
        constructor
        · rintro ⟨⟨⟨hK, hP⟩, _⟩, _⟩
          refine ⟨⟨⟨t, ht, (hT'.sideKeys_iff q).2 ?_⟩, gk⟩, g1⟩
          rcases hP with ⟨i, hi, hq, hQ⟩ | ⟨hK', hS⟩
          · by_cases hi0 : i = 0
            · subst hi0
              unfold Q2 at hQ
              rw [if_pos rfl] at hQ
              rcases hQ with he | he
              · exact absurd he g0
              · exact absurd he g1
            · unfold Q2 at hQ
              rw [if_neg hi0] at hQ
              rcases hQ.1 with hs | hs
              · exact absurd hs (hnoNew i (by omega) hi)
              · rcases (hfan.side_at hm _).1 hs with he | he | he
                · have := hfan.K_inj hi hm he
                  subst this
                  exact Or.inl hq
                · have := hfan.K_inj hi hm1 he
                  subst this
                  exact Or.inr (Or.inl hq)
                · exact absurd he.symm (hE1 _)
          · rcases (hfan.side_at hm q).1 hS with he | he | he
            · exact absurd he (hK m hm)
            · exact absurd he (hK (m + 1) hm1)
            · exact Or.inr (Or.inr he)
        · rintro ⟨⟨⟨t', ht', hq⟩, _⟩, _⟩
          rw [ht] at ht'; cases ht'
          refine ⟨⟨?_, fun hh => gk hh.1⟩, fun hh => g1 hh.1⟩
          rcases (hT'.sideKeys_iff q).1 hq with he | he | he
          · subst he
            refine ⟨fun i' _ => hfan.KK' hon hm, Or.inl ⟨m, hm, rfl, ?_⟩⟩
            unfold Q2
            rw [if_neg hm0]
            exact ⟨Or.inr ((hfan.side_at hm _).2 (Or.inl rfl)), g1, gk⟩
          · subst he
            refine ⟨fun i' _ => hfan.KK' hon hm1, Or.inl ⟨m + 1, hm1, rfl, ?_⟩⟩
            unfold Q2
            rw [if_neg (by omega)]
            exact ⟨Or.inr ((hfan.side_at hm _).2 (Or.inr (Or.inl rfl))), g1, gk⟩
          · subst he
            exact ⟨fun i' _ => hE1 _, Or.inr ⟨fun i' _ => hE2 _, (hfan.side_at hm _).2 (Or.inr (Or.inr rfl))⟩⟩
  · -- a face outside the fan
    have hno : ∀ t, L1[g]? = some (some t) → hasNode t old = false := by
      intro t ht
      rw [Bool.eq_false_iff]
      intro ho
      obtain ⟨j, hj, he⟩ := hfan.all g t ht ho
      exact hg ⟨j, hj, he⟩
    have g1 : g ≠ F 1 := fun he => hg ⟨0, by omega, he⟩
    have gk : g ≠ F k := fun he => hg ⟨k - 1, by omega, by rw [he]; congr 1; omega⟩
    have g0 : g ≠ F 0 := by rw [hfan.closeF]; exact gk
    constructor
    · rintro ⟨⟨⟨hK, hP⟩, _⟩, _⟩
      refine ⟨⟨?_, gk⟩, g1⟩
      rcases hP with ⟨i, hi, hq, hQ⟩ | ⟨hK', ⟨t, ht, hs⟩⟩
      · by_cases hi0 : i = 0
        · subst hi0
          unfold Q2 at hQ
          rw [if_pos rfl] at hQ
          rcases hQ with he | he
          · exact absurd he g0
          · exact absurd he g1
        · unfold Q2 at hQ
          rw [if_neg hi0] at hQ
          rcases hQ.1 with ⟨t, ht, hs⟩ | ⟨t, ht, hs⟩
          · exact ⟨t, ht, by rw [renT_of_not (hno t ht), hq]; exact hs⟩
          · have := (hasNode_of_sideKey hs).1
            rw [hno t ht] at this; cases this
      · exact ⟨t, ht, by rw [renT_of_not (hno t ht)]; exact hs⟩
    · rintro ⟨⟨⟨t, ht, hq⟩, _⟩, _⟩
      rw [renT_of_not (hno t ht)] at hq
      refine ⟨⟨⟨fun i' _ he => ?_, ?_⟩, fun hh => gk hh.1⟩, fun hh => g1 hh.1⟩
      · rw [he] at hq
        have := (hasNode_of_sideKey hq).1
        rw [hno t ht] at this; cases this
      · by_cases hex : ∃ i, i < k ∧ q = Edge.keyOf new (N i)
        · obtain ⟨i, hi, he⟩ := hex
          by_cases hi0 : i = 0
          · subst hi0
            rw [he, H.n0] at hq
            exact (H.nd g ⟨t, ht, hq⟩).elim
          · refine Or.inl ⟨i, hi, he, ?_⟩
            unfold Q2
            rw [if_neg hi0]
            exact ⟨Or.inl ⟨t, ht, by rw [← he]; exact hq⟩, g1, gk⟩
        · exact Or.inr ⟨fun i' hi' he => hex ⟨i', hi', he⟩, ⟨t, ht, hq⟩⟩

end

/-! ## fans under renaming -/

theorem rn_inj {old new u w : Nat} (hu : u ≠ new) (hw : w ≠ new) (h : rn old new u = rn old new w) : u = w := by
  unfold rn at h
  split_ifs at h <;> omega

theorem rn_of_ne {old new u : Nat} (h : u ≠ old) : rn old new u = u := by
  unfold rn; rw [if_neg h]

theorem isTri_renT_gen {t : Tri} {old new v x y : Nat} (hT : IsTri t v x y) (hnew : hasNode t new = false) :
    IsTri (renT old new t) (rn old new v) (rn old new x) (rn old new y) := by
  have nv : v ≠ new := by
    intro he; rw [(hT.hasNode_iff' new).2 (Or.inl he.symm)] at hnew; cases hnew
  have nx : x ≠ new := by
    intro he; rw [(hT.hasNode_iff' new).2 (Or.inr (Or.inl he.symm))] at hnew; cases hnew
  have ny : y ≠ new := by
    intro he; rw [(hT.hasNode_iff' new).2 (Or.inr (Or.inr he.symm))] at hnew; cases hnew
  obtain ⟨p, q, s⟩ := t
  refine ⟨fun he => hT.1 (rn_inj nv nx he), fun he => hT.2.1 (rn_inj nv ny he),
    fun he => hT.2.2.1 (rn_inj nx ny he), ?_, ?_, ?_⟩ <;>
  · rw [hasNode_iff]
    unfold renT
    rcases hT.perm with ⟨e1, e2, e3⟩ | ⟨e1, e2, e3⟩ | ⟨e1, e2, e3⟩ | ⟨e1, e2, e3⟩ | ⟨e1, e2, e3⟩ | ⟨e1, e2, e3⟩ <;>
      simp [e1, e2, e3]

theorem hasNode_of_renT {old new v : Nat} {t : Tri} (hvn : v ≠ new) (h : hasNode (renT old new t) v = true) :
    hasNode t v = true := by
  obtain ⟨p, q, s⟩ := t
  rw [hasNode_iff] at h ⊢
  unfold renT rn at h
  dsimp only at h ⊢
  split_ifs at h <;> omega

theorem getElem?_map_some {L : List (Option Tri)} {f : Tri → Tri} {g : Nat} {t' : Tri}
    (h : (L.map (Option.map f))[g]? = some (some t')) : ∃ t, L[g]? = some (some t) ∧ t' = f t := by
  rw [List.getElem?_map] at h
  cases hL : L[g]? with
  | none => rw [hL] at h; cases h
  | some o =>
    rw [hL] at h
    cases o with
    | none => cases h
    | some t => exact ⟨t, rfl, by cases h; rfl⟩

/-- the fan around `v` survives the renaming of another node `old` to a fresh node `new` -/
theorem FanF.rename {L : List (Option Tri)} {v k : Nat} {F N : Nat → Nat} {old new : Nat} (h : FanF L v k F N)
    (hvo : v ≠ old) (hvn : v ≠ new)
    (hfresh : ∀ (g : Nat) (t : Tri), L[g]? = some (some t) → hasNode t new = false) :
    FanF (L.map (Option.map (renT old new))) v k F (fun j => rn old new (N j)) := by
  have hNnew : ∀ j, j < k → N j ≠ new := by
    intro j hj he
    obtain ⟨t, ht, hT⟩ := h.tri j hj
    have := hfresh _ _ ht
    rw [(hT.hasNode_iff' new).2 (Or.inr (Or.inl he.symm))] at this; cases this
  refine ⟨?_, ?_, h.closeF, h.injF, ?_, ?_⟩
  · intro j hj
    obtain ⟨t, ht, hT⟩ := h.tri j hj
    refine ⟨renT old new t, by rw [List.getElem?_map, ht]; rfl, ?_⟩
    have := isTri_renT_gen (old := old) hT (hfresh _ _ ht)
    rw [rn_of_ne hvo] at this
    exact this
  · show rn old new (N k) = rn old new (N 0)
    rw [h.closeN]
  · intro i j hi hj he
    exact h.injN i j hi hj (rn_inj (hNnew i hi) (hNnew j hj) he)
  · intro g t' ht' hv
    obtain ⟨t, ht, rfl⟩ := getElem?_map_some ht'
    exact h.all g t ht (hasNode_of_renT hvn hv)

theorem IsTri.no_loop_side {t : Tri} {v x y : Nat} (hT : IsTri t v x y) : Edge.keyOf v v ∉ sideKeys t := by
  intro h
  rw [hT.sideKeys_iff] at h
  have h1 := hT.1
  have h2 := hT.2.1
  simp only [Edge.keyOf_eq_iff] at h
  omega

theorem side_new_of_renT {old new z : Nat} {t : Tri} (hon : old ≠ new) (hzo : z ≠ old) (hzn : z ≠ new)
    (h : Edge.keyOf new z ∈ sideKeys (renT old new t)) :
    Edge.keyOf old z ∈ sideKeys t ∨ Edge.keyOf new z ∈ sideKeys t := by
  rw [sideKeys_renT] at h
  rw [mem_sideKeys, mem_sideKeys]
  rcases h with h | h | h
  · rcases (side_rn_new hon hzo hzn).1 h with h | h
    · exact Or.inl (Or.inl h)
    · exact Or.inr (Or.inl h)
  · rcases (side_rn_new hon hzo hzn).1 h with h | h
    · exact Or.inl (Or.inr (Or.inl h))
    · exact Or.inr (Or.inr (Or.inl h))
  · rcases (side_rn_new hon hzo hzn).1 h with h | h
    · exact Or.inl (Or.inr (Or.inr h))
    · exact Or.inr (Or.inr (Or.inr h))

theorem side_loop_of_renT {old new : Nat} {t : Tri} (hon : old ≠ new)
    (h : Edge.keyOf new new ∈ sideKeys (renT old new t)) :
    Edge.keyOf old old ∈ sideKeys t ∨ Edge.keyOf old new ∈ sideKeys t ∨ Edge.keyOf new new ∈ sideKeys t := by
  rw [sideKeys_renT] at h
  rw [mem_sideKeys, mem_sideKeys, mem_sideKeys]
  rcases h with h | h | h
  · rcases (side_rn_loop hon).1 h with h | h | h
    · exact Or.inl (Or.inl h)
    · exact Or.inr (Or.inl (Or.inl h))
    · exact Or.inr (Or.inr (Or.inl h))
  · rcases (side_rn_loop hon).1 h with h | h | h
    · exact Or.inl (Or.inr (Or.inl h))
    · exact Or.inr (Or.inl (Or.inr (Or.inl h)))
    · exact Or.inr (Or.inr (Or.inr (Or.inl h)))
  · rcases (side_rn_loop hon).1 h with h | h | h
    · exact Or.inl (Or.inr (Or.inr h))
    · exact Or.inr (Or.inl (Or.inr (Or.inr h)))
    · exact Or.inr (Or.inr (Or.inr (Or.inr h)))

/-- the second face id of an entry whose faces are `p` (first) and `q` -/
theorem second_face {e : Edge} {p q : Nat} (hw : WfFaces e) (hf : ∀ g, e.hasFace g = true ↔ (g = p ∨ g = q))
    (hpq : p ≠ q) (h1 : e.f1 = some p) : e.f2 = some q := by
  have hq := (hf q).2 (Or.inr rfl)
  rw [Edge.hasFace_iff, h1] at hq
  rcases hq with hq | hq
  · exact absurd (Option.some.inj hq) hpq
  · exact hq

/-- drop the triangles with `p`, map the others -/
def colOpt (p : Tri → Bool) (f : Tri → Tri) (o : Option Tri) : Option Tri :=
  o.bind (fun t => if p t = true then none else some (f t))

/-- `live` of a slot list in which some triangles are dropped and the others are mapped -/
theorem live_collapse (p : Tri → Bool) (f : Tri → Tri) : ∀ L : List (Option Tri),
    live (L.map (colOpt p f)) = ((live L).filter (fun t => !p t)).map f
  | [] => rfl
  | none :: L => by
    have ih := live_collapse p f L
    have e1 : live (none :: L) = live L := rfl
    have e2 : live ((none :: L).map (colOpt p f)) = live (L.map (colOpt p f)) := rfl
    rw [e1, e2, ih]
  | some t :: L => by
    have ih := live_collapse p f L
    have e1 : live (some t :: L) = t :: live L := rfl
    by_cases hp : p t = true
    · have e3 : colOpt p f (some t) = none := by simp [colOpt, hp]
      have e2 : live ((some t :: L).map (colOpt p f)) = live (L.map (colOpt p f)) := by
        rw [List.map_cons, e3]; rfl
      rw [e1, e2, ih, List.filter_cons]
      simp [hp]
    · have hp' : p t = false := by simpa using hp
      have e3 : colOpt p f (some t) = some (f t) := by simp [colOpt, hp']
      have e2 : live ((some t :: L).map (colOpt p f)) = f t :: live (L.map (colOpt p f)) := by
        rw [List.map_cons, e3]; rfl
      rw [e1, e2, ih, List.filter_cons]
      simp [hp']

section
variable {R : Type} [Add R] [Sub R] [Mul R] [Div R] [Neg R] [Lit R] [LT R] [LE R] [DecidableLT R]
  [DecidableLE R] [DecidableEq R]

/-- all faces of the fan have been renamed: the whole slot list is renamed -/
theorem WalkState.slots_final {old new k : Nat} {F N : Nat → Nat} {Q : Nat → Nat → Prop} {c0 c : Cell R}
    (W : WalkState old new F N Q c0 c k) (hfan : FanF (slots c0) old k F N) :
    slots c = (slots c0).map (Option.map (renT old new)) := by
  apply List.ext_getElem?
  intro g
  rw [List.getElem?_map]
  by_cases hg : ∃ m, 1 ≤ m ∧ m ≤ k ∧ g = F m
  · obtain ⟨m, h1, h2, rfl⟩ := hg
    exact W.done m h1 h2
  · rw [W.other g (fun m h1 h2 he => hg ⟨m, h1, h2, he⟩)]
    cases hgt : (slots c0)[g]? with
    | none => rfl
    | some o =>
      cases o with
      | none => rfl
      | some t =>
        have : hasNode t old = false := by
          rw [Bool.eq_false_iff]
          intro ho
          obtain ⟨j, hj, he⟩ := hfan.all g t hgt ho
          exact hg ⟨j + 1, by omega, by omega, he⟩
        simp only [Option.map_some, renT_of_not this]

/-- **`replace_node`, second walk** (`new` is a neighbour of `old`, see `Walk2Hyp`): every slot is renamed (two faces
    become degenerate) and the index represents the relation `Pj … k` described by `Q2` -/
theorem replaceNode_abs2 {fn : Fn R} {c c' : Cell R} {start : Edge} {old new k : Nat} {F N : Nat → Nat}
    {del cre : List Edge} (h : replaceNode fn c start old new = .ok (c', del, cre))
    (hI : EdgeIdxComplete c) (H : Walk2Hyp (slots c) start old new k F N)
    (hkey : Edge.keyOf start.n1 start.n2 = Edge.keyOf old (N 0)) :
    slots c' = (slots c).map (Option.map (renT old new)) ∧
      IdxP (Pj old new N (SideK (slots c)) (Q2 old new k F N (SideK (slots c))) k) c'.edges ∧
      c'.freeFaces = c.freeFaces := by
  have hk3 := H.k3
  unfold replaceNode at h
  obtain ⟨sf1, hsf, h⟩ := bind_ok h
  obtain ⟨⟨c1, d1, cr1⟩, h1, h⟩ := bind_ok h
  cases h
  have e1 : start.f1 = some sf1 := by opt_ok hsf
  rw [H.sf1] at e1; cases e1
  rw [hkey] at h1
  have W := walk2 H _ 0 c [] [] _ (WalkState.init old new F N _ hI) (by omega) h1
  exact ⟨W.slots_final H.fan, W.idx, W.freeFaces⟩

/-- the two edge lists returned by the second walk -/
theorem replaceNode_lists2 {fn : Fn R} {c c' : Cell R} {start : Edge} {old new k : Nat} {F N : Nat → Nat}
    {del cre : List Edge} (h : replaceNode fn c start old new = .ok (c', del, cre))
    (hI : EdgeIdxComplete c) (H : Walk2Hyp (slots c) start old new k F N)
    (hkey : Edge.keyOf start.n1 start.n2 = Edge.keyOf old (N 0)) :
    (∀ m, m < k → ∃ x ∈ del, x.key = Edge.keyOf old (N m)) ∧
    (∀ y ∈ cre, ∃ m, m < k ∧ CreOK new N (Q2 old new k F N (SideK (slots c))) m y) := by
  have hk3 := H.k3
  unfold replaceNode at h
  obtain ⟨sf1, hsf, h⟩ := bind_ok h
  obtain ⟨⟨c1, d1, cr1⟩, h1, h⟩ := bind_ok h
  cases h
  have e1 : start.f1 = some sf1 := by opt_ok hsf
  rw [H.sf1] at e1; cases e1
  rw [hkey] at h1
  obtain ⟨dl, cr, q1, q2, q3, q4⟩ := (walk2' H _ 0 c [] [] _ (WalkState.init old new F N _ hI) (by omega) h1).2
  simp only [List.nil_append] at q1 q2
  subst q1; subst q2
  exact ⟨fun m hm => q3 m (Nat.zero_le _) hm, fun y hy => by
    obtain ⟨m, _, b, c⟩ := q4 y hy; exact ⟨m, b, c⟩⟩

end

end Simu.Remesh
