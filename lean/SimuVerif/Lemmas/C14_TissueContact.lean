import SimuVerif.Properties.C05
import SimuVerif.Properties.C06
import SimuVerif.Gen.ContactRule
import Mathlib.Tactic.LinearCombination
/-
  C14 (tissue) — the per-pair contact rule of the default build (`rule1` = `resolve_contact`) and the box test do not see a
  common translation of node and face; and, from the C06 theorems, the list of faces the voxel lookup hands over for a node
  is the list of faces of other cells whose padded box contains the node, in descending global id — a description in which
  the grid (whose origin and dimensions move with the tissue, and whose floor divisions are NOT translation-equivariant) no
  longer occurs.
-/
namespace Simu.C14T
open Simu Simu.Gen Simu.BP

set_option linter.unusedSectionVars false
set_option linter.unusedVariables false

section rule
variable {R : Type} [Field R] [LinearOrder R] [IsStrictOrderedRing R]

/-- a node as the rule reads it, placed `t` further -/
def trCN (t : V3 R) (n : CNode R) : CNode R := { n with pos := n.pos + t }

@[simp] theorem trCN_pos (t : V3 R) (n : CNode R) : (trCN t n).pos = n.pos + t := rfl
@[simp] theorem trCN_normal (t : V3 R) (n : CNode R) : (trCN t n).normal = n.normal := rfl
@[simp] theorem trCN_curvature (t : V3 R) (n : CNode R) : (trCN t n).curvature = n.curvature := rfl
@[simp] theorem trCN_coupled (t : V3 R) (n : CNode R) : (trCN t n).coupled = n.coupled := rfl
@[simp] theorem trCN_sqd (t : V3 R) (n : CNode R) : (trCN t n).sqd = n.sqd := rfl

/-- the barycentric coordinates returned by the kernel sum to one in every branch (no non-degeneracy needed) -/
theorem bary_sum (p a b c : V3 R) :
    (closestPt p a b c).2.x + (closestPt p a b c).2.y + (closestPt p a b c).2.z = 1 := by
  unfold closestPt
  simp only [lit_zero, lit_one]
  split_ifs <;> ring

theorem coupleDist1_tr (fn : Fn R) (P : CParams R) (c1 c2 : CCell R) (n1 : CNode R) (f : CFace R) (a b c : CNode R) (t : V3 R) :
    coupleDist1 fn P c1 c2 (trCN t n1) f (trCN t a) (trCN t b) (trCN t c) = coupleDist1 fn P c1 c2 n1 f a b c := by
  unfold coupleDist1
  simp only [trCN_pos, trCN_normal, trCN_curvature, trCN_coupled, trCN_sqd, C05.V3_tr1]

theorem cpa_tr (p a b c t w : V3 R) (hs : w.x + w.y + w.z = 1) :
    p + t - ((a + t) * w.x + (b + t) * w.y + (c + t) * w.z) = p - (a * w.x + b * w.y + c * w.z) := by
  apply V3.ext' <;> simp only [V3.sub_x, V3.sub_y, V3.sub_z, V3.add_x, V3.add_y, V3.add_z, V3.smul_x, V3.smul_y, V3.smul_z]
  · linear_combination (-t.x) * hs
  · linear_combination (-t.y) * hs
  · linear_combination (-t.z) * hs

theorem repulse1_tr (fn : Fn R) (P : CParams R) (c1 c2 : CCell R) (n1 : CNode R) (f : CFace R) (a b c : CNode R) (t : V3 R) :
    repulse1 fn P c1 c2 (trCN t n1) f (trCN t a) (trCN t b) (trCN t c) = repulse1 fn P c1 c2 n1 f a b c := by
  unfold repulse1
  simp only [trCN_pos, C05.translate_invariant]
  have hs := bary_sum n1.pos a.pos b.pos c.pos
  generalize closestPt n1.pos a.pos b.pos c.pos = K at hs ⊢
  simp only [cpa_tr _ _ _ _ _ _ hs]

/-- **`resolve_contact` does not see a common translation of the node and the face** (squared distances, closest point of
    approach relative to the node, barycentric coordinates, normals, couplings are unchanged) -/
theorem rule1_tr (fn : Fn R) (P : CParams R) (c1 c2 : CCell R) (n1 : CNode R) (f : CFace R) (a b c : CNode R) (t : V3 R) :
    rule1 fn P c1 c2 (trCN t n1) f (trCN t a) (trCN t b) (trCN t c) = rule1 fn P c1 c2 n1 f a b c := by
  unfold rule1
  rw [coupleDist1_tr, repulse1_tr]
  rfl

theorem pairGate1_tr (P : CParams R) (n1 : CNode R) (f : CFace R) (t : V3 R) : pairGate1 P (trCN t n1) f = pairGate1 P n1 f := rfl
theorem nodeGate1_tr (c1 : CCell R) (n1 : CNode R) (t : V3 R) : nodeGate1 c1 (trCN t n1) = nodeGate1 c1 n1 := rfl

/-! ### the box test -/

theorem cmin_tr (a b t : R) : cmin (a + t) (b + t) = cmin a b + t := by
  unfold cmin; simp only [add_lt_add_iff_right]; split_ifs <;> rfl
theorem cmax_tr (a b t : R) : cmax (a + t) (b + t) = cmax a b + t := by
  unfold cmax; simp only [add_lt_add_iff_right]; split_ifs <;> rfl

theorem lt_lo_tr (x m t pad : R) : (x + t < m + t - pad) ↔ (x < m - pad) := by
  constructor <;> intro h <;> linarith
theorem hi_lt_tr (x m t pad : R) : (m + t + pad < x + t) ↔ (m + pad < x) := by
  constructor <;> intro h <;> linarith

/-- **`aabb_intersection_check` does not see a common translation of the node and the face** -/
theorem aabbCheck_tr (pad : R) (a b c p t : V3 R) :
    aabbCheck (faceBox pad (a + t) (b + t) (c + t)) (p + t) = aabbCheck (faceBox pad a b c) p := by
  unfold aabbCheck faceBox
  simp only [V3.add_x, V3.add_y, V3.add_z, cmin_tr, cmax_tr, lt_lo_tr, hi_lt_tr]

end rule

/-! ### what the grid lookup returns (C06) -/
section grid
variable {R : Type} [Field R] [LinearOrder R] [IsStrictOrderedRing R] [FloorRing R]
variable {fn : Fn R} {δ pad vs inf : R}

/-- `aabb_intersection_check(f->global_face_id_ * 6, n.pos())` for the face with global id `i` -/
def boxTest (rs : List (FaceRec R)) (n : BNode R) (i : Nat) : Bool :=
  match rs[i]? with
  | some r => aabbCheck r.box n.pos
  | none => false

/-- **candidates_eq_filter**: for a node in use, the faces that the voxel lookup of the resolve loop hands to the rule are
    exactly the faces of other cells whose padded box contains the node, in descending global id.  (From C06:
    `node_voxel_in_range`, `voxel_content`, `voxel_complete`.) -/
theorem candidates_eq_filter (S : C06.Setup fn δ pad vs) (fs : List (BFace R)) (n : BNode R)
    (hn : C06.InHull pad (faceRecs pad fs) n.pos) :
    candidates fn (dims fn δ vs pad inf (faceRecs pad fs)) (buildGrid fn (dims fn δ vs pad inf (faceRecs pad fs)) (faceRecs pad fs))
        (faceRecs pad fs) n
      = (otherCellFaces (faceRecs pad fs) n).filter (boxTest (faceRecs pad fs) n) := by
  obtain ⟨-, -, hvid⟩ := C06.node_voxel_in_range (inf := inf) S (faceRecs pad fs) n.pos hn
  unfold candidates otherCellFaces
  rw [C06.voxel_content (inf := inf) S fs _ hvid]
  rw [List.filter_map, ← List.map_reverse, ← List.filter_reverse, List.filter_map, List.filter_filter, List.filter_filter]
  congr 1
  apply List.filter_congr
  intro ri hri
  obtain ⟨hi, e, hrs⟩ := C06.rec_of_mem_zipIdx pad fs ri (List.mem_reverse.mp hri)
  have hst : spatialTest (faceRecs pad fs) n ri.2 = (decide (cellTest n.cell ri.1.cell) && aabbCheck ri.1.box n.pos) := by
    unfold spatialTest; rw [hrs]
  have hbt : boxTest (faceRecs pad fs) n ri.2 = aabbCheck ri.1.box n.pos := by
    unfold boxTest; rw [hrs]
  simp only [Function.comp, hst, hbt]
  by_cases hbox : aabbCheck ri.1.box n.pos = true
  · have hf : fs[ri.2] ∈ fs := List.getElem_mem hi
    have hb : ri.1.box = faceBox pad fs[ri.2].a fs[ri.2].b fs[ri.2].c := by rw [e]
    have hv := C06.voxel_complete (inf := inf) S fs fs[ri.2] hf n.pos hn (hb ▸ hbox)
    rw [← hb] at hv
    simp only [hbox, hv, decide_true, Bool.and_true, Bool.true_and]
  · simp only [Bool.not_eq_true] at hbox
    simp only [hbox, Bool.and_false, Bool.false_and]

/-- the owner cells decide which faces belong to other cells -/
theorem otherCellFaces_congr (rs rs' : List (FaceRec R)) (n n' : BNode R) (hc : rs'.map (fun r => r.cell) = rs.map (fun r => r.cell))
    (hn : n'.cell = n.cell) : otherCellFaces rs' n' = otherCellFaces rs n := by
  unfold otherCellFaces
  have key : ∀ (l : List (FaceRec R)) (c : Nat),
      (l.zipIdx.filter fun ri => decide (cellTest c ri.1.cell)).map Prod.snd
        = ((l.map fun r => r.cell).zipIdx.filter fun ci => decide (cellTest c ci.1)).map Prod.snd := by
    intro l c
    rw [List.zipIdx_map, List.filter_map, List.map_map]
    rfl
  rw [key rs' n'.cell, key rs n.cell, hc, hn]

end grid
end Simu.C14T
