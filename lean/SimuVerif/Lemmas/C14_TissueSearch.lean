import SimuVerif.Properties.C14Pipeline
import SimuVerif.Model.Tissue
import SimuVerif.Lemmas.C14_TissueLL
import SimuVerif.Lemmas.C14_TissueContact
/-
  C14 (tissue) — the contact search of `Tissue.contactSearch` (5a–5c of the header of Model/Tissue.lean) returns the same
  couplings, closest distances and contact forces for the translated tissue.
-/
namespace Simu.C14T
open Simu Simu.Pipeline Simu.Gen Simu.BP Simu.Tissue

set_option linter.unusedSectionVars false
set_option linter.unusedVariables false

section basics
variable {R : Type} [Field R] [LinearOrder R] [IsStrictOrderedRing R]

theorem trCell_get (t : V3 R) (c : Cell R) : (trCell t c).pos.get = fun i => c.pos.get i + t := by
  funext i; exact C14.Slots.get_map _ _ _

theorem trCell_get' (t : V3 R) (c : Cell R) (i : Nat) : (trCell t c).pos.get i = c.pos.get i + t := C14.Slots.get_map _ _ _

theorem trCell_nn (t : V3 R) (c : Cell R) : (trCell t c).nn = c.nn := by
  simp only [Cell.nn, trCell, Slots.map, Array.size_map]

/-- every node slot of the cell is a corner of one of its faces -/
def Covered (c : Cell R) : Prop := ∀ i < c.nn, ∃ f ∈ c.faces, f.a = i ∨ f.b = i ∨ f.c = i

/-- the read-only part of a cell placed `t` further -/
def trGeo (t : V3 R) (g : Geo R) : Geo R := { g with x := g.x.map (fun p => p + t) }

theorem geo_trCell (t : V3 R) (c : Cell R) : (trCell t c).geo = trGeo t c.geo := rfl

theorem cnode_trGeo (t : V3 R) (g : Geo R) (m : Mut R) (i : Nat) : cnode (trGeo t g) m i = trCN t (cnode g m i) := by
  unfold cnode trCN trGeo
  simp only [C14.Slots.get_map]

theorem ccell_trGeo (t : V3 R) (ci : Nat) (g : Geo R) : ccell ci (trGeo t g) = ccell ci g := rfl

/-- one (node, face) visit of the search does not see the translation -/
theorem pairStep_tr (fn : Fn R) (P : CParams R) (geo : Array (Geo R)) (gf : Array (Nat × Nat)) (ci ni : Nat) (t : V3 R)
    (st : Array (Mut R)) (gid : Nat) :
    pairStep fn P (geo.map (trGeo t)) gf ci ni st gid = pairStep fn P geo gf ci ni st gid := by
  unfold pairStep
  cases gf[gid]? with
  | none => rfl
  | some q =>
    simp only [Array.getElem?_map]
    cases geo[ci]? with
    | none => rfl
    | some g1 =>
      cases geo[q.1]? with
      | none => rfl
      | some g2 =>
        simp only [Option.map_some]
        have hf : (trGeo t g2).faces = g2.faces := rfl
        have hg : (trGeo t g2).fgeom = g2.fgeom := rfl
        have hk : (trGeo t g2).k = g2.k := rfl
        rw [hf]
        cases g2.faces[q.2]? with
        | none => rfl
        | some f =>
          simp only [hg, hk, cnode_trGeo, ccell_trGeo, pairGate1_tr, rule1_tr]

theorem nodeSearch_tr (fn : Fn R) (P : CParams R) (geo : Array (Geo R)) (gf : Array (Nat × Nat)) (cand cand' : Nat → Nat → List Nat)
    (t : V3 R) (st : Array (Mut R)) (k : Nat × Nat) (h : cand' k.1 k.2 = cand k.1 k.2) :
    nodeSearch fn P (geo.map (trGeo t)) gf cand' st k = nodeSearch fn P geo gf cand st k := by
  unfold nodeSearch
  simp only [Array.getElem?_map]
  cases geo[k.1]? with
  | none => rfl
  | some g1 =>
    simp only [Option.map_some, cnode_trGeo, ccell_trGeo, nodeGate1_tr, h]
    have e : pairStep fn P (geo.map (trGeo t)) gf k.1 k.2 = pairStep fn P geo gf k.1 k.2 := by
      funext st gid; exact pairStep_tr fn P geo gf k.1 k.2 t st gid
    rw [e]

/-! ### the global face list -/

def trBF (t : V3 R) (f : BFace R) : BFace R := ⟨f.cell, f.a + t, f.b + t, f.c + t⟩

theorem bfaces_tr (t : V3 R) (cells : List (Cell R)) : bfaces (cells.map (trCell t)) = (bfaces cells).map (trBF t) := by
  unfold bfaces
  rw [List.zipIdx_map, List.flatMap_map, List.map_flatMap]
  congr 1
  funext ci
  simp only [Prod.map, id, List.map_map]
  apply List.map_congr_left
  intro f _
  simp only [Function.comp, trBF, trCell_get']

theorem faceIndex_tr (t : V3 R) (cells : List (Cell R)) : faceIndex (cells.map (trCell t)) = faceIndex cells := by
  unfold faceIndex
  rw [List.zipIdx_map, List.flatMap_map]
  rfl

theorem slotOrder_tr (t : V3 R) (cells : List (Cell R)) : slotOrder (cells.map (trCell t)) = slotOrder cells := by
  unfold slotOrder
  rw [List.map_map]
  congr 1
  apply List.map_congr_left
  intro c _
  exact trCell_nn t c

theorem resetMut_tr (K : Tissue.Consts R) (t : V3 R) (cells : List (Cell R)) :
    (cells.map (trCell t)).map (resetMut K) = cells.map (resetMut K) := by
  rw [List.map_map]
  apply List.map_congr_left
  intro c _
  simp only [Function.comp, resetMut, trCell_nn]
  rfl

theorem geoArr_tr (t : V3 R) (cells : List (Cell R)) :
    ((cells.map (trCell t)).map Cell.geo).toArray = ((cells.map Cell.geo).toArray).map (trGeo t) := by
  rw [List.map_toArray, List.map_map, List.map_map]
  rfl

theorem mem_slotsFrom : ∀ (lens : List Nat) (i : Nat) (x : Nat × Nat), x ∈ Coupling.slotsFrom i lens →
    ∃ a n, lens[a]? = some n ∧ x.1 = i + a ∧ x.2 < n := by
  intro lens
  induction lens with
  | nil => intro i x h; simp [Coupling.slotsFrom] at h
  | cons n rest ih =>
    intro i x h
    simp only [Coupling.slotsFrom, List.mem_append, List.mem_map, List.mem_range] at h
    rcases h with ⟨j, hj, rfl⟩ | h
    · exact ⟨0, n, rfl, rfl, hj⟩
    · obtain ⟨a, m, ha, h1, h2⟩ := ih (i + 1) x h
      exact ⟨a + 1, m, by simpa using ha, by omega, h2⟩

theorem slotOrder_mem (cells : List (Cell R)) (k : Nat × Nat) (hk : k ∈ slotOrder cells) :
    ∃ c, cells[k.1]? = some c ∧ k.2 < c.nn := by
  obtain ⟨a, n, ha, h1, h2⟩ := mem_slotsFrom _ 0 k hk
  rw [List.getElem?_map] at ha
  have : k.1 = a := by omega
  subst this
  cases hc : cells[k.1]? with
  | none => rw [hc] at ha; cases ha
  | some c =>
    rw [hc] at ha
    simp only [Option.map_some, Option.some.injEq] at ha
    exact ⟨c, rfl, ha ▸ h2⟩

end basics

/-! ### the voxel lookup -/
section lookup
variable {R : Type} [Field R] [LinearOrder R] [IsStrictOrderedRing R] [FloorRing R]

/-- a node slot that is a corner of a face of its cell lies in the hull of the global face list -/
theorem node_inHull (pad : R) (cells : List (Cell R)) (ci : Nat) (c : Cell R) (hc : cells[ci]? = some c) (ni : Nat)
    (hcov : ∃ f ∈ c.faces, f.a = ni ∨ f.b = ni ∨ f.c = ni) :
    C06.InHull pad (faceRecs pad (bfaces cells)) (c.pos.get ni) := by
  obtain ⟨f, hf, hcorner⟩ := hcov
  apply C06.corner_inHull pad (bfaces cells) ⟨ci, c.pos.get f.a, c.pos.get f.b, c.pos.get f.c⟩
  · unfold bfaces
    rw [List.mem_flatMap]
    exact ⟨(c, ci), List.mem_zipIdx_iff_getElem?.mpr hc, List.mem_map.mpr ⟨f, hf, rfl⟩⟩
  · rcases hcorner with h | h | h
    · left; rw [h]
    · right; left; rw [h]
    · right; right; rw [h]

theorem gridCandidates_eq (fn : Fn R) (K : Tissue.Consts R) (cells : List (Cell R)) (ci ni : Nat) (c : Cell R) (hc : cells[ci]? = some c) :
    gridCandidates fn (mkGrid fn K cells) ci ni
      = candidates fn (dims fn K.delta (cparams K).voxel (cparams K).padding K.inf (faceRecs (cparams K).padding (bfaces cells)))
          (buildGrid fn (dims fn K.delta (cparams K).voxel (cparams K).padding K.inf (faceRecs (cparams K).padding (bfaces cells)))
            (faceRecs (cparams K).padding (bfaces cells)))
          (faceRecs (cparams K).padding (bfaces cells)) ⟨ci, c.pos.get ni⟩ := by
  unfold gridCandidates mkGrid
  simp only [List.getElem?_toArray, List.getElem?_map, hc, Option.map_some]

theorem boxTest_tr (pad : R) (fs : List (BFace R)) (ci : Nat) (p t : V3 R) (i : Nat) :
    boxTest (faceRecs pad (fs.map (trBF t))) ⟨ci, p + t⟩ i = boxTest (faceRecs pad fs) ⟨ci, p⟩ i := by
  unfold boxTest faceRecs
  simp only [List.getElem?_map]
  cases fs[i]? with
  | none => rfl
  | some f => simp only [Option.map_some, trBF, aabbCheck_tr]

/-- **the faces handed to `resolve_contact` for a node are the same faces after the translation** — although the grid of the
    translated tissue has another origin and possibly other dimensions -/
theorem gridCandidates_tr (fn : Fn R) (K : Tissue.Consts R) (S : C06.Setup fn K.delta (cparams K).padding (cparams K).voxel)
    (cells : List (Cell R)) (t : V3 R) (ci ni : Nat) (c : Cell R) (hc : cells[ci]? = some c)
    (hcov : ∃ f ∈ c.faces, f.a = ni ∨ f.b = ni ∨ f.c = ni) :
    gridCandidates fn (mkGrid fn K (cells.map (trCell t))) ci ni = gridCandidates fn (mkGrid fn K cells) ci ni := by
  have hc' : (cells.map (trCell t))[ci]? = some (trCell t c) := by rw [List.getElem?_map, hc]; rfl
  have hn := node_inHull (cparams K).padding cells ci c hc ni hcov
  have hn' := node_inHull (cparams K).padding (cells.map (trCell t)) ci (trCell t c) hc' ni hcov
  rw [gridCandidates_eq fn K _ ci ni _ hc', gridCandidates_eq fn K _ ci ni _ hc]
  rw [candidates_eq_filter (inf := K.inf) S _ _ hn', candidates_eq_filter (inf := K.inf) S _ _ hn]
  rw [bfaces_tr, trCell_get']
  rw [otherCellFaces_congr (faceRecs (cparams K).padding (bfaces cells)) (faceRecs (cparams K).padding ((bfaces cells).map (trBF t)))
        ⟨ci, c.pos.get ni⟩ ⟨ci, c.pos.get ni + t⟩ (by unfold faceRecs; simp only [List.map_map]; rfl) rfl]
  apply List.filter_congr
  intro i _
  exact boxTest_tr _ _ _ _ _ _

/-- **the contact search gives the same couplings, closest distances and forces for the translated tissue** -/
theorem contactSearch_tr (fn : Fn R) (K : Tissue.Consts R) (S : C06.Setup fn K.delta (cparams K).padding (cparams K).voxel)
    (cells : List (Cell R)) (hcov : ∀ c ∈ cells, Covered c) (t : V3 R) :
    contactSearch fn K (cells.map (trCell t)) = contactSearch fn K cells := by
  unfold contactSearch
  simp only [slotOrder_tr, faceIndex_tr, resetMut_tr, geoArr_tr]
  apply foldl_congr_mem
  intro k hk st
  obtain ⟨c, hc, hlt⟩ := slotOrder_mem cells k hk
  have hmem : c ∈ cells := List.mem_of_getElem? hc
  exact nodeSearch_tr fn (cparams K) _ _ _ _ t st k (gridCandidates_tr fn K S cells t k.1 k.2 c hc (hcov c hmem k.2 hlt))

end lookup
end Simu.C14T
