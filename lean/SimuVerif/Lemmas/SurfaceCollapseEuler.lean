import SimuVerif.Lemmas.SurfaceDefs
import Mathlib.Data.Multiset.AddSub
import Mathlib.Data.Multiset.MapFold
import Mathlib.Data.Multiset.UnionInter
import Mathlib.Data.Multiset.Count
import Mathlib.Data.Finset.Image
import Mathlib.Data.Finset.Card
import Mathlib.Algebra.BigOperators.Group.Finset.Basic
import Mathlib.Tactic.Ring
import Mathlib.Tactic.Linarith
/-
  Edge collapse and the Euler characteristic of triangulated surfaces (C01, C11, C13).

  * `collapseT` keeps closedness (no link condition needed, only `a ≠ b`), keeps non-degeneracy
    when the merged node is fresh, and keeps simplicity under the link condition computed by
    `can_be_merged`;  it removes exactly two triangles and exactly one vertex.
  * In a surface satisfying `Inv` every undirected edge carries exactly two half-edges, so
    `2E = 3F` and `2χ = 2V − F`;  hence the collapse keeps χ.

  All auxiliary lemmas are prefixed `ce_` so that this file can be imported together with
  `SurfaceSplitSwap.lean`.
-/
namespace Simu.Surface

/-! ### basic facts on half-edge multisets -/

theorem ce_heM_nil : heM [] = 0 := by simp [heM]

theorem ce_heM_cons (t : Tri) (T : List Tri) : heM (t :: T) = heTriM t + heM T := by
  simp [heM]

theorem ce_mem_heTriM {t : Tri} {e : HE} :
    e ∈ heTriM t ↔ e = (t.1, t.2.1) ∨ e = (t.2.1, t.2.2) ∨ e = (t.2.2, t.1) := by
  simp [heTriM]

theorem ce_mem_heM {T : List Tri} {e : HE} : e ∈ heM T ↔ ∃ t ∈ T, e ∈ heTriM t := by
  induction T with
  | nil => simp [ce_heM_nil]
  | cons t T ih => simp [ce_heM_cons, ih]

theorem ce_heTriM_mk (x y z : Nat) :
    heTriM (x, y, z) = {(x, y)} + ({(y, z)} + {(z, x)}) := by
  simp only [heTriM, Multiset.insert_eq_cons, Multiset.singleton_add]

theorem ce_card_heM (T : List Tri) : Multiset.card (heM T) = 3 * T.length := by
  induction T with
  | nil => simp [ce_heM_nil]
  | cons t T ih =>
    rw [ce_heM_cons, Multiset.card_add, ih]
    simp [heTriM]
    omega

theorem ce_hasNode {t : Tri} {a : Nat} :
    hasNode t a = true ↔ t.1 = a ∨ t.2.1 = a ∨ t.2.2 = a := by
  simp [hasNode, or_assoc]

theorem ce_hasDir {t : Tri} {a b : Nat} :
    hasDir t a b = true ↔
      (t.1 = a ∧ t.2.1 = b) ∨ (t.2.1 = a ∧ t.2.2 = b) ∨ (t.2.2 = a ∧ t.1 = b) := by
  simp [hasDir, or_assoc]

theorem ce_findDir_some {T : List Tri} {a b : Nat} {t : Tri} (h : findDir T a b = some t) :
    t ∈ T ∧ hasDir t a b = true := by
  unfold findDir at h
  exact ⟨List.mem_of_find?_eq_some h, by simpa using List.find?_some h⟩

/-- renaming the nodes of a triangle renames its half-edges -/
theorem ce_heTriM_ren (ρ : Nat → Nat) (t : Tri) :
    heTriM (ρ t.1, ρ t.2.1, ρ t.2.2) = (heTriM t).map (Prod.map ρ ρ) := by
  obtain ⟨x, y, z⟩ := t
  simp [heTriM, Multiset.insert_eq_cons]

theorem ce_heM_ren (ρ : Nat → Nat) (T : List Tri) :
    heM (T.map (fun t => (ρ t.1, ρ t.2.1, ρ t.2.2))) = (heM T).map (Prod.map ρ ρ) := by
  induction T with
  | nil => simp [ce_heM_nil]
  | cons t T ih =>
    rw [List.map_cons, ce_heM_cons, ce_heM_cons, Multiset.map_add, ih, ce_heTriM_ren]

/-- the half-edges split into those of the selected and those of the other triangles -/
theorem ce_heM_filter (p : Tri → Bool) (T : List Tri) :
    heM T = heM (T.filter p) + heM (T.filter (fun t => !p t)) := by
  induction T with
  | nil => simp [ce_heM_nil]
  | cons t T ih =>
    rw [ce_heM_cons, ih]
    by_cases h : p t = true
    · simp [h, ce_heM_cons, add_assoc]
    · simp [h, ce_heM_cons, add_left_comm]

theorem ce_length_filter (p : Tri → Bool) (T : List Tri) :
    (T.filter p).length + (T.filter (fun t => !p t)).length = T.length := by
  induction T with
  | nil => simp
  | cons t T ih =>
    by_cases h : p t = true
    · simp [h]; omega
    · simp [h]; omega

theorem ce_swap_ren (ρ : Nat → Nat) (s : Multiset HE) :
    (s.map (Prod.map ρ ρ)).map Prod.swap = (s.map Prod.swap).map (Prod.map ρ ρ) := by
  rw [Multiset.map_map, Multiset.map_map]
  exact Multiset.map_congr rfl (fun _ _ => rfl)

theorem ce_ren_left (a b i : Nat) : ren a b i a = i := by simp [ren]
theorem ce_ren_right (a b i : Nat) : ren a b i b = i := by simp [ren]

theorem ce_ren_eq {a b i x y : Nat} (h : ren a b i x = ren a b i y) (hx : x ≠ i) (hy : y ≠ i) :
    x = y ∨ ((x = a ∨ x = b) ∧ (y = a ∨ y = b)) := by
  simp only [ren, Bool.or_eq_true, beq_iff_eq] at h
  split_ifs at h <;> omega

/-! ### the normal form of a triangle through a directed edge -/

theorem ce_hasDir_cases {t : Tri} {a b : Nat} (h : hasDir t a b = true) :
    t = (a, b, opp t a b) ∨ t = (opp t a b, a, b) ∨ t = (b, opp t a b, a) := by
  obtain ⟨x, y, z⟩ := t
  simp only [ce_hasDir] at h
  simp only [opp, Prod.mk.injEq, beq_iff_eq, Bool.and_eq_true]
  rcases h with ⟨rfl, rfl⟩ | ⟨rfl, rfl⟩ | ⟨rfl, rfl⟩
  · simp
  · split_ifs <;> simp_all
  · split_ifs <;> simp_all

/-- what `hasDir t a b` gives on a non-degenerate triangle, with `c := opp t a b` -/
theorem ce_hasDir_spec {t : Tri} {a b : Nat}
    (hn : t.1 ≠ t.2.1 ∧ t.2.1 ≠ t.2.2 ∧ t.2.2 ≠ t.1) (h : hasDir t a b = true) :
    (∀ e, e ∈ heTriM t ↔ e = (a, b) ∨ e = (b, opp t a b) ∨ e = (opp t a b, a)) ∧
    (∀ v, hasNode t v = true ↔ v = a ∨ v = b ∨ v = opp t a b) ∧
    a ≠ b ∧ b ≠ opp t a b ∧ opp t a b ≠ a := by
  have hc := ce_hasDir_cases h
  generalize opp t a b = c at *
  rcases hc with rfl | rfl | rfl
  · refine ⟨fun e => by simp [ce_mem_heTriM],
      fun v => by rw [ce_hasNode]; simp only [eq_comm (a := v)], ?_⟩
    simpa using hn
  · refine ⟨fun e => by simp [ce_mem_heTriM]; tauto,
      fun v => by rw [ce_hasNode]; simp only [eq_comm (a := v)]; tauto, ?_⟩
    obtain ⟨h1, h2, h3⟩ := hn
    exact ⟨h2, h3, h1⟩
  · refine ⟨fun e => by simp [ce_mem_heTriM]; tauto,
      fun v => by rw [ce_hasNode]; simp only [eq_comm (a := v)]; tauto, ?_⟩
    obtain ⟨h1, h2, h3⟩ := hn
    exact ⟨h3, h1, h2⟩

/-- a non-degenerate triangle containing `a ≠ b` traverses `a→b` or `b→a` -/
theorem ce_both_dir {t : Tri} {a b : Nat} (hab : a ≠ b)
    (hn : t.1 ≠ t.2.1 ∧ t.2.1 ≠ t.2.2 ∧ t.2.2 ≠ t.1)
    (h : (hasNode t a && hasNode t b) = true) : hasDir t a b = true ∨ hasDir t b a = true := by
  obtain ⟨x, y, z⟩ := t
  simp only [Bool.and_eq_true, ce_hasNode] at h
  simp only [ce_hasDir]
  obtain ⟨ha, hb⟩ := h
  rcases ha with rfl | rfl | rfl <;> rcases hb with rfl | rfl | rfl <;> simp_all

/-- in a simple surface a half-edge determines its triangle -/
theorem ce_tri_unique {T : List Tri} (hs : Simple T) {e : HE} {t t' : Tri}
    (ht : t ∈ T) (ht' : t' ∈ T) (he : e ∈ heTriM t) (he' : e ∈ heTriM t') : t = t' := by
  induction T with
  | nil => cases ht
  | cons s T ih =>
    unfold Simple at hs ih
    rw [ce_heM_cons] at hs
    obtain ⟨_, hsT, hdisj⟩ := Multiset.nodup_add.1 hs
    rcases List.mem_cons.1 ht with rfl | ht0 <;> rcases List.mem_cons.1 ht' with rfl | ht0'
    · rfl
    · exact absurd (ce_mem_heM.2 ⟨t', ht0', he'⟩) (Multiset.disjoint_left.1 hdisj he)
    · exact absurd (ce_mem_heM.2 ⟨t, ht0, he⟩) (Multiset.disjoint_left.1 hdisj he')
    · exact ih hsT ht0 ht0'

/-! ### collapse: closedness -/

/-- a removed triangle (it contains `a` and `b`) has, once renamed, two nodes equal to `i`;
    its renamed half-edges `{(i,i),(i,w),(w,i)}` are closed under reversal -/
theorem ce_removed_closed {a b : Nat} (hab : a ≠ b) (i : Nat) (t : Tri)
    (h : (hasNode t a && hasNode t b) = true) :
    ((heTriM t).map (Prod.map (ren a b i) (ren a b i))).map Prod.swap
      = (heTriM t).map (Prod.map (ren a b i) (ren a b i)) := by
  obtain ⟨x, y, z⟩ := t
  simp only [Bool.and_eq_true, ce_hasNode] at h
  obtain ⟨ha, hb⟩ := h
  simp only [ce_heTriM_mk, Multiset.map_add, Multiset.map_singleton, Prod.map_apply,
    Prod.swap_prod_mk]
  rcases ha with rfl | rfl | rfl <;> rcases hb with rfl | rfl | rfl <;>
    first
      | exact absurd rfl hab
      | (simp only [ce_ren_left, ce_ren_right]; ac_rfl)

theorem ce_removed_list_closed {a b : Nat} (hab : a ≠ b) (i : Nat) (R : List Tri)
    (h : ∀ t ∈ R, (hasNode t a && hasNode t b) = true) :
    ((heM R).map (Prod.map (ren a b i) (ren a b i))).map Prod.swap
      = (heM R).map (Prod.map (ren a b i) (ren a b i)) := by
  induction R with
  | nil => simp [ce_heM_nil]
  | cons t R ih =>
    rw [ce_heM_cons, Multiset.map_add, Multiset.map_add,
      ce_removed_closed hab i t (h t (by simp)), ih (fun s hs => h s (by simp [hs]))]

/-- closedness survives a collapse WITHOUT any link condition.

    NOTE (added hypothesis): the statement is false for `a = b`: then `collapseT T a a i` removes the
    whole star of `a` (every triangle containing `a`) and renames nothing else, which punches a hole
    into the surface (tetrahedron `0 1 2 3`, `a = b = 0`: one triangle is left).  `a ≠ b` is the
    minimal repair; it follows from `findDir T a b = some _` on a non-degenerate surface, which is
    how `collapse_inv` discharges it. -/
theorem collapse_closed {T : List Tri} (hc : Closed T) (a b i : Nat) (hab : a ≠ b) :
    Closed (collapseT T a b i) := by
  unfold Closed collapseT
  rw [ce_heM_ren]
  have hsplit := ce_heM_filter (fun t => !(hasNode t a && hasNode t b)) T
  have hR := ce_removed_list_closed hab i
    (T.filter (fun t => !(fun t => !(hasNode t a && hasNode t b)) t))
    (by intro t ht; simpa using (List.mem_filter.1 ht).2)
  have hT : ((heM T).map (Prod.map (ren a b i) (ren a b i))).map Prod.swap
      = (heM T).map (Prod.map (ren a b i) (ren a b i)) := by
    rw [ce_swap_ren, hc]
  rw [hsplit, Multiset.map_add, Multiset.map_add, hR] at hT
  exact add_right_cancel hT

/-- the counterexample that makes `a ≠ b` necessary in `collapse_closed`: a tetrahedron, `a = b = 0` -/
example : Closed [(0, 1, 2), (0, 2, 3), (0, 3, 1), (1, 3, 2)] ∧
    ¬ Closed (collapseT [(0, 1, 2), (0, 2, 3), (0, 3, 1), (1, 3, 2)] 0 0 9) := by
  unfold Closed; decide

/-! ### collapse: non-degeneracy -/

theorem collapse_nondeg {T : List Tri} (hn : NonDeg T) (a b i : Nat) (hi : Fresh T i) :
    NonDeg (collapseT T a b i) := by
  intro t' ht'
  simp only [collapseT, List.mem_map, List.mem_filter] at ht'
  obtain ⟨t, ⟨htT, hk⟩, rfl⟩ := ht'
  have h1 := hn _ htT
  have h2 := hi _ htT
  obtain ⟨x, y, z⟩ := t
  simp only [hasNode, Bool.not_eq_true', Bool.and_eq_false_iff, Bool.or_eq_false_iff,
    beq_eq_false_iff_ne, ne_eq] at hk h2
  simp only [ren, Bool.or_eq_true, beq_iff_eq, ne_eq] at h1 ⊢
  split_ifs <;> omega

/-! ### collapse: simplicity under the link condition -/

theorem ce_he_nodes {t : Tri} {x y : Nat} (h : (x, y) ∈ heTriM t) :
    hasNode t x = true ∧ hasNode t y = true := by
  obtain ⟨p, q, r⟩ := t
  simp only [ce_mem_heTriM, Prod.mk.injEq] at h
  simp only [ce_hasNode]
  rcases h with ⟨rfl, rfl⟩ | ⟨rfl, rfl⟩ | ⟨rfl, rfl⟩ <;> simp

theorem ce_he_ne {t : Tri} {x y : Nat} (hn : t.1 ≠ t.2.1 ∧ t.2.1 ≠ t.2.2 ∧ t.2.2 ≠ t.1)
    (h : (x, y) ∈ heTriM t) : x ≠ y := by
  obtain ⟨p, q, r⟩ := t
  simp only [ce_mem_heTriM, Prod.mk.injEq] at h
  rcases h with ⟨rfl, rfl⟩ | ⟨rfl, rfl⟩ | ⟨rfl, rfl⟩
  · exact hn.1
  · exact hn.2.1
  · exact hn.2.2

/-- simplicity needs the link condition that `can_be_merged` computes -/
theorem collapse_simple {T : List Tri} (h : Inv T) {a b i : Nat} {t1 t2 : Tri}
    (h1 : findDir T a b = some t1) (h2 : findDir T b a = some t2)
    (hl : LinkCond T a b (opp t1 a b) (opp t2 b a)) (hi : Fresh T i) :
    Simple (collapseT T a b i) := by
  obtain ⟨hn, hs, -⟩ := h
  obtain ⟨ht1, hd1⟩ := ce_findDir_some h1
  obtain ⟨ht2, hd2⟩ := ce_findDir_some h2
  obtain ⟨hm1, hv1, hab, hbc, hca⟩ := ce_hasDir_spec (hn t1 ht1) hd1
  obtain ⟨hm2, hv2, -, had, hdb⟩ := ce_hasDir_spec (hn t2 ht2) hd2
  generalize opp t1 a b = c at *
  generalize opp t2 b a = d at *
  unfold Simple collapseT
  rw [ce_heM_ren]
  have hsplit := ce_heM_filter (fun t => !(hasNode t a && hasNode t b)) T
  have hnd := hs
  unfold Simple at hnd
  rw [hsplit] at hnd
  obtain ⟨hK, -, hdisj⟩ := Multiset.nodup_add.1 hnd
  have hdisj' := fun (e : HE) => (Multiset.disjoint_left.1 hdisj : e ∈ _ → e ∉ _)
  -- the two triangles of the edge are removed
  have hrem : ∀ t, t ∈ T → hasDir t a b = true ∨ hasDir t b a = true → ∀ e ∈ heTriM t,
      e ∈ heM (T.filter (fun t => !(fun t => !(hasNode t a && hasNode t b)) t)) := by
    intro t ht hd e he
    refine ce_mem_heM.2 ⟨t, List.mem_filter.2 ⟨ht, ?_⟩, he⟩
    rcases hd with hd | hd
    · have := (ce_hasDir_spec (hn t ht) hd).2.1
      simp [this a, this b]
    · have := (ce_hasDir_spec (hn t ht) hd).2.1
      simp [this a, this b]
  have hR1 := hrem t1 ht1 (Or.inl hd1)
  have hR2 := hrem t2 ht2 (Or.inr hd2)
  -- facts on kept half-edges
  have key : ∀ x y, (x, y) ∈ heM (T.filter (fun t => !(hasNode t a && hasNode t b))) →
      x ≠ i ∧ y ≠ i ∧ x ≠ y ∧ ¬ ((x = a ∨ x = b) ∧ (y = a ∨ y = b)) ∧ (x, y) ∈ heM T := by
    intro x y hxy
    obtain ⟨t, ht, he⟩ := ce_mem_heM.1 hxy
    obtain ⟨htT, hk⟩ := List.mem_filter.1 ht
    obtain ⟨hx, hy⟩ := ce_he_nodes he
    have hne := ce_he_ne (hn t htT) he
    have hfi := hi t htT
    refine ⟨?_, ?_, hne, ?_, ce_mem_heM.2 ⟨t, htT, he⟩⟩
    · rintro rfl; rw [hx] at hfi; cases hfi
    · rintro rfl; rw [hy] at hfi; cases hfi
    · rintro ⟨hxa, hyb⟩
      have : hasNode t a = true ∧ hasNode t b = true := by
        rcases hxa with rfl | rfl <;> rcases hyb with rfl | rfl
        · exact absurd rfl hne
        · exact ⟨hx, hy⟩
        · exact ⟨hy, hx⟩
        · exact absurd rfl hne
      simp [this.1, this.2] at hk
  have fan_in : ∀ x, (x, a) ∈ heM (T.filter (fun t => !(hasNode t a && hasNode t b))) →
      (x, b) ∈ heM (T.filter (fun t => !(hasNode t a && hasNode t b))) → False := by
    intro x hxa hxb
    obtain ⟨-, -, -, -, hTa⟩ := key _ _ hxa
    obtain ⟨-, -, -, -, hTb⟩ := key _ _ hxb
    rcases hl.2 x (Or.inr hTa) (Or.inr hTb) with rfl | rfl
    · exact hdisj' _ hxa (hR1 _ ((hm1 _).2 (Or.inr (Or.inr rfl))))
    · exact hdisj' _ hxb (hR2 _ ((hm2 _).2 (Or.inr (Or.inr rfl))))
  have fan_out : ∀ x, (a, x) ∈ heM (T.filter (fun t => !(hasNode t a && hasNode t b))) →
      (b, x) ∈ heM (T.filter (fun t => !(hasNode t a && hasNode t b))) → False := by
    intro x hax hbx
    obtain ⟨-, -, -, -, hTa⟩ := key _ _ hax
    obtain ⟨-, -, -, -, hTb⟩ := key _ _ hbx
    rcases hl.2 x (Or.inl hTa) (Or.inl hTb) with rfl | rfl
    · exact hdisj' _ hbx (hR1 _ ((hm1 _).2 (Or.inr (Or.inl rfl))))
    · exact hdisj' _ hax (hR2 _ ((hm2 _).2 (Or.inr (Or.inl rfl))))
  refine Multiset.Nodup.map_on ?_ hK
  rintro ⟨x1, y1⟩ he1 ⟨x2, y2⟩ he2 heq
  simp only [Prod.map_apply, Prod.mk.injEq] at heq ⊢
  obtain ⟨hx1, hy1, -, hk1, -⟩ := key _ _ he1
  obtain ⟨hx2, hy2, -, hk2, -⟩ := key _ _ he2
  rcases ce_ren_eq heq.1 hx1 hx2 with rfl | hxx <;> rcases ce_ren_eq heq.2 hy1 hy2 with rfl | hyy
  · exact ⟨rfl, rfl⟩
  · by_cases hy : y1 = y2
    · exact ⟨rfl, hy⟩
    · exfalso
      obtain ⟨hy1' | hy1', hy2' | hy2'⟩ := hyy <;> subst hy1' <;> subst hy2'
      · exact hy rfl
      · exact fan_in _ he1 he2
      · exact fan_in _ he2 he1
      · exact hy rfl
  · by_cases hx : x1 = x2
    · exact ⟨hx, rfl⟩
    · exfalso
      obtain ⟨hx1' | hx1', hx2' | hx2'⟩ := hxx <;> subst hx1' <;> subst hx2'
      · exact hx rfl
      · exact fan_out _ he1 he2
      · exact fan_out _ he2 he1
      · exact hx rfl
  · exact absurd ⟨hxx.1, hyy.1⟩ hk1

theorem collapse_inv {T : List Tri} (h : Inv T) {a b i : Nat} {t1 t2 : Tri}
    (h1 : findDir T a b = some t1) (h2 : findDir T b a = some t2)
    (hl : LinkCond T a b (opp t1 a b) (opp t2 b a)) (hi : Fresh T i) :
    Inv (collapseT T a b i) := by
  obtain ⟨ht1, hd1⟩ := ce_findDir_some h1
  have hab := (ce_hasDir_spec (h.nondeg t1 ht1) hd1).2.2.1
  exact ⟨collapse_nondeg h.nondeg a b i hi, collapse_simple h h1 h2 hl hi,
    collapse_closed h.closed a b i hab⟩

/-! ### collapse: exactly two triangles disappear -/

theorem ce_count_tri {a b : Nat} (hab : a ≠ b) (t : Tri)
    (hn : t.1 ≠ t.2.1 ∧ t.2.1 ≠ t.2.2 ∧ t.2.2 ≠ t.1) :
    Multiset.count (a, b) (heTriM t) + Multiset.count (b, a) (heTriM t)
      = if (hasNode t a && hasNode t b) = true then 1 else 0 := by
  obtain ⟨x, y, z⟩ := t
  simp only [heTriM, Multiset.insert_eq_cons, Multiset.count_cons, Multiset.count_singleton,
    hasNode, Prod.mk.injEq, Bool.and_eq_true, Bool.or_eq_true, beq_iff_eq]
  dsimp only at hn
  split_ifs <;> omega

theorem ce_filter_len {a b : Nat} (hab : a ≠ b) {T : List Tri} (hn : NonDeg T) :
    (T.filter (fun t => hasNode t a && hasNode t b)).length
      = Multiset.count (a, b) (heM T) + Multiset.count (b, a) (heM T) := by
  induction T with
  | nil => simp [ce_heM_nil]
  | cons t T ih =>
    have h1 := ce_count_tri hab t (hn t (by simp))
    have h2 := ih (fun s hs => hn s (by simp [hs]))
    rw [ce_heM_cons, Multiset.count_add, Multiset.count_add, List.filter_cons]
    split_ifs at h1 ⊢ with h <;> (try simp only [List.length_cons]) <;> omega

/-- exactly the two triangles of the edge disappear -/
theorem collapse_length {T : List Tri} (h : Inv T) {a b i : Nat} {t1 t2 : Tri}
    (h1 : findDir T a b = some t1) (h2 : findDir T b a = some t2) :
    (collapseT T a b i).length + 2 = T.length := by
  obtain ⟨hn, hs, -⟩ := h
  obtain ⟨ht1, hd1⟩ := ce_findDir_some h1
  obtain ⟨ht2, hd2⟩ := ce_findDir_some h2
  obtain ⟨hm1, -, hab, -, -⟩ := ce_hasDir_spec (hn t1 ht1) hd1
  obtain ⟨hm2, -, -, -, -⟩ := ce_hasDir_spec (hn t2 ht2) hd2
  have c1 : Multiset.count (a, b) (heM T) = 1 :=
    Multiset.count_eq_one_of_mem hs (ce_mem_heM.2 ⟨t1, ht1, (hm1 _).2 (Or.inl rfl)⟩)
  have c2 : Multiset.count (b, a) (heM T) = 1 :=
    Multiset.count_eq_one_of_mem hs (ce_mem_heM.2 ⟨t2, ht2, (hm2 _).2 (Or.inl rfl)⟩)
  have hlen := ce_filter_len hab hn
  have hsum := ce_length_filter (fun t => !(hasNode t a && hasNode t b)) T
  simp only [Bool.not_not] at hsum
  rw [collapseT, List.length_map]
  omega

/-! ### collapse: exactly one vertex disappears -/

theorem ce_mem_vertsF {T : List Tri} {v : Nat} :
    v ∈ vertsF T ↔ ∃ t ∈ T, hasNode t v = true := by
  simp only [vertsF, List.mem_toFinset, List.mem_flatMap, ce_hasNode, List.mem_cons,
    List.not_mem_nil, or_false, eq_comm (a := v)]

theorem ce_mem_vertsF_collapse {T : List Tri} {a b i v : Nat} :
    v ∈ vertsF (collapseT T a b i) ↔
      ∃ t ∈ T, (hasNode t a && hasNode t b) = false ∧ ∃ u, hasNode t u = true ∧ v = ren a b i u := by
  rw [ce_mem_vertsF]
  simp only [collapseT, List.mem_map, List.mem_filter]
  constructor
  · rintro ⟨_, ⟨t, ⟨ht, hk⟩, rfl⟩, hv⟩
    refine ⟨t, ht, by rw [Bool.not_eq_true'] at hk; exact hk, ?_⟩
    simp only [ce_hasNode] at hv ⊢
    rcases hv with hv | hv | hv
    · exact ⟨t.1, Or.inl rfl, hv.symm⟩
    · exact ⟨t.2.1, Or.inr (Or.inl rfl), hv.symm⟩
    · exact ⟨t.2.2, Or.inr (Or.inr rfl), hv.symm⟩
  · rintro ⟨t, ht, hk, u, hu, rfl⟩
    refine ⟨_, ⟨t, ⟨ht, by rw [Bool.not_eq_true']; exact hk⟩, rfl⟩, ?_⟩
    simp only [ce_hasNode] at hu ⊢
    rcases hu with rfl | rfl | rfl <;> simp

/-- one vertex fewer: a and b are replaced by i, every other vertex survives (needs the link condition) -/
theorem collapse_verts_card {T : List Tri} (h : Inv T) {a b i : Nat} {t1 t2 : Tri}
    (h1 : findDir T a b = some t1) (h2 : findDir T b a = some t2)
    (hl : LinkCond T a b (opp t1 a b) (opp t2 b a)) (hi : Fresh T i) :
    (vertsF (collapseT T a b i)).card + 1 = (vertsF T).card := by
  obtain ⟨hn, hs, hc⟩ := h
  obtain ⟨ht1, hd1⟩ := ce_findDir_some h1
  obtain ⟨ht2, hd2⟩ := ce_findDir_some h2
  obtain ⟨hm1, hv1, hab, hbc, hca⟩ := ce_hasDir_spec (hn t1 ht1) hd1
  obtain ⟨hm2, hv2, -, had, hdb⟩ := ce_hasDir_spec (hn t2 ht2) hd2
  have hcd := hl.1
  generalize opp t1 a b = c at *
  generalize opp t2 b a = d at *
  have hswap : ∀ x y, (x, y) ∈ heM T → (y, x) ∈ heM T := by
    intro x y he
    unfold Closed at hc
    rw [← hc]
    exact Multiset.mem_map.2 ⟨(x, y), he, rfl⟩
  -- a removed triangle is t1 or t2
  have hrem : ∀ t ∈ T, (hasNode t a && hasNode t b) = true → t = t1 ∨ t = t2 := by
    intro t ht hb
    rcases ce_both_dir hab (hn t ht) hb with hd | hd
    · exact Or.inl (ce_tri_unique hs ht ht1 ((ce_hasDir_spec (hn t ht) hd).1 _ |>.2 (Or.inl rfl))
        ((hm1 _).2 (Or.inl rfl)))
    · exact Or.inr (ce_tri_unique hs ht ht2 ((ce_hasDir_spec (hn t ht) hd).1 _ |>.2 (Or.inl rfl))
        ((hm2 _).2 (Or.inl rfl)))
  -- a half-edge outside t1, t2 lies in a kept triangle
  have hkept : ∀ e, e ∈ heM T → e ∉ heTriM t1 → e ∉ heTriM t2 →
      ∃ t ∈ T, (hasNode t a && hasNode t b) = false ∧ e ∈ heTriM t := by
    intro e he n1 n2
    obtain ⟨t, ht, het⟩ := ce_mem_heM.1 he
    refine ⟨t, ht, ?_, het⟩
    by_contra hb
    rcases hrem t ht (by simpa using hb) with rfl | rfl
    · exact n1 het
    · exact n2 het
  -- witness for c (it also contains a)
  obtain ⟨tc, htc, hkc, hec⟩ := hkept (a, c)
    (hswap _ _ (ce_mem_heM.2 ⟨t1, ht1, (hm1 _).2 (Or.inr (Or.inr rfl))⟩))
    (by rw [hm1]; simp only [Prod.mk.injEq]; omega)
    (by rw [hm2]; simp only [Prod.mk.injEq]; omega)
  obtain ⟨td, htd, hkd, hed⟩ := hkept (d, a)
    (hswap _ _ (ce_mem_heM.2 ⟨t2, ht2, (hm2 _).2 (Or.inr (Or.inl rfl))⟩))
    (by rw [hm1]; simp only [Prod.mk.injEq]; omega)
    (by rw [hm2]; simp only [Prod.mk.injEq]; omega)
  have hav : a ∈ vertsF T := ce_mem_vertsF.2 ⟨t1, ht1, (hv1 a).2 (Or.inl rfl)⟩
  have hbv : b ∈ vertsF T := ce_mem_vertsF.2 ⟨t1, ht1, (hv1 b).2 (Or.inr (Or.inl rfl))⟩
  have hiv : i ∉ vertsF T := by
    rw [ce_mem_vertsF]
    rintro ⟨t, ht, hti⟩
    rw [hi t ht] at hti
    cases hti
  have hset : vertsF (collapseT T a b i) = insert i (((vertsF T).erase a).erase b) := by
    ext v
    rw [ce_mem_vertsF_collapse]
    simp only [Finset.mem_insert, Finset.mem_erase]
    constructor
    · rintro ⟨t, ht, -, u, hu, rfl⟩
      by_cases hua : u = a ∨ u = b
      · left
        rcases hua with rfl | rfl
        · exact ce_ren_left _ _ _
        · exact ce_ren_right _ _ _
      · right
        have : ren a b i u = u := by simp [ren]; tauto
        rw [this]
        refine ⟨fun hh => hua (Or.inr hh), fun hh => hua (Or.inl hh), ce_mem_vertsF.2 ⟨t, ht, hu⟩⟩
    · rintro (rfl | ⟨hvb, hva, hv⟩)
      · exact ⟨tc, htc, hkc, a, (ce_he_nodes hec).1, (ce_ren_left _ _ _).symm⟩
      · have hren : v = ren a b i v := by simp [ren, hva, hvb]
        obtain ⟨t, ht, htv⟩ := ce_mem_vertsF.1 hv
        by_cases hb : (hasNode t a && hasNode t b) = true
        · rcases hrem t ht hb with rfl | rfl
          · rcases (hv1 v).1 htv with rfl | rfl | rfl
            · exact absurd rfl hva
            · exact absurd rfl hvb
            · exact ⟨tc, htc, hkc, _, (ce_he_nodes hec).2, hren⟩
          · rcases (hv2 v).1 htv with rfl | rfl | rfl
            · exact absurd rfl hvb
            · exact absurd rfl hva
            · exact ⟨td, htd, hkd, _, (ce_he_nodes hed).1, hren⟩
        · exact ⟨t, ht, by simpa using hb, v, htv, hren⟩
  rw [hset, Finset.card_insert_of_notMem (by simp [hiv])]
  have e1 := Finset.card_erase_add_one hav
  have e2 := Finset.card_erase_add_one (Finset.mem_erase.2 ⟨hab.symm, hbv⟩)
  omega

/-! ### Euler characteristic -/

theorem ce_normHE_eq {e f : HE} (h : normHE e = normHE f) : e = f ∨ e = f.swap := by
  obtain ⟨x, y⟩ := e
  obtain ⟨u, v⟩ := f
  simp only [normHE] at h
  split_ifs at h <;> simp only [Prod.mk.injEq, Prod.swap_prod_mk] at h ⊢ <;> omega

theorem ce_normHE_swap (e : HE) : normHE e.swap = normHE e := by
  obtain ⟨x, y⟩ := e
  simp only [normHE, Prod.swap_prod_mk]
  split_ifs <;> simp only [Prod.mk.injEq] <;> omega

/-- in a closed simple non-degenerate surface every undirected edge carries exactly two half-edges: 2E = 3F -/
theorem edges_count {T : List Tri} (h : Inv T) : 2 * (edgesF T).card = 3 * T.length := by
  obtain ⟨hn, hs, hc⟩ := h
  have hcard : (heM T).toFinset.card = 3 * T.length := by
    rw [Multiset.toFinset_card_of_nodup hs, ce_card_heM]
  have hswap : ∀ e ∈ heM T, e.swap ∈ heM T := by
    intro e he
    unfold Closed at hc
    rw [← hc]
    exact Multiset.mem_map_of_mem _ he
  have hloop : ∀ e ∈ heM T, e ≠ e.swap := by
    rintro ⟨x, y⟩ he heq
    obtain ⟨t, ht, het⟩ := ce_mem_heM.1 he
    have := ce_he_ne (hn t ht) het
    simp only [Prod.swap_prod_mk, Prod.mk.injEq] at heq
    exact this heq.1
  have hf : ∀ e' ∈ (heM T).toFinset.image normHE,
      ((heM T).toFinset.filter (fun e => normHE e = e')).card = 2 := by
    intro e' he'
    obtain ⟨e0, he0, rfl⟩ := Finset.mem_image.1 he'
    rw [Multiset.mem_toFinset] at he0
    have : (heM T).toFinset.filter (fun e => normHE e = normHE e0) = {e0, e0.swap} := by
      ext e
      simp only [Finset.mem_filter, Multiset.mem_toFinset, Finset.mem_insert,
        Finset.mem_singleton]
      constructor
      · rintro ⟨_, h⟩
        exact ce_normHE_eq h
      · rintro (rfl | rfl)
        · exact ⟨he0, rfl⟩
        · exact ⟨hswap _ he0, ce_normHE_swap _⟩
    rw [this, Finset.card_pair (hloop e0 he0)]
  have hsum := Finset.card_eq_sum_card_image normHE (heM T).toFinset
  rw [Finset.sum_const_nat hf, hcard] at hsum
  unfold edgesF
  omega

/-- hence χ is determined by V and F:  2χ = 2V − F -/
theorem chi_eq {T : List Tri} (h : Inv T) :
    2 * chiZ T = 2 * ((vertsF T).card : Int) - T.length := by
  have := edges_count h
  unfold chiZ
  omega

/-- generic transfer: an operation that keeps Inv and changes (V,F) by (+k, +2k) keeps χ -/
theorem chi_transfer {T T' : List Tri} (h : Inv T) (h' : Inv T') (k : Int)
    (hv : ((vertsF T').card : Int) = (vertsF T).card + k)
    (hf : (T'.length : Int) = T.length + 2 * k) :
    chiZ T' = chiZ T := by
  have e1 := chi_eq h
  have e2 := chi_eq h'
  omega

theorem collapse_chi {T : List Tri} (h : Inv T) {a b i : Nat} {t1 t2 : Tri}
    (h1 : findDir T a b = some t1) (h2 : findDir T b a = some t2)
    (hl : LinkCond T a b (opp t1 a b) (opp t2 b a)) (hi : Fresh T i) :
    chiZ (collapseT T a b i) = chiZ T := by
  have hv := collapse_verts_card h h1 h2 hl hi
  have hf := collapse_length (i := i) h h1 h2
  exact chi_transfer h (collapse_inv h h1 h2 hl hi) (-1) (by omega) (by omega)

end Simu.Surface
