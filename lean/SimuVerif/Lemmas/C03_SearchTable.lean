import SimuVerif.Model.TissueR
import SimuVerif.Lemmas.CouplingPass
/-
  C03 (addition) — the coupling table that the MODELLED contact search hands to the two tail loops of
  `resolve_all_contacts` (Model/Tissue.lean `contactSearch`, Model/TissueR.lean `contactSearchR`).

  The search is a fold (cells → node slots → voxel list) of `pairStep`, whose only effect on couplings is
  `applyOut` in the coupled branch: `set_coupled_node_and_min_distance` on the visited node `(ci, ni)` with
  `(cj, n2)` and on the face node `(cj, n2)` with `(ci, ni)`, where `n2` is one of the three corners of the face handed over.
  Later, closer candidates overwrite earlier entries, on either side.

  `Step ok st st'` is the relation that survives all of this: every slot of the table holds what it held before, or it is an
  `ok` slot that now names an `ok` slot of ANOTHER cell.  It is reflexive and transitive, every `applyOut` of the search is a
  `Step`, hence the whole fold is one (`contactSearch_step`, `contactSearchR_step`).  `ok` = "the slot exists" in
  Model/Tissue.lean (all slots in use) and "the slot exists and is used" in Model/TissueR.lean.

  Nothing here needs arithmetic: every statement holds for ANY scalar type with the operations (also `Float`), for every
  `Fn` pack, every grid, whatever the geometric tests and `resolve_contact` (`Gen.rule1`) answer.
-/
set_option linter.unusedSectionVars false
set_option linter.unusedVariables false
namespace Simu.C03S
open Simu Simu.Gen Simu.Tissue

variable {R : Type} [Add R] [Sub R] [Mul R] [Div R] [Neg R] [Lit R] [LT R] [LE R] [DecidableLT R] [DecidableLE R] [DecidableEq R]

/-! ### the table and the relation the search preserves -/

/-- `cell_lst[ci]->node_lst_[ni].coupled_node_` in the table `st` (`none` also when the slot does not exist) -/
def coupOf (st : Array (Mut R)) (ci ni : Nat) : Option (Nat × Nat) :=
  match st[ci]? with
  | some m => m.coup.getD ni none
  | none => none

/-- every slot holds what it held, or it is an `ok` slot that names an `ok` slot of another cell -/
def Step (ok : Nat → Nat → Prop) (st st' : Array (Mut R)) : Prop :=
  st'.size = st.size ∧ ∀ cj nj : Nat, coupOf st' cj nj = coupOf st cj nj ∨
    (ok cj nj ∧ ∃ q : Nat × Nat, coupOf st' cj nj = some q ∧ ok q.1 q.2 ∧ q.1 ≠ cj)

theorem Step.refl (ok : Nat → Nat → Prop) (st : Array (Mut R)) : Step ok st st := ⟨rfl, fun _ _ => Or.inl rfl⟩

theorem Step.trans {ok : Nat → Nat → Prop} {a b c : Array (Mut R)} (h1 : Step ok a b) (h2 : Step ok b c) : Step ok a c := by
  refine ⟨h2.1.trans h1.1, fun cj nj => ?_⟩
  rcases h2.2 cj nj with e | h
  · rcases h1.2 cj nj with e1 | h'
    · exact Or.inl (e.trans e1)
    · obtain ⟨ho, q, hq, h3⟩ := h'
      exact Or.inr ⟨ho, q, e.trans hq, h3⟩
  · exact Or.inr h

/-- a fold of steps is a step -/
theorem step_foldl {ι : Type} (ok : Nat → Nat → Prop) (f : Array (Mut R) → ι → Array (Mut R)) (l : List ι)
    (h : ∀ i ∈ l, ∀ s, Step ok s (f s i)) (s : Array (Mut R)) : Step ok s (l.foldl f s) := by
  induction l generalizing s with
  | nil => exact Step.refl ok s
  | cons a l ih =>
    rw [List.foldl_cons]
    exact (h a (List.mem_cons_self ..) s).trans (ih (fun i hi => h i (List.mem_cons_of_mem _ hi)) (f s a))

/-- `set_coupled_node_and_min_distance` on an `ok` slot with an `ok` slot of another cell -/
theorem step_setCoup (ok : Nat → Nat → Prop) (st : Array (Mut R)) (ci ni : Nat) (q : Nat × Nat) (d : R)
    (h1 : ok ci ni) (h2 : ok q.1 q.2) (hne : q.1 ≠ ci) :
    Step ok st (st.modify ci fun m => { m with coup := m.coup.setIfInBounds ni (some q), sqd := m.sqd.setIfInBounds ni d }) := by
  refine ⟨Array.size_modify, fun cj nj => ?_⟩
  unfold coupOf
  rw [Array.getElem?_modify]
  by_cases hc : ci = cj
  · subst hc
    rw [if_pos rfl]
    cases hm : st[ci]? with
    | none => exact Or.inl rfl
    | some m =>
      simp only [Option.map_some]
      rw [Array.getD_eq_getD_getElem?, Array.getD_eq_getD_getElem?, Array.getElem?_setIfInBounds]
      by_cases hn : ni = nj
      · subst hn
        rw [if_pos rfl]
        by_cases hs : ni < m.coup.size
        · rw [if_pos hs]
          exact Or.inr ⟨h1, q, rfl, h2, hne⟩
        · rw [if_neg hs, Array.getElem?_eq_none (Nat.le_of_not_lt hs)]
          exact Or.inl rfl
      · rw [if_neg hn]
        exact Or.inl rfl
  · rw [if_neg hc]
    exact Or.inl rfl

/-- `add_force` does not touch the table -/
theorem step_force (ok : Nat → Nat → Prop) (st : Array (Mut R)) (ci : Nat) (g : Array (V3 R) → Array (V3 R)) :
    Step ok st (st.modify ci fun m => { m with force := g m.force }) := by
  refine ⟨Array.size_modify, fun cj nj => Or.inl ?_⟩
  unfold coupOf
  rw [Array.getElem?_modify]
  by_cases hc : ci = cj
  · subst hc
    rw [if_pos rfl]
    cases st[ci]? with
    | none => rfl
    | some m => rfl
  · rw [if_neg hc]

/-! ### one `resolve_contact`, one voxel entry, one node -/

/-- `resolve_contact` couples only when both cells are epithelial (type id 0) -/
theorem rule1_coupled (fn : Fn R) (P : CParams R) (c1 c2 : CCell R) (n1 : CNode R) (f : CFace R) (a b c : CNode R)
    (h : (rule1 fn P c1 c2 n1 f a b c).coupled = true) : c1.type = 0 ∧ c2.type = 0 := by
  unfold rule1 at h
  split at h
  · assumption
  · cases h

/-- the effects of one `resolve_contact`: when it couples, the visited slot `(ci, ni)` and the corners of the face of the other
    cell `cj` are `ok` -/
theorem applyOut_step (ok : Nat → Nat → Prop) (st : Array (Mut R)) (ci ni cj : Nat) (f : Forces.Face) (o : PairOut R)
    (h : o.coupled = true → ok ci ni ∧ (ok cj f.a ∧ ok cj f.b ∧ ok cj f.c)) (hne : cj ≠ ci) :
    Step ok st (applyOut st ci ni cj f o) := by
  unfold applyOut
  by_cases hc : o.coupled = true
  · rw [if_pos hc]
    obtain ⟨h1, hf⟩ := h hc
    have hn2 : ok cj (if o.idx = 1 then f.a else if o.idx = 2 then f.b else f.c) := by
      split_ifs
      · exact hf.1
      · exact hf.2.1
      · exact hf.2.2
    exact (step_setCoup ok st ci ni (cj, _) o.dist h1 hn2 hne).trans
      (step_setCoup ok _ cj _ (ci, ni) o.dist hn2 h1 (Ne.symm hne))
  · rw [if_neg hc]
    exact (step_force ok st cj fun F =>
        ((F.modify f.a (fun v => v + o.forces.f1)).modify f.b (fun v => v + o.forces.f2)).modify f.c (fun v => v + o.forces.f3)).trans
      (step_force ok _ ci fun F => F.modify ni (fun v => v + o.forces.fn))

/-- the faces of the epithelial cells of the global face list have `ok` corners -/
def FacesOk (ok : Nat → Nat → Prop) (geo : Array (Geo R)) : Prop :=
  ∀ (cj : Nat) (g : Geo R) (fj : Nat) (f : Forces.Face), geo[cj]? = some g → g.faces[fj]? = some f → g.k.kind = 0 →
    ok cj f.a ∧ ok cj f.b ∧ ok cj f.c

theorem pairStep_step (ok : Nat → Nat → Prop) (fn : Fn R) (P : CParams R) (geo : Array (Geo R)) (gf : Array (Nat × Nat))
    (ci ni : Nat) (st : Array (Mut R)) (gid : Nat) (h1 : ∀ g1, geo[ci]? = some g1 → g1.k.kind = 0 → ok ci ni) (hF : FacesOk ok geo)
    (hne : ∀ q, gf[gid]? = some q → q.1 ≠ ci) : Step ok st (pairStep fn P geo gf ci ni st gid) := by
  unfold pairStep
  cases hq : gf[gid]? with
  | none => exact Step.refl ok st
  | some q =>
    dsimp only
    cases hg1 : geo[ci]? with
    | none => exact Step.refl ok st
    | some g1 =>
      dsimp only
      cases hg2 : geo[q.1]? with
      | none => exact Step.refl ok st
      | some g2 =>
        dsimp only
        cases hf : g2.faces[q.2]? with
        | none => exact Step.refl ok st
        | some f =>
          dsimp only
          split
          · refine applyOut_step ok st ci ni q.1 f _ (fun hcp => ?_) (hne q hq)
            obtain ⟨t1, t2⟩ := rule1_coupled _ _ _ _ _ _ _ _ _ hcp
            exact ⟨h1 g1 hg1 t1, hF q.1 g2 q.2 f hg2 hf t2⟩
          · exact Step.refl ok st

theorem nodeSearch_step (ok : Nat → Nat → Prop) (fn : Fn R) (P : CParams R) (geo : Array (Geo R)) (gf : Array (Nat × Nat))
    (cand : Nat → Nat → List Nat) (st : Array (Mut R)) (k : Nat × Nat) (h1 : ∀ g1, geo[k.1]? = some g1 → g1.k.kind = 0 → ok k.1 k.2)
    (hF : FacesOk ok geo) (hne : ∀ gid ∈ cand k.1 k.2, ∀ q, gf[gid]? = some q → q.1 ≠ k.1) :
    Step ok st (nodeSearch fn P geo gf cand st k) := by
  unfold nodeSearch
  cases geo[k.1]? with
  | none => exact Step.refl ok st
  | some g1 =>
    simp only []
    split
    · exact step_foldl ok _ _ (fun gid hgid s => pairStep_step ok fn P geo gf k.1 k.2 s gid h1 hF (hne gid hgid)) st
    · exact Step.refl ok st

/-! ### the voxel lookup hands over faces of OTHER cells only -/

/-- `c1->get_id() != c2->get_id()` in front of `resolve_contact`: a face the lookup hands over for a node belongs to another
    cell (whatever the grid is: no hypothesis on `floor`, padding or voxel size) -/
theorem candidates_cell (fn : Fn R) (g : GDims R) (grid : List (List Nat)) (pad : R) (fs : List (BP.BFace R)) (n : BP.BNode R)
    (i : Nat) (h : i ∈ BP.candidates fn g grid (BP.faceRecs pad fs) n) : ∃ f, fs[i]? = some f ∧ n.cell ≠ f.cell := by
  unfold BP.candidates at h
  have h2 := (List.mem_filter.mp h).2
  unfold BP.spatialTest BP.faceRecs at h2
  rw [List.getElem?_map] at h2
  cases hf : fs[i]? with
  | none => rw [hf] at h2; cases h2
  | some f =>
    rw [hf] at h2
    simp only [Option.map_some, Bool.and_eq_true, decide_eq_true_eq] at h2
    exact ⟨f, rfl, h2.1⟩

/-- `face_lst_[gid]->owner_cell` is the cell that `global_face_id_` ↦ (cell, face slot) names -/
theorem bfaces_cell (cells : List (Cell R)) :
    (bfaces cells).map (fun b => b.cell) = (faceIndex cells).toList.map (fun q => q.1) := by
  unfold bfaces faceIndex
  rw [List.map_flatMap, List.toList_toArray, List.map_flatMap]
  congr 1
  funext ci
  rw [List.map_map, List.map_map]
  apply List.ext_getElem?
  intro i
  simp only [List.getElem?_map]
  by_cases hi : i < ci.1.faces.length
  · rw [List.getElem?_eq_getElem hi, List.getElem?_eq_getElem (by simpa using hi)]
    rfl
  · rw [List.getElem?_eq_none (Nat.le_of_not_lt hi), List.getElem?_eq_none (by simpa using Nat.le_of_not_lt hi)]
    rfl

theorem gridCandidates_other (fn : Fn R) (K : Consts R) (cells : List (Cell R)) (ci ni gid : Nat)
    (h : gid ∈ gridCandidates fn (mkGrid fn K cells) ci ni) (q : Nat × Nat) (hq : (faceIndex cells)[gid]? = some q) :
    q.1 ≠ ci := by
  unfold gridCandidates at h
  cases hx : (mkGrid fn K cells).xs[ci]? with
  | none => rw [hx] at h; cases h
  | some x =>
    rw [hx] at h
    unfold mkGrid at h
    dsimp only at h
    obtain ⟨b, hb, hne⟩ := candidates_cell fn _ _ _ (bfaces cells) _ gid h
    have e := congrArg (fun l => l[gid]?) (bfaces_cell cells)
    simp only [List.getElem?_map, hb, Option.map_some, Array.getElem?_toList, hq] at e
    intro hc
    apply hne
    rw [← hc]
    exact (Option.some.inj e).symm

/-! ### the schedule -/

theorem mem_slotsFrom : ∀ (lens : List Nat) (i : Nat) (x : Nat × Nat), x ∈ Coupling.slotsFrom i lens →
    ∃ a n, lens[a]? = some n ∧ x.1 = i + a ∧ x.2 < n := by
  intro lens
  induction lens with
  | nil => intro i x h; simp [Coupling.slotsFrom] at h
  | cons n rest ih =>
    intro i x h
    simp only [Coupling.slotsFrom, List.mem_append, List.mem_map, List.mem_range] at h
    rcases h with ⟨j, hj, rfl⟩ | h
    · exact ⟨0, n, rfl, rfl, hj⟩
    · obtain ⟨a, m, ha, h1, h2⟩ := ih (i + 1) x h
      exact ⟨a + 1, m, by simpa using ha, by omega, h2⟩

/-! ### Model/Tissue.lean: every node slot in use -/

/-- the slot exists, in an epithelial cell -/
def okT (cells : List (Cell R)) (ci ni : Nat) : Prop := ∃ c, cells[ci]? = some c ∧ ni < c.nn ∧ c.k.kind = 0

/-- the corners of every face are node slots of its cell (part of `Tissue.cellWf`) -/
def FacesInRange (cells : List (Cell R)) : Prop := ∀ c ∈ cells, ∀ f ∈ c.faces, f.a < c.nn ∧ f.b < c.nn ∧ f.c < c.nn

theorem slotOrder_ok (cells : List (Cell R)) (k : Nat × Nat) (hk : k ∈ slotOrder cells) :
    ∃ c, cells[k.1]? = some c ∧ k.2 < c.nn := by
  obtain ⟨a, n, ha, h1, h2⟩ := mem_slotsFrom _ 0 k hk
  rw [List.getElem?_map] at ha
  have : k.1 = a := by omega
  subst this
  cases hc : cells[k.1]? with
  | none => rw [hc] at ha; cases ha
  | some c =>
    rw [hc] at ha
    simp only [Option.map_some, Option.some.injEq] at ha
    exact ⟨c, rfl, ha ▸ h2⟩

theorem facesOk_T (cells : List (Cell R)) (h : FacesInRange cells) : FacesOk (okT cells) (cells.map Cell.geo).toArray := by
  intro cj g fj f hg hf
  rw [List.getElem?_toArray, List.getElem?_map] at hg
  cases hc : cells[cj]? with
  | none => rw [hc] at hg; cases hg
  | some c =>
    rw [hc] at hg
    simp only [Option.map_some, Option.some.injEq] at hg
    subst hg
    have hmem : f ∈ c.faces := by
      have : c.geo.faces = c.faces.toArray := rfl
      rw [this, List.getElem?_toArray] at hf
      exact List.mem_of_getElem? hf
    obtain ⟨h1, h2, h3⟩ := h c (List.mem_of_getElem? hc) f hmem
    intro hk0
    exact ⟨⟨c, hc, h1, hk0⟩, ⟨c, hc, h2, hk0⟩, ⟨c, hc, h3, hk0⟩⟩

theorem geo_kind (cells : List (Cell R)) (ci : Nat) (c : Cell R) (g : Geo R) (hc : cells[ci]? = some c)
    (hg : (cells.map Cell.geo).toArray[ci]? = some g) : g.k = c.k := by
  rw [List.getElem?_toArray, List.getElem?_map, hc, Option.map_some, Option.some.injEq] at hg
  rw [← hg]; rfl

/-- **the whole search of Model/Tissue.lean is a `Step`** from the reset table -/
theorem contactSearch_step (fn : Fn R) (K : Consts R) (cells : List (Cell R)) (hF : FacesInRange cells) :
    Step (okT cells) (cells.map (resetMut K)).toArray (contactSearch fn K cells) := by
  unfold contactSearch
  dsimp only
  apply step_foldl
  intro k hk s
  obtain ⟨c, hc, hlt⟩ := slotOrder_ok cells k hk
  exact nodeSearch_step _ fn _ _ _ _ s k (fun g1 hg1 hk0 => ⟨c, hc, hlt, by rw [← geo_kind cells k.1 c g1 hc hg1]; exact hk0⟩)
    (facesOk_T cells hF) (fun gid hg q hq => gridCandidates_other fn K cells k.1 k.2 gid hg q hq)

theorem coupOf_reset (K : Consts R) (cells : List (Cell R)) (ci ni : Nat) :
    coupOf (cells.map (resetMut K)).toArray ci ni = none := by
  unfold coupOf
  rw [List.getElem?_toArray, List.getElem?_map]
  cases cells[ci]? with
  | none => rfl
  | some c =>
    simp only [Option.map_some, resetMut]
    rw [Array.getD_eq_getD_getElem?, Array.getElem?_replicate]
    split <;> rfl

/-! ### reading the table through the adapters of Model/Tissue.lean -/

theorem writeMut_getElem? (cells : List (Cell R)) (st : Array (Mut R)) (i : Nat) :
    (writeMut cells st)[i]? = (cells[i]?).map fun c =>
      match st[i]? with
      | some m => { c with coup := m.coup, sqd := m.sqd, force := m.force }
      | none => c := by
  unfold writeMut
  rw [List.getElem?_map, List.getElem?_zipIdx]
  cases cells[i]? with
  | none => rfl
  | some c =>
    simp only [Option.map_some, Nat.zero_add]
    cases st[i]? <;> rfl

theorem get_toPop (cells : List (Cell R)) (k : Nat × Nat) :
    Coupling.get (toPop cells) k
      = (cells[k.1]?).bind fun c => if k.2 < c.nn then some ⟨true, c.coup.getD k.2 none, c.pos.get k.2⟩ else none := by
  unfold Coupling.get toPop
  rw [List.getElem?_map]
  cases cells[k.1]? with
  | none => rfl
  | some c =>
    simp only [Option.map_some, Option.bind_some, List.getElem?_map]
    by_cases h : k.2 < c.nn
    · rw [if_pos h, List.getElem?_range h]; rfl
    · rw [if_neg h, List.getElem?_eq_none (by simpa using Nat.le_of_not_lt h)]; rfl

theorem get_toPop_writeMut (cells : List (Cell R)) (st : Array (Mut R)) (hs : st.size = cells.length) (k : Nat × Nat) :
    Coupling.get (toPop (writeMut cells st)) k
      = (cells[k.1]?).bind fun c => if k.2 < c.nn then some ⟨true, coupOf st k.1 k.2, c.pos.get k.2⟩ else none := by
  rw [get_toPop, writeMut_getElem?]
  cases hc : cells[k.1]? with
  | none => rfl
  | some c =>
    have hlt : k.1 < st.size := by
      rw [hs]
      rcases Nat.lt_or_ge k.1 cells.length with h | h
      · exact h
      · rw [List.getElem?_eq_none h] at hc; cases hc
    simp only [Option.map_some, Option.bind_some, coupOf, Array.getElem?_eq_getElem hlt]
    rfl

theorem size_reset (K : Consts R) (cells : List (Cell R)) : (cells.map (resetMut K)).toArray.size = cells.length := by
  simp only [List.size_toArray, List.length_map]

/-- one `set_coupled_node_and_min_distance(q, d)` on the node slot `(w.1, w.2.1)` -/
def setCoupW (s : Array (Mut R)) (w : Nat × Nat × (Nat × Nat) × R) : Array (Mut R) :=
  s.modify w.1 fun m => { m with coup := m.coup.setIfInBounds w.2.1 (some w.2.2.1), sqd := m.sqd.setIfInBounds w.2.1 w.2.2.2 }

/-- **schedule independence**: ANY sequence of `set_coupled_node_and_min_distance` calls, each on an `ok` slot with an `ok` slot of
    another cell — in particular any interleaving of the (locked, hence atomic) calls that several threads make from
    `resolve_contact`, whatever they read — is a `Step` -/
theorem step_writes (ok : Nat → Nat → Prop) (ws : List (Nat × Nat × (Nat × Nat) × R))
    (h : ∀ w ∈ ws, ok w.1 w.2.1 ∧ ok w.2.2.1.1 w.2.2.1.2 ∧ w.2.2.1.1 ≠ w.1) (st : Array (Mut R)) :
    Step ok st (ws.foldl setCoupW st) :=
  step_foldl ok setCoupW ws (fun w hw s => step_setCoup ok s w.1 w.2.1 w.2.2.1 w.2.2.2 (h w hw).1 (h w hw).2.1 (h w hw).2.2) st

/-- every table reached by a `Step` from the reset table satisfies the statement of `SearchOK` -/
theorem searchTable_T_of_step (K : Consts R) (cells : List (Cell R)) (st : Array (Mut R))
    (hstep : Step (okT cells) (cells.map (resetMut K)).toArray st) (k j : Nat × Nat)
    (n : Coupling.CNode R) (hk : Coupling.get (toPop (writeMut cells st)) k = some n) (hc : n.coup = some j) :
    ∃ m : Coupling.CNode R, Coupling.get (toPop (writeMut cells st)) j = some m ∧ m.used = true ∧ j.1 ≠ k.1 := by
  obtain ⟨hsz, hst⟩ := hstep
  have hs : st.size = cells.length := hsz.trans (size_reset K cells)
  rw [get_toPop_writeMut cells _ hs] at hk ⊢
  cases hck : cells[k.1]? with
  | none => rw [hck] at hk; cases hk
  | some c =>
    rw [hck, Option.bind_some] at hk
    split at hk
    · simp only [Option.some.injEq] at hk
      subst hk
      simp only at hc
      rcases hst k.1 k.2 with e | ⟨_, q, hq, ⟨c2, hc2, hlt, _⟩, hne⟩
      · rw [e, coupOf_reset] at hc; cases hc
      · rw [hq, Option.some.injEq] at hc
        subst hc
        exact ⟨_, by rw [hc2, Option.bind_some, if_pos hlt], rfl, hne⟩
    · cases hk

/-- **what the modelled search hands to the tail loops (Model/Tissue.lean)**: every coupling in the table names an existing
    slot of ANOTHER cell -/
theorem searchTable_T (fn : Fn R) (K : Consts R) (cells : List (Cell R)) (hF : FacesInRange cells) (k j : Nat × Nat)
    (n : Coupling.CNode R) (hk : Coupling.get (toPop (writeMut cells (contactSearch fn K cells))) k = some n)
    (hc : n.coup = some j) :
    ∃ m : Coupling.CNode R, Coupling.get (toPop (writeMut cells (contactSearch fn K cells))) j = some m ∧ m.used = true ∧
      j.1 ≠ k.1 :=
  searchTable_T_of_step K cells _ (contactSearch_step fn K cells hF) k j n hk hc

/-- a coupling in the table of the search joins two EPITHELIAL cells (`resolve_contact` couples under
    `c1->get_cell_type_id() == 0 && c2->get_cell_type_id() == 0` only) -/
theorem searchTable_T_kinds (fn : Fn R) (K : Consts R) (cells : List (Cell R)) (hF : FacesInRange cells) (k j : Nat × Nat)
    (n : Coupling.CNode R) (hk : Coupling.get (toPop (writeMut cells (contactSearch fn K cells))) k = some n)
    (hc : n.coup = some j) :
    ∃ c1 c2, cells[k.1]? = some c1 ∧ cells[j.1]? = some c2 ∧ c1.k.kind = 0 ∧ c2.k.kind = 0 := by
  obtain ⟨hsz, hst⟩ := contactSearch_step fn K cells hF
  have hs : (contactSearch fn K cells).size = cells.length := hsz.trans (size_reset K cells)
  rw [get_toPop_writeMut cells _ hs] at hk
  cases hck : cells[k.1]? with
  | none => rw [hck] at hk; cases hk
  | some c =>
    rw [hck, Option.bind_some] at hk
    split at hk
    · simp only [Option.some.injEq] at hk
      subst hk
      simp only at hc
      rcases hst k.1 k.2 with e | ⟨⟨c1, hc1, _, hk1⟩, q, hq, ⟨c2, hc2, _, hk2⟩, _⟩
      · rw [e, coupOf_reset] at hc; cases hc
      · rw [hq, Option.some.injEq] at hc
        subst hc
        rw [hck] at hc1
        exact ⟨c1, c2, hc1, hc2, hk1, hk2⟩
    · cases hk

theorem toPop_used (cells : List (Cell R)) (k : Nat × Nat) (n : Coupling.CNode R) (hk : Coupling.get (toPop cells) k = some n) :
    n.used = true := by
  rw [get_toPop] at hk
  cases hck : cells[k.1]? with
  | none => rw [hck] at hk; cases hk
  | some c =>
    rw [hck, Option.bind_some] at hk
    split at hk
    · simp only [Option.some.injEq] at hk
      subst hk; rfl
    · cases hk

/-! ### Model/TissueR.lean: meshes with released node / face slots -/
section released
open Simu.TissueR Simu.Remesh

/-- the slot exists and `is_used()`, in an epithelial cell -/
def okR (cells : List (CellTR R)) (ci ni : Nat) : Prop := ∃ c, cells[ci]? = some c ∧ usedN c.mesh ni = true ∧ c.k.kind = 0

/-- the corners of every USED face are USED node slots of its cell (first clause of `Remesh.liveCell`, part of
    `PipelineR.meshOk` / `TissueR.cellMeshOk`) -/
def FacesLive (cells : List (CellTR R)) : Prop :=
  ∀ c ∈ cells, ∀ f ∈ PipelineR.liveF c.mesh, usedN c.mesh f.a = true ∧ usedN c.mesh f.b = true ∧ usedN c.mesh f.c = true

theorem facesLive_of_liveCell (cells : List (CellTR R)) (h : ∀ c ∈ cells, liveCell c.mesh = true) : FacesLive cells := by
  intro c hc f hf
  have hl := h c hc
  unfold liveCell at hl
  rw [Bool.and_eq_true, List.all_eq_true] at hl
  unfold PipelineR.liveF Forces.liveFaces PipelineR.slots at hf
  rw [List.mem_filterMap] at hf
  obtain ⟨s, hs, hsf⟩ := hf
  obtain ⟨f0, hf0, rfl⟩ := List.mem_map.mp hs
  have h0 := hl.1 f0 hf0
  simp only at hsf
  cases hu : f0.used with
  | false => rw [hu] at hsf; simp at hsf
  | true =>
    rw [hu] at hsf h0
    simp only [if_true, Option.some.injEq] at hsf
    subst hsf
    simp only [Bool.not_true, Bool.false_or, fUsed, Bool.and_eq_true] at h0
    exact ⟨h0.1.1, h0.1.2, h0.2⟩

theorem usedAt_ok (cells : List (CellTR R)) (k : Nat × Nat) (h : usedAt (usedArr cells) k = true) :
    ∃ c, cells[k.1]? = some c ∧ usedN c.mesh k.2 = true := by
  unfold usedAt usedArr at h
  simp only [List.getElem?_toArray, List.getElem?_map] at h
  cases hc : cells[k.1]? with
  | none => rw [hc] at h; simp at h
  | some c =>
    refine ⟨c, rfl, ?_⟩
    rw [hc] at h
    simp only [Option.map_some, Array.getElem?_map] at h
    unfold usedN
    cases hn : c.mesh.nodes[k.2]? with
    | none => rw [hn] at h; simp at h
    | some n => rw [hn] at h; simpa using h

theorem facesOk_R (cells : List (CellTR R)) (h : FacesLive cells) :
    FacesOk (okR cells) ((cells.map view).map Cell.geo).toArray := by
  intro cj g fj f hg hf
  rw [List.getElem?_toArray, List.getElem?_map, List.getElem?_map] at hg
  cases hc : cells[cj]? with
  | none => rw [hc] at hg; cases hg
  | some c =>
    rw [hc] at hg
    simp only [Option.map_some, Option.some.injEq] at hg
    subst hg
    have hmem : f ∈ PipelineR.liveF c.mesh := by
      have : (view c).geo.faces = (PipelineR.liveF c.mesh).toArray := rfl
      rw [this, List.getElem?_toArray] at hf
      exact List.mem_of_getElem? hf
    obtain ⟨h1, h2, h3⟩ := h c (List.mem_of_getElem? hc) f hmem
    intro hk0
    exact ⟨⟨c, hc, h1, hk0⟩, ⟨c, hc, h2, hk0⟩, ⟨c, hc, h3, hk0⟩⟩

theorem geoR_kind (cells : List (CellTR R)) (ci : Nat) (c : CellTR R) (g : Geo R) (hc : cells[ci]? = some c)
    (hg : ((cells.map view).map Cell.geo).toArray[ci]? = some g) : g.k = c.k := by
  rw [List.getElem?_toArray, List.getElem?_map, List.getElem?_map, hc, Option.map_some, Option.map_some, Option.some.injEq] at hg
  rw [← hg]; rfl

/-- **the whole search of Model/TissueR.lean is a `Step`** from the table in which the USED nodes were reset -/
theorem contactSearchR_step (fn : Fn R) (K : Consts R) (cells : List (CellTR R)) (hF : FacesLive cells) :
    Step (okR cells) (cells.map (resetMutR K)).toArray (contactSearchR fn K cells) := by
  unfold contactSearchR
  dsimp only
  apply step_foldl
  intro k hk s
  split
  · rename_i hu
    obtain ⟨c, hc, huc⟩ := usedAt_ok cells k hu
    exact nodeSearch_step _ fn _ _ _ _ s k (fun g1 hg1 hk0 => ⟨c, hc, huc, by rw [← geoR_kind cells k.1 c g1 hc hg1]; exact hk0⟩)
      (facesOk_R cells hF) (fun gid hg q hq => gridCandidates_other fn K (cells.map view) k.1 k.2 gid hg q hq)
  · exact Step.refl _ s

/-- the table in front of the search: a USED slot carries no coupling, a released slot carries what it carried -/
theorem coupOf_resetR (K : Consts R) (cells : List (CellTR R)) (ci ni : Nat) :
    coupOf (cells.map (resetMutR K)).toArray ci ni =
      match cells[ci]? with
      | some c => if usedN c.mesh ni = true then none else c.a.coup.getD ni none
      | none => none := by
  unfold coupOf
  rw [List.getElem?_toArray, List.getElem?_map]
  cases cells[ci]? with
  | none => rfl
  | some c =>
    simp only [Option.map_some, resetMutR]
    rw [Array.getD_eq_getD_getElem?, Array.getElem?_mapIdx, Array.getD_eq_getD_getElem?]
    cases c.a.coup[ni]? with
    | none => simp
    | some q => simp only [Option.map_some, Option.getD_some]

theorem size_resetR (K : Consts R) (cells : List (CellTR R)) : (cells.map (resetMutR K)).toArray.size = cells.length := by
  simp only [List.size_toArray, List.length_map]

theorem writeMutR_getElem? (cells : List (CellTR R)) (st : Array (Mut R)) (i : Nat) :
    (writeMutR cells st)[i]? = (cells[i]?).map fun c =>
      match st[i]? with
      | some m => { c with a := { c.a with coup := m.coup, sqd := m.sqd, force := m.force } }
      | none => c := by
  unfold writeMutR
  rw [List.getElem?_map, List.getElem?_zipIdx]
  cases cells[i]? with
  | none => rfl
  | some c =>
    simp only [Option.map_some, Nat.zero_add]
    cases st[i]? <;> rfl

theorem get_toPopR (cells : List (CellTR R)) (k : Nat × Nat) :
    Coupling.get (toPopR cells) k
      = (cells[k.1]?).bind fun c => if k.2 < c.mesh.nodes.size then
          some ⟨usedN c.mesh k.2, c.a.coup.getD k.2 none, (viewPos c.mesh).get k.2⟩ else none := by
  unfold Coupling.get toPopR
  rw [List.getElem?_map]
  cases cells[k.1]? with
  | none => rfl
  | some c =>
    simp only [Option.map_some, Option.bind_some, toPopCell, List.getElem?_map]
    by_cases h : k.2 < c.mesh.nodes.size
    · rw [if_pos h, List.getElem?_range h]; rfl
    · rw [if_neg h, List.getElem?_eq_none (by simpa using Nat.le_of_not_lt h)]; rfl

theorem get_toPopR_writeMutR (cells : List (CellTR R)) (st : Array (Mut R)) (hs : st.size = cells.length) (k : Nat × Nat) :
    Coupling.get (toPopR (writeMutR cells st)) k
      = (cells[k.1]?).bind fun c => if k.2 < c.mesh.nodes.size then
          some ⟨usedN c.mesh k.2, coupOf st k.1 k.2, (viewPos c.mesh).get k.2⟩ else none := by
  rw [get_toPopR, writeMutR_getElem?]
  cases hc : cells[k.1]? with
  | none => rfl
  | some c =>
    have hlt : k.1 < st.size := by
      rw [hs]
      rcases Nat.lt_or_ge k.1 cells.length with h | h
      · exact h
      · rw [List.getElem?_eq_none h] at hc; cases hc
    simp only [Option.map_some, Option.bind_some, coupOf, Array.getElem?_eq_getElem hlt]

theorem usedN_lt {m : Remesh.Cell R} {i : Nat} (h : usedN m i = true) : i < m.nodes.size := by
  unfold usedN at h
  rcases Nat.lt_or_ge i m.nodes.size with h' | h'
  · exact h'
  · rw [Array.getElem?_eq_none h'] at h; cases h

/-- **what the modelled search hands to the tail loops (Model/TissueR.lean)**: the coupling of a USED node names an existing
    USED slot of ANOTHER cell (no hypothesis on what the released slots carried) -/
theorem searchTable_R (fn : Fn R) (K : Consts R) (cells : List (CellTR R)) (hF : FacesLive cells) (k j : Nat × Nat)
    (n : Coupling.CNode R) (hk : Coupling.get (toPopR (writeMutR cells (contactSearchR fn K cells))) k = some n)
    (hu : n.used = true) (hc : n.coup = some j) :
    ∃ m : Coupling.CNode R, Coupling.get (toPopR (writeMutR cells (contactSearchR fn K cells))) j = some m ∧ m.used = true ∧
      j.1 ≠ k.1 := by
  obtain ⟨hsz, hst⟩ := contactSearchR_step fn K cells hF
  have hs : (contactSearchR fn K cells).size = cells.length := hsz.trans (size_resetR K cells)
  rw [get_toPopR_writeMutR cells _ hs] at hk ⊢
  cases hck : cells[k.1]? with
  | none => rw [hck] at hk; cases hk
  | some c =>
    rw [hck, Option.bind_some] at hk
    split at hk
    · simp only [Option.some.injEq] at hk
      subst hk
      simp only at hc hu
      rcases hst k.1 k.2 with e | ⟨_, q, hq, ⟨c2, hc2, hu2, _⟩, hne⟩
      · rw [e, coupOf_resetR, hck] at hc
        simp only [hu, if_true] at hc
        cases hc
      · rw [hq, Option.some.injEq] at hc
        subst hc
        exact ⟨_, by rw [hc2, Option.bind_some, if_pos (usedN_lt hu2)], hu2, hne⟩
    · cases hk

theorem searchTable_R_kinds (fn : Fn R) (K : Consts R) (cells : List (CellTR R)) (hF : FacesLive cells) (k j : Nat × Nat)
    (n : Coupling.CNode R) (hk : Coupling.get (toPopR (writeMutR cells (contactSearchR fn K cells))) k = some n)
    (hu : n.used = true) (hc : n.coup = some j) :
    ∃ c1 c2, cells[k.1]? = some c1 ∧ cells[j.1]? = some c2 ∧ c1.k.kind = 0 ∧ c2.k.kind = 0 := by
  obtain ⟨hsz, hst⟩ := contactSearchR_step fn K cells hF
  have hs : (contactSearchR fn K cells).size = cells.length := hsz.trans (size_resetR K cells)
  rw [get_toPopR_writeMutR cells _ hs] at hk
  cases hck : cells[k.1]? with
  | none => rw [hck] at hk; cases hk
  | some c =>
    rw [hck, Option.bind_some] at hk
    split at hk
    · simp only [Option.some.injEq] at hk
      subst hk
      simp only at hc hu
      rcases hst k.1 k.2 with e | ⟨⟨c1, hc1, _, hk1⟩, q, hq, ⟨c2, hc2, _, hk2⟩, _⟩
      · rw [e, coupOf_resetR, hck] at hc
        simp only [hu, if_true] at hc
        cases hc
      · rw [hq, Option.some.injEq] at hc
        subst hc
        rw [hck] at hc1
        exact ⟨c1, c2, hc1, hc2, hk1, hk2⟩
    · cases hk

/-- **the search never writes a released slot**: after the search a released slot carries the coupling it carried before
    the contact phase -/
theorem searchTable_R_released (fn : Fn R) (K : Consts R) (cells : List (CellTR R)) (hF : FacesLive cells) (k : Nat × Nat)
    (n : Coupling.CNode R) (hk : Coupling.get (toPopR (writeMutR cells (contactSearchR fn K cells))) k = some n)
    (hu : n.used = false) :
    ∃ c, cells[k.1]? = some c ∧ k.2 < c.mesh.nodes.size ∧ usedN c.mesh k.2 = false ∧ n.coup = c.a.coup.getD k.2 none := by
  obtain ⟨hsz, hst⟩ := contactSearchR_step fn K cells hF
  have hs : (contactSearchR fn K cells).size = cells.length := hsz.trans (size_resetR K cells)
  rw [get_toPopR_writeMutR cells _ hs] at hk
  cases hck : cells[k.1]? with
  | none => rw [hck] at hk; cases hk
  | some c =>
    rw [hck, Option.bind_some] at hk
    split at hk
    · rename_i hlt
      simp only [Option.some.injEq] at hk
      subst hk
      simp only at hu ⊢
      refine ⟨c, rfl, hlt, hu, ?_⟩
      rcases hst k.1 k.2 with e | ⟨⟨c2, hc2, hu2, _⟩, _⟩
      · rw [e, coupOf_resetR, hck]
        simp only [hu]
        rfl
      · rw [hck, Option.some.injEq] at hc2
        subst hc2
        rw [hu] at hu2; cases hu2
    · cases hk

end released

/-! ### what the pass keeps, and the write-back of its result -/
section writeback
open Simu.Coupling

/-- the pass keeps the slots and the used flags, and a coupling is the original one or `none` -/
theorem pass_frame (p p2 : Pop R) (h : pass p = some p2) :
    (∀ (k : Slot) (n' : Coupling.CNode R), Coupling.get p2 k = some n' →
      ∃ n, Coupling.get p k = some n ∧ n'.used = n.used ∧ (n'.coup = n.coup ∨ n'.coup = none)) ∧
    (∀ (k : Slot) (n : Coupling.CNode R), Coupling.get p k = some n → ∃ n', Coupling.get p2 k = some n') := by
  unfold pass at h
  cases h1 : symmetrise p with
  | none => rw [h1] at h; cases h
  | some p1 =>
    rw [h1] at h
    have h2 : midpoints p1 = some p2 := h
    obtain ⟨_, htb⟩ := midpoints_table p1 p2 h2
    obtain ⟨_, _, hpt⟩ := symmetrise_pointwise p p1 h1
    constructor
    · intro k n' hk
      have e := htb k
      rw [hk, hpt k] at e
      cases hp : Coupling.get p k with
      | none => rw [hp] at e; cases e
      | some n =>
        rw [hp] at e
        simp only [Option.map_some, Option.some.injEq, tbl, Prod.mk.injEq] at e
        refine ⟨n, rfl, by rw [e.1, symNode_used], ?_⟩
        rw [e.2]
        exact symNode_coup p k n
    · intro k n hk
      have e := htb k
      rw [hpt k, hk] at e
      cases hp2 : Coupling.get p2 k with
      | none => rw [hp2] at e; cases e
      | some n' => exact ⟨n', rfl⟩

theorem ofPop_getElem? (cells : List (Cell R)) (p : Pop R) (i : Nat) :
    (ofPop cells p)[i]? = (cells[i]?).map fun c =>
      match p[i]? with
      | some l => ofPopCell c l
      | none => c := by
  unfold ofPop
  rw [List.getElem?_map, List.getElem?_zipIdx]
  cases cells[i]? with
  | none => rfl
  | some c =>
    simp only [Option.map_some, Nat.zero_add]
    cases p[i]? <;> rfl

theorem ofPopCell_nn (c : Cell R) (l : List (Coupling.CNode R)) : (ofPopCell c l).nn = c.nn := by
  simp only [ofPopCell, Cell.nn, Array.size_map, Array.size_range]

theorem ofPopCell_coup (c : Cell R) (l : List (Coupling.CNode R)) (i : Nat) (hi : i < c.nn) :
    (ofPopCell c l).coup.getD i none = ((l[i]?).map fun n => n.coup).getD (c.coup.getD i none) := by
  simp only [ofPopCell]
  rw [Array.getD_eq_getD_getElem?, Array.getElem?_map, Array.getElem?_range, if_pos hi]
  simp only [Option.map_some, Option.getD_some, List.getElem?_toArray]

theorem ofPopCell_pos (c : Cell R) (l : List (Coupling.CNode R)) (i : Nat) (hi : i < c.nn) :
    (ofPopCell c l).pos.get i = ((l[i]?).map fun n => n.pos).getD (c.pos.get i) := by
  simp only [ofPopCell]
  unfold Pipeline.Slots.get
  simp only
  rw [Array.getElem?_map, Array.getElem?_range, if_pos hi]
  simp only [Option.map_some, List.getElem?_toArray]

/-- **the adapter back**: the table of the cells after the write-back of the result of the pass IS that result -/
theorem get_toPop_ofPop (cells : List (Cell R)) (p2 : Pop R) (h : pass (toPop cells) = some p2) (k : Slot) :
    Coupling.get (toPop (ofPop cells p2)) k = Coupling.get p2 k := by
  obtain ⟨hf1, hf2⟩ := pass_frame _ _ h
  rw [get_toPop, ofPop_getElem?]
  cases hc : cells[k.1]? with
  | none =>
    simp only [Option.map_none, Option.bind_none]
    cases hp2 : Coupling.get p2 k with
    | none => rfl
    | some n' =>
      obtain ⟨n, hn, _⟩ := hf1 k n' hp2
      rw [get_toPop, hc] at hn; cases hn
  | some c =>
    simp only [Option.map_some, Option.bind_some]
    have hnn : (match p2[k.1]? with | some l => ofPopCell c l | none => c).nn = c.nn := by
      cases p2[k.1]? with
      | none => rfl
      | some l => exact ofPopCell_nn c l
    rw [hnn]
    by_cases hi : k.2 < c.nn
    · rw [if_pos hi]
      have hk : Coupling.get (toPop cells) k = some ⟨true, c.coup.getD k.2 none, c.pos.get k.2⟩ := by
        rw [get_toPop, hc, Option.bind_some, if_pos hi]
      obtain ⟨n', hn'⟩ := hf2 k _ hk
      obtain ⟨n, hn, hu, _⟩ := hf1 k n' hn'
      rw [hk, Option.some.injEq] at hn
      subst hn
      rw [hn']
      unfold Coupling.get at hn'
      cases hl : p2[k.1]? with
      | none => rw [hl] at hn'; cases hn'
      | some l =>
        rw [hl] at hn'
        simp only at hn' ⊢
        rw [ofPopCell_coup c l k.2 hi, ofPopCell_pos c l k.2 hi, hn']
        simp only [Option.map_some, Option.getD_some]
        cases n'
        simp only at hu
        subst hu
        rfl
    · rw [if_neg hi]
      cases hp2 : Coupling.get p2 k with
      | none => rfl
      | some n' =>
        obtain ⟨n, hn, _⟩ := hf1 k n' hp2
        rw [get_toPop, hc, Option.bind_some, if_neg hi] at hn; cases hn

/-! #### Model/TissueR.lean: couplings of all slots and positions of the USED slots are written back -/
open Simu.TissueR Simu.Remesh

theorem ofPopR_getElem? (cells : List (CellTR R)) (p : Pop R) (i : Nat) :
    (ofPopR cells p)[i]? = (cells[i]?).map fun c =>
      match p[i]? with
      | some l => ofPopCellR c l
      | none => c := by
  unfold ofPopR
  rw [List.getElem?_map, List.getElem?_zipIdx]
  cases cells[i]? with
  | none => rfl
  | some c =>
    simp only [Option.map_some, Nat.zero_add]
    cases p[i]? <;> rfl

theorem ofPopCellR_size (c : CellTR R) (l : List (Coupling.CNode R)) : (ofPopCellR c l).mesh.nodes.size = c.mesh.nodes.size := by
  simp only [ofPopCellR, Array.size_mapIdx]

theorem ofPopCellR_usedN (c : CellTR R) (l : List (Coupling.CNode R)) (i : Nat) :
    usedN (ofPopCellR c l).mesh i = usedN c.mesh i := by
  simp only [ofPopCellR, usedN, Array.getElem?_mapIdx]
  cases c.mesh.nodes[i]? with
  | none => rfl
  | some n =>
    simp only [Option.map_some]
    split <;> rfl

theorem ofPopCellR_coup (c : CellTR R) (l : List (Coupling.CNode R)) (i : Nat) :
    (ofPopCellR c l).a.coup.getD i none =
      match c.a.coup[i]? with
      | some q => ((l[i]?).map fun n => n.coup).getD q
      | none => none := by
  simp only [ofPopCellR]
  rw [Array.getD_eq_getD_getElem?, Array.getElem?_mapIdx]
  cases c.a.coup[i]? with
  | none => rfl
  | some q => simp only [Option.map_some, Option.getD_some, List.getElem?_toArray]

theorem ofPopCellR_pos (c : CellTR R) (l : List (Coupling.CNode R)) (i : Nat) (n : Remesh.Node R)
    (hn : c.mesh.nodes[i]? = some n) (hu : n.used = true) :
    (viewPos (ofPopCellR c l).mesh).get i = ((l[i]?).map fun x => x.pos).getD n.pos := by
  unfold viewPos Pipeline.Slots.get
  simp only [ofPopCellR, Array.getElem?_map, Array.getElem?_mapIdx, hn, Option.map_some, hu, if_true, List.getElem?_toArray]

theorem viewPos_used (m : Remesh.Cell R) (i : Nat) (n : Remesh.Node R) (hn : m.nodes[i]? = some n) (hu : n.used = true) :
    (viewPos m).get i = n.pos := by
  unfold viewPos Pipeline.Slots.get
  simp only [Array.getElem?_map, hn, Option.map_some, hu, if_true]

/-- **the adapter back (released slots)**: after the write-back of the result of the pass every slot carries the used flag
    and the coupling of that result, and every USED slot its position -/
theorem get_toPopR_ofPopR (cells : List (CellTR R)) (p2 : Pop R) (h : pass (toPopR cells) = some p2) (k : Slot) :
    match Coupling.get p2 k with
    | none => Coupling.get (toPopR (ofPopR cells p2)) k = none
    | some n => ∃ n'' : Coupling.CNode R, Coupling.get (toPopR (ofPopR cells p2)) k = some n'' ∧ n''.used = n.used ∧
        n''.coup = n.coup ∧ (n.used = true → n''.pos = n.pos) := by
  obtain ⟨hf1, hf2⟩ := pass_frame _ _ h
  rw [get_toPopR, ofPopR_getElem?]
  cases hc : cells[k.1]? with
  | none =>
    simp only [Option.map_none, Option.bind_none]
    cases hp2 : Coupling.get p2 k with
    | none => exact trivial
    | some n' =>
      obtain ⟨n, hn, _⟩ := hf1 k n' hp2
      rw [get_toPopR, hc] at hn; cases hn
  | some c =>
    simp only [Option.map_some, Option.bind_some]
    have hnn : (match p2[k.1]? with | some l => ofPopCellR c l | none => c).mesh.nodes.size = c.mesh.nodes.size := by
      cases p2[k.1]? with
      | none => exact rfl
      | some l => exact ofPopCellR_size c l
    rw [hnn]
    by_cases hi : k.2 < c.mesh.nodes.size
    · rw [if_pos hi]
      have hk : Coupling.get (toPopR cells) k = some ⟨usedN c.mesh k.2, c.a.coup.getD k.2 none, (viewPos c.mesh).get k.2⟩ := by
        rw [get_toPopR, hc, Option.bind_some, if_pos hi]
      obtain ⟨n', hn'⟩ := hf2 k _ hk
      obtain ⟨n, hn, hu, hcp⟩ := hf1 k n' hn'
      rw [hk, Option.some.injEq] at hn
      subst hn
      simp only at hu hcp
      rw [hn']
      unfold Coupling.get at hn'
      cases hl : p2[k.1]? with
      | none => rw [hl] at hn'; cases hn'
      | some l =>
        rw [hl] at hn'
        simp only at hn' ⊢
        refine ⟨_, rfl, ?_, ?_, ?_⟩
        · simp only
          rw [ofPopCellR_usedN, hu]
        · simp only
          rw [ofPopCellR_coup, hn']
          cases hq : c.a.coup[k.2]? with
          | some q => simp only [Option.map_some, Option.getD_some]
          | none =>
            simp only
            rw [Array.getD_eq_getD_getElem?, hq] at hcp
            rcases hcp with e | e
            · rw [e]; rfl
            · rw [e]
        · intro hu'
          simp only
          rw [hu'] at hu
          have hx : ∃ nd, c.mesh.nodes[k.2]? = some nd ∧ nd.used = true := by
            unfold usedN at hu
            cases hnd : c.mesh.nodes[k.2]? with
            | none => rw [hnd] at hu; cases hu
            | some nd => rw [hnd] at hu; exact ⟨nd, rfl, hu.symm⟩
          obtain ⟨nd, hnd, hndu⟩ := hx
          rw [ofPopCellR_pos c l k.2 nd hnd hndu, hn']
          rfl
    · rw [if_neg hi]
      cases hp2 : Coupling.get p2 k with
      | none => exact rfl
      | some n' =>
        obtain ⟨n, hn, _⟩ := hf1 k n' hp2
        rw [get_toPopR, hc, Option.bind_some, if_neg hi] at hn; cases hn

end writeback

end Simu.C03S
