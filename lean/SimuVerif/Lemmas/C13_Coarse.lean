import SimuVerif.Model.Gate
import SimuVerif.Lemmas.C13_Count
import SimuVerif.Lemmas.C12_Vec
/-
  C13 — `initial_triangulation::coarse_triangulation` (model: `Gate.coarseFaces`, `Gate.centre`): every polygonal face is
  replaced by the fan of triangles around a new node.  The directed boundary edges of the polygons are kept, the spokes come in
  opposite pairs: a closed / simple polygonal surface stays closed / simple; for a planar face the fan around the mean of
  the corners encloses the same signed volume as a fan around any other point of the plane of the face.
-/
set_option linter.unusedSimpArgs false
set_option linter.unusedVariables false
set_option linter.unusedSectionVars false
namespace Simu.C13
open Simu Simu.Surface Simu.Gate Simu.Gen.Gate

/-! ### half-edges -/

/-- the directed boundary edges of a polygonal face (corner list in winding order) -/
def polyHE (f : List Nat) : Multiset HE := (fanPairs f : Multiset HE)

/-- all directed boundary edges of a polygonal surface -/
def heP (faces : List (List Nat)) : Multiset HE := (faces.map polyHE).sum

/-- the spokes of the fan of `f` around `c`, in both directions -/
def spokesOf (f : List Nat) (c : Nat) : Multiset HE :=
  ((f.map (fun v => (v, c)) : List HE) : Multiset HE) + ((f.map (fun v => (c, v)) : List HE) : Multiset HE)

/-- the spokes of all fans; `c` = id of the next centre -/
def spokes : List (List Nat) → Nat → Multiset HE
  | [], _ => 0
  | f :: rest, c => if f.length != 3 then spokesOf f c + spokes rest (c + 1) else spokes rest c

theorem fanPairs_snd (f : List Nat) : (fanPairs f).map Prod.snd = f := by
  unfold fanPairs
  cases h : f.getLast? with
  | none =>
    have : f = [] := by simpa using h
    subst this; rfl
  | some l =>
    simp only
    apply List.map_snd_zip
    have hne : f ≠ [] := by intro e; subst e; simp at h
    simp only [List.length_cons, List.length_dropLast]
    have : 0 < f.length := List.length_pos_iff.mpr hne
    omega

theorem fanPairs_fst_perm (f : List Nat) : ((fanPairs f).map Prod.fst).Perm f := by
  unfold fanPairs
  cases h : f.getLast? with
  | none =>
    have : f = [] := by simpa using h
    subst this; simp
  | some l =>
    simp only
    have hne : f ≠ [] := by intro e; subst e; simp at h
    have hlen : (l :: f.dropLast).length ≤ f.length := by
      simp only [List.length_cons, List.length_dropLast]
      have : 0 < f.length := List.length_pos_iff.mpr hne
      omega
    rw [List.map_fst_zip hlen]
    have hl : l = f.getLast hne := by
      rw [List.getLast?_eq_some_getLast hne] at h; exact (Option.some.inj h).symm
    have : f.dropLast ++ [l] = f := by rw [hl]; exact List.dropLast_append_getLast hne
    calc (l :: f.dropLast).Perm (f.dropLast ++ [l]) := (List.perm_append_singleton _ _).symm
      _ = f := this

theorem heM_map_fan (ps : List (Nat × Nat)) (c : Nat) :
    heM (ps.map (fun p => ((p.1, p.2, c) : Tri))) =
      (ps : Multiset HE) + ((ps.map (fun p => (p.2, c)) : List HE) : Multiset HE)
        + ((ps.map (fun p => (c, p.1)) : List HE) : Multiset HE) := by
  induction ps with
  | nil => simp [heM_nil]
  | cons p ps ih =>
    rw [List.map_cons, heM_cons, ih]
    simp only [heTriM, List.map_cons, ← Multiset.cons_coe, Multiset.insert_eq_cons, ← Multiset.singleton_add]
    abel

theorem fanTris_eq (f : List Nat) (c : Nat) : fanTris f c = (fanPairs f).map (fun p => ((p.1, p.2, c) : Tri)) := by
  unfold fanTris
  simp [fanOrder, pick]

theorem heM_fanTris (f : List Nat) (c : Nat) : heM (fanTris f c) = polyHE f + spokesOf f c := by
  rw [fanTris_eq, heM_map_fan]
  unfold polyHE spokesOf
  rw [add_assoc]
  congr 1
  have h1 : (fanPairs f).map (fun p => ((p.2, c) : HE)) = f.map (fun v => (v, c)) := by
    conv_rhs => rw [← fanPairs_snd f]
    rw [List.map_map]; rfl
  have h2 : (((fanPairs f).map (fun p => ((c, p.1) : HE)) : List HE) : Multiset HE) = ((f.map (fun v => (c, v)) : List HE) : Multiset HE) := by
    apply Quotient.sound
    have := (fanPairs_fst_perm f).map (fun v => ((c, v) : HE))
    rw [List.map_map] at this
    exact this
  rw [h1, h2]

theorem polyHE_tri (a b c : Nat) : polyHE [a, b, c] = heTriM (a, b, c) := by
  unfold polyHE fanPairs
  simp only [List.getLast?_cons_cons, List.getLast?_singleton, List.dropLast_cons_cons, List.dropLast_singleton, List.zip_cons_cons,
    List.zip_nil_right, heTriM, Multiset.insert_eq_cons]
  rw [← Multiset.cons_coe, ← Multiset.cons_coe, ← Multiset.cons_coe]
  simp only [Multiset.coe_nil, Multiset.cons_zero]
  rw [Multiset.cons_swap (c, a) (a, b), ← Multiset.singleton_add (c, a), ← Multiset.singleton_add (b, c), add_comm]

theorem len3 {f : List Nat} (h : f.length = 3) : ∃ a b c, f = [a, b, c] := by
  match f, h with
  | [a, b, c], _ => exact ⟨a, b, c, rfl⟩

/-- **the half-edges after coarse triangulation**: those of the polygons plus the spokes -/
theorem heM_coarse (faces : List (List Nat)) (n : Nat) :
    heM (coarseFaces n faces) = heP faces + spokes faces n := by
  unfold coarseFaces
  rw [heM_append]
  induction faces generalizing n with
  | nil => simp [heM_nil, heP, fans, spokes]
  | cons f rest ih =>
    by_cases h3 : f.length = 3
    · obtain ⟨a, b, c, rfl⟩ := len3 h3
      have hb : ([a, b, c].length == 3) = true := by simp
      have hnb : ([a, b, c].length != 3) = false := by simp
      simp only [List.filter_cons, hb, if_true, List.map_cons, fans, spokes, hnb, Bool.false_eq_true, if_false, heP, List.sum_cons]
      rw [heM_cons]
      have := ih n
      unfold heP at this
      rw [add_assoc, this, polyHE_tri]
      simp only [triOfList]; abel
    · have hb : (f.length == 3) = false := by simpa using h3
      have hnb : (f.length != 3) = true := by simpa using h3
      simp only [List.filter_cons, hb, Bool.false_eq_true, if_false, fans, spokes, hnb, if_true, heP, List.map_cons, List.sum_cons]
      rw [heM_append, heM_fanTris]
      have := ih (n + 1)
      unfold heP at this
      calc heM (List.map triOfList (List.filter (fun f => f.length == 3) rest)) + (polyHE f + spokesOf f n + heM (fans rest (n + 1)))
          = polyHE f + spokesOf f n + (heM (List.map triOfList (List.filter (fun f => f.length == 3) rest)) + heM (fans rest (n + 1))) := by abel
        _ = polyHE f + spokesOf f n + ((List.map polyHE rest).sum + spokes rest (n + 1)) := by rw [this]
        _ = _ := by abel

theorem spokesOf_swap (f : List Nat) (c : Nat) : (spokesOf f c).map Prod.swap = spokesOf f c := by
  unfold spokesOf
  rw [Multiset.map_add, Multiset.map_coe, Multiset.map_coe, List.map_map, List.map_map, add_comm]
  rfl

theorem spokes_swap (faces : List (List Nat)) (n : Nat) : (spokes faces n).map Prod.swap = spokes faces n := by
  induction faces generalizing n with
  | nil => simp [spokes]
  | cons f rest ih =>
    simp only [spokes]
    split_ifs
    · rw [Multiset.map_add, spokesOf_swap, ih]
    · exact ih n

/-- a polygonal surface is closed when every directed boundary edge is matched by its reverse -/
def ClosedP (faces : List (List Nat)) : Prop := (heP faces).map Prod.swap = heP faces

/-- no directed boundary edge occurs twice -/
def SimpleP (faces : List (List Nat)) : Prop := (heP faces).Nodup

/-- **coarse triangulation keeps a closed surface closed** -/
theorem coarse_closed (faces : List (List Nat)) (n : Nat) (h : ClosedP faces) : Closed (coarseFaces n faces) := by
  unfold Closed
  rw [heM_coarse, Multiset.map_add, h, spokes_swap]

/-! ### simplicity: the centres are new nodes, one per polygon -/

theorem mem_spokesOf {f : List Nat} {c : Nat} {e : HE} : e ∈ spokesOf f c ↔ (e.2 = c ∧ e.1 ∈ f) ∨ (e.1 = c ∧ e.2 ∈ f) := by
  unfold spokesOf
  obtain ⟨x, y⟩ := e
  simp only [Multiset.mem_add, Multiset.mem_coe, List.mem_map, Prod.mk.injEq]
  constructor
  · rintro (⟨v, hv, rfl, rfl⟩ | ⟨v, hv, rfl, rfl⟩)
    · left; exact ⟨rfl, hv⟩
    · right; exact ⟨rfl, hv⟩
  · rintro (⟨rfl, h⟩ | ⟨rfl, h⟩)
    · left; exact ⟨x, h, rfl, rfl⟩
    · right; exact ⟨y, h, rfl, rfl⟩

theorem spokesOf_nodup {f : List Nat} {c : Nat} (hf : f.Nodup) (hc : c ∉ f) : (spokesOf f c).Nodup := by
  unfold spokesOf
  rw [Multiset.nodup_add]
  refine ⟨?_, ?_, ?_⟩
  · exact Multiset.coe_nodup.mpr (hf.map (fun a b h => (Prod.mk.inj h).1))
  · exact Multiset.coe_nodup.mpr (hf.map (fun a b h => (Prod.mk.inj h).2))
  · rw [Multiset.disjoint_left]
    intro e h1 h2
    simp only [Multiset.mem_coe, List.mem_map] at h1 h2
    obtain ⟨v, hv, rfl⟩ := h1
    obtain ⟨w, hw, h⟩ := h2
    obtain ⟨rfl, rfl⟩ := Prod.mk.inj h
    exact hc hv

/-- a spoke joins a centre `≥ c0` with a corner `< n` -/
theorem mem_spokes {faces : List (List Nat)} {n : Nat} (hv : ∀ f ∈ faces, ∀ v ∈ f, v < n) :
    ∀ (c0 : Nat) (e : HE), e ∈ spokes faces c0 → (c0 ≤ e.2 ∧ e.1 < n) ∨ (c0 ≤ e.1 ∧ e.2 < n) := by
  induction faces with
  | nil => intro c0 e h; simp [spokes] at h
  | cons f rest ih =>
    intro c0 e h
    have ih' := ih (fun f' hf' => hv f' (List.mem_cons_of_mem _ hf'))
    simp only [spokes] at h
    split_ifs at h
    · rcases Multiset.mem_add.mp h with h1 | h1
      · rcases mem_spokesOf.mp h1 with ⟨h2, h3⟩ | ⟨h2, h3⟩
        · left; exact ⟨by omega, hv f (by simp) _ h3⟩
        · right; exact ⟨by omega, hv f (by simp) _ h3⟩
      · rcases ih' _ _ h1 with ⟨h2, h3⟩ | ⟨h2, h3⟩
        · left; exact ⟨by omega, h3⟩
        · right; exact ⟨by omega, h3⟩
    · exact ih' _ _ h

theorem spokes_nodup {faces : List (List Nat)} {n : Nat} (hv : ∀ f ∈ faces, ∀ v ∈ f, v < n) (hnd : ∀ f ∈ faces, f.Nodup) :
    ∀ (c0 : Nat), n ≤ c0 → (spokes faces c0).Nodup := by
  induction faces with
  | nil => intro c0 _; simp [spokes]
  | cons f rest ih =>
    intro c0 hc0
    have hv' : ∀ f' ∈ rest, ∀ v ∈ f', v < n := fun f' hf' => hv f' (List.mem_cons_of_mem _ hf')
    have ih' := ih hv' (fun f' hf' => hnd f' (List.mem_cons_of_mem _ hf'))
    simp only [spokes]
    split_ifs
    · rw [Multiset.nodup_add]
      refine ⟨spokesOf_nodup (hnd f (by simp)) ?_, ih' _ (by omega), ?_⟩
      · intro h; have := hv f (by simp) _ h; omega
      · rw [Multiset.disjoint_left]
        intro e h1 h2
        have hf := hv f (by simp)
        rcases mem_spokesOf.mp h1 with ⟨h3, h4⟩ | ⟨h3, h4⟩ <;> rcases mem_spokes hv' _ _ h2 with ⟨h5, h6⟩ | ⟨h5, h6⟩ <;>
          (have := hf _ h4; omega)
    · exact ih' _ hc0

theorem mem_heP {faces : List (List Nat)} {e : HE} : e ∈ heP faces ↔ ∃ f ∈ faces, e ∈ polyHE f := by
  unfold heP
  induction faces with
  | nil => simp
  | cons f rest ih => simp [Multiset.mem_add, ih]

theorem mem_polyHE_verts {f : List Nat} {e : HE} (h : e ∈ polyHE f) : e.1 ∈ f ∧ e.2 ∈ f := by
  unfold polyHE at h
  have h' : e ∈ fanPairs f := h
  constructor
  · exact (fanPairs_fst_perm f).mem_iff.mp (List.mem_map_of_mem h')
  · have := List.mem_map_of_mem (f := Prod.snd) h'
    rw [fanPairs_snd] at this; exact this

/-- **coarse triangulation keeps a simple surface simple** (corner ids `< n`, no face repeats a corner; the centres are the
    new nodes `n, n+1, …`) -/
theorem coarse_simple (faces : List (List Nat)) (n : Nat) (hv : ∀ f ∈ faces, ∀ v ∈ f, v < n) (hnd : ∀ f ∈ faces, f.Nodup)
    (h : SimpleP faces) : Simple (coarseFaces n faces) := by
  unfold Simple
  rw [heM_coarse, Multiset.nodup_add]
  refine ⟨h, spokes_nodup hv hnd n (le_refl n), ?_⟩
  rw [Multiset.disjoint_left]
  intro e h1 h2
  obtain ⟨f, hf, he⟩ := mem_heP.mp h1
  obtain ⟨v1, v2⟩ := mem_polyHE_verts he
  have b1 := hv f hf _ v1
  have b2 := hv f hf _ v2
  rcases mem_spokes hv _ _ h2 with ⟨h3, _⟩ | ⟨h3, _⟩ <;> omega

/-! ### signed volume of a planar face -/
section volume
variable {R : Type} [Field R] [LinearOrder R] [IsStrictOrderedRing R]
open Simu.Geo

/-- 6 × the signed volume contributed by the fan of the polygon `f` around the point `c` -/
def fanSum (pos : Nat → V3 R) (f : List Nat) (c : V3 R) : R :=
  ((fanPairs f).map (fun p => det3 (pos p.1) (pos p.2) c)).sum

/-- twice the vector area of the polygon: Σ pᵢ × pᵢ₊₁ -/
def polyNormal (pos : Nat → V3 R) (f : List Nat) : V3 R :=
  vsum ((fanPairs f).map (fun p => V3.cross (pos p.1) (pos p.2)))

theorem dot_vsum (l : List (V3 R)) (c : V3 R) : V3.dot c (vsum l) = (l.map (fun v => V3.dot c v)).sum := by
  induction l with
  | nil => simp [vsum, V3.dot_def]
  | cons v vs ih => simp only [vsum, List.map_cons, List.sum_cons, V3.dot_add_right, ih]

theorem fanSum_eq_dot (pos : Nat → V3 R) (f : List Nat) (c : V3 R) : fanSum pos f c = V3.dot c (polyNormal pos f) := by
  unfold fanSum polyNormal
  rw [dot_vsum, List.map_map]
  congr 1
  apply List.map_congr_left
  intro p _
  simp only [Function.comp, det3, V3.dot_def, V3.cross_def]; ring

/-- the fan around `c` and the fan around `b` differ by (c − b)·N -/
theorem fanSum_sub (pos : Nat → V3 R) (f : List Nat) (c b : V3 R) :
    fanSum pos f c - fanSum pos f b = V3.dot (c - b) (polyNormal pos f) := by
  rw [fanSum_eq_dot, fanSum_eq_dot, V3.dot_sub_left]

theorem centre_eq (pos : Nat → V3 R) (f : List Nat) : centre pos f = vsum (f.map pos) / (f.length : R) := by
  unfold centre
  rw [foldl_add_vsum]
  have : (⟨lit 0, lit 0, lit 0⟩ : V3 R) + vsum (f.map pos) = vsum (f.map pos) := by
    apply V3.ext' <;> simp
  rw [this]; rfl

theorem vsum_dot (l : List (V3 R)) (c : V3 R) : V3.dot (vsum l) c = (l.map (fun v => V3.dot v c)).sum := by
  rw [V3.dot_comm, dot_vsum]; congr 1; apply List.map_congr_left; intro v _; exact V3.dot_comm _ _

/-- **planar faces**: when all corners lie in the plane through `b` orthogonal to the vector area `N` of the polygon, the fan
    around the mean of the corners (what `coarse_triangulation` builds) encloses the same signed volume as the fan around
    `b` — for `b` a corner: a triangulation of the face without extra node -/
theorem fan_volume_planar (pos : Nat → V3 R) (f : List Nat) (hne : f ≠ []) (b : V3 R)
    (hplanar : ∀ i ∈ f, V3.dot (pos i - b) (polyNormal pos f) = 0) :
    fanSum pos f (centre pos f) = fanSum pos f b := by
  have hsub := fanSum_sub pos f (centre pos f) b
  suffices h : V3.dot (centre pos f - b) (polyNormal pos f) = 0 by rw [h] at hsub; linarith
  set N := polyNormal pos f
  have hlen : (f.length : R) ≠ 0 := by
    have : 0 < f.length := List.length_pos_iff.mpr hne
    exact_mod_cast this.ne'
  rw [V3.dot_sub_left, centre_eq]
  have hs : V3.dot (vsum (f.map pos)) N = (f.length : R) * V3.dot b N := by
    rw [vsum_dot, List.map_map]
    have : ∀ i ∈ f, (fun v => V3.dot v N) (pos i) = V3.dot b N := by
      intro i hi
      have := hplanar i hi
      rw [V3.dot_sub_left] at this
      simp only; linarith
    rw [List.map_congr_left (g := fun _ => V3.dot b N) (by intro i hi; exact this i hi)]
    simp [List.map_const', List.sum_replicate, nsmul_eq_mul]
  have hd : V3.dot (vsum (f.map pos) / (f.length : R)) N = V3.dot (vsum (f.map pos)) N / (f.length : R) := by
    simp only [V3.dot_def, V3.sdiv_x, V3.sdiv_y, V3.sdiv_z]; field_simp
  rw [hd, hs]; field_simp; ring

theorem sum_map_four {α : Type} (L : List α) (u v w2 w1 : α → R) :
    (L.map (fun a => u a - v a - (w2 a - w1 a))).sum
      = (L.map u).sum - (L.map v).sum - ((L.map w2).sum - (L.map w1).sum) := by
  induction L with
  | nil => simp
  | cons a t ih => simp only [List.map_cons, List.sum_cons, ih]; ring

/-- the fan of the polygon `f` around ANY point `c`, all coordinates taken relative to ANY point `o`: the un-centred fan
    sum minus `o`·(vector area of the polygon) — the spokes cancel around the closed polygon -/
theorem fanSum_rel (pos : Nat → V3 R) (f : List Nat) (c o : V3 R) :
    fanSum (rel pos o) f (c - o) = fanSum pos f c - V3.dot o (polyNormal pos f) := by
  unfold fanSum polyNormal
  rw [dot_vsum, List.map_map]
  have key : ∀ a b : V3 R, det3 (a - o) (b - o) (c - o)
      = det3 a b c - V3.dot o (V3.cross a b) - (V3.dot o (V3.cross b c) - V3.dot o (V3.cross a c)) := by
    intro a b
    simp only [det3, V3.dot_def, V3.cross_def, V3.sub_x, V3.sub_y, V3.sub_z]; ring
  have h1 : (fanPairs f).map (fun p => det3 (rel pos o p.1) (rel pos o p.2) (c - o))
      = (fanPairs f).map (fun p => det3 (pos p.1) (pos p.2) c - V3.dot o (V3.cross (pos p.1) (pos p.2))
          - (V3.dot o (V3.cross (pos p.2) c) - V3.dot o (V3.cross (pos p.1) c))) := by
    apply List.map_congr_left; intro p _; simp only [rel]; exact key _ _
  rw [h1, sum_map_four]
  have h2 : ((fanPairs f).map (fun p => V3.dot o (V3.cross (pos p.2) c))).sum
      = (f.map (fun v => V3.dot o (V3.cross (pos v) c))).sum := by
    conv_rhs => rw [← fanPairs_snd f]
    rw [List.map_map]; rfl
  have h3 : ((fanPairs f).map (fun p => V3.dot o (V3.cross (pos p.1) c))).sum
      = (f.map (fun v => V3.dot o (V3.cross (pos v) c))).sum := by
    have := ((fanPairs_fst_perm f).map (fun v => V3.dot o (V3.cross (pos v) c))).sum_eq
    rw [List.map_map] at this; exact this
  rw [h2, h3, sub_self, sub_zero]; rfl

/-- the model's fan triangles carry exactly this sum in the loop of `compute_volume`, whatever the reference point `o` is -/
theorem volSumAt_fanTris (pos : Nat → V3 R) (f : List Nat) (c : Nat) (o : V3 R) :
    volSumAt pos o (fanTris f c) = fanSum (rel pos o) f (pos c - o) := by
  rw [volSumAt_eq, fanTris_eq, List.map_map]
  unfold fanSum
  congr 1

end volume

end Simu.C13
