import SimuVerif.Lemmas.C03_SearchTable
/-
  C03 (addition) — "released node slots carry no coupling" (`NoStale`, the side condition of the bridge `mutual_of_pass`) as a
  property of what Model/TissueR.lean DOES, phase by phase:

  * `StaleFree cells`  : a node slot that is not in use carries no coupling (what the contact phase needs);
  * `FreeClean cells`  : a node slot of the free queue carries no coupling (what the mesh stage keeps: `Attrs.alloc` writes
                         `nullopt` into the slot `add_node` takes, `Attrs.release` = `node::reset` clears the slot `delete_node`
                         queues; after `rebase` the queue is empty);
  * the two are the same when the free queue lists exactly the unused slots (`QueueExact`, = `Remesh.NodesOk.free`, a field of
    the mesh invariant `Remesh.CellOk`).

  The contact phase never writes a released slot (`C03S.searchTable_R_released`), the pass only removes couplings, and
  polarisation / `apply_internal_forces` / the integrator do not touch couplings, used flags or the free queue.

  No arithmetic: every statement holds for any scalar type with the operations.
-/
set_option linter.unusedSectionVars false
set_option linter.unusedVariables false
namespace Simu.C03S
open Simu Simu.Gen Simu.Tissue Simu.TissueR Simu.Remesh Simu.Coupling

variable {R : Type} [Add R] [Sub R] [Mul R] [Div R] [Neg R] [Lit R] [LT R] [LE R] [DecidableLT R] [DecidableLE R] [DecidableEq R]

/-- released node slots carry no coupling -/
def StaleFree (cells : List (CellTR R)) : Prop :=
  ∀ c ∈ cells, ∀ i, i < c.mesh.nodes.size → usedN c.mesh i = false → c.a.coup.getD i none = none

/-- the node slots of the free queue carry no coupling -/
def FreeClean (cells : List (CellTR R)) : Prop :=
  ∀ c ∈ cells, ∀ i ∈ c.mesh.freeNodes, c.a.coup.getD i none = none

/-- `free_node_queue_` lists exactly the node slots that are not in use (`Remesh.NodesOk.free`) -/
def QueueExact (m : Remesh.Cell R) : Prop := ∀ i, i ∈ m.freeNodes ↔ (i < m.nodes.size ∧ usedN m i = false)

theorem staleFree_of_freeClean {cells : List (CellTR R)} (hq : ∀ c ∈ cells, QueueExact c.mesh) (h : FreeClean cells) :
    StaleFree cells := fun c hc i hi hu => h c hc i (((hq c hc) i).2 ⟨hi, hu⟩)

theorem freeClean_of_staleFree {cells : List (CellTR R)} (hq : ∀ c ∈ cells, QueueExact c.mesh) (h : StaleFree cells) :
    FreeClean cells := fun c hc i hi => h c hc i (((hq c hc) i).1 hi).1 (((hq c hc) i).1 hi).2

/-- same free queue, same number of node slots, same used flags -/
def SameFlags (c' c : CellTR R) : Prop :=
  c'.mesh.freeNodes = c.mesh.freeNodes ∧ c'.mesh.nodes.size = c.mesh.nodes.size ∧ ∀ i, usedN c'.mesh i = usedN c.mesh i

theorem SameFlags.refl (c : CellTR R) : SameFlags c c := ⟨rfl, rfl, fun _ => rfl⟩

theorem SameFlags.trans {a b c : CellTR R} (h1 : SameFlags a b) (h2 : SameFlags b c) : SameFlags a c :=
  ⟨h1.1.trans h2.1, h1.2.1.trans h2.2.1, fun i => (h1.2.2 i).trans (h2.2.2 i)⟩

theorem SameFlags.queueExact {c' c : CellTR R} (h : SameFlags c' c) (hq : QueueExact c.mesh) : QueueExact c'.mesh := by
  intro i
  rw [h.1, h.2.1, h.2.2 i]
  exact hq i

/-- a stage that keeps flags and couplings cell by cell -/
def Keeps (cells' cells : List (CellTR R)) : Prop := ∀ c' ∈ cells', ∃ c ∈ cells, SameFlags c' c ∧ c'.a.coup = c.a.coup

theorem Keeps.staleFree {cells' cells : List (CellTR R)} (hk : Keeps cells' cells) (h : StaleFree cells) : StaleFree cells' := by
  intro c' hc' i hi hu
  obtain ⟨c, hc, hf, hcp⟩ := hk c' hc'
  rw [hcp]
  exact h c hc i (hf.2.1 ▸ hi) (hf.2.2 i ▸ hu)

theorem Keeps.trans {a b c : List (CellTR R)} (h1 : Keeps a b) (h2 : Keeps b c) : Keeps a c := by
  intro x hx
  obtain ⟨y, hy, hf, hcp⟩ := h1 x hx
  obtain ⟨z, hz, hf', hcp'⟩ := h2 y hy
  exact ⟨z, hz, hf.trans hf', hcp.trans hcp'⟩

theorem Keeps.map (cells : List (CellTR R)) (g : CellTR R → CellTR R) (hg : ∀ c, SameFlags (g c) c ∧ (g c).a.coup = c.a.coup) :
    Keeps (cells.map g) cells := by
  intro c' hc'
  obtain ⟨c, hc, rfl⟩ := List.mem_map.mp hc'
  exact ⟨c, hc, hg c⟩

theorem Keeps.queueExact {cells' cells : List (CellTR R)} (hk : Keeps cells' cells) (hq : ∀ c ∈ cells, QueueExact c.mesh) :
    ∀ c' ∈ cells', QueueExact c'.mesh := by
  intro c' hc'
  obtain ⟨c, hc, hf, _⟩ := hk c' hc'
  exact hf.queueExact (hq c hc)

/-! ### the contact phase -/

theorem sameFlags_writeMutR (c : CellTR R) (m : Mut R) :
    SameFlags { c with a := { c.a with coup := m.coup, sqd := m.sqd, force := m.force } } c := ⟨rfl, rfl, fun _ => rfl⟩

theorem sameFlags_ofPopCellR (c : CellTR R) (l : List (Coupling.CNode R)) : SameFlags (ofPopCellR c l) c :=
  ⟨rfl, ofPopCellR_size c l, ofPopCellR_usedN c l⟩

/-- the contact phase keeps the free queue and the used flags of every cell, at its place in the list -/
theorem contactRunR_flags (fn : Fn R) (K : Consts R) (cells : List (CellTR R)) (i : Nat) (c' : CellTR R)
    (h : (contactRunR fn K cells).1[i]? = some c') : ∃ c, cells[i]? = some c ∧ SameFlags c' c := by
  have hw : ∀ c1, (writeMutR cells (contactSearchR fn K cells))[i]? = some c1 → ∃ c, cells[i]? = some c ∧ SameFlags c1 c := by
    intro c1 h1
    rw [writeMutR_getElem?] at h1
    cases hc : cells[i]? with
    | none => rw [hc] at h1; cases h1
    | some c =>
      rw [hc, Option.map_some, Option.some.injEq] at h1
      subst h1
      refine ⟨c, rfl, ?_⟩
      cases (contactSearchR fn K cells)[i]? with
      | none => exact SameFlags.refl c
      | some m => exact sameFlags_writeMutR c m
  unfold contactRunR at h
  dsimp only at h
  cases hp : pass (toPopR (writeMutR cells (contactSearchR fn K cells))) with
  | none => rw [hp] at h; exact hw c' h
  | some p2 =>
    rw [hp] at h
    dsimp only at h
    rw [ofPopR_getElem?] at h
    cases hc1 : (writeMutR cells (contactSearchR fn K cells))[i]? with
    | none => rw [hc1] at h; cases h
    | some c1 =>
      rw [hc1, Option.map_some, Option.some.injEq] at h
      obtain ⟨c, hc, hf⟩ := hw c1 hc1
      refine ⟨c, hc, ?_⟩
      subst h
      cases p2[i]? with
      | none => exact hf
      | some l => exact (sameFlags_ofPopCellR c1 l).trans hf

/-- **the contact phase keeps released slots free of couplings**: the search never writes a released slot, the pass only
    removes couplings -/
theorem contactRunR_staleFree (fn : Fn R) (K : Consts R) (cells : List (CellTR R)) (hF : FacesLive cells)
    (hs : StaleFree cells) : StaleFree (contactRunR fn K cells).1 := by
  intro c' hc' i hi hu
  obtain ⟨ci, hci⟩ := List.getElem?_of_mem hc'
  -- what a released slot of the table handed to the pass carries
  have hrel : ∀ n0 : Coupling.CNode R, Coupling.get (toPopR (writeMutR cells (contactSearchR fn K cells))) (ci, i) = some n0 →
      n0.used = false → n0.coup = none := by
    intro n0 h0 hu0
    obtain ⟨c, hc, hlt, huc, hcp⟩ := searchTable_R_released fn K cells hF (ci, i) n0 h0 hu0
    rw [hcp]
    exact hs c (List.mem_of_getElem? hc) i hlt huc
  have hget : ∀ cs : List (CellTR R), cs[ci]? = some c' →
      Coupling.get (toPopR cs) (ci, i) = some ⟨usedN c'.mesh i, c'.a.coup.getD i none, (viewPos c'.mesh).get i⟩ := by
    intro cs h
    rw [get_toPopR, h, Option.bind_some, if_pos hi]
  unfold contactRunR at hci
  dsimp only at hci
  cases hp : pass (toPopR (writeMutR cells (contactSearchR fn K cells))) with
  | none =>
    rw [hp] at hci
    exact hrel _ (hget _ hci) hu
  | some p2 =>
    rw [hp] at hci
    dsimp only at hci
    have hg := hget _ hci
    have h2 := get_toPopR_ofPopR _ p2 hp (ci, i)
    cases hp2 : Coupling.get p2 (ci, i) with
    | none => rw [hp2] at h2; rw [hg] at h2; cases h2
    | some n =>
      rw [hp2] at h2
      obtain ⟨n'', hn'', hu'', hc'', _⟩ := h2
      rw [hg, Option.some.injEq] at hn''
      subst hn''
      simp only at hu'' hc''
      rw [hc'']
      obtain ⟨n0, hn0, hu0, hc0⟩ := (pass_frame _ _ hp).1 (ci, i) n hp2
      have hnone := hrel n0 hn0 (by rw [← hu0, ← hu'']; exact hu)
      rcases hc0 with e | e
      · rw [e, hnone]
      · exact e

/-! ### polarisation, internal forces, integrator -/

theorem keeps_polariseR (cells : List (CellTR R)) : Keeps (polariseR cells) cells := by
  unfold polariseR
  apply Keeps.map
  intro c
  unfold polariseCellR
  split
  · exact ⟨⟨rfl, rfl, fun _ => rfl⟩, rfl⟩
  · exact ⟨SameFlags.refl c, rfl⟩

theorem keeps_applyInternalForcesR (fx : FX R) (K : Consts R) (c : CellTR R) :
    SameFlags (applyInternalForcesR fx K c) c ∧ (applyInternalForcesR fx K c).a.coup = c.a.coup :=
  ⟨⟨rfl, rfl, fun _ => rfl⟩, rfl⟩

theorem sameFlags_ofDynCellR (c : CellTR R) (l : List (Integ.Dyn R)) : SameFlags (ofDynCellR c l) c := by
  refine ⟨rfl, ?_, fun i => ?_⟩
  · simp only [ofDynCellR, Array.size_mapIdx]
  · simp only [ofDynCellR, usedN, Array.getElem?_mapIdx]
    cases c.mesh.nodes[i]? with
    | none => rfl
    | some n =>
      simp only [Option.map_some]
      split <;> rfl

theorem keeps_integrateR (K : Consts R) (time : R) (cells : List (CellTR R)) : Keeps (integrateR K time cells).2 cells := by
  intro c' hc'
  unfold integrateR ofDynR at hc'
  dsimp only at hc'
  obtain ⟨ci, hci, rfl⟩ := List.mem_map.mp hc'
  have hmem : ci.1 ∈ cells := by
    obtain ⟨i, hi⟩ := List.getElem?_of_mem hci
    rw [List.getElem?_zipIdx] at hi
    cases hc : cells[i]? with
    | none => rw [hc] at hi; cases hi
    | some c =>
      rw [hc, Option.map_some, Option.some.injEq] at hi
      rw [← hi]
      exact List.mem_of_getElem? hc
  refine ⟨ci.1, hmem, ?_⟩
  split
  · exact ⟨sameFlags_ofDynCellR _ _, rfl⟩
  · exact ⟨SameFlags.refl _, rfl⟩

/-! ### the mesh stage: `save_mesh` (rebase) and `refine_meshes` -/

/-- after `cell::rebase` the free node queue is empty -/
theorem rebase_freeNodes {m m' : Remesh.Cell R} (h : Remesh.rebase m = .ok m') : m'.freeNodes = [] := by
  unfold Remesh.rebase at h
  by_cases hN : m.freeNodes.isEmpty = true
  · simp only [hN, if_true] at h
    split at h
    · simp only [bind, Except.bind] at h
      split at h
      · cases h
      · simp only [pure, Except.pure, Except.ok.injEq] at h
        rw [← h]
        exact List.isEmpty_iff.mp hN
    · simp only [pure, Except.pure, Except.ok.injEq] at h
      rw [← h]
      exact List.isEmpty_iff.mp hN
  · simp only [hN, Bool.false_eq_true, if_false] at h
    split at h
    · simp only [bind, Except.bind] at h
      split at h
      · cases h
      · simp only [pure, Except.pure, Except.ok.injEq] at h
        rw [← h]
    · simp only [pure, Except.pure, Except.ok.injEq] at h
      rw [← h]

theorem rebaseCell_freeClean {c c' : CellTR R} (h : rebaseCell c = .ok c') : ∀ i ∈ c'.mesh.freeNodes, c'.a.coup.getD i none = none := by
  unfold rebaseCell at h
  cases hr : Remesh.rebase c.mesh with
  | error e => rw [hr] at h; cases h
  | ok m' =>
    rw [hr] at h
    simp only [Except.map, Except.ok.injEq] at h
    subst h
    intro i hi
    rw [rebase_freeNodes hr] at hi
    cases hi

/-- a list of results that `parallel_exception_handler` accepts: every result is one of the accepted cells -/
theorem collect_ok_mem {ε α β : Type} (f : α → Except ε β) : ∀ (l : List α) (out : List β), collect (l.map f) = .ok out →
    ∀ y ∈ out, ∃ x ∈ l, f x = .ok y := by
  intro l
  induction l with
  | nil =>
    intro out h y hy
    simp only [List.map_nil, collect, Except.ok.injEq] at h
    subst h; cases hy
  | cons a l ih =>
    intro out h y hy
    simp only [List.map_cons, collect] at h
    cases hrest : collect (l.map f) with
    | error e => rw [hrest] at h; cases h
    | ok out' =>
      rw [hrest] at h
      cases hfa : f a with
      | error e => rw [hfa] at h; cases h
      | ok b =>
        rw [hfa] at h
        simp only [Except.ok.injEq] at h
        subst h
        rcases List.mem_cons.mp hy with rfl | hy'
        · exact ⟨a, List.mem_cons_self .., hfa⟩
        · obtain ⟨x, hx, hfx⟩ := ih out' hrest y hy'
          exact ⟨x, List.mem_cons_of_mem _ hx, hfx⟩

theorem saveMeshT_freeClean {fn : Fn R} {K : ConstsTR R} {s s1 : StateTR R} (h : saveMeshT fn K s = .ok s1)
    (hc : FreeClean s.cells) : FreeClean s1.cells := by
  unfold saveMeshT at h
  split at h
  · cases hcol : collect (s.cells.map rebaseCell) with
    | error e => rw [hcol] at h; cases h
    | ok cs =>
      rw [hcol] at h
      simp only [Except.map, Except.ok.injEq] at h
      subst h
      intro c' hc'
      obtain ⟨c, _, hcc⟩ := collect_ok_mem rebaseCell s.cells cs hcol c' hc'
      exact rebaseCell_freeClean hcc
  · simp only [Except.ok.injEq] at h
    subst h
    exact hc

/-! #### the replay of the log of a pass on the attributes -/

theorem getD_setIfInBounds_none {α : Type} (a : Array (Option α)) (i j : Nat) (h : a.getD j none = none) :
    (a.setIfInBounds i none).getD j none = none := by
  rw [Array.getD_eq_getD_getElem?] at h ⊢
  rw [Array.getElem?_setIfInBounds]
  split
  · split <;> rfl
  · exact h

theorem getD_setIfInBounds_self {α : Type} (a : Array (Option α)) (i : Nat) : (a.setIfInBounds i none).getD i none = none := by
  rw [Array.getD_eq_getD_getElem?, Array.getElem?_setIfInBounds, if_pos rfl]
  split <;> rfl

theorem getD_setOrPush_none {α : Type} (a : Array (Option α)) (i j : Nat) (h : a.getD j none = none) :
    (setOrPush a i none).getD j none = none := by
  unfold setOrPush
  split
  · exact getD_setIfInBounds_none a i j h
  · rw [Array.getD_eq_getD_getElem?] at h ⊢
    rw [Array.getElem?_push]
    split
    · rfl
    · exact h

/-- every slot of the free queue the replay tracks carries no coupling -/
def CleanSt (st : Attrs R × List Nat × Nat) : Prop := ∀ i ∈ st.2.1, st.1.coup.getD i none = none

/-- `add_node(node(pos, 0))` into the slot taken, `node::reset` on the two slots a collapse releases -/
theorem replayOp_clean (st : Attrs R × List Nat × Nat) (op : Bool × Nat × Nat × R) (h : CleanSt st) : CleanSt (replayOp st op) := by
  have hsub : ∀ j ∈ (match st.2.1 with | _ :: r => r | [] => ([] : List Nat)), j ∈ st.2.1 := by
    intro j hj
    cases hl : st.2.1 with
    | nil => rw [hl] at hj; cases hj
    | cons x r => rw [hl] at hj; exact List.mem_cons_of_mem _ hj
  have halloc : ∀ (i j : Nat), j ∈ st.2.1 → (st.1.alloc i).coup.getD j none = none := by
    intro i j hj
    exact getD_setOrPush_none _ i j (h j hj)
  unfold replayOp
  dsimp only
  split
  · intro j hj
    exact halloc _ j (hsub j hj)
  · intro j hj
    simp only [Attrs.release] at hj ⊢
    rcases List.mem_cons.mp hj with rfl | hj
    · exact getD_setIfInBounds_self _ _
    · rcases List.mem_cons.mp hj with rfl | hj
      · exact getD_setIfInBounds_none _ _ _ (getD_setIfInBounds_self _ _)
      · exact getD_setIfInBounds_none _ _ _ (getD_setIfInBounds_none _ _ _ (halloc _ j (hsub j hj)))

theorem replayLog_clean (A : Attrs R) (m : Remesh.Cell R) (log : List (Bool × Nat × Nat × R))
    (h : ∀ i ∈ m.freeNodes, A.coup.getD i none = none) : CleanSt (replayLog A m log) := by
  unfold replayLog
  have : ∀ (l : List (Bool × Nat × Nat × R)) (st : Attrs R × List Nat × Nat), CleanSt st → CleanSt (l.foldl replayOp st) := by
    intro l
    induction l with
    | nil => intro st hst; exact hst
    | cons op l ih => intro st hst; exact ih _ (replayOp_clean st op hst)
  exact this _ _ h

/-- **`refine_mesh` keeps the free queue free of couplings** — when the replay of the log takes the slots the pass took
    (`replayOk`, part of the domain `refineLiveT`; proved from the mesh invariants in Properties/C14TissueInvariants.lean) -/
theorem refineCell_freeClean {fn : Fn R} {K : ConstsTR R} {c c' : CellTR R} (h : refineCell fn K c = .ok c')
    (hro : replayOk fn K c = true) (hc : ∀ i ∈ c.mesh.freeNodes, c.a.coup.getD i none = none) :
    ∀ i ∈ c'.mesh.freeNodes, c'.a.coup.getD i none = none := by
  unfold refineCell at h
  unfold replayOk at hro
  dsimp only at h hro
  have hfree : (PipelineR.faceTypes (kR K c.k) c.mesh).freeNodes = c.mesh.freeNodes := by
    unfold PipelineR.faceTypes
    split <;> rfl
  have hcl := replayLog_clean c.a (PipelineR.faceTypes (kR K c.k) c.mesh)
    (Remesh.refineMesh fn (Gen.refineConsts fn) (PipelineR.lminSq (kR K c.k)) (PipelineR.lmaxSq (kR K c.k)) K.swapOn
      (PipelineR.faceTypes (kR K c.k) c.mesh) K.maxIter).2.2 (by rw [hfree]; exact hc)
  generalize Remesh.refineMesh fn (Gen.refineConsts fn) (PipelineR.lminSq (kR K c.k)) (PipelineR.lmaxSq (kR K c.k)) K.swapOn
      (PipelineR.faceTypes (kR K c.k) c.mesh) K.maxIter = r at h hro hcl
  unfold PipelineR.refineResult at h
  cases ho : r.2.1 with
  | threw e => rw [ho] at h; cases h
  | fuelOut => rw [ho] at h; cases h
  | returned =>
    rw [ho] at h hro
    simp only [Except.map, Except.ok.injEq] at h
    subst h
    simp only [Bool.and_eq_true, beq_iff_eq] at hro
    intro i hi
    simp only at hi ⊢
    rw [← hro.1] at hi
    exact hcl i hi

theorem meshStageT_freeClean {fn : Fn R} {K : ConstsTR R} {s s1 : StateTR R} (h : meshStageT fn K s = .ok s1)
    (hro : refineLiveT fn K s = true) (hc : FreeClean s.cells) : FreeClean s1.cells := by
  unfold meshStageT at h
  unfold refineLiveT at hro
  cases hsv : saveMeshT fn K s with
  | error e => rw [hsv] at h; cases h
  | ok s0 =>
    rw [hsv] at h hro
    simp only [Except.bind] at h
    dsimp only at hro
    have h0 := saveMeshT_freeClean hsv hc
    cases hcol : collect (s0.cells.map (refineCell fn K)) with
    | error e => rw [hcol] at h; cases h
    | ok cs =>
      rw [hcol] at h
      simp only [Except.map, Except.ok.injEq] at h
      subst h
      intro c' hc'
      obtain ⟨c, hcm, hcc⟩ := collect_ok_mem (refineCell fn K) s0.cells cs hcol c' hc'
      have hr := (List.all_eq_true.mp hro) c hcm
      rw [Bool.and_eq_true] at hr
      exact refineCell_freeClean hcc hr.2 (h0 c hcm)

/-! ### steps 5–8 -/

theorem physStage_keeps (fn : Fn R) (fx : FX R) (K : ConstsTR R) (s : StateTR R) :
    Keeps (physStage fn fx K s).cells (contactRunR fn K.base s.cells).1 := by
  unfold physStage physFrom beforeIntegrationR
  dsimp only
  exact (keeps_integrateR K.base s.time _).trans
    ((Keeps.map _ _ (keeps_applyInternalForcesR fx K.base)).trans (keeps_polariseR _))

theorem contactRunR_flags_mem (fn : Fn R) (K : Consts R) (cells : List (CellTR R)) :
    ∀ c' ∈ (contactRunR fn K cells).1, ∃ c ∈ cells, SameFlags c' c := by
  intro c' hc'
  obtain ⟨i, hi⟩ := List.getElem?_of_mem hc'
  obtain ⟨c, hc, hf⟩ := contactRunR_flags fn K cells i c' hi
  exact ⟨c, List.mem_of_getElem? hc, hf⟩

theorem physStage_flags (fn : Fn R) (fx : FX R) (K : ConstsTR R) (s : StateTR R) :
    ∀ c' ∈ (physStage fn fx K s).cells, ∃ c ∈ s.cells, SameFlags c' c := by
  intro c' hc'
  obtain ⟨c1, hc1, hf1, _⟩ := physStage_keeps fn fx K s c' hc'
  obtain ⟨c, hc, hf⟩ := contactRunR_flags_mem fn K.base s.cells c1 hc1
  exact ⟨c, hc, hf1.trans hf⟩

/-- steps 5–8 keep released slots free of couplings -/
theorem physStage_staleFree (fn : Fn R) (fx : FX R) (K : ConstsTR R) (s : StateTR R) (hF : FacesLive s.cells)
    (hs : StaleFree s.cells) : StaleFree (physStage fn fx K s).cells :=
  (physStage_keeps fn fx K s).staleFree (contactRunR_staleFree fn K.base s.cells hF hs)

/-- **one whole iteration keeps "the free queue carries no coupling"**, and the contact phase inside it starts from cells whose
    released slots carry none.  `hmesh`: the meshes the refinement leaves have an exact free queue and used faces with used
    corners (fields of the mesh invariant `Remesh.CellOk`, which `C14.tissueIterationR_invariants` propagates) -/
theorem tissueIterationR_freeClean {fn : Fn R} {fx : FX R} {K : ConstsTR R} {s s' : StateTR R}
    (h : tissueIterationR fn fx K s = .ok s') (hro : refineLiveT fn K s = true)
    (hmesh : ∀ s1, meshStageT fn K s = .ok s1 → (∀ c ∈ s1.cells, QueueExact c.mesh) ∧ FacesLive s1.cells)
    (hc : FreeClean s.cells) :
    FreeClean s'.cells ∧ ∃ s1, meshStageT fn K s = .ok s1 ∧ s' = physStage fn fx K s1 ∧ StaleFree s1.cells := by
  unfold tissueIterationR at h
  cases hm : meshStageT fn K s with
  | error e => rw [hm] at h; cases h
  | ok s1 =>
    rw [hm] at h
    simp only [Except.map, Except.ok.injEq] at h
    obtain ⟨hq, hF⟩ := hmesh s1 hm
    have hs1 : StaleFree s1.cells := staleFree_of_freeClean hq (meshStageT_freeClean hm hro hc)
    refine ⟨?_, s1, rfl, h.symm, hs1⟩
    rw [← h]
    apply freeClean_of_staleFree _ (physStage_staleFree fn fx K s1 hF hs1)
    intro c' hc'
    obtain ⟨c, hcm, hf⟩ := physStage_flags fn fx K s1 c' hc'
    exact hf.queueExact (hq c hcm)

end Simu.C03S
