import SimuVerif.Model.BroadPhase
import Mathlib.Data.List.Nodup
import Mathlib.Data.List.Count
import Mathlib.Data.List.Range
import Mathlib.Data.List.GetD
import Mathlib.Algebra.BigOperators.Group.List.Basic
import Mathlib.Tactic.Linarith
import Mathlib.Tactic.Ring
/-
  C06 — the containers of the broad phase: what `voxel_lst_` holds after `store_face_in_uspg`
  (every face once per voxel of its range, most recent first), the flattening of voxel triples, and sums / folds
  over the faces found in a voxel versus over all faces.
-/
set_option linter.unusedSectionVars false
namespace Simu.BP
open Simu Simu.Gen

/-! ### `push_front` into one voxel -/

theorem length_pushAt (g : List (List Nat)) (i f : Nat) : (pushAt g i f).length = g.length := by
  induction g generalizing i with
  | nil => rfl
  | cons l ls ih => cases i with
    | zero => rfl
    | succ i => simp [pushAt, ih]

theorem getD_pushAt (g : List (List Nat)) (i f j : Nat) :
    (pushAt g i f).getD j [] = if i = j ∧ i < g.length then f :: g.getD j [] else g.getD j [] := by
  induction g generalizing i j with
  | nil => simp [pushAt]
  | cons l ls ih =>
    cases i with
    | zero =>
      cases j with
      | zero => simp [pushAt]
      | succ j => simp [pushAt]
    | succ i =>
      cases j with
      | zero => simp [pushAt]
      | succ j =>
        simp only [pushAt, List.getD_cons_succ, ih, List.length_cons, Nat.add_lt_add_iff_right, Nat.add_right_cancel_iff]

theorem length_foldl_pushAt (ids : List Nat) (g : List (List Nat)) (f : Nat) :
    (ids.foldl (fun gr vid => pushAt gr vid f) g).length = g.length := by
  induction ids generalizing g with
  | nil => rfl
  | cons v vs ih => simp only [List.foldl_cons, ih, length_pushAt]

/-- after one face was registered, voxel `j` holds it once per occurrence of `j` among the ids visited -/
theorem getD_foldl_pushAt (ids : List Nat) (g : List (List Nat)) (f j : Nat) (hj : j < g.length) :
    (ids.foldl (fun gr vid => pushAt gr vid f) g).getD j [] = List.replicate (ids.count j) f ++ g.getD j [] := by
  induction ids generalizing g with
  | nil => simp
  | cons v vs ih =>
    simp only [List.foldl_cons]
    rw [ih (pushAt g v f) (by rw [length_pushAt]; exact hj), getD_pushAt]
    by_cases hv : v = j
    · subst hv
      simp only [true_and, hj, if_true, List.count_cons_self]
      rw [List.replicate_succ', List.append_assoc]; rfl
    · have : ¬ (v = j ∧ v < g.length) := fun h => hv h.1
      simp only [this, if_false]
      rw [List.count_cons_of_ne hv]

variable {R : Type} [Add R] [Sub R] [Mul R] [Div R] [Neg R] [Lit R] [LT R] [LE R] [DecidableLT R] [DecidableLE R] [DecidableEq R]

theorem length_placeFace (g : GDims R) (grid : List (List Nat)) (fid : Nat) (r : VRange) :
    (placeFace g grid fid r).length = grid.length := length_foldl_pushAt _ _ _

/-- the fold of `store_face_in_uspg` over any list of (record, id) pairs -/
theorem getD_foldl_placeFace (fn : Fn R) (g : GDims R) (l : List (FaceRec R × Nat)) (grid : List (List Nat)) (j : Nat)
    (hj : j < grid.length) :
    (l.foldl (fun gr ri => placeFace g gr ri.2 (faceRange fn g ri.1.box)) grid).getD j [] =
      (l.reverse.flatMap fun ri => List.replicate ((voxelIds g (faceRange fn g ri.1.box)).count j) ri.2) ++ grid.getD j [] := by
  induction l generalizing grid with
  | nil => simp
  | cons ri l ih =>
    simp only [List.foldl_cons, List.reverse_cons, List.flatMap_append, List.flatMap_cons, List.flatMap_nil, List.append_nil]
    rw [ih _ (by rw [length_placeFace]; exact hj)]
    unfold placeFace
    rw [getD_foldl_pushAt _ _ _ _ hj, List.append_assoc]

theorem length_buildGrid (fn : Fn R) (g : GDims R) (rs : List (FaceRec R)) : (buildGrid fn g rs).length = g.total := by
  unfold buildGrid
  generalize rs.zipIdx = l
  have : ∀ (grid : List (List Nat)), (l.foldl (fun gr ri => placeFace g gr ri.2 (faceRange fn g ri.1.box)) grid).length = grid.length := by
    induction l with
    | nil => intro grid; rfl
    | cons ri l ih => intro grid; simp only [List.foldl_cons]; rw [ih, length_placeFace]
  rw [this, List.length_replicate]

/-- content of voxel `j` after `store_face_in_uspg` -/
theorem getD_buildGrid (fn : Fn R) (g : GDims R) (rs : List (FaceRec R)) (j : Nat) (hj : j < g.total) :
    (buildGrid fn g rs).getD j [] =
      rs.zipIdx.reverse.flatMap fun ri => List.replicate ((voxelIds g (faceRange fn g ri.1.box)).count j) ri.2 := by
  unfold buildGrid
  rw [getD_foldl_placeFace fn g _ _ j (by rw [List.length_replicate]; exact hj)]
  simp

/-! ### flattening of voxel triples -/

theorem flat_eq (g : GDims R) (x y z : Nat) : flat g x y z = x + g.nx * (y + g.ny * z) := by
  unfold flat; ring

theorem lt_mul_of (a n k m : Nat) (ha : a < n) (hk : k < m) : a + n * k < n * m := by
  have h1 : n * (k + 1) ≤ n * m := Nat.mul_le_mul_left n hk
  have h2 : n * (k + 1) = n * k + n := by ring
  omega

theorem flat_lt (g : GDims R) (x y z : Nat) (hx : x < g.nx) (hy : y < g.ny) (hz : z < g.nz) :
    flat g x y z < g.nx * g.ny * g.nz := by
  rw [flat_eq, Nat.mul_assoc]
  exact lt_mul_of _ _ _ _ hx (lt_mul_of _ _ _ _ hy hz)

theorem flat_inj (g : GDims R) (x y z x' y' z' : Nat) (hx : x < g.nx) (hy : y < g.ny) (hx' : x' < g.nx) (hy' : y' < g.ny)
    (h : flat g x y z = flat g x' y' z') : x = x' ∧ y = y' ∧ z = z' := by
  rw [flat_eq, flat_eq] at h
  have hnx : 0 < g.nx := by omega
  have hny : 0 < g.ny := by omega
  have e1 : x = x' := by
    have := congrArg (· % g.nx) h
    simp only [Nat.add_mul_mod_self_left, Nat.mod_eq_of_lt hx, Nat.mod_eq_of_lt hx'] at this
    exact this
  subst e1
  have e2 : y + g.ny * z = y' + g.ny * z' := by
    have := Nat.add_left_cancel h
    exact Nat.eq_of_mul_eq_mul_left hnx this
  have e3 : y = y' := by
    have := congrArg (· % g.ny) e2
    simp only [Nat.add_mul_mod_self_left, Nat.mod_eq_of_lt hy, Nat.mod_eq_of_lt hy'] at this
    exact this
  subst e3
  exact ⟨rfl, rfl, Nat.eq_of_mul_eq_mul_left hny (Nat.add_left_cancel e2)⟩

theorem mem_voxelIds (g : GDims R) (r : VRange) (j : Nat) :
    j ∈ voxelIds g r ↔ ∃ x y z, (r.x0 ≤ x ∧ x < r.x0 + loopLen r.x0 r.x1) ∧ (r.y0 ≤ y ∧ y < r.y0 + loopLen r.y0 r.y1) ∧
      (r.z0 ≤ z ∧ z < r.z0 + loopLen r.z0 r.z1) ∧ flat g x y z = j := by
  unfold voxelIds
  simp only [List.mem_flatMap, List.mem_map, List.mem_range'_1]
  constructor
  · rintro ⟨x, hx, y, hy, z, hz, e⟩; exact ⟨x, y, z, hx, hy, hz, e⟩
  · rintro ⟨x, y, z, hx, hy, hz, e⟩; exact ⟨x, hx, y, hy, z, hz, e⟩

/-- a face is registered at most once per voxel when its x and y ranges are inside the grid -/
theorem nodup_voxelIds (g : GDims R) (r : VRange)
    (hx : ∀ x, r.x0 ≤ x → x < r.x0 + loopLen r.x0 r.x1 → x < g.nx)
    (hy : ∀ y, r.y0 ≤ y → y < r.y0 + loopLen r.y0 r.y1 → y < g.ny) : (voxelIds g r).Nodup := by
  unfold voxelIds
  rw [List.nodup_flatMap]
  constructor
  · intro x hxm
    rw [List.mem_range'_1] at hxm
    rw [List.nodup_flatMap]
    constructor
    · intro y hym
      rw [List.mem_range'_1] at hym
      refine List.Nodup.map_on ?_ (List.nodup_range' (step := 1))
      intro z _ z' _ h
      exact (flat_inj g x y z x y z' (hx x hxm.1 hxm.2) (hy y hym.1 hym.2) (hx x hxm.1 hxm.2) (hy y hym.1 hym.2) h).2.2
    · refine List.Pairwise.imp_of_mem ?_ (List.nodup_range' (step := 1))
      intro y y' hym hym' hne
      rw [List.mem_range'_1] at hym hym'
      show List.Disjoint _ _
      intro j h1 h2
      simp only [List.mem_map] at h1 h2
      obtain ⟨z, _, e1⟩ := h1
      obtain ⟨z', _, e2⟩ := h2
      exact hne (flat_inj g x y z x y' z' (hx x hxm.1 hxm.2) (hy y hym.1 hym.2) (hx x hxm.1 hxm.2) (hy y' hym'.1 hym'.2) (e1.trans e2.symm)).2.1
  · refine List.Pairwise.imp_of_mem ?_ (List.nodup_range' (step := 1))
    intro x x' hxm hxm' hne
    rw [List.mem_range'_1] at hxm hxm'
    show List.Disjoint _ _
    intro j h1 h2
    simp only [List.mem_flatMap, List.mem_map, List.mem_range'_1] at h1 h2
    obtain ⟨y, hym, z, _, e1⟩ := h1
    obtain ⟨y', hym', z', _, e2⟩ := h2
    exact hne (flat_inj g x y z x' y' z' (hx x hxm.1 hxm.2) (hy y hym.1 hym.2) (hx x' hxm'.1 hxm'.2) (hy y' hym'.1 hym'.2) (e1.trans e2.symm)).1

/-! ### sums and folds over a voxel versus over all faces -/
section sums
variable {α : Type} {M : Type} [AddCommMonoid M]

theorem sum_map_flatMap_replicate (l : List (α × Nat)) (c : α × Nat → Nat) (w : Nat → M) :
    ((l.flatMap fun ri => List.replicate (c ri) ri.2).map w).sum = (l.map fun ri => c ri • w ri.2).sum := by
  induction l with
  | nil => simp
  | cons ri l ih =>
    simp only [List.flatMap_cons, List.map_append, List.sum_append, List.map_cons, List.sum_cons, ih,
      List.map_replicate, List.sum_replicate]

theorem sum_map_filter (L : List Nat) (p : Nat → Bool) (w : Nat → M) :
    ((L.filter p).map w).sum = (L.map fun i => if p i then w i else 0).sum := by
  induction L with
  | nil => simp
  | cons i L ih =>
    by_cases h : p i
    · simp [List.filter_cons, h, ih]
    · simp [List.filter_cons, h, ih]

theorem sum_map_filter_pair (l : List (α × Nat)) (q : α × Nat → Bool) (w : Nat → M) :
    (((l.filter q).map Prod.snd).map w).sum = (l.map fun ri => if q ri then w ri.2 else 0).sum := by
  simp only [List.map_map]
  induction l with
  | nil => simp
  | cons ri l ih =>
    by_cases h : q ri
    · simp [h, ih]
    · simp [h, ih]

/-- the sum over the faces found in a voxel and passing a test, in terms of all (record, id) pairs -/
theorem sum_candidates_form (l : List (α × Nat)) (c : α × Nat → Nat) (p : Nat → Bool) (w : Nat → M) :
    (((l.reverse.flatMap fun ri => List.replicate (c ri) ri.2).filter p).map w).sum =
      (l.map fun ri => c ri • (if p ri.2 then w ri.2 else 0)).sum := by
  rw [sum_map_filter, sum_map_flatMap_replicate, List.map_reverse, List.sum_reverse]

theorem sum_others_form (l : List (α × Nat)) (q : α × Nat → Bool) (w : Nat → M) :
    ((((l.filter q).map Prod.snd).reverse).map w).sum = (l.map fun ri => if q ri then w ri.2 else 0).sum := by
  rw [List.map_reverse, List.sum_reverse, sum_map_filter_pair]
end sums

section folds
variable {α : Type} {S : Type}

theorem foldl_filter_noop (l : List α) (p : α → Bool) (step : S → α → S)
    (h : ∀ x ∈ l, p x = false → ∀ s, step s x = s) (s : S) : (l.filter p).foldl step s = l.foldl step s := by
  induction l generalizing s with
  | nil => rfl
  | cons x l ih =>
    have ih' := ih (fun y hy => h y (List.mem_cons_of_mem _ hy))
    by_cases hp : p x
    · simp only [List.filter_cons, hp, if_true, List.foldl_cons, ih']
    · have hp' : p x = false := by simpa using hp
      rw [List.filter_cons_of_neg (by simp [hp']), List.foldl_cons, h x List.mem_cons_self hp' s]
      exact ih' s

/-- multiplicities 0 / 1: the voxel content is a sub-list of the ids -/
theorem flatMap_replicate_eq_filter (L : List (α × Nat)) (c : α × Nat → Nat) (h : ∀ ri ∈ L, c ri ≤ 1) :
    (L.flatMap fun ri => List.replicate (c ri) ri.2) = (L.filter fun ri => decide (c ri = 1)).map Prod.snd := by
  induction L with
  | nil => rfl
  | cons ri L ih =>
    have ih' := ih (fun x hx => h x (List.mem_cons_of_mem _ hx))
    have h1 := h ri List.mem_cons_self
    rcases Nat.le_one_iff_eq_zero_or_eq_one.mp h1 with h0 | h0
    · simp [List.filter_cons, h0, ih']
    · simp [List.filter_cons, h0, ih']
end folds

end Simu.BP
