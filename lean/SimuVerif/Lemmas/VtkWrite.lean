import SimuVerif.Lemmas.Vtk
/-
  C16 — what the searches of the reader find in the token list of the writer (`sectionsOf (fileToks F cs)`),
  section by section.
-/
namespace Simu.Vtk
open Simu.Gen.Vtk
variable {R : Type}

def Token.notWord : Token → Bool
  | .word _ => false
  | _ => true

/-- the token is one of the given keywords -/
def Token.isKey (ks : List (List Char)) : Token → Bool
  | .word w => ks.contains w
  | _ => false

theorem isKey_of_notWord {t : Token} {ks : List (List Char)} (h : t.notWord = true) : t.isKey ks = false := by
  cases t <;> simp_all [Token.notWord, Token.isKey]

/-! ## leftmost search -/

theorem findFirst_skip {α : Type} {p : List Token → Option α} :
    ∀ {l1 l2 : List Token}, (∀ t ∈ l1, ∀ rest, p (t :: rest) = none) → findFirst p (l1 ++ l2) = findFirst p l2
  | [], _, _ => rfl
  | t :: ts, l2, h => by
    have h1 := h t (by simp) (ts ++ l2)
    have ih := findFirst_skip (p := p) (l1 := ts) (l2 := l2) (fun x hx => h x (by simp [hx]))
    simp [findFirst, h1, ih]

theorem findFirst_hit {α : Type} {p : List Token → Option α} {t : Token} {ts : List Token} {a : α}
    (h : p (t :: ts) = some a) : findFirst p (t :: ts) = some a := by
  simp [findFirst, h]

theorem patPoints_none {t : Token} {rest : List Token} (h : t.isKey [kwPoints] = false) : patPoints (t :: rest) = none := by
  unfold patPoints
  split
  · rename_i w n ty r heq
    cases heq
    simp [Token.isKey] at h
    simp [h]
  · rfl

theorem patCellTypes_none {t : Token} {rest : List Token} (h : t.isKey [kwCellTypes] = false) : patCellTypes (t :: rest) = none := by
  unfold patCellTypes
  split
  · rename_i w n r heq
    cases heq
    simp [Token.isKey] at h
    simp [h]
  · rfl

theorem patCells_none {t : Token} {rest : List Token} (h : t.isKey [kwCells] = false) : patCells (t :: rest) = none := by
  unfold patCells
  split
  · rename_i w a b r heq
    cases heq
    simp [Token.isKey] at h
    simp [h]
  · rfl

def typeIdKeys : List (List Char) := [kwTypeId, 'C' :: kwTypeId.drop 1, '|' :: kwTypeId.drop 1]

theorem patTypeIds_none {t : Token} {rest : List Token} (h : t.isKey typeIdKeys = false) : patTypeIds (t :: rest) = none := by
  unfold patTypeIds
  split
  · rename_i w a b ty r heq
    cases heq
    simp [Token.isKey, typeIdKeys] at h
    obtain ⟨h1, h2, h3⟩ := h
    simp [h1, h2, h3]
  · rfl

/-! ## token classes of the sections of the writer -/

theorem notWord_coordToks (F : Fmt R) : ∀ (xs : List R) (i : Nat), ∀ t ∈ coordToks F i xs, t.notWord = true
  | [], _, t, h => by simp [coordToks] at h
  | x :: xs, i, t, h => by
    simp only [coordToks, List.mem_append] at h
    rcases h with h | h
    · split at h <;> simp at h <;> rcases h with rfl | rfl <;> rfl
    · exact notWord_coordToks F xs (i + 1) t h

theorem notWord_cellLines : ∀ (cs : List (Cell R)) (off : Nat), ∀ t ∈ cellLines off cs, t.notWord = true
  | [], _, t, h => by simp [cellLines] at h
  | c :: cs, off, t, h => by
    simp only [cellLines, List.mem_append, List.mem_cons, List.mem_map, List.not_mem_nil, or_false] at h
    rcases h with ((rfl | ⟨n, _, rfl⟩) | rfl) | h
    · rfl
    · rfl
    · rfl
    · exact notWord_cellLines cs _ t h

theorem notWord_valueToks : ∀ (vs : List Token) (i : Nat), (∀ v ∈ vs, v.notWord = true) → ∀ t ∈ valueToks i vs, t.notWord = true
  | [], _, _, t, h => by simp [valueToks] at h
  | v :: vs, i, hv, t, h => by
    simp only [valueToks, List.mem_append] at h
    rcases h with h | h
    · split at h <;> simp at h
      · rcases h with rfl | rfl
        · exact hv _ (by simp)
        · rfl
      · subst h; exact hv _ (by simp)
    · exact notWord_valueToks vs (i + 1) (fun x hx => hv x (by simp [hx])) t h

theorem notWord_polyLines (cs : List (Cell R)) : ∀ t ∈ cs.flatMap (fun _ => [Token.int wPolyType, Token.nl]), t.notWord = true := by
  intro t h
  simp only [List.mem_flatMap, List.mem_cons] at h
  obtain ⟨_, _, h⟩ := h
  rcases h with rfl | rfl | h
  · rfl
  · rfl
  · simp at h

/-! ## `numTexts`, `intVals` -/

theorem numTexts_append : ∀ (a b : List Token), numTexts (a ++ b) = numTexts a ++ numTexts b
  | [], _ => rfl
  | t :: ts, b => by
    cases t <;> simp [numTexts, numTexts_append ts b]

theorem intVals_append : ∀ (a b : List Token), intVals (a ++ b) = intVals a ++ intVals b
  | [], _ => rfl
  | t :: ts, b => by
    cases t <;> simp [intVals, intVals_append ts b]

theorem numTexts_coordToks (F : Fmt R) : ∀ (xs : List R) (i : Nat), numTexts (coordToks F i xs) = xs.map F.fmt
  | [], _ => rfl
  | x :: xs, i => by
    simp only [coordToks]
    split <;> simp [numTexts, numTexts_coordToks F xs (i + 1)]

theorem intVals_valueToks_int : ∀ (ns : List Nat) (i : Nat), intVals (valueToks i (ns.map Token.int)) = ns
  | [], _ => rfl
  | n :: ns, i => by
    simp only [List.map_cons, valueToks]
    split <;> simp [intVals, intVals_valueToks_int ns (i + 1)]

theorem intVals_map_int : ∀ (ns : List Nat), intVals (ns.map Token.int) = ns
  | [] => rfl
  | n :: ns => by simp [intVals, intVals_map_int ns]

theorem intVals_polyLines (cs : List (Cell R)) :
    intVals (cs.flatMap (fun _ => [Token.int wPolyType, Token.nl])) = List.replicate cs.length wPolyType := by
  induction cs with
  | nil => rfl
  | cons c cs ih => simp [intVals, ih, List.replicate_succ]

/-! ## lines -/

theorem splitLines_line : ∀ (line rest : List Token), (∀ t ∈ line, t ≠ Token.nl) →
    splitLines (line ++ Token.nl :: rest) = line :: splitLines rest
  | [], rest, _ => by simp [splitLines]
  | t :: ts, rest, h => by
    have ht : t ≠ Token.nl := h t (by simp)
    have ih := splitLines_line ts rest (fun x hx => h x (by simp [hx]))
    cases t with
    | nl => exact absurd rfl ht
    | word w => simp [splitLines, ih]
    | int n => simp [splitLines, ih]
    | num s => simp [splitLines, ih]

/-- the line of one cell as the reader's line loop sees it -/
def lineToks (off : Nat) (c : Cell R) : List Token := Token.int (cellIntSize c) :: (cellInts off c).map Token.int

/-- the connectivity lines of the cells, with the running node offset -/
def connOf : Nat → List (Cell R) → List (List Nat)
  | _, [] => []
  | off, c :: cs => cellInts off c :: connOf (off + c.nodes.length) cs

def leadsOf : List (Cell R) → List Nat
  | [] => []
  | c :: cs => cellIntSize c :: leadsOf cs

theorem splitLines_cellLines : ∀ (cs : List (Cell R)) (off : Nat) (rest : List Token),
    splitLines (cellLines off cs ++ rest) = (List.zipWith (fun l ints => Token.int l :: ints.map Token.int) (leadsOf cs) (connOf off cs)) ++ splitLines rest
  | [], _, _ => by simp [cellLines, leadsOf, connOf]
  | c :: cs, off, rest => by
    have ih := splitLines_cellLines cs (off + c.nodes.length) rest
    simp only [cellLines, leadsOf, connOf, List.zipWith_cons_cons, List.cons_append, List.append_assoc, List.singleton_append, List.nil_append]
    have hl : ∀ t ∈ Token.int (cellIntSize c) :: (cellInts off c).map Token.int, t ≠ Token.nl := by
      intro t ht
      simp only [List.mem_cons, List.mem_map] at ht
      rcases ht with rfl | ⟨n, _, rfl⟩ <;> simp
    have := splitLines_line (Token.int (cellIntSize c) :: (cellInts off c).map Token.int) (cellLines (off + c.nodes.length) cs ++ rest) hl
    simp only [List.cons_append] at this
    rw [this, ih]

theorem render_length_two (a b : Nat) (rest : List Token) : rLineSkip < (render (Token.int a :: Token.int b :: rest)).length := by
  have ha := Nat.length_toDigits_pos (b := 10) (n := a)
  have hb := Nat.length_toDigits_pos (b := 10) (n := b)
  simp only [render, List.flatMap_cons, Token.render, digitsOf, List.length_append, List.length_cons, List.length_nil]
  have : rLineSkip = 3 := rfl
  omega

theorem lineOf_cell (lead : Nat) (ints : List Nat) (h : ints ≠ []) :
    lineOf (Token.int lead :: ints.map Token.int) = some ⟨some lead, ints⟩ := by
  match ints, h with
  | n :: ns, _ =>
    have := render_length_two lead n (ns.map Token.int)
    unfold lineOf
    simp only [List.map_cons]
    rw [if_neg (by omega)]
    simp [intVals, intVals_map_int]

theorem lineOf_nil : lineOf [] = none := by
  have : rLineSkip = 3 := rfl
  simp [lineOf, render, this]

theorem cellInts_ne_nil (off : Nat) (c : Cell R) : cellInts off c ≠ [] := by simp [cellInts]

theorem connOf_length : ∀ (cs : List (Cell R)) (off : Nat), (connOf off cs).length = cs.length
  | [], _ => rfl
  | c :: cs, off => by simp [connOf, connOf_length cs]

theorem leadsOf_length : ∀ (cs : List (Cell R)), (leadsOf cs).length = cs.length
  | [] => rfl
  | c :: cs => by simp [leadsOf, leadsOf_length cs]

theorem filterMap_lineOf_cells : ∀ (cs : List (Cell R)) (off : Nat),
    (List.zipWith (fun l ints => Token.int l :: ints.map Token.int) (leadsOf cs) (connOf off cs)).filterMap lineOf
      = List.zipWith (fun l ints => (⟨some l, ints⟩ : CellLine)) (leadsOf cs) (connOf off cs)
  | [], _ => rfl
  | c :: cs, off => by
    simp only [leadsOf, connOf, List.zipWith_cons_cons, List.filterMap_cons, lineOf_cell _ _ (cellInts_ne_nil off c),
      filterMap_lineOf_cells cs]

end Simu.Vtk

namespace Simu.Vtk
open Simu.Gen.Vtk
variable {R : Type}

/-! ## facts about the literals of the writer (Gen/VtkConsts.lean), by evaluation -/

def headerExpected : List Token :=
  [.word ['#'], .word ['v', 't', 'k'], .word ['D', 'a', 't', 'a', 'F', 'i', 'l', 'e'], .word ['V', 'e', 'r', 's', 'i', 'o', 'n'],
   .num ['4', '.', '2'], .nl, .word ['v', 't', 'k'], .word ['o', 'u', 't', 'p', 'u', 't'], .nl, .word ['A', 'S', 'C', 'I', 'I'], .nl,
   .word ['D', 'A', 'T', 'A', 'S', 'E', 'T'], .word ['U', 'N', 'S', 'T', 'R', 'U', 'C', 'T', 'U', 'R', 'E', 'D', '_', 'G', 'R', 'I', 'D'], .nl]

theorem header_toks : tokenize wHeader = headerExpected := by decide

def Clean (ks : List (List Char)) (l : List Token) : Prop := ∀ t ∈ l, t.isKey ks = false

theorem Clean.append {ks : List (List Char)} {a b : List Token} (ha : Clean ks a) (hb : Clean ks b) : Clean ks (a ++ b) := by
  intro t ht
  rcases List.mem_append.1 ht with h | h
  · exact ha t h
  · exact hb t h

theorem Clean.of_notWord {ks : List (List Char)} {l : List Token} (h : ∀ t ∈ l, t.notWord = true) : Clean ks l :=
  fun t ht => isKey_of_notWord (h t ht)

theorem Clean.cons {ks : List (List Char)} {t : Token} {l : List Token} (ht : t.isKey ks = false) (hl : Clean ks l) : Clean ks (t :: l) := by
  intro x hx
  rcases List.mem_cons.1 hx with rfl | h
  · exact ht
  · exact hl x h

theorem header_clean_points : Clean [kwPoints] (tokenize wHeader) := by rw [header_toks]; unfold Clean; decide
theorem header_clean_cells : Clean [kwCells] (tokenize wHeader) := by rw [header_toks]; unfold Clean; decide
theorem header_clean_cellTypes : Clean [kwCellTypes] (tokenize wHeader) := by rw [header_toks]; unfold Clean; decide
theorem header_clean_typeIds : Clean typeIdKeys (tokenize wHeader) := by rw [header_toks]; unfold Clean; decide
theorem field_clean_typeIds : Clean typeIdKeys (tokenize wFieldKw) := by unfold Clean; decide

theorem kwFloat_ok : (kwFloat.all isLower = true ∧ kwFloat ≠ []) := by decide
theorem kwCells_word2 : twoWordCh kwCells = true := by decide
theorem kwCellTypes_upper : kwCellTypes.any isUpper = true := by decide
theorem kwCellData_upper : kwCellData.any isUpper = true := by decide
theorem polyType_eq : wPolyType = rPolyType := by decide
theorem faceArity_eq : wFaceArity = 3 := by decide
theorem intsPerFace_eq : wIntsPerFace = 4 := by decide
theorem intsPerCellBase_eq : wIntsPerCellBase = 1 := by decide
theorem float_accepted : rCoordTypes.contains kwFloat = true := by decide

/-- the data arrays: `cell_id` first, `cell_type_id` second, then at least one more array whose name has a letter -/
theorem cellArrays_shape : ∃ ty0 ty1 name2 ty2 tl, cellArrays = (kwCellId, ty0) :: (kwTypeId, ty1) :: (name2, ty2) :: tl
    ∧ ty1.all isAlpha = true ∧ ty1 ≠ [] ∧ name2.any isAlpha = true ∧ [kwCellId, ty0].all (fun w => !typeIdKeys.contains w) = true :=
  ⟨_, _, _, _, _, rfl, by decide, by decide, by decide, by decide⟩

theorem notWord_pred {t : Token} (h : t.notWord = true) : (!t.isWord2) = true ∧ (!t.hasUpper) = true ∧ (!t.hasAlpha) = true := by
  cases t <;> simp_all [Token.notWord, Token.isWord2, Token.hasUpper, Token.hasAlpha]

theorem takeWhile_stop {p : Token → Bool} (l1 : List Token) (w : List Char) (l2 : List Token)
    (h1 : ∀ t ∈ l1, p t = true) (hw : p (.word w) = false) : (l1 ++ Token.word w :: l2).takeWhile p = l1 := by
  rw [List.takeWhile_append_of_pos h1, List.takeWhile_cons_of_neg (by simp [hw])]
  simp

/-! ## the five searches on the file of the writer -/

theorem version_of_file (F : Fmt R) (cs : List (Cell R)) :
    (sectionsOf (fileToks F cs)).version = some ['4', '.', '2'] := by
  simp only [sectionsOf, fileToks, header_toks, headerExpected]
  simp [findFirst, patVersion]

theorem points_of_file (F : Fmt R) (cs : List (Cell R)) :
    (sectionsOf (fileToks F cs)).points = some ((cs.map (fun c => c.nodes.length)).sum, kwFloat, (cs.flatMap Cell.coords).map F.fmt) := by
  simp only [sectionsOf, fileToks]
  rw [findFirst_skip (fun t ht rest => patPoints_none (header_clean_points t ht))]
  simp only [pointsToks, List.cons_append, List.nil_append]
  rw [findFirst_hit (a := ((cs.map (fun c => c.nodes.length)).sum, kwFloat,
    Token.nl :: (coordToks F 0 (cs.flatMap Cell.coords) ++ (cellsToks cs ++ (typesToks cs ++ dataToks cs))))) (by simp [patPoints, kwFloat_ok])]
  simp only [Option.map_some, cellsToks, List.cons_append, List.nil_append]
  congr 3
  have h : (Token.nl :: (coordToks F 0 (cs.flatMap Cell.coords) ++ Token.nl :: Token.nl :: Token.word kwCells :: Token.int cs.length ::
        Token.int ((cs.map cellIntSize).sum + cs.length) :: Token.nl :: (cellLines 0 cs ++ (typesToks cs ++ dataToks cs)))).takeWhile (fun t => !t.isWord2)
      = Token.nl :: coordToks F 0 (cs.flatMap Cell.coords) ++ [Token.nl, Token.nl] := by
    have := takeWhile_stop (p := fun t => !t.isWord2) (Token.nl :: coordToks F 0 (cs.flatMap Cell.coords) ++ [Token.nl, Token.nl]) kwCells
      (Token.int cs.length :: Token.int ((cs.map cellIntSize).sum + cs.length) :: Token.nl :: (cellLines 0 cs ++ (typesToks cs ++ dataToks cs)))
      (by
        intro t ht
        simp only [List.cons_append, List.mem_cons, List.mem_append, List.not_mem_nil, or_false] at ht
        rcases ht with rfl | ht | rfl | rfl
        · rfl
        · exact (notWord_pred (notWord_coordToks F _ _ t ht)).1
        · rfl
        · rfl)
      (by simp [Token.isWord2, kwCells_word2])
    simpa using this
  rw [h]
  simp [numTexts_append, numTexts, numTexts_coordToks]

end Simu.Vtk

namespace Simu.Vtk
open Simu.Gen.Vtk
variable {R : Type}

theorem pointsToks_clean (F : Fmt R) (cs : List (Cell R)) (ks : List (List Char))
    (h1 : (Token.word kwPoints).isKey ks = false) (h2 : (Token.word kwFloat).isKey ks = false) : Clean ks (pointsToks F cs) := by
  unfold pointsToks
  exact Clean.append (Clean.cons h1 (Clean.cons rfl (Clean.cons h2 (Clean.cons rfl (fun _ h => by simp at h)))))
    (Clean.of_notWord (notWord_coordToks F _ _))

theorem cellsToks_clean (cs : List (Cell R)) (ks : List (List Char))
    (h1 : (Token.word kwCells).isKey ks = false) : Clean ks (cellsToks cs) := by
  unfold cellsToks
  exact Clean.append (Clean.cons rfl (Clean.cons rfl (Clean.cons h1 (Clean.cons rfl (Clean.cons rfl (Clean.cons rfl (fun _ h => by simp at h)))))))
    (Clean.of_notWord (notWord_cellLines _ _))

theorem typesToks_clean (cs : List (Cell R)) (ks : List (List Char))
    (h1 : (Token.word kwCellTypes).isKey ks = false) : Clean ks (typesToks cs) := by
  unfold typesToks
  exact Clean.append (Clean.cons rfl (Clean.cons h1 (Clean.cons rfl (Clean.cons rfl (fun _ h => by simp at h)))))
    (Clean.of_notWord (notWord_polyLines cs))

theorem cellTypes_of_file (F : Fmt R) (cs : List (Cell R)) :
    (sectionsOf (fileToks F cs)).cellTypes = some (cs.length, List.replicate cs.length wPolyType) := by
  simp only [sectionsOf, fileToks]
  rw [findFirst_skip (fun t ht rest => patCellTypes_none (header_clean_cellTypes t ht))]
  rw [findFirst_skip (fun t ht rest => patCellTypes_none (pointsToks_clean F cs _ (by decide) (by decide) t ht))]
  rw [findFirst_skip (fun t ht rest => patCellTypes_none (cellsToks_clean cs _ (by decide) t ht))]
  simp only [typesToks, List.cons_append, List.nil_append]
  rw [show ∀ l, Token.nl :: l = [Token.nl] ++ l from fun _ => rfl,
    findFirst_skip (fun t ht rest => patCellTypes_none (by simp at ht; subst ht; rfl))]
  rw [findFirst_hit (a := (cs.length, Token.nl :: (cs.flatMap (fun _ => [Token.int wPolyType, Token.nl]) ++ dataToks cs))) (by simp [patCellTypes])]
  simp only [Option.map_some, dataToks, List.cons_append, List.nil_append]
  congr 2
  have := takeWhile_stop (p := fun t => !t.hasUpper) (Token.nl :: cs.flatMap (fun _ => [Token.int wPolyType, Token.nl]) ++ [Token.nl]) kwCellData
    (Token.int cs.length :: Token.nl :: (tokenize wFieldKw ++ Token.int cellArrays.length :: arrayToks cs 0 cellArrays))
    (by
      intro t ht
      simp only [List.cons_append, List.mem_cons, List.mem_append, List.not_mem_nil, or_false] at ht
      rcases ht with rfl | ht | rfl
      · rfl
      · exact (notWord_pred (notWord_polyLines cs t ht)).2.1
      · rfl)
    (by simp [Token.hasUpper, kwCellData_upper])
  simp only [List.cons_append, List.append_assoc, List.singleton_append, List.nil_append] at this
  rw [this]
  simp [intVals, intVals_append, intVals_polyLines]

theorem cells_of_file (F : Fmt R) (cs : List (Cell R)) :
    (sectionsOf (fileToks F cs)).cells
      = some (some (List.zipWith (fun l ints => (⟨some l, ints⟩ : CellLine)) (leadsOf cs) (connOf 0 cs))) := by
  simp only [sectionsOf, fileToks]
  rw [findFirst_skip (fun t ht rest => patCells_none (header_clean_cells t ht))]
  rw [findFirst_skip (fun t ht rest => patCells_none (pointsToks_clean F cs _ (by decide) (by decide) t ht))]
  simp only [cellsToks, List.cons_append, List.nil_append]
  rw [show ∀ l, Token.nl :: Token.nl :: l = [Token.nl, Token.nl] ++ l from fun _ => rfl,
    findFirst_skip (fun t ht rest => patCells_none (by simp at ht; subst ht; rfl))]
  rw [findFirst_hit (a := Token.nl :: (cellLines 0 cs ++ (typesToks cs ++ dataToks cs))) (by simp [patCells])]
  simp only [Option.map_some, typesToks, List.cons_append, List.nil_append]
  have hany : (Token.nl :: (cellLines 0 cs ++ Token.nl :: Token.word kwCellTypes :: Token.int cs.length :: Token.nl ::
      (cs.flatMap (fun _ => [Token.int wPolyType, Token.nl]) ++ dataToks cs))).any Token.hasUpper = true := by
    simp [Token.hasUpper, kwCellTypes_upper]
  rw [if_pos hany]
  have := takeWhile_stop (p := fun t => !t.hasUpper) (Token.nl :: cellLines 0 cs ++ [Token.nl]) kwCellTypes
    (Token.int cs.length :: Token.nl :: (cs.flatMap (fun _ => [Token.int wPolyType, Token.nl]) ++ dataToks cs))
    (by
      intro t ht
      simp only [List.cons_append, List.mem_cons, List.mem_append, List.not_mem_nil, or_false] at ht
      rcases ht with rfl | ht | rfl
      · rfl
      · exact (notWord_pred (notWord_cellLines cs 0 t ht)).2.1
      · rfl)
    (by simp [Token.hasUpper, kwCellTypes_upper])
  simp only [List.cons_append, List.append_assoc, List.singleton_append, List.nil_append] at this
  rw [this]
  congr 2
  simp only [splitLines, splitLines_cellLines, List.filterMap_cons, lineOf_nil, List.filterMap_append, filterMap_lineOf_cells,
    List.filterMap_nil, List.append_nil]

theorem typeIds_of_file (F : Fmt R) (cs : List (Cell R)) (hty : ∀ c ∈ cs, 0 ≤ c.typeId) :
    (sectionsOf (fileToks F cs)).typeIds = some (cs.map (fun c => c.typeId.toNat)) := by
  obtain ⟨ty0, ty1, name2, ty2, tl, hshape, hty1, hty1', hname2, hk⟩ := cellArrays_shape
  simp only [List.all_cons, List.all_nil, Bool.and_true, Bool.and_eq_true, Bool.not_eq_eq_eq_not, Bool.not_true] at hk
  simp only [sectionsOf, fileToks]
  rw [findFirst_skip (fun t ht rest => patTypeIds_none (header_clean_typeIds t ht))]
  rw [findFirst_skip (fun t ht rest => patTypeIds_none (pointsToks_clean F cs _ (by decide) (by decide) t ht))]
  rw [findFirst_skip (fun t ht rest => patTypeIds_none (cellsToks_clean cs _ (by decide) t ht))]
  rw [findFirst_skip (fun t ht rest => patTypeIds_none (typesToks_clean cs _ (by decide) t ht))]
  unfold dataToks
  rw [findFirst_skip (fun t ht rest => patTypeIds_none
    ((Clean.cons rfl (Clean.cons (by decide) (Clean.cons rfl (Clean.cons rfl (fun _ h => by simp at h)))) : Clean typeIdKeys
      [Token.nl, Token.word kwCellData, Token.int cs.length, Token.nl]) t ht))]
  rw [findFirst_skip (fun t ht rest => patTypeIds_none (field_clean_typeIds t ht))]
  rw [hshape]
  simp only [arrayToks, List.cons_append, List.nil_append, List.append_assoc]
  -- the count of arrays, the header of the cell_id array and its values
  have hvals0 : cs.map (arrayValue 0 kwCellId) = (cs.map (fun c => c.id)).map Token.int := by
    simp [arrayValue]
  have hclean0 : Clean typeIdKeys (Token.int ((kwCellId, ty0) :: (kwTypeId, ty1) :: (name2, ty2) :: tl).length :: Token.nl :: Token.word kwCellId ::
      Token.int 1 :: Token.int cs.length :: Token.word ty0 :: Token.nl :: (valueToks 0 (cs.map (arrayValue 0 kwCellId)) ++ [Token.nl])) := by
    refine Clean.cons rfl (Clean.cons rfl (Clean.cons (by simpa [Token.isKey] using hk.1) (Clean.cons rfl (Clean.cons rfl
      (Clean.cons (by simpa [Token.isKey] using hk.2) (Clean.cons rfl (Clean.append (Clean.of_notWord ?_) (Clean.cons rfl (fun _ h => by simp at h)))))))))
    rw [hvals0]
    exact notWord_valueToks _ _ (fun v hv => by simp at hv; obtain ⟨_, _, rfl⟩ := hv; rfl)
  have hsplit : ∀ X, Token.int ((kwCellId, ty0) :: (kwTypeId, ty1) :: (name2, ty2) :: tl).length :: Token.nl :: Token.word kwCellId ::
      Token.int 1 :: Token.int cs.length :: Token.word ty0 :: Token.nl :: (valueToks 0 (cs.map (arrayValue 0 kwCellId)) ++ Token.nl :: X)
      = (Token.int ((kwCellId, ty0) :: (kwTypeId, ty1) :: (name2, ty2) :: tl).length :: Token.nl :: Token.word kwCellId ::
      Token.int 1 :: Token.int cs.length :: Token.word ty0 :: Token.nl :: (valueToks 0 (cs.map (arrayValue 0 kwCellId)) ++ [Token.nl])) ++ X := by
    intro X; simp
  rw [hsplit, findFirst_skip (fun t ht rest => patTypeIds_none (hclean0 t ht))]
  have hne : kwTypeId ≠ kwCellId := by decide
  have hvals1 : cs.map (arrayValue 1 kwTypeId) = (cs.map (fun c => c.typeId.toNat)).map Token.int := by
    rw [List.map_map]
    apply List.map_congr_left
    intro c hc
    simp [arrayValue, hne, intTok, hty c hc]
  rw [findFirst_hit (a := Token.nl :: (valueToks 0 (cs.map (arrayValue 1 kwTypeId)) ++ Token.nl :: Token.word name2 :: Token.int 1 :: Token.int cs.length ::
      Token.word ty2 :: Token.nl :: (valueToks 0 (cs.map (arrayValue 2 name2)) ++ arrayToks cs 3 tl)))
    (by simp [patTypeIds, hty1, hty1'])]
  simp only [Option.map_some]
  congr 1
  have := takeWhile_stop (p := fun t => !t.hasAlpha) (Token.nl :: valueToks 0 (cs.map (arrayValue 1 kwTypeId)) ++ [Token.nl]) name2
    (Token.int 1 :: Token.int cs.length :: Token.word ty2 :: Token.nl :: (valueToks 0 (cs.map (arrayValue 2 name2)) ++ arrayToks cs 3 tl))
    (by
      intro t ht
      simp only [List.cons_append, List.mem_cons, List.mem_append, List.not_mem_nil, or_false] at ht
      rcases ht with rfl | ht | rfl
      · rfl
      · rw [hvals1] at ht
        exact (notWord_pred (notWord_valueToks _ _ (fun v hv => by simp at hv; obtain ⟨_, _, rfl⟩ := hv; rfl) t ht)).2.2
      · rfl)
    (by simp [Token.hasAlpha, hname2])
  simp only [List.cons_append, List.append_assoc, List.singleton_append, List.nil_append] at this
  rw [this, hvals1]
  simp only [intVals, intVals_append, intVals_valueToks_int, List.append_nil]

end Simu.Vtk
