import SimuVerif.Lemmas.GridFloor
import Mathlib.Data.List.Nodup
import Mathlib.Data.List.Perm.Basic
import Mathlib.Data.List.Range
/-
  C20 — the flattening `(x, y, z) ↦ z·nx·ny + y·nx + x` is a bijection between the in-range
  triples and `[0, nx·ny·nz)`; the loop nests of `get_neighborhood` / `get_grid_content` visit
  exactly the voxels of their block, each once.
-/
set_option linter.unusedSectionVars false
namespace Simu.Grid
open Simu

/-- the flattening expression of `get_voxel_index` and of the four loop nests -/
def flat (nx ny x y z : Nat) : Nat := z * nx * ny + y * nx + x

theorem flat_lt {nx ny nz x y z : Nat} (hx : x < nx) (hy : y < ny) (hz : z < nz) :
    flat nx ny x y z < nx * ny * nz := by
  unfold flat
  have h1 : y * nx + x < ny * nx := by
    calc y * nx + x < y * nx + nx := by omega
      _ = (y + 1) * nx := by ring
      _ ≤ ny * nx := Nat.mul_le_mul_right _ hy
  have h2 : z * nx * ny + (y * nx + x) < (z + 1) * (nx * ny) := by
    have : (z + 1) * (nx * ny) = z * nx * ny + ny * nx := by ring
    omega
  have h3 : (z + 1) * (nx * ny) ≤ nz * (nx * ny) := Nat.mul_le_mul_right _ hz
  calc z * nx * ny + y * nx + x = z * nx * ny + (y * nx + x) := by ring
    _ < (z + 1) * (nx * ny) := h2
    _ ≤ nz * (nx * ny) := h3
    _ = nx * ny * nz := by ring

theorem flat_mod {nx ny x y z : Nat} (hx : x < nx) : flat nx ny x y z % nx = x := by
  unfold flat
  have : z * nx * ny + y * nx + x = x + nx * (z * ny + y) := by ring
  rw [this, Nat.add_mul_mod_self_left, Nat.mod_eq_of_lt hx]

theorem flat_div {nx ny x y z : Nat} (hx : x < nx) : flat nx ny x y z / nx = z * ny + y := by
  unfold flat
  have : z * nx * ny + y * nx + x = x + nx * (z * ny + y) := by ring
  rw [this, Nat.add_mul_div_left _ _ (by omega), Nat.div_eq_of_lt hx, Nat.zero_add]

/-- the flattening is injective on in-range triples -/
theorem flat_inj {nx ny x y z x' y' z' : Nat} (hx : x < nx) (hy : y < ny) (hx' : x' < nx) (hy' : y' < ny)
    (h : flat nx ny x y z = flat nx ny x' y' z') : x = x' ∧ y = y' ∧ z = z' := by
  have e1 : x = x' := by rw [← flat_mod (ny := ny) (y := y) (z := z) hx, h, flat_mod hx']
  have e2 : z * ny + y = z' * ny + y' := by rw [← flat_div (x := x) hx, h, flat_div hx']
  have e3 : y = y' := by
    have := congrArg (· % ny) e2
    simpa [Nat.mul_add_mod_self_right, Nat.mod_eq_of_lt hy, Nat.mod_eq_of_lt hy', Nat.add_comm] using this
  refine ⟨e1, e3, ?_⟩
  subst e3
  have : z * ny = z' * ny := by omega
  exact Nat.eq_of_mul_eq_mul_right (by omega) this

/-- … and onto `[0, nx·ny·nz)` -/
theorem flat_surj {nx ny nz id : Nat} (h : id < nx * ny * nz) :
    ∃ x y z, x < nx ∧ y < ny ∧ z < nz ∧ flat nx ny x y z = id := by
  have hnx : 0 < nx := by
    rcases Nat.eq_zero_or_pos nx with h0 | h0
    · subst h0; simp at h
    · exact h0
  have hny : 0 < ny := by
    rcases Nat.eq_zero_or_pos ny with h0 | h0
    · subst h0; simp at h
    · exact h0
  refine ⟨id % nx, (id / nx) % ny, id / nx / ny, Nat.mod_lt _ hnx, Nat.mod_lt _ hny, ?_, ?_⟩
  · rw [Nat.div_div_eq_div_mul, Nat.div_lt_iff_lt_mul (Nat.mul_pos hnx hny)]
    calc id < nx * ny * nz := h
      _ = nz * (nx * ny) := by ring
  · unfold flat
    have h1 := Nat.div_add_mod id nx
    have h2 := Nat.div_add_mod (id / nx) ny
    calc id / nx / ny * nx * ny + id / nx % ny * nx + id % nx
        = nx * (ny * (id / nx / ny) + id / nx % ny) + id % nx := by ring
      _ = nx * (id / nx) + id % nx := by rw [h2]
      _ = id := h1

section visit
variable {R : Type}

theorem flatten_eq (g : Dims R) (x y z : Nat) : Gen.flatten g x y z = flat g.nx g.ny x y z := rfl

theorem mem_loopRange {s e i : Nat} : i ∈ loopRange s e ↔ s ≤ i ∧ i < e := by
  unfold loopRange; rw [List.mem_range'_1]; omega

theorem nodup_loopRange (s e : Nat) : (loopRange s e).Nodup := List.nodup_range' ..

theorem mem_visit {g : Dims R} {s e : Nat × Nat × Nat} {id : Nat} :
    id ∈ visit g s e ↔ ∃ x y z, (s.1 ≤ x ∧ x < e.1) ∧ (s.2.1 ≤ y ∧ y < e.2.1) ∧ (s.2.2 ≤ z ∧ z < e.2.2) ∧
      id = flat g.nx g.ny x y z := by
  unfold visit
  simp only [List.mem_flatMap, List.mem_map, mem_loopRange, flatten_eq]
  constructor
  · rintro ⟨x, hx, y, hy, z, hz, rfl⟩; exact ⟨x, y, z, hx, hy, hz, rfl⟩
  · rintro ⟨x, y, z, hx, hy, hz, rfl⟩; exact ⟨x, hx, y, hy, z, hz, rfl⟩

/-- a loop nest that stays inside the grid never visits a voxel twice -/
theorem nodup_visit {g : Dims R} {s e : Nat × Nat × Nat} (hx : e.1 ≤ g.nx) (hy : e.2.1 ≤ g.ny) :
    (visit g s e).Nodup := by
  unfold visit
  rw [List.nodup_flatMap]
  refine ⟨fun x hx' => ?_, ?_⟩
  · rw [List.nodup_flatMap]
    refine ⟨fun y hy' => ?_, ?_⟩
    · refine (nodup_loopRange _ _).map_on ?_
      intro z _ z' _ h
      rw [flatten_eq, flatten_eq] at h
      exact (flat_inj (by have := (mem_loopRange.mp hx').2; omega) (by have := (mem_loopRange.mp hy').2; omega)
        (by have := (mem_loopRange.mp hx').2; omega) (by have := (mem_loopRange.mp hy').2; omega) h).2.2
    · refine (nodup_loopRange _ _).imp_of_mem ?_
      intro y y' hy1 hy2 hne
      simp only [Function.onFun, List.disjoint_left, List.mem_map, flatten_eq]
      rintro id ⟨z, _, rfl⟩ ⟨z', _, h⟩
      exact hne (flat_inj (by have := (mem_loopRange.mp hx').2; omega) (by have := (mem_loopRange.mp hy2).2; omega)
        (by have := (mem_loopRange.mp hx').2; omega) (by have := (mem_loopRange.mp hy1).2; omega) h).2.1.symm
  · refine (nodup_loopRange _ _).imp_of_mem ?_
    intro x x' hx1 hx2 hne
    simp only [Function.onFun, List.disjoint_left, List.mem_flatMap, List.mem_map, flatten_eq]
    rintro id ⟨y, hy1, z, _, rfl⟩ ⟨y', hy2, z', _, h⟩
    exact hne (flat_inj (by have := (mem_loopRange.mp hx2).2; omega) (by have := (mem_loopRange.mp hy2).2; omega)
      (by have := (mem_loopRange.mp hx1).2; omega) (by have := (mem_loopRange.mp hy1).2; omega) h).1.symm

/-- every voxel visited by a loop nest that stays inside the grid exists in the flat vector -/
theorem visit_lt {g : Dims R} {s e : Nat × Nat × Nat} (hx : e.1 ≤ g.nx) (hy : e.2.1 ≤ g.ny) (hz : e.2.2 ≤ g.nz)
    {id : Nat} (h : id ∈ visit g s e) : id < g.nx * g.ny * g.nz := by
  obtain ⟨x, y, z, h1, h2, h3, rfl⟩ := mem_visit.mp h
  exact flat_lt (by omega) (by omega) (by omega)

/-- the loop nest of `get_grid_content` visits every voxel of the flat vector exactly once -/
theorem visit_all_perm (g : Dims R) :
    (visit g (0, 0, 0) (g.nx, g.ny, g.nz)).Perm (List.range (g.nx * g.ny * g.nz)) := by
  rw [List.perm_ext_iff_of_nodup (nodup_visit (le_refl _) (le_refl _)) List.nodup_range]
  intro id
  rw [List.mem_range]
  constructor
  · exact visit_lt (le_refl _) (le_refl _) (le_refl _)
  · intro h
    obtain ⟨x, y, z, hx, hy, hz, rfl⟩ := flat_surj h
    exact mem_visit.mpr ⟨x, y, z, ⟨Nat.zero_le _, hx⟩, ⟨Nat.zero_le _, hy⟩, ⟨Nat.zero_le _, hz⟩, rfl⟩
end visit

end Simu.Grid
