import SimuVerif.Model.Gate
import SimuVerif.Lemmas.C13_Count
/-
  C13 — what `cell::generate_edge_set` (model: `Geo.genEdges`) builds: one record per undirected edge, holding the
  faces that use it, in the order of the faces.  Consequences when every record has two faces (`is_manifold`): every
  edge is used by exactly two face slots, the number of records is the number of undirected edges, and the neighbour
  lookup of the flood fill (`Geo.nbr`) returns another face that contains the same edge.
-/
namespace Simu.C13
open Simu.Surface
open Simu.Geo (edgeKey addEdgeFace genEdges nbr EdgeRec)

abbrev Slot := (Nat × Nat) × Nat

theorem edgeKey_eq (a b : Nat) : edgeKey a b = normHE (a, b) := by
  unfold edgeKey normHE
  simp only
  split_ifs <;> simp only [Prod.mk.injEq] <;> omega

/-- the (edge, face) slots of one face, in the order `generate_edge_set` visits them -/
def slotsOf (t : Tri) (f : Nat) : List Slot := (keys t).map (fun k => (k, f))

/-- all slots, faces numbered from `f` on -/
def slots : List Tri → Nat → List Slot
  | [], _ => []
  | t :: T, f => slotsOf t f ++ slots T (f + 1)

/-- the faces using edge `k`, in order -/
def facesOf (S : List Slot) (k : Nat × Nat) : List Nat := (S.filter (fun s => s.1 == k)).map (·.2)

def recFaces (r : EdgeRec) : List Nat := r.2.1 :: r.2.2.toList

theorem facesOf_append (S S' : List Slot) (k : Nat × Nat) : facesOf (S ++ S') k = facesOf S k ++ facesOf S' k := by
  simp [facesOf]

theorem facesOf_single (k k' : Nat × Nat) (f : Nat) : facesOf [(k', f)] k = if k' = k then [f] else [] := by
  unfold facesOf
  by_cases h : k' = k
  · simp [h]
  · simp [h]

theorem count_fst_eq (S : List Slot) (k : HE) :
    Multiset.count k (((S.map (·.1) : List HE)) : Multiset HE) = (facesOf S k).length := by
  induction S with
  | nil => simp [facesOf]
  | cons s S ih =>
    rw [List.map_cons, ← Multiset.cons_coe, Multiset.count_cons, ih]
    unfold facesOf
    rw [List.filter_cons]
    by_cases h : s.1 = k
    · subst h
      simp
    · have : (s.1 == k) = false := by simpa using h
      have h' : ¬ k = s.1 := fun e => h e.symm
      simp [this, h']

theorem mem_facesOf {S : List Slot} {k : Nat × Nat} {f : Nat} : f ∈ facesOf S k ↔ (k, f) ∈ S := by
  unfold facesOf
  simp only [List.mem_map, List.mem_filter, beq_iff_eq]
  constructor
  · rintro ⟨⟨k', f'⟩, ⟨hs, hk⟩, rfl⟩
    simp only at hk; subst hk; exact hs
  · intro h; exact ⟨(k, f), ⟨h, rfl⟩, rfl⟩

/-! ### one insertion -/

theorem addEdgeFace_spec {es es' : List EdgeRec} {k : Nat × Nat} {f : Nat} (h : addEdgeFace es k f = some es') :
    (k ∉ es.map (·.1) ∧ es' = es ++ [(k, f, none)]) ∨
    (∃ pre f1 post, es = pre ++ [(k, f1, none)] ++ post ∧ k ∉ pre.map (·.1) ∧ es' = pre ++ [(k, f1, some f)] ++ post) := by
  induction es generalizing es' with
  | nil =>
    simp only [addEdgeFace, Option.some.injEq] at h
    left; exact ⟨by simp, by simp [← h]⟩
  | cons r rest ih =>
    obtain ⟨k', f1, f2⟩ := r
    simp only [addEdgeFace] at h
    by_cases hk : k' = k
    · subst hk
      simp only [if_true] at h
      cases f2 with
      | some _ => simp at h
      | none =>
        simp only [Option.some.injEq] at h
        right; exact ⟨[], f1, rest, by simp, by simp, by simp [← h]⟩
    · simp only [hk, if_false, Option.map_eq_some_iff] at h
      obtain ⟨r', hr', rfl⟩ := h
      rcases ih hr' with ⟨h1, h2⟩ | ⟨pre, g1, post, h1, h2, h3⟩
      · left
        refine ⟨?_, by simp [h2]⟩
        simp only [List.map_cons, List.mem_cons, not_or]
        exact ⟨fun e => hk e.symm, h1⟩
      · right
        refine ⟨(k', f1, f2) :: pre, g1, post, by simp [h1], ?_, by simp [h3]⟩
        simp only [List.map_cons, List.mem_cons, not_or]
        exact ⟨fun e => hk e.symm, h2⟩

/-- what the edge set knows after the slots `S` have been inserted -/
structure EInv (es : List EdgeRec) (S : List Slot) : Prop where
  nodup : (es.map (·.1)).Nodup
  faces : ∀ r ∈ es, facesOf S r.1 = recFaces r
  cover : ∀ s ∈ S, s.1 ∈ es.map (·.1)

theorem facesOf_nil_of_notMem {es : List EdgeRec} {S : List Slot} (hI : EInv es S) {k : Nat × Nat}
    (hk : k ∉ es.map (·.1)) : facesOf S k = [] := by
  unfold facesOf
  rw [List.map_eq_nil_iff, List.filter_eq_nil_iff]
  intro s hs hsk
  rw [beq_iff_eq] at hsk
  exact hk (hsk ▸ hI.cover s hs)

theorem addEdgeFace_inv {es es' : List EdgeRec} {S : List Slot} {k : Nat × Nat} {f : Nat} (hI : EInv es S)
    (h : addEdgeFace es k f = some es') : EInv es' (S ++ [(k, f)]) := by
  rcases addEdgeFace_spec h with ⟨hk, rfl⟩ | ⟨pre, f1, post, rfl, hk, rfl⟩
  · refine ⟨?_, ?_, ?_⟩
    · rw [List.map_append, List.nodup_append]
      refine ⟨hI.nodup, by simp, ?_⟩
      intro a ha b hb
      simp only [List.map_cons, List.map_nil, List.mem_singleton] at hb
      subst hb; intro e; subst e; exact hk ha
    · intro r hr
      rw [facesOf_append, facesOf_single]
      rcases List.mem_append.mp hr with h1 | h1
      · have : k ≠ r.1 := fun e => hk (e ▸ List.mem_map_of_mem h1)
        rw [if_neg this, List.append_nil]; exact hI.faces r h1
      · simp only [List.mem_singleton] at h1; subst h1
        simp only [if_true]
        rw [facesOf_nil_of_notMem hI hk]; rfl
    · intro s hs
      rw [List.map_append]
      rcases List.mem_append.mp hs with h1 | h1
      · exact List.mem_append_left _ (hI.cover s h1)
      · simp only [List.mem_singleton] at h1; subst h1
        exact List.mem_append_right _ (by simp)
  · have hkeys : (pre ++ [(k, f1, some f)] ++ post).map (·.1) = (pre ++ [((k, f1, none) : EdgeRec)] ++ post).map (·.1) := by simp
    have hnd := hI.nodup
    have hr0 := hI.faces (k, f1, none) (by simp)
    refine ⟨hkeys ▸ hnd, ?_, ?_⟩
    · intro r hr
      rw [facesOf_append, facesOf_single]
      simp only [List.mem_append, List.mem_singleton] at hr
      -- keys of the other records differ from k
      have hother : ∀ r' : EdgeRec, r' ∈ pre ∨ r' ∈ post → r'.1 ≠ k := by
        intro r' hr' e
        simp only [List.map_append, List.map_cons, List.map_nil, List.append_assoc, List.singleton_append] at hnd
        rw [List.nodup_append] at hnd
        obtain ⟨_, h2, h3⟩ := hnd
        rcases hr' with h | h
        · exact h3 _ (List.mem_map_of_mem h) k (by simp) e
        · rw [List.nodup_cons] at h2
          exact h2.1 (e ▸ List.mem_map_of_mem h)
      rcases hr with (h1 | h1) | h1
      · have := hother r (Or.inl h1)
        rw [if_neg (fun e => this e.symm), List.append_nil]
        exact hI.faces r (by simp [h1])
      · subst h1
        simp only [if_true]
        rw [hr0]; rfl
      · have := hother r (Or.inr h1)
        rw [if_neg (fun e => this e.symm), List.append_nil]
        exact hI.faces r (by simp [h1])
    · intro s hs
      rw [hkeys]
      rcases List.mem_append.mp hs with h1 | h1
      · exact hI.cover s h1
      · simp only [List.mem_singleton] at h1; subst h1; simp

/-! ### all insertions -/

theorem genEdges_inv {T : List Tri} : ∀ {f : Nat} {es es' : List EdgeRec} {S : List Slot}, EInv es S →
    genEdges T f es = some es' → EInv es' (S ++ slots T f) := by
  induction T with
  | nil =>
    intro f es es' S hI h
    simp only [genEdges, Option.some.injEq] at h
    subst h; simpa [slots] using hI
  | cons t T ih =>
    intro f es es' S hI h
    simp only [genEdges, Option.bind_eq_bind] at h
    cases h1 : addEdgeFace es (edgeKey t.1 t.2.1) f with
    | none => simp [h1] at h
    | some e1 =>
      simp only [h1, Option.bind_some] at h
      cases h2 : addEdgeFace e1 (edgeKey t.2.1 t.2.2) f with
      | none => simp [h2] at h
      | some e2 =>
        simp only [h2, Option.bind_some] at h
        cases h3 : addEdgeFace e2 (edgeKey t.2.2 t.1) f with
        | none => simp [h3] at h
        | some e3 =>
          simp only [h3, Option.bind_some] at h
          have I1 := addEdgeFace_inv hI h1
          have I2 := addEdgeFace_inv I1 h2
          have I3 := addEdgeFace_inv I2 h3
          have := ih I3 h
          simpa [slots, slotsOf, keys, edgeKey_eq, List.append_assoc] using this

theorem genEdges_inv0 {T : List Tri} {es : List EdgeRec} (h : genEdges T 0 [] = some es) : EInv es (slots T 0) := by
  have : EInv [] [] := ⟨by simp, by simp, by simp⟩
  simpa using genEdges_inv this h

/-! ### the slots and the half-edges -/

theorem slots_fst (T : List Tri) (f : Nat) : (((slots T f).map (·.1) : List HE) : Multiset HE) = (heM T).map normHE := by
  induction T generalizing f with
  | nil => simp [slots, heM_nil]
  | cons t T ih =>
    have h1 : (slotsOf t f).map (·.1) = keys t := by
      unfold slotsOf; rw [List.map_map]; simp [Function.comp_def]
    rw [heM_cons, Multiset.map_add, map_norm_heTriM, ← ih (f + 1)]
    simp only [slots, List.map_append, h1]
    rfl

theorem mem_slots {T : List Tri} {f0 : Nat} {k : Nat × Nat} {g : Nat} :
    (k, g) ∈ slots T f0 ↔ ∃ i t, T[i]? = some t ∧ g = f0 + i ∧ k ∈ keys t := by
  induction T generalizing f0 with
  | nil => simp [slots]
  | cons t T ih =>
    simp only [slots, List.mem_append, ih]
    constructor
    · rintro (h | ⟨i, t', h1, h2, h3⟩)
      · simp only [slotsOf, List.mem_map, Prod.mk.injEq] at h
        obtain ⟨k', hk', rfl, rfl⟩ := h
        exact ⟨0, t, by simp, by simp, hk'⟩
      · exact ⟨i + 1, t', by simpa using h1, by omega, h3⟩
    · rintro ⟨i, t', h1, h2, h3⟩
      cases i with
      | zero =>
        simp only [List.getElem?_cons_zero, Option.some.injEq] at h1
        subst h1; left
        simp only [slotsOf, List.mem_map, Prod.mk.injEq]
        exact ⟨k, h3, rfl, by omega⟩
      | succ j =>
        right
        exact ⟨j, t', by simpa using h1, by omega, h3⟩

theorem keys_nodup {t : Tri} (hn : TriND t) : (keys t).Nodup := by
  obtain ⟨x, y, z⟩ := t
  obtain ⟨h1, h2, h3⟩ := hn
  simp only at h1 h2 h3
  have n1 : normHE (x, y) ≠ normHE (y, z) := by
    intro hh; rcases (normHE_eq_iff (x, y) y z).mp hh with e | e <;> (simp only [Prod.mk.injEq] at e; omega)
  have n2 : normHE (y, z) ≠ normHE (z, x) := by
    intro hh; rcases (normHE_eq_iff (y, z) z x).mp hh with e | e <;> (simp only [Prod.mk.injEq] at e; omega)
  have n3 : normHE (x, y) ≠ normHE (z, x) := by
    intro hh; rcases (normHE_eq_iff (x, y) z x).mp hh with e | e <;> (simp only [Prod.mk.injEq] at e; omega)
  simp [keys, n1, n2, n3]

theorem slots_ge {T : List Tri} {f0 : Nat} {s : Slot} (h : s ∈ slots T f0) : f0 ≤ s.2 := by
  obtain ⟨k, g⟩ := s
  obtain ⟨i, _, _, h2, _⟩ := mem_slots.mp h
  simp only; omega

theorem slots_nodup {T : List Tri} (hn : NonDeg T) (f0 : Nat) : (slots T f0).Nodup := by
  induction T generalizing f0 with
  | nil => simp [slots]
  | cons t T ih =>
    simp only [slots]
    rw [List.nodup_append]
    refine ⟨?_, ih (fun t' ht' => hn t' (List.mem_cons_of_mem _ ht')) _, ?_⟩
    · unfold slotsOf
      refine (keys_nodup (hn t (by simp))).map ?_
      intro a b h; exact (Prod.mk.inj h).1
    · intro a ha b hb e
      subst e
      have := slots_ge hb
      simp only [slotsOf, List.mem_map] at ha
      obtain ⟨_, _, rfl⟩ := ha
      simp only at this; omega

/-! ### consequences of `is_manifold` -/

section manifold
variable {T : List Tri} {es : List EdgeRec}

theorem edgeTwo_of_all (hI : EInv es (slots T 0)) (hall : es.all (fun e => e.2.2.isSome) = true) : EdgeTwo T := by
  intro k
  rw [← slots_fst T 0, count_fst_eq]
  by_cases hk : k ∈ es.map (·.1)
  · right
    obtain ⟨r, hr, rfl⟩ := List.mem_map.mp hk
    rw [hI.faces r hr]
    have := List.all_eq_true.mp hall r hr
    obtain ⟨k', f1, f2⟩ := r
    cases f2 with
    | none => simp at this
    | some f2 => simp [recFaces]
  · left; rw [facesOf_nil_of_notMem hI hk]; rfl

theorem length_eq_edges (hI : EInv es (slots T 0)) : es.length = (edgesF T).card := by
  classical
  have h1 : es.length = (es.map (·.1)).toFinset.card := by
    rw [List.toFinset_card_of_nodup hI.nodup, List.length_map]
  rw [h1]
  congr 1
  ext k
  rw [List.mem_toFinset, mem_edgesF']
  constructor
  · intro hk
    obtain ⟨r, hr, rfl⟩ := List.mem_map.mp hk
    have hf := hI.faces r hr
    have : r.2.1 ∈ facesOf (slots T 0) r.1 := by rw [hf]; simp [recFaces]
    have hs := mem_facesOf.mp this
    have : r.1 ∈ ((slots T 0).map (·.1) : List HE) := List.mem_map.mpr ⟨_, hs, rfl⟩
    have h2 : r.1 ∈ (((slots T 0).map (·.1) : List HE) : Multiset HE) := this
    rw [slots_fst] at h2
    exact h2
  · intro hk
    rw [← slots_fst T 0] at hk
    obtain ⟨s, hs, rfl⟩ := List.mem_map.mp hk
    exact hI.cover s hs

/-- the neighbour lookup of the flood fill: another face that contains the same undirected edge -/
theorem nbr_spec (hI : EInv es (slots T 0)) (hn : NonDeg T) {f a b g : Nat} {tf : Tri}
    (hf : T[f]? = some tf) (hk : normHE (a, b) ∈ keys tf) (h : nbr es f a b = some g) :
    ∃ tg, T[g]? = some tg ∧ g ≠ f ∧ normHE (a, b) ∈ keys tg := by
  unfold nbr at h
  rw [edgeKey_eq] at h
  cases hfind : es.find? (fun e => e.1 == normHE (a, b)) with
  | none => simp [hfind] at h
  | some r =>
    obtain ⟨k', f1, f2⟩ := r
    cases f2 with
    | none => simp [hfind] at h
    | some f2 =>
      simp only [hfind, Option.some.injEq] at h
      have hr : ((k', f1, some f2) : EdgeRec) ∈ es := List.mem_of_find?_eq_some hfind
      have hk' : k' = normHE (a, b) := by
        have := List.find?_some hfind; simpa using this
      subst hk'
      have hfaces : facesOf (slots T 0) (normHE (a, b)) = [f1, f2] := by
        rw [hI.faces _ hr]; rfl
      have hfmem : f ∈ facesOf (slots T 0) (normHE (a, b)) :=
        mem_facesOf.mpr (mem_slots.mpr ⟨f, tf, hf, by omega, hk⟩)
      have hnd : (facesOf (slots T 0) (normHE (a, b))).Nodup := by
        unfold facesOf
        refine ((slots_nodup hn 0).filter _).map_on ?_
        intro x hx y hy hxy
        simp only [List.mem_filter, beq_iff_eq] at hx hy
        exact Prod.ext (hx.2.trans hy.2.symm) hxy
      rw [hfaces] at hfmem hnd
      have hne : f1 ≠ f2 := by
        intro e; subst e; simp at hnd
      have hgmem : g ∈ facesOf (slots T 0) (normHE (a, b)) ∧ g ≠ f := by
        rw [hfaces]
        simp only [List.mem_cons, List.mem_nil_iff, or_false] at hfmem
        by_cases h1 : f1 = f
        · subst h1; simp only [beq_self_eq_true, if_true] at h; subst h
          exact ⟨by simp, fun e => hne e.symm⟩
        · have : (f1 == f) = false := by simpa using h1
          rw [this] at h; simp only [Bool.false_eq_true, if_false] at h; subst h
          exact ⟨by simp, h1⟩
      obtain ⟨i, tg, h1, h2, h3⟩ := mem_slots.mp (mem_facesOf.mp hgmem.1)
      have : g = i := by omega
      subst this
      exact ⟨tg, h1, hgmem.2, h3⟩

end manifold

end Simu.C13
