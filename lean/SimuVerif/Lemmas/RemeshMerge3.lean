import SimuVerif.Lemmas.RemeshMerge2
/-
  Part 3: the first walk of `replace_node` (the new node is fresh): loop invariant `WalkState`, one step
  (`walk1_step`), the whole walk (`walk1`), and `replaceNode_abs`.
-/
set_option linter.unusedSectionVars false
set_option linter.unusedVariables false
set_option linter.unusedSimpArgs false
namespace Simu.Remesh
open Simu Simu.Surface
open Simu.C11 (bind_ok newSlot)

/-! ## 1. moving an entry of the index to another key -/

/-- `insert(renamed copy)` succeeds, then `erase(old edge)`: the faces registered under `e.key` are now registered
    under `ne.key` -/
theorem move_idx {P : Nat → Nat → Prop} {s : EdgeSet} {e ne : Edge} (hI : IdxP P s)
    (he : EdgeSet.find? s e.key = some e) (hle : ne.n1 ≤ ne.n2) (hf1 : ne.f1 = e.f1) (hf2 : ne.f2 = e.f2)
    (hkk : ne.key ≠ e.key) (hnone : EdgeSet.find? s ne.key = none) :
    (EdgeSet.insert s ne).2.2 = true ∧ (EdgeSet.insert s ne).2.1 = ne ∧
    IdxP (fun g q => q ≠ e.key ∧ (if q = ne.key then P g e.key else P g q))
      (EdgeSet.erase (EdgeSet.insert s ne).1 e.key) := by
  have R := EdgeSet.insert_spec hI.sorted ne
  obtain ⟨_, _, ewf, eP⟩ := hI.of_find he
  have hb : (EdgeSet.insert s ne).2.2 = true := by
    cases hb : (EdgeSet.insert s ne).2.2 with
    | true => rfl
    | false =>
      have := (R.old hb).1
      rw [hnone] at this; cases this
  have hst := (R.new hb).2
  refine ⟨hb, hst, EdgeSet.sorted_erase R.sorted _, fun q => ?_⟩
  rw [EdgeSet.find?_erase, R.find, hst]
  by_cases h1 : q = e.key
  · rw [if_pos h1]
    intro g hh
    exact hh.1 h1
  · rw [if_neg h1]
    by_cases h2 : q = ne.key
    · rw [if_pos h2]
      refine ⟨hle, ⟨by rw [hf1]; exact ewf.1, by rw [hf1, hf2]; exact ewf.2⟩, fun g => ?_⟩
      dsimp only
      rw [if_pos h2]
      have : ne.hasFace g = e.hasFace g := by unfold Edge.hasFace; rw [hf1, hf2]
      rw [this, eP]
      exact ⟨fun hh => ⟨h1, hh⟩, fun hh => hh.2⟩
    · rw [if_neg h2]
      refine (hI.entry q).congr (fun g => ?_)
      rw [if_neg h2]
      exact ⟨fun hh => ⟨h1, hh⟩, fun hh => hh.2⟩

/-! ## 2. local facts about one iteration -/

theorem otherFace_of_two {e : Edge} {p q fid : Nat} (hw : WfFaces e)
    (hf : ∀ g, e.hasFace g = true ↔ (g = p ∨ g = q)) (hpq : p ≠ q) (h : e.otherFace p = .ok fid) :
    fid = q ∧ ((e.f1 = some p ∧ e.f2 = some q) ∨ (e.f1 = some q ∧ e.f2 = some p)) := by
  obtain ⟨n1, n2, f1, f2⟩ := e
  simp only [Edge.hasFace_iff] at hf
  unfold Edge.otherFace at h
  cases f1 with
  | none => exact absurd rfl hw.1
  | some a =>
    have ha := (hf a).1 (Or.inl rfl)
    cases f2 with
    | none =>
      have hp := (hf p).2 (Or.inl rfl)
      have hq := (hf q).2 (Or.inr rfl)
      simp only [Option.some.injEq, reduceCtorEq, or_false] at hp hq
      omega
    | some b =>
      have hb := (hf b).1 (Or.inr rfl)
      have hab : a ≠ b := by
        intro hh; exact hw.2 (by simp [hh])
      have hp := (hf p).2 (Or.inl rfl)
      have hq := (hf q).2 (Or.inr rfl)
      simp only [Option.some.injEq] at hp hq
      simp only at h
      by_cases hap : a = p
      · subst hap
        simp only [beq_self_eq_true, if_true] at h
        cases h
        have : fid = q := by omega
        subst this
        exact ⟨rfl, Or.inl ⟨rfl, rfl⟩⟩
      · have hbne : (a == p) = false := by simp [hap]
        simp only [hbne, Bool.false_eq_true, if_false] at h
        cases h
        have h1 : fid = q := by omega
        have h2 : b = p := by omega
        subst h1; subst h2
        exact ⟨rfl, Or.inr ⟨rfl, rfl⟩⟩

section
variable {R : Type} [Add R] [Sub R] [Mul R] [Div R] [Neg R] [Lit R] [LT R] [LE R] [DecidableLT R]
  [DecidableLE R] [DecidableEq R]

/-- `face::replace_node` on a face that contains `old` exactly once -/
theorem triOf_faceReplaceNode {f : Face R} {old new x y : Nat} (hu : f.used = true)
    (hT : IsTri (f.n1, f.n2, f.n3) old x y) :
    triOf (faceReplaceNode f old new) = some (renT old new (f.n1, f.n2, f.n3)) := by
  have h1 := hT.1
  have h2 := hT.2.1
  have h3 := hT.2.2.1
  have h1' := Ne.symm h1
  have h2' := Ne.symm h2
  unfold faceReplaceNode renT rn triOf
  rcases hT.perm with ⟨e1, e2, e3⟩ | ⟨e1, e2, e3⟩ | ⟨e1, e2, e3⟩ | ⟨e1, e2, e3⟩ | ⟨e1, e2, e3⟩ | ⟨e1, e2, e3⟩ <;>
    simp [e1, e2, e3, hu, h1', h2']

theorem stepFaces_spec (fn : Fn R) (c : Cell R) (fid : Nat) (f : Face R) (old new : Nat) :
    slots (stepFaces fn c fid f old new) = (slots c).set fid (triOf (faceReplaceNode f old new)) ∧
    (stepFaces fn c fid f old new).edges = c.edges ∧ (stepFaces fn c fid f old new).nodes = c.nodes ∧
    (stepFaces fn c fid f old new).freeNodes = c.freeNodes ∧
    (stepFaces fn c fid f old new).freeFaces = c.freeFaces := by
  unfold stepFaces
  obtain ⟨fs, he, hs⟩ := updFaceGeom_eq fn
    ({ c with faces := c.faces.set! fid (faceReplaceNode f old new) } : Cell R) fid
  rw [he]
  refine ⟨?_, rfl, rfl, rfl, rfl⟩
  show slotsA fs = _
  rw [hs]
  show slotsA (c.faces.set! fid _) = _
  rw [slotsA_set]; rfl

theorem oppositeNode_isTri {f : Face R} {v x y : Nat} (hT : IsTri (f.n1, f.n2, f.n3) v x y) :
    oppositeNode f v x = some y ∧ oppositeNode f x v = some y := by
  have h1 := hT.1
  have h2 := hT.2.1
  have h3 := hT.2.2.1
  have h1' := Ne.symm h1
  have h2' := Ne.symm h2
  have h3' := Ne.symm h3
  unfold oppositeNode
  rcases hT.perm with ⟨e1, e2, e3⟩ | ⟨e1, e2, e3⟩ | ⟨e1, e2, e3⟩ | ⟨e1, e2, e3⟩ | ⟨e1, e2, e3⟩ | ⟨e1, e2, e3⟩ <;>
    simp [e1, e2, e3, h1, h2, h3, h1', h2', h3']

/-- the renamed copy of an edge `{old, z}` -/
theorem renEdge_spec {e : Edge} {old new z : Nat} (hle : e.n1 ≤ e.n2) (hk : e.key = Edge.keyOf old z)
    (hz : z ≠ old) :
    (renEdge e old new).key = Edge.keyOf new z ∧ (renEdge e old new).n1 ≤ (renEdge e old new).n2 ∧
    (renEdge e old new).f1 = e.f1 ∧ (renEdge e old new).f2 = e.f2 ∧
    (((renEdge e old new).n1 = new ∧ (renEdge e old new).n2 = z) ∨
      ((renEdge e old new).n1 = z ∧ (renEdge e old new).n2 = new)) := by
  unfold renEdge
  rcases (Edge.key_eq_keyOf_iff hle).1 hk with ⟨h1, h2⟩ | ⟨h1, h2⟩
  · have hb : (z == old) = false := by simp [hz]
    simp only [h1, h2, beq_self_eq_true, if_true, hb, Bool.false_eq_true, if_false]
    obtain ⟨m1, m2, m3, m4⟩ := Edge.mk'_n new z e.f1 e.f2
    refine ⟨Edge.key_mk' _ _ _ _, Edge.mk'_le _ _ _ _, m3, m4, ?_⟩
    rw [m1, m2]; omega
  · have hb : (z == old) = false := by simp [hz]
    simp only [h1, h2, beq_self_eq_true, if_true, hb, Bool.false_eq_true, if_false]
    obtain ⟨m1, m2, m3, m4⟩ := Edge.mk'_n z new e.f1 e.f2
    refine ⟨(Edge.key_mk' _ _ _ _).trans (Edge.keyOf_comm _ _), Edge.mk'_le _ _ _ _, m3, m4, ?_⟩
    rw [m1, m2]; omega

theorem isTri_renT {t : Tri} {old new x y : Nat} (hT : IsTri t old x y) (hx : x ≠ new) (hy : y ≠ new) :
    IsTri (renT old new t) new x y := by
  obtain ⟨p, q, s⟩ := t
  have h1 := hT.1
  have h2 := hT.2.1
  have h3 := hT.2.2.1
  have h1' := Ne.symm h1
  have h2' := Ne.symm h2
  refine ⟨Ne.symm hx, Ne.symm hy, h3, ?_, ?_, ?_⟩ <;>
  · rw [hasNode_iff]
    unfold renT rn
    rcases hT.perm with ⟨e1, e2, e3⟩ | ⟨e1, e2, e3⟩ | ⟨e1, e2, e3⟩ | ⟨e1, e2, e3⟩ | ⟨e1, e2, e3⟩ | ⟨e1, e2, e3⟩ <;>
      simp [e1, e2, e3, h1', h2']

/-- a face whose slot is known -/
theorem face_of_slot {c : Cell R} {g : Nat} {f : Face R} {t : Tri} (hf : c.faces[g]? = some f)
    (hs : (slots c)[g]? = some (some t)) : f.used = true ∧ (f.n1, f.n2, f.n3) = t := by
  obtain ⟨f0, hf0, hu, hft⟩ := slot_some_iff.1 hs
  rw [hf] at hf0; cases hf0
  exact ⟨hu, hft⟩

end

/-! ## 3. the first walk -/

/-- the relation represented by the index after `j` steps of the first walk: the keys `{old, N m}`, `m < j`, are gone,
    their faces are registered under `{new, N m}`, everything else is as in the beginning (`P0`) -/
def Pj (old new : Nat) (N : Nat → Nat) (P0 : Nat → Nat → Prop) (Q : Nat → Nat → Prop) (j g q : Nat) : Prop :=
  (∀ m, m < j → q ≠ Edge.keyOf old (N m)) ∧
  ((∃ m, m < j ∧ q = Edge.keyOf new (N m) ∧ Q m g) ∨
   ((∀ m, m < j → q ≠ Edge.keyOf new (N m)) ∧ P0 g q))

section
variable {L : List (Option Tri)} {old new k : Nat} {F N : Nat → Nat}

theorem FanF.K_inj (h : FanF L old k F N) {i m : Nat} (hi : i < k) (hm : m < k)
    (he : Edge.keyOf old (N i) = Edge.keyOf old (N m)) : i = m := by
  have := h.N_ne hi
  rcases Edge.keyOf_eq_iff.1 he with ⟨_, h2⟩ | ⟨_, h2⟩
  · exact h.injN i m hi hm h2
  · exact absurd h2 this

theorem FanF.K'_inj (h : FanF L old k F N) {i m : Nat} (hi : i < k) (hm : m < k)
    (he : Edge.keyOf new (N i) = Edge.keyOf new (N m)) : i = m := by
  rcases Edge.keyOf_eq_iff.1 he with ⟨_, h2⟩ | ⟨h1, h2⟩
  · exact h.injN i m hi hm h2
  · exact h.injN i m hi hm (h2.trans h1)

theorem FanF.KK' (h : FanF L old k F N) (hon : old ≠ new) {i m : Nat} (hi : i < k) :
    Edge.keyOf new (N i) ≠ Edge.keyOf old (N m) := by
  intro he
  have := h.N_ne hi
  rcases Edge.keyOf_eq_iff.1 he with ⟨h1, _⟩ | ⟨_, h2⟩
  · exact hon h1.symm
  · exact this h2

theorem Pj_at_old (h : FanF L old k F N) (hon : old ≠ new) (P0 Q : Nat → Nat → Prop) {i j : Nat} (hi : i < k)
    (hji : j ≤ i) (g : Nat) : Pj old new N P0 Q j g (Edge.keyOf old (N i)) ↔ P0 g (Edge.keyOf old (N i)) := by
  unfold Pj
  constructor
  · rintro ⟨_, ⟨m, hm, he, _⟩ | ⟨_, hp⟩⟩
    · exact absurd he.symm (h.KK' hon (by omega))
    · exact hp
  · intro hp
    refine ⟨fun m hm he => ?_, Or.inr ⟨fun m hm he => ?_, hp⟩⟩
    · have := h.K_inj hi (by omega) he; omega
    · exact absurd he.symm (h.KK' hon (by omega))

theorem Pj_succ (h : FanF L old k F N) (hon : old ≠ new) (P0 Q : Nat → Nat → Prop) {j : Nat} (hj : j < k)
    (g q : Nat) :
    Pj old new N P0 Q (j + 1) g q ↔
      (q ≠ Edge.keyOf old (N j) ∧
        (if q = Edge.keyOf new (N j) then Q j g else Pj old new N P0 Q j g q)) := by
  by_cases hq : q = Edge.keyOf new (N j)
  · rw [if_pos hq]
    subst hq
    unfold Pj
    constructor
    · rintro ⟨_, ⟨m, hm, he, hp⟩ | ⟨hn, _⟩⟩
      · have := h.K'_inj hj (by omega) he
        subst this
        exact ⟨h.KK' hon hj, hp⟩
      · exact absurd rfl (hn j (by omega))
    · rintro ⟨_, hp⟩
      exact ⟨fun m hm => h.KK' hon hj, Or.inl ⟨j, by omega, rfl, hp⟩⟩
  · rw [if_neg hq]
    unfold Pj
    constructor
    · rintro ⟨h1, h2⟩
      refine ⟨h1 j (by omega), fun m hm => h1 m (by omega), ?_⟩
      rcases h2 with ⟨m, hm, he, hp⟩ | ⟨hn, hp⟩
      · have : m ≠ j := by rintro rfl; exact hq he
        exact Or.inl ⟨m, by omega, he, hp⟩
      · exact Or.inr ⟨fun m hm => hn m (by omega), hp⟩
    · rintro ⟨h0, h1, h2⟩
      refine ⟨fun m hm => ?_, ?_⟩
      · by_cases hmj : m = j
        · subst hmj; exact h0
        · exact h1 m (by omega)
      · rcases h2 with ⟨m, hm, he, hp⟩ | ⟨hn, hp⟩
        · exact Or.inl ⟨m, by omega, he, hp⟩
        · refine Or.inr ⟨fun m hm => ?_, hp⟩
          by_cases hmj : m = j
          · subst hmj; exact hq
          · exact hn m (by omega)

end

theorem sideK_map (L : List (Option Tri)) (f : Tri → Tri) (g q : Nat) :
    SideK (L.map (Option.map f)) g q ↔ ∃ t, L[g]? = some (some t) ∧ q ∈ sideKeys (f t) := by
  unfold SideK
  rw [List.getElem?_map]
  cases h : L[g]? with
  | none => simp
  | some o =>
    cases o with
    | none => simp
    | some t => simp

theorem renT_of_not {old new : Nat} {t : Tri} (h : hasNode t old = false) : renT old new t = t := by
  obtain ⟨p, q, s⟩ := t
  rw [hasNode_false_iff] at h
  unfold renT rn
  simp [h.1, h.2.1, h.2.2]

theorem FanF.nbr_next {L : List (Option Tri)} {old k : Nat} {F N : Nat → Nat} (h : FanF L old k F N) {m : Nat}
    (hm : m < k) : ∃ i, i < k ∧ N (m + 1) = N i := by
  by_cases h1 : m + 1 < k
  · exact ⟨m + 1, h1, rfl⟩
  · have e : m + 1 = k := by omega
    exact ⟨0, by omega, by rw [e, h.closeN]⟩

/-- after the whole first walk the relation of the index is the side relation of the renamed faces -/
theorem final1 {L0 : List (Option Tri)} {old new k : Nat} {F N : Nat → Nat} (hfan : FanF L0 old k F N)
    (hon : old ≠ new) (hfresh : ∀ (g : Nat) (t : Tri), L0[g]? = some (some t) → hasNode t new = false) (g q : Nat) :
    Pj old new N (SideK L0) (fun m g => SideK L0 g (Edge.keyOf old (N m))) k g q ↔
      SideK (L0.map (Option.map (renT old new))) g q := by
  rw [sideK_map]
  by_cases hg : ∃ m, m < k ∧ g = F (m + 1)
  · obtain ⟨m, hm, rfl⟩ := hg
    obtain ⟨t, ht, hT⟩ := hfan.tri m hm
    obtain ⟨i, hi, hNi⟩ := hfan.nbr_next hm
    have hn1 : N m ≠ new := by
      intro he
      have := hfresh _ _ ht
      rw [(hT.hasNode_iff' new).2 (Or.inr (Or.inl he.symm))] at this; cases this
    have hn2 : N (m + 1) ≠ new := by
      intro he
      have := hfresh _ _ ht
      rw [(hT.hasNode_iff' new).2 (Or.inr (Or.inr he.symm))] at this; cases this
    have hT' := isTri_renT (new := new) hT hn1 hn2
    have ho1 : N m ≠ old := hfan.N_ne hm
    have ho2 : N (m + 1) ≠ old := by rw [hNi]; exact hfan.N_ne hi
    have hS : ∀ q', SideK L0 (F (m + 1)) q' ↔
        (q' = Edge.keyOf old (N m) ∨ q' = Edge.keyOf old (N (m + 1)) ∨ q' = Edge.keyOf (N m) (N (m + 1))) := by
      intro q'
      constructor
      · rintro ⟨t', ht', hq'⟩
        rw [ht] at ht'; cases ht'
        exact (hT.sideKeys_iff q').1 hq'
      · intro hq'
        exact ⟨t, ht, (hT.sideKeys_iff q').2 hq'⟩
    have hE1 : ∀ z, Edge.keyOf (N m) (N (m + 1)) ≠ Edge.keyOf old z := by
      intro z he
      rcases Edge.keyOf_eq_iff.1 he with ⟨h1, _⟩ | ⟨_, h2⟩
      · exact ho1 h1
      · exact ho2 h2
    have hE2 : ∀ z, Edge.keyOf (N m) (N (m + 1)) ≠ Edge.keyOf new z := by
      intro z he
      rcases Edge.keyOf_eq_iff.1 he with ⟨h1, _⟩ | ⟨_, h2⟩
      · exact hn1 h1
      · exact hn2 h2
    constructor
    · rintro ⟨h1, ⟨i', hi', hq, hp⟩ | ⟨h2, hp⟩⟩
      · refine ⟨t, ht, (hT'.sideKeys_iff q).2 ?_⟩
        rcases (hS _).1 hp with he | he | he
        · have := hfan.K_inj hi' hm he
          subst this
          exact Or.inl hq
        · rcases Edge.keyOf_eq_iff.1 he with ⟨_, h2⟩ | ⟨_, h2⟩
          · rw [← h2]; exact Or.inr (Or.inl hq)
          · exact absurd h2 (hfan.N_ne hi')
        · exact absurd he.symm (hE1 _)
      · refine ⟨t, ht, (hT'.sideKeys_iff q).2 ?_⟩
        rcases (hS _).1 hp with he | he | he
        · exact absurd he (h1 m hm)
        · rw [hNi] at he; exact absurd he (h1 i hi)
        · exact Or.inr (Or.inr he)
    · rintro ⟨t', ht', hq⟩
      rw [ht] at ht'; cases ht'
      rcases (hT'.sideKeys_iff q).1 hq with he | he | he
      · subst he
        exact ⟨fun i' hi' => hfan.KK' hon hm, Or.inl ⟨m, hm, rfl, (hS _).2 (Or.inl rfl)⟩⟩
      · subst he
        refine ⟨fun i' hi' => ?_, Or.inl ⟨i, hi, by rw [hNi], (hS _).2 (Or.inr (Or.inl (by rw [hNi])))⟩⟩
        rw [hNi]; exact hfan.KK' hon hi
      · subst he
        exact ⟨fun i' _ => hE1 _, Or.inr ⟨fun i' _ => hE2 _, (hS _).2 (Or.inr (Or.inr rfl))⟩⟩
  · have hno : ∀ t, L0[g]? = some (some t) → hasNode t old = false := by
      intro t ht
      rw [Bool.eq_false_iff]
      intro ho
      obtain ⟨j, hj, he⟩ := hfan.all g t ht ho
      exact hg ⟨j, hj, he⟩
    constructor
    · rintro ⟨h1, ⟨i', hi', hq, ⟨t, ht, hp⟩⟩ | ⟨h2, ⟨t, ht, hp⟩⟩⟩
      · have := (hasNode_of_sideKey hp).1
        rw [hno t ht] at this; cases this
      · exact ⟨t, ht, by rw [renT_of_not (hno t ht)]; exact hp⟩
    · rintro ⟨t, ht, hq⟩
      rw [renT_of_not (hno t ht)] at hq
      refine ⟨fun i' _ he => ?_, Or.inr ⟨fun i' _ he => ?_, ⟨t, ht, hq⟩⟩⟩
      · rw [he] at hq
        have := (hasNode_of_sideKey hq).1
        rw [hno t ht] at this; cases this
      · rw [he] at hq
        have := (hasNode_of_sideKey hq).1
        rw [hfresh g t ht] at this; cases this

section
variable {R : Type} [Add R] [Sub R] [Mul R] [Div R] [Neg R] [Lit R] [LT R] [LE R] [DecidableLT R]
  [DecidableLE R] [DecidableEq R]

/-- the state after `j` steps of the first walk around `old`, in terms of the state `c0` before the walk -/
structure WalkState (old new : Nat) (F N : Nat → Nat) (Q : Nat → Nat → Prop) (c0 c : Cell R) (j : Nat) : Prop where
  len : (slots c).length = (slots c0).length
  done : ∀ m, 1 ≤ m → m ≤ j → (slots c)[F m]? = ((slots c0)[F m]?).map (Option.map (renT old new))
  other : ∀ g, (∀ m, 1 ≤ m → m ≤ j → g ≠ F m) → (slots c)[g]? = (slots c0)[g]?
  idx : IdxP (Pj old new N (SideK (slots c0)) Q j) c.edges
  nodes : c.nodes = c0.nodes
  freeNodes : c.freeNodes = c0.freeNodes
  freeFaces : c.freeFaces = c0.freeFaces
  zero : j = 0 → c.edges = c0.edges
  /-- the renamed start edge keeps the order of its two face ids -/
  first : 0 < j → ∃ e0 ne, EdgeSet.find? c0.edges (Edge.keyOf old (N 0)) = some e0 ∧
    EdgeSet.find? c.edges (Edge.keyOf new (N 0)) = some ne ∧ ne.f1 = e0.f1 ∧ ne.f2 = e0.f2

theorem WalkState.init (old new : Nat) (F N : Nat → Nat) (Q : Nat → Nat → Prop) {c0 : Cell R}
    (hI : EdgeIdxComplete c0) : WalkState old new F N Q c0 c0 0 := by
  refine ⟨rfl, fun m h1 h2 => by omega, fun g _ => rfl, ?_, rfl, rfl, rfl, fun _ => rfl, fun h => by omega⟩
  refine IdxP.congr (fun g q => ?_) hI
  unfold Pj
  constructor
  · intro hp
    exact ⟨fun m hm => by omega, Or.inr ⟨fun m hm => by omega, hp⟩⟩
  · rintro ⟨_, ⟨m, hm, _⟩ | ⟨_, hp⟩⟩
    · omega
    · exact hp

/-- no live face contains `new` -/
def FreshNode (c : Cell R) (new : Nat) : Prop :=
  ∀ (g : Nat) (t : Tri), (slots c)[g]? = some (some t) → hasNode t new = false

theorem FreshNode.no_side {c : Cell R} {new : Nat} (h : FreshNode c new) (g z : Nat) :
    ¬ SideK (slots c) g (Edge.keyOf new z) := by
  rintro ⟨t, ht, hq⟩
  have := (hasNode_of_sideKey hq).1
  rw [h g t ht] at this; cases this

theorem getEdge_eq (c : Cell R) (a b : Nat) : getEdge c a b = EdgeSet.find? c.edges (Edge.keyOf a b) := rfl

/-- what `replace_node` appends to its list of created edges in step `m`: the entry stored under `{new, N m}`, which
    lists exactly the faces `Q m` -/
def CreOK (new : Nat) (N : Nat → Nat) (Q : Nat → Nat → Prop) (m : Nat) (y : Edge) : Prop :=
  y.key = Edge.keyOf new (N m) ∧ y.n1 ≤ y.n2 ∧ WfFaces y ∧ ∀ g, y.hasFace g = true ↔ Q m g

/-- the (deleted, created) edge lists of `replace_node` from step `j` on: every edge `{old, N m}` is in the deleted
    list, every created edge is the entry `{new, N m}` of some step -/
def WalkLists (old new k : Nat) (N : Nat → Nat) (Q : Nat → Nat → Prop) (j : Nat) (del cre del' cre' : List Edge) : Prop :=
  ∃ dl cr, del' = del ++ dl ∧ cre' = cre ++ cr ∧
    (∀ m, j ≤ m → m < k → ∃ x ∈ dl, x.key = Edge.keyOf old (N m)) ∧
    (∀ y ∈ cr, ∃ m, j ≤ m ∧ m < k ∧ CreOK new N Q m y)

theorem Pj_just {L : List (Option Tri)} {old new k : Nat} {F N : Nat → Nat} (h : FanF L old k F N) (hon : old ≠ new)
    (P0 Q : Nat → Nat → Prop) {j : Nat} (hj : j < k) (g : Nat) :
    Pj old new N P0 Q (j + 1) g (Edge.keyOf new (N j)) ↔ Q j g := by
  rw [Pj_succ h hon _ _ hj g _, if_pos rfl]
  exact ⟨fun hh => hh.2, fun hh => ⟨h.KK' hon hj, hh⟩⟩

theorem WalkLists.step {old new k : Nat} {N : Nat → Nat} {Q : Nat → Nat → Prop} {j : Nat} {del cre del' cre' : List Edge}
    {e stored : Edge} (he : e.key = Edge.keyOf old (N j)) (hs : CreOK new N Q j stored) (hj : j < k)
    (h : WalkLists old new k N Q (j + 1) (del ++ [e]) (cre ++ [stored]) del' cre') :
    WalkLists old new k N Q j del cre del' cre' := by
  obtain ⟨dl, cr, h1, h2, h3, h4⟩ := h
  refine ⟨e :: dl, stored :: cr, by rw [h1]; simp, by rw [h2]; simp, fun m hm1 hm2 => ?_, fun y hy => ?_⟩
  · by_cases hmj : m = j
    · subst hmj; exact ⟨e, List.mem_cons_self, he⟩
    · obtain ⟨x, hx, hk⟩ := h3 m (by omega) hm2
      exact ⟨x, List.mem_cons_of_mem _ hx, hk⟩
  · rcases List.mem_cons.1 hy with rfl | hy
    · exact ⟨j, Nat.le_refl _, hj, hs⟩
    · obtain ⟨m, a, b, c⟩ := h4 y hy
      exact ⟨m, by omega, b, c⟩

theorem WalkLists.last {old new k : Nat} {N : Nat → Nat} {Q : Nat → Nat → Prop} {j : Nat} {del cre : List Edge}
    {e stored : Edge} (he : e.key = Edge.keyOf old (N j)) (hs : CreOK new N Q j stored) (hj : j + 1 = k) :
    WalkLists old new k N Q j del cre (del ++ [e]) (cre ++ [stored]) := by
  refine ⟨[e], [stored], rfl, rfl, fun m hm1 hm2 => ?_, fun y hy => ?_⟩
  · have : m = j := by omega
    subst this; exact ⟨e, List.mem_singleton.2 rfl, he⟩
  · rw [List.mem_singleton] at hy; subst hy
    exact ⟨j, Nat.le_refl _, by omega, hs⟩

/-- **one step of the first walk** (`insertion_success` is true), with the edges appended to the two lists -/
theorem walk1_step' {fn : Fn R} {start : Edge} {old new k : Nat} {F N : Nat → Nat} {c0 c : Cell R} {j fuel : Nat}
    (hfan : FanF (slots c0) old k F N) (hon : old ≠ new) (hfresh : FreshNode c0 new)
    (hW : WalkState old new F N (fun m g => SideK (slots c0) g (Edge.keyOf old (N m))) c0 c j) (hj : j < k) {del cre : List Edge} {r : Cell R × List Edge × List Edge}
    (h : replaceNode.loop fn start old new (fuel + 1) c (EdgeSet.find? c.edges (Edge.keyOf old (N j))) (F j) del cre
      = .ok r) :
    ∃ e stored, e.key = Edge.keyOf old (N j) ∧
      CreOK new N (fun m g => SideK (slots c0) g (Edge.keyOf old (N m))) j stored ∧
    ((j + 1 = k ∧ WalkState old new F N (fun m g => SideK (slots c0) g (Edge.keyOf old (N m))) c0 r.1 k ∧
        r.2 = (del ++ [e], cre ++ [stored])) ∨
    (j + 1 < k ∧ ∃ c2, WalkState old new F N (fun m g => SideK (slots c0) g (Edge.keyOf old (N m))) c0 c2 (j + 1) ∧
      replaceNode.loop fn start old new fuel c2 (EdgeSet.find? c2.edges (Edge.keyOf old (N (j + 1)))) (F (j + 1))
        (del ++ [e]) (cre ++ [stored]) = .ok r)) := by
  have hk2 := hfan.two_le (by omega)
  cases hcur : EdgeSet.find? c.edges (Edge.keyOf old (N j)) with
  | none => rw [hcur] at h; unfold replaceNode.loop at h; cases h
  | some e =>
    rw [hcur] at h
    obtain ⟨ek, ele, ewf, eP⟩ := hW.idx.of_find hcur
    have eF : ∀ g, e.hasFace g = true ↔ (g = F j ∨ g = F (j + 1)) := fun g =>
      (eP g).trans ((Pj_at_old hfan hon _ _ hj (Nat.le_refl _) g).trans (hfan.side hj g))
    obtain ⟨fid, f, ef1, ef2, ho, hf, he1, he2, s2, stored, hins, f', hf', hrest⟩ := loop_unroll h
    obtain ⟨rfl, _⟩ := otherFace_of_two ewf eF (hfan.F_succ_ne hj) ho
    -- the face that is renamed
    obtain ⟨t, ht0, hT⟩ := hfan.tri j hj
    have hnotdone : ∀ m, 1 ≤ m → m ≤ j → F (j + 1) ≠ F m := by
      intro m h1 h2 he
      have := hfan.injF (j + 1) m (by omega) (by omega) h1 (by omega) he
      omega
    have hslot : (slots c)[F (j + 1)]? = some (some t) := by rw [hW.other _ hnotdone]; exact ht0
    obtain ⟨hu, hft⟩ := face_of_slot hf hslot
    subst hft
    have htri := triOf_faceReplaceNode (new := new) hu hT
    obtain ⟨sS, sE, sN, sFN, sFF⟩ := stepFaces_spec fn c (F (j + 1)) f old new
    rw [htri] at sS
    have hlt : F (j + 1) < (slots c).length := (List.getElem?_eq_some_iff.1 hslot).1
    -- the renamed edge
    have hNj : N j ≠ old := hfan.N_ne hj
    obtain ⟨rk, rle, rf1, rf2, rn12⟩ := renEdge_spec (new := new) ele ek hNj
    have hnone : EdgeSet.find? c.edges (renEdge e old new).key = none := by
      rw [rk]
      refine hW.idx.none_of (fun g => ?_)
      rintro ⟨_, ⟨m, hm, he, _⟩ | ⟨_, hp⟩⟩
      · have := hfan.K'_inj hj (by omega) he; omega
      · exact hfresh.no_side g _ hp
    have hkk : (renEdge e old new).key ≠ e.key := by rw [rk, ek]; exact hfan.KK' hon hj
    obtain ⟨mb, mst, mI⟩ := move_idx hW.idx (by rw [ek]; exact hcur) rle rf1 rf2 hkk hnone
    rw [sE] at hins
    rcases hins with ⟨_, hs2, hst⟩ | ⟨hb, _⟩
    swap
    · rw [mb] at hb; cases hb
    rw [mst] at hst
    subst hst; subst hs2
    have RI := EdgeSet.insert_spec hW.idx.sorted (renEdge e old new)
    have hfind : ∀ q, q ≠ e.key →
        EdgeSet.find? (EdgeSet.erase (EdgeSet.insert c.edges (renEdge e old new)).1 e.key) q =
          if q = (renEdge e old new).key then some (renEdge e old new) else EdgeSet.find? c.edges q := by
      intro q hq
      rw [EdgeSet.find?_erase, if_neg hq, RI.find, mst]
    -- the state after the step
    obtain ⟨c2, hc2⟩ : ∃ c2 : Cell R, c2 = ({ stepFaces fn c (F (j + 1)) f old new with
        edges := EdgeSet.erase (EdgeSet.insert c.edges (renEdge e old new)).1 e.key } : Cell R) := ⟨_, rfl⟩
    rw [← hc2] at hrest
    have hS2 : slots c2 = (slots c).set (F (j + 1)) (some (renT old new (f.n1, f.n2, f.n3))) := by
      rw [hc2]; exact sS
    have hE2 : c2.edges = EdgeSet.erase (EdgeSet.insert c.edges (renEdge e old new)).1 e.key := by rw [hc2]
    have hW2 : WalkState old new F N (fun m g => SideK (slots c0) g (Edge.keyOf old (N m))) c0 c2 (j + 1) := by
      refine ⟨?_, ?_, ?_, ?_, ?_, ?_, ?_, fun h0 => by omega, ?_⟩
      · rw [hS2, List.length_set]; exact hW.len
      · intro m h1 h2
        rw [hS2]
        by_cases hm : m = j + 1
        · subst hm
          rw [List.getElem?_set_self hlt, ht0]; rfl
        · rw [List.getElem?_set_ne (hnotdone m h1 (by omega))]
          exact hW.done m h1 (by omega)
      · intro g hg
        rw [hS2, List.getElem?_set_ne (Ne.symm (hg (j + 1) (by omega) (Nat.le_refl _)))]
        exact hW.other g (fun m h1 h2 => hg m h1 (by omega))
      · rw [hE2]
        refine mI.congr (fun g q => ?_)
        rw [ek, rk, Pj_succ hfan hon _ _ hj g q]
        by_cases hq : q = Edge.keyOf new (N j)
        · rw [if_pos hq, if_pos hq, Pj_at_old hfan hon _ _ hj (Nat.le_refl _)]
        · rw [if_neg hq, if_neg hq]
      · rw [hc2]; exact sN.trans hW.nodes
      · rw [hc2]; exact sFN.trans hW.freeNodes
      · rw [hc2]; exact sFF.trans hW.freeFaces
      · intro _
        by_cases h0 : j = 0
        · subst h0
          refine ⟨e, renEdge e old new, ?_, ?_, rf1, rf2⟩
          · rw [← hW.zero rfl]; exact hcur
          · rw [hE2, hfind _ (by rw [← rk]; exact hkk), if_pos rk.symm]
        · obtain ⟨e0, ne0, q1, q2, q3, q4⟩ := hW.first (by omega)
          refine ⟨e0, ne0, q1, ?_, q3, q4⟩
          have hne2 : Edge.keyOf new (N 0) ≠ (renEdge e old new).key := by
            rw [rk]; intro he
            have := hfan.K'_inj (by omega) hj he
            omega
          rw [hE2, hfind _ (by rw [ek]; exact hfan.KK' hon (by omega)), if_neg hne2]
          exact q2
    -- the opposite node
    have hs' : (slots (stepFaces fn c (F (j + 1)) f old new))[F (j + 1)]? =
        some (some (renT old new (f.n1, f.n2, f.n3))) := by rw [sS]; exact List.getElem?_set_self hlt
    obtain ⟨hu', hft'⟩ := face_of_slot hf' hs'
    have hnew1 : N j ≠ new := by
      intro he
      have := hfresh _ _ ht0
      rw [(hT.hasNode_iff' new).2 (Or.inr (Or.inl he.symm))] at this; cases this
    have hnew2 : N (j + 1) ≠ new := by
      intro he
      have := hfresh _ _ ht0
      rw [(hT.hasNode_iff' new).2 (Or.inr (Or.inr he.symm))] at this; cases this
    have hT' : IsTri (f'.n1, f'.n2, f'.n3) new (N j) (N (j + 1)) := by
      rw [hft']; exact isTri_renT hT hnew1 hnew2
    have hopp : oppositeNode f' (renEdge e old new).n1 (renEdge e old new).n2 = some (N (j + 1)) := by
      rcases rn12 with ⟨a1, a2⟩ | ⟨a1, a2⟩
      · rw [a1, a2]; exact (oppositeNode_isTri hT').1
      · rw [a1, a2]; exact (oppositeNode_isTri hT').2
    rw [hopp] at hrest
    rcases hrest with ⟨hno, _⟩ | ⟨opp, ho', hrest⟩
    · cases hno
    cases ho'
    rw [getEdge_eq] at hrest
    have hst2 : EdgeSet.find? c2.edges (Edge.keyOf new (N j)) = some (renEdge e old new) := by
      rw [hE2, hfind _ (by rw [← rk]; exact hkk), if_pos rk.symm]
    have hcre : CreOK new N (fun m g => SideK (slots c0) g (Edge.keyOf old (N m))) j (renEdge e old new) := by
      obtain ⟨a1, a2, a3, a4⟩ := hW2.idx.of_find hst2
      exact ⟨a1, a2, a3, fun g => (a4 g).trans (Pj_just hfan hon _ _ hj g)⟩
    refine ⟨e, renEdge e old new, ek, hcre, ?_⟩
    by_cases hlast : j + 1 = k
    · left
      refine ⟨hlast, ?_⟩
      have hnn : EdgeSet.find? c2.edges (Edge.keyOf old (N (j + 1))) = none := by
        refine hW2.idx.none_of (fun g hp => ?_)
        rw [hlast, hfan.closeN] at hp
        exact hp.1 0 (by omega) rfl
      rw [hnn] at hrest
      rcases hrest with ⟨_, hr⟩ | ⟨nxt, hx, _⟩
      · rw [hr, ← hlast]; exact ⟨hW2, rfl⟩
      · cases hx
    · right
      refine ⟨by omega, ?_⟩
      have hj1 : j + 1 < k := by omega
      obtain ⟨ed, hed⟩ := hW2.idx.get (g := F (j + 1 + 1)) (k := Edge.keyOf old (N (j + 1)))
        ((Pj_at_old hfan hon _ _ hj1 (Nat.le_refl _) _).2 ((hfan.side hj1 _).2 (Or.inr rfl)))
      rw [hed] at hrest
      rcases hrest with ⟨hx, _⟩ | ⟨nxt, hx, hl⟩
      · cases hx
      · cases hx
        exact ⟨c2, hW2, by rw [hed]; exact hl⟩

theorem walk1_step {fn : Fn R} {start : Edge} {old new k : Nat} {F N : Nat → Nat} {c0 c : Cell R} {j fuel : Nat}
    (hfan : FanF (slots c0) old k F N) (hon : old ≠ new) (hfresh : FreshNode c0 new)
    (hW : WalkState old new F N (fun m g => SideK (slots c0) g (Edge.keyOf old (N m))) c0 c j) (hj : j < k) {del cre : List Edge} {r : Cell R × List Edge × List Edge}
    (h : replaceNode.loop fn start old new (fuel + 1) c (EdgeSet.find? c.edges (Edge.keyOf old (N j))) (F j) del cre
      = .ok r) :
    (j + 1 = k ∧ WalkState old new F N (fun m g => SideK (slots c0) g (Edge.keyOf old (N m))) c0 r.1 k) ∨
    (j + 1 < k ∧ ∃ c2 del' cre', WalkState old new F N (fun m g => SideK (slots c0) g (Edge.keyOf old (N m))) c0 c2 (j + 1) ∧
      replaceNode.loop fn start old new fuel c2 (EdgeSet.find? c2.edges (Edge.keyOf old (N (j + 1)))) (F (j + 1))
        del' cre' = .ok r) := by
  obtain ⟨e, stored, _, _, h1 | h2⟩ := walk1_step' hfan hon hfresh hW hj h
  · exact Or.inl ⟨h1.1, h1.2.1⟩
  · obtain ⟨hj1, c2, hW2, hl⟩ := h2
    exact Or.inr ⟨hj1, c2, _, _, hW2, hl⟩

/-- **the first walk**: started at the edge `{old, N 0}` with previous face `F 0`, the loop can only return the state
    in which all `k` faces of the fan have been renamed and all `k` edges at `old` have been moved; the deleted list
    receives the `k` edges at `old`, the created list the `k` entries `{new, N m}` -/
theorem walk1' {fn : Fn R} {start : Edge} {old new k : Nat} {F N : Nat → Nat} {c0 : Cell R}
    (hfan : FanF (slots c0) old k F N) (hon : old ≠ new) (hfresh : FreshNode c0 new) :
    ∀ (fuel j : Nat) (c : Cell R) (del cre : List Edge) (r : Cell R × List Edge × List Edge),
      WalkState old new F N (fun m g => SideK (slots c0) g (Edge.keyOf old (N m))) c0 c j → j < k →
      replaceNode.loop fn start old new fuel c (EdgeSet.find? c.edges (Edge.keyOf old (N j))) (F j) del cre = .ok r →
      WalkState old new F N (fun m g => SideK (slots c0) g (Edge.keyOf old (N m))) c0 r.1 k ∧
      WalkLists old new k N (fun m g => SideK (slots c0) g (Edge.keyOf old (N m))) j del cre r.2.1 r.2.2 := by
  intro fuel
  induction fuel with
  | zero => intro j c del cre r _ _ h; unfold replaceNode.loop at h; cases h
  | succ fuel ih =>
    intro j c del cre r hW hj h
    obtain ⟨e, stored, he, hs, ⟨hl, hr, hr2⟩ | ⟨hj1, c2, hW2, h2⟩⟩ := walk1_step' hfan hon hfresh hW hj h
    · refine ⟨hr, ?_⟩
      rw [hr2]
      exact WalkLists.last he hs hl
    · obtain ⟨a, b⟩ := ih (j + 1) c2 _ _ r hW2 hj1 h2
      exact ⟨a, WalkLists.step he hs hj b⟩

theorem walk1 {fn : Fn R} {start : Edge} {old new k : Nat} {F N : Nat → Nat} {c0 : Cell R}
    (hfan : FanF (slots c0) old k F N) (hon : old ≠ new) (hfresh : FreshNode c0 new) :
    ∀ (fuel j : Nat) (c : Cell R) (del cre : List Edge) (r : Cell R × List Edge × List Edge),
      WalkState old new F N (fun m g => SideK (slots c0) g (Edge.keyOf old (N m))) c0 c j → j < k →
      replaceNode.loop fn start old new fuel c (EdgeSet.find? c.edges (Edge.keyOf old (N j))) (F j) del cre = .ok r →
      WalkState old new F N (fun m g => SideK (slots c0) g (Edge.keyOf old (N m))) c0 r.1 k :=
  fun fuel j c del cre r hW hj h => (walk1' hfan hon hfresh fuel j c del cre r hW hj h).1

/-- **`replace_node`, first walk**: `new` is a node that occurs in no live face (`FreshNode`), the faces around
    `old` form a single fan `F 1 … F k` with neighbours `N 0 … N (k-1)` (`FanF`), the start edge is `{old, N 0}` and
    its first face is the last face `F 0 = F k` of the fan (so that the walk runs `F 1, F 2, …`).  Then a successful
    call renames `old` to `new` in every face slot, keeps the index sound and complete, and changes the node store
    only by `delete_node(old)`; the face free list is untouched. -/
theorem replaceNode_abs {fn : Fn R} {c c' : Cell R} {start : Edge} {old new k : Nat} {F N : Nat → Nat}
    {del cre : List Edge} (h : replaceNode fn c start old new = .ok (c', del, cre))
    (hI : EdgeIdxComplete c) (hfan : FanF (slots c) old k F N) (hk : 0 < k)
    (hstart : start.f1 = some (F 0)) (hkey : Edge.keyOf start.n1 start.n2 = Edge.keyOf old (N 0))
    (hon : old ≠ new) (hfresh : FreshNode c new) :
    slots c' = (slots c).map (Option.map (renT old new)) ∧ EdgeIdxComplete c' ∧
      c'.nodes = (deleteNode c old).nodes ∧ c'.freeNodes = old :: c.freeNodes ∧ c'.freeFaces = c.freeFaces ∧
      ∃ e0 ne, EdgeSet.find? c.edges (Edge.keyOf old (N 0)) = some e0 ∧
        EdgeSet.find? c'.edges (Edge.keyOf new (N 0)) = some ne ∧ ne.f1 = e0.f1 ∧ ne.f2 = e0.f2 := by
  unfold replaceNode at h
  obtain ⟨sf1, hsf, h⟩ := bind_ok h
  obtain ⟨⟨c1, d1, cr1⟩, h1, h⟩ := bind_ok h
  cases h
  have e1 : start.f1 = some sf1 := by opt_ok hsf
  rw [hstart] at e1; cases e1
  rw [hkey] at h1
  have W := walk1 hfan hon hfresh _ 0 c [] [] _ (WalkState.init old new F N _ hI) hk h1
  have hS : slots c1 = (slots c).map (Option.map (renT old new)) := by
    apply List.ext_getElem?
    intro g
    rw [List.getElem?_map]
    by_cases hg : ∃ m, 1 ≤ m ∧ m ≤ k ∧ g = F m
    · obtain ⟨m, h1, h2, rfl⟩ := hg
      exact W.done m h1 h2
    · rw [W.other g (fun m h1 h2 he => hg ⟨m, h1, h2, he⟩)]
      cases hgt : (slots c)[g]? with
      | none => rfl
      | some o =>
        cases o with
        | none => rfl
        | some t =>
          have : hasNode t old = false := by
            rw [Bool.eq_false_iff]
            intro ho
            obtain ⟨j, hj, he⟩ := hfan.all g t hgt ho
            exact hg ⟨j + 1, by omega, by omega, he⟩
          simp only [Option.map_some, renT_of_not this]
  refine ⟨hS, ?_, ?_, ?_, W.freeFaces, W.first hk⟩
  · show IdxP (SideK (slots c1)) c1.edges
    rw [hS]
    exact W.idx.congr (final1 hfan hon hfresh)
  · show (c1.nodes.set! old _) = c.nodes.set! old _
    rw [W.nodes]
  · show old :: c1.freeNodes = _
    rw [W.freeNodes]

/-- the two edge lists returned by the first walk -/
theorem replaceNode_lists {fn : Fn R} {c c' : Cell R} {start : Edge} {old new k : Nat} {F N : Nat → Nat}
    {del cre : List Edge} (h : replaceNode fn c start old new = .ok (c', del, cre))
    (hI : EdgeIdxComplete c) (hfan : FanF (slots c) old k F N) (hk : 0 < k)
    (hstart : start.f1 = some (F 0)) (hkey : Edge.keyOf start.n1 start.n2 = Edge.keyOf old (N 0))
    (hon : old ≠ new) (hfresh : FreshNode c new) :
    (∀ m, m < k → ∃ x ∈ del, x.key = Edge.keyOf old (N m)) ∧
    (∀ y ∈ cre, ∃ m, m < k ∧ CreOK new N (fun m g => SideK (slots c) g (Edge.keyOf old (N m))) m y) := by
  unfold replaceNode at h
  obtain ⟨sf1, hsf, h⟩ := bind_ok h
  obtain ⟨⟨c1, d1, cr1⟩, h1, h⟩ := bind_ok h
  cases h
  have e1 : start.f1 = some sf1 := by opt_ok hsf
  rw [hstart] at e1; cases e1
  rw [hkey] at h1
  obtain ⟨dl, cr, q1, q2, q3, q4⟩ := (walk1' hfan hon hfresh _ 0 c [] [] _ (WalkState.init old new F N _ hI) hk h1).2
  simp only [List.nil_append] at q1 q2
  subst q1; subst q2
  exact ⟨fun m hm => q3 m (Nat.zero_le _) hm, fun y hy => by
    obtain ⟨m, _, b, c⟩ := q4 y hy; exact ⟨m, b, c⟩⟩

end

end Simu.Remesh
