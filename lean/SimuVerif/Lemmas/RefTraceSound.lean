/-
  C10: soundness of the static reference-invalidation check `safe` against the dynamic
  epoch semantics `execOk`, for every reallocation oracle.  Core Lean only.
-/
import SimuVerif.Model.RefTrace
namespace Simu.RefTrace

/-! ### `List.find?` on keyed association lists -/

theorem find_filter_ne {α : Type} (l : List (Nat × α)) (r r' : Nat) (h : r ≠ r') :
    (l.filter (fun e => e.1 != r)).find? (fun e => e.1 == r') = l.find? (fun e => e.1 == r') := by
  induction l with
  | nil => rfl
  | cons a l ih => grind

theorem find_filter_same {α : Type} (l : List (Nat × α)) (r : Nat) :
    (l.filter (fun e => e.1 != r)).find? (fun e => e.1 == r) = none := by
  induction l with
  | nil => rfl
  | cons a l ih => grind

theorem find_map_key {α : Type} (l : List (Nat × α)) (f : Nat × α → α) (r : Nat) :
    (l.map (fun e => (e.1, f e))).find? (fun e => e.1 == r)
      = (l.find? (fun e => e.1 == r)).map (fun e => (e.1, f e)) := by
  induction l with
  | nil => rfl
  | cons a l ih => grind

/-! ### lookups after each kind of step -/

theorem sLookup_bind (σ : SState) (r c r' : Nat) :
    sLookup ((r, c, true) :: σ.filter (fun e => e.1 != r)) r'
      = if r = r' then some (c, true) else sLookup σ r' := by
  unfold sLookup
  by_cases h : r = r'
  · simp [h]
  · have := find_filter_ne σ r r' h
    have hb : (r == r') = false := by simp [h]
    simp only [List.find?_cons, hb, this, if_neg h]

theorem dLookup_bind (d : DState) (r c ep r' : Nat) (e : Nat → Nat) :
    dLookup { epoch := e, refs := (r, c, ep) :: d.refs.filter (fun x => x.1 != r) } r'
      = if r = r' then some (c, ep) else dLookup d r' := by
  unfold dLookup
  by_cases h : r = r'
  · simp [h]
  · have := find_filter_ne d.refs r r' h
    have hb : (r == r') = false := by simp [h]
    simp only [List.find?_cons, hb, this, if_neg h]

theorem sLookup_grow (σ : SState) (c r : Nat) :
    sLookup (σ.map (fun e => (e.1, e.2.1, e.2.2 && e.2.1 != c))) r
      = (sLookup σ r).map (fun p => (p.1, p.2 && p.1 != c)) := by
  unfold sLookup
  rw [find_map_key σ (fun e => (e.2.1, e.2.2 && e.2.1 != c)) r]
  cases σ.find? (fun e => e.1 == r) <;> rfl

/-! ### the simulation invariant -/

/-- every statically tracked reference is dynamically tracked into the same container, and if the
    static state still believes it valid then its recorded epoch is current; untracked stays untracked -/
def Inv (σ : SState) (d : DState) : Prop :=
  ∀ r, match sLookup σ r with
    | none => dLookup d r = none
    | some (c, b) => ∃ ep, dLookup d r = some (c, ep) ∧ (b = true → d.epoch c = ep)

theorem inv_init : Inv [] ⟨fun _ => 0, []⟩ := by
  intro r; simp [sLookup, dLookup]

theorem inv_step (σ σ' : SState) (d : DState) (b : Bool) (e : Ev)
    (hinv : Inv σ d) (hs : sStep σ e = some σ') :
    ∃ d', dStep d b e = some d' ∧ Inv σ' d' := by
  cases e with
  | bind r c =>
    refine ⟨_, rfl, ?_⟩
    simp only [sStep, Option.some.injEq] at hs
    subst hs
    intro r'
    rw [sLookup_bind, dLookup_bind]
    by_cases h : r = r'
    · simp [h]
    · simpa [h] using hinv r'
  | grow c =>
    refine ⟨_, rfl, ?_⟩
    simp only [sStep, Option.some.injEq] at hs
    subst hs
    intro r
    rw [sLookup_grow]
    have hr := hinv r
    cases hl : sLookup σ r with
    | none =>
      rw [hl] at hr
      cases b <;> simpa [dLookup] using hr
    | some p =>
      obtain ⟨c0, v⟩ := p
      rw [hl] at hr
      obtain ⟨ep, h1, h2⟩ := hr
      cases b with
      | false =>
        refine ⟨ep, by simpa using h1, ?_⟩
        intro hv
        simp at hv
        exact h2 hv.1
      | true =>
        refine ⟨ep, by simpa [dLookup] using h1, ?_⟩
        intro hv
        simp at hv
        simp [hv.2, h2 hv.1]
  | use r =>
    have hr := hinv r
    simp only [sStep] at hs
    cases hl : sLookup σ r with
    | none =>
      rw [hl] at hr hs
      simp only [Option.some.injEq] at hs
      subst hs
      exact ⟨d, by simp [dStep, hr], hinv⟩
    | some p =>
      obtain ⟨c0, v⟩ := p
      rw [hl] at hr hs
      obtain ⟨ep, h1, h2⟩ := hr
      cases v with
      | false => simp at hs
      | true =>
        simp only [Option.some.injEq] at hs
        subst hs
        exact ⟨d, by simp [dStep, h1, h2 rfl], hinv⟩

theorem run_sound (tr : List Ev) : ∀ (σ : SState) (d : DState) (oracle : Nat → Bool) (i : Nat),
    Inv σ d → (sRun σ tr).isSome = true → (dRun d oracle i tr).isSome = true := by
  induction tr with
  | nil => intro σ d oracle i _ _; rfl
  | cons e es ih =>
    intro σ d oracle i hinv hs
    simp only [sRun] at hs
    cases hstep : sStep σ e with
    | none => rw [hstep] at hs; simp at hs
    | some σ' =>
      rw [hstep] at hs
      obtain ⟨d', hd, hinv'⟩ := inv_step σ σ' d (oracle i) e hinv hstep
      simp only [dRun, hd]
      exact ih σ' d' oracle (i + 1) hinv' hs

/-- soundness of the static check: a trace it accepts never dereferences a stale reference,
    whatever the capacities are (i.e. whichever growths happen to reallocate) -/
theorem safe_sound (tr : List Ev) (h : safe tr = true) (oracle : Nat → Bool) :
    execOk oracle tr = true :=
  run_sound tr [] ⟨fun _ => 0, []⟩ oracle 0 inv_init h

/-- and it is not vacuous: the check rejects the canonical bad trace and the dynamic semantics agrees -/
example : safe [.bind 0 0, .grow 0, .use 0] = false := by decide
example : execOk (fun _ => true) [.bind 0 0, .grow 0, .use 0] = false := by decide
example : safe [.bind 0 0, .grow 1, .use 0, .grow 0, .bind 0 0, .use 0] = true := by decide

end Simu.RefTrace
