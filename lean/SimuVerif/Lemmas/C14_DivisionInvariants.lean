import SimuVerif.Model.DaughtersOkCheck
import SimuVerif.Lemmas.C14_TissueInvariants
import SimuVerif.Lemmas.RemeshPassChecks
import SimuVerif.Lemmas.Population
/-
  C14 — the mesh invariants `Remesh.CellOk` ACROSS DIVISIONS (`Model/TissueD2.lean`).

  `divide_cell` = rebase of the mother, cut + interface, `create_daughter_cells` (→ `initDaughterCell`: the gate of
  `initialize_cell_properties`), `refine_mesh` of both daughters, halved target volumes, rebase of both daughters.
  From the FRESH daughters on everything is covered by `refineMesh_preserves` and `rebase_preserves`; what is needed of the
  fresh daughters is `CellOk` of the mesh `initDaughterCell` builds.  That is a property of the gate's output
  (`daughtersOkB`: the Boolean test `Remesh.cellOkB` on both fresh daughters, evaluated per executed division) — see
  Properties/C14DivisionInvariants.lean for what the gate establishes mathematically and what is proved of it.
-/
set_option linter.unusedSectionVars false
set_option linter.unusedVariables false
set_option linter.unusedSimpArgs false
namespace Simu.TissueD2
open Simu Simu.Forces Simu.Gen Simu.Remesh Simu.PipelineR Simu.TissueR Simu.TissueP Simu.TissueD

section
variable {R : Type} [Add R] [Sub R] [Mul R] [Div R] [Neg R] [Lit R] [LT R] [LE R] [DecidableLT R] [DecidableLE R]
  [DecidableEq R] [DEq R]

/-! ### one `divide_cell` -/

theorem liftR_ok {α : Type} {x : Except Remesh.Err α} {a : α} (h : liftR x = .ok a) : x = .ok a := by
  unfold liftR at h
  cases x with
  | ok b => cases h; rfl
  | error e => cases h

/-- `lmr.refine_mesh(daughter)` keeps the invariants (no `update_face_types` here) -/
theorem refineDaughter_ok {fn : Fn R} {K : ConstsTR R} {d r : CellTR R} (h : refineDaughter fn K d = .ok r)
    (hc : CellOk d.mesh) : CellOk r.mesh := by
  unfold refineDaughter at h
  simp only [] at h
  cases hr : refineResult (refineMesh fn (Gen.refineConsts fn) (lminSq (kR K d.k)) (lmaxSq (kR K d.k)) K.swapOn d.mesh
      K.maxIter) with
  | error e => rw [hr] at h; cases h
  | ok m =>
    rw [hr] at h
    cases h
    unfold refineResult at hr
    split at hr
    · cases hr
      exact (refineMesh_preserves fn (Gen.refineConsts fn) _ _ K.swapOn d.mesh K.maxIter hc).ok
    · cases hr
    · cases hr

theorem daughterLive_of_cellOk (fn : Fn R) (K : ConstsTR R) {d : CellTR R} (hc : CellOk d.mesh) :
    daughterLive fn K d = true :=
  refineLive_of_invariants _ _ _ _ _ _ _ hc

/-- **`divide_cell` after the rebase of the mother hands back two valid meshes**, given that the two meshes built by
    `create_daughter_cells` are valid -/
theorem divideRebased_cellOk {fn : Fn R} {K : ConstsTR R} {c b1 b2 : CellTR R} {inp : DivIn R}
    (h : divideRebased fn K c inp = .ok (b1, b2)) (hd : daughtersOkRebased fn c inp = true) :
    CellOk b1.mesh ∧ CellOk b2.mesh := by
  unfold divideRebased at h
  simp only [] at h
  unfold daughtersOkRebased at hd
  obtain ⟨mf, hmf, h⟩ := C11.bind_ok h
  rw [hmf] at hd
  obtain ⟨TT, hTT, h⟩ := C11.bind_ok h
  simp only [hTT] at hd
  obtain ⟨d1, hd1, h⟩ := C11.bind_ok h
  obtain ⟨d2, hd2, h⟩ := C11.bind_ok h
  simp only [hd1, hd2, Bool.and_eq_true] at hd
  obtain ⟨r1, hr1, h⟩ := C11.bind_ok h
  obtain ⟨r2, hr2, h⟩ := C11.bind_ok h
  obtain ⟨e1, he1, h⟩ := C11.bind_ok h
  obtain ⟨e2, he2, h⟩ := C11.bind_ok h
  cases h
  have c1 := refineDaughter_ok (liftR_ok hr1) (cellOk_of_B hd.1)
  have c2 := refineDaughter_ok (liftR_ok hr2) (cellOk_of_B hd.2)
  exact ⟨rebaseCell_ok (liftR_ok he1) c1, rebaseCell_ok (liftR_ok he2) c2⟩

/-- **the whole `divide_cell`** -/
theorem divideCellM_cellOk' {fn : Fn R} {K : ConstsTR R} {c d1 d2 : CellTR R} {inp : DivIn R}
    (h : divideCellM fn K c inp = some (d1, d2)) (hd : daughtersOkB fn c inp = true) :
    CellOk d1.mesh ∧ CellOk d2.mesh := by
  unfold divideCellM at h
  unfold daughtersOkB at hd
  cases hr : rebaseCell c with
  | error e => rw [hr] at h; cases h
  | ok c' =>
    rw [hr] at h hd
    simp only at h hd
    cases hdr : divideRebased fn K c' inp with
    | error e => rw [hdr] at h; cases h
    | ok r =>
      rw [hdr] at h
      cases h
      exact divideRebased_cellOk hdr hd

/-! ### the division round -/

theorem eventsGo_nil (fn : Fn R) (K : ConstsTR R) : ∀ (i : Nat) (cells : List (CellTR R)), eventsGo fn K i cells [] = []
  | _, [] => by unfold eventsGo; rfl
  | i, c :: cs => by
    unfold eventsGo
    split
    · exact eventsGo_nil fn K (i + 1) cs
    · exact eventsGo_nil fn K (i + 1) cs

theorem eventsGo_cellOk (fn : Fn R) (K : ConstsTR R) :
    ∀ (i : Nat) (cells : List (CellTR R)) (ins : List (DivIn R)), insDaughtersGo fn cells ins = true →
      ∀ e ∈ eventsGo fn K i cells ins, CellOk e.d1.mesh ∧ CellOk e.d2.mesh
  | _, [], _, _, e, he => by unfold eventsGo at he; cases he
  | i, c :: cs, ins, h, e, he => by
    unfold eventsGo at he
    unfold insDaughtersGo at h
    by_cases hr : readyD c = true
    · rw [if_pos hr] at he h
      cases ins with
      | nil =>
        simp only at he
        rw [eventsGo_nil] at he; cases he
      | cons inp rest =>
        simp only [Bool.and_eq_true] at h
        simp only at he
        cases hdv : divideCellM fn K c inp with
        | none =>
          rw [hdv] at he
          exact eventsGo_cellOk fn K (i + 1) cs rest h.2 e he
        | some d =>
          rw [hdv] at he
          rcases List.mem_cons.1 he with rfl | he
          · exact divideCellM_cellOk' (d1 := d.1) (d2 := d.2) hdv h.1
          · exact eventsGo_cellOk fn K (i + 1) cs rest h.2 e he
    · rw [if_neg hr] at he h
      exact eventsGo_cellOk fn K (i + 1) cs ins h e he

theorem eventsD2_cellOk (fn : Fn R) (K : ConstsTR R) (b : StateTR R) (ins : List (DivIn R))
    (h : insDaughtersOk fn b ins = true) : ∀ e ∈ eventsD2 fn K b ins, CellOk e.d1.mesh ∧ CellOk e.d2.mesh := by
  unfold eventsD2
  unfold insDaughtersOk at h
  split
  · rename_i hd
    rw [if_pos hd] at h
    exact eventsGo_cellOk fn K 0 b.cells ins h
  · intro e he; cases he

theorem rebaseReady_ok {c : CellTR R} (hc : CellOk c.mesh) : CellOk (rebaseReady c).mesh := by
  unfold rebaseReady
  split
  · split
    · rename_i c' hr; exact rebaseCell_ok hr hc
    · exact hc
  · exact hc

/-- `cell_divider::run`: mothers replaced by their daughters -/
theorem divisionRoundD_allOk (s : StateTP R) (ev : List (DivEv R)) (hc : AllOk s.base.cells)
    (he : ∀ e ∈ ev, CellOk e.d1.mesh ∧ CellOk e.d2.mesh) : AllOk (divisionRoundD s ev).base.cells := by
  unfold divisionRoundD
  split
  · intro c hm
    have hm' := (Pop.removeIdx_sublist _ _).subset hm
    rcases List.mem_append.1 hm' with h1 | h2
    · obtain ⟨c0, hc0, rfl⟩ := List.mem_map.1 h1
      exact rebaseReady_ok (hc c0 hc0)
    · obtain ⟨e, hev, hce⟩ := List.mem_flatMap.1 h2
      simp only [List.mem_cons, List.not_mem_nil, or_false] at hce
      rcases hce with rfl | rfl
      · exact (he e hev).1
      · exact (he e hev).2
  · exact hc

theorem refineStageT_allOk {fn : Fn R} {K : ConstsTR R} {s s1 : StateTR R} (h : refineStageT fn K s = .ok s1)
    (hc : AllOk s.cells) : AllOk s1.cells := by
  unfold refineStageT at h
  cases hcol : collect (s.cells.map (refineCell fn K)) with
  | error e => rw [hcol] at h; cases h
  | ok cs =>
    rw [hcol] at h
    cases h
    intro c' hc'
    obtain ⟨c, hm, hr⟩ := collect_mem (refineCell fn K) _ _ hcol c' hc'
    exact refineCell_ok hr (hc c hm)

theorem endPhases_sublist (rm : List Nat) : ∀ (ps : List Pop.Phase) (s : StateTP R),
    (ps.foldl (runEndPhase rm) s).base.cells.Sublist s.base.cells
  | [], s => List.Sublist.refl _
  | p :: ps, s => by
    rw [List.foldl_cons]
    refine (endPhases_sublist rm ps _).trans ?_
    cases p <;> first | exact List.Sublist.refl _ | exact Pop.removeIdx_sublist _ _

/-- removal keeps the surviving cells as they are -/
theorem removalP_allOk (s : StateTP R) (hc : AllOk s.base.cells) : AllOk (removalP s).base.cells := by
  intro c hm
  unfold removalP at hm
  exact hc c ((endPhases_sublist _ _ _).subset hm)

theorem restD_allOk {fn : Fn R} {fx : FX R} {K : ConstsTR R} {s2 s' : StateTP R} (h : restD fn fx K s2 = .ok s')
    (hc : AllOk s2.base.cells) : AllOk s'.base.cells := by
  unfold restD at h
  cases hr : refineStageT fn K s2.base with
  | error e => rw [hr] at h; cases h
  | ok b3 =>
    rw [hr] at h
    cases h
    exact removalP_allOk _ (physStage_allOk fn fx K (refineStageT_allOk hr hc))

/-- **one iteration with division round and removal keeps the mesh invariants of every cell of the list** -/
theorem tissueIterationD2_allOk {fn : Fn R} {fx : FX R} {K : ConstsTR R} {s s' : StateTP R} {ins : List (DivIn R)}
    (h : tissueIterationD2 fn fx K s ins = .ok s') (hc : AllOk s.base.cells) (hd : divCondD2 fn K s ins = true) :
    AllOk s'.base.cells := by
  unfold tissueIterationD2 afterDividerD2 at h
  unfold divCondD2 at hd
  cases hs : saveMeshT fn K s.base with
  | error e => rw [hs] at h; cases h
  | ok b1 =>
    rw [hs] at h hd
    simp only at hd
    have h1 := saveMeshT_allOk hs hc
    have h2 := divisionRoundD_allOk ({ s with base := b1 } : StateTP R) (eventsD2 fn K b1 ins) h1
      (eventsD2_cellOk fn K b1 ins hd)
    exact restD_allOk h h2

theorem tissueRunD2_allOk {fn : Fn R} {fx : FX R} {K : ConstsTR R} :
    ∀ (inss : List (List (DivIn R))) {s s' : StateTP R}, tissueRunD2 fn fx K inss s = .ok s' → AllOk s.base.cells →
      divCondRunD2 fn fx K inss s = true → AllOk s'.base.cells
  | [], s, s', h, hc, _ => by unfold tissueRunD2 at h; cases h; exact hc
  | ins :: rest, s, s', h, hc, hd => by
    unfold tissueRunD2 at h
    unfold divCondRunD2 at hd
    rw [Bool.and_eq_true] at hd
    cases hi : tissueIterationD2 fn fx K s ins with
    | error e => rw [hi] at h; cases h
    | ok s1 =>
      rw [hi] at h
      have hd2 := hd.2
      rw [hi] at hd2
      exact tissueRunD2_allOk rest h (tissueIterationD2_allOk hi hc hd.1) hd2

end

end Simu.TissueD2
