import SimuVerif.Lemmas.RemeshMerge10
import SimuVerif.Model.RemeshLive
/-
  Whole passes of `refine_mesh`, part 1: the invariants that are carried through a pass.

  * `NodesOk c`  — the node store: the free queue has no repetition, a slot is in the queue iff it exists and is not
                   used, every node of a live face is a used slot;
  * `CopyOk c x` — an element of the CHECK SET of `refine_mesh` (a copy of an edge record kept outside the index) agrees
                   with the cell: it has `n1 ≤ n2`, a first face, two different faces if two, and lists exactly the slots of
                   the live faces that have `{n1,n2}` as a side — i.e. it is what the index holds under its key, up to the
                   ORDER of the two face ids (the code does produce copies with the two ids exchanged);
  * `ChkOk c chk` — the check set is key-sorted and all its elements are `CopyOk`.
  and their elementary consequences.  The operations follow in `RemeshPass2` (split), `RemeshPass3` (collapse),
  `RemeshPass4` (swap pass), the loop in `RemeshPass`.
-/
set_option linter.unusedSectionVars false
set_option linter.unusedVariables false
set_option linter.unusedSimpArgs false
namespace Simu.Remesh
open Simu Simu.Surface
open Simu.C11 (bind_ok newSlot)

section
variable {R : Type} [Add R] [Sub R] [Mul R] [Div R] [Neg R] [Lit R] [LT R] [LE R] [DecidableLT R]
  [DecidableLE R] [DecidableEq R]

/-! ## 1. the node store -/

/-- `is_used()` of slot `i` of a node array -/
def usedA (ns : Array (Node R)) (i : Nat) : Bool :=
  match ns[i]? with
  | some n => n.used
  | none => false

theorem usedN_eq (c : Cell R) (i : Nat) : usedN c i = usedA c.nodes i := rfl

theorem usedA_lt {ns : Array (Node R)} {i : Nat} (h : usedA ns i = true) : i < ns.size := by
  unfold usedA at h
  cases hi : ns[i]? with
  | none => rw [hi] at h; cases h
  | some n => exact (Array.getElem?_eq_some_iff.1 hi).1

theorem usedA_set (ns : Array (Node R)) (i j : Nat) (v : Node R) :
    usedA (ns.set! i v) j = if j = i ∧ i < ns.size then v.used else usedA ns j := by
  unfold usedA
  rw [Array.set!_eq_setIfInBounds, Array.getElem?_setIfInBounds]
  by_cases hji : i = j
  · subst hji
    by_cases hlt : i < ns.size
    · simp [hlt]
    · simp [hlt]
  · have : ¬ (j = i ∧ i < ns.size) := fun h => hji h.1.symm
    simp [hji, this]

theorem usedA_push (ns : Array (Node R)) (j : Nat) (v : Node R) :
    usedA (ns.push v) j = if j = ns.size then v.used else usedA ns j := by
  unfold usedA
  rw [Array.getElem?_push]
  by_cases h : j = ns.size
  · simp [h]
  · simp [h]

/-- the node store is consistent -/
structure NodesOk (c : Cell R) : Prop where
  nodup : c.freeNodes.Nodup
  free : ∀ i, i ∈ c.freeNodes ↔ (i < c.nodes.size ∧ usedN c i = false)
  live : ∀ (g : Nat) (t : Tri) (v : Nat), (slots c)[g]? = some (some t) → hasNode t v = true → usedN c v = true

theorem NodesOk.newSlot_unused {c : Cell R} (h : NodesOk c) : usedN c (newSlot c) = false := by
  unfold newSlot
  cases hf : c.freeNodes with
  | nil =>
    simp only
    cases hu : usedN c c.nodes.size with
    | false => rfl
    | true => exact absurd (usedA_lt hu) (Nat.lt_irrefl _)
  | cons i rest => exact ((h.free i).1 (by rw [hf]; exact List.mem_cons_self)).2

theorem NodesOk.fresh {c : Cell R} (h : NodesOk c) : Fresh (abs c) (newSlot c) := by
  intro t ht
  obtain ⟨g, hg⟩ := mem_abs_iff.1 ht
  cases hn : hasNode t (newSlot c) with
  | false => rfl
  | true =>
    have := h.live g t _ hg hn
    rw [h.newSlot_unused] at this; cases this

theorem NodesOk.headOk {c : Cell R} (h : NodesOk c) : Remesh.freeHeadOk c = true := by
  unfold Remesh.freeHeadOk
  cases hf : c.freeNodes with
  | nil => rfl
  | cons i rest =>
    simp only [decide_eq_true_eq]
    exact ((h.free i).1 (by rw [hf]; exact List.mem_cons_self)).1

/-- `add_node`: the slot handed out becomes used, the others keep their flag; the queue loses its head -/
theorem addNode_nodes {c : Cell R} (h : NodesOk c) (p m : V3 R) :
    (∀ j, usedN (addNode c p m).1 j = (decide (j = newSlot c) || usedN c j)) ∧
    (addNode c p m).1.freeNodes = c.freeNodes.tail ∧
    (∀ j, j < c.nodes.size → j < (addNode c p m).1.nodes.size) ∧
    (∀ j, j < (addNode c p m).1.nodes.size → j < c.nodes.size ∨ j = newSlot c) := by
  unfold addNode newSlot
  cases hf : c.freeNodes with
  | nil =>
    simp only [List.tail_nil]
    refine ⟨fun j => ?_, trivial, fun j hj => ?_, fun j hj => ?_⟩
    · show usedA (c.nodes.push _) j = _
      rw [usedA_push]
      by_cases hj : j = c.nodes.size
      · simp [hj]
      · simp [hj]; rfl
    · simp only [Array.size_push]; omega
    · simp only [Array.size_push] at hj; omega
  | cons i rest =>
    have hi := ((h.free i).1 (by rw [hf]; exact List.mem_cons_self)).1
    simp only [List.tail_cons]
    refine ⟨fun j => ?_, trivial, fun j hj => ?_, fun j hj => ?_⟩
    · show usedA (c.nodes.set! i _) j = _
      rw [usedA_set]
      by_cases hj : j = i
      · simp [hj, hi]
      · simp [hj]; rfl
    · simp only [Array.set!_eq_setIfInBounds, Array.size_setIfInBounds]; exact hj
    · simp only [Array.set!_eq_setIfInBounds, Array.size_setIfInBounds] at hj; exact Or.inl hj

/-- the node store after `add_node`, for a face store in which the new slot may now occur -/
theorem NodesOk.addNode {c c1 : Cell R} (h : NodesOk c) {p m : V3 R} (hc1 : c1 = (addNode c p m).1) :
    c1.freeNodes.Nodup ∧ (∀ i, i ∈ c1.freeNodes ↔ (i < c1.nodes.size ∧ usedN c1 i = false)) ∧
    (∀ v, usedN c v = true → usedN c1 v = true) ∧ usedN c1 (newSlot c) = true := by
  obtain ⟨hu, hfr, hs1, hs2⟩ := addNode_nodes h p m
  subst hc1
  have hnew := h.newSlot_unused
  refine ⟨?_, fun i => ?_, fun v hv => ?_, ?_⟩
  · rw [hfr]; exact h.nodup.tail
  · rw [hfr, hu]
    constructor
    · intro hi
      have hm : i ∈ c.freeNodes := List.mem_of_mem_tail hi
      obtain ⟨a, b⟩ := (h.free i).1 hm
      refine ⟨hs1 i a, ?_⟩
      have : i ≠ newSlot c := by
        intro he
        unfold newSlot at he
        cases hf : c.freeNodes with
        | nil => rw [hf] at hi; cases hi
        | cons x rest =>
          rw [hf] at he hi
          simp only at he
          subst he
          have := h.nodup
          rw [hf] at this
          exact (List.nodup_cons.1 this).1 hi
      simp [this, b]
    · rintro ⟨a, b⟩
      simp only [Bool.or_eq_false_iff, decide_eq_false_iff_not] at b
      have hlt : i < c.nodes.size := by
        rcases hs2 i a with hh | hh
        · exact hh
        · exact absurd hh b.1
      have hm := (h.free i).2 ⟨hlt, b.2⟩
      unfold newSlot at b
      cases hf : c.freeNodes with
      | nil => rw [hf] at hm; cases hm
      | cons x rest =>
        rw [hf] at hm b
        simp only at b
        rcases List.mem_cons.1 hm with hh | hh
        · exact absurd hh b.1
        · exact hh
  · rw [hu, hv]; simp
  · rw [hu]; simp

/-- the number of node slots after `add_node` -/
def sizeAfterAdd (free : List Nat) (n : Nat) : Nat :=
  match free with
  | _ :: _ => n
  | [] => n + 1

theorem addNode_size (c : Cell R) (p m : V3 R) :
    (addNode c p m).1.nodes.size = sizeAfterAdd c.freeNodes c.nodes.size := by
  unfold addNode sizeAfterAdd
  cases c.freeNodes with
  | nil => simp
  | cons i rest => simp [Array.set!_eq_setIfInBounds]

/-- what one logged operation of `refine_mesh` does to (free node queue, number of node slots): a split takes one slot; a
    collapse takes one slot and then releases `a` and `b`, in that order (the bookkeeping `TissueR.replayOp` replays) -/
def nodeOp (st : List Nat × Nat) (isSplit : Bool) (a b : Nat) : List Nat × Nat :=
  if isSplit then (st.1.tail, sizeAfterAdd st.1 st.2) else (b :: a :: st.1.tail, sizeAfterAdd st.1 st.2)

/-- writing a used node record into a slot keeps the flags -/
theorem usedN_setUsed (c : Cell R) (i : Nat) (old v : Node R) (ho : c.nodes[i]? = some old) (hv : v.used = old.used)
    (j : Nat) : usedN ({ c with nodes := c.nodes.set! i v } : Cell R) j = usedN c j := by
  show usedA (c.nodes.set! i v) j = usedA c.nodes j
  rw [usedA_set]
  by_cases hj : j = i ∧ i < c.nodes.size
  · rw [if_pos hj, hj.1]
    unfold usedA; rw [ho, hv]
  · rw [if_neg hj]

/-- `delete_node` -/
theorem deleteNode_nodes (c : Cell R) (i : Nat) (hi : i < c.nodes.size) :
    (∀ j, usedN (deleteNode c i) j = (!decide (j = i) && usedN c j)) ∧
    (deleteNode c i).freeNodes = i :: c.freeNodes ∧ (deleteNode c i).nodes.size = c.nodes.size := by
  unfold deleteNode
  refine ⟨fun j => ?_, rfl, ?_⟩
  · show usedA (c.nodes.set! i _) j = _
    rw [usedA_set]
    by_cases hj : j = i
    · simp [hj, hi]
    · simp [hj]; rfl
  · simp [Array.set!_eq_setIfInBounds]

/-! ## 2. sets of edge records -/

namespace EdgeSet

theorem mem_insertGo (e : Edge) : ∀ (s : List Edge) (y : Edge), y ∈ (EdgeSet.insert.go e s).1 → y = e ∨ y ∈ s
  | [], y, h => by
    simp only [EdgeSet.insert.go, List.mem_singleton] at h
    exact Or.inl h
  | x :: xs, y, h => by
    unfold EdgeSet.insert.go at h
    split at h
    · exact Or.inr h
    · split at h
      · rcases List.mem_cons.1 h with hh | hh
        · exact Or.inl hh
        · exact Or.inr hh
      · simp only [List.mem_cons] at h
        rcases h with hh | hh
        · exact Or.inr (List.mem_cons.2 (Or.inl hh))
        · rcases mem_insertGo e xs y hh with h1 | h1
          · exact Or.inl h1
          · exact Or.inr (List.mem_cons_of_mem _ h1)

theorem mem_insert {s : EdgeSet} {e y : Edge} (h : y ∈ (EdgeSet.insert s e).1) : y = e ∨ y ∈ s :=
  mem_insertGo e s y h

theorem sorted_insert {s : EdgeSet} (hs : Sorted s) (e : Edge) : Sorted (EdgeSet.insert s e).1 :=
  (insert_spec hs e).sorted

theorem mem_erase {s : EdgeSet} {k : Nat} {y : Edge} : y ∈ EdgeSet.erase s k ↔ y ∈ s ∧ y.key ≠ k := by
  unfold EdgeSet.erase
  simp [List.mem_filter]

theorem mem_update {s : EdgeSet} {e y : Edge} (h : y ∈ EdgeSet.update s e) :
    (y = e ∧ ∃ x ∈ s, x.key = e.key) ∨ (y ∈ s ∧ y.key ≠ e.key) := by
  unfold EdgeSet.update at h
  obtain ⟨x, hx, hy⟩ := List.mem_map.1 h
  by_cases hk : x.key = e.key
  · simp only [hk, beq_self_eq_true, if_true] at hy
    exact Or.inl ⟨hy.symm, x, hx, hk⟩
  · have : (x.key == e.key) = false := beq_false_of_ne hk
    simp only [this] at hy
    subst hy
    exact Or.inr ⟨hx, hk⟩

theorem sorted_foldl_erase {s : EdgeSet} (hs : Sorted s) (l : List Edge) :
    Sorted (l.foldl (fun s ed => EdgeSet.erase s ed.key) s) := by
  induction l generalizing s with
  | nil => exact hs
  | cons x xs ih => exact ih (sorted_erase hs _)

theorem mem_foldl_erase {s : EdgeSet} {l : List Edge} {y : Edge} :
    y ∈ l.foldl (fun s ed => EdgeSet.erase s ed.key) s ↔ y ∈ s ∧ ∀ x ∈ l, y.key ≠ x.key := by
  induction l generalizing s with
  | nil => simp
  | cons x xs ih =>
    rw [List.foldl_cons, ih, mem_erase]
    simp only [List.mem_cons, forall_eq_or_imp]
    tauto

end EdgeSet

/-! ## 3. copies of edge records -/

/-- the record `x` agrees with the face store of `c` (see the header) -/
def CopyOk (c : Cell R) (x : Edge) : Prop := EntryOK (SideK (slots c)) x.key (some x)

/-- the check set -/
structure ChkOk (c : Cell R) (chk : CheckSet) : Prop where
  sorted : EdgeSet.Sorted chk
  ok : ∀ x ∈ chk, CopyOk c x

theorem copyOk_of_find {c : Cell R} (hI : EdgeIdxComplete c) {k : Nat} {x : Edge}
    (h : EdgeSet.find? c.edges k = some x) : CopyOk c x := by
  obtain ⟨hk, a, b, d⟩ := hI.of_find h
  subst hk
  exact ⟨a, b, d⟩

/-- at the start of the pass the check set is a copy of the index -/
theorem chkOk_init {c : Cell R} (hI : EdgeIdxComplete c) : ChkOk c c.edges :=
  ⟨hI.sorted, fun x hx => copyOk_of_find hI (EdgeSet.find?_of_mem hI.sorted hx)⟩

theorem CopyOk.congr {c c' : Cell R} {x : Edge} (h : CopyOk c x)
    (hs : ∀ g, SideK (slots c') g x.key ↔ SideK (slots c) g x.key) : CopyOk c' x :=
  ⟨h.1, h.2.1, fun g => (h.2.2 g).trans (hs g).symm⟩

/-- **what a valid copy says about the cell**: its index entry exists, has the same two faces (in one of the two orders),
    the faces are two different live faces through both end nodes, and the end nodes are different -/
theorem CopyOk.entry {c : Cell R} {x : Edge} (h : CopyOk c x) (hI : EdgeIdxComplete c) (hInv : Inv (abs c)) :
    ∃ E, getEdge c x.n1 x.n2 = some E ∧ E.n1 = x.n1 ∧ E.n2 = x.n2 ∧
      ((E.f1 = x.f1 ∧ E.f2 = x.f2) ∨ (E.f1 = x.f2 ∧ E.f2 = x.f1)) ∧ EdgeFaces c x x.n1 x.n2 ∧ x.n1 ≠ x.n2 := by
  obtain ⟨hle, hw, hP⟩ := h
  have hk := Edge.key_eq_keyOf hle
  obtain ⟨p, h1⟩ : ∃ p, x.f1 = some p := Option.ne_none_iff_exists'.1 hw.1
  · have hp : SideK (slots c) p x.key := (hP p).1 ((Edge.hasFace_iff _ _).2 (Or.inl h1))
    obtain ⟨E, hE⟩ := hI.get hp
    obtain ⟨ek, ele, ewf, eP⟩ := hI.of_find hE
    have hE' : getEdge c x.n1 x.n2 = some E := by rw [getEdge_eq, ← hk]; exact hE
    have hS := edgeIdxSound_of_complete hI hInv x.n1 x.n2 E hE'
    obtain ⟨g1, g2, t1, t2, hg1, hg2, hg12, hs1, hs2, h1a, h1b, h2a, h2b⟩ := hS
    have hn : E.n1 = x.n1 ∧ E.n2 = x.n2 := by
      have := (Edge.key_eq_keyOf_iff ele (x := x.n1) (y := x.n2)).1 (by rw [ek, hk])
      rcases this with hh | ⟨a1, a2⟩
      · exact hh
      · have : x.n1 = x.n2 := by omega
        exact ⟨by omega, by omega⟩
    have hx : ∀ g, x.hasFace g = true ↔ (g = g1 ∨ g = g2) := by
      intro g
      rw [hP g, ← eP g, Edge.hasFace_iff, hg1, hg2]
      simp only [Option.some.injEq]
      constructor <;> rintro (hh | hh) <;> simp [hh]
    have hab : x.n1 ≠ x.n2 := by
      intro he
      obtain ⟨t, ht, hq⟩ := hp
      have hnd := hInv.nondeg t (mem_abs_iff.2 ⟨p, ht⟩)
      rw [hk, he, mem_sideKeys] at hq
      simp only [Edge.keyOf_eq_iff] at hq
      omega
    rcases two_faces hw hx hg12 with ⟨a1, a2⟩ | ⟨a1, a2⟩
    · exact ⟨E, hE', hn.1, hn.2, Or.inl ⟨by rw [hg1, a1], by rw [hg2, a2]⟩,
        ⟨g1, g2, t1, t2, a1, a2, hg12, hs1, hs2, h1a, h1b, h2a, h2b⟩, hab⟩
    · exact ⟨E, hE', hn.1, hn.2, Or.inr ⟨by rw [hg1, a2], by rw [hg2, a1]⟩,
        ⟨g2, g1, t2, t1, a1, a2, Ne.symm hg12, hs2, hs1, h2a, h2b, h1a, h1b⟩, hab⟩

/-- the end nodes of a valid copy are used slots -/
theorem CopyOk.nodes_used {c : Cell R} {x : Edge} (h : CopyOk c x) (hN : NodesOk c) :
    usedN c x.n1 = true ∧ usedN c x.n2 = true := by
  obtain ⟨hle, hw, hP⟩ := h
  obtain ⟨p, h1⟩ : ∃ p, x.f1 = some p := Option.ne_none_iff_exists'.1 hw.1
  · obtain ⟨t, ht, hq⟩ := (hP p).1 ((Edge.hasFace_iff _ _).2 (Or.inl h1))
    rw [Edge.key_eq_keyOf hle] at hq
    obtain ⟨a, b⟩ := hasNode_of_sideKey hq
    exact ⟨hN.live p t _ ht a, hN.live p t _ ht b⟩

/-! ## 3b. every unused face slot is queued -/

/-- the converse of `FaceFreeOk`: an unused face slot is in the free queue (so `rebase`, which drops exactly the queued
    slots, leaves no unused slot behind for `generate_edge_set`) -/
def FreeFull (c : Cell R) : Prop := ∀ i : Nat, (slots c)[i]? = some none → i ∈ c.freeFaces

theorem FreeFull.congr {c c' : Cell R} (hs : slots c' = slots c) (hf : c'.freeFaces = c.freeFaces) (h : FreeFull c) :
    FreeFull c' := by
  intro i hi; rw [hf]; rw [hs] at hi; exact h i hi

theorem deleteFace_full {c c' : Cell R} {fid : Nat} (h : deleteFace c fid = .ok c') (hF : FreeFull c) : FreeFull c' := by
  obtain ⟨f, s3, hf, hc⟩ := deleteFace_eq h
  have hS : slots c' = (slots c).set fid none := by
    rw [hc]; show slotsA (c.faces.set! fid _) = _
    rw [slotsA_set]; rfl
  have hFF : c'.freeFaces = fid :: c.freeFaces := by rw [hc]
  intro i hi
  rw [hFF]
  by_cases hif : i = fid
  · exact List.mem_cons.2 (Or.inl hif)
  · refine List.mem_cons_of_mem _ (hF i ?_)
    rw [hS, List.getElem?_set_ne (Ne.symm hif)] at hi; exact hi

theorem addFace_full {fn : Fn R} {c c' : Cell R} {a b d fid : Nat} (h : addFace fn c a b d = .ok (c', fid))
    (hF : FreeFull c) : FreeFull c' := by
  obtain ⟨s6, ⟨rest, hff, hc⟩ | ⟨hff, hfid, hc⟩⟩ := addFace_eq h
  · obtain ⟨fs, he, hs⟩ := updFaceGeom_eq fn _ fid
    rw [he] at hc
    have hS : slots c' = (slots c).set fid (some (a, b, d)) := by
      rw [hc]; show slotsA fs = _
      rw [hs]; show slotsA (c.faces.set! fid _) = _
      rw [slotsA_set]; rfl
    have hFF : c'.freeFaces = rest := by rw [hc]
    intro i hi
    rw [hFF]
    by_cases hif : i = fid
    · subst hif
      rw [hS, List.getElem?_set] at hi
      simp only [if_true] at hi
      split at hi <;> cases hi
    · rw [hS, List.getElem?_set_ne (Ne.symm hif)] at hi
      have := hF i hi
      rw [hff] at this
      rcases List.mem_cons.1 this with hh | hh
      · exact absurd hh hif
      · exact hh
  · obtain ⟨fs, he, hs⟩ := updFaceGeom_eq fn _ fid
    rw [he] at hc
    have hS : slots c' = slots c ++ [some (a, b, d)] := by
      rw [hc]; show slotsA fs = _
      rw [hs]; show slotsA (c.faces.push _) = _
      rw [slotsA_push]; rfl
    intro i hi
    exfalso
    rw [hS] at hi
    by_cases hlt : i < (slots c).length
    · rw [List.getElem?_append_left hlt] at hi
      have := hF i hi
      rw [hff] at this; cases this
    · rw [List.getElem?_append_right (by omega)] at hi
      have h0 : i - (slots c).length = 0 ∨ 0 < i - (slots c).length := by omega
      rcases h0 with h0 | h0
      · rw [h0] at hi; cases hi
      · rw [List.getElem?_eq_none (by simp; omega)] at hi; cases hi

/-! ## 4. auxiliary facts about the live triangles -/

/-- the two triangles of an edge are found by `findDir` -/
theorem findDirs_of_edgeFaces {c : Cell R} {e : Edge} (hInv : Inv (abs c)) (hab : e.n1 ≠ e.n2)
    (he : EdgeFaces c e e.n1 e.n2) :
    ∃ t1 t2, findDir (abs c) e.n1 e.n2 = some t1 ∧ findDir (abs c) e.n2 e.n1 = some t2 := by
  obtain ⟨g1, g2, t1, t2, hg1, hg2, hg12, hs1, hs2, h1a, h1b, h2a, h2b⟩ := he
  have hT0 := absM_two_slots hg12 hs1 hs2
  rcases edge_dirs hInv hT0 hab h1a h1b h2a h2b with ⟨d1, d2⟩ | ⟨d1, d2⟩
  · obtain ⟨F1, F2⟩ := find_of_decomp hInv.simple hT0 d1 d2
    exact ⟨_, _, F1, F2⟩
  · obtain ⟨F1, F2⟩ := find_of_decomp hInv.simple (hT0.trans (Multiset.cons_swap _ _ _)) d2 d1
    exact ⟨_, _, F1, F2⟩

theorem hasNode_canonTri (t : Tri) (v : Nat) : hasNode (canonTri t) v = hasNode t v := by
  obtain ⟨x, y, z⟩ := t
  have h1 := hasNode_iff (canonTri (x, y, z)) v
  have h2 := hasNode_iff (x, y, z) v
  rw [Bool.eq_iff_iff, h1, h2]
  rcases canonTri_cases (x, y, z) with h | h | h <;> rw [h] <;> dsimp only <;> tauto

theorem nodes_of_triEquiv {S T : List Tri} (h : TriEquiv S T) {t : Tri} (ht : t ∈ S) :
    ∃ t0 ∈ T, ∀ v, hasNode t0 v = hasNode t v := by
  have : canonTri t ∈ T.map canonTri := (List.Perm.mem_iff h).1 (List.mem_map.2 ⟨t, ht, rfl⟩)
  obtain ⟨t0, ht0, he⟩ := List.mem_map.1 this
  exact ⟨t0, ht0, fun v => by rw [← hasNode_canonTri t0, he, hasNode_canonTri]⟩

theorem vertsF_triEquiv {S T : List Tri} (h : TriEquiv S T) : vertsF S = vertsF T := by
  ext x
  rw [ce_mem_vertsF, ce_mem_vertsF]
  constructor
  · rintro ⟨t, ht, hx⟩
    obtain ⟨t0, ht0, hn⟩ := nodes_of_triEquiv h ht
    exact ⟨t0, ht0, by rw [hn]; exact hx⟩
  · rintro ⟨t, ht, hx⟩
    obtain ⟨t0, ht0, hn⟩ := nodes_of_triEquiv h.symm ht
    exact ⟨t0, ht0, by rw [hn]; exact hx⟩

end

/-- the vertices after a collapse: the two end nodes are replaced by the new node (the set computed inside
    `Surface.collapse_verts_card`) -/
theorem collapse_verts {T : List Tri} (h : Inv T) {a b i : Nat} {t1 t2 : Tri}
    (h1 : findDir T a b = some t1) (h2 : findDir T b a = some t2)
    (hl : LinkCond T a b (opp t1 a b) (opp t2 b a)) (hi : Fresh T i) :
    vertsF (collapseT T a b i) = insert i (((vertsF T).erase a).erase b) := by
  obtain ⟨hn, hs, hc⟩ := h
  obtain ⟨ht1, hd1⟩ := ce_findDir_some h1
  obtain ⟨ht2, hd2⟩ := ce_findDir_some h2
  obtain ⟨hm1, hv1, hab, hbc, hca⟩ := ce_hasDir_spec (hn t1 ht1) hd1
  obtain ⟨hm2, hv2, -, had, hdb⟩ := ce_hasDir_spec (hn t2 ht2) hd2
  have hcd := hl.1
  generalize opp t1 a b = c at *
  generalize opp t2 b a = d at *
  have hswap : ∀ x y, (x, y) ∈ heM T → (y, x) ∈ heM T := by
    intro x y he
    unfold Closed at hc
    rw [← hc]
    exact Multiset.mem_map.2 ⟨(x, y), he, rfl⟩
  have hrem : ∀ t ∈ T, (hasNode t a && hasNode t b) = true → t = t1 ∨ t = t2 := by
    intro t ht hb
    rcases ce_both_dir hab (hn t ht) hb with hd | hd
    · exact Or.inl (ce_tri_unique hs ht ht1 ((ce_hasDir_spec (hn t ht) hd).1 _ |>.2 (Or.inl rfl))
        ((hm1 _).2 (Or.inl rfl)))
    · exact Or.inr (ce_tri_unique hs ht ht2 ((ce_hasDir_spec (hn t ht) hd).1 _ |>.2 (Or.inl rfl))
        ((hm2 _).2 (Or.inl rfl)))
  have hkept : ∀ e, e ∈ heM T → e ∉ heTriM t1 → e ∉ heTriM t2 →
      ∃ t ∈ T, (hasNode t a && hasNode t b) = false ∧ e ∈ heTriM t := by
    intro e he n1 n2
    obtain ⟨t, ht, het⟩ := ce_mem_heM.1 he
    refine ⟨t, ht, ?_, het⟩
    by_contra hb
    rcases hrem t ht (by simpa using hb) with rfl | rfl
    · exact n1 het
    · exact n2 het
  obtain ⟨tc, htc, hkc, hec⟩ := hkept (a, c)
    (hswap _ _ (ce_mem_heM.2 ⟨t1, ht1, (hm1 _).2 (Or.inr (Or.inr rfl))⟩))
    (by rw [hm1]; simp only [Prod.mk.injEq]; omega)
    (by rw [hm2]; simp only [Prod.mk.injEq]; omega)
  obtain ⟨td, htd, hkd, hed⟩ := hkept (d, a)
    (hswap _ _ (ce_mem_heM.2 ⟨t2, ht2, (hm2 _).2 (Or.inr (Or.inl rfl))⟩))
    (by rw [hm1]; simp only [Prod.mk.injEq]; omega)
    (by rw [hm2]; simp only [Prod.mk.injEq]; omega)
  ext v
  rw [ce_mem_vertsF_collapse]
  simp only [Finset.mem_insert, Finset.mem_erase]
  constructor
  · rintro ⟨t, ht, -, u, hu, rfl⟩
    by_cases hua : u = a ∨ u = b
    · left
      rcases hua with rfl | rfl
      · exact ce_ren_left _ _ _
      · exact ce_ren_right _ _ _
    · right
      have : ren a b i u = u := by simp [ren]; tauto
      rw [this]
      refine ⟨fun hh => hua (Or.inr hh), fun hh => hua (Or.inl hh), ce_mem_vertsF.2 ⟨t, ht, hu⟩⟩
  · rintro (rfl | ⟨hvb, hva, hv⟩)
    · exact ⟨tc, htc, hkc, a, (ce_he_nodes hec).1, (ce_ren_left _ _ _).symm⟩
    · have hren : v = ren a b i v := by simp [ren, hva, hvb]
      obtain ⟨t, ht, htv⟩ := ce_mem_vertsF.1 hv
      by_cases hb : (hasNode t a && hasNode t b) = true
      · rcases hrem t ht hb with rfl | rfl
        · rcases (hv1 v).1 htv with rfl | rfl | rfl
          · exact absurd rfl hva
          · exact absurd rfl hvb
          · exact ⟨tc, htc, hkc, _, (ce_he_nodes hec).2, hren⟩
        · rcases (hv2 v).1 htv with rfl | rfl | rfl
          · exact absurd rfl hvb
          · exact absurd rfl hva
          · exact ⟨td, htd, hkd, _, (ce_he_nodes hed).1, hren⟩
      · exact ⟨t, ht, by simpa using hb, v, htv, hren⟩

end Simu.Remesh
