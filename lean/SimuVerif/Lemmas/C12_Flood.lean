import SimuVerif.Lemmas.C12_Geom
/-
  C12 — the relative-winding test of two faces sharing an edge, and the breadth-first invariant of
  the flood fill of `check_face_normal_orientation`.
-/
set_option linter.unusedSectionVars false
set_option linter.unusedSimpArgs false
namespace Simu.Geo
open Simu Simu.Gen.Geometry

/-- a face, reversed or not -/
def flipIf (b : Bool) (t : Tri) : Tri := if b then swap13 t else t
/-- the three ways of writing the oriented triangle a → b → c -/
def rots (a b c : Nat) : List Tri := [(a, b, c), (c, a, b), (b, c, a)]

/-- two faces with distinct nodes that share exactly the edge {u,v} and traverse it in opposite
    directions (the local picture of a consistently oriented manifold surface) -/
def GoodPair (r0 c0 : Tri) : Prop :=
  ∃ u v w x : Nat, u ≠ v ∧ u ≠ w ∧ v ≠ w ∧ u ≠ x ∧ v ≠ x ∧ w ≠ x ∧ r0 ∈ rots u v w ∧ c0 ∈ rots v u x

/-- the core of `check_face_winding_order`: whatever the windings the two faces currently have,
    the checked face leaves with the parity of the reference face (relative to a consistent
    orientation `r0`, `c0`) — all 3·3·2·2 cases -/
theorem winding_rel (u v w x : Nat) (huv : u ≠ v) (huw : u ≠ w) (hvw : v ≠ w) (hux : u ≠ x) (hvx : v ≠ x)
    (hwx : w ≠ x) (r0 c0 : Tri) (hr : r0 ∈ rots u v w) (hc : c0 ∈ rots v u x) (p q : Bool) :
    checkWinding (flipIf p r0) (flipIf q c0) = some (flipIf p c0) := by
  simp only [rots, List.mem_cons, List.mem_nil_iff, or_false] at hr hc
  rcases hr with rfl | rfl | rfl <;> rcases hc with rfl | rfl | rfl <;> cases p <;> cases q <;>
    simp [checkWinding, commonIdx, windingTable, Tri.at, flipIf, swap13, sameOrder, windingSwapWhen, windingSwap,
      swapMembers, huv, huv.symm, huw, huw.symm, hvw, hvw.symm, hux, hux.symm, hvx, hvx.symm, hwx, hwx.symm]

theorem goodPair_winding {r0 c0 : Tri} (h : GoodPair r0 c0) (p q : Bool) :
    checkWinding (flipIf p r0) (flipIf q c0) = some (flipIf p c0) := by
  obtain ⟨u, v, w, x, h1, h2, h3, h4, h5, h6, hr, hc⟩ := h
  exact winding_rel u v w x h1 h2 h3 h4 h5 h6 r0 c0 hr hc p q

theorem mem_heTri_swap13 (t : Tri) (a b : Nat) : (a, b) ∈ heTri (swap13 t) ↔ (b, a) ∈ heTri t := by
  obtain ⟨i, j, k⟩ := t
  simp only [heTri, swap13, List.mem_cons, Prod.mk.injEq, List.mem_nil_iff, or_false]
  constructor
  · rintro (⟨rfl, rfl⟩ | ⟨rfl, rfl⟩ | ⟨rfl, rfl⟩) <;> simp
  · rintro (⟨rfl, rfl⟩ | ⟨rfl, rfl⟩ | ⟨rfl, rfl⟩) <;> simp

theorem mem_heTri_flipIf (σ : Bool) (t : Tri) (a b : Nat) (h : (a, b) ∈ heTri (flipIf σ t)) :
    (a, b) ∈ heTri t ∨ (b, a) ∈ heTri t := by
  cases σ
  · left; exact h
  · right; exact (mem_heTri_swap13 t a b).mp h

theorem edges_mem (t : Tri) : (t.1, t.2.1) ∈ heTri t ∧ (t.2.1, t.2.2) ∈ heTri t ∧ (t.2.2, t.1) ∈ heTri t := by
  simp [heTri]

theorem swap13_swap13 (t : Tri) : swap13 (swap13 t) = t := rfl

/-! ### invariant of the flood fill -/

/-- the neighbour function only ever pairs faces that are properly adjacent in the consistent
    orientation `O` (edge-manifoldness of the surface, stated for the edge lookup) -/
def NbGood (O : List Tri) (nb : Nat → Nat → Nat → Option Nat) : Prop :=
  ∀ (f : Nat) (tf : Tri) (a b g : Nat), O[f]? = some tf → ((a, b) ∈ heTri tf ∨ (b, a) ∈ heTri tf) → nb f a b = some g →
    ∃ tg, O[g]? = some tg ∧ GoodPair tf tg

/-- what holds before and after every iteration of the `while` loop: every face that has been
    checked carries the orientation `O` reversed by the one global bit `σ` (the seed's), the
    others are still a face of `O` or its reverse, and every queued pair (checked reference,
    neighbour) is properly adjacent -/
structure FInv (O : List Tri) (σ : Bool) (s : FS) : Prop where
  lenF : s.faces.length = O.length
  lenC : s.checked.length = O.length
  shape : ∀ (f : Nat) (t : Tri), O[f]? = some t → s.faces[f]? = some t ∨ s.faces[f]? = some (swap13 t)
  done : ∀ (f : Nat) (t : Tri), O[f]? = some t → s.checked[f]? = some true → s.faces[f]? = some (flipIf σ t)
  queue : ∀ (r f : Nat), (r, f) ∈ s.queue →
    s.checked[r]? = some true ∧ ∃ tr tf, O[r]? = some tr ∧ O[f]? = some tf ∧ GoodPair tr tf

theorem push_mem {checked : List Bool} {q q' : List (Nat × Nat)} {f g : Nat}
    (h : pushIfUnchecked checked q f g = some q') : ∀ e ∈ q', e ∈ q ∨ e = (f, g) := by
  unfold pushIfUnchecked at h
  split at h
  · cases h
  · cases h; intro e he; exact Or.inl he
  · cases h; intro e he
    rcases List.mem_append.mp he with h1 | h1
    · exact Or.inl h1
    · right; simpa using h1

theorem floodStep_inv (O : List Tri) (σ : Bool) (nb : Nat → Nat → Nat → Option Nat) (hnb : NbGood O nb)
    (s s' : FS) (hI : FInv O σ s) (h : floodStep nb s = some s') : FInv O σ s' := by
  obtain ⟨faces, checked, queue⟩ := s
  cases queue with
  | nil => simp only [floodStep, Option.some.injEq] at h; subst h; exact hI
  | cons rf q =>
    obtain ⟨r, f⟩ := rf
    simp only [floodStep] at h
    cases hcf : checked[f]? with
    | none => simp [hcf] at h
    | some b =>
      cases b with
      | true =>
        simp only [hcf, Option.some.injEq] at h; subst h
        exact ⟨hI.lenF, hI.lenC, hI.shape, hI.done, fun r' f' hm => hI.queue r' f' (List.mem_cons_of_mem _ hm)⟩
      | false =>
        simp only [hcf] at h
        obtain ⟨hcr, tr, tf, hOr, hOf, hgood⟩ := hI.queue r f List.mem_cons_self
        have hfr := hI.done r tr hOr hcr
        have hflen : f < faces.length := by
          have := hI.lenF; simp only at this
          rw [this]; exact (List.getElem?_eq_some_iff.mp hOf).1
        have hclen : f < checked.length := (List.getElem?_eq_some_iff.mp hcf).1
        -- whichever winding the face has now, it leaves with the parity σ
        have hw : ∃ q0 : Bool, faces[f]? = some (flipIf q0 tf) := by
          rcases hI.shape f tf hOf with h1 | h1
          · exact ⟨false, h1⟩
          · exact ⟨true, h1⟩
        obtain ⟨q0, hff⟩ := hw
        simp only at hfr hff
        simp only [hfr, hff, goodPair_winding hgood σ q0] at h
        -- the three neighbours
        obtain ⟨e1, e2, e3⟩ := edges_mem (flipIf σ tf)
        cases hg1 : nb f (flipIf σ tf).1 (flipIf σ tf).2.1 with
        | none => simp [hg1] at h
        | some g1 =>
        cases hg2 : nb f (flipIf σ tf).2.1 (flipIf σ tf).2.2 with
        | none => simp [hg1, hg2] at h
        | some g2 =>
        cases hg3 : nb f (flipIf σ tf).2.2 (flipIf σ tf).1 with
        | none => simp [hg1, hg2, hg3] at h
        | some g3 =>
        simp only [hg1, hg2, hg3] at h
        cases hp1 : pushIfUnchecked (checked.set f true) q f g1 with
        | none => simp [hp1] at h
        | some q1 =>
        simp only [hp1] at h
        cases hp2 : pushIfUnchecked (checked.set f true) q1 f g2 with
        | none => simp [hp2] at h
        | some q2 =>
        simp only [hp2] at h
        cases hp3 : pushIfUnchecked (checked.set f true) q2 f g3 with
        | none => simp [hp3] at h
        | some q3 =>
        simp only [hp3, Option.some.injEq] at h
        subst h
        have hN1 := hnb f tf _ _ g1 hOf (mem_heTri_flipIf σ tf _ _ e1) hg1
        have hN2 := hnb f tf _ _ g2 hOf (mem_heTri_flipIf σ tf _ _ e2) hg2
        have hN3 := hnb f tf _ _ g3 hOf (mem_heTri_flipIf σ tf _ _ e3) hg3
        have hcheckedf : (checked.set f true)[f]? = some true := List.getElem?_set_self hclen
        refine ⟨by simpa using hI.lenF, by simpa using hI.lenC, ?_, ?_, ?_⟩
        · intro f' t hO
          by_cases hff' : f = f'
          · subst hff'
            have : t = tf := by rw [hOf] at hO; exact (Option.some.inj hO).symm
            subst this
            simp only [List.getElem?_set_self hflen]
            cases σ
            · left; rfl
            · right; rfl
          · simp only [List.getElem?_set_ne hff']; exact hI.shape f' t hO
        · intro f' t hO hc
          by_cases hff' : f = f'
          · subst hff'
            have : t = tf := by rw [hOf] at hO; exact (Option.some.inj hO).symm
            subst this
            simp only [List.getElem?_set_self hflen]
          · simp only [List.getElem?_set_ne hff'] at hc ⊢; exact hI.done f' t hO hc
        · intro r' f' hm
          have hmem : (r', f') ∈ q ∨ (r', f') = (f, g1) ∨ (r', f') = (f, g2) ∨ (r', f') = (f, g3) := by
            rcases push_mem hp3 _ hm with h3 | h3
            · rcases push_mem hp2 _ h3 with h2 | h2
              · rcases push_mem hp1 _ h2 with h1 | h1
                · exact Or.inl h1
                · exact Or.inr (Or.inl h1)
              · exact Or.inr (Or.inr (Or.inl h2))
            · exact Or.inr (Or.inr (Or.inr h3))
          rcases hmem with hq | hq | hq | hq
          · obtain ⟨hc', rest⟩ := hI.queue r' f' (List.mem_cons_of_mem _ hq)
            refine ⟨?_, rest⟩
            by_cases hfr' : f = r'
            · subst hfr'; exact hcheckedf
            · simp only [List.getElem?_set_ne hfr']; exact hc'
          · cases hq; obtain ⟨tg, h1, h2⟩ := hN1; exact ⟨hcheckedf, tf, tg, hOf, h1, h2⟩
          · cases hq; obtain ⟨tg, h1, h2⟩ := hN2; exact ⟨hcheckedf, tf, tg, hOf, h1, h2⟩
          · cases hq; obtain ⟨tg, h1, h2⟩ := hN3; exact ⟨hcheckedf, tf, tg, hOf, h1, h2⟩

theorem floodRun_inv (O : List Tri) (σ : Bool) (nb : Nat → Nat → Nat → Option Nat) (hnb : NbGood O nb)
    (fuel : Nat) (s s' : FS) (hI : FInv O σ s) (h : floodRun nb fuel s = some s') :
    FInv O σ s' ∧ s'.queue = [] := by
  induction fuel generalizing s with
  | zero =>
    simp only [floodRun] at h
    split_ifs at h with he
    cases h; exact ⟨hI, by simpa using he⟩
  | succ k ih =>
    simp only [floodRun] at h
    split_ifs at h with he
    · cases h; exact ⟨hI, by simpa using he⟩
    · cases hs : floodStep nb s with
      | none => simp [hs] at h
      | some s1 =>
        simp only [hs] at h
        exact ih s1 (floodStep_inv O σ nb hnb s s1 hI hs) h

/-- the state before the loop satisfies the invariant; `σ` is the bit by which the seed face
    (face 0, never rewound) differs from the consistent orientation -/
theorem floodInit_inv (O T : List Tri) (σ : Bool) (nb : Nat → Nat → Nat → Option Nat) (hnb : NbGood O nb)
    (hlen : T.length = O.length)
    (hT : ∀ (f : Nat) (t : Tri), O[f]? = some t → T[f]? = some t ∨ T[f]? = some (swap13 t))
    (hseed : ∀ t, O[0]? = some t → T[0]? = some (flipIf σ t))
    (s0 : FS) (h0 : floodInit nb T = some s0) : FInv O σ s0 := by
  cases T with
  | nil => simp [floodInit] at h0
  | cons t0 rest =>
    simp only [floodInit] at h0
    cases hg1 : nb 0 t0.1 t0.2.1 with
    | none => simp [hg1] at h0
    | some g1 =>
    cases hg2 : nb 0 t0.2.1 t0.2.2 with
    | none => simp [hg1, hg2] at h0
    | some g2 =>
    cases hg3 : nb 0 t0.2.2 t0.1 with
    | none => simp [hg1, hg2, hg3] at h0
    | some g3 =>
    simp only [hg1, hg2, hg3, Option.some.injEq] at h0
    subst h0
    have hO0 : ∃ o0, O[0]? = some o0 := by
      cases O with
      | nil => simp at hlen
      | cons o0 _ => exact ⟨o0, rfl⟩
    obtain ⟨o0, hO0⟩ := hO0
    have ht0 : t0 = flipIf σ o0 := by
      have := hseed o0 hO0
      simpa using this
    obtain ⟨e1, e2, e3⟩ := edges_mem t0
    rw [ht0] at e1 e2 e3 hg1 hg2 hg3
    have hN1 := hnb 0 o0 _ _ g1 hO0 (mem_heTri_flipIf σ o0 _ _ e1) hg1
    have hN2 := hnb 0 o0 _ _ g2 hO0 (mem_heTri_flipIf σ o0 _ _ e2) hg2
    have hN3 := hnb 0 o0 _ _ g3 hO0 (mem_heTri_flipIf σ o0 _ _ e3) hg3
    refine ⟨hlen, by simpa using hlen, hT, ?_, ?_⟩
    · intro f t hO hc
      cases f with
      | zero => exact hseed t hO
      | succ k =>
        simp only [List.getElem?_cons_succ, List.getElem?_replicate] at hc
        split_ifs at hc
        cases hc
    · intro r f hm
      simp only [List.mem_cons, Prod.mk.injEq, List.mem_nil_iff, or_false] at hm
      rcases hm with ⟨rfl, rfl⟩ | ⟨rfl, rfl⟩ | ⟨rfl, rfl⟩
      · obtain ⟨tg, h1, h2⟩ := hN1; exact ⟨rfl, o0, tg, hO0, h1, h2⟩
      · obtain ⟨tg, h1, h2⟩ := hN2; exact ⟨rfl, o0, tg, hO0, h1, h2⟩
      · obtain ⟨tg, h1, h2⟩ := hN3; exact ⟨rfl, o0, tg, hO0, h1, h2⟩

end Simu.Geo
