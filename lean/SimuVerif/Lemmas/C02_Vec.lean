import SimuVerif.Lemmas.Field
import SimuVerif.Model.ForcesBase
import Mathlib.Tactic.LinearCombination
import Mathlib.Tactic.Abel
import Mathlib.Algebra.BigOperators.Group.List.Basic
/-
  C02 — vector algebra used by the force theorems: `V3 R` as an additive commutative group
  (so that `List.sum`, `List.Perm.sum_eq`, `abel` apply), sums of vector lists, and the maps the
  equivariance theorems quantify over (`Rot`: linear, dot- and cross-preserving, i.e. rotations).
-/
set_option linter.unusedSimpArgs false
namespace Simu
variable {R : Type} [Field R]

namespace V3

instance instZero : Zero (V3 R) := ⟨⟨0, 0, 0⟩⟩
@[simp] theorem zero_x : (0 : V3 R).x = 0 := rfl
@[simp] theorem zero_y : (0 : V3 R).y = 0 := rfl
@[simp] theorem zero_z : (0 : V3 R).z = 0 := rfl

instance instAddCommGroup : AddCommGroup (V3 R) where
  add := V3.add
  zero := ⟨0, 0, 0⟩
  neg := V3.neg
  sub := V3.sub
  add_assoc a b c := by apply V3.ext' <;> exact add_assoc _ _ _
  zero_add a := by apply V3.ext' <;> exact zero_add _
  add_zero a := by apply V3.ext' <;> exact add_zero _
  add_comm a b := by apply V3.ext' <;> exact add_comm _ _
  neg_add_cancel a := by apply V3.ext' <;> exact neg_add_cancel _
  sub_eq_add_neg a b := by apply V3.ext' <;> exact sub_eq_add_neg _ _
  nsmul := nsmulRec
  zsmul := zsmulRec

/-- the model's `vec3(0,0,0)` is the zero of the group -/
@[simp] theorem zero_eq : (V3.zero : V3 R) = 0 := by
  apply V3.ext' <;> simp [V3.zero]
theorem mk_zero : (⟨0, 0, 0⟩ : V3 R) = 0 := rfl
@[simp] theorem mk_lit_zero : (V3.mk (lit 0 : R) (lit 0) (lit 0)) = 0 := by
  apply V3.ext' <;> simp

@[simp] theorem cross_x (a b : V3 R) : (cross a b).x = a.y * b.z - a.z * b.y := rfl
@[simp] theorem cross_y (a b : V3 R) : (cross a b).y = a.z * b.x - a.x * b.z := rfl
@[simp] theorem cross_z (a b : V3 R) : (cross a b).z = a.x * b.y - a.y * b.x := rfl

theorem smul_zero' (k : R) : (0 : V3 R) * k = 0 := by apply V3.ext' <;> simp
theorem zero_sdiv (k : R) : (0 : V3 R) / k = 0 := by apply V3.ext' <;> simp
theorem smul_zero_right (a : V3 R) : a * (0 : R) = 0 := by apply V3.ext' <;> simp
theorem cross_zero_right (a : V3 R) : cross a 0 = 0 := by apply V3.ext' <;> simp
theorem cross_zero_left (a : V3 R) : cross 0 a = 0 := by apply V3.ext' <;> simp
theorem dot_zero_left (a : V3 R) : dot 0 a = 0 := by simp [dot_def]
theorem sdiv_eq_smul (a : V3 R) (k : R) : a / k = a * k⁻¹ := by
  apply V3.ext' <;> simp [div_eq_mul_inv]
theorem smul_add (a b : V3 R) (k : R) : (a + b) * k = a * k + b * k := by
  apply V3.ext' <;> simp <;> ring
theorem cross_add_right (a b c : V3 R) : cross a (b + c) = cross a b + cross a c := by
  apply V3.ext' <;> simp <;> ring
theorem cross_smul_right (a b : V3 R) (k : R) : cross a (b * k) = cross a b * k := by
  apply V3.ext' <;> simp <;> ring

/-- components of a sum of vectors -/
theorem sum_x (l : List (V3 R)) : l.sum.x = (l.map (·.x)).sum := by
  induction l with
  | nil => rfl
  | cons a t ih => simp only [List.sum_cons, List.map_cons, add_x, ih]
theorem sum_y (l : List (V3 R)) : l.sum.y = (l.map (·.y)).sum := by
  induction l with
  | nil => rfl
  | cons a t ih => simp only [List.sum_cons, List.map_cons, add_y, ih]
theorem sum_z (l : List (V3 R)) : l.sum.z = (l.map (·.z)).sum := by
  induction l with
  | nil => rfl
  | cons a t ih => simp only [List.sum_cons, List.map_cons, add_z, ih]

theorem sum_map_smul {α : Type} (l : List α) (v : α → V3 R) (k : R) :
    (l.map (fun a => v a * k)).sum = (l.map v).sum * k := by
  induction l with
  | nil => simp [smul_zero']
  | cons a t ih => simp only [List.map_cons, List.sum_cons, ih, smul_add]

theorem sum_map_cross_left {α : Type} (l : List α) (v : α → V3 R) (u : V3 R) :
    (l.map (fun a => cross u (v a))).sum = cross u (l.map v).sum := by
  induction l with
  | nil => simp [cross_zero_right]
  | cons a t ih => simp only [List.map_cons, List.sum_cons, ih, cross_add_right]

theorem sum_map_dot_right {α : Type} (l : List α) (v : α → V3 R) (d : V3 R) :
    (l.map (fun a => dot (v a) d)).sum = dot (l.map v).sum d := by
  induction l with
  | nil => simp [dot_zero_left]
  | cons a t ih => simp only [List.map_cons, List.sum_cons, ih, dot_add_left]

end V3

/-- `foldl` accumulation from `lit 0` (what the C++ loops do) is the sum -/
theorem foldl_add_eq_sum {α : Type} (l : List α) (g : α → R) (s : R) :
    l.foldl (fun s a => s + g a) s = s + (l.map g).sum := by
  induction l generalizing s with
  | nil => simp
  | cons a t ih => simp only [List.foldl_cons, ih, List.map_cons, List.sum_cons]; ring

/-- componentwise form of a vector (in)equation: unfolds the vector operations at `.x .y .z` -/
macro "v3c" : tactic => `(tactic| simp only [V3.smul_x, V3.smul_y, V3.smul_z, V3.add_x, V3.add_y, V3.add_z,
  V3.sub_x, V3.sub_y, V3.sub_z, V3.neg_x, V3.neg_y, V3.neg_z, V3.sdiv_x, V3.sdiv_y, V3.sdiv_z,
  V3.cross_x, V3.cross_y, V3.cross_z, V3.zero_x, V3.zero_y, V3.zero_z, V3.dot_def, V3.normSq_def])
macro "v3c" "at" h:ident : tactic => `(tactic| simp only [V3.smul_x, V3.smul_y, V3.smul_z, V3.add_x, V3.add_y, V3.add_z,
  V3.sub_x, V3.sub_y, V3.sub_z, V3.neg_x, V3.neg_y, V3.neg_z, V3.sdiv_x, V3.sdiv_y, V3.sdiv_z,
  V3.cross_x, V3.cross_y, V3.cross_z, V3.zero_x, V3.zero_y, V3.zero_z, V3.dot_def, V3.normSq_def] at $h:ident)
/-- a vector equation, component by component -/
macro "v3ext" : tactic => `(tactic| (apply V3.ext' <;> v3c))

/-- rotations: linear maps of `V3 R` that preserve the dot product and commute with the cross
    product (orthogonal with determinant +1) -/
structure Rot (M : V3 R → V3 R) : Prop where
  map_sub : ∀ x y, M x - M y = M (x - y)
  map_add : ∀ x y, M x + M y = M (x + y)
  map_smul : ∀ x (k : R), M x * k = M (x * k)
  dot_map : ∀ x y, V3.dot (M x) (M y) = V3.dot x y
  cross_map : ∀ x y, V3.cross (M x) (M y) = M (V3.cross x y)

namespace Rot
variable {M : V3 R → V3 R}
theorem map_zero (h : Rot M) : M 0 = 0 := by
  have := h.map_sub 0 0
  simp only [sub_self] at this
  exact this.symm
theorem map_sdiv (h : Rot M) (x : V3 R) (k : R) : M x / k = M (x / k) := by
  rw [V3.sdiv_eq_smul, V3.sdiv_eq_smul, h.map_smul]
theorem normSq_map (h : Rot M) (x : V3 R) : V3.normSq (M x) = V3.normSq x := h.dot_map x x
end Rot

/-- the matrix with rows `r1 r2 r3` applied to `v` -/
def matMul3 (r1 r2 r3 v : V3 R) : V3 R := ⟨V3.dot r1 v, V3.dot r2 v, V3.dot r3 v⟩

/-- a matrix with orthonormal columns whose rows satisfy `r1 × r2 = r3`, `r2 × r3 = r1`,
    `r3 × r1 = r2` (i.e. orthogonal, determinant +1) is a rotation in the above sense -/
theorem rot_of_rows (r1 r2 r3 : V3 R)
    (hxx : r1.x * r1.x + r2.x * r2.x + r3.x * r3.x = 1)
    (hyy : r1.y * r1.y + r2.y * r2.y + r3.y * r3.y = 1)
    (hzz : r1.z * r1.z + r2.z * r2.z + r3.z * r3.z = 1)
    (hxy : r1.x * r1.y + r2.x * r2.y + r3.x * r3.y = 0)
    (hxz : r1.x * r1.z + r2.x * r2.z + r3.x * r3.z = 0)
    (hyz : r1.y * r1.z + r2.y * r2.z + r3.y * r3.z = 0)
    (h12 : V3.cross r1 r2 = r3) (h23 : V3.cross r2 r3 = r1) (h31 : V3.cross r3 r1 = r2) :
    Rot (matMul3 r1 r2 r3) := by
  refine ⟨?_, ?_, ?_, ?_, ?_⟩
  · intro x y; apply V3.ext' <;> simp [matMul3, V3.dot_def] <;> ring
  · intro x y; apply V3.ext' <;> simp [matMul3, V3.dot_def] <;> ring
  · intro x k; apply V3.ext' <;> simp [matMul3, V3.dot_def] <;> ring
  · intro u v
    simp only [matMul3, V3.dot_def]
    linear_combination (u.x * v.x) * hxx + (u.y * v.y) * hyy + (u.z * v.z) * hzz
      + (u.x * v.y + u.y * v.x) * hxy + (u.x * v.z + u.z * v.x) * hxz + (u.y * v.z + u.z * v.y) * hyz
  · intro u v
    have a1 := congrArg V3.x h12; have a2 := congrArg V3.y h12; have a3 := congrArg V3.z h12
    have b1 := congrArg V3.x h23; have b2 := congrArg V3.y h23; have b3 := congrArg V3.z h23
    have c1 := congrArg V3.x h31; have c2 := congrArg V3.y h31; have c3 := congrArg V3.z h31
    simp only [V3.cross_x, V3.cross_y, V3.cross_z] at a1 a2 a3 b1 b2 b3 c1 c2 c3
    apply V3.ext' <;> simp only [matMul3, V3.dot_def, V3.cross_x, V3.cross_y, V3.cross_z]
    · linear_combination (u.y * v.z - u.z * v.y) * b1 + (u.z * v.x - u.x * v.z) * b2 + (u.x * v.y - u.y * v.x) * b3
    · linear_combination (u.y * v.z - u.z * v.y) * c1 + (u.z * v.x - u.x * v.z) * c2 + (u.x * v.y - u.y * v.x) * c3
    · linear_combination (u.y * v.z - u.z * v.y) * a1 + (u.z * v.x - u.x * v.z) * a2 + (u.x * v.y - u.y * v.x) * a3

/-- rotation about the z axis by an angle with cosine `c` and sine `s` -/
theorem rot_z (c s : R) (h : c * c + s * s = 1) :
    Rot (matMul3 (⟨c, -s, 0⟩ : V3 R) ⟨s, c, 0⟩ ⟨0, 0, 1⟩) := by
  apply rot_of_rows <;> first
    | (apply V3.ext' <;> simp <;> linear_combination h)
    | (simp <;> first | linear_combination h | ring)
theorem rot_x (c s : R) (h : c * c + s * s = 1) :
    Rot (matMul3 (⟨1, 0, 0⟩ : V3 R) ⟨0, c, -s⟩ ⟨0, s, c⟩) := by
  apply rot_of_rows <;> first
    | (apply V3.ext' <;> simp <;> linear_combination h)
    | (simp <;> first | linear_combination h | ring)
theorem rot_y (c s : R) (h : c * c + s * s = 1) :
    Rot (matMul3 (⟨c, 0, s⟩ : V3 R) ⟨0, 1, 0⟩ ⟨-s, 0, c⟩) := by
  apply rot_of_rows <;> first
    | (apply V3.ext' <;> simp <;> linear_combination h)
    | (simp <;> first | linear_combination h | ring)

/-- rotations compose -/
theorem Rot.comp {M N : V3 R → V3 R} (hM : Rot M) (hN : Rot N) : Rot (fun v => M (N v)) :=
  ⟨fun x y => by rw [hM.map_sub, hN.map_sub], fun x y => by rw [hM.map_add, hN.map_add],
   fun x k => by rw [hM.map_smul, hN.map_smul], fun x y => by rw [hM.dot_map, hN.dot_map],
   fun x y => by rw [hM.cross_map, hN.cross_map]⟩

end Simu
