import SimuVerif.Lemmas.RemeshPassLive
import SimuVerif.Lemmas.SurfaceCheckers
import SimuVerif.Model.CellOkCheck
/-
  A Boolean test for the invariants `CellOk` (for the cell a run STARTS from: everything afterwards is a theorem), its
  soundness, and non-vacuity: the octahedron built by `initCell` over ℚ satisfies `CellOk`, evaluated by the kernel.
-/
set_option linter.unusedSectionVars false
set_option linter.unusedVariables false
set_option linter.unusedSimpArgs false
namespace Simu.Remesh
open Simu Simu.Surface
open Simu.C11 (bind_ok newSlot)

section
variable {R : Type} [Add R] [Sub R] [Mul R] [Div R] [Neg R] [Lit R] [LT R] [LE R] [DecidableLT R]
  [DecidableLE R] [DecidableEq R]

theorem nodesOk_of_B {c : Cell R} (h : nodesOkB c = true) : NodesOk c := by
  unfold nodesOkB at h
  simp only [Bool.and_eq_true, List.all_eq_true, decide_eq_true_eq, Bool.or_eq_true, Bool.not_eq_true',
    List.mem_range, List.contains_eq_mem] at h
  obtain ⟨⟨⟨h1, h2⟩, h3⟩, h4⟩ := h
  refine ⟨h1, fun i => ⟨fun hi => h2 i hi, fun ⟨hlt, hu⟩ => ?_⟩, fun g t v hg hv => ?_⟩
  · rcases h3 i hlt with hh | hh
    · rw [hu] at hh; cases hh
    · exact hh
  · obtain ⟨f, hf, hfu, rfl⟩ := slot_some_iff.1 hg
    have hm : f ∈ c.faces.toList := by
      rw [← Array.getElem?_toList] at hf; exact List.mem_of_getElem? hf
    rcases h4 f hm with hh | hh
    · rw [hfu] at hh; cases hh
    · unfold fUsed at hh
      simp only [Bool.and_eq_true] at hh
      rw [hasNode_iff] at hv
      rcases hv with rfl | rfl | rfl
      · exact hh.1.1
      · exact hh.1.2
      · exact hh.2

theorem vmc_of_no_tri {T : List Tri} {v : Nat} (h : ∀ t ∈ T, hasNode t v = false) : VMC T v := by
  intro x y x' y' hx _
  obtain ⟨t, ht, hr⟩ := hx
  have := isRot_hasNode hr
  rw [h t ht] at this
  exact absurd this.1 (by simp)

theorem cellOk_of_B {c : Cell R} (h : cellOkB c = true) : CellOk c := by
  unfold cellOkB at h
  simp only [Bool.and_eq_true] at h
  obtain ⟨⟨⟨⟨⟨⟨⟨⟨h1, h2⟩, h3⟩, h4⟩, h5⟩, h6⟩, h7⟩, h8⟩, h9⟩ := h
  have hN := nodesOk_of_B h3
  have hInv : Inv (abs c) := inv_of_B h4 h5
  refine ⟨faceFreeOk_of_B h1, edgeIdxComplete_of_B h2, hN, hInv, fun v => ?_, fun v hv => ?_, ?_, fun i hi => ?_⟩
  · by_cases hex : ∃ t ∈ abs c, hasNode t v = true
    · obtain ⟨t, ht, hv⟩ := hex
      obtain ⟨g, hg⟩ := mem_abs_iff.1 ht
      have hlt := usedA_lt (hN.live g t v hg hv)
      unfold allVmcB at h6
      rw [List.all_eq_true] at h6
      have := h6 v (List.mem_range.2 hlt)
      simp only [Bool.or_eq_true, Bool.not_eq_true'] at this
      rcases this with hh | hh
      · have : (abs c).any (fun t => hasNode t v) = true := List.any_eq_true.2 ⟨t, ht, hv⟩
        rw [hh] at this; cases this
      · obtain ⟨fs, ns, F⟩ := vertexManifold_of_autoB hh
        exact vmc_of_fan hInv F.toF F.pos
    · refine vmc_of_no_tri (fun t ht => ?_)
      cases hv : hasNode t v with
      | false => rfl
      | true => exact absurd ⟨t, ht, hv⟩ hex
  · unfold coveredB at h7
    rw [List.all_eq_true] at h7
    have := h7 v (List.mem_range.2 (usedA_lt hv))
    rw [hv] at this
    simp only [Bool.not_true, Bool.false_or, List.any_eq_true] at this
    obtain ⟨t, ht, hn⟩ := this
    exact ce_mem_vertsF.2 ⟨t, ht, hn⟩
  · rw [List.any_eq_true] at h8
    obtain ⟨n, hn, hu⟩ := h8
    obtain ⟨i, hi⟩ := List.mem_iff_getElem?.1 hn
    rw [Array.getElem?_toList] at hi
    exact ⟨i, by unfold usedN; rw [hi]; exact hu⟩
  · obtain ⟨f, hf, hu⟩ := slot_none_iff.1 hi
    unfold fullB at h9
    rw [List.all_eq_true] at h9
    have hlt : i < c.faces.size := (Array.getElem?_eq_some_iff.1 hf).1
    have := h9 i (List.mem_range.2 hlt)
    rw [hf] at this
    simp only [hu, Bool.false_or, List.contains_eq_mem, decide_eq_true_eq] at this
    exact this

end

/-! ## non-vacuity -/

/-- the octahedron built by `initCell` over ℚ satisfies all invariants (kernel evaluation) -/
theorem octaCell_ok : CellOk octaCell := cellOk_of_B (by decide +kernel)

/-- hence every pass of `refine_mesh` on it, with any parameters, keeps them, and never reads a released slot -/
example (k : RefineConsts ℚ) (lminSq lmaxSq : ℚ) (swapOn : Bool) (n : Nat) :
    CellOk (refineMesh fnQ k lminSq lmaxSq swapOn octaCell n).1 ∧
      refineLive fnQ k lminSq lmaxSq swapOn octaCell n = true :=
  ⟨(refineMesh_preserves fnQ k lminSq lmaxSq swapOn octaCell n octaCell_ok).ok,
    refineLive_of_invariants fnQ k lminSq lmaxSq swapOn octaCell n octaCell_ok⟩

end Simu.Remesh
