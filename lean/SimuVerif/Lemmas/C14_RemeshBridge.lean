import SimuVerif.Lemmas.C14_RemeshStages
/-
  C14 — the assembled iteration of Model/Pipeline.lean (no remeshing operation, no released slot) is the special case of
  `PipelineR.cellIterationR`: `cellIterationR_ofState`, and `band_of_inBand` (the domain test `inBand` gives the band hypothesis).
-/
set_option linter.unusedSectionVars false
set_option linter.unusedVariables false
set_option linter.unusedSimpArgs false
namespace Simu.PipelineR
open Simu Simu.Forces Simu.Remesh Simu.Pipeline
variable {R : Type} [Field R] [LinearOrder R] [IsStrictOrderedRing R]

/-! ### the model of Model/Pipeline.lean is the special case "no operation, no released slot" -/

theorem rebase_noFree (c : Cell R) (h1 : c.freeFaces = []) (h2 : c.freeNodes = []) : rebase c = .ok c := by
  unfold rebase
  simp only [h1, h2, List.isEmpty_nil, Bool.and_self, Bool.not_true, if_true, Bool.false_eq_true, if_false]
  cases c with
  | mk nodes faces edges fn ff =>
    simp only at h1 h2
    subst h1 h2
    rfl

theorem ofState_nodes_size (s : Pipeline.State R) (E : EdgeSet) (g : Nat → V3 R × R) (n : Int) :
    (ofState s E g n).cell.nodes.size = s.nn := by
  simp [ofState]

theorem ofState_getNode (s : Pipeline.State R) (E : EdgeSet) (g : Nat → V3 R × R) (n : Int) (i : Nat) :
    (ofState s E g n).cell.nodes[i]? = if i < s.nn then some ⟨s.pos.get i, s.mom.get i, true⟩ else none := by
  simp only [ofState, Array.getElem?_map, Array.getElem?_range]
  split <;> rfl

/-- with the totalisation of `Slots` chosen as "the position of node 0", the position lookup of the two models is the same function -/
theorem posT_ofState (s : Pipeline.State R) (E : EdgeSet) (g : Nat → V3 R × R) (n : Int) (h0 : 0 < s.nn)
    (hrest : ∀ i, s.pos.rest i = s.pos.get 0) (hsz : s.pos.arr.size = s.nn) :
    posT (ofState s E g n).cell = s.pos.get := by
  have ha : anchor (ofState s E g n).cell = s.pos.get 0 := by
    unfold anchor
    have : (ofState s E g n).cell.nodes.toList = (List.range s.nn).map (fun i => (⟨s.pos.get i, s.mom.get i, true⟩ : Node R)) := by
      simp [ofState]
    rw [this]
    obtain ⟨k, hk⟩ : ∃ k, s.nn = k + 1 := ⟨s.nn - 1, by omega⟩
    rw [hk, List.range_succ_eq_map]
    simp
  funext i
  unfold posT
  rw [ofState_getNode, ha]
  by_cases hi : i < s.nn
  · simp only [hi, if_true]
  · simp only [hi, if_false]
    have : s.pos.get i = s.pos.rest i := by
      unfold Slots.get
      have : s.pos.arr[i]? = none := by simp; omega
      rw [this]
    rw [this, hrest]


theorem zipIdx_map_congr {α β γ : Type} (ψ : α → β) (φ : α × Nat → γ) (φ' : β × Nat → γ)
    (h : ∀ a i, φ (a, i) = φ' (ψ a, i)) : ∀ (l : List α) (k : Nat), (l.zipIdx k).map φ = ((l.map ψ).zipIdx k).map φ'
  | [], k => rfl
  | a :: l, k => by
    simp only [List.zipIdx_cons, List.map_cons, h, zipIdx_map_congr ψ φ φ' h l (k + 1)]

theorem zipIdx_map_fst' {α γ : Type} (φ : α → γ) : ∀ (l : List α) (k : Nat), (l.zipIdx k).map (fun p => φ p.1) = l.map φ
  | [], k => rfl
  | a :: l, k => by simp only [List.zipIdx_cons, List.map_cons, zipIdx_map_fst' φ l (k + 1)]

/-- the face array of `ofState` -/
def facesOf (F : List Forces.Face) (g : Nat → V3 R × R) : Array (Remesh.Face R) :=
  (F.zipIdx.map fun p => (⟨p.1.a, p.1.b, p.1.c, p.1.ty, (g p.2).1, (g p.2).2, true⟩ : Remesh.Face R)).toArray

theorem ofState_faces (s : Pipeline.State R) (E : EdgeSet) (g : Nat → V3 R × R) (n : Int) :
    (ofState s E g n).cell.faces = facesOf s.faces g := rfl

theorem slots_facesOf (c : Cell R) (F : List Forces.Face) (g : Nat → V3 R × R) (h : c.faces = facesOf F g) :
    slots c = F.map (fun f => ⟨true, f⟩) := by
  unfold slots
  rw [h]
  unfold facesOf
  simp only [List.map_map]
  exact zipIdx_map_fst' (fun f : Forces.Face => (⟨true, f⟩ : Forces.Slot)) F 0

theorem liveFaces_allUsed (F : List Forces.Face) : liveFaces (F.map (fun f => (⟨true, f⟩ : Forces.Slot))) = F := by
  unfold liveFaces
  induction F with
  | nil => rfl
  | cons f rest ih => simp only [List.map_cons, List.filterMap_cons, if_true, ih]

theorem liveF_facesOf (c : Cell R) (F : List Forces.Face) (g : Nat → V3 R × R) (h : c.faces = facesOf F g) : liveF c = F := by
  unfold liveF
  rw [slots_facesOf c F g h, liveFaces_allUsed]

theorem facesOf_faceTypes (F : List Forces.Face) (g : Nat → V3 R × R) :
    (facesOf F g).map (fun f => { f with typ := 0 }) = facesOf (F.map (fun f => { f with ty := 0 })) g := by
  unfold facesOf
  rw [List.map_toArray, List.map_map]
  congr 1
  exact zipIdx_map_congr (fun f : Forces.Face => { f with ty := 0 })
    ((fun f : Remesh.Face R => { f with typ := 0 }) ∘ fun p : Forces.Face × Nat => (⟨p.1.a, p.1.b, p.1.c, p.1.ty, (g p.2).1, (g p.2).2, true⟩ : Remesh.Face R))
    (fun p : Forces.Face × Nat => (⟨p.1.a, p.1.b, p.1.c, p.1.ty, (g p.2).1, (g p.2).2, true⟩ : Remesh.Face R)) (fun a i => rfl) F 0

theorem facesOf_refresh (fx : FX R) (x : Nat → V3 R) (F : List Forces.Face) (g : Nat → V3 R × R) :
    (facesOf F g).map (fun f => if f.used then { f with normal := (faceGeom fx x (faceOf f)).1, area := (faceGeom fx x (faceOf f)).2 } else f)
      = facesOf F (fun i => faceGeom fx x (F.getD i ⟨0, 0, 0, 0⟩)) := by
  unfold facesOf
  rw [List.map_toArray, List.map_map]
  congr 1
  apply List.ext_getElem?
  intro i
  simp only [List.getElem?_map, List.getElem?_zipIdx, Function.comp]
  cases hq : F[i]? with
  | none => rfl
  | some f =>
    simp only [Option.map_some, if_true, Nat.zero_add, faceOf, List.getD_eq_getElem?_getD, hq, Option.getD_some, Function.comp]


theorem saveMesh_ofState (fn : Fn R) (K : ConstsR R) (s : Pipeline.State R) (E : EdgeSet) (g : Nat → V3 R × R) (n : Int) :
    saveMesh fn K (ofState s E g n) = .ok (ofState s E g
      (if Gen.saveCond (Gen.fileNumber fn s.time K.samplingPeriod) n then Gen.fileNumber fn s.time K.samplingPeriod else n)) := by
  unfold saveMesh
  have ht : (ofState s E g n).time = s.time := rfl
  have hn : (ofState s E g n).fileNo = n := rfl
  rw [ht, hn]
  by_cases hc : Gen.saveCond (Gen.fileNumber fn s.time K.samplingPeriod) n = true
  · simp only [hc, if_true]
    rw [rebase_noFree _ rfl rfl]
    rfl
  · simp [hc]

theorem faceTypes_ofState (K : ConstsR R) (s : Pipeline.State R) (E : EdgeSet) (g : Nat → V3 R × R) (n : Int) :
    faceTypes K (ofState s E g n).cell = (ofState { s with faces := updateFaceTypes K.base s.faces } E g n).cell := by
  unfold faceTypes updateFaceTypes
  cases K.base.epithelial with
  | false => rfl
  | true =>
    simp only [if_true]
    show ({ (ofState s E g n).cell with faces := (facesOf s.faces g).map fun f => { f with typ := 0 } } : Cell R) = _
    rw [facesOf_faceTypes]
    rfl

/-- **the old model is the special case**: on a cell without released slots whose edge index lies in the refinement band (the
    hypothesis of C11 `conforming_fixpoint`), with the swap pass off and the edge index listing the hinges in the order of a freshly
    generated edge set (the hypothesis of C02 `slots_fresh`), one iteration of the model WITH remeshing is one iteration of
    `Pipeline.cellIteration` -/
theorem cellIterationR_ofState (fn : Fn R) (fx : FX R) (K : ConstsR R) (s : Pipeline.State R) (E : EdgeSet)
    (g : Nat → V3 R × R) (n : Int)
    (hsw : K.swapOn = false) (h0 : 0 < s.nn) (hrest : ∀ i, s.pos.rest i = s.pos.get 0)
    (hE : E ≠ [])
    (hband : ∀ e ∈ E, ¬ lmaxSq K < C11.len2 (ofState s E g n).cell e ∧ ¬ C11.len2 (ofState s E g n).cell e < lminSq K)
    (hfuel : E.length + 1 ≤ K.maxIter)
    (hH : (E.map fun e => (⟨e.n1, e.n2, e.f1.getD 0, e.f2.getD 0⟩ : Forces.EdgeRec)).map
            (hingeOfEdge ((updateFaceTypes K.base s.faces).map fun f => ⟨true, f⟩))
          = hingesSorted (updateFaceTypes K.base s.faces)) :
    cellIterationR fn fx K (ofState s E g n)
      = .ok (ofState (Pipeline.cellIteration fx K.base s) E
               (fun i => faceGeom fx s.pos.get ((updateFaceTypes K.base s.faces).getD i ⟨0, 0, 0, 0⟩))
               (if Gen.saveCond (Gen.fileNumber fn s.time K.samplingPeriod) n then Gen.fileNumber fn s.time K.samplingPeriod else n)) := by
  unfold cellIterationR meshStage
  rw [saveMesh_ofState]
  generalize (if Gen.saveCond (Gen.fileNumber fn s.time K.samplingPeriod) n then Gen.fileNumber fn s.time K.samplingPeriod else n) = n'
  show Except.map (forceStage fx K) (Except.map _ (refine fn K (faceTypes K (ofState s E g n').cell))) = _
  rw [faceTypes_ofState]
  -- the refinement pass is the identity
  have href : refine fn K (ofState { s with faces := updateFaceTypes K.base s.faces } E g n').cell
      = .ok (ofState { s with faces := updateFaceTypes K.base s.faces } E g n').cell := by
    have hband' : ∀ e ∈ E, ¬ lmaxSq K < C11.len2 (ofState { s with faces := updateFaceTypes K.base s.faces } E g n').cell e
        ∧ ¬ C11.len2 (ofState { s with faces := updateFaceTypes K.base s.faces } E g n').cell e < lminSq K := hband
    unfold refine
    rw [hsw, C11.refineMesh_noswap]
    show refineResult (refineMesh.loop fn (Gen.refineConsts fn) (lminSq K) (lmaxSq K) K.maxIter
      (ofState { s with faces := updateFaceTypes K.base s.faces } E g n').cell E 0 []) = _
    rw [C11.loop_conforming fn (Gen.refineConsts fn) (lminSq K) (lmaxSq K)
      (ofState { s with faces := updateFaceTypes K.base s.faces } E g n').cell hE E K.maxIter [] hband' hfuel]
    rfl
  rw [href]
  show Except.ok (forceStage fx K _) = _
  congr 1
  have hposT : posT (ofState { s with faces := updateFaceTypes K.base s.faces } E g n').cell = s.pos.get :=
    posT_ofState _ E g n' h0 hrest rfl
  have hfaces : (ofState { s with faces := updateFaceTypes K.base s.faces } E g n').cell.faces
      = facesOf (updateFaceTypes K.base s.faces) g := rfl
  unfold forceStage Pipeline.cellIteration
  have hsize : (ofState { s with faces := updateFaceTypes K.base s.faces } E g n').cell.nodes.size = s.nn :=
    ofState_nodes_size _ E g n'
  have hfree : (ofState { s with faces := updateFaceTypes K.base s.faces } E g n').cell.freeNodes = [] := rfl
  have hE' : edgeRecs (ofState { s with faces := updateFaceTypes K.base s.faces } E g n').cell
      = E.map (fun e => (⟨e.n1, e.n2, e.f1.getD 0, e.f2.getD 0⟩ : Forces.EdgeRec)) := rfl
  have htv : (ofState s E g n').tvol = s.tvol := rfl
  have hit : (ofState s E g n').iter = s.iter := rfl
  have htm : (ofState s E g n').time = s.time := rfl
  have hfn : (ofState s E g n').fileNo = n' := rfl
  have hcontrib : internalContribsSlots fx s.pos.get ((updateFaceTypes K.base s.faces).map fun f => (⟨true, f⟩ : Forces.Slot))
      (E.map (fun e => (⟨e.n1, e.n2, e.f1.getD 0, e.f2.getD 0⟩ : Forces.EdgeRec))) (forceParams K.base s.tvol)
      = internalContribs fx s.pos.get (updateFaceTypes K.base s.faces) (forceParams K.base s.tvol) := by
    rw [slots_eq_fresh _ _ _ _ _ (by rw [liveFaces_allUsed]; exact hH), liveFaces_allUsed]
  simp only [hposT, liveF_facesOf _ _ g hfaces, slots_facesOf _ _ g hfaces, hsize, hfree, hE', List.length_nil, htv, hit, htm, hfn,
    hcontrib]
  unfold refreshGeom
  simp only [hposT, hfaces, facesOf_refresh]
  generalize Gen.nodeMass K.base.density (prelude fx s.pos.get (updateFaceTypes K.base s.faces) (forceParams K.base s.tvol)).volume
    (Gen.nbNodes s.nn 0) = m
  generalize accumulate s.nn (internalContribs fx s.pos.get (updateFaceTypes K.base s.faces) (forceParams K.base s.tvol)) = force
  unfold ofState
  simp only [StateR.mk.injEq, Cell.mk.injEq, true_and, and_true]
  refine ⟨?_, rfl⟩
  apply Array.ext_getElem?
  intro i
  simp only [Array.getElem?_mapIdx, Array.getElem?_map, Array.getElem?_range, State.nn, Array.size_map, Array.size_range]
  by_cases hi : i < s.pos.arr.size
  · simp only [hi, if_true, Option.map_some, Slots.get, Array.getElem?_map, Array.getElem?_range]
  · simp only [hi, if_false, Option.map_none]

theorem posOf_ofState (s : Pipeline.State R) (E : EdgeSet) (g : Nat → V3 R × R) (n : Int) {i : Nat} (hi : i < s.nn) :
    posOf (ofState s E g n).cell i = s.pos.get i := by
  unfold posOf
  rw [ofState_getNode, if_pos hi]

theorem normSq_sub_comm (a b : V3 R) : V3.normSq (a - b) = V3.normSq (b - a) := by
  simp only [V3.normSq_def, V3.sub_x, V3.sub_y, V3.sub_z]; ring

/-- the band hypothesis of `cellIterationR_ofState` from the domain test `inBand` of Model/Pipeline.lean, when every edge of the
    index is a side of a face -/
theorem band_of_inBand (K : ConstsR R) (s : Pipeline.State R) (E : EdgeSet) (g : Nat → V3 R × R) (n : Int)
    (hlt : ∀ f ∈ s.faces, f.a < s.nn ∧ f.b < s.nn ∧ f.c < s.nn)
    (hside : ∀ e ∈ E, ∃ f ∈ s.faces, (e.n1, e.n2) ∈ f.sides ∨ (e.n2, e.n1) ∈ f.sides)
    (hin : Pipeline.inBand K.base s = true) :
    ∀ e ∈ E, ¬ lmaxSq K < C11.len2 (ofState s E g n).cell e ∧ ¬ C11.len2 (ofState s E g n).cell e < lminSq K := by
  intro e he
  obtain ⟨f, hf, hs⟩ := hside e he
  have hb := hlt f hf
  unfold Pipeline.inBand at hin
  have hfb := List.all_eq_true.1 (List.all_eq_true.1 hin f hf)
  have hmem : ∀ p ∈ f.sides, p.1 < s.nn ∧ p.2 < s.nn := by
    intro p hp
    simp only [Face.sides, List.mem_cons, List.mem_nil_iff, or_false] at hp
    rcases hp with rfl | rfl | rfl
    · exact ⟨hb.1, hb.2.1⟩
    · exact ⟨hb.2.1, hb.2.2⟩
    · exact ⟨hb.2.2, hb.1⟩
  have key : ∀ u v, u < s.nn → v < s.nn → Pipeline.edgeInBand K.base s.pos.get u v = true →
      ¬ lmaxSq K < V3.normSq (s.pos.get u - s.pos.get v) ∧ ¬ V3.normSq (s.pos.get u - s.pos.get v) < lminSq K := by
    intro u v _ _ h
    unfold Pipeline.edgeInBand at h
    simp only [Bool.and_eq_true, Bool.not_eq_true', decide_eq_false_iff_not] at h
    exact ⟨h.1, h.2⟩
  unfold C11.len2
  rcases hs with hs | hs
  · have hlt2 := hmem _ hs
    rw [posOf_ofState s E g n hlt2.1, posOf_ofState s E g n hlt2.2]
    exact key _ _ hlt2.1 hlt2.2 (hfb _ hs)
  · have hlt2 := hmem _ hs
    rw [posOf_ofState s E g n hlt2.2, posOf_ofState s E g n hlt2.1, normSq_sub_comm]
    exact key _ _ hlt2.1 hlt2.2 (hfb _ hs)

end Simu.PipelineR
