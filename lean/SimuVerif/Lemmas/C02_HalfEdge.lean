import SimuVerif.Lemmas.C02_Vec
import SimuVerif.Model.Forces
/-
  C02 — closed oriented triangulated surfaces as lists of faces: the half-edge list, `Closed`
  (every half-edge has its opposite: the swapped list is a permutation of the list), `Simple`
  (no half-edge twice), and the fact every "the sum over a closed surface vanishes" statement
  reduces to: an antisymmetric function summed over the half-edges of a closed surface is zero.
-/
set_option linter.unusedSimpArgs false
namespace Simu.Forces
open Simu
set_option linter.unusedSectionVars false
variable {R : Type} [Field R] [LinearOrder R] [IsStrictOrderedRing R]

/-- the directed sides of all faces -/
def he (F : List Face) : List (Nat × Nat) := F.flatMap Face.sides

/-- every half-edge `(a,b)` is matched by a half-edge `(b,a)`, with multiplicity -/
def Closed (F : List Face) : Prop := ((he F).map Prod.swap).Perm (he F)

/-- no directed side occurs twice (consistent orientation, edges shared by at most two faces) -/
def Simple (F : List Face) : Prop := (he F).Nodup

/-- the three nodes of every face are distinct -/
def NonDeg (F : List Face) : Prop := ∀ f ∈ F, f.a ≠ f.b ∧ f.b ≠ f.c ∧ f.c ≠ f.a

instance (F : List Face) : Decidable (Closed F) := by unfold Closed; infer_instance
instance (F : List Face) : Decidable (Simple F) := by unfold Simple; infer_instance
instance (F : List Face) : Decidable (NonDeg F) := by unfold NonDeg; infer_instance

theorem he_cons (f : Face) (F : List Face) : he (f :: F) = f.sides ++ he F := by
  simp [he]

theorem sum_swap_neg (hs : List (Nat × Nat)) (g : Nat → Nat → R) (hg : ∀ i j, g j i = - g i j) :
    ((hs.map Prod.swap).map (fun e => g e.1 e.2)).sum = - (hs.map (fun e => g e.1 e.2)).sum := by
  induction hs with
  | nil => simp
  | cons e es ih =>
    simp only [List.map_cons, List.sum_cons, Prod.fst_swap, Prod.snd_swap, ih, hg e.1 e.2]
    ring

/-- an antisymmetric scalar function summed over a swap-closed list of pairs vanishes -/
theorem antisym_sum_zero (hs : List (Nat × Nat)) (g : Nat → Nat → R)
    (hg : ∀ i j, g j i = - g i j) (hclosed : (hs.map Prod.swap).Perm hs) :
    (hs.map (fun e => g e.1 e.2)).sum = 0 := by
  have h1 := (hclosed.map (fun e => g e.1 e.2)).sum_eq
  rw [sum_swap_neg hs g hg] at h1
  linarith

/-- the same for vector-valued functions -/
theorem antisym_vsum_zero (hs : List (Nat × Nat)) (g : Nat → Nat → V3 R)
    (hg : ∀ i j, g j i = - g i j) (hclosed : (hs.map Prod.swap).Perm hs) :
    (hs.map (fun e => g e.1 e.2)).sum = 0 := by
  apply V3.ext'
  · rw [V3.sum_x, List.map_map]
    exact antisym_sum_zero hs (fun i j => (g i j).x) (fun i j => by simp [hg i j]) hclosed
  · rw [V3.sum_y, List.map_map]
    exact antisym_sum_zero hs (fun i j => (g i j).y) (fun i j => by simp [hg i j]) hclosed
  · rw [V3.sum_z, List.map_map]
    exact antisym_sum_zero hs (fun i j => (g i j).z) (fun i j => by simp [hg i j]) hclosed

/-- a sum over the faces of (g over the three sides) is the sum of g over the half-edges -/
theorem sum_faces_sides (F : List Face) (g : Nat → Nat → V3 R) :
    (F.map (fun f => g f.a f.b + g f.b f.c + g f.c f.a)).sum = ((he F).map (fun e => g e.1 e.2)).sum := by
  induction F with
  | nil => simp [he]
  | cons f t ih =>
    rw [he_cons]
    simp only [List.map_cons, List.sum_cons, List.map_append, List.sum_append, ih, Face.sides,
      List.map_nil, List.sum_nil]
    abel

theorem closed_vsum_zero (F : List Face) (hc : Closed F) (g : Nat → Nat → V3 R)
    (hg : ∀ i j, g j i = - g i j) :
    (F.map (fun f => g f.a f.b + g f.b f.c + g f.c f.a)).sum = 0 := by
  rw [sum_faces_sides]; exact antisym_vsum_zero _ g hg hc

/-- in a closed surface every side has its opposite -/
theorem closed_mem_swap (F : List Face) (hc : Closed F) {a b : Nat} (h : (a, b) ∈ he F) : (b, a) ∈ he F := by
  have : (b, a) ∈ (he F).map Prod.swap := List.mem_map.mpr ⟨(a, b), h, rfl⟩
  exact hc.mem_iff.mp this

/-! ### the edge set: orientation of the two faces of a hinge -/

/-- the face is the triangle `u v w` up to a cyclic rotation -/
def CycOf (f : Face) (u v w : Nat) : Prop :=
  (f.a = u ∧ f.b = v ∧ f.c = w) ∨ (f.a = v ∧ f.b = w ∧ f.c = u) ∨ (f.a = w ∧ f.b = u ∧ f.c = v)

/-- the two faces of the hinge traverse the edge `n1 n2` in opposite directions, and `n3`, `n4`
    are their third nodes -/
def HingeOriented (h : Hinge) : Prop :=
  (CycOf h.f1 h.n1 h.n2 h.n3 ∧ CycOf h.f2 h.n2 h.n1 h.n4) ∨
  (CycOf h.f1 h.n2 h.n1 h.n3 ∧ CycOf h.f2 h.n1 h.n2 h.n4)

theorem sides_sub_he {F : List Face} {g : Face} (hg : g ∈ F) {e : Nat × Nat} (he' : e ∈ g.sides) : e ∈ he F :=
  List.mem_flatMap.mpr ⟨g, hg, he'⟩

/-- a face with distinct nodes that has the nodes `u ≠ v` but not the side `(u,v)` is `v u w`
    up to rotation, `w` being what `get_opposite_node` returns -/
theorem cyc_of_hasNodes_not_side (g : Face) (u v lo hi : Nat) (hd : g.a ≠ g.b ∧ g.b ≠ g.c ∧ g.c ≠ g.a)
    (huv : u ≠ v) (hn : g.hasNodes u v = true) (hs : (u, v) ∉ g.sides)
    (hlh : (lo = u ∧ hi = v) ∨ (lo = v ∧ hi = u)) : CycOf g v u (g.opposite lo hi) := by
  obtain ⟨a, b, c, ty⟩ := g
  simp only [Face.hasNodes, Face.sides, Face.opposite, CycOf, Bool.and_eq_true, Bool.or_eq_true, beq_iff_eq,
    List.mem_cons, Prod.mk.injEq, List.not_mem_nil, or_false, not_or, not_and] at *
  obtain ⟨hab, hbc, hca⟩ := hd
  obtain ⟨hu, hv⟩ := hn
  obtain ⟨s1, s2, s3⟩ := hs
  rcases hlh with ⟨rfl, rfl⟩ | ⟨rfl, rfl⟩ <;>
  rcases hu with (rfl | rfl) | rfl <;> rcases hv with (rfl | rfl) | rfl <;>
  simp_all <;> omega

/-- a face with distinct nodes is `u v w` up to rotation for each of its sides `(u,v)` -/
theorem cyc_of_side (f : Face) (u v lo hi : Nat) (hd : f.a ≠ f.b ∧ f.b ≠ f.c ∧ f.c ≠ f.a)
    (hs : (u, v) ∈ f.sides) (hlh : (lo = u ∧ hi = v) ∨ (lo = v ∧ hi = u)) :
    CycOf f u v (f.opposite lo hi) := by
  obtain ⟨a, b, c, ty⟩ := f
  simp only [Face.sides, Face.opposite, CycOf, List.mem_cons, Prod.mk.injEq, List.not_mem_nil, or_false] at *
  obtain ⟨hab, hbc, hca⟩ := hd
  rcases hlh with ⟨rfl, rfl⟩ | ⟨rfl, rfl⟩ <;>
  rcases hs with ⟨rfl, rfl⟩ | ⟨rfl, rfl⟩ | ⟨rfl, rfl⟩ <;>
  simp_all <;> omega

/-- every hinge of a simple surface with non-degenerate faces is consistently oriented -/
theorem hinges_oriented (F : List Face) (hs : Simple F) (hd : NonDeg F) :
    ∀ h ∈ hinges F, HingeOriented h := by
  induction F with
  | nil => intro h hh; simp [hinges] at hh
  | cons f rest ih =>
    intro h hh
    have hs' : Simple rest := by
      unfold Simple at hs ⊢; rw [he_cons] at hs; exact (List.nodup_append.mp hs).2.1
    have hd' : NonDeg rest := fun g hg => hd g (List.mem_cons_of_mem _ hg)
    simp only [hinges, List.mem_append, List.mem_filterMap] at hh
    rcases hh with ⟨s, hsf, hsome⟩ | hh
    · -- a hinge between `f` and a later face `g`
      obtain ⟨u, v⟩ := s
      simp only [Option.map_eq_some_iff] at hsome
      obtain ⟨g, hfind, rfl⟩ := hsome
      have hgmem : g ∈ rest := List.mem_of_find?_eq_some hfind
      have hgn : g.hasNodes u v = true := by simpa using List.find?_some hfind
      have hfd := hd f (List.mem_cons_self)
      have hgd := hd g (List.mem_cons_of_mem _ hgmem)
      have huv : u ≠ v := by
        obtain ⟨a, b, c, ty⟩ := f
        simp only [Face.sides, List.mem_cons, Prod.mk.injEq, List.not_mem_nil, or_false] at hsf
        rcases hsf with ⟨rfl, rfl⟩ | ⟨rfl, rfl⟩ | ⟨rfl, rfl⟩
        · exact hfd.1
        · exact hfd.2.1
        · exact hfd.2.2
      have hnot : (u, v) ∉ g.sides := by
        intro hin
        unfold Simple at hs; rw [he_cons] at hs
        exact (List.nodup_append.mp hs).2.2 _ hsf _ (sides_sub_he hgmem hin) rfl
      unfold HingeOriented mkHinge
      by_cases hlt : u < v
      · simp only [hlt, if_true]
        left
        exact ⟨cyc_of_side f u v u v hfd hsf (Or.inl ⟨rfl, rfl⟩),
               cyc_of_hasNodes_not_side g u v u v hgd huv hgn hnot (Or.inl ⟨rfl, rfl⟩)⟩
      · simp only [hlt, if_false]
        right
        exact ⟨cyc_of_side f u v v u hfd hsf (Or.inr ⟨rfl, rfl⟩),
               cyc_of_hasNodes_not_side g u v v u hgd huv hgn hnot (Or.inr ⟨rfl, rfl⟩)⟩
    · exact ih hs' hd' h hh

theorem hingesSorted_mem (F : List Face) (h : Hinge) : h ∈ hingesSorted F ↔ h ∈ hinges F := by
  unfold hingesSorted; exact List.mem_mergeSort

/-- in a closed surface every side of every face is the edge of a hinge or its reverse is -/
theorem closed_side_has_partner (F : List Face) (hc : Closed F) (f : Face) (hf : f ∈ F) (u v : Nat)
    (hs : (u, v) ∈ f.sides) : ∃ g ∈ F, (v, u) ∈ g.sides := by
  have := closed_mem_swap F hc (sides_sub_he hf hs)
  obtain ⟨g, hg, hin⟩ := List.mem_flatMap.mp this
  exact ⟨g, hg, hin⟩

end Simu.Forces
