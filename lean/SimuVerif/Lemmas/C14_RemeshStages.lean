import SimuVerif.Lemmas.RemeshTranslate
import SimuVerif.Properties.C14
import SimuVerif.Model.PipelineR
/-
  C14 — the stages of the assembled iteration WITH remeshing (`Model/PipelineR.lean`) commute with translations:
  `saveMesh` (rebase), `faceTypes`, `refine` (from `Remesh.refineMesh_translate`), the force / integration stage (C02 + C03
  stage facts on the slot representation), the domain predicate, and n iterations.
-/
set_option linter.unusedSectionVars false
set_option linter.unusedVariables false
set_option linter.unusedSimpArgs false
namespace Simu.PipelineR
open Simu Simu.Forces Simu.Remesh

/-! ### closedness decided by sorting -/

theorem mergeF_perm : ∀ (f : Nat) (l r : List (Nat × Nat)), (mergeF f l r).Perm (l ++ r)
  | 0, l, r => by unfold mergeF; exact List.Perm.refl _
  | f + 1, [], r => by unfold mergeF; exact List.Perm.refl _
  | f + 1, a :: l, [] => by unfold mergeF; simp
  | f + 1, a :: l, b :: r => by
    unfold mergeF
    split
    · exact (mergeF_perm f l (b :: r)).cons a
    · have h := (mergeF_perm f (a :: l) r).cons b
      refine h.trans ?_
      exact (List.perm_middle (a := b) (l₁ := a :: l) (l₂ := r)).symm

theorem sortF_perm : ∀ (f : Nat) (l : List (Nat × Nat)), (sortF f l).Perm l
  | 0, l => by unfold sortF; exact List.Perm.refl _
  | f + 1, l => by
    unfold sortF
    split
    · exact List.Perm.refl _
    · refine (mergeF_perm _ _ _).trans ?_
      have h := (sortF_perm f (l.take (l.length / 2))).append (sortF_perm f (l.drop (l.length / 2)))
      rw [List.take_append_drop] at h
      exact h

theorem closed_of_closedB {F : List Forces.Face} (h : closedB F = true) : Forces.Closed F := by
  unfold closedB at h
  have h' : sortF (3 * F.length) ((F.flatMap Face.sides).map Prod.swap) = sortF (3 * F.length) (F.flatMap Face.sides) := by
    simpa using h
  unfold Forces.Closed Forces.he
  have h1 := (sortF_perm (3 * F.length) ((F.flatMap Face.sides).map Prod.swap)).symm
  rw [h'] at h1
  exact h1.trans (sortF_perm _ _)


variable {R : Type} [Field R] [LinearOrder R] [IsStrictOrderedRing R]

/-! ### the translated state -/

theorem slots_translate (t : V3 R) (c : Cell R) : slots (translateCell t c) = slots c := rfl
theorem edgeRecs_translate (t : V3 R) (c : Cell R) : edgeRecs (translateCell t c) = edgeRecs c := rfl
theorem liveF_translate (t : V3 R) (c : Cell R) : liveF (translateCell t c) = liveF c := rfl

theorem find_used_map (t : V3 R) (l : List (Node R)) :
    (l.map (trNode t)).find? (fun n => n.used) = (l.find? (fun n => n.used)).map (trNode t) := by
  induction l with
  | nil => rfl
  | cons n rest ih =>
    simp only [List.map_cons, List.find?_cons, trNode_used]
    cases n.used with
    | true => rfl
    | false => exact ih

/-- the totalised position lookup moves with the cell (when there is a used node at all) -/
theorem posT_translate (t : V3 R) (c : Cell R) (h : ∃ n ∈ c.nodes.toList, n.used = true) :
    posT (translateCell t c) = fun i => posT c i + t := by
  have ha : anchor (translateCell t c) = anchor c + t := by
    unfold anchor
    rw [tr_nodes, Array.toList_map, find_used_map]
    cases hf : c.nodes.toList.find? (fun n => n.used) with
    | none =>
      obtain ⟨n, hn, hu⟩ := h
      have := List.find?_eq_none.1 hf n hn
      simp [hu] at this
    | some n =>
      have hu : n.used = true := by simpa using List.find?_some hf
      simp only [Option.map_some, trNode_pos_of_used t hu]
  funext i
  unfold posT
  rw [tr_getNode, ha]
  cases c.nodes[i]? with
  | none => rfl
  | some n =>
    simp only [Option.map_some, trNode_used]
    cases hu : n.used with
    | true => simp only [if_true, trNode_pos_of_used t hu]
    | false => simp only [Bool.false_eq_true, if_false]

/-- … and when no slot is used, nothing moves -/
theorem posT_translate_none (t : V3 R) (c : Cell R) (h : ¬ ∃ n ∈ c.nodes.toList, n.used = true) :
    translateCell t c = c := by
  unfold translateCell
  cases c with
  | mk nodes faces edges fn ff =>
    simp only [Cell.mk.injEq, and_true]
    apply Array.ext_getElem?
    intro i
    simp only [Array.getElem?_map]
    cases hq : nodes[i]? with
    | none => rfl
    | some n =>
      have hm : n ∈ nodes.toList := by
        have := Array.mem_of_getElem? hq
        simpa using this
      have hu : n.used = false := by
        cases hh : n.used with
        | false => rfl
        | true => exact absurd ⟨n, hm, hh⟩ h
      simp only [Option.map_some, trNode_of_unused t hu]


/-! ### steps 7–8 -/

theorem internalContribsSlots_tr (fx : FX R) (x : Nat → V3 R) (S : List Forces.Slot) (E : List Forces.EdgeRec)
    (p : Forces.Params R) (hc : Forces.Closed (liveFaces S)) (t : V3 R) :
    internalContribsSlots fx (fun i => x i + t) S E p = internalContribsSlots fx x S E p := by
  simp only [internalContribsSlots, prelude_tr fx x (liveFaces S) p hc t, pressureContribs, tensionContribs,
    bendingContribsOf, angleContribs, faceGeom_tr, tensionFace_tr, angleFace_tr, bendingHinge_tr]

theorem refreshGeom_translate (fx : FX R) (t : V3 R) (c : Cell R) (hu : ∃ n ∈ c.nodes.toList, n.used = true) :
    refreshGeom fx (translateCell t c) = translateCell t (refreshGeom fx c) := by
  unfold refreshGeom
  simp only [posT_translate t c hu, faceGeom_tr, tr_faces]
  rfl

theorem sameNodes_refresh (fx : FX R) (c : Cell R) : (refreshGeom fx c).freeNodes = c.freeNodes := rfl

theorem forceStage_translate (fx : FX R) (K : ConstsR R) (s : StateR R) (t : V3 R)
    (hc : Forces.Closed (liveF s.cell)) (hu : ∃ n ∈ s.cell.nodes.toList, n.used = true) :
    forceStage fx K (translateR t s) = translateR t (forceStage fx K s) := by
  have hcS : Forces.Closed (liveFaces (slots s.cell)) := hc
  unfold forceStage translateR
  simp only [liveF_translate, slots_translate, edgeRecs_translate, posT_translate t _ hu,
    prelude_tr fx (posT s.cell) (liveF s.cell) _ hc t, internalContribsSlots_tr fx (posT s.cell) _ _ _ hcS t,
    tr_nodes_size, tr_freeNodes, refreshGeom_translate fx t _ hu]
  generalize Gen.nodeMass K.base.density (prelude fx (posT s.cell) (liveF s.cell) (Pipeline.forceParams K.base s.tvol)).volume
    (Gen.nbNodes s.cell.nodes.size s.cell.freeNodes.length) = m
  generalize accumulate s.cell.nodes.size (internalContribsSlots fx (posT s.cell) (slots s.cell) (edgeRecs s.cell)
    (Pipeline.forceParams K.base s.tvol)) = force
  congr 1
  unfold translateCell
  simp only [Cell.mk.injEq, and_true]
  apply Array.ext_getElem?
  intro i
  simp only [Array.getElem?_mapIdx, Array.getElem?_map, Option.map_map]
  cases s.cell.nodes[i]? with
  | none => rfl
  | some n =>
    simp only [Option.map_some, Function.comp]
    congr 1
    cases hu : n.used with
    | false => simp only [trNode_of_unused t hu, hu, Bool.false_eq_true, if_false]
    | true =>
      simp only [trNode_of_used t hu, hu, if_true, C14.single10_translate]
      rw [trNode_of_used t rfl]

/-! ### steps 1, 3, 4 -/

theorem saveMesh_translate (fn : Fn R) (K : ConstsR R) (s : StateR R) (t : V3 R) :
    saveMesh fn K (translateR t s) = (saveMesh fn K s).map (translateR t) := by
  unfold saveMesh translateR
  simp only []
  by_cases h : Gen.saveCond (Gen.fileNumber fn s.time K.samplingPeriod) s.fileNo = true
  · simp only [h, if_true, rebase_translate]
    cases rebase s.cell with
    | error e => rfl
    | ok c => rfl
  · simp only [h, if_false]
    rfl

theorem faceTypes_translate (K : ConstsR R) (c : Cell R) (t : V3 R) :
    faceTypes K (translateCell t c) = translateCell t (faceTypes K c) := by
  unfold faceTypes
  cases K.base.epithelial <;> rfl

theorem refineResult_translate (t : V3 R) (r : Cell R × Outcome × List (Bool × Nat × Nat × R)) :
    refineResult (trResult t r) = (refineResult r).map (translateCell t) := by
  obtain ⟨c, o, l⟩ := r
  unfold refineResult trResult
  cases o <;> rfl

theorem refine_translate (fn : Fn R) (K : ConstsR R) (c : Cell R) (t : V3 R)
    (hl : refineLive fn (Gen.refineConsts fn) (lminSq K) (lmaxSq K) K.swapOn c K.maxIter = true) :
    refine fn K (translateCell t c) = (refine fn K c).map (translateCell t) := by
  unfold refine
  rw [Remesh.refineMesh_translate_gen t fn _ _ _ c _ hl, refineResult_translate]

theorem refineLiveR_translate (fn : Fn R) (K : ConstsR R) (s : StateR R) (t : V3 R) :
    refineLiveR fn K (translateR t s) = refineLiveR fn K s := by
  unfold refineLiveR
  rw [saveMesh_translate]
  cases saveMesh fn K s with
  | error e => rfl
  | ok s1 =>
    show refineLive fn _ _ _ _ (faceTypes K (translateCell t s1.cell)) _ = _
    rw [faceTypes_translate, Remesh.refineLive_translate_gen]

theorem meshStage_translate (fn : Fn R) (K : ConstsR R) (s : StateR R) (t : V3 R) (hl : refineLiveR fn K s = true) :
    meshStage fn K (translateR t s) = (meshStage fn K s).map (translateR t) := by
  unfold meshStage
  rw [saveMesh_translate]
  unfold refineLiveR at hl
  cases hs : saveMesh fn K s with
  | error e => rfl
  | ok s1 =>
    rw [hs] at hl
    show (refine fn K (faceTypes K (translateCell t s1.cell))).map _ = _
    rw [faceTypes_translate, refine_translate fn K _ t hl]
    show _ = Except.map (translateR t) (Except.map _ (refine fn K (faceTypes K s1.cell)))
    cases refine fn K (faceTypes K s1.cell) with
    | error e => rfl
    | ok c => rfl

/-! ### the domain -/

theorem tr_liveCell (t : V3 R) (c : Cell R) : liveCell (translateCell t c) = liveCell c := by
  have h1 : fUsed (translateCell t c) = fUsed c := funext (tr_fUsed t c)
  have h2 : edgeLive (translateCell t c) = edgeLive c := funext (tr_edgeLive t c)
  simp only [liveCell, tr_faces, tr_edges, h1, h2]

theorem tr_hasNode (t : V3 R) (c : Cell R) : hasNode (translateCell t c) = hasNode c := by
  unfold hasNode
  rw [tr_nodes, Array.toList_map, List.any_map]
  congr 1
  funext n
  exact trNode_used t n

theorem meshOk_translate (t : V3 R) (c : Cell R) : meshOk (translateCell t c) = meshOk c := by
  unfold meshOk
  rw [tr_liveCell, tr_hasNode]
  rfl

theorem hasNode_iff {c : Cell R} : hasNode c = true ↔ ∃ n ∈ c.nodes.toList, n.used = true := by
  unfold hasNode
  rw [List.any_eq_true]

theorem meshOk_closed {c : Cell R} (h : meshOk c = true) :
    Forces.Closed (liveF c) ∧ ∃ n ∈ c.nodes.toList, n.used = true := by
  unfold meshOk at h
  simp only [Bool.and_eq_true] at h
  exact ⟨closed_of_closedB h.1.2, hasNode_iff.1 h.2⟩

theorem belowMinR_translate (fx : FX R) (K : ConstsR R) (s : StateR R) (t : V3 R)
    (hc : Forces.Closed (liveF s.cell)) (hu : ∃ n ∈ s.cell.nodes.toList, n.used = true) :
    belowMinR fx K (translateR t s) = belowMinR fx K s := by
  unfold belowMinR translateR
  simp only [liveF_translate, posT_translate t _ hu, prelude_tr fx (posT s.cell) (liveF s.cell) _ hc t]

/-- **one whole solver iteration of a free cell, remeshing included, commutes with the translation** -/
theorem cellIterationR_translate (fn : Fn R) (fx : FX R) (K : ConstsR R) (s : StateR R) (t : V3 R)
    (hok : stepOkR fn fx K s = true) :
    cellIterationR fn fx K (translateR t s) = (cellIterationR fn fx K s).map (translateR t) := by
  unfold stepOkR stepOkFrom at hok
  simp only [Bool.and_eq_true] at hok
  obtain ⟨⟨_, hl⟩, hm⟩ := hok
  unfold cellIterationR
  rw [meshStage_translate fn K s t hl]
  cases hs : meshStage fn K s with
  | error e => rfl
  | ok s1 =>
    rw [hs] at hm
    simp only [Bool.and_eq_true] at hm
    obtain ⟨hc, hu⟩ := meshOk_closed hm.1
    show Except.ok (forceStage fx K (translateR t s1)) = Except.ok (translateR t (forceStage fx K s1))
    rw [forceStage_translate fx K s1 t hc hu]

/-- **the domain predicate is the same statement about the translated state** -/
theorem stepOkR_translate (fn : Fn R) (fx : FX R) (K : ConstsR R) (s : StateR R) (t : V3 R) :
    stepOkR fn fx K (translateR t s) = stepOkR fn fx K s := by
  unfold stepOkR stepOkFrom
  rw [refineLiveR_translate]
  have hr : readyR K (translateR t s) = readyR K s := rfl
  rw [hr]
  cases hl : refineLiveR fn K s with
  | false => simp only [Bool.and_false, Bool.false_and]
  | true =>
    rw [meshStage_translate fn K s t hl]
    cases hs : meshStage fn K s with
    | error e => rfl
    | ok s1 =>
      show (!readyR K s && true && (meshOk (translateCell t s1.cell) && !belowMinR fx K (translateR t s1)))
        = (!readyR K s && true && (meshOk s1.cell && !belowMinR fx K s1))
      rw [meshOk_translate]
      cases hm : meshOk s1.cell with
      | false => simp only [Bool.false_and]
      | true =>
        obtain ⟨hc, hu⟩ := meshOk_closed hm
        rw [belowMinR_translate fx K s1 t hc hu]

/-! ### any number of iterations -/

theorem runOkR_translate (fn : Fn R) (fx : FX R) (K : ConstsR R) (n : Nat) : ∀ (s : StateR R) (t : V3 R),
    runOkR fn fx K n (translateR t s) = runOkR fn fx K n s := by
  induction n with
  | zero => intro s t; rfl
  | succ k ih =>
    intro s t
    unfold runOkR
    rw [stepOkR_translate]
    cases hok : stepOkR fn fx K s with
    | false => simp only [Bool.false_and]
    | true =>
      rw [cellIterationR_translate fn fx K s t hok]
      cases cellIterationR fn fx K s with
      | error e => rfl
      | ok s' => exact congrArg _ (ih s' t)

theorem cellRunR_translate (fn : Fn R) (fx : FX R) (K : ConstsR R) (n : Nat) : ∀ (s : StateR R) (t : V3 R),
    runOkR fn fx K n s = true →
    runR fn fx K n (translateR t s) = (runR fn fx K n s).map (translateR t) := by
  induction n with
  | zero => intro s t _; rfl
  | succ k ih =>
    intro s t hok
    unfold runOkR at hok
    simp only [Bool.and_eq_true] at hok
    unfold runR
    rw [cellIterationR_translate fn fx K s t hok.1]
    cases hc : cellIterationR fn fx K s with
    | error e => rfl
    | ok s' =>
      have h2 := hok.2
      rw [hc] at h2
      exact ih s' t h2

end Simu.PipelineR
