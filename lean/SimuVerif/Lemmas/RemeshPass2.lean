import SimuVerif.Lemmas.RemeshPass1
/-
  Whole passes of `refine_mesh`, part 2: `split_edge` keeps the node store and the check set consistent.

  `splitEdge_run` reads the code once and records what it did (`SplitRun`: the two deleted slots, the four new slots and
  their triangles, the node store, the check set as four `emplace`s followed by four `replace_face`s); everything else is
  derived from that record.
-/
set_option linter.unusedSectionVars false
set_option linter.unusedVariables false
set_option linter.unusedSimpArgs false
namespace Simu.Remesh
open Simu Simu.Surface
open Simu.C11 (bind_ok newSlot updF)

section
variable {R : Type} [Add R] [Sub R] [Mul R] [Div R] [Neg R] [Lit R] [LT R] [LE R] [DecidableLT R]
  [DecidableLE R] [DecidableEq R]

/-! ## 1. single slots through `add_face` / `delete_face` -/

theorem slot_add {c c' : Cell R} {fid : Nat} {t : Tri} (A : AddRes c c' fid t) {g : Nat} {u : Tri}
    (h : (slots c')[g]? = some (some u)) : (g = fid ∧ u = t) ∨ (g ≠ fid ∧ (slots c)[g]? = some (some u)) := by
  by_cases hg : g = fid
  · subst hg
    rw [A.got] at h
    exact Or.inl ⟨rfl, by cases h; rfl⟩
  · rw [A.other g hg] at h
    exact Or.inr ⟨hg, h⟩

theorem slot_del {c c' : Cell R} {fid : Nat} {t : Tri} (D : DelRes c c' fid t) {g : Nat} {u : Tri}
    (h : (slots c')[g]? = some (some u)) : g ≠ fid ∧ (slots c)[g]? = some (some u) := by
  rw [D.slots_eq, List.getElem?_set] at h
  by_cases hg : fid = g
  · rw [if_pos hg] at h
    split at h <;> cases h
  · rw [if_neg hg] at h
    exact ⟨fun e => hg e.symm, h⟩

theorem slot_del_other {c c' : Cell R} {fid : Nat} {t : Tri} (D : DelRes c c' fid t) {g : Nat} (hg : g ≠ fid) :
    (slots c')[g]? = (slots c)[g]? := by
  rw [D.slots_eq, List.getElem?_set_ne (Ne.symm hg)]

theorem nodes_setFaceType (c : Cell R) (fid t : Nat) :
    (setFaceType c fid t).nodes = c.nodes ∧ (setFaceType c fid t).freeNodes = c.freeNodes := by
  obtain ⟨fs, h, _⟩ := setFaceType_eq c fid t
  rw [h]; exact ⟨rfl, rfl⟩

/-- the two `add_face` calls of one side of `split_edge` -/
theorem two_addFace_run {fn : Fn R} {c c2 : Cell R} {o : Bool} {p q r s t u v w x y z a' f3 f5 : Nat}
    (h : (if o = true then do
              let __x ← addFace fn c p q r
              match __x with
                | (c, f3) => do
                  let __x ← addFace fn c s t u
                  match __x with
                    | (c, f5) => pure (c, f3, f5)
            else do
              let __x ← addFace fn c v w x
              match __x with
                | (c, f3) => do
                  let __x ← addFace fn c y z a'
                  match __x with
                    | (c, f5) => pure (c, f3, f5) : Except Err (Cell R × Nat × Nat)) = .ok (c2, f3, f5))
    (hf : FaceFreeOk c) :
    ∃ c1 u3 u5, AddRes c c1 f3 u3 ∧ AddRes c1 c2 f5 u5 ∧
      ((u3 = (p, q, r) ∧ u5 = (s, t, u)) ∨ (u3 = (v, w, x) ∧ u5 = (y, z, a'))) ∧ (FreeFull c → FreeFull c2) := by
  split at h
  · obtain ⟨⟨c1, g3⟩, h1, h⟩ := bind_ok h
    obtain ⟨⟨c2', g5⟩, h2, h⟩ := bind_ok h
    cases h
    have A1 := addFace_spec h1 hf
    exact ⟨c1, _, _, A1, addFace_spec h2 A1.ffo, Or.inl ⟨rfl, rfl⟩, fun hF => addFace_full h2 (addFace_full h1 hF)⟩
  · obtain ⟨⟨c1, g3⟩, h1, h⟩ := bind_ok h
    obtain ⟨⟨c2', g5⟩, h2, h⟩ := bind_ok h
    cases h
    have A1 := addFace_spec h1 hf
    exact ⟨c1, _, _, A1, addFace_spec h2 A1.ffo, Or.inr ⟨rfl, rfl⟩, fun hF => addFace_full h2 (addFace_full h1 hF)⟩

theorem isTri_mk {p q r : Nat} (h1 : p ≠ q) (h2 : p ≠ r) (h3 : q ≠ r) : IsTri (p, q, r) p q r :=
  ⟨h1, h2, h3, by simp [hasNode_iff], by simp [hasNode_iff], by simp [hasNode_iff]⟩

theorem IsTri.rot {t : Tri} {v x y : Nat} (h : IsTri t v x y) : IsTri t x y v :=
  ⟨h.2.2.1, Ne.symm h.1, Ne.symm h.2.1, h.2.2.2.2.1, h.2.2.2.2.2, h.2.2.2.1⟩

/-- `add_node` after the momenta of the two end nodes have been rewritten -/
theorem addNode_store_nodes {c : Cell R} {ns : Array (Node R)} {p m : V3 R} {c1 : Cell R} {ee : Nat}
    (hr : addNode ({ c with nodes := ns } : Cell R) p m = (c1, ee)) (hN : NodesOk c)
    (hsz : ns.size = c.nodes.size) (hu : ∀ j, usedA ns j = usedA c.nodes j) :
    (∀ j, usedN c1 j = (decide (j = newSlot c) || usedN c j)) ∧ c1.freeNodes = c.freeNodes.tail ∧
      (∀ j, j < c.nodes.size → j < c1.nodes.size) ∧ (∀ j, j < c1.nodes.size → j < c.nodes.size ∨ j = newSlot c) ∧
      c1.edges = c.edges ∧ c1.nodes.size = sizeAfterAdd c.freeNodes c.nodes.size := by
  have hN0 : NodesOk ({ c with nodes := ns } : Cell R) :=
    ⟨hN.nodup, fun i => by
      show i ∈ c.freeNodes ↔ (i < ns.size ∧ usedA ns i = false)
      rw [hsz, hu]; exact hN.free i,
     fun g t v hg hv => by
      show usedA ns v = true
      rw [hu]; exact hN.live g t v hg hv⟩
  have hnew : newSlot ({ c with nodes := ns } : Cell R) = newSlot c := by
    unfold newSlot; simp only [hsz]
  obtain ⟨a1, a2, a3, a4⟩ := addNode_nodes hN0 p m
  have h1 : c1 = (addNode ({ c with nodes := ns } : Cell R) p m).1 := by rw [hr]
  rw [← h1] at a1 a2 a3 a4
  rw [hnew] at a1 a4
  refine ⟨fun j => ?_, a2, fun j hj => a3 j (by show j < ns.size; rw [hsz]; exact hj), fun j hj => ?_, ?_, ?_⟩
  · rw [a1 j]; show (_ || usedA ns j) = _; rw [hu]; rfl
  · rcases a4 j hj with hh | hh
    · left; have : j < ns.size := hh; rw [hsz] at this; exact this
    · exact Or.inr hh
  · rw [h1]; exact edges_addNode _ _ _
  · rw [h1, addNode_size]; show sizeAfterAdd c.freeNodes ns.size = _; rw [hsz]

/-! ## 2. the record of one `split_edge` -/

/-- the four `emplace`s of `split_edge` into the check set -/
def ins4 (chk : CheckSet) (x1 x2 x3 x4 : Edge) : CheckSet :=
  (EdgeSet.insert (EdgeSet.insert (EdgeSet.insert (EdgeSet.insert chk x1).1 x2).1 x3).1 x4).1

structure SplitRun (c c' : Cell R) (e : Edge) (chk chk' : CheckSet)
    (g1 g2 cc dd f3 f5 f4 f6 : Nat) (t1 t2 u3 u5 u4 u6 : Tri) (eea eeb eec eed : Edge) : Prop where
  ef1 : e.f1 = some g1
  ef2 : e.f2 = some g2
  g12 : g1 ≠ g2
  s1 : (slots c)[g1]? = some (some t1)
  s2 : (slots c)[g2]? = some (some t2)
  T1 : IsTri t1 e.n1 e.n2 cc
  T2 : IsTri t2 e.n1 e.n2 dd
  U3 : IsTri u3 cc e.n1 (newSlot c)
  U5 : IsTri u5 cc (newSlot c) e.n2
  U4 : IsTri u4 dd e.n1 (newSlot c)
  U6 : IsTri u6 dd (newSlot c) e.n2
  n3 : (slots c')[f3]? = some (some u3)
  n5 : (slots c')[f5]? = some (some u5)
  n4 : (slots c')[f4]? = some (some u4)
  n6 : (slots c')[f6]? = some (some u6)
  fdist : f3 ≠ f5 ∧ f3 ≠ f4 ∧ f3 ≠ f6 ∧ f5 ≠ f4 ∧ f5 ≠ f6 ∧ f4 ≠ f6
  dead : ∀ f, (f = f3 ∨ f = f5 ∨ f = f4 ∨ f = f6) → ∀ u, (slots c)[f]? = some (some u) → (f = g1 ∨ f = g2)
  other : ∀ g, g ≠ f3 → g ≠ f5 → g ≠ f4 → g ≠ f6 →
    (slots c')[g]? = (((slots c).set g1 none).set g2 none)[g]?
  used : ∀ j, usedN c' j = (decide (j = newSlot c) || usedN c j)
  freeNodes : c'.freeNodes = c.freeNodes.tail
  size1 : ∀ j, j < c.nodes.size → j < c'.nodes.size
  size2 : ∀ j, j < c'.nodes.size → j < c.nodes.size ∨ j = newSlot c
  gea : getEdge c' (newSlot c) e.n1 = some eea
  geb : getEdge c' (newSlot c) e.n2 = some eeb
  gec : getEdge c' (newSlot c) cc = some eec
  ged : getEdge c' (newSlot c) dd = some eed
  chk_eq : chk' = updF (updF (updF (updF (ins4 chk eea eeb eec eed) e.n1 cc g1 f3) e.n2 cc g1 f5) e.n1 dd g2 f4)
    e.n2 dd g2 f6
  full : FreeFull c → FreeFull c'
  size_eq : c'.nodes.size = sizeAfterAdd c.freeNodes c.nodes.size

theorem splitEdge_run {fn : Fn R} {k : SplitConsts R} {c c' : Cell R} {e : Edge} {chk chk' : CheckSet}
    (h : splitEdge fn k c e chk = .ok (c', chk')) (hf : FaceFreeOk c) (hN : NodesOk c)
    (hab : e.n1 ≠ e.n2) (he : EdgeFaces c e e.n1 e.n2) :
    ∃ g1 g2 cc dd f3 f5 f4 f6 t1 t2 u3 u5 u4 u6 eea eeb eec eed,
      SplitRun c c' e chk chk' g1 g2 cc dd f3 f5 f4 f6 t1 t2 u3 u5 u4 u6 eea eeb eec eed := by
  have hfresh := hN.fresh
  obtain ⟨g1, g2, t1, t2, hg1, hg2, hg12, hs1, hs2, h1a, h1b, h2a, h2b⟩ := he
  unfold splitEdge at h
  simp only [] at h
  bok h with f1id, hf1id
  bok h with f2id, hf2id
  have e1 : e.f1 = some f1id := by opt_ok hf1id
  have e2 : e.f2 = some f2id := by opt_ok hf2id
  rw [hg1] at e1; cases e1
  rw [hg2] at e2; cases e2
  bok h with f1, hf1
  bok h with f2, hf2
  bok h with na, hna
  bok h with nb, hnb
  bok h with cc, hcc
  bok h with dd, hdd
  have hna' : c.nodes[e.n1]? = some na := by opt_ok hna
  have hnb' : c.nodes[e.n2]? = some nb := by opt_ok hnb
  have hsz : ((c.nodes.set! e.n1 { na with mom := na.mom * k.keep }).set! e.n2
      { nb with mom := nb.mom * k.keep }).size = c.nodes.size := by
    simp [Array.set!_eq_setIfInBounds]
  have hu : ∀ j, usedA ((c.nodes.set! e.n1 { na with mom := na.mom * k.keep }).set! e.n2
      { nb with mom := nb.mom * k.keep }) j = usedA c.nodes j := by
    intro j
    rw [usedA_set, usedA_set]
    have ua : usedA c.nodes e.n1 = na.used := by unfold usedA; rw [hna']
    have ub : usedA c.nodes e.n2 = nb.used := by unfold usedA; rw [hnb']
    by_cases hjb : j = e.n2
    · subst hjb
      split
      · exact ub.symm
      · rw [if_neg (fun hh => hab hh.1.symm)]
    · rw [if_neg (fun hh => hjb hh.1)]
      by_cases hja : j = e.n1
      · subst hja
        split
        · exact ua.symm
        · rfl
      · rw [if_neg (fun hh => hja hh.1)]
  generalize hr : addNode _ _ _ = r at h
  obtain ⟨c1, ee⟩ := r
  simp only [] at h
  obtain ⟨hS1, hF1, hE⟩ := addNode_store hr hsz
  obtain ⟨hU1, hFN1, hsz1, hsz2, hEd1, hszE⟩ := addNode_store_nodes hr hN hsz hu
  subst hE
  bok h with c2, h2
  bok h with c3, h3
  bok h with ⟨c4, f3, f5⟩, h4
  bok h with ⟨c5, f4, f6⟩, h5
  simp only [] at h
  bok h with eea, hea
  bok h with eeb, heb
  bok h with eec, hec
  bok h with eed, hed
  cases h
  have hf1' : c.faces[g1]? = some f1 := by opt_ok hf1
  have hf2' : c.faces[g2]? = some f2 := by opt_ok hf2
  have hcc' : oppositeNode f1 e.n1 e.n2 = some cc := by opt_ok hcc
  have hdd' : oppositeNode f2 e.n1 e.n2 = some dd := by opt_ok hdd
  obtain ⟨f, hfa, _, ht1⟩ := slot_some_iff.1 hs1
  rw [hf1'] at hfa; cases hfa
  obtain ⟨f, hfa, _, ht2⟩ := slot_some_iff.1 hs2
  rw [hf2'] at hfa; cases hfa
  subst ht1; subst ht2
  obtain ⟨hcca, hccb, hcc1⟩ := oppositeNode_some hcc'
  obtain ⟨hdda, hddb, hdd2⟩ := oppositeNode_some hdd'
  have na' := ne_of_fresh hfresh hs1 h1a
  have nb' := ne_of_fresh hfresh hs1 h1b
  have nc' := ne_of_fresh hfresh hs1 hcc1
  have nd' := ne_of_fresh hfresh hs2 hdd2
  have T1 : IsTri (f1.n1, f1.n2, f1.n3) e.n1 e.n2 cc := ⟨hab, Ne.symm hcca, Ne.symm hccb, h1a, h1b, hcc1⟩
  have T2 : IsTri (f2.n1, f2.n2, f2.n3) e.n1 e.n2 dd := ⟨hab, Ne.symm hdda, Ne.symm hddb, h2a, h2b, hdd2⟩
  -- the two deletions
  have ffo1 : FaceFreeOk c1 := hf.congr hS1 hF1
  have s1' : (slots c1)[g1]? = some (some (f1.n1, f1.n2, f1.n3)) := by rw [hS1]; exact hs1
  have D1 := deleteFace_spec h2 s1'
  have s2' : (slots c2)[g2]? = some (some (f2.n1, f2.n2, f2.n3)) := by
    rw [D1.slots_eq, List.getElem?_set_ne hg12, hS1]; exact hs2
  have D2 := deleteFace_spec h3 s2'
  have ffo3 : FaceFreeOk c3 := D2.ffo (D1.ffo ffo1)
  have hS3 : slots c3 = ((slots c).set g1 none).set g2 none := by rw [D2.slots_eq, D1.slots_eq, hS1]
  -- the four additions
  obtain ⟨c3a, u3, u5, A3, A5, hu35, full4⟩ := two_addFace_run h4 ffo3
  obtain ⟨c4a, u4, u6, A4, A6, hu46, full5⟩ := two_addFace_run h5 A5.ffo
  have U3 : IsTri u3 cc e.n1 (newSlot c) := by
    rcases hu35 with ⟨rfl, _⟩ | ⟨rfl, _⟩
    · exact isTri_mk hcca nc' na'
    · exact (isTri_mk nc' hcca (Ne.symm na')).swap
  have U5 : IsTri u5 cc (newSlot c) e.n2 := by
    rcases hu35 with ⟨_, rfl⟩ | ⟨_, rfl⟩
    · exact isTri_mk nc' hccb (Ne.symm nb')
    · exact (isTri_mk hccb nc' nb').swap
  have U4 : IsTri u4 dd e.n1 (newSlot c) := by
    rcases hu46 with ⟨rfl, _⟩ | ⟨rfl, _⟩
    · exact isTri_mk hdda nd' na'
    · exact (isTri_mk nd' hdda (Ne.symm na')).swap
  have U6 : IsTri u6 dd (newSlot c) e.n2 := by
    rcases hu46 with ⟨_, rfl⟩ | ⟨_, rfl⟩
    · exact isTri_mk nd' hddb (Ne.symm nb')
    · exact (isTri_mk hddb nd' nb').swap
  -- the four new slots are different
  have d53 : f5 ≠ f3 := fun he => A5.fresh u3 (by rw [he]; exact A3.got)
  have d45 : f4 ≠ f5 := fun he => A4.fresh u5 (by rw [he]; exact A5.got)
  have d43 : f4 ≠ f3 := fun he => A4.fresh u3 (by rw [he, A5.other f3 (Ne.symm d53)]; exact A3.got)
  have d64 : f6 ≠ f4 := fun he => A6.fresh u4 (by rw [he]; exact A4.got)
  have d65 : f6 ≠ f5 := fun he => A6.fresh u5 (by rw [he, A4.other f5 (Ne.symm d45)]; exact A5.got)
  have d63 : f6 ≠ f3 := fun he => A6.fresh u3 (by
    rw [he, A4.other f3 (Ne.symm d43), A5.other f3 (Ne.symm d53)]; exact A3.got)
  have hS' : ∀ g : Nat, (slots (setFaceType (setFaceType (setFaceType (setFaceType c5 f3 f1.typ) f4 f2.typ) f5 f1.typ) f6
      f2.typ))[g]? = (slots c5)[g]? := by
    intro g
    rw [slots_setFaceType, slots_setFaceType, slots_setFaceType, slots_setFaceType]
  have dead3 : ∀ (f : Nat) (u : Tri), (slots c3)[f]? ≠ some (some u) → (slots c)[f]? = some (some u) → (f = g1 ∨ f = g2) := by
    intro f u hn hs
    by_contra hc
    push Not at hc
    apply hn
    rw [hS3, List.getElem?_set_ne (Ne.symm hc.2), List.getElem?_set_ne (Ne.symm hc.1)]
    exact hs
  have hN1 : c5.nodes = c1.nodes := by
    rw [A6.nodes_eq, A4.nodes_eq, A5.nodes_eq, A3.nodes_eq, D2.nodes_eq, D1.nodes_eq]
  have hFN1' : c5.freeNodes = c1.freeNodes := by
    rw [A6.freeNodes_eq, A4.freeNodes_eq, A5.freeNodes_eq, A3.freeNodes_eq, D2.freeNodes_eq, D1.freeNodes_eq]
  have hNf : (setFaceType (setFaceType (setFaceType (setFaceType c5 f3 f1.typ) f4 f2.typ) f5 f1.typ) f6
      f2.typ).nodes = c1.nodes := by
    rw [(nodes_setFaceType _ _ _).1, (nodes_setFaceType _ _ _).1, (nodes_setFaceType _ _ _).1,
      (nodes_setFaceType _ _ _).1, hN1]
  have hFNf : (setFaceType (setFaceType (setFaceType (setFaceType c5 f3 f1.typ) f4 f2.typ) f5 f1.typ) f6
      f2.typ).freeNodes = c1.freeNodes := by
    rw [(nodes_setFaceType _ _ _).2, (nodes_setFaceType _ _ _).2, (nodes_setFaceType _ _ _).2,
      (nodes_setFaceType _ _ _).2, hFN1']
  refine ⟨g1, g2, cc, dd, f3, f5, f4, f6, _, _, u3, u5, u4, u6, eea, eeb, eec, eed,
    ⟨hg1, hg2, hg12, hs1, hs2, T1, T2, U3, U5, U4, U6, ?_, ?_, ?_, ?_,
      ⟨Ne.symm d53, Ne.symm d43, Ne.symm d63, Ne.symm d45, Ne.symm d65, Ne.symm d64⟩, ?_, ?_, ?_, ?_, ?_, ?_,
      by opt_ok hea, by opt_ok heb, by opt_ok hec, by opt_ok hed, rfl, ?_, by rw [hNf]; exact hszE⟩⟩
  · rw [hS', A6.other f3 (Ne.symm d63), A4.other f3 (Ne.symm d43), A5.other f3 (Ne.symm d53)]; exact A3.got
  · rw [hS', A6.other f5 (Ne.symm d65), A4.other f5 (Ne.symm d45)]; exact A5.got
  · rw [hS', A6.other f4 (Ne.symm d64)]; exact A4.got
  · rw [hS']; exact A6.got
  · rintro f (rfl | rfl | rfl | rfl) u hs
    · exact dead3 _ u (A3.fresh u) hs
    · exact dead3 _ u (by rw [← A3.other _ d53]; exact A5.fresh u) hs
    · exact dead3 _ u (by rw [← A3.other _ d43, ← A5.other _ d45]; exact A4.fresh u) hs
    · exact dead3 _ u (by rw [← A3.other _ d63, ← A5.other _ d65, ← A4.other _ d64]; exact A6.fresh u) hs
  · intro g h3 h5 h4 h6
    rw [hS', A6.other g h6, A4.other g h4, A5.other g h5, A3.other g h3, hS3]
  · intro j
    show usedA _ j = _
    rw [hNf]; exact hU1 j
  · rw [hFNf]; exact hFN1
  · intro j hj; rw [hNf]; exact hsz1 j hj
  · intro j hj; rw [hNf] at hj; exact hsz2 j hj
  · intro hF
    have F1 : FreeFull c1 := hF.congr hS1 hF1
    have F5 := full5 (full4 (deleteFace_full h3 (deleteFace_full h2 F1)))
    refine F5.congr ?_ ?_
    · rw [slots_setFaceType, slots_setFaceType, slots_setFaceType, slots_setFaceType]
    · rw [freeFaces_setFaceType, freeFaces_setFaceType, freeFaces_setFaceType, freeFaces_setFaceType]

/-! ## 3. consequences of the record -/

/-- the node store after one slot has been taken from the queue (`add_node`), for any face store whose new triangles use
    only old used nodes and the new one -/
theorem nodesOk_of_add {c c' : Cell R} (hN : NodesOk c)
    (used : ∀ j, usedN c' j = (decide (j = newSlot c) || usedN c j))
    (freeNodes : c'.freeNodes = c.freeNodes.tail)
    (size1 : ∀ j, j < c.nodes.size → j < c'.nodes.size)
    (size2 : ∀ j, j < c'.nodes.size → j < c.nodes.size ∨ j = newSlot c)
    (live : ∀ (g : Nat) (t : Tri) (v : Nat), (slots c')[g]? = some (some t) → hasNode t v = true →
      (v = newSlot c ∨ usedN c v = true)) : NodesOk c' := by
  refine ⟨by rw [freeNodes]; exact hN.nodup.tail, fun i => ?_, fun g t v hg hv => ?_⟩
  · rw [freeNodes, used]
    constructor
    · intro hi
      have hm : i ∈ c.freeNodes := List.mem_of_mem_tail hi
      obtain ⟨a, b⟩ := (hN.free i).1 hm
      refine ⟨size1 i a, ?_⟩
      have : i ≠ newSlot c := by
        intro he
        unfold newSlot at he
        cases hf : c.freeNodes with
        | nil => rw [hf] at hi; cases hi
        | cons x rest =>
          rw [hf] at he hi
          simp only at he
          subst he
          have := hN.nodup
          rw [hf] at this
          exact (List.nodup_cons.1 this).1 hi
      simp [this, b]
    · rintro ⟨a, b⟩
      simp only [Bool.or_eq_false_iff, decide_eq_false_iff_not] at b
      have hlt : i < c.nodes.size := by
        rcases size2 i a with hh | hh
        · exact hh
        · exact absurd hh b.1
      have hm := (hN.free i).2 ⟨hlt, b.2⟩
      unfold newSlot at b
      cases hf : c.freeNodes with
      | nil => rw [hf] at hm; cases hm
      | cons x rest =>
        rw [hf] at hm b
        simp only at b
        rcases List.mem_cons.1 hm with hh | hh
        · exact absurd hh b.1
        · exact hh
  · rw [used]
    rcases live g t v hg hv with hh | hh
    · simp [hh]
    · simp [hh]

section
variable {c c' : Cell R} {e : Edge} {chk chk' : CheckSet} {g1 g2 cc dd f3 f5 f4 f6 : Nat} {t1 t2 u3 u5 u4 u6 : Tri}
  {eea eeb eec eed : Edge}

/-- which face has which side after the split -/
theorem SplitRun.sideK (S : SplitRun c c' e chk chk' g1 g2 cc dd f3 f5 f4 f6 t1 t2 u3 u5 u4 u6 eea eeb eec eed)
    (g k : Nat) :
    SideK (slots c') g k ↔ ((SideK (slots c) g k ∧ g ≠ g1 ∧ g ≠ g2) ∨ (g = f3 ∧ k ∈ sideKeys u3) ∨
      (g = f5 ∧ k ∈ sideKeys u5) ∨ (g = f4 ∧ k ∈ sideKeys u4) ∨ (g = f6 ∧ k ∈ sideKeys u6)) := by
  obtain ⟨d35, d34, d36, d54, d56, d46⟩ := S.fdist
  have hdead : ∀ f, (f = f3 ∨ f = f5 ∨ f = f4 ∨ f = f6) → ¬ (SideK (slots c) f k ∧ f ≠ g1 ∧ f ≠ g2) := by
    rintro f hf ⟨⟨u, hu, _⟩, h1, h2⟩
    rcases S.dead f hf u hu with hh | hh
    · exact h1 hh
    · exact h2 hh
  have one : ∀ (f : Nat) (u : Tri), (slots c')[f]? = some (some u) → (SideK (slots c') f k ↔ k ∈ sideKeys u) := by
    intro f u hu
    constructor
    · rintro ⟨u', hu', hk⟩; rw [hu] at hu'; cases hu'; exact hk
    · intro hk; exact ⟨u, hu, hk⟩
  by_cases h3 : g = f3
  · subst h3
    rw [one _ _ S.n3]
    constructor
    · intro hk; exact Or.inr (Or.inl ⟨rfl, hk⟩)
    · rintro (hh | ⟨_, hk⟩ | ⟨hh, _⟩ | ⟨hh, _⟩ | ⟨hh, _⟩)
      · exact (hdead _ (Or.inl rfl) hh).elim
      · exact hk
      · exact absurd hh d35
      · exact absurd hh d34
      · exact absurd hh d36
  by_cases h5 : g = f5
  · subst h5
    rw [one _ _ S.n5]
    constructor
    · intro hk; exact Or.inr (Or.inr (Or.inl ⟨rfl, hk⟩))
    · rintro (hh | ⟨hh, _⟩ | ⟨_, hk⟩ | ⟨hh, _⟩ | ⟨hh, _⟩)
      · exact (hdead _ (Or.inr (Or.inl rfl)) hh).elim
      · exact absurd hh h3
      · exact hk
      · exact absurd hh d54
      · exact absurd hh d56
  by_cases h4 : g = f4
  · subst h4
    rw [one _ _ S.n4]
    constructor
    · intro hk; exact Or.inr (Or.inr (Or.inr (Or.inl ⟨rfl, hk⟩)))
    · rintro (hh | ⟨hh, _⟩ | ⟨hh, _⟩ | ⟨_, hk⟩ | ⟨hh, _⟩)
      · exact (hdead _ (Or.inr (Or.inr (Or.inl rfl))) hh).elim
      · exact absurd hh h3
      · exact absurd hh h5
      · exact hk
      · exact absurd hh d46
  by_cases h6 : g = f6
  · subst h6
    rw [one _ _ S.n6]
    constructor
    · intro hk; exact Or.inr (Or.inr (Or.inr (Or.inr ⟨rfl, hk⟩)))
    · rintro (hh | ⟨hh, _⟩ | ⟨hh, _⟩ | ⟨hh, _⟩ | ⟨_, hk⟩)
      · exact (hdead _ (Or.inr (Or.inr (Or.inr rfl))) hh).elim
      · exact absurd hh h3
      · exact absurd hh h5
      · exact absurd hh h4
      · exact hk
  · have : SideK (slots c') g k ↔ (SideK (slots c) g k ∧ g ≠ g1 ∧ g ≠ g2) := by
      unfold SideK
      rw [S.other g h3 h5 h4 h6]
      have := sideK_set_none ((slots c).set g1 none) g2 g k
      unfold SideK at this
      rw [this]
      have := sideK_set_none (slots c) g1 g k
      unfold SideK at this
      rw [this]
      tauto
    rw [this]
    constructor
    · exact Or.inl
    · rintro (hh | ⟨hh, _⟩ | ⟨hh, _⟩ | ⟨hh, _⟩ | ⟨hh, _⟩)
      · exact hh
      · exact absurd hh h3
      · exact absurd hh h5
      · exact absurd hh h4
      · exact absurd hh h6

/-- a live slot after the split is one of the four new ones or an old one -/
theorem SplitRun.slot (S : SplitRun c c' e chk chk' g1 g2 cc dd f3 f5 f4 f6 t1 t2 u3 u5 u4 u6 eea eeb eec eed)
    {g : Nat} {u : Tri} (h : (slots c')[g]? = some (some u)) :
    u = u3 ∨ u = u5 ∨ u = u4 ∨ u = u6 ∨ ((slots c)[g]? = some (some u) ∧ g ≠ g1 ∧ g ≠ g2) := by
  by_cases h3 : g = f3
  · subst h3; rw [S.n3] at h; cases h; exact Or.inl rfl
  by_cases h5 : g = f5
  · subst h5; rw [S.n5] at h; cases h; exact Or.inr (Or.inl rfl)
  by_cases h4 : g = f4
  · subst h4; rw [S.n4] at h; cases h; exact Or.inr (Or.inr (Or.inl rfl))
  by_cases h6 : g = f6
  · subst h6; rw [S.n6] at h; cases h; exact Or.inr (Or.inr (Or.inr (Or.inl rfl)))
  · right; right; right; right
    rw [S.other g h3 h5 h4 h6, List.getElem?_set] at h
    by_cases hg2 : g2 = g
    · rw [if_pos hg2] at h; split at h <;> cases h
    · rw [if_neg hg2, List.getElem?_set] at h
      by_cases hg1 : g1 = g
      · rw [if_pos hg1] at h; split at h <;> cases h
      · rw [if_neg hg1] at h
        exact ⟨h, fun e => hg1 e.symm, fun e => hg2 e.symm⟩

theorem SplitRun.nodesOk (S : SplitRun c c' e chk chk' g1 g2 cc dd f3 f5 f4 f6 t1 t2 u3 u5 u4 u6 eea eeb eec eed)
    (hN : NodesOk c) : NodesOk c' := by
  have ua := hN.live g1 t1 e.n1 S.s1 S.T1.2.2.2.1
  have ub := hN.live g1 t1 e.n2 S.s1 S.T1.2.2.2.2.1
  have uc := hN.live g1 t1 cc S.s1 S.T1.2.2.2.2.2
  have ud := hN.live g2 t2 dd S.s2 S.T2.2.2.2.2.2
  refine nodesOk_of_add hN S.used S.freeNodes S.size1 S.size2 (fun g t v hg hv => ?_)
  rcases S.slot hg with rfl | rfl | rfl | rfl | ⟨ho, _, _⟩
  · rcases (S.U3.hasNode_iff' v).1 hv with rfl | rfl | rfl
    · exact Or.inr uc
    · exact Or.inr ua
    · exact Or.inl rfl
  · rcases (S.U5.hasNode_iff' v).1 hv with rfl | rfl | rfl
    · exact Or.inr uc
    · exact Or.inl rfl
    · exact Or.inr ub
  · rcases (S.U4.hasNode_iff' v).1 hv with rfl | rfl | rfl
    · exact Or.inr ud
    · exact Or.inr ua
    · exact Or.inl rfl
  · rcases (S.U6.hasNode_iff' v).1 hv with rfl | rfl | rfl
    · exact Or.inr ud
    · exact Or.inl rfl
    · exact Or.inr ub
  · exact Or.inr (hN.live g t v ho hv)

end

/-- an index entry has room for two faces only -/
theorem idx_at_most_two {c : Cell R} (hI : EdgeIdxComplete c) {k p q r : Nat} (hp : SideK (slots c) p k)
    (hq : SideK (slots c) q k) (hr : SideK (slots c) r k) : p = q ∨ p = r ∨ q = r := by
  obtain ⟨E, hE⟩ := hI.get hp
  obtain ⟨_, _, _, eP⟩ := hI.of_find hE
  have a := (Edge.hasFace_iff E p).1 ((eP p).2 hp)
  have b := (Edge.hasFace_iff E q).1 ((eP q).2 hq)
  have d := (Edge.hasFace_iff E r).1 ((eP r).2 hr)
  rcases a with a | a <;> rcases b with b | b <;> rcases d with d | d <;>
    simp_all

/-! ## 4. the guard: the two opposite nodes are different -/

section
variable {c c' : Cell R} {e : Edge} {chk chk' : CheckSet} {g1 g2 cc dd f3 f5 f4 f6 : Nat} {t1 t2 u3 u5 u4 u6 : Tri}
  {eea eeb eec eed : Edge}

/-- a successful `split_edge` had two different opposite nodes (otherwise the edge `{c, e}` would get four faces and
    `edge::add_face` throws) -/
theorem SplitRun.cd (S : SplitRun c c' e chk chk' g1 g2 cc dd f3 f5 f4 f6 t1 t2 u3 u5 u4 u6 eea eeb eec eed)
    (hI' : EdgeIdxComplete c') : cc ≠ dd := by
  intro hcd
  obtain ⟨d35, d34, d36, d54, d56, d46⟩ := S.fdist
  have k3 : SideK (slots c') f3 (Edge.keyOf cc (newSlot c)) :=
    ⟨u3, S.n3, (S.U3.sideKeys_iff _).2 (Or.inr (Or.inl rfl))⟩
  have k5 : SideK (slots c') f5 (Edge.keyOf cc (newSlot c)) :=
    ⟨u5, S.n5, (S.U5.sideKeys_iff _).2 (Or.inl rfl)⟩
  have k4 : SideK (slots c') f4 (Edge.keyOf cc (newSlot c)) :=
    ⟨u4, S.n4, (S.U4.sideKeys_iff _).2 (Or.inr (Or.inl (by rw [hcd])))⟩
  rcases idx_at_most_two hI' k3 k5 k4 with hh | hh | hh
  · exact d35 hh
  · exact d34 hh
  · exact d54 hh

theorem opp_of_isTri {t : Tri} {a b x : Nat} (hT : IsTri t a b x) (hd : hasDir t a b = true) : opp t a b = x := by
  have := (node_of_hasDir (x := x) hd).1 hT.2.2.2.2.2
  rcases this with hh | hh | hh
  · exact hh.symm
  · exact absurd hh.symm hT.2.1
  · exact absurd hh.symm hT.2.2.1

theorem opp_of_isTri' {t : Tri} {a b x : Nat} (hT : IsTri t a b x) (hd : hasDir t b a = true) : opp t b a = x := by
  have := (node_of_hasDir (x := x) hd).1 hT.2.2.2.2.2
  rcases this with hh | hh | hh
  · exact hh.symm
  · exact absurd hh.symm hT.2.2.1
  · exact absurd hh.symm hT.2.1

/-- the guard of the abstract split holds -/
theorem SplitRun.guard (S : SplitRun c c' e chk chk' g1 g2 cc dd f3 f5 f4 f6 t1 t2 u3 u5 u4 u6 eea eeb eec eed)
    (hI' : EdgeIdxComplete c') (hx : CopyOk c e) :
    ∀ s1 s2, findDir (abs c) e.n1 e.n2 = some s1 → findDir (abs c) e.n2 e.n1 = some s2 →
      opp s1 e.n1 e.n2 ≠ opp s2 e.n2 e.n1 := by
  intro s1 s2 h1 h2
  have hcd := S.cd hI'
  obtain ⟨hle, hw, hP⟩ := hx
  have hk := Edge.key_eq_keyOf hle
  obtain ⟨m1, d1⟩ := findDir_some h1
  obtain ⟨m2, d2⟩ := findDir_some h2
  have which : ∀ (s : Tri) (g : Nat), (slots c)[g]? = some (some s) → Edge.keyOf e.n1 e.n2 ∈ sideKeys s →
      (s = t1 ∨ s = t2) := by
    intro s g hg hq
    have := (hP g).2 ⟨s, hg, by rw [hk]; exact hq⟩
    rw [Edge.hasFace_iff, S.ef1, S.ef2] at this
    rcases this with hh | hh
    · cases hh; rw [S.s1] at hg; cases hg; exact Or.inl rfl
    · cases hh; rw [S.s2] at hg; cases hg; exact Or.inr rfl
  obtain ⟨ga, hga⟩ := mem_abs_iff.1 m1
  obtain ⟨gb, hgb⟩ := mem_abs_iff.1 m2
  have w1 := which s1 ga hga (sideKey_of_hasDir d1)
  have w2 := which s2 gb hgb (by rw [Edge.keyOf_comm]; exact sideKey_of_hasDir d2)
  rcases w1 with rfl | rfl <;> rcases w2 with rfl | rfl
  · exact absurd d2 (by
      have := hasDir_not_both S.T1.nondeg d1
      simpa using this)
  · rw [opp_of_isTri S.T1 d1, opp_of_isTri' S.T2 d2]; exact hcd
  · rw [opp_of_isTri S.T2 d1, opp_of_isTri' S.T1 d2]; exact Ne.symm hcd
  · exact absurd d2 (by
      have := hasDir_not_both S.T2.nondeg d1
      simpa using this)

end

/-! ## 5. the check set -/

theorem replaceFace_key (z : Edge) (o n : Nat) : (z.replaceFace o n).key = z.key := by
  unfold Edge.replaceFace; split <;> rfl

theorem replaceFace_n (z : Edge) (o n : Nat) : (z.replaceFace o n).n1 = z.n1 ∧ (z.replaceFace o n).n2 = z.n2 := by
  unfold Edge.replaceFace; split <;> exact ⟨rfl, rfl⟩

/-- `replace_face(o, n)` on a record that lists `o` and (unless `n = o`) not `n` -/
theorem replaceFace_spec {z : Edge} {o n : Nat} (hw : WfFaces z) (ho : z.hasFace o = true)
    (hn : n = o ∨ z.hasFace n = false) :
    WfFaces (z.replaceFace o n) ∧ ∀ g, (z.replaceFace o n).hasFace g = true ↔ ((z.hasFace g = true ∧ g ≠ o) ∨ g = n) := by
  have hn' : n = o ∨ ¬ (z.f1 = some n ∨ z.f2 = some n) := by
    rcases hn with hh | hh
    · exact Or.inl hh
    · right; rw [← Edge.hasFace_iff, hh]; simp
  clear hn
  obtain ⟨n1, n2, f1, f2⟩ := z
  unfold WfFaces at hw ⊢
  simp only [Edge.hasFace_iff] at ho ⊢
  unfold Edge.replaceFace
  dsimp only at hw ho hn' ⊢
  by_cases h1 : f1 = some o
  · subst h1
    simp only [beq_self_eq_true, if_true]
    have h2 : f2 ≠ some o := fun hh => hw.2 hh.symm
    refine ⟨⟨by simp, ?_⟩, fun g => ?_⟩
    · intro hh
      rcases hn' with rfl | hn
      · exact h2 hh.symm
      · exact hn (Or.inr hh.symm)
    · simp only [Option.some.injEq]
      constructor
      · rintro (hh | hh)
        · exact Or.inr hh.symm
        · exact Or.inl ⟨Or.inr hh, fun he => h2 (by rw [hh, he])⟩
      · rintro (⟨hh | hh, hne⟩ | hh)
        · exact absurd hh.symm hne
        · exact Or.inr hh
        · exact Or.inl hh.symm
  · have hb : (f1 == some o) = false := beq_false_of_ne h1
    simp only [hb]
    have h2 : f2 = some o := by
      rcases ho with hh | hh
      · exact absurd hh h1
      · exact hh
    subst h2
    refine ⟨⟨hw.1, ?_⟩, fun g => ?_⟩
    · intro hh
      rcases hn' with rfl | hn
      · exact h1 hh
      · exact hn (Or.inl hh)
    · simp only [Option.some.injEq, Bool.false_eq_true, if_false]
      constructor
      · rintro (hh | hh)
        · exact Or.inl ⟨Or.inl hh, fun he => h1 (by rw [hh, he])⟩
        · exact Or.inr hh.symm
      · rintro (⟨hh | hh, hne⟩ | hh)
        · exact Or.inl hh
        · exact absurd hh.symm hne
        · exact Or.inr hh.symm

/-- a valid copy whose face `o` is replaced by `n` is valid for a face store in which exactly that happened -/
theorem copy_replace {c c' : Cell R} {z : Edge} {o n : Nat} (hz : CopyOk c z) (ho : z.hasFace o = true)
    (hn : n = o ∨ z.hasFace n = false)
    (hs : ∀ g, SideK (slots c') g z.key ↔ ((SideK (slots c) g z.key ∧ g ≠ o) ∨ g = n)) :
    CopyOk c' (z.replaceFace o n) := by
  obtain ⟨hle, hw, hP⟩ := hz
  obtain ⟨w', hf'⟩ := replaceFace_spec hw ho hn
  refine ⟨by rw [(replaceFace_n z o n).1, (replaceFace_n z o n).2]; exact hle, w', fun g => ?_⟩
  rw [replaceFace_key, hf' g, hs g, hP g]

theorem sorted_map_key {s : EdgeSet} (hs : EdgeSet.Sorted s) (φ : Edge → Edge) (hφ : ∀ z, (φ z).key = z.key) :
    EdgeSet.Sorted (s.map φ) := by
  unfold EdgeSet.Sorted at hs ⊢
  rw [List.pairwise_map]
  exact hs.imp (fun h => by rw [hφ, hφ]; exact h)

/-- on a key-sorted set the `find` + `replace_face` of `split_edge` is a map -/
theorem updF_eq_map {s : EdgeSet} (hs : EdgeSet.Sorted s) (x y o n : Nat) :
    updF s x y o n = s.map (fun z => if z.key = Edge.keyOf x y then z.replaceFace o n else z) := by
  unfold updF
  cases hf : EdgeSet.find? s (Edge.keyOf x y) with
  | none =>
    simp only
    symm
    conv_rhs => rw [← List.map_id s]
    apply List.map_congr_left
    intro z hz
    have : z.key ≠ Edge.keyOf x y := by
      intro hk
      have := EdgeSet.find?_of_mem hs hz
      rw [hk, hf] at this; cases this
    simp [this]
  | some ed =>
    simp only
    unfold EdgeSet.update
    apply List.map_congr_left
    intro z hz
    have ek := EdgeSet.find?_key hf
    rw [replaceFace_key, ek]
    by_cases hk : z.key = Edge.keyOf x y
    · have := EdgeSet.find?_of_mem hs hz
      rw [hk, hf] at this
      cases this
      simp [hk]
    · simp [hk]


/-- a valid copy does not mention a node that occurs in no live face -/
theorem CopyOk.no_fresh {c : Cell R} {z : Edge} (hz : CopyOk c z) {n : Nat} (hfresh : FreshNode c n) (y : Nat) :
    z.key ≠ Edge.keyOf n y := by
  intro hk
  obtain ⟨hle, hw, hP⟩ := hz
  obtain ⟨p, h1⟩ : ∃ p, z.f1 = some p := Option.ne_none_iff_exists'.1 hw.1
  obtain ⟨t, ht, hq⟩ := (hP p).1 ((Edge.hasFace_iff _ _).2 (Or.inl h1))
  rw [hk] at hq
  have := (hasNode_of_sideKey hq).1
  rw [hfresh p t ht] at this; cases this

section
variable {c c' : Cell R} {e : Edge} {chk chk' : CheckSet} {g1 g2 cc dd f3 f5 f4 f6 : Nat} {t1 t2 u3 u5 u4 u6 : Tri}
  {eea eeb eec eed : Edge}

/-- one of the four edges of the quadrilateral: the deleted face `o` is replaced by the new face `n` -/
theorem SplitRun.corner (S : SplitRun c c' e chk chk' g1 g2 cc dd f3 f5 f4 f6 t1 t2 u3 u5 u4 u6 eea eeb eec eed)
    {K o n : Nat} (ho12 : o = g1 ∨ o = g2)
    (hKo : ∀ g, (g = g1 ∨ g = g2) → (SideK (slots c) g K ↔ g = o))
    (hKn : ∀ g, ((g = f3 ∧ K ∈ sideKeys u3) ∨ (g = f5 ∧ K ∈ sideKeys u5) ∨ (g = f4 ∧ K ∈ sideKeys u4) ∨
      (g = f6 ∧ K ∈ sideKeys u6)) ↔ g = n)
    {z : Edge} (hz : CopyOk c z) (hk : z.key = K) : CopyOk c' (z.replaceFace o n) := by
  have hso : SideK (slots c) o K := (hKo o ho12).2 rfl
  have hnew : n = f3 ∨ n = f5 ∨ n = f4 ∨ n = f6 := by
    rcases (hKn n).2 rfl with ⟨hh, _⟩ | ⟨hh, _⟩ | ⟨hh, _⟩ | ⟨hh, _⟩
    · exact Or.inl hh
    · exact Or.inr (Or.inl hh)
    · exact Or.inr (Or.inr (Or.inl hh))
    · exact Or.inr (Or.inr (Or.inr hh))
  refine copy_replace hz ((hz.2.2 o).2 (by rw [hk]; exact hso)) ?_ (fun g => ?_)
  · by_cases hno : n = o
    · exact Or.inl hno
    · right
      rw [Bool.eq_false_iff]
      intro hf
      have hs := (hz.2.2 n).1 hf
      rw [hk] at hs
      obtain ⟨u, hu, _⟩ := hs
      have h12 := S.dead n hnew u hu
      exact hno ((hKo n h12).1 ⟨u, hu, ‹_›⟩)
  · rw [hk, S.sideK g K, hKn g]
    constructor
    · rintro (⟨hs, h1, h2⟩ | hh)
      · refine Or.inl ⟨hs, fun he => ?_⟩
        rcases ho12 with hh | hh
        · exact h1 (he.trans hh)
        · exact h2 (he.trans hh)
      · exact Or.inr hh
    · rintro (⟨hs, hne⟩ | hh)
      · refine Or.inl ⟨hs, fun he => ?_, fun he => ?_⟩
        · exact hne ((hKo g (Or.inl he)).1 hs)
        · exact hne ((hKo g (Or.inr he)).1 hs)
      · exact Or.inr hh

theorem SplitRun.c1 (S : SplitRun c c' e chk chk' g1 g2 cc dd f3 f5 f4 f6 t1 t2 u3 u5 u4 u6 eea eeb eec eed)
    (hI' : EdgeIdxComplete c') (hfresh : FreshNode c (newSlot c)) :
    ∀ z, CopyOk c z → z.key = Edge.keyOf e.n1 cc → CopyOk c' (z.replaceFace g1 f3) := by
  have hcd := S.cd hI'
  obtain ⟨hab, hac, hbc, _, _, _⟩ := S.T1
  obtain ⟨_, had, hbd, _, _, _⟩ := S.T2
  obtain ⟨_, hce, hae, _, _, _⟩ := S.U3
  obtain ⟨_, _, heb, _, _, _⟩ := S.U5
  obtain ⟨_, hde, _, _, _, _⟩ := S.U4
  -- the four keys
  have s1 := S.T1.sideKeys_iff
  have s2 := S.T2.sideKeys_iff
  have q3 := S.U3.sideKeys_iff
  have q5 := S.U5.sideKeys_iff
  have q4 := S.U4.sideKeys_iff
  have q6 := S.U6.sideKeys_iff
  have side1 : ∀ g K, (g = g1 ∨ g = g2) → (SideK (slots c) g K ↔
      ((g = g1 ∧ K ∈ sideKeys t1) ∨ (g = g2 ∧ K ∈ sideKeys t2))) := by
    intro g K hg
    constructor
    · rintro ⟨u, hu, hq⟩
      rcases hg with rfl | rfl
      · rw [S.s1] at hu; cases hu; exact Or.inl ⟨rfl, hq⟩
      · rw [S.s2] at hu; cases hu; exact Or.inr ⟨rfl, hq⟩
    · rintro (⟨rfl, hq⟩ | ⟨rfl, hq⟩)
      · exact ⟨t1, S.s1, hq⟩
      · exact ⟨t2, S.s2, hq⟩
  have g12 := S.g12
  have kne : ∀ {p q x y : Nat}, ¬ ((p = x ∧ q = y) ∨ (p = y ∧ q = x)) → Edge.keyOf p q ≠ Edge.keyOf x y :=
    fun hh he => hh (Edge.keyOf_eq_iff.1 he)
  have koA : ∀ K, K ∈ sideKeys t1 → K ∉ sideKeys t2 → ∀ g, (g = g1 ∨ g = g2) → (SideK (slots c) g K ↔ g = g1) := by
    intro K m1 m2 g hg
    rw [side1 g K hg]
    constructor
    · rintro (⟨hh, _⟩ | ⟨_, hh⟩)
      · exact hh
      · exact absurd hh m2
    · intro hh; exact Or.inl ⟨hh, m1⟩
  have koB : ∀ K, K ∉ sideKeys t1 → K ∈ sideKeys t2 → ∀ g, (g = g1 ∨ g = g2) → (SideK (slots c) g K ↔ g = g2) := by
    intro K m1 m2 g hg
    rw [side1 g K hg]
    constructor
    · rintro (⟨_, hh⟩ | ⟨hh, _⟩)
      · exact absurd hh m1
      · exact hh
    · intro hh; exact Or.inr ⟨hh, m2⟩
  have kn : ∀ (K : Nat) (p3 p5 p4 p6 : Prop), (K ∈ sideKeys u3 ↔ p3) → (K ∈ sideKeys u5 ↔ p5) →
      (K ∈ sideKeys u4 ↔ p4) → (K ∈ sideKeys u6 ↔ p6) → ∀ g,
      (((g = f3 ∧ K ∈ sideKeys u3) ∨ (g = f5 ∧ K ∈ sideKeys u5) ∨ (g = f4 ∧ K ∈ sideKeys u4) ∨
        (g = f6 ∧ K ∈ sideKeys u6)) ↔ ((g = f3 ∧ p3) ∨ (g = f5 ∧ p5) ∨ (g = f4 ∧ p4) ∨ (g = f6 ∧ p6))) := by
    intro K p3 p5 p4 p6 h3 h5 h4 h6 g
    rw [h3, h5, h4, h6]
  have nin : ∀ {K : Nat} {u : Tri} {x y w : Nat}, IsTri u x y w → K ≠ Edge.keyOf x y → K ≠ Edge.keyOf x w →
      K ≠ Edge.keyOf y w → (K ∈ sideKeys u ↔ False) := by
    intro K u x y w hT a1 a2 a3
    rw [hT.sideKeys_iff]
    constructor
    · rintro (hh | hh | hh)
      · exact a1 hh
      · exact a2 hh
      · exact a3 hh
    · exact False.elim
  intro z hz hk
  refine S.corner (K := Edge.keyOf e.n1 cc) (Or.inl rfl)
    (koA _ ((s1 _).2 (Or.inr (Or.inl rfl))) (by
      rw [s2]; rintro (hh | hh | hh)
      · exact kne (by omega) hh
      · exact kne (by omega) hh
      · exact kne (by omega) hh)) (fun g => ?_) hz hk
  rw [kn _ True False False False (iff_true_intro ((q3 _).2 (Or.inl (Edge.keyOf_comm _ _))))
    (nin S.U5 (kne (by omega)) (kne (by omega)) (kne (by omega)))
    (nin S.U4 (kne (by omega)) (kne (by omega)) (kne (by omega)))
    (nin S.U6 (kne (by omega)) (kne (by omega)) (kne (by omega)))]
  simp

theorem SplitRun.c2 (S : SplitRun c c' e chk chk' g1 g2 cc dd f3 f5 f4 f6 t1 t2 u3 u5 u4 u6 eea eeb eec eed)
    (hI' : EdgeIdxComplete c') (hfresh : FreshNode c (newSlot c)) :
    ∀ z, CopyOk c z → z.key = Edge.keyOf e.n2 cc → CopyOk c' (z.replaceFace g1 f5) := by
  have hcd := S.cd hI'
  obtain ⟨hab, hac, hbc, _, _, _⟩ := S.T1
  obtain ⟨_, had, hbd, _, _, _⟩ := S.T2
  obtain ⟨_, hce, hae, _, _, _⟩ := S.U3
  obtain ⟨_, _, heb, _, _, _⟩ := S.U5
  obtain ⟨_, hde, _, _, _, _⟩ := S.U4
  -- the four keys
  have s1 := S.T1.sideKeys_iff
  have s2 := S.T2.sideKeys_iff
  have q3 := S.U3.sideKeys_iff
  have q5 := S.U5.sideKeys_iff
  have q4 := S.U4.sideKeys_iff
  have q6 := S.U6.sideKeys_iff
  have side1 : ∀ g K, (g = g1 ∨ g = g2) → (SideK (slots c) g K ↔
      ((g = g1 ∧ K ∈ sideKeys t1) ∨ (g = g2 ∧ K ∈ sideKeys t2))) := by
    intro g K hg
    constructor
    · rintro ⟨u, hu, hq⟩
      rcases hg with rfl | rfl
      · rw [S.s1] at hu; cases hu; exact Or.inl ⟨rfl, hq⟩
      · rw [S.s2] at hu; cases hu; exact Or.inr ⟨rfl, hq⟩
    · rintro (⟨rfl, hq⟩ | ⟨rfl, hq⟩)
      · exact ⟨t1, S.s1, hq⟩
      · exact ⟨t2, S.s2, hq⟩
  have g12 := S.g12
  have kne : ∀ {p q x y : Nat}, ¬ ((p = x ∧ q = y) ∨ (p = y ∧ q = x)) → Edge.keyOf p q ≠ Edge.keyOf x y :=
    fun hh he => hh (Edge.keyOf_eq_iff.1 he)
  have koA : ∀ K, K ∈ sideKeys t1 → K ∉ sideKeys t2 → ∀ g, (g = g1 ∨ g = g2) → (SideK (slots c) g K ↔ g = g1) := by
    intro K m1 m2 g hg
    rw [side1 g K hg]
    constructor
    · rintro (⟨hh, _⟩ | ⟨_, hh⟩)
      · exact hh
      · exact absurd hh m2
    · intro hh; exact Or.inl ⟨hh, m1⟩
  have koB : ∀ K, K ∉ sideKeys t1 → K ∈ sideKeys t2 → ∀ g, (g = g1 ∨ g = g2) → (SideK (slots c) g K ↔ g = g2) := by
    intro K m1 m2 g hg
    rw [side1 g K hg]
    constructor
    · rintro (⟨_, hh⟩ | ⟨hh, _⟩)
      · exact absurd hh m1
      · exact hh
    · intro hh; exact Or.inr ⟨hh, m2⟩
  have kn : ∀ (K : Nat) (p3 p5 p4 p6 : Prop), (K ∈ sideKeys u3 ↔ p3) → (K ∈ sideKeys u5 ↔ p5) →
      (K ∈ sideKeys u4 ↔ p4) → (K ∈ sideKeys u6 ↔ p6) → ∀ g,
      (((g = f3 ∧ K ∈ sideKeys u3) ∨ (g = f5 ∧ K ∈ sideKeys u5) ∨ (g = f4 ∧ K ∈ sideKeys u4) ∨
        (g = f6 ∧ K ∈ sideKeys u6)) ↔ ((g = f3 ∧ p3) ∨ (g = f5 ∧ p5) ∨ (g = f4 ∧ p4) ∨ (g = f6 ∧ p6))) := by
    intro K p3 p5 p4 p6 h3 h5 h4 h6 g
    rw [h3, h5, h4, h6]
  have nin : ∀ {K : Nat} {u : Tri} {x y w : Nat}, IsTri u x y w → K ≠ Edge.keyOf x y → K ≠ Edge.keyOf x w →
      K ≠ Edge.keyOf y w → (K ∈ sideKeys u ↔ False) := by
    intro K u x y w hT a1 a2 a3
    rw [hT.sideKeys_iff]
    constructor
    · rintro (hh | hh | hh)
      · exact a1 hh
      · exact a2 hh
      · exact a3 hh
    · exact False.elim
  intro z hz hk
  refine S.corner (K := Edge.keyOf e.n2 cc) (Or.inl rfl)
    (koA _ ((s1 _).2 (Or.inr (Or.inr rfl))) (by
      rw [s2]; rintro (hh | hh | hh)
      · exact kne (by omega) hh
      · exact kne (by omega) hh
      · exact kne (by omega) hh)) (fun g => ?_) hz hk
  rw [kn _ False True False False
    (nin S.U3 (kne (by omega)) (kne (by omega)) (kne (by omega)))
    (iff_true_intro ((q5 _).2 (Or.inr (Or.inl (Edge.keyOf_comm _ _)))))
    (nin S.U4 (kne (by omega)) (kne (by omega)) (kne (by omega)))
    (nin S.U6 (kne (by omega)) (kne (by omega)) (kne (by omega)))]
  simp

theorem SplitRun.c3 (S : SplitRun c c' e chk chk' g1 g2 cc dd f3 f5 f4 f6 t1 t2 u3 u5 u4 u6 eea eeb eec eed)
    (hI' : EdgeIdxComplete c') (hfresh : FreshNode c (newSlot c)) :
    ∀ z, CopyOk c z → z.key = Edge.keyOf e.n1 dd → CopyOk c' (z.replaceFace g2 f4) := by
  have hcd := S.cd hI'
  obtain ⟨hab, hac, hbc, _, _, _⟩ := S.T1
  obtain ⟨_, had, hbd, _, _, _⟩ := S.T2
  obtain ⟨_, hce, hae, _, _, _⟩ := S.U3
  obtain ⟨_, _, heb, _, _, _⟩ := S.U5
  obtain ⟨_, hde, _, _, _, _⟩ := S.U4
  -- the four keys
  have s1 := S.T1.sideKeys_iff
  have s2 := S.T2.sideKeys_iff
  have q3 := S.U3.sideKeys_iff
  have q5 := S.U5.sideKeys_iff
  have q4 := S.U4.sideKeys_iff
  have q6 := S.U6.sideKeys_iff
  have side1 : ∀ g K, (g = g1 ∨ g = g2) → (SideK (slots c) g K ↔
      ((g = g1 ∧ K ∈ sideKeys t1) ∨ (g = g2 ∧ K ∈ sideKeys t2))) := by
    intro g K hg
    constructor
    · rintro ⟨u, hu, hq⟩
      rcases hg with rfl | rfl
      · rw [S.s1] at hu; cases hu; exact Or.inl ⟨rfl, hq⟩
      · rw [S.s2] at hu; cases hu; exact Or.inr ⟨rfl, hq⟩
    · rintro (⟨rfl, hq⟩ | ⟨rfl, hq⟩)
      · exact ⟨t1, S.s1, hq⟩
      · exact ⟨t2, S.s2, hq⟩
  have g12 := S.g12
  have kne : ∀ {p q x y : Nat}, ¬ ((p = x ∧ q = y) ∨ (p = y ∧ q = x)) → Edge.keyOf p q ≠ Edge.keyOf x y :=
    fun hh he => hh (Edge.keyOf_eq_iff.1 he)
  have koA : ∀ K, K ∈ sideKeys t1 → K ∉ sideKeys t2 → ∀ g, (g = g1 ∨ g = g2) → (SideK (slots c) g K ↔ g = g1) := by
    intro K m1 m2 g hg
    rw [side1 g K hg]
    constructor
    · rintro (⟨hh, _⟩ | ⟨_, hh⟩)
      · exact hh
      · exact absurd hh m2
    · intro hh; exact Or.inl ⟨hh, m1⟩
  have koB : ∀ K, K ∉ sideKeys t1 → K ∈ sideKeys t2 → ∀ g, (g = g1 ∨ g = g2) → (SideK (slots c) g K ↔ g = g2) := by
    intro K m1 m2 g hg
    rw [side1 g K hg]
    constructor
    · rintro (⟨_, hh⟩ | ⟨hh, _⟩)
      · exact absurd hh m1
      · exact hh
    · intro hh; exact Or.inr ⟨hh, m2⟩
  have kn : ∀ (K : Nat) (p3 p5 p4 p6 : Prop), (K ∈ sideKeys u3 ↔ p3) → (K ∈ sideKeys u5 ↔ p5) →
      (K ∈ sideKeys u4 ↔ p4) → (K ∈ sideKeys u6 ↔ p6) → ∀ g,
      (((g = f3 ∧ K ∈ sideKeys u3) ∨ (g = f5 ∧ K ∈ sideKeys u5) ∨ (g = f4 ∧ K ∈ sideKeys u4) ∨
        (g = f6 ∧ K ∈ sideKeys u6)) ↔ ((g = f3 ∧ p3) ∨ (g = f5 ∧ p5) ∨ (g = f4 ∧ p4) ∨ (g = f6 ∧ p6))) := by
    intro K p3 p5 p4 p6 h3 h5 h4 h6 g
    rw [h3, h5, h4, h6]
  have nin : ∀ {K : Nat} {u : Tri} {x y w : Nat}, IsTri u x y w → K ≠ Edge.keyOf x y → K ≠ Edge.keyOf x w →
      K ≠ Edge.keyOf y w → (K ∈ sideKeys u ↔ False) := by
    intro K u x y w hT a1 a2 a3
    rw [hT.sideKeys_iff]
    constructor
    · rintro (hh | hh | hh)
      · exact a1 hh
      · exact a2 hh
      · exact a3 hh
    · exact False.elim
  intro z hz hk
  refine S.corner (K := Edge.keyOf e.n1 dd) (Or.inr rfl)
    (koB _ (by
      rw [s1]; rintro (hh | hh | hh)
      · exact kne (by omega) hh
      · exact kne (by omega) hh
      · exact kne (by omega) hh) ((s2 _).2 (Or.inr (Or.inl rfl)))) (fun g => ?_) hz hk
  rw [kn _ False False True False
    (nin S.U3 (kne (by omega)) (kne (by omega)) (kne (by omega)))
    (nin S.U5 (kne (by omega)) (kne (by omega)) (kne (by omega)))
    (iff_true_intro ((q4 _).2 (Or.inl (Edge.keyOf_comm _ _))))
    (nin S.U6 (kne (by omega)) (kne (by omega)) (kne (by omega)))]
  simp

theorem SplitRun.c4 (S : SplitRun c c' e chk chk' g1 g2 cc dd f3 f5 f4 f6 t1 t2 u3 u5 u4 u6 eea eeb eec eed)
    (hI' : EdgeIdxComplete c') (hfresh : FreshNode c (newSlot c)) :
    ∀ z, CopyOk c z → z.key = Edge.keyOf e.n2 dd → CopyOk c' (z.replaceFace g2 f6) := by
  have hcd := S.cd hI'
  obtain ⟨hab, hac, hbc, _, _, _⟩ := S.T1
  obtain ⟨_, had, hbd, _, _, _⟩ := S.T2
  obtain ⟨_, hce, hae, _, _, _⟩ := S.U3
  obtain ⟨_, _, heb, _, _, _⟩ := S.U5
  obtain ⟨_, hde, _, _, _, _⟩ := S.U4
  -- the four keys
  have s1 := S.T1.sideKeys_iff
  have s2 := S.T2.sideKeys_iff
  have q3 := S.U3.sideKeys_iff
  have q5 := S.U5.sideKeys_iff
  have q4 := S.U4.sideKeys_iff
  have q6 := S.U6.sideKeys_iff
  have side1 : ∀ g K, (g = g1 ∨ g = g2) → (SideK (slots c) g K ↔
      ((g = g1 ∧ K ∈ sideKeys t1) ∨ (g = g2 ∧ K ∈ sideKeys t2))) := by
    intro g K hg
    constructor
    · rintro ⟨u, hu, hq⟩
      rcases hg with rfl | rfl
      · rw [S.s1] at hu; cases hu; exact Or.inl ⟨rfl, hq⟩
      · rw [S.s2] at hu; cases hu; exact Or.inr ⟨rfl, hq⟩
    · rintro (⟨rfl, hq⟩ | ⟨rfl, hq⟩)
      · exact ⟨t1, S.s1, hq⟩
      · exact ⟨t2, S.s2, hq⟩
  have g12 := S.g12
  have kne : ∀ {p q x y : Nat}, ¬ ((p = x ∧ q = y) ∨ (p = y ∧ q = x)) → Edge.keyOf p q ≠ Edge.keyOf x y :=
    fun hh he => hh (Edge.keyOf_eq_iff.1 he)
  have koA : ∀ K, K ∈ sideKeys t1 → K ∉ sideKeys t2 → ∀ g, (g = g1 ∨ g = g2) → (SideK (slots c) g K ↔ g = g1) := by
    intro K m1 m2 g hg
    rw [side1 g K hg]
    constructor
    · rintro (⟨hh, _⟩ | ⟨_, hh⟩)
      · exact hh
      · exact absurd hh m2
    · intro hh; exact Or.inl ⟨hh, m1⟩
  have koB : ∀ K, K ∉ sideKeys t1 → K ∈ sideKeys t2 → ∀ g, (g = g1 ∨ g = g2) → (SideK (slots c) g K ↔ g = g2) := by
    intro K m1 m2 g hg
    rw [side1 g K hg]
    constructor
    · rintro (⟨_, hh⟩ | ⟨hh, _⟩)
      · exact absurd hh m1
      · exact hh
    · intro hh; exact Or.inr ⟨hh, m2⟩
  have kn : ∀ (K : Nat) (p3 p5 p4 p6 : Prop), (K ∈ sideKeys u3 ↔ p3) → (K ∈ sideKeys u5 ↔ p5) →
      (K ∈ sideKeys u4 ↔ p4) → (K ∈ sideKeys u6 ↔ p6) → ∀ g,
      (((g = f3 ∧ K ∈ sideKeys u3) ∨ (g = f5 ∧ K ∈ sideKeys u5) ∨ (g = f4 ∧ K ∈ sideKeys u4) ∨
        (g = f6 ∧ K ∈ sideKeys u6)) ↔ ((g = f3 ∧ p3) ∨ (g = f5 ∧ p5) ∨ (g = f4 ∧ p4) ∨ (g = f6 ∧ p6))) := by
    intro K p3 p5 p4 p6 h3 h5 h4 h6 g
    rw [h3, h5, h4, h6]
  have nin : ∀ {K : Nat} {u : Tri} {x y w : Nat}, IsTri u x y w → K ≠ Edge.keyOf x y → K ≠ Edge.keyOf x w →
      K ≠ Edge.keyOf y w → (K ∈ sideKeys u ↔ False) := by
    intro K u x y w hT a1 a2 a3
    rw [hT.sideKeys_iff]
    constructor
    · rintro (hh | hh | hh)
      · exact a1 hh
      · exact a2 hh
      · exact a3 hh
    · exact False.elim
  intro z hz hk
  refine S.corner (K := Edge.keyOf e.n2 dd) (Or.inr rfl)
    (koB _ (by
      rw [s1]; rintro (hh | hh | hh)
      · exact kne (by omega) hh
      · exact kne (by omega) hh
      · exact kne (by omega) hh) ((s2 _).2 (Or.inr (Or.inr rfl)))) (fun g => ?_) hz hk
  rw [kn _ False False False True
    (nin S.U3 (kne (by omega)) (kne (by omega)) (kne (by omega)))
    (nin S.U5 (kne (by omega)) (kne (by omega)) (kne (by omega)))
    (nin S.U4 (kne (by omega)) (kne (by omega)) (kne (by omega)))
    (iff_true_intro ((q6 _).2 (Or.inr (Or.inl (Edge.keyOf_comm _ _)))))]
  simp

theorem SplitRun.c0 (S : SplitRun c c' e chk chk' g1 g2 cc dd f3 f5 f4 f6 t1 t2 u3 u5 u4 u6 eea eeb eec eed)
    (hI' : EdgeIdxComplete c') (hfresh : FreshNode c (newSlot c)) :
    ∀ z, CopyOk c z → z.key ≠ Edge.keyOf e.n1 e.n2 → z.key ≠ Edge.keyOf e.n1 cc →
      z.key ≠ Edge.keyOf e.n2 cc → z.key ≠ Edge.keyOf e.n1 dd → z.key ≠ Edge.keyOf e.n2 dd → CopyOk c' z := by
  have hcd := S.cd hI'
  obtain ⟨hab, hac, hbc, _, _, _⟩ := S.T1
  obtain ⟨_, had, hbd, _, _, _⟩ := S.T2
  obtain ⟨_, hce, hae, _, _, _⟩ := S.U3
  obtain ⟨_, _, heb, _, _, _⟩ := S.U5
  obtain ⟨_, hde, _, _, _, _⟩ := S.U4
  -- the four keys
  have s1 := S.T1.sideKeys_iff
  have s2 := S.T2.sideKeys_iff
  have q3 := S.U3.sideKeys_iff
  have q5 := S.U5.sideKeys_iff
  have q4 := S.U4.sideKeys_iff
  have q6 := S.U6.sideKeys_iff
  have side1 : ∀ g K, (g = g1 ∨ g = g2) → (SideK (slots c) g K ↔
      ((g = g1 ∧ K ∈ sideKeys t1) ∨ (g = g2 ∧ K ∈ sideKeys t2))) := by
    intro g K hg
    constructor
    · rintro ⟨u, hu, hq⟩
      rcases hg with rfl | rfl
      · rw [S.s1] at hu; cases hu; exact Or.inl ⟨rfl, hq⟩
      · rw [S.s2] at hu; cases hu; exact Or.inr ⟨rfl, hq⟩
    · rintro (⟨rfl, hq⟩ | ⟨rfl, hq⟩)
      · exact ⟨t1, S.s1, hq⟩
      · exact ⟨t2, S.s2, hq⟩
  have g12 := S.g12
  have kne : ∀ {p q x y : Nat}, ¬ ((p = x ∧ q = y) ∨ (p = y ∧ q = x)) → Edge.keyOf p q ≠ Edge.keyOf x y :=
    fun hh he => hh (Edge.keyOf_eq_iff.1 he)
  have koA : ∀ K, K ∈ sideKeys t1 → K ∉ sideKeys t2 → ∀ g, (g = g1 ∨ g = g2) → (SideK (slots c) g K ↔ g = g1) := by
    intro K m1 m2 g hg
    rw [side1 g K hg]
    constructor
    · rintro (⟨hh, _⟩ | ⟨_, hh⟩)
      · exact hh
      · exact absurd hh m2
    · intro hh; exact Or.inl ⟨hh, m1⟩
  have koB : ∀ K, K ∉ sideKeys t1 → K ∈ sideKeys t2 → ∀ g, (g = g1 ∨ g = g2) → (SideK (slots c) g K ↔ g = g2) := by
    intro K m1 m2 g hg
    rw [side1 g K hg]
    constructor
    · rintro (⟨_, hh⟩ | ⟨hh, _⟩)
      · exact absurd hh m1
      · exact hh
    · intro hh; exact Or.inr ⟨hh, m2⟩
  have kn : ∀ (K : Nat) (p3 p5 p4 p6 : Prop), (K ∈ sideKeys u3 ↔ p3) → (K ∈ sideKeys u5 ↔ p5) →
      (K ∈ sideKeys u4 ↔ p4) → (K ∈ sideKeys u6 ↔ p6) → ∀ g,
      (((g = f3 ∧ K ∈ sideKeys u3) ∨ (g = f5 ∧ K ∈ sideKeys u5) ∨ (g = f4 ∧ K ∈ sideKeys u4) ∨
        (g = f6 ∧ K ∈ sideKeys u6)) ↔ ((g = f3 ∧ p3) ∨ (g = f5 ∧ p5) ∨ (g = f4 ∧ p4) ∨ (g = f6 ∧ p6))) := by
    intro K p3 p5 p4 p6 h3 h5 h4 h6 g
    rw [h3, h5, h4, h6]
  have nin : ∀ {K : Nat} {u : Tri} {x y w : Nat}, IsTri u x y w → K ≠ Edge.keyOf x y → K ≠ Edge.keyOf x w →
      K ≠ Edge.keyOf y w → (K ∈ sideKeys u ↔ False) := by
    intro K u x y w hT a1 a2 a3
    rw [hT.sideKeys_iff]
    constructor
    · rintro (hh | hh | hh)
      · exact a1 hh
      · exact a2 hh
      · exact a3 hh
    · exact False.elim
  intro z hz k0 k1 k2 k3 k4
  have nf := hz.no_fresh hfresh
  refine hz.congr (fun g => ?_)
  rw [S.sideK g z.key, q3, q5, q4, q6]
  have e1 := nf cc
  have e2 := nf e.n1
  have e3 := nf e.n2
  have e4 := nf dd
  rw [Edge.keyOf_comm] at e1 e2 e3 e4
  constructor
  · rintro (⟨hs, _, _⟩ | ⟨_, hh⟩ | ⟨_, hh⟩ | ⟨_, hh⟩ | ⟨_, hh⟩)
    · exact hs
    · rcases hh with hh | hh | hh
      · exact absurd (hh.trans (Edge.keyOf_comm _ _)) k1
      · exact absurd hh e1
      · exact absurd hh e2
    · rcases hh with hh | hh | hh
      · exact absurd hh e1
      · exact absurd (hh.trans (Edge.keyOf_comm _ _)) k2
      · exact absurd (hh.trans (Edge.keyOf_comm _ _)) e3
    · rcases hh with hh | hh | hh
      · exact absurd (hh.trans (Edge.keyOf_comm _ _)) k3
      · exact absurd hh e4
      · exact absurd hh e2
    · rcases hh with hh | hh | hh
      · exact absurd hh e4
      · exact absurd (hh.trans (Edge.keyOf_comm _ _)) k4
      · exact absurd (hh.trans (Edge.keyOf_comm _ _)) e3
  · intro hs
    refine Or.inl ⟨hs, ?_, ?_⟩
    · rintro rfl
      obtain ⟨u, hu, hq⟩ := hs
      rw [S.s1] at hu; cases hu
      rcases (s1 _).1 hq with hh | hh | hh
      · exact k0 hh
      · exact k1 hh
      · exact k2 hh
    · rintro rfl
      obtain ⟨u, hu, hq⟩ := hs
      rw [S.s2] at hu; cases hu
      rcases (s2 _).1 hq with hh | hh | hh
      · exact k0 hh
      · exact k3 hh
      · exact k4 hh

/-- **the check set after `split_edge`** -/
theorem SplitRun.chkOk (S : SplitRun c c' e chk chk' g1 g2 cc dd f3 f5 f4 f6 t1 t2 u3 u5 u4 u6 eea eeb eec eed)
    (hI' : EdgeIdxComplete c') (hfresh : FreshNode c (newSlot c)) (hchk : ChkOk c chk)
    (hne : ∀ z ∈ chk, z.key ≠ Edge.keyOf e.n1 e.n2) : ChkOk c' chk' := by
  have hcd := S.cd hI'
  obtain ⟨hab, hac, hbc, _, _, _⟩ := S.T1
  obtain ⟨_, had, hbd, _, _, _⟩ := S.T2
  obtain ⟨_, hce, hae, _, _, _⟩ := S.U3
  obtain ⟨_, _, heb, _, _, _⟩ := S.U5
  obtain ⟨_, hde, _, _, _, _⟩ := S.U4
  have kne : ∀ {p q x y : Nat}, ¬ ((p = x ∧ q = y) ∨ (p = y ∧ q = x)) → Edge.keyOf p q ≠ Edge.keyOf x y :=
    fun hh he => hh (Edge.keyOf_eq_iff.1 he)
  have C1 := S.c1 hI' hfresh
  have C2 := S.c2 hI' hfresh
  have C3 := S.c3 hI' hfresh
  have C4 := S.c4 hI' hfresh
  have C0 := S.c0 hI' hfresh
  -- the edges read back from the index
  have Cn : ∀ z y, getEdge c' (newSlot c) y = some z → CopyOk c' z ∧ z.key = Edge.keyOf (newSlot c) y := by
    intro z y hg
    rw [getEdge_eq] at hg
    exact ⟨copyOk_of_find hI' hg, EdgeSet.find?_key hg⟩
  -- the set
  have hA : EdgeSet.Sorted (ins4 chk eea eeb eec eed) :=
    EdgeSet.sorted_insert (EdgeSet.sorted_insert (EdgeSet.sorted_insert (EdgeSet.sorted_insert hchk.sorted _) _) _) _
  have memA : ∀ z ∈ ins4 chk eea eeb eec eed, (z ∈ chk ∨ z = eea ∨ z = eeb ∨ z = eec ∨ z = eed) := by
    intro z hz
    unfold ins4 at hz
    rcases EdgeSet.mem_insert hz with rfl | hz
    · simp
    rcases EdgeSet.mem_insert hz with rfl | hz
    · simp
    rcases EdgeSet.mem_insert hz with rfl | hz
    · simp
    rcases EdgeSet.mem_insert hz with rfl | hz
    · simp
    · exact Or.inl hz
  have kφ : ∀ (K o n : Nat) (z : Edge), (if z.key = K then z.replaceFace o n else z).key = z.key := by
    intro K o n z; split
    · exact replaceFace_key _ _ _
    · rfl
  have hB := sorted_map_key hA _ (kφ (Edge.keyOf e.n1 cc) g1 f3)
  have hC := sorted_map_key hB _ (kφ (Edge.keyOf e.n2 cc) g1 f5)
  have hD := sorted_map_key hC _ (kφ (Edge.keyOf e.n1 dd) g2 f4)
  have hE := sorted_map_key hD _ (kφ (Edge.keyOf e.n2 dd) g2 f6)
  rw [S.chk_eq, updF_eq_map hA, updF_eq_map hB, updF_eq_map hC, updF_eq_map hD]
  refine ⟨hE, fun z' hz' => ?_⟩
  simp only [List.mem_map] at hz'
  obtain ⟨z3, ⟨z2, ⟨z1, ⟨z, hz, r1⟩, r2⟩, r3⟩, r4⟩ := hz'
  have k1 : z1.key = z.key := by rw [← r1]; exact kφ _ _ _ _
  have k2 : z2.key = z.key := by rw [← r2, kφ]; exact k1
  have k3 : z3.key = z.key := by rw [← r3, kφ]; exact k2
  have K12 : Edge.keyOf e.n1 cc ≠ Edge.keyOf e.n2 cc := kne (by omega)
  have K13 : Edge.keyOf e.n1 cc ≠ Edge.keyOf e.n1 dd := kne (by omega)
  have K14 : Edge.keyOf e.n1 cc ≠ Edge.keyOf e.n2 dd := kne (by omega)
  have K23 : Edge.keyOf e.n2 cc ≠ Edge.keyOf e.n1 dd := kne (by omega)
  have K24 : Edge.keyOf e.n2 cc ≠ Edge.keyOf e.n2 dd := kne (by omega)
  have K34 : Edge.keyOf e.n1 dd ≠ Edge.keyOf e.n2 dd := kne (by omega)
  -- where does `z` come from?
  have hzz : (CopyOk c z ∧ z.key ≠ Edge.keyOf e.n1 e.n2) ∨
      (CopyOk c' z ∧ ∃ y, z.key = Edge.keyOf (newSlot c) y) := by
    rcases memA z hz with hh | rfl | rfl | rfl | rfl
    · exact Or.inl ⟨hchk.ok z hh, hne z hh⟩
    · exact Or.inr ⟨(Cn _ _ S.gea).1, _, (Cn _ _ S.gea).2⟩
    · exact Or.inr ⟨(Cn _ _ S.geb).1, _, (Cn _ _ S.geb).2⟩
    · exact Or.inr ⟨(Cn _ _ S.gec).1, _, (Cn _ _ S.gec).2⟩
    · exact Or.inr ⟨(Cn _ _ S.ged).1, _, (Cn _ _ S.ged).2⟩
  rcases hzz with ⟨hc, hk0⟩ | ⟨hc, y, hky⟩
  · by_cases h1 : z.key = Edge.keyOf e.n1 cc
    · rw [if_pos h1] at r1
      rw [if_neg (by rw [k1, h1]; exact K12)] at r2
      rw [if_neg (by rw [k2, h1]; exact K13)] at r3
      rw [if_neg (by rw [k3, h1]; exact K14)] at r4
      subst r4; subst r3; subst r2; subst r1
      exact C1 z hc h1
    rw [if_neg h1] at r1
    by_cases h2 : z.key = Edge.keyOf e.n2 cc
    · rw [if_pos (by rw [k1, h2])] at r2
      rw [if_neg (by rw [k2, h2]; exact K23)] at r3
      rw [if_neg (by rw [k3, h2]; exact K24)] at r4
      subst r4; subst r3; subst r2; subst r1
      exact C2 z hc h2
    rw [if_neg (by rw [k1]; exact h2)] at r2
    by_cases h3 : z.key = Edge.keyOf e.n1 dd
    · rw [if_pos (by rw [k2, h3])] at r3
      rw [if_neg (by rw [k3, h3]; exact K34)] at r4
      subst r4; subst r3; subst r2; subst r1
      exact C3 z hc h3
    rw [if_neg (by rw [k2]; exact h3)] at r3
    by_cases h4 : z.key = Edge.keyOf e.n2 dd
    · rw [if_pos (by rw [k3, h4])] at r4
      subst r4; subst r3; subst r2; subst r1
      exact C4 z hc h4
    rw [if_neg (by rw [k3]; exact h4)] at r4
    subst r4; subst r3; subst r2; subst r1
    exact C0 z hc hk0 h1 h2 h3 h4
  · have nk : ∀ x w, x ≠ newSlot c → w ≠ newSlot c → z.key ≠ Edge.keyOf x w := by
      intro x w hx hw he
      rw [hky, Edge.keyOf_eq_iff] at he
      omega
    rw [if_neg (nk _ _ hae hce)] at r1
    rw [if_neg (by rw [k1]; exact nk _ _ (Ne.symm heb) hce)] at r2
    rw [if_neg (by rw [k2]; exact nk _ _ hae hde)] at r3
    rw [if_neg (by rw [k3]; exact nk _ _ (Ne.symm heb) hde)] at r4
    subst r4; subst r3; subst r2; subst r1
    exact hc

end

/-- the invariants carried through a pass of `refine_mesh` -/
structure CellOk (c : Cell R) : Prop where
  ffo : FaceFreeOk c
  idx : EdgeIdxComplete c
  nodes : NodesOk c
  inv : Inv (abs c)
  vmc : AllVMC (abs c)
  /-- every used node slot is a corner of a live face (the converse is `NodesOk.live`) -/
  covered : ∀ v, usedN c v = true → v ∈ vertsF (abs c)
  /-- the cell has a node -/
  hasUsed : ∃ v, usedN c v = true
  /-- every unused face slot is queued -/
  full : FreeFull c

/-- **`split_edge` on a valid copy of an edge of a valid cell**: all invariants are kept, the check set stays valid, the
    guard of the abstract split holds and the live triangles are the abstract split up to the order of the list. -/
theorem splitEdge_pass {fn : Fn R} {k : SplitConsts R} {c c' : Cell R} {e : Edge} {chk chk' : CheckSet}
    (h : splitEdge fn k c e chk = .ok (c', chk')) (hc : CellOk c) (hx : CopyOk c e) (hchk : ChkOk c chk)
    (hne : ∀ z ∈ chk, z.key ≠ e.key) :
    CellOk c' ∧ ChkOk c' chk' ∧ Fresh (abs c) (newSlot c) ∧
      (∀ t1 t2, findDir (abs c) e.n1 e.n2 = some t1 → findDir (abs c) e.n2 e.n1 = some t2 →
        opp t1 e.n1 e.n2 ≠ opp t2 e.n2 e.n1) ∧
      (abs c').Perm (splitT (abs c) e.n1 e.n2 (newSlot c)) ∧
      (c'.freeNodes, c'.nodes.size) = nodeOp (c.freeNodes, c.nodes.size) true e.n1 e.n2 := by
  obtain ⟨hf, hI, hN, hInv, hV, hcov, hus, hfull⟩ := hc
  obtain ⟨E, _, _, _, _, he, hab⟩ := hx.entry hI hInv
  have hfresh := hN.fresh
  obtain ⟨s1, s2, F1, F2⟩ := findDirs_of_edgeFaces hInv hab he
  have hI' := splitEdge_idx h hf hI hab he hfresh
  obtain ⟨hperm, hf'⟩ := splitEdge_refines h hf hInv hab he
  obtain ⟨g1, g2, cc, dd, f3, f5, f4, f6, t1, t2, u3, u5, u4, u6, eea, eeb, eec, eed, S⟩ :=
    splitEdge_run h hf hN hab he
  have hg := S.guard hI' hx
  have hk : e.key = Edge.keyOf e.n1 e.n2 := Edge.key_eq_keyOf hx.1
  refine ⟨⟨hf', hI', S.nodesOk hN, splitEdge_inv h hf hInv hab he hfresh hg,
    splitEdge_vmc h hf hInv hab he hfresh hg hV, ?_, ⟨newSlot c, by rw [S.used]; simp⟩, S.full hfull⟩, ?_, hfresh, hg,
    hperm, by unfold nodeOp; simp only [if_true]; rw [S.freeNodes, S.size_eq]⟩
  · intro v hv
    rw [vertsF_perm hperm, split_verts hInv.nondeg F1 F2, Finset.mem_insert]
    rw [S.used] at hv
    simp only [Bool.or_eq_true, decide_eq_true_eq] at hv
    rcases hv with hv | hv
    · exact Or.inl hv
    · exact Or.inr (hcov v hv)
  · exact S.chkOk hI' (freshNode_of_fresh hfresh) hchk (fun z hz => by rw [← hk]; exact hne z hz)

end

end Simu.Remesh
