import SimuVerif.Lemmas.RemeshPass1
/-
  Whole passes of `refine_mesh`, part 2: `split_edge` keeps the node store and the check set consistent.

  `splitEdge_run` reads the code once and records what it did (`SplitRun`: the two deleted slots, the four new slots and
  their triangles, the node store, the check set as four `emplace`s followed by four `replace_face`s); everything else is
  derived from that record.
-/
set_option linter.unusedSectionVars false
set_option linter.unusedVariables false
set_option linter.unusedSimpArgs false
namespace Simu.Remesh
open Simu Simu.Surface
open Simu.C11 (bind_ok newSlot updF)

section
variable {R : Type} [Add R] [Sub R] [Mul R] [Div R] [Neg R] [Lit R] [LT R] [LE R] [DecidableLT R]
  [DecidableLE R] [DecidableEq R]

/-! ## 1. single slots through `add_face` / `delete_face` -/

theorem slot_add {c c' : Cell R} {fid : Nat} {t : Tri} (A : AddRes c c' fid t) {g : Nat} {u : Tri}
    (h : (slots c')[g]? = some (some u)) : (g = fid ∧ u = t) ∨ (g ≠ fid ∧ (slots c)[g]? = some (some u)) := by
  by_cases hg : g = fid
  · subst hg
    rw [A.got] at h
    exact Or.inl ⟨rfl, by cases h; rfl⟩
  · rw [A.other g hg] at h
    exact Or.inr ⟨hg, h⟩

theorem slot_del {c c' : Cell R} {fid : Nat} {t : Tri} (D : DelRes c c' fid t) {g : Nat} {u : Tri}
    (h : (slots c')[g]? = some (some u)) : g ≠ fid ∧ (slots c)[g]? = some (some u) := by
  rw [D.slots_eq, List.getElem?_set] at h
  by_cases hg : fid = g
  · rw [if_pos hg] at h
    split at h <;> cases h
  · rw [if_neg hg] at h
    exact ⟨fun e => hg e.symm, h⟩

theorem slot_del_other {c c' : Cell R} {fid : Nat} {t : Tri} (D : DelRes c c' fid t) {g : Nat} (hg : g ≠ fid) :
    (slots c')[g]? = (slots c)[g]? := by
  rw [D.slots_eq, List.getElem?_set_ne (Ne.symm hg)]

theorem nodes_setFaceType (c : Cell R) (fid t : Nat) :
    (setFaceType c fid t).nodes = c.nodes ∧ (setFaceType c fid t).freeNodes = c.freeNodes := by
  obtain ⟨fs, h, _⟩ := setFaceType_eq c fid t
  rw [h]; exact ⟨rfl, rfl⟩

/-- the two `add_face` calls of one side of `split_edge` -/
theorem two_addFace_run {fn : Fn R} {c c2 : Cell R} {o : Bool} {p q r s t u v w x y z a' f3 f5 : Nat}
    (h : (if o = true then do
              let __x ← addFace fn c p q r
              match __x with
                | (c, f3) => do
                  let __x ← addFace fn c s t u
                  match __x with
                    | (c, f5) => pure (c, f3, f5)
            else do
              let __x ← addFace fn c v w x
              match __x with
                | (c, f3) => do
                  let __x ← addFace fn c y z a'
                  match __x with
                    | (c, f5) => pure (c, f3, f5) : Except Err (Cell R × Nat × Nat)) = .ok (c2, f3, f5))
    (hf : FaceFreeOk c) :
    ∃ c1 u3 u5, AddRes c c1 f3 u3 ∧ AddRes c1 c2 f5 u5 ∧
      ((u3 = (p, q, r) ∧ u5 = (s, t, u)) ∨ (u3 = (v, w, x) ∧ u5 = (y, z, a'))) := by
  split at h
  · obtain ⟨⟨c1, g3⟩, h1, h⟩ := bind_ok h
    obtain ⟨⟨c2', g5⟩, h2, h⟩ := bind_ok h
    cases h
    have A1 := addFace_spec h1 hf
    exact ⟨c1, _, _, A1, addFace_spec h2 A1.ffo, Or.inl ⟨rfl, rfl⟩⟩
  · obtain ⟨⟨c1, g3⟩, h1, h⟩ := bind_ok h
    obtain ⟨⟨c2', g5⟩, h2, h⟩ := bind_ok h
    cases h
    have A1 := addFace_spec h1 hf
    exact ⟨c1, _, _, A1, addFace_spec h2 A1.ffo, Or.inr ⟨rfl, rfl⟩⟩

theorem isTri_mk {p q r : Nat} (h1 : p ≠ q) (h2 : p ≠ r) (h3 : q ≠ r) : IsTri (p, q, r) p q r :=
  ⟨h1, h2, h3, by simp [hasNode_iff], by simp [hasNode_iff], by simp [hasNode_iff]⟩

theorem IsTri.rot {t : Tri} {v x y : Nat} (h : IsTri t v x y) : IsTri t x y v :=
  ⟨h.2.2.1, Ne.symm h.1, Ne.symm h.2.1, h.2.2.2.2.1, h.2.2.2.2.2, h.2.2.2.1⟩

/-- `add_node` after the momenta of the two end nodes have been rewritten -/
theorem addNode_store_nodes {c : Cell R} {ns : Array (Node R)} {p m : V3 R} {c1 : Cell R} {ee : Nat}
    (hr : addNode ({ c with nodes := ns } : Cell R) p m = (c1, ee)) (hN : NodesOk c)
    (hsz : ns.size = c.nodes.size) (hu : ∀ j, usedA ns j = usedA c.nodes j) :
    (∀ j, usedN c1 j = (decide (j = newSlot c) || usedN c j)) ∧ c1.freeNodes = c.freeNodes.tail ∧
      (∀ j, j < c.nodes.size → j < c1.nodes.size) ∧ (∀ j, j < c1.nodes.size → j < c.nodes.size ∨ j = newSlot c) ∧
      c1.edges = c.edges := by
  have hN0 : NodesOk ({ c with nodes := ns } : Cell R) :=
    ⟨hN.nodup, fun i => by
      show i ∈ c.freeNodes ↔ (i < ns.size ∧ usedA ns i = false)
      rw [hsz, hu]; exact hN.free i,
     fun g t v hg hv => by
      show usedA ns v = true
      rw [hu]; exact hN.live g t v hg hv⟩
  have hnew : newSlot ({ c with nodes := ns } : Cell R) = newSlot c := by
    unfold newSlot; simp only [hsz]
  obtain ⟨a1, a2, a3, a4⟩ := addNode_nodes hN0 p m
  have h1 : c1 = (addNode ({ c with nodes := ns } : Cell R) p m).1 := by rw [hr]
  rw [← h1, hnew] at a1 a2 a3 a4
  refine ⟨fun j => ?_, a2, fun j hj => a3 j (by show j < ns.size; rw [hsz]; exact hj), fun j hj => ?_, ?_⟩
  · rw [a1 j]; show (_ || usedA ns j) = _; rw [hu]; rfl
  · rcases a4 j hj with hh | hh
    · left; have : j < ns.size := hh; rw [hsz] at this; exact this
    · exact Or.inr hh
  · rw [h1]; exact edges_addNode _ _ _

/-! ## 2. the record of one `split_edge` -/

/-- the four `emplace`s of `split_edge` into the check set -/
def ins4 (chk : CheckSet) (x1 x2 x3 x4 : Edge) : CheckSet :=
  (EdgeSet.insert (EdgeSet.insert (EdgeSet.insert (EdgeSet.insert chk x1).1 x2).1 x3).1 x4).1

structure SplitRun (c c' : Cell R) (e : Edge) (chk chk' : CheckSet)
    (g1 g2 cc dd f3 f5 f4 f6 : Nat) (t1 t2 u3 u5 u4 u6 : Tri) (eea eeb eec eed : Edge) : Prop where
  ef1 : e.f1 = some g1
  ef2 : e.f2 = some g2
  g12 : g1 ≠ g2
  s1 : (slots c)[g1]? = some (some t1)
  s2 : (slots c)[g2]? = some (some t2)
  T1 : IsTri t1 e.n1 e.n2 cc
  T2 : IsTri t2 e.n1 e.n2 dd
  U3 : IsTri u3 cc e.n1 (newSlot c)
  U5 : IsTri u5 cc (newSlot c) e.n2
  U4 : IsTri u4 dd e.n1 (newSlot c)
  U6 : IsTri u6 dd (newSlot c) e.n2
  n3 : (slots c')[f3]? = some (some u3)
  n5 : (slots c')[f5]? = some (some u5)
  n4 : (slots c')[f4]? = some (some u4)
  n6 : (slots c')[f6]? = some (some u6)
  fdist : f3 ≠ f5 ∧ f3 ≠ f4 ∧ f3 ≠ f6 ∧ f5 ≠ f4 ∧ f5 ≠ f6 ∧ f4 ≠ f6
  dead : ∀ f, (f = f3 ∨ f = f5 ∨ f = f4 ∨ f = f6) → ∀ u, (slots c)[f]? = some (some u) → (f = g1 ∨ f = g2)
  other : ∀ g, g ≠ f3 → g ≠ f5 → g ≠ f4 → g ≠ f6 →
    (slots c')[g]? = (((slots c).set g1 none).set g2 none)[g]?
  used : ∀ j, usedN c' j = (decide (j = newSlot c) || usedN c j)
  freeNodes : c'.freeNodes = c.freeNodes.tail
  size1 : ∀ j, j < c.nodes.size → j < c'.nodes.size
  size2 : ∀ j, j < c'.nodes.size → j < c.nodes.size ∨ j = newSlot c
  gea : getEdge c' (newSlot c) e.n1 = some eea
  geb : getEdge c' (newSlot c) e.n2 = some eeb
  gec : getEdge c' (newSlot c) cc = some eec
  ged : getEdge c' (newSlot c) dd = some eed
  chk_eq : chk' = updF (updF (updF (updF (ins4 chk eea eeb eec eed) e.n1 cc g1 f3) e.n2 cc g1 f5) e.n1 dd g2 f4)
    e.n2 dd g2 f6

theorem splitEdge_run {fn : Fn R} {k : SplitConsts R} {c c' : Cell R} {e : Edge} {chk chk' : CheckSet}
    (h : splitEdge fn k c e chk = .ok (c', chk')) (hf : FaceFreeOk c) (hN : NodesOk c)
    (hab : e.n1 ≠ e.n2) (he : EdgeFaces c e e.n1 e.n2) :
    ∃ g1 g2 cc dd f3 f5 f4 f6 t1 t2 u3 u5 u4 u6 eea eeb eec eed,
      SplitRun c c' e chk chk' g1 g2 cc dd f3 f5 f4 f6 t1 t2 u3 u5 u4 u6 eea eeb eec eed := by
  have hfresh := hN.fresh
  obtain ⟨g1, g2, t1, t2, hg1, hg2, hg12, hs1, hs2, h1a, h1b, h2a, h2b⟩ := he
  unfold splitEdge at h
  simp only [] at h
  bok h with f1id, hf1id
  bok h with f2id, hf2id
  have e1 : e.f1 = some f1id := by opt_ok hf1id
  have e2 : e.f2 = some f2id := by opt_ok hf2id
  rw [hg1] at e1; cases e1
  rw [hg2] at e2; cases e2
  bok h with f1, hf1
  bok h with f2, hf2
  bok h with na, hna
  bok h with nb, hnb
  bok h with cc, hcc
  bok h with dd, hdd
  have hna' : c.nodes[e.n1]? = some na := by opt_ok hna
  have hnb' : c.nodes[e.n2]? = some nb := by opt_ok hnb
  have hsz : ((c.nodes.set! e.n1 { na with mom := na.mom * k.keep }).set! e.n2
      { nb with mom := nb.mom * k.keep }).size = c.nodes.size := by
    simp [Array.set!_eq_setIfInBounds]
  have hu : ∀ j, usedA ((c.nodes.set! e.n1 { na with mom := na.mom * k.keep }).set! e.n2
      { nb with mom := nb.mom * k.keep }) j = usedA c.nodes j := by
    intro j
    rw [usedA_set, usedA_set]
    have ua : usedA c.nodes e.n1 = na.used := by unfold usedA; rw [hna']
    have ub : usedA c.nodes e.n2 = nb.used := by unfold usedA; rw [hnb']
    by_cases hjb : j = e.n2
    · subst hjb
      split
      · exact ub.symm
      · rw [if_neg (fun hh => hab hh.1.symm)]
    · rw [if_neg (fun hh => hjb hh.1)]
      by_cases hja : j = e.n1
      · subst hja
        split
        · exact ua.symm
        · rfl
      · rw [if_neg (fun hh => hja hh.1)]
  generalize hr : addNode _ _ _ = r at h
  obtain ⟨c1, ee⟩ := r
  simp only [] at h
  obtain ⟨hS1, hF1, hE⟩ := addNode_store hr hsz
  obtain ⟨hU1, hFN1, hsz1, hsz2, hEd1⟩ := addNode_store_nodes hr hN hsz hu
  subst hE
  sorry
