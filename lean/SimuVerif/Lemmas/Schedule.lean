import SimuVerif.Model.Schedule
import Mathlib.Tactic.Ring
import Mathlib.Tactic.Linarith
import Mathlib.Data.List.Range
/-
  C19 — the part of the schedule that does not depend on arithmetic: it holds for EVERY scalar type `R`
  (no axioms on `+`, `/`, `<`, `floor`), hence also for the `Float` instance that the driver runs, i.e. under
  floating-point rounding of the accumulated time.

  * `Contig`: the file numbers written so far are 1, 2, …, file_number_ (each once, in this order)
  * `Traj`: iteration counter, time, population and statistics rows follow the closed forms
    `timeAt`, `aliveAt`, `recAt` determined by the history
-/
set_option linter.unusedSectionVars false
set_option linter.unusedVariables false
namespace Simu.Schedule
open Simu

variable {R : Type} [Add R] [Sub R] [Mul R] [Div R] [Neg R] [Lit R] [LT R] [LE R] [DecidableLT R] [DecidableLE R] [DecidableEq R]

/-! ### closed forms determined by the history -/

/-- the cell list after the divider phase of iteration `k`, given the list `a` at the start of the iteration -/
def midOf (e : Event) (k : Nat) (a : List Nat) : List Nat := if k % Gen.divisionPeriod = 0 then e.mid else a

/-- the cell list after the removal at the end of iteration `k` -/
def postOf (e : Event) (k : Nat) (a : List Nat) : List Nat := (midOf e k a).filter (fun c => !e.dead.contains c)

/-- the cells alive at the start of iteration `k` -/
def aliveAt (init : List Nat) (hist : Nat → Event) : Nat → List Nat
  | 0 => init
  | k + 1 => postOf (hist k) k (aliveAt init hist k)

/-- the cells alive when the statistics of iteration `k` are recorded (after the divider, BEFORE the removal) -/
def recAt (init : List Nat) (hist : Nat → Event) (k : Nat) : List Nat := midOf (hist k) k (aliveAt init hist k)

/-- the simulation time at the start of iteration `k` (in the arithmetic of `R`) -/
def timeAt (P : Params R) : Nat → R
  | 0 => Gen.initTime
  | k + 1 => Gen.advance (timeAt P k) P.dt

/-- the iterations `< n` in which the periodic statistics are written -/
def statIters (n : Nat) : List Nat := (List.range n).filter (fun k => k % Gen.statsPeriod = 0)

theorem statIters_succ (n : Nat) :
    statIters (n + 1) = if n % Gen.statsPeriod = 0 then statIters n ++ [n] else statIters n := by
  unfold statIters
  rw [List.range_succ, List.filter_append]
  by_cases h : n % Gen.statsPeriod = 0 <;> simp [h]

/-! ### `save_mesh` -/

section save
variable (fn : Fn R) (P : Params R)

theorem writeFiles_iter (new : Int) (s : St R) : (writeFiles new s).iter = s.iter := rfl
theorem writeFiles_time (new : Int) (s : St R) : (writeFiles new s).time = s.time := rfl
theorem writeFiles_cells (new : Int) (s : St R) : (writeFiles new s).cells = s.cells := rfl
theorem writeFiles_stats (new : Int) (s : St R) : (writeFiles new s).stats = s.stats := rfl
theorem writeFiles_fileNo (new : Int) (s : St R) : (writeFiles new s).fileNo = s.fileNo + 1 := rfl
theorem writeFiles_files (new : Int) (s : St R) :
    (writeFiles new s).files = s.files ++ [{ iter := s.iter, number := s.fileNo + 1, cells := s.cells }] := rfl

theorem saveLoop_frame (fuel : Nat) (new : Int) (s : St R) :
    (saveLoop fuel new s).iter = s.iter ∧ (saveLoop fuel new s).time = s.time ∧
    (saveLoop fuel new s).cells = s.cells ∧ (saveLoop fuel new s).stats = s.stats := by
  induction fuel generalizing s with
  | zero => simp [saveLoop]
  | succ f ih =>
    unfold saveLoop
    split
    · have := ih (writeFiles new s)
      simpa [writeFiles_iter, writeFiles_time, writeFiles_cells, writeFiles_stats] using this
    · simp

theorem saveMesh_iter (s : St R) : (saveMesh fn P s).iter = s.iter := (saveLoop_frame _ _ s).1
theorem saveMesh_time (s : St R) : (saveMesh fn P s).time = s.time := (saveLoop_frame _ _ s).2.1
theorem saveMesh_cells (s : St R) : (saveMesh fn P s).cells = s.cells := (saveLoop_frame _ _ s).2.2.1
theorem saveMesh_stats (s : St R) : (saveMesh fn P s).stats = s.stats := (saveLoop_frame _ _ s).2.2.2

/-- the numbers of the files written so far are exactly 1, 2, …, `file_number_`, in this order -/
def Contig (s : St R) : Prop :=
  0 ≤ s.fileNo ∧ s.files.map (·.number) = (List.range s.fileNo.toNat).map (fun (i : Nat) => (i : Int) + 1)

theorem contig_writeFiles (new : Int) (s : St R) (h : Contig s) : Contig (writeFiles new s) := by
  obtain ⟨h0, hl⟩ := h
  have hn : (s.fileNo + 1).toNat = s.fileNo.toNat + 1 := by omega
  refine ⟨by rw [writeFiles_fileNo]; omega, ?_⟩
  rw [writeFiles_fileNo, writeFiles_files, hn, List.range_succ, List.map_append, List.map_append, hl]
  simp only [List.map_cons, List.map_nil]
  congr 2
  omega

theorem contig_saveLoop (fuel : Nat) (new : Int) (s : St R) (h : Contig s) : Contig (saveLoop fuel new s) := by
  induction fuel generalizing s with
  | zero => simpa [saveLoop] using h
  | succ f ih =>
    unfold saveLoop
    split
    · exact ih _ (contig_writeFiles new s h)
    · exact h

theorem contig_saveMesh (s : St R) (h : Contig s) : Contig (saveMesh fn P s) := contig_saveLoop _ _ s h

/-- every file written by one `save_mesh` call carries the iteration and the cells of the state it was called in -/
theorem saveLoop_files (fuel : Nat) (new : Int) (s : St R) :
    ∃ l : List FileRec, (saveLoop fuel new s).files = s.files ++ l ∧ ∀ f ∈ l, f.iter = s.iter ∧ f.cells = s.cells := by
  induction fuel generalizing s with
  | zero => exact ⟨[], by simp [saveLoop]⟩
  | succ f ih =>
    unfold saveLoop
    split
    · obtain ⟨l, hl, hm⟩ := ih (writeFiles new s)
      refine ⟨{ iter := s.iter, number := Gen.saveNext new s.fileNo, cells := s.cells } :: l, ?_, ?_⟩
      · rw [hl]; simp [writeFiles]
      · intro g hg
        rcases List.mem_cons.mp hg with rfl | hg
        · exact ⟨rfl, rfl⟩
        · exact hm g hg
    · exact ⟨[], by simp⟩

/-- the `while` of `save_mesh` with the fuel of the model: it ends with its guard false, having written the
    numbers `old+1 … new` (nothing when `new ≤ old`) -/
theorem saveLoop_spec (new : Int) (fuel : Nat) (s : St R) (hf : fuel = (new - s.fileNo).toNat) :
    (saveLoop fuel new s).fileNo = max s.fileNo new ∧
    (saveLoop fuel new s).files = s.files ++ (List.range fuel).map (fun (i : Nat) => ({ iter := s.iter, number := s.fileNo + 1 + (i : Int), cells := s.cells } : FileRec)) := by
  induction fuel generalizing s with
  | zero =>
    have : new ≤ s.fileNo := by omega
    simp [saveLoop, max_eq_left this]
  | succ f ih =>
    have hlt : s.fileNo < new := by omega
    unfold saveLoop
    simp only [Gen.saveCond, hlt, decide_true, if_true]
    have hf' : f = (new - (writeFiles new s).fileNo).toNat := by rw [writeFiles_fileNo]; omega
    obtain ⟨h1, h2⟩ := ih (writeFiles new s) hf'
    refine ⟨?_, ?_⟩
    · rw [h1, writeFiles_fileNo]; omega
    · rw [h2, writeFiles_files, writeFiles_fileNo, writeFiles_iter, writeFiles_cells, List.append_assoc]
      congr 1
      rw [List.range_succ_eq_map, List.map_cons, List.map_map]
      simp only [List.singleton_append, Nat.cast_zero, add_zero]
      congr 1
      apply List.map_congr_left
      intro i _
      simp only [Function.comp, Nat.succ_eq_add_one, Nat.cast_add, Nat.cast_one]
      congr 1
      ring

theorem saveMesh_spec (s : St R) :
    (saveMesh fn P s).fileNo = max s.fileNo (Gen.fileNumber fn s.time P.S) ∧
    (saveMesh fn P s).files = s.files ++ (List.range (Gen.fileNumber fn s.time P.S - s.fileNo).toNat).map
      (fun (i : Nat) => ({ iter := s.iter, number := s.fileNo + 1 + (i : Int), cells := s.cells } : FileRec)) := by
  have := saveLoop_spec (Gen.fileNumber fn s.time P.S) ((Gen.fileNumber fn s.time P.S - s.fileNo).toNat) s rfl
  simpa [saveMesh, saveFuel, Gen.saveRepeats] using this
end save

/-! ### one iteration -/

section iter
variable (fn : Fn R) (P : Params R) (e : Event) (s : St R)

theorem phaseSave_eq : phaseSave fn P s = saveMesh fn P s := by simp [phaseSave, Gen.stepTmp]

theorem phaseDivide_eq : phaseDivide e s = { s with cells := midOf e s.iter s.cells } := by
  unfold phaseDivide midOf
  by_cases h : s.iter % Gen.divisionPeriod = 0 <;> simp [h, Gen.stepTmp]

theorem phaseRecord_eq : phaseRecord s =
    { s with stats := if s.iter % Gen.statsPeriod = 0 then s.stats ++ [{ iter := s.iter, time := s.time, cells := s.cells }] else s.stats } := by
  unfold phaseRecord record
  by_cases h : s.iter % Gen.statsPeriod = 0 <;> simp [h]

theorem iteration_eq : iteration fn P e s =
    { iter := s.iter + 1,
      time := Gen.advance s.time P.dt,
      fileNo := (saveMesh fn P s).fileNo,
      cells := postOf e s.iter s.cells,
      files := (saveMesh fn P s).files,
      stats := if s.iter % Gen.statsPeriod = 0 then
          s.stats ++ [{ iter := s.iter, time := Gen.advance s.time P.dt, cells := midOf e s.iter s.cells }]
        else s.stats } := by
  unfold iteration
  rw [phaseSave_eq, phaseDivide_eq]
  unfold phaseAdvance
  rw [phaseRecord_eq]
  simp only [phaseRemove, phaseCount, postOf, saveMesh_iter, saveMesh_time, saveMesh_cells, saveMesh_stats]

theorem iteration_iter : (iteration fn P e s).iter = s.iter + 1 := by rw [iteration_eq]
theorem iteration_time : (iteration fn P e s).time = Gen.advance s.time P.dt := by rw [iteration_eq]
theorem iteration_cells : (iteration fn P e s).cells = postOf e s.iter s.cells := by rw [iteration_eq]
theorem iteration_stats : (iteration fn P e s).stats =
    if s.iter % Gen.statsPeriod = 0 then
      s.stats ++ [{ iter := s.iter, time := Gen.advance s.time P.dt, cells := midOf e s.iter s.cells }]
    else s.stats := by rw [iteration_eq]
theorem iteration_files : (iteration fn P e s).files = (saveMesh fn P s).files := by rw [iteration_eq]
theorem iteration_fileNo : (iteration fn P e s).fileNo = (saveMesh fn P s).fileNo := by rw [iteration_eq]

theorem contig_iteration (h : Contig s) : Contig (iteration fn P e s) := by
  have := contig_saveMesh fn P s h
  unfold Contig at this ⊢
  rwa [iteration_files, iteration_fileNo]
end iter

/-! ### the loop -/

section loop
variable (fn : Fn R) (P : Params R) (hist : Nat → Event)

/-- an invariant of the iterations executed while the loop condition holds is an invariant of the loop -/
theorem loop_inv {Inv : St R → Prop}
    (hstep : ∀ s, Inv s → Gen.continueRun s.time P.T s.cells.length = true → Inv (iteration fn P (hist s.iter) s)) :
    ∀ (fuel : Nat) (s : St R), Inv s → Inv (loop fn P hist fuel s) := by
  intro fuel
  induction fuel with
  | zero => intro s h; simpa [loop] using h
  | succ f ih =>
    intro s h
    unfold loop
    split
    · rename_i hc; exact ih _ (hstep s h hc)
    · exact h

/-- the loop either ended by its own condition or used all the fuel -/
theorem loop_fuel (fuel : Nat) (s : St R) :
    finished P (loop fn P hist fuel s) = true ∨ (loop fn P hist fuel s).iter = s.iter + fuel := by
  induction fuel generalizing s with
  | zero => right; simp [loop]
  | succ f ih =>
    unfold loop
    split
    · rcases ih (iteration fn P (hist s.iter) s) with h | h
      · exact Or.inl h
      · right; rw [h, iteration_iter]; omega
    · rename_i hc; left; simpa [finished] using hc

/-- the state of the solver follows the closed forms of the history -/
structure Traj (init : List Nat) (s : St R) : Prop where
  time : s.time = timeAt P s.iter
  cells : s.cells = aliveAt init hist s.iter
  stats : s.stats = (statIters s.iter).map
    (fun k => ({ iter := k, time := timeAt P (k + 1), cells := recAt init hist k } : StatRec R))
  files : ∀ f ∈ s.files, f.iter < s.iter ∧ f.cells = aliveAt init hist f.iter ∧ f.cells ≠ []
  ran : ∀ j < s.iter, Gen.continueRun (timeAt P j) P.T (aliveAt init hist j).length = true

theorem traj_init (init : List Nat) : Traj P hist init (St.init init : St R) := by
  refine ⟨rfl, rfl, ?_, ?_, ?_⟩ <;> simp [St.init, Gen.initIteration, statIters]

theorem traj_iteration (init : List Nat) (s : St R) (h : Traj P hist init s)
    (hc : Gen.continueRun s.time P.T s.cells.length = true) : Traj P hist init (iteration fn P (hist s.iter) s) := by
  obtain ⟨ht, hcells, hst, hfi, hran⟩ := h
  refine ⟨?_, ?_, ?_, ?_, ?_⟩
  · rw [iteration_time, iteration_iter, ht]; rfl
  · rw [iteration_cells, iteration_iter, hcells]; rfl
  · rw [iteration_stats, iteration_iter, statIters_succ, hst, ht, hcells]
    split
    · simp [recAt, timeAt]
    · rfl
  · intro f hf
    rw [iteration_files] at hf
    rw [iteration_iter]
    obtain ⟨l, hl, hm⟩ := saveLoop_files (saveFuel (Gen.fileNumber fn s.time P.S) s.fileNo) (Gen.fileNumber fn s.time P.S) s
    have hf' : f ∈ s.files ++ l := by rw [← hl]; exact hf
    rcases List.mem_append.mp hf' with h1 | h1
    · obtain ⟨a, b, c⟩ := hfi f h1
      exact ⟨by omega, b, c⟩
    · obtain ⟨a, b⟩ := hm f h1
      refine ⟨by omega, by rw [b, a, hcells], ?_⟩
      rw [b]
      intro h0
      simp [Gen.continueRun, h0] at hc
  · intro j hj
    rw [iteration_iter] at hj
    rcases Nat.lt_succ_iff_lt_or_eq.mp hj with h1 | h1
    · exact hran j h1
    · rw [h1, ← ht, ← hcells]; exact hc

theorem traj_loop (init : List Nat) (fuel : Nat) :
    Traj P hist init (loop fn P hist fuel (St.init init : St R)) :=
  loop_inv fn P hist (fun s h hc => traj_iteration fn P hist init s h hc) fuel _ (traj_init P hist init)

theorem contig_init (init : List Nat) : Contig (St.init init : St R) := by
  simp [Contig, St.init, Gen.initFileNumber]

theorem contig_loop (init : List Nat) (fuel : Nat) : Contig (loop fn P hist fuel (St.init init : St R)) :=
  loop_inv fn P hist (fun s h _ => contig_iteration fn P _ s h) fuel _ (contig_init init)
end loop

end Simu.Schedule
