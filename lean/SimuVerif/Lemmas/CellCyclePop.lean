import SimuVerif.Model.CellCycle
import SimuVerif.Lemmas.Field
import Mathlib.Order.WithBot
import Mathlib.Data.List.Basic
import Mathlib.Data.List.Nodup
/-
  C04 — helper lemmas about the population model of `Model/CellCycle.lean`: what `grow` keeps,
  which ids `divisionRound` issues, how ids evolve over one iteration.
-/
set_option linter.unusedSectionVars false
namespace Simu.CellCycle
open Simu
variable {R : Type} [Field R] [LinearOrder R] [IsStrictOrderedRing R]

/-- an `Option` parameter read as an extended value: `none` is `+∞` -/
def ext (o : Option R) : WithTop R :=
  match o with
  | none => ⊤
  | some x => (x : WithTop R)

@[simp] theorem ext_none : ext (none : Option R) = ⊤ := rfl
@[simp] theorem ext_some (x : R) : ext (some x) = (x : WithTop R) := rfl

theorem grow_id (fn : Fn R) (dt V : R) (c : Cell R) : (grow fn dt V c).id = c.id := by
  unfold grow; split_ifs <;> rfl
theorem grow_ty (fn : Fn R) (dt V : R) (c : Cell R) : (grow fn dt V c).ty = c.ty := by
  unfold grow; split_ifs <;> rfl
theorem grow_g (fn : Fn R) (dt V : R) (c : Cell R) : (grow fn dt V c).g = c.g := by
  unfold grow; split_ifs <;> rfl
theorem grow_vdiv (fn : Fn R) (dt V : R) (c : Cell R) : (grow fn dt V c).vdiv = c.vdiv := by
  unfold grow; split_ifs <;> rfl

theorem map_grow_ids (fn : Fn R) (dt : R) (v : Nat → R) (l : List (Cell R)) :
    (l.map (fun c => grow fn dt (v c.id) c)).map (·.id) = l.map (·.id) := by
  induction l with
  | nil => rfl
  | cons a l ih => simp only [List.map_cons, grow_id] at ih ⊢; rw [ih]

/-- the daughters get the ids `next, next+1, …` in order; the counter advances by two per mother -/
theorem mkDaughters_ids (e : Event R) (ms : List (Cell R)) (next : Nat) :
    ((mkDaughters e ms next).1.map (·.id)) = List.range' next (2 * ms.length) ∧
    (mkDaughters e ms next).2 = next + 2 * ms.length := by
  induction ms generalizing next with
  | nil => simp [mkDaughters]
  | cons m rest ih =>
    obtain ⟨h1, h2⟩ := ih (next + 2)
    constructor
    · simp only [mkDaughters, List.map_cons, daughterOf, newborn, h1, List.length_cons]
      have : 2 * (rest.length + 1) = (2 * rest.length) + 1 + 1 := by ring
      rw [this, List.range'_succ, List.range'_succ]
    · simp only [mkDaughters, h2, List.length_cons]; ring

theorem divisionRound_nextId_ge (p : Pop R) (e : Event R) : p.nextId ≤ (divisionRound p e).nextId := by
  simp only [divisionRound, (mkDaughters_ids e _ p.nextId).2]; omega

/-- the ids after a division round: survivors of the old list (in order) followed by fresh consecutive ids -/
theorem divisionRound_ids (p : Pop R) (e : Event R) :
    ∃ k, (divisionRound p e).ids = (p.cells.filter (fun c => !(ready c && e.divides c.id))).map (·.id) ++ List.range' p.nextId k
      ∧ (divisionRound p e).nextId = p.nextId + k := by
  refine ⟨2 * (p.cells.filter (fun c => ready c && e.divides c.id)).length, ?_, ?_⟩
  · simp only [divisionRound, Pop.ids, List.map_append, (mkDaughters_ids e _ p.nextId).1]
  · simp only [divisionRound, (mkDaughters_ids e _ p.nextId).2]

/-- every id is below the counter -/
def IdsBelow (p : Pop R) : Prop := ∀ i ∈ p.ids, i < p.nextId

theorem renumber_ids (fn : Fn R) (cs : List (Cell R)) (k : Nat) :
    (renumber fn cs k).map (·.id) = List.range' k cs.length := by
  induction cs generalizing k with
  | nil => rfl
  | cons c cs ih => simp only [renumber, List.map_cons, solverInit, List.length_cons, List.range'_succ, ih]

/-- ids of one iteration: a sublist of (old ids that were not mothers ++ fresh ids) -/
theorem iterate_ids (fn : Fn R) (dt : R) (it : Nat) (p : Pop R) (e : Event R) :
    ∃ k, (iterate fn dt it p e).nextId = p.nextId + k ∧
      ∀ i ∈ (iterate fn dt it p e).ids, i ∈ p.ids ∨ (p.nextId ≤ i ∧ i < p.nextId + k) := by
  unfold iterate midPop divPhase
  simp only []
  split_ifs with hdiv
  · obtain ⟨k, hk, hn⟩ := divisionRound_ids p e
    refine ⟨k, hn, ?_⟩
    intro i hi
    have hsub : (removeSmall ((divisionRound p e).cells.map (fun c => grow fn dt (e.vol c.id) c))).map (·.id)
        |>.Sublist (((divisionRound p e).cells.map (fun c => grow fn dt (e.vol c.id) c)).map (·.id)) :=
      (List.filter_sublist).map _
    have hi' := hsub.subset hi
    rw [map_grow_ids] at hi'
    have : i ∈ (divisionRound p e).ids := hi'
    rw [hk, List.mem_append] at this
    rcases this with h | h
    · left
      rw [List.mem_map] at h
      obtain ⟨c, hc, rfl⟩ := h
      exact List.mem_map.mpr ⟨c, (List.mem_filter.mp hc).1, rfl⟩
    · right
      rw [List.mem_range'_1] at h
      exact h
  · refine ⟨0, rfl, ?_⟩
    intro i hi
    left
    have hsub : (removeSmall (p.cells.map (fun c => grow fn dt (e.vol c.id) c))).map (·.id)
        |>.Sublist ((p.cells.map (fun c => grow fn dt (e.vol c.id) c)).map (·.id)) :=
      (List.filter_sublist).map _
    have hi' := hsub.subset hi
    rw [map_grow_ids] at hi'
    exact hi'

theorem iterate_idsBelow (fn : Fn R) (dt : R) (it : Nat) (p : Pop R) (e : Event R) (h : IdsBelow p) :
    IdsBelow (iterate fn dt it p e) := by
  obtain ⟨k, hk, hi⟩ := iterate_ids fn dt it p e
  intro i hmem
  rcases hi i hmem with h1 | h1
  · have := h i h1; omega
  · omega

theorem runFrom_idsBelow (fn : Fn R) (dt : R) (es : List (Event R)) :
    ∀ (it : Nat) (p : Pop R), IdsBelow p → IdsBelow (runFrom fn dt it p es) := by
  induction es with
  | nil => intro it p h; exact h
  | cons e es ih => intro it p h; exact ih _ _ (iterate_idsBelow fn dt it p e h)

theorem runFrom_append (fn : Fn R) (dt : R) (es₁ es₂ : List (Event R)) :
    ∀ (it : Nat) (p : Pop R),
      runFrom fn dt it p (es₁ ++ es₂) = runFrom fn dt (it + es₁.length) (runFrom fn dt it p es₁) es₂ := by
  induction es₁ with
  | nil => intro it p; rfl
  | cons e es ih =>
    intro it p
    simp only [List.cons_append, runFrom, List.length_cons]
    rw [ih]
    congr 1
    omega

/-- ids of the population between the internal-force phase and the removal phase -/
theorem midPop_ids (fn : Fn R) (dt : R) (it : Nat) (p : Pop R) (e : Event R) :
    (midPop fn dt it p e).ids = p.ids ∨ (midPop fn dt it p e).ids = (divisionRound p e).ids := by
  unfold midPop divPhase
  simp only []
  split_ifs
  · right; exact map_grow_ids fn dt e.vol _
  · left; exact map_grow_ids fn dt e.vol _

theorem divisionRound_nodup (p : Pop R) (e : Event R) (hb : IdsBelow p) (hn : p.ids.Nodup) :
    (divisionRound p e).ids.Nodup := by
  obtain ⟨k, hk, _⟩ := divisionRound_ids p e
  rw [hk, List.nodup_append]
  refine ⟨(hn.sublist (List.filter_sublist.map _)), List.nodup_range' .., ?_⟩
  intro a ha b hbm hab
  subst hab
  have h1 : a ∈ p.ids := (List.filter_sublist.map _).subset ha
  have h2 := hb a h1
  rw [List.mem_range'_1] at hbm
  omega

theorem midPop_nodup (fn : Fn R) (dt : R) (it : Nat) (p : Pop R) (e : Event R) (hb : IdsBelow p) (hn : p.ids.Nodup) :
    (midPop fn dt it p e).ids.Nodup := by
  rcases midPop_ids fn dt it p e with h | h <;> rw [h]
  · exact hn
  · exact divisionRound_nodup p e hb hn

theorem iterate_nodup (fn : Fn R) (dt : R) (it : Nat) (p : Pop R) (e : Event R) (hb : IdsBelow p) (hn : p.ids.Nodup) :
    (iterate fn dt it p e).ids.Nodup :=
  (midPop_nodup fn dt it p e hb hn).sublist (List.filter_sublist.map _)

theorem runFrom_nodup (fn : Fn R) (dt : R) (es : List (Event R)) :
    ∀ (it : Nat) (p : Pop R), IdsBelow p → p.ids.Nodup → (runFrom fn dt it p es).ids.Nodup := by
  induction es with
  | nil => intro it p _ h; exact h
  | cons e es ih =>
    intro it p hb hn
    exact ih _ _ (iterate_idsBelow fn dt it p e hb) (iterate_nodup fn dt it p e hb hn)

end Simu.CellCycle
