import SimuVerif.Lemmas.C12_Cov
/-
  C12 — the end of `cell::get_cell_longest_axis`: the covariance matrix is positive semi-definite (so
  `std::abs` of an eigenvalue is the eigenvalue), and the if-chain that selects the returned column of
  `eigen_vectors` (`Gen.Geometry.axisColumn`, regenerated from the C++ text) returns the column of the
  largest eigenvalue whenever that one is strictly the largest — in particular column 2 for the ascending
  order in which `mat33::eigen_decomposition` asks `gte::SymmetricEigensolver3x3` to deliver them
  (`sortType = 1`).
-/
set_option linter.unusedSectionVars false
set_option linter.unusedSimpArgs false
namespace Simu.Geo
open Simu Simu.Gen.Geometry
variable {R : Type} [Field R] [LinearOrder R] [IsStrictOrderedRing R]

theorem dot_vsum_map {α : Type} (f : α → V3 R) (l : List α) (c : V3 R) :
    V3.dot c (vsum (l.map f)) = (l.map (fun a => V3.dot c (f a))).sum := by
  induction l with
  | nil => simp [vsum, V3.dot_def]
  | cons a l ih => simp only [List.map_cons, vsum, List.sum_cons, V3.dot_add_right, ih]

theorem list_sum_sq_nonneg {α : Type} (f : α → R) (l : List α) : 0 ≤ (l.map (fun a => f a * f a)).sum := by
  induction l with
  | nil => simp
  | cons a l ih => simp only [List.map_cons, List.sum_cons]; nlinarith [mul_self_nonneg (f a)]

/-- the quadratic form of the covariance matrix: v·(C v) = (1/n) Σ ((p − c)·v)² -/
theorem cov_quadratic (c : V3 R) (ps : List (V3 R)) (v : V3 R) :
    V3.dot v (covApply (covRows (covOf c ps)) v)
      = (ps.map (fun p => V3.dot (p - c) v * V3.dot (p - c) v)).sum / (ps.length : R) := by
  rw [covApply_eq_vsum, V3.sdiv_eq_smul, V3.dot_smul_right, dot_vsum_map, div_eq_mul_inv, mul_comm]
  congr 2
  apply List.map_congr_left; intro p _
  rw [V3.dot_smul_right, V3.dot_comm v (p - c)]

/-- the covariance matrix handed to the eigen-solver is positive semi-definite, for every node cloud and
    every reference point -/
theorem cov_psd (c : V3 R) (ps : List (V3 R)) (v : V3 R) :
    0 ≤ V3.dot v (covApply (covRows (covOf c ps)) v) := by
  rw [cov_quadratic]
  apply div_nonneg (list_sum_sq_nonneg _ _)
  exact Nat.cast_nonneg _

/-- every eigenvalue of the covariance matrix is non-negative: `std::abs(eigen_values…)` in the selection
    is the eigenvalue itself -/
theorem cov_eigenvalue_nonneg (c : V3 R) (ps : List (V3 R)) (v : V3 R) (l : R)
    (hv : covApply (covRows (covOf c ps)) v = v * l) (hn : V3.normSq v ≠ 0) : 0 ≤ l := by
  have h := cov_psd c ps v
  rw [hv, V3.dot_smul_right] at h
  have hpos : 0 < V3.normSq v := lt_of_le_of_ne (V3.normSq_nonneg v) (Ne.symm hn)
  have hd : V3.dot v v = V3.normSq v := rfl
  rw [hd] at h
  by_contra hl
  have : l < 0 := not_le.mp hl
  nlinarith

theorem sabs_of_nonneg {x : R} (h : 0 ≤ x) : sabs x = x := by
  unfold sabs
  rw [if_neg]
  simpa using not_lt.mpr h

/-- component `i` of a vector (`0 ↦ x`, `1 ↦ y`, otherwise `z`) -/
def comp (e : V3 R) (i : Nat) : R := if i = 0 then e.x else if i = 1 then e.y else e.z

/-- column `i` of the matrix whose columns are `cols` -/
def colOf (cols : V3 R × V3 R × V3 R) (i : Nat) : V3 R :=
  if i = 0 then cols.1 else if i = 1 then cols.2.1 else cols.2.2

theorem axisColumn_lt_three (e : V3 R) : axisColumn e < 3 := by
  unfold axisColumn; split_ifs <;> omega

/-- the selection returns the column whose |eigenvalue| is strictly the largest, whenever there is one -/
theorem axisColumn_strict_max (e : V3 R) (i : Nat) (hi : i < 3)
    (hmax : ∀ j, j < 3 → j ≠ i → sabs (comp e j) < sabs (comp e i)) : axisColumn e = i := by
  have h0 := hmax 0 (by omega); have h1 := hmax 1 (by omega); have h2 := hmax 2 (by omega)
  unfold axisColumn
  obtain rfl | rfl | rfl : i = 0 ∨ i = 1 ∨ i = 2 := by omega
  · have a := h1 (by omega); have b := h2 (by omega)
    simp only [comp] at a b; norm_num at a b
    rw [if_pos ⟨a, b⟩]
  · have a := h0 (by omega); have b := h2 (by omega)
    simp only [comp] at a b; norm_num at a b
    rw [if_neg (fun h => absurd h.1 (not_lt.mpr (le_of_lt a))), if_pos ⟨a, b⟩]
  · have a := h0 (by omega); have b := h1 (by omega)
    simp only [comp] at a b; norm_num at a b
    rw [if_neg (fun h => absurd h.2 (not_lt.mpr (le_of_lt a))), if_neg (fun h => absurd h.2 (not_lt.mpr (le_of_lt b)))]

/-- what the selection returns is never strictly smaller in |eigenvalue| than BOTH other columns, and it is a
    maximum unless the two largest tie exactly in columns 0 and 1 (the only case in which the else-branch is
    reached with a non-maximal column 2) -/
theorem axisColumn_max_or_tie (e : V3 R) :
    (∀ j, j < 3 → sabs (comp e j) ≤ sabs (comp e (axisColumn e))) ∨
      (sabs e.x = sabs e.y ∧ sabs e.z < sabs e.x ∧ axisColumn e = 2) := by
  unfold axisColumn
  by_cases c1 : sabs e.y < sabs e.x ∧ sabs e.z < sabs e.x
  · left; rw [if_pos c1]; intro j hj
    (obtain rfl | rfl | rfl : j = 0 ∨ j = 1 ∨ j = 2 := by omega) <;> simp [comp] <;> first | exact le_of_lt c1.1 | exact le_of_lt c1.2
  · rw [if_neg c1]
    by_cases c2 : sabs e.x < sabs e.y ∧ sabs e.z < sabs e.y
    · left; rw [if_pos c2]; intro j hj
      (obtain rfl | rfl | rfl : j = 0 ∨ j = 1 ∨ j = 2 := by omega) <;> simp [comp] <;> first | exact le_of_lt c2.1 | exact le_of_lt c2.2
    · rw [if_neg c2]
      by_cases hz : sabs e.x ≤ sabs e.z ∧ sabs e.y ≤ sabs e.z
      · left; intro j hj
        (obtain rfl | rfl | rfl : j = 0 ∨ j = 1 ∨ j = 2 := by omega) <;> simp [comp] <;> first | exact hz.1 | exact hz.2
      · right
        have c1' : sabs e.x ≤ sabs e.y ∨ sabs e.x ≤ sabs e.z := by
          by_contra h; push Not at h; exact c1 ⟨h.1, h.2⟩
        have c2' : sabs e.y ≤ sabs e.x ∨ sabs e.y ≤ sabs e.z := by
          by_contra h; push Not at h; exact c2 ⟨h.1, h.2⟩
        have hz' : sabs e.z < sabs e.x ∨ sabs e.z < sabs e.y := by
          by_contra h; push Not at h; exact hz ⟨h.1, h.2⟩
        refine ⟨?_, ?_, rfl⟩
        · rcases c1' with a | a <;> rcases c2' with b | b <;> rcases hz' with c | c <;> first | exact le_antisymm a b | (exfalso; linarith)
        · rcases c1' with a | a <;> rcases c2' with b | b <;> rcases hz' with c | c <;> first | exact c | linarith

/-- `mat33::eigen_decomposition` asks the solver for ascending eigenvalues (`sortType = 1`): for a positive
    semi-definite matrix the selection then returns column 2, the column of the largest eigenvalue -/
theorem axisColumn_sorted (e : V3 R) (h0 : 0 ≤ e.x) (h1 : e.x ≤ e.y) (h2 : e.y ≤ e.z) : axisColumn e = 2 := by
  unfold axisColumn
  rw [sabs_of_nonneg h0, sabs_of_nonneg (le_trans h0 h1), sabs_of_nonneg (le_trans h0 (le_trans h1 h2))]
  rw [if_neg (fun h => absurd h.1 (not_lt.mpr h1)), if_neg (fun h => absurd h.2 (not_lt.mpr h2))]

end Simu.Geo
