import SimuVerif.Model.TissueD
import SimuVerif.Properties.C14Population
/-
  C14 — the assembled iteration with the DIVISION ROUND of `cell_divider::run` commutes with translations — PARTIAL.

  `TissueD.tissueIterationD` (lean/SimuVerif/Model/TissueD.lean) = `save_mesh`, the division round (readiness test, rebase of every
  ready mother, fresh ids, daughters appended, mothers removed, renumbering), `update_face_types` + `refine_meshes`, contact model,
  polarisation, forces, integrator, removal.  What `divide_cell` RETURNS for each successful division is an input (`DivEv`, recorded
  from the real run); tied bit for bit to the real solver in runs in which cells grow, divide (three generations), are remeshed and
  adhere (tools/props/c14_population.py, `run_division`).

  `tissueIterationD_translate_partial`: IF the daughters handed to the translated run are the translates of the daughters of the
  reference run (`ev.map (trEvD t)`), the iteration of the translated tissue is the translate of the iteration.
  MISSING LINK (why `_partial`): that `divide_cell` of the translated mother returns the translated daughters.  It is the composition
  of C09's stage facts — the recorded interface triangulation `D` lives in the frame of the division plane: `map_points_to_xy_plane`
  subtracts the mean of the interface points before rotating (`Gen.Division.translationOf`), so the 2-D sample points do not depend
  on where the tissue is — with `refineMesh_translate` for the two daughters and the translation invariance of the centroid / longest
  axis (eigen-solver: opaque, C12 `longest_axis_follows_partial`).  Model/Division.lean models the stages one by one against recorded
  stage inputs; it is not composed into one function from the mother to the refined daughters here.
-/
set_option linter.unusedSectionVars false
set_option linter.unusedVariables false
namespace Simu.C14
open Simu Simu.Forces Simu.Gen Simu.Remesh Simu.TissueR Simu.TissueP Simu.TissueD

section field
variable {R : Type} [Field R] [LinearOrder R] [IsStrictOrderedRing R]

/-- `remove_index` of the mothers commutes with the translation of the cells -/
theorem removeIdx_translate_D (t : V3 R) (cells : List (CellTR R)) (rm : List Nat) :
    Pop.removeIdx (cells.map (trCellR t)) rm = (Pop.removeIdx cells rm).map (trCellR t) := removeIdx_map_P _ _ _

/-- the readiness test reads `volume_` and the division volume; the rebase of a ready mother moves with it -/
theorem rebaseReady_translate (t : V3 R) (c : CellTR R) : rebaseReady (trCellR t c) = trCellR t (rebaseReady c) := by
  unfold rebaseReady
  have hr : readyD (trCellR t c) = readyD c := rfl
  rw [hr, rebaseCell_tr]
  cases readyD c with
  | false => rfl
  | true =>
    cases rebaseCell c with
    | error e => rfl
    | ok c' => rfl

theorem daughters_flat_translate (t : V3 R) : ∀ ev : List (DivEv R),
    ((ev.map (trEvD t)).flatMap fun e => [e.d1, e.d2]) = (ev.flatMap fun e => [e.d1, e.d2]).map (trCellR t)
  | [] => rfl
  | e :: es => by
    simp only [List.map_cons, List.flatMap_cons, List.map_append, daughters_flat_translate t es]
    rfl

/-- **the division round of `cell_divider::run` commutes with the translation**, the daughters being translated with the tissue:
    the same cells are ready, the same mothers are rebased and replaced, same ids, same order, same local ids, same counter -/
theorem divisionRoundD_translate (t : V3 R) (s : StateTP R) (ev : List (DivEv R)) :
    divisionRoundD (translateTP t s) (ev.map (trEvD t)) = translateTP t (divisionRoundD s ev) := by
  unfold divisionRoundD
  have hi : (translateTP t s).base.iter = s.base.iter := rfl
  have hp : (ev.map (trEvD t)).map (·.pos) = ev.map (·.pos) := by
    rw [List.map_map]; rfl
  have hc : (translateTP t s).base.cells.map rebaseReady = (s.base.cells.map rebaseReady).map (trCellR t) := by
    show (s.base.cells.map (trCellR t)).map rebaseReady = _
    rw [List.map_map, List.map_map]
    apply List.map_congr_left
    intro c _
    exact rebaseReady_translate t c
  rw [hi]
  cases dividesNow s.base.iter with
  | false => rfl
  | true =>
    simp only [if_true, hp, daughters_flat_translate, hc, List.length_map, List.isEmpty_map]
    rw [← List.map_append, removeIdx_translate_D]
    rfl

/-- steps 3, 4 on a given list: same exception or the translated cells, when no pass reads a released slot -/
theorem refineStageT_translate (fn : Fn R) (K : ConstsTR R) (s : StateTR R) (t : V3 R)
    (hl : ∀ c ∈ s.cells, refineLiveCell fn K c = true) :
    refineStageT fn K (translateTR t s) = (refineStageT fn K s).map (translateTR t) := by
  unfold refineStageT
  show (collect ((s.cells.map (trCellR t)).map (refineCell fn K))).map _ = _
  rw [collect_congr (trCellR t) (refineCell fn K) (trCellR t) s.cells (fun c hc => refineCell_tr fn K c t (hl c hc))]
  show _ = Except.map (translateTR t) (Except.map _ (collect (s.cells.map (refineCell fn K))))
  cases collect (s.cells.map (refineCell fn K)) with
  | error e => rfl
  | ok cs => rfl

section floorD
variable [FloorRing R]

theorem stepOkTD_parts {fn : Fn R} {fx : FX R} {K : ConstsTR R} {s : StateTP R} {ev : List (DivEv R)}
    (hok : stepOkTD fn fx K s ev = true) :
    ∀ b1, saveMeshT fn K s.base = .ok b1 →
      (∀ c ∈ (divisionRoundD { s with base := b1 } ev).base.cells, refineLiveCell fn K c = true) ∧
      ∀ b3, refineStageT fn K (divisionRoundD { s with base := b1 } ev).base = .ok b3 → ∀ c ∈ b3.cells, cellMeshOk c = true := by
  intro b1 hs
  unfold stepOkTD stepOkFromD at hok
  rw [hs] at hok
  simp only [Bool.and_eq_true] at hok
  obtain ⟨_, ⟨_, hl⟩, hm⟩ := hok
  refine ⟨fun c hc => ?_, fun b3 h3 c hc => ?_⟩
  · rw [List.all_eq_true] at hl
    have := hl c hc
    simp only [Bool.and_eq_true] at this
    exact this.1
  · rw [h3] at hm
    simp only [Bool.and_eq_true, List.all_eq_true] at hm
    exact hm.1.1 c hc

/-- steps 1, 2 commute with the translation (daughters translated with the tissue) -/
theorem afterDividerD_translate (fn : Fn R) (K : ConstsTR R) (s : StateTP R) (ev : List (DivEv R)) (t : V3 R) :
    afterDividerD fn K (translateTP t s) (ev.map (trEvD t)) = (afterDividerD fn K s ev).map (translateTP t) := by
  unfold afterDividerD
  show (saveMeshT fn K (translateTR t s.base)).map _ = _
  rw [saveMeshT_tr]
  cases saveMeshT fn K s.base with
  | error e => rfl
  | ok b1 =>
    show Except.ok (divisionRoundD (translateTP t { s with base := b1 }) (ev.map (trEvD t))) = Except.ok (translateTP t (divisionRoundD { s with base := b1 } ev))
    rw [divisionRoundD_translate]

/-- steps 3–11 on the list the divider left commute with the translation -/
theorem restD_translate (fn : Fn R) (fx : FX R) (K : ConstsTR R) (S : TissueSetup fn K.base) (s2 : StateTP R) (t : V3 R)
    (hl : ∀ c ∈ s2.base.cells, refineLiveCell fn K c = true)
    (hm : ∀ b3, refineStageT fn K s2.base = .ok b3 → ∀ c ∈ b3.cells, cellMeshOk c = true) :
    restD fn fx K (translateTP t s2) = (restD fn fx K s2).map (translateTP t) := by
  unfold restD
  show (refineStageT fn K (translateTR t s2.base)).map _ = _
  rw [refineStageT_translate fn K _ t hl]
  cases h3 : refineStageT fn K s2.base with
  | error e => rfl
  | ok b3 =>
    have hm3 := hm b3 h3
    show Except.ok (removalP { translateTP t s2 with base := physStage fn fx K (translateTR t b3) })
      = Except.ok (translateTP t (removalP { s2 with base := physStage fn fx K b3 }))
    rw [physStage_tr fn fx K S b3 (fun c hc => (cellMeshOk_uses (hm3 c hc)).1) (fun c hc => (cellMeshOk_uses (hm3 c hc)).2) t,
      ← removalP_translate]
    rfl

/-- **one whole solver iteration WITH the division round and the removal commutes with the translation — given that the daughters
    of the translated run are the translates of the recorded daughters** (see the header for the missing link) -/
theorem tissueIterationD_translate_partial (fn : Fn R) (fx : FX R) (K : ConstsTR R) (S : TissueSetup fn K.base) (s : StateTP R)
    (ev : List (DivEv R)) (t : V3 R) (hok : stepOkTD fn fx K s ev = true) :
    tissueIterationD fn fx K (translateTP t s) (ev.map (trEvD t)) = (tissueIterationD fn fx K s ev).map (translateTP t) := by
  have hparts := stepOkTD_parts hok
  unfold tissueIterationD
  rw [afterDividerD_translate]
  unfold afterDividerD
  cases hs : saveMeshT fn K s.base with
  | error e => rfl
  | ok b1 =>
    obtain ⟨hl, hm⟩ := hparts b1 hs
    show restD fn fx K (translateTP t (divisionRoundD { s with base := b1 } ev)) = (restD fn fx K (divisionRoundD { s with base := b1 } ev)).map (translateTP t)
    exact restD_translate fn fx K S _ t hl hm

/-- any number of iterations with recorded divisions -/
theorem tissueRunD_translate_partial (fn : Fn R) (fx : FX R) (K : ConstsTR R) (S : TissueSetup fn K.base) :
    ∀ (evs : List (List (DivEv R))) (s : StateTP R) (t : V3 R), runOkTD fn fx K evs s = true →
    tissueRunD fn fx K (evs.map (List.map (trEvD t))) (translateTP t s) = (tissueRunD fn fx K evs s).map (translateTP t)
  | [], s, t, _ => rfl
  | ev :: rest, s, t, hok => by
    unfold runOkTD at hok
    simp only [Bool.and_eq_true] at hok
    simp only [List.map_cons]
    unfold tissueRunD
    rw [tissueIterationD_translate_partial fn fx K S s ev t hok.1]
    cases hc : tissueIterationD fn fx K s ev with
    | error e => rfl
    | ok s' =>
      have h2 := hok.2
      rw [hc] at h2
      exact tissueRunD_translate_partial fn fx K S rest s' t h2

end floorD

/-- **the population after a division round**: in a division iteration with k recorded divisions the counter advances by 2k; there
    is one identity per cell when there was one before; when something divided, local id = position for every cell of the new list -/
theorem divisionRoundD_population (s : StateTP R) (ev : List (DivEv R)) (hd : dividesNow s.base.iter = true)
    (hl : s.idents.length = s.base.cells.length) :
    (divisionRoundD s ev).maxId = s.maxId + 2 * ev.length ∧
    (divisionRoundD s ev).idents.length = (divisionRoundD s ev).base.cells.length ∧
    (ev ≠ [] → (divisionRoundD s ev).idents.zipIdx.all (fun p => p.1.localId == p.2) = true) := by
  have hf : ∀ (m n : Nat), (freshIdents m n).length = 2 * n := by
    intro m n
    induction n generalizing m with
    | zero => rfl
    | succ k ih => simp only [freshIdents, List.length_cons, ih]; omega
  have hdl : (ev.flatMap fun e => [e.d1, e.d2]).length = 2 * ev.length := by
    induction ev with
    | nil => rfl
    | cons e es ih => simp only [List.flatMap_cons, List.length_append, List.length_cons, List.length_nil, ih]; omega
  have hlen : (Pop.removeIdx (s.idents ++ freshIdents s.maxId ev.length) (ev.map (·.pos))).length
      = (Pop.removeIdx (s.base.cells.map rebaseReady ++ ev.flatMap fun e => [e.d1, e.d2]) (ev.map (·.pos))).length := by
    apply removeIdxAux_length_P
    rw [List.length_append, List.length_append, hf, hdl, List.length_map, hl]
  have he : divisionRoundD s ev =
      { base := { s.base with cells := Pop.removeIdx (s.base.cells.map rebaseReady ++ ev.flatMap fun e => [e.d1, e.d2]) (ev.map (·.pos)) },
        idents := if ev.isEmpty then Pop.removeIdx (s.idents ++ freshIdents s.maxId ev.length) (ev.map (·.pos))
                  else renumberIdents (Pop.removeIdx (s.idents ++ freshIdents s.maxId ev.length) (ev.map (·.pos))),
        maxId := s.maxId + 2 * ev.length } := by
    unfold divisionRoundD
    rw [hd]
    rfl
  rw [he]
  refine ⟨rfl, ?_, ?_⟩
  · cases ev with
    | nil => exact hlen
    | cons e es =>
      show (renumberIdents _).length = _
      rw [renumberIdents_length]; exact hlen
  · intro hne
    cases ev with
    | nil => exact absurd rfl hne
    | cons e es => exact renumberIdents_ok _

end field
end Simu.C14
