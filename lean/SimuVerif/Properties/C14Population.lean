import SimuVerif.Model.TissueP
import SimuVerif.Properties.C14TissueInvariants
import SimuVerif.Properties.C03Search
import SimuVerif.Properties.C08
/-
  C14 — the assembled iteration of a tissue WITH REMOVAL of the cells below their minimum volume commutes with translations.

  `TissueP.tissueIterationP` (lean/SimuVerif/Model/TissueP.lean) = `TissueR.tissueIterationR` (a whole `solver::run_iteration` for N
  interacting epithelial cells, `refine_meshes` and the rebase of `save_mesh` included) followed by the tail of `run_iteration`:
  `erase(remove_if(… is_below_min_vol …))` and the renumbering loop of the local ids, in the order that C08's translator extracts
  from `solver.cpp` on every run (`endPhases_as_modelled`), with the predicate that C04's translator regenerates from the lambda
  (`Gen.CellCycle.removalLambda`), evaluated on the `volume_` stored by `apply_internal_forces` in the force phase.  It is tied bit
  for bit to the real solver on every run (tools/props/c14_population.py: runs in which the first / a middle / the last cell, two cells
  at once, cells coupled to their neighbours ARE removed, compared over the iterations that follow: ids, local ids and the stale
  couplings of the survivors included).  Here, in exact arithmetic over any ordered field with a floor function:

    * `tissueIterationP_translate`   one iteration of the translated tissue = the translate of one iteration — the SAME cells are removed
                                     (the test is a function of the volume, which is a function of position differences: exact since the
                                     volume determinants are centred);
    * `tissueRunP_translate`, `tissueRunP_observables`, `domainTP_translate`   any number of iterations, removals included;
    * `population_after_removal`     what the removal does to the population: survivors = the cells whose volume is not below their
                                     minimum, in order, with their ids; local ids = positions; counter untouched; it IS the removal of
                                     C08's population model (`removal_is_C08_removal`), so C08's invariant is preserved;
    * `tissueRunP_invariants`        every cell that survives a run satisfies the mesh invariants of C01 (`Remesh.CellOk`), local ids =
                                     positions, and after the NEXT contact phase every coupling of a used node names a used node slot of a
                                     cell of the CURRENT list (`coupOk`; from Properties/C03Search.lean) — whatever the stale couplings left
                                     by the removal named;
    * `stepOkTP_of_invariants`       on a tissue of valid cells the domain predicate reduces to: no division, attribute tables as long as
                                     the node lists, no fuel exhaustion, local ids = positions, list not empty.

  Domain `stepOkTP` = `stepOkTR` WITHOUT "no cell below its minimum volume" (+ local ids = positions, list not empty).
-/
set_option linter.unusedSectionVars false
set_option linter.unusedVariables false
namespace Simu.C14
open Simu Simu.Forces Simu.Gen Simu.Remesh Simu.TissueR Simu.TissueP

/-- the tail of `solver::run_iteration` extracted from the source is the one the theorems are about: statistics, erase, renumber -/
theorem endPhases_as_modelled : TissueP.endPhases = [Pop.Phase.stats, Pop.Phase.remove, Pop.Phase.renumber] := by decide

/-! ### list lemmas about `Pop.removeIdx` (C08) -/

theorem removeIdxAux_map_P {α β : Type} (f : α → β) (rm : List Nat) : ∀ (l : List α) (i : Nat),
    Pop.removeIdxAux (l.map f) i rm = (Pop.removeIdxAux l i rm).map f
  | [], _ => rfl
  | a :: as, i => by
    simp only [List.map_cons, Pop.removeIdxAux]
    split
    · exact removeIdxAux_map_P f rm as (i + 1)
    · rw [List.map_cons, removeIdxAux_map_P f rm as (i + 1)]

theorem removeIdx_map_P {α β : Type} (f : α → β) (l : List α) (rm : List Nat) :
    Pop.removeIdx (l.map f) rm = (Pop.removeIdx l rm).map f := removeIdxAux_map_P f rm l 0

theorem removeIdxAux_zip_P {α β : Type} (rm : List Nat) : ∀ (l : List α) (m : List β) (i : Nat),
    Pop.removeIdxAux (l.zip m) i rm = (Pop.removeIdxAux l i rm).zip (Pop.removeIdxAux m i rm)
  | [], _, _ => by simp [Pop.removeIdxAux]
  | _ :: _, [], _ => by simp [Pop.removeIdxAux]
  | a :: as, b :: bs, i => by
    simp only [List.zip_cons_cons, Pop.removeIdxAux]
    split
    · exact removeIdxAux_zip_P rm as bs (i + 1)
    · rw [List.zip_cons_cons, removeIdxAux_zip_P rm as bs (i + 1)]

theorem removeIdx_zip_P {α β : Type} (l : List α) (m : List β) (rm : List Nat) :
    Pop.removeIdx (l.zip m) rm = (Pop.removeIdx l rm).zip (Pop.removeIdx m rm) := removeIdxAux_zip_P rm l m 0

theorem removeIdxAux_length_P {α β : Type} (rm : List Nat) : ∀ (l : List α) (m : List β) (i : Nat), l.length = m.length →
    (Pop.removeIdxAux l i rm).length = (Pop.removeIdxAux m i rm).length
  | [], [], _, _ => rfl
  | [], _ :: _, _, h => by cases h
  | _ :: _, [], _, h => by cases h
  | a :: as, b :: bs, i, h => by
    have h' : as.length = bs.length := by simpa using h
    simp only [Pop.removeIdxAux]
    split
    · exact removeIdxAux_length_P rm as bs (i + 1) h'
    · simp only [List.length_cons, removeIdxAux_length_P rm as bs (i + 1) h']

section anyScalarP
variable {R : Type} [Add R] [Sub R] [Mul R] [Div R] [Neg R] [Lit R] [LT R] [LE R] [DecidableLT R] [DecidableLE R] [DecidableEq R]

/-- the removal written out (from the extracted order of the calls) -/
theorem removalP_eq (s : StateTP R) :
    removalP s = { base := { s.base with cells := Pop.removeIdx s.base.cells (removedPositions s.base.cells) },
                   idents := renumberIdents (Pop.removeIdx s.idents (removedPositions s.base.cells)), maxId := s.maxId } := by
  unfold removalP
  rw [endPhases_as_modelled]
  rfl

theorem removedPositionsAux_map_P (g : CellTR R → CellTR R) (hg : ∀ c, removedP (g c) = removedP c) : ∀ (l : List (CellTR R)) (i : Nat),
    (((l.map g).zipIdx i).filter fun p => removedP p.1).map (·.2) = ((l.zipIdx i).filter fun p => removedP p.1).map (·.2)
  | [], _ => rfl
  | a :: as, i => by
    simp only [List.map_cons, List.zipIdx_cons, List.filter_cons, hg]
    split
    · simp only [List.map_cons, removedPositionsAux_map_P g hg as (i + 1)]
    · exact removedPositionsAux_map_P g hg as (i + 1)

/-- the renumbering loop makes local id = position -/
theorem renumberIdents_ok (l : List Ident) : (renumberIdents l).zipIdx.all (fun p => p.1.localId == p.2) = true := by
  rw [List.all_eq_true]
  intro p hp
  have : (renumberIdents l)[p.2]? = some p.1 := List.mem_zipIdx_iff_getElem?.1 hp
  unfold renumberIdents at this
  rw [List.getElem?_mapIdx] at this
  cases hd : l[p.2]? with
  | none => rw [hd] at this; cases this
  | some d =>
    rw [hd] at this
    simp only [Option.map_some, Option.some.injEq] at this
    rw [← this]
    simp

theorem renumberIdents_length (l : List Ident) : (renumberIdents l).length = l.length := by
  unfold renumberIdents; rw [List.length_mapIdx]

/-- **after the removal phase the local ids are the positions in the list** (one identity per cell) -/
theorem removalP_identsOk (s : StateTP R) (hl : s.idents.length = s.base.cells.length) : identsOk (removalP s) = true := by
  rw [removalP_eq]
  unfold identsOk
  simp only [Bool.and_eq_true, beq_iff_eq]
  refine ⟨?_, renumberIdents_ok _⟩
  rw [renumberIdents_length]
  exact removeIdxAux_length_P _ _ _ 0 hl

/-! ### the tissue model does not change the number of cells -/

theorem collect_length_P {ε α : Type} : ∀ (l : List (Except ε α)) (xs : List α), collect l = .ok xs → xs.length = l.length
  | [], xs, h => by cases h; rfl
  | r :: rest, xs, h => by
    unfold collect at h
    cases hr : collect rest with
    | error e => rw [hr] at h; cases h
    | ok ys =>
      rw [hr] at h
      cases r with
      | error e => cases h
      | ok x =>
        cases h
        simp only [List.length_cons, collect_length_P rest ys hr]

theorem meshStageT_length_P {fn : Fn R} {K : ConstsTR R} {s s1 : StateTR R} (h : meshStageT fn K s = .ok s1) :
    s1.cells.length = s.cells.length := by
  unfold meshStageT at h
  cases hs : saveMeshT fn K s with
  | error e => rw [hs] at h; cases h
  | ok s0 =>
    rw [hs] at h
    have h0 : s0.cells.length = s.cells.length := by
      unfold saveMeshT at hs
      split at hs
      · cases hc : collect (s.cells.map rebaseCell) with
        | error e => rw [hc] at hs; cases hs
        | ok cs =>
          rw [hc] at hs
          cases hs
          show cs.length = _
          rw [collect_length_P _ _ hc, List.length_map]
      · cases hs; rfl
    cases hc : collect (s0.cells.map (refineCell fn K)) with
    | error e =>
      simp only [Except.bind, hc, Except.map] at h
      cases h
    | ok cs =>
      simp only [Except.bind, hc, Except.map] at h
      cases h
      show cs.length = _
      rw [collect_length_P _ _ hc, List.length_map, h0]

theorem physStage_length_P (fn : Fn R) (fx : FX R) (K : ConstsTR R) (s : StateTR R) :
    (physStage fn fx K s).cells.length = s.cells.length := by
  unfold physStage physFrom integrateR ofDynR beforeIntegrationR polariseR contactRunR
  dsimp only
  split <;> simp [ofPopR, writeMutR]

theorem tissueIterationR_length_P {fn : Fn R} {fx : FX R} {K : ConstsTR R} {s s' : StateTR R}
    (h : tissueIterationR fn fx K s = .ok s') : s'.cells.length = s.cells.length := by
  unfold tissueIterationR at h
  cases hm : meshStageT fn K s with
  | error e => rw [hm] at h; cases h
  | ok s1 =>
    rw [hm] at h
    cases h
    rw [physStage_length_P, meshStageT_length_P hm]

/-! ### C08's population model -/

/-- **the removal phase of the assembled model IS the removal of C08's population model** on the population the state carries:
    erase of the positions whose cells are below their minimum volume, then the renumbering loop -/
theorem removal_is_C08_removal (s : StateTP R) :
    popOf (removalP s) = Pop.renumber (Pop.eraseSmall (removedPositions s.base.cells) (popOf s)) := by
  rw [removalP_eq]
  unfold popOf Pop.renumber Pop.eraseSmall Pop.renumberCells renumberIdents
  simp only [Pop.State.mk.injEq, and_true, true_and]
  rw [removeIdx_map_P, removeIdx_zip_P]
  apply List.ext_getElem?
  intro i
  simp only [List.getElem?_map, List.getElem?_mapIdx, List.zip, List.getElem?_zipWith]
  cases (Pop.removeIdx s.base.cells (removedPositions s.base.cells))[i]? with
  | none => rfl
  | some c =>
    cases (Pop.removeIdx s.idents (removedPositions s.base.cells))[i]? with
    | none => rfl
    | some d => rfl

end anyScalarP

section field
variable {R : Type} [Field R] [LinearOrder R] [IsStrictOrderedRing R]

/-! ### the removal test and the removal phase on the translated tissue -/

/-- the answer of the `remove_if` predicate does not depend on where the cell is: it reads `volume_`, `target_volume_` and the
    minimum volume of the cell type -/
theorem removedP_translate (t : V3 R) (c : CellTR R) : removedP (trCellR t c) = removedP c := rfl

/-- **for a non-negative volume the predicate answers "volume below the minimum volume of the cell type"** (the second evaluation,
    after `clear_data` zeroed the volume, cannot answer differently) -/
theorem removed_exactly_P (c : CellTR R) (hv : 0 ≤ c.volume) : removedP c = true ↔ c.volume < c.k.minVol := by
  unfold removedP Gen.CellCycle.removalLambda
  by_cases h : c.volume < c.k.minVol
  · simp only [h, if_true, decide_eq_true_eq, lit_zero, iff_true]
    exact lt_of_le_of_lt hv h
  · simp only [h, if_false, decide_eq_true_eq]

theorem removedPositions_translate (t : V3 R) (cells : List (CellTR R)) :
    removedPositions (cells.map (trCellR t)) = removedPositions cells :=
  removedPositionsAux_map_P (trCellR t) (removedP_translate t) cells 0

/-- steps 9, 10, 10' commute with the translation: the same positions are erased -/
theorem removalP_translate (t : V3 R) (s : StateTP R) : removalP (translateTP t s) = translateTP t (removalP s) := by
  rw [removalP_eq, removalP_eq]
  unfold translateTP translateTR
  simp only [removedPositions_translate, removeIdx_map_P]

section floorP
variable [FloorRing R]

/-- `tissueIterationR_translate` needs less than `stepOkTR`: no released slot is read by a refinement pass, and the refined cells are
    consistent meshes (nothing about volumes) -/
theorem tissueIterationR_translate_P (fn : Fn R) (fx : FX R) (K : ConstsTR R) (S : TissueSetup fn K.base) (s : StateTR R) (t : V3 R)
    (hl : refineLiveT fn K s = true) (hm : ∀ s1, meshStageT fn K s = .ok s1 → ∀ c ∈ s1.cells, cellMeshOk c = true) :
    tissueIterationR fn fx K (translateTR t s) = (tissueIterationR fn fx K s).map (translateTR t) := by
  unfold tissueIterationR
  rw [meshStageT_tr fn K s t hl]
  cases hs : meshStageT fn K s with
  | error e => rfl
  | ok s1 =>
    show Except.ok (physStage fn fx K (translateTR t s1)) = Except.ok (translateTR t (physStage fn fx K s1))
    rw [physStage_tr fn fx K S s1 (fun c hc => (cellMeshOk_uses (hm s1 hs c hc)).1) (fun c hc => (cellMeshOk_uses (hm s1 hs c hc)).2) t]

theorem stepOkTP_parts {fn : Fn R} {fx : FX R} {K : ConstsTR R} {s : StateTP R} (hok : stepOkTP fn fx K s = true) :
    refineLiveT fn K s.base = true ∧ ∀ s1, meshStageT fn K s.base = .ok s1 → ∀ c ∈ s1.cells, cellMeshOk c = true := by
  unfold stepOkTP stepOkFromP at hok
  simp only [Bool.and_eq_true] at hok
  obtain ⟨⟨_, hl⟩, hm⟩ := hok
  refine ⟨hl, fun s1 hs c hc => ?_⟩
  rw [hs] at hm
  simp only [Bool.and_eq_true, List.all_eq_true] at hm
  exact hm.1.1 c hc

/-- **one whole solver iteration of a tissue — remeshing, rebase AND the removal of the cells below their minimum volume — commutes
    with the translation**: the same exception, or the same cells removed, the used nodes of the survivors shifted by `t` and
    everything else (ids, local ids, stale couplings included) identical -/
theorem tissueIterationP_translate (fn : Fn R) (fx : FX R) (K : ConstsTR R) (S : TissueSetup fn K.base) (s : StateTP R) (t : V3 R)
    (hok : stepOkTP fn fx K s = true) :
    tissueIterationP fn fx K (translateTP t s) = (tissueIterationP fn fx K s).map (translateTP t) := by
  obtain ⟨hl, hm⟩ := stepOkTP_parts hok
  unfold tissueIterationP
  show (tissueIterationR fn fx K (translateTR t s.base)).map _ = _
  rw [tissueIterationR_translate_P fn fx K S s.base t hl hm]
  cases tissueIterationR fn fx K s.base with
  | error e => rfl
  | ok b =>
    show Except.ok (removalP (translateTP t { s with base := b })) = Except.ok (translateTP t (removalP { s with base := b }))
    rw [removalP_translate]

theorem identsOk_translate (t : V3 R) (s : StateTP R) : identsOk (translateTP t s) = identsOk s := by
  unfold identsOk translateTP translateTR
  simp only [List.length_map]

/-- the domain predicate of one iteration gives the same verdict on the translated tissue -/
theorem stepOkTP_translate (fn : Fn R) (fx : FX R) (K : ConstsTR R) (S : TissueSetup fn K.base) (s : StateTP R) (t : V3 R) :
    stepOkTP fn fx K (translateTP t s) = stepOkTP fn fx K s := by
  unfold stepOkTP stepOkFromP
  rw [identsOk_translate]
  simp only [show (translateTP t s).base = translateTR t s.base from rfl]
  rw [refineLiveT_tr, preOkTR_tr, show (translateTR t s.base).cells = s.base.cells.map (trCellR t) from rfl, List.isEmpty_map]
  cases hl : refineLiveT fn K s.base with
  | false => simp only [Bool.and_false, Bool.false_and]
  | true =>
    rw [meshStageT_tr fn K s.base t hl]
    cases hs : meshStageT fn K s.base with
    | error e => rfl
    | ok s1 =>
      show (_ && ((s1.cells.map (trCellR t)).all cellMeshOk
              && (beforeIntegrationR fn fx K.base (s1.cells.map (trCellR t))).2
              && coupOk (beforeIntegrationR fn fx K.base (s1.cells.map (trCellR t))).1))
        = (_ && (s1.cells.all cellMeshOk && (beforeIntegrationR fn fx K.base s1.cells).2
              && coupOk (beforeIntegrationR fn fx K.base s1.cells).1))
      have hc : (s1.cells.map (trCellR t)).all cellMeshOk = s1.cells.all cellMeshOk := by
        rw [List.all_map]; congr 1; funext c; exact cellMeshOk_tr t c
      rw [hc]
      cases hm : s1.cells.all cellMeshOk with
      | false => simp only [Bool.false_and, Bool.and_false]
      | true =>
        rw [List.all_eq_true] at hm
        rw [beforeIntegrationR_tr fn fx K.base S s1.cells (fun c hc => (cellMeshOk_uses (hm c hc)).1)
              (fun c hc => (cellMeshOk_uses (hm c hc)).2) t]
        simp only [coupOk_tr]

/-- **the domain moves with the tissue**, removals included -/
theorem domainTP_translate (fn : Fn R) (fx : FX R) (K : ConstsTR R) (S : TissueSetup fn K.base) (n : Nat) :
    ∀ (s : StateTP R) (t : V3 R), runOkTP fn fx K n (translateTP t s) = runOkTP fn fx K n s := by
  induction n with
  | zero => intro s t; rfl
  | succ k ih =>
    intro s t
    unfold runOkTP
    rw [stepOkTP_translate fn fx K S]
    cases hok : stepOkTP fn fx K s with
    | false => simp only [Bool.false_and]
    | true =>
      rw [tissueIterationP_translate fn fx K S s t hok]
      cases tissueIterationP fn fx K s with
      | error e => rfl
      | ok s' => exact congrArg _ (ih s' t)

/-- **n iterations of the translated tissue = the translate of n iterations**, remeshing passes, rebases, contacts and REMOVALS
    included: the same cells leave the list in the same iterations -/
theorem tissueRunP_translate (fn : Fn R) (fx : FX R) (K : ConstsTR R) (S : TissueSetup fn K.base) (n : Nat) :
    ∀ (s : StateTP R) (t : V3 R), runOkTP fn fx K n s = true →
    tissueRunP fn fx K n (translateTP t s) = (tissueRunP fn fx K n s).map (translateTP t) := by
  induction n with
  | zero => intro s t _; rfl
  | succ k ih =>
    intro s t hok
    unfold runOkTP at hok
    simp only [Bool.and_eq_true] at hok
    unfold tissueRunP
    rw [tissueIterationP_translate fn fx K S s t hok.1]
    cases hc : tissueIterationP fn fx K s with
    | error e => rfl
    | ok s' =>
      have h2 := hok.2
      rw [hc] at h2
      exact ih s' t h2

/-- **what is observed of the tissue is identical in both runs**: an exception is the same exception; otherwise the SAME cells have
    survived — the list of (cell id, local id), the id counter, the number of cells are identical — and time, iteration counter, file
    number are identical, and for every surviving cell: node attributes of every slot (forces, normals, curvatures, couplings — the
    stale ones left by a removal included —, closest distances), area, volume, target volume, pressure, face slots, edge index, free
    queues, used flags and momenta are identical, and every used node sits at the reference position + `t` -/
theorem tissueRunP_observables (fn : Fn R) (fx : FX R) (K : ConstsTR R) (S : TissueSetup fn K.base) (n : Nat) (s : StateTP R) (t : V3 R)
    (hok : runOkTP fn fx K n s = true) :
    (∀ e, tissueRunP fn fx K n s = .error e → tissueRunP fn fx K n (translateTP t s) = .error e) ∧
    (∀ s', tissueRunP fn fx K n s = .ok s' → ∃ s'', tissueRunP fn fx K n (translateTP t s) = .ok s'' ∧
      s''.idents = s'.idents ∧ s''.maxId = s'.maxId ∧
      s''.base.time = s'.base.time ∧ s''.base.iter = s'.base.iter ∧ s''.base.fileNo = s'.base.fileNo ∧ s''.base.defined = s'.base.defined ∧
      s''.base.cells.length = s'.base.cells.length ∧
      ∀ (ci : Nat) (c' : CellTR R), s'.base.cells[ci]? = some c' → ∃ c'' : CellTR R, s''.base.cells[ci]? = some c'' ∧
        c''.a = c'.a ∧ c''.area = c'.area ∧ c''.volume = c'.volume ∧ c''.tvol = c'.tvol ∧ c''.pressure = c'.pressure ∧
        c''.mesh.faces = c'.mesh.faces ∧ c''.mesh.edges = c'.mesh.edges ∧
        c''.mesh.freeNodes = c'.mesh.freeNodes ∧ c''.mesh.freeFaces = c'.mesh.freeFaces ∧
        (∀ i : Nat, usedN c''.mesh i = usedN c'.mesh i) ∧
        (∀ i : Nat, (c''.mesh.nodes[i]?).map (fun n : Node R => n.mom) = (c'.mesh.nodes[i]?).map (fun n : Node R => n.mom)) ∧
        (∀ i : Nat, usedN c'.mesh i = true → posOf c''.mesh i = posOf c'.mesh i + t)) := by
  have h := tissueRunP_translate fn fx K S n s t hok
  constructor
  · intro e he
    rw [h, he]; rfl
  · intro s' hs
    refine ⟨translateTP t s', by rw [h, hs]; rfl, rfl, rfl, rfl, rfl, rfl, rfl, ?_, ?_⟩
    · show (s'.base.cells.map (trCellR t)).length = _
      rw [List.length_map]
    · intro ci c' hc
      refine ⟨trCellR t c', ?_, rfl, rfl, rfl, rfl, rfl, rfl, rfl, rfl, rfl, ?_, ?_, ?_⟩
      · show (s'.base.cells.map (trCellR t))[ci]? = _
        rw [List.getElem?_map, hc]; rfl
      · intro i; exact tr_usedN t c'.mesh i
      · intro i
        show ((translateCell t c'.mesh).nodes[i]?).map _ = _
        rw [tr_getNode]
        cases c'.mesh.nodes[i]? with
        | none => rfl
        | some n => simp only [Option.map_some, trNode_mom]
      · intro i hi; exact tr_posOf t hi

end floorP

/-! ### the population after a removal -/

/-- **what the removal phase does to the population.**  With `rm` = the positions whose cell answers the `remove_if` predicate with true
    (for a non-negative volume: volume below the minimum volume of its type, `removed_exactly_P`):
    the cells / identities that stay are those at the positions not in `rm`, IN ORDER (`Pop.removeIdx` = the filter by position:
    C08's `removal_exact`); the persistent ids of the survivors are unchanged and form a sublist of the previous ids; the local id
    of every survivor is its position in the new list; there is one identity per cell; the id counter is untouched; and C08's
    population invariant (`C08.Inv`: local id = position, ids unique and below the counter, face owner / face type / node references
    valid) of the population the state carries is preserved (`C08.removal_inv`) -/
theorem population_after_removal (s : StateTP R) (hl : s.idents.length = s.base.cells.length) :
    let rm := removedPositions s.base.cells
    (removalP s).base.cells = (s.base.cells.zipIdx.filter (fun p => !rm.contains p.2)).map (·.1) ∧
    (removalP s).idents.map (·.cellId) = ((s.idents.zipIdx.filter (fun p => !rm.contains p.2)).map (·.1)).map (·.cellId) ∧
    ((removalP s).idents.map (·.cellId)).Sublist (s.idents.map (·.cellId)) ∧
    (∀ (i : Nat) (d : Ident), (removalP s).idents[i]? = some d → d.localId = i) ∧
    (removalP s).idents.length = (removalP s).base.cells.length ∧
    (removalP s).maxId = s.maxId ∧
    (C08.Inv (popOf s) → C08.Inv (popOf (removalP s))) := by
  intro rm
  have hid : (removalP s).idents.map (·.cellId) = (Pop.removeIdx s.idents rm).map (·.cellId) := by
    rw [removalP_eq]
    show (renumberIdents _).map _ = _
    unfold renumberIdents
    apply List.ext_getElem?
    intro i
    simp only [List.getElem?_map, List.getElem?_mapIdx]
    cases (Pop.removeIdx s.idents rm)[i]? <;> rfl
  refine ⟨?_, ?_, ?_, ?_, ?_, ?_, ?_⟩
  · rw [removalP_eq]; exact C08.removal_exact _ _
  · rw [hid, C08.removal_exact]
  · rw [hid]; exact (Pop.removeIdx_sublist _ _).map _
  · intro i d hd
    have h := removalP_identsOk s hl
    unfold identsOk at h
    simp only [Bool.and_eq_true, List.all_eq_true] at h
    have hi : i < (removalP s).idents.length := by
      rcases Nat.lt_or_ge i (removalP s).idents.length with h' | h'
      · exact h'
      · rw [List.getElem?_eq_none h'] at hd; cases hd
    have hm : (d, i) ∈ (removalP s).idents.zipIdx := by
      rw [List.mem_zipIdx_iff_getElem?]; simpa using hd
    simpa using h.2 (d, i) hm
  · have h := removalP_identsOk s hl
    unfold identsOk at h
    simp only [Bool.and_eq_true, beq_iff_eq] at h
    exact h.1
  · rw [removalP_eq]
  · intro hinv
    rw [removal_is_C08_removal]
    exact C08.removal_inv _ hinv

/-! ### invariants along runs with removals -/

/-- **one iteration with removals keeps the mesh invariants of every SURVIVING cell, and local ids = positions** -/
theorem tissueIterationP_invariants {fn : Fn R} {fx : FX R} {K : ConstsTR R} {s s' : StateTP R}
    (h : tissueIterationP fn fx K s = .ok s') (hc : AllOk s.base.cells) (hl : s.idents.length = s.base.cells.length) :
    AllOk s'.base.cells ∧ identsOk s' = true ∧ s'.idents.length = s'.base.cells.length := by
  unfold tissueIterationP at h
  cases hb : tissueIterationR fn fx K s.base with
  | error e => rw [hb] at h; cases h
  | ok b =>
    rw [hb] at h
    cases h
    have hcb : AllOk b.cells := tissueIterationR_allOk hb hc
    have hlb : s.idents.length = b.cells.length := by rw [tissueIterationR_length_P hb]; exact hl
    have hio := removalP_identsOk { s with base := b } hlb
    refine ⟨?_, hio, ?_⟩
    · show AllOk (removalP { s with base := b }).base.cells
      rw [removalP_eq]
      intro c hm
      exact hcb c ((Pop.removeIdx_sublist _ _).subset hm)
    · unfold identsOk at hio
      simp only [Bool.and_eq_true, beq_iff_eq] at hio
      exact hio.1

theorem tissueRunP_allOk {fn : Fn R} {fx : FX R} {K : ConstsTR R} :
    ∀ (n : Nat) {s s' : StateTP R}, tissueRunP fn fx K n s = .ok s' → AllOk s.base.cells → s.idents.length = s.base.cells.length →
      AllOk s'.base.cells ∧ s'.idents.length = s'.base.cells.length ∧ (0 < n → identsOk s' = true)
  | 0, s, s', h, hc, hl => by cases h; exact ⟨hc, hl, fun h0 => absurd h0 (Nat.lt_irrefl 0)⟩
  | n + 1, s, s', h, hc, hl => by
    unfold tissueRunP at h
    cases hi : tissueIterationP fn fx K s with
    | error e => rw [hi] at h; cases h
    | ok s1 =>
      rw [hi] at h
      obtain ⟨h1, h2, h3⟩ := tissueIterationP_invariants hi hc hl
      obtain ⟨h4, h5, h6⟩ := tissueRunP_allOk n h h1 h3
      refine ⟨h4, h5, fun _ => ?_⟩
      cases n with
      | zero => cases h; exact h2
      | succ m => exact h6 (Nat.succ_pos m)

/-- **every iteration of a run WITH REMOVALS from a tissue of valid cells works on valid cells, and the couplings written by the next
    contact phase name live cells**: after any number of iterations (n ≥ 1), whatever cells were removed on the way,
      * every surviving cell satisfies C01's mesh invariants, hence `meshOk`, `edgeFacesUsed`, `queueOk`, `usedCovered`, and
        `refineLive` / `replayOk` hold for the next iteration;
      * local id = position for every survivor, one identity per cell;
      * in the NEXT iteration, when its mesh stage returns, the coupling pass is defined and `coupOk` holds in front of the position
        update: every coupling of a used node names a used node slot of a cell of the CURRENT list (Properties/C03Search.lean) — the
        stale couplings that a removal leaves behind (they name positions of the old list) are gone before anything dereferences one -/
theorem tissueRunP_invariants (fn : Fn R) (fx : FX R) (K : ConstsTR R) (n : Nat) {s s' : StateTP R}
    (h : tissueRunP fn fx K (n + 1) s = .ok s') (hc : AllOk s.base.cells) (hl : s.idents.length = s.base.cells.length) :
    AllOk s'.base.cells ∧ identsOk s' = true ∧ refineLiveT fn K s'.base = true ∧
      (∀ c ∈ s'.base.cells, PipelineR.meshOk c.mesh = true ∧ edgeFacesUsed c.mesh = true ∧ queueOk c.mesh = true ∧
        usedCovered c.mesh = true) ∧
      (∀ s1, meshStageT fn K s'.base = .ok s1 →
        (beforeIntegrationR fn fx K.base s1.cells).2 = true ∧ coupOk (beforeIntegrationR fn fx K.base s1.cells).1 = true) := by
  obtain ⟨hc', _, hi⟩ := tissueRunP_allOk (n + 1) h hc hl
  refine ⟨hc', hi (Nat.succ_pos n), refineLiveT_of_allOk fn K hc', fun c hm => cellMeshOk_mesh_parts (hc' c hm), fun s1 hs => ?_⟩
  have h1 : AllOk s1.cells := meshStageT_allOk hs hc'
  have hF : C03S.FacesLive s1.cells := C03S.facesLive_of_liveCell s1.cells (fun c hm => by
    have := meshOk_of_invariants (h1 c hm)
    unfold PipelineR.meshOk at this
    simp only [Bool.and_eq_true] at this
    exact this.1.1.1)
  exact C03.beforeIntegrationR_defined_coupOk fn fx K.base s1.cells hF

/-- what is left of `stepOkTP` once the mesh conjuncts AND the coupling conjuncts are theorems: no division, attribute tables as long
    as the node lists, local ids = positions, a non-empty list, no fuel exhaustion -/
def quietStepTP (fn : Fn R) (K : ConstsTR R) (s : StateTP R) : Bool :=
  preOkTR s.base && identsOk s && !s.base.cells.isEmpty &&
  match meshStageT fn K s.base with
  | .error e => e != Remesh.Err.fuel
  | .ok s1 => s1.cells.all attrsOk

/-- **on a tissue of valid cells the domain predicate of an iteration with removals is its non-mesh, non-coupling part** -/
theorem stepOkTP_of_invariants (fn : Fn R) (fx : FX R) (K : ConstsTR R) {s : StateTP R} (hc : AllOk s.base.cells) :
    stepOkTP fn fx K s = quietStepTP fn K s := by
  unfold stepOkTP stepOkFromP quietStepTP
  rw [refineLiveT_of_allOk fn K hc]
  cases hm : meshStageT fn K s.base with
  | error e => simp
  | ok s1 =>
    have h1 := meshStageT_allOk hm hc
    have : s1.cells.all cellMeshOk = s1.cells.all attrsOk := by
      rw [Bool.eq_iff_iff, List.all_eq_true, List.all_eq_true]
      constructor
      · intro hh c hm'; rw [← cellMeshOk_of_cellOk (h1 c hm')]; exact hh c hm'
      · intro hh c hm'; rw [cellMeshOk_of_cellOk (h1 c hm')]; exact hh c hm'
    have hF : C03S.FacesLive s1.cells := C03S.facesLive_of_liveCell s1.cells (fun c hm' => by
      have := meshOk_of_invariants (h1 c hm')
      unfold PipelineR.meshOk at this
      simp only [Bool.and_eq_true] at this
      exact this.1.1.1)
    obtain ⟨hd, hco⟩ := C03.beforeIntegrationR_defined_coupOk fn fx K.base s1.cells hF
    simp only [this, hd, hco, Bool.and_true]

end field

/-! ### non-vacuity over ℚ (evaluated by the kernel): three tetrahedra in a row, the minimum volume of the MIDDLE one above its
    volume 1/6 — the iteration is in the domain, the middle cell is removed, the survivors keep their ids 0 and 2 and get the local
    ids 0 and 1, and the last cell (now at position 1) still carries the coupling `(1, 1)` that named a node of the removed cell -/
section nonvacuousP
set_option maxRecDepth 1000000

def cellAtQP (o : V3 ℚ) (minVol : ℚ) : CellTR ℚ := { cellAtQ o with k := { kQ with minVol := minVol } }

def sTripleQ : StateTP ℚ :=
  { base := ⟨1, 0, 0, [cellAtQP ⟨0, 0, 0⟩ (1 / 100), cellAtQP ⟨5 / 4, 0, 0⟩ (1 / 2), cellAtQP ⟨5 / 2, 0, 0⟩ (1 / 100)], true⟩,
    idents := [⟨0, 0⟩, ⟨1, 1⟩, ⟨2, 2⟩], maxId := 3 }

theorem tripleP_setup : TissueSetup fnQ2 KTRQ.base := pairR_setup

/-- the iteration is inside the domain of the theorems … -/
theorem tripleP_stepOk : stepOkTP fnQ2 C02.fxQ KTRQ sTripleQ = true := by decide +kernel

/-- … and it DOES remove the middle cell: ids `[0, 2]`, local ids `[0, 1]`, counter 3, and the survivors carry stale couplings -/
theorem tripleP_removes_middle :
    ((tissueIterationP fnQ2 C02.fxQ KTRQ sTripleQ).toOption.map fun s =>
        (s.idents.map (fun d => (d.cellId, d.localId)), s.maxId, s.base.cells.length)) = some ([(0, 0), (2, 1)], 3, 2)
    ∧ ((tissueIterationP fnQ2 C02.fxQ KTRQ sTripleQ).toOption.map fun s =>
        s.base.cells.map fun c => (c.a.coup.toList.filter Option.isSome)) = some [[some (1, 0)], [some (1, 1)]] := by
  decide +kernel

/-- so the triple placed anywhere goes through the same iteration and loses the same cell -/
example (t : V3 ℚ) : tissueIterationP fnQ2 C02.fxQ KTRQ (translateTP t sTripleQ)
    = (tissueIterationP fnQ2 C02.fxQ KTRQ sTripleQ).map (translateTP t) :=
  tissueIterationP_translate fnQ2 C02.fxQ KTRQ tripleP_setup sTripleQ t tripleP_stepOk

end nonvacuousP
end Simu.C14
